(* The state a SolutionTracks is constructed in satisfies the hypotheses of the session theorems.

   Construction (data_model/tracks.py: Tracks.__init__, _get_feature_set, _get_annotators,
   _setup_core_computed_features; solution_tracks.py), modelled on the raw inputs:
     raw_state       mk_state (Model/EditExec.v) on a graph whose nodes carry the time (and, without a
                     segmentation, the position), an optional label array, and the feature table of a
                     fresh Tracks: only the static features are registered, no annotator feature is active;
     construct       Tracks.enable_features([k]) with recomputation, one key at a time as
                     _setup_core_computed_features does: pos, area (with a segmentation), track_id,
                     lineage_id; then the further features the caller enables (iou, ellipse axes, ...).
   ctrk / clin are the answers of the networkx weakly-connected-components oracle for the tracklets
   (unbranched segments) and the lineages.
   Main statements: construct_WF, construct_session_WF, construct_session_timeline. *)
From Coq Require Import ZArith List Bool Lia Relations.
From FT Require Import Base.Dict Model.Edit Model.EditExec Model.Toggle Proofs.DictLemmas Proofs.EditInv Proofs.EditGraph
  Proofs.EditSeg Proofs.EditFresh Proofs.EditGlobal Proofs.ToggleProofs.
From FT Require Proofs.EditBook Proofs.EditNodeBasic Proofs.EditWFNode Proofs.EditSessions Proofs.EditSessionsFull Proofs.EditSessionsAll.
Import ListNotations.
Open Scope Z_scope.

(* ================================================================== *)
(* 1. what a bulk computation may change                                *)
(* ================================================================== *)
(* node attributes at the keys in K, the IoU of edges; nothing else of the graph, array, history *)
Record chg (K : Z -> Prop) (s s' : state) : Prop := {
  ch_seg : seg s' = seg s;
  ch_ids : node_ids s' = node_ids s;
  ch_skeys : keys (succs (g s')) = keys (succs (g s));
  ch_succ : forall u, successors s' u = successors s u;
  ch_attr : forall n k, ~ K k -> attr s' n k = attr s n k;
  ch_nodup : forall n, NoDup (keys (node_attrs s n)) -> NoDup (keys (node_attrs s' n));
  ch_eattr : forall u v k, k <> KIou -> lookup k (edge_attrs s' u v) = lookup k (edge_attrs s u v);
  ch_hist : undo_stack s' = undo_stack s /\ redo_stack s' = redo_stack s /\ rlog s' = rlog s /\ nctr s' = nctr s
}.

Lemma chg_refl K s : chg K s s.
Proof. constructor; auto. Qed.

Lemma chg_trans K a b c : chg K a b -> chg K b c -> chg K a c.
Proof.
  intros [A1 A2 A3 A4 A5 A6 A7 A8] [B1 B2 B3 B4 B5 B6 B7 B8]. constructor.
  - congruence.
  - congruence.
  - congruence.
  - intros u. now rewrite B4.
  - intros n k Hk. now rewrite B5, A5.
  - intros n H. apply B6, A6, H.
  - intros u v k Hk. now rewrite B7, A7.
  - destruct A8 as (X1 & X2 & X3 & X4), B8 as (Y1 & Y2 & Y3 & Y4). repeat split; congruence.
Qed.

Lemma chg_weaken (K K' : Z -> Prop) a b : (forall k, K k -> K' k) -> chg K a b -> chg K' a b.
Proof. intros H [A1 A2 A3 A4 A5 A6 A7 A8]. constructor; auto. Qed.

Lemma chg_fold {X} K (f : state -> X -> state) : (forall s x, chg K s (f s x)) -> forall l s, chg K s (fold_left f l s).
Proof. intros Hf. induction l as [|x r IH]; intros s; cbn [fold_left]; [apply chg_refl|]. eapply chg_trans; [apply Hf|apply IH]. Qed.

Lemma chg_sna (K : Z -> Prop) s n k v : K k -> chg K s (set_node_attr s n k v).
Proof.
  intros Hk. constructor.
  - apply EditBook.sna_seg.
  - apply EditBook.sna_node_ids.
  - now rewrite EditBook.sna_succs.
  - intros u. unfold successors, adj. now rewrite EditBook.sna_succs.
  - intros m k' Hk'. apply EditBook.sna_attr_other. right. intros ->. contradiction.
  - intros m. apply EditBook.sna_attrs_nodup.
  - intros a b k' _. unfold edge_attrs, adj. now rewrite EditBook.sna_succs.
  - unfold set_node_attr. destruct (lookup n (nodes (g s))); repeat split.
Qed.

Lemma chg_sea K s u v x : chg K s (set_edge_attr s u v KIou x).
Proof.
  destruct (has_edge s u v) eqn:He; [|rewrite (sea_noedge s u v KIou x He); apply chg_refl].
  destruct (EditBook.sea_nodes s u v KIou x) as (A & B & C & D).
  destruct (sea_spec s u v KIou x He) as [S1 S2]. constructor.
  - exact D.
  - unfold node_ids. now rewrite A.
  - apply EditBook.sea_succ_keys.
  - intros w. apply EditBook.sea_successors.
  - intros n k _. unfold attr, node_attrs. now rewrite A.
  - intros n. unfold node_attrs. now rewrite A.
  - intros a b k Hk. rewrite S2. destruct ((a =? u) && (b =? v)) eqn:E; [|reflexivity].
    apply andb_true_iff in E. destruct E as [E1 E2]. apply Z.eqb_eq in E1. apply Z.eqb_eq in E2. subst. now apply lookup_set_neq.
  - unfold set_edge_attr. rewrite He. repeat split.
Qed.

Lemma chg_same_g K s s' : g s' = g s -> seg s' = seg s -> undo_stack s' = undo_stack s -> redo_stack s' = redo_stack s ->
  rlog s' = rlog s -> nctr s' = nctr s -> chg K s s'.
Proof.
  intros Eg Es E1 E2 E3 E4. constructor.
  - exact Es.
  - unfold node_ids. now rewrite Eg.
  - now rewrite Eg.
  - intros u. unfold successors, adj. now rewrite Eg.
  - intros n k _. unfold attr, node_attrs. now rewrite Eg.
  - intros n. unfold node_attrs. now rewrite Eg.
  - intros u v k _. unfold edge_attrs, adj. now rewrite Eg.
  - auto.
Qed.

Lemma chg_rp_compute st ks : chg (fun k => In k ks) st (rp_compute st ks).
Proof.
  unfold rp_compute. destruct (seg st) as [sg|]; [|apply chg_refl].
  set (ks' := filter (fun k => memz k ks) (rp_act (ft st))).
  assert (Hk : forall k, In k ks' -> In k ks) by (intros k H; apply filter_In in H; destruct H as [_ H]; now apply memz_In in H).
  destruct ks' as [|k0 r] eqn:E; [apply chg_refl|]. rewrite <- E in *. apply chg_fold. intros s t. unfold rp_compute_frame.
  apply chg_fold. intros s1 l. destruct (has_node s1 l); [|apply chg_refl].
  clear E. induction ks' as [|k r' IH] in s1, Hk |- *; cbn [fold_left]; [apply chg_refl|].
  eapply chg_trans; [apply chg_sna; apply Hk; now left|]. apply IH. intros k' H. apply Hk. now right.
Qed.

Lemma chg_iou_compute K st ks : chg K st (iou_compute st ks).
Proof.
  unfold iou_compute. destruct (seg st) as [sg|]; [|apply chg_refl]. destruct (memz KIou ks && iou_act (ft st)); [|apply chg_refl].
  apply chg_fold. intros s e. apply chg_sea.
Qed.

Lemma chg_assign_ids key : forall comps i st book, chg (eq key) st (fst (fst (assign_ids key comps i st book))).
Proof.
  induction comps as [|c r IH]; intros i st book; cbn [assign_ids]; [apply chg_refl|].
  eapply chg_trans; [|apply IH]. apply chg_fold. intros s n. now apply chg_sna.
Qed.

Lemma chg_upd_bk K s b : chg K s (upd_bk s b).
Proof. apply chg_same_g; reflexivity. Qed.

Lemma chg_trk_compute st ks ctrk clin :
  chg (fun k => (k = KTrack /\ In KTrack ks) \/ (k = KLin /\ In KLin ks)) st (trk_compute st ks ctrk clin).
Proof.
  unfold trk_compute. set (K := fun k => (k = KTrack /\ In KTrack ks) \/ (k = KLin /\ In KLin ks)).
  set (s1 := if memz KTrack ks && trk_act (ft st) then _ else st).
  assert (H1 : chg K st s1).
  { unfold s1. destruct (memz KTrack ks && trk_act (ft st)) eqn:B; [|apply chg_refl].
    apply andb_true_iff in B. destruct B as [B _]. apply memz_In in B.
    pose proof (chg_assign_ids KTrack ctrk 1 st []) as H. destruct (assign_ids KTrack ctrk 1 st []) as [[s book] mx]. cbn [fst] in H.
    eapply chg_trans; [|apply chg_upd_bk]. eapply chg_weaken; [|exact H]. intros k <-. left. auto. }
  destruct (memz KLin ks && lin_act (ft s1)) eqn:B; [|exact H1].
  apply andb_true_iff in B. destruct B as [B _]. apply memz_In in B.
  pose proof (chg_assign_ids KLin clin 1 s1 []) as H. destruct (assign_ids KLin clin 1 s1 []) as [[s book] mx]. cbn [fst] in H.
  eapply chg_trans; [exact H1|]. eapply chg_trans; [|apply chg_upd_bk]. eapply chg_weaken; [|exact H]. intros k <-. right. auto.
Qed.

Lemma chg_enable st ks ctrk clin st' : enable_features st ks true ctrk clin = Ok tt st' -> chg (fun k => In k ks) st st'.
Proof.
  intros H. rewrite (enable_true_unfold _ _ _ _ _ H). set (s0 := upd_ft st _).
  eapply chg_trans; [apply (chg_same_g _ st s0); reflexivity|].
  eapply chg_trans; [apply chg_rp_compute|]. eapply chg_trans; [apply chg_iou_compute|].
  eapply chg_weaken; [|apply chg_trk_compute]. intros k [[-> Hk]|[-> Hk]]; exact Hk.
Qed.

(* ---- the lookups and the adjacency ---- *)
Lemma fold_bk {X} (f : state -> X -> state) (l : list X) : (forall s x, bk (f s x) = bk s) -> forall s, bk (fold_left f l s) = bk s.
Proof. intros Hf. induction l as [|x r IH]; intros s; cbn [fold_left]; [reflexivity|]. now rewrite IH, Hf. Qed.

Lemma rp_compute_bk st ks : bk (rp_compute st ks) = bk st /\ succs (g (rp_compute st ks)) = succs (g st).
Proof.
  unfold rp_compute. destruct (seg st) as [sg|]; [|auto]. destruct (filter _ _) as [|k0 r]; [auto|]. split.
  - apply fold_bk. intros s t. unfold rp_compute_frame. apply fold_bk. intros s1 l. destruct (has_node s1 l); [|reflexivity].
    apply fold_bk. intros s2 k. apply EditBook.sna_bk.
  - apply fold_succs. intros s t. unfold rp_compute_frame. apply fold_succs. intros s1 l. destruct (has_node s1 l); [|reflexivity].
    apply fold_succs. intros s2 k. apply EditBook.sna_succs.
Qed.

Lemma iou_compute_bk st ks : bk (iou_compute st ks) = bk st.
Proof.
  unfold iou_compute. destruct (seg st) as [sg|]; [|reflexivity]. destruct (memz KIou ks && iou_act (ft st)); [|reflexivity].
  apply fold_bk. intros s e. apply (EditBook.sea_nodes s (fst e) (snd e) KIou).
Qed.

Lemma trk_compute_bk_other st ks ctrk clin :
  (~ In KTrack ks -> trk_book (bk (trk_compute st ks ctrk clin)) = trk_book (bk st) /\ max_trk (bk (trk_compute st ks ctrk clin)) = max_trk (bk st)) /\
  (~ In KLin ks -> lin_book (bk (trk_compute st ks ctrk clin)) = lin_book (bk st) /\ max_lin (bk (trk_compute st ks ctrk clin)) = max_lin (bk st)).
Proof.
  unfold trk_compute.
  set (s1 := if memz KTrack ks && trk_act (ft st) then _ else st).
  assert (H1 : (~ In KTrack ks -> bk s1 = bk st) /\ lin_book (bk s1) = lin_book (bk st) /\ max_lin (bk s1) = max_lin (bk st)).
  { unfold s1. destruct (memz KTrack ks) eqn:B; cbn [andb].
    - split; [intros C; apply memz_In in B; contradiction|]. destruct (trk_act (ft st)); [|auto].
      pose proof (assign_ids_bk KTrack ctrk 1 st []) as Hb. destruct (assign_ids KTrack ctrk 1 st []) as [[s book] mx]. cbn [fst] in Hb.
      cbn [bk upd_bk lin_book max_lin]. now rewrite Hb.
    - auto. }
  destruct H1 as (A1 & A2 & A3).
  destruct (memz KLin ks) eqn:B; cbn [andb].
  - destruct (lin_act (ft s1)).
    + pose proof (assign_ids_bk KLin clin 1 s1 []) as Hb. destruct (assign_ids KLin clin 1 s1 []) as [[s book] mx]. cbn [fst] in Hb.
      cbn [bk upd_bk trk_book max_trk lin_book max_lin]. rewrite Hb. split; [intros C; rewrite (A1 C); auto|]. intros C. apply memz_In in B. contradiction.
    + split; [intros C; rewrite (A1 C); auto|]. intros C. apply memz_In in B. contradiction.
  - split; [intros C; rewrite (A1 C); auto|auto].
Qed.

Lemma enable_bk_other st ks ctrk clin st' : enable_features st ks true ctrk clin = Ok tt st' ->
  (~ In KTrack ks -> trk_book (bk st') = trk_book (bk st) /\ max_trk (bk st') = max_trk (bk st)) /\
  (~ In KLin ks -> lin_book (bk st') = lin_book (bk st) /\ max_lin (bk st') = max_lin (bk st)).
Proof.
  intros H. rewrite (enable_true_unfold _ _ _ _ _ H). set (s0 := upd_ft st _). set (s2 := iou_compute (rp_compute s0 ks) ks).
  assert (Eb : bk s2 = bk st) by (unfold s2; now rewrite iou_compute_bk, (proj1 (rp_compute_bk s0 ks))).
  destruct (trk_compute_bk_other s2 ks ctrk clin) as [A B]. rewrite Eb in A, B. auto.
Qed.

Lemma enable_succs_noiou st ks ctrk clin st' : enable_features st ks true ctrk clin = Ok tt st' -> ~ In KIou ks ->
  succs (g st') = succs (g st).
Proof.
  intros H Hk. rewrite (enable_true_unfold _ _ _ _ _ H). set (s0 := upd_ft st _).
  destruct (trk_compute_trk_only (iou_compute (rp_compute s0 ks) ks) ks ctrk clin) as ((_ & _ & E) & _). rewrite E.
  assert (Ei : iou_compute (rp_compute s0 ks) ks = rp_compute s0 ks).
  { unfold iou_compute. destruct (seg (rp_compute s0 ks)); [|reflexivity]. apply memz_false in Hk. now rewrite Hk. }
  rewrite Ei. now rewrite (proj2 (rp_compute_bk s0 ks)).
Qed.

(* ================================================================== *)
(* 2. heads and roots of the classes                                    *)
(* ================================================================== *)
(* one head per unbranched segment *)
Lemma segment_head_unique st a b : W_dict st -> W_forest st -> head st a -> head st b -> same_segment st a b -> a = b.
Proof.
  intros Hd Hf Ha Hb H.
  assert (K : forall x y, head st y -> EditNodeBasic.nd_reach st x y -> x = y).
  { intros x y [_ Hy] R. apply clos_rt_rtn1 in R. destruct R as [|z y' [He Hnd] _]; [reflexivity|]. exfalso. apply Hnd. now apply Hy. }
  destruct (EditNodeBasic.same_segment_comparable st Hf a b H) as [R|R]; [now apply K|symmetry; now apply K].
Qed.

(* one root per weakly connected component of a forest *)
Lemma component_root_unique st a b : W_forest st -> root st a -> root st b -> wconn st a b -> a = b.
Proof.
  intros Hf Ra Rb H.
  assert (K : forall n m, wconn st n m -> forall o, root st o -> (clos_refl_trans Z (edge st) o n <-> clos_refl_trans Z (edge st) o m)).
  { intros n m Hnm. induction Hnm as [x y Hxy|x|x y _ IH|x y z _ IH1 _ IH2]; intros o Ro.
    - split; intros A.
      + eapply rt_trans; [exact A|now apply rt_step].
      + apply clos_rt_rtn1 in A. destruct A as [|w y' Hw A'].
        * exfalso. apply (proj2 Ro x). exact Hxy.
        * assert (w = x) as -> by (exact (wf_in _ Hf w x y' Hw Hxy)). now apply clos_rtn1_rt.
    - tauto.
    - symmetry. now apply IH.
    - rewrite (IH1 o Ro). now apply IH2. }
  assert (A : clos_refl_trans Z (edge st) a b) by (apply (K a b H a Ra); apply rt_refl).
  apply clos_rt_rtn1 in A. destruct A as [|w b' Hw _]; [reflexivity|]. exfalso. exact (proj2 Rb w Hw).
Qed.

(* the classes only depend on the successor lists *)
Lemma same_segment_succ s s' : (forall u, successors s' u = successors s u) -> forall n m, same_segment s n m -> same_segment s' n m.
Proof.
  intros Hs n m H. assert (E : forall u v, nd_edge s u v -> nd_edge s' u v).
  { intros u v [He Hn]. split; [apply EditBook.edge_successors; rewrite Hs; now apply EditBook.edge_successors|]. unfold divides in *. now rewrite Hs. }
  induction H as [x y Hxy|x|x y _ IH|x y z _ IH1 _ IH2]; [apply rst_step; auto|apply rst_refl|now apply rst_sym|eapply rst_trans; eauto].
Qed.

Lemma wconn_succ s s' : (forall u, successors s' u = successors s u) -> forall n m, wconn s n m -> wconn s' n m.
Proof.
  intros Hs n m H. assert (E : forall u v, edge s u v -> edge s' u v).
  { intros u v He. apply EditBook.edge_successors. rewrite Hs. now apply EditBook.edge_successors. }
  induction H as [x y Hxy|x|x y _ IH|x y z _ IH1 _ IH2]; [apply rst_step; auto|apply rst_refl|now apply rst_sym|eapply rst_trans; eauto].
Qed.

Lemma in_concat_nth (cs : list (list Z)) n : In n (concat cs) <-> exists j c, nth_error cs j = Some c /\ In n c.
Proof.
  rewrite in_concat. split.
  - intros (c & Hc & Hn). apply In_nth_error in Hc. destruct Hc as [j Hj]. eauto.
  - intros (j & c & Hj & Hn). exists c. split; [eapply nth_error_In; eauto|exact Hn].
Qed.

Lemma NoDup_app_parts (l l' : list Z) : NoDup (l ++ l') -> NoDup l /\ NoDup l' /\ forall n, In n l -> ~ In n l'.
Proof.
  induction l as [|x r IH]; cbn [app]; intros H; [split; [constructor|split; [exact H|intros n []]]|].
  inversion H as [|? ? Hx Hr]; subst. destruct (IH Hr) as (A & B & C). split; [|split; [exact B|]].
  - constructor; [|exact A]. intros Hin. apply Hx. apply in_app_iff. now left.
  - intros n [->|Hn]; [intros Hin; apply Hx; apply in_app_iff; now right|now apply C].
Qed.

Lemma concat_disjoint (cs : list (list Z)) : NoDup (concat cs) -> comps_disjoint cs /\ forall c, In c cs -> NoDup c.
Proof.
  induction cs as [|c r IH]; cbn [concat]; intros H.
  - split; [intros [|i] j ? ? ? Hi; discriminate Hi|intros c []].
  - destruct (NoDup_app_parts _ _ H) as (Hc & Hr & Hx). destruct (IH Hr) as [Dr Nr].
    split; [|intros d [<-|Hd]; auto].
    intros [|i] [|j] c1 c2 n H1 H2 N1 N2; cbn [nth_error] in *; try reflexivity.
    + injection H1 as <-. exfalso. apply (Hx n N1). apply in_concat. exists c2. split; [eapply nth_error_In; eauto|exact N2].
    + injection H2 as <-. exfalso. apply (Hx n N2). apply in_concat. exists c1. split; [eapply nth_error_In; eauto|exact N1].
    + f_equal. eapply Dr; eauto.
Qed.

(* ================================================================== *)
(* 3. the raw inputs and the construction                               *)
(* ================================================================== *)
(* the feature table of a fresh Tracks (_get_feature_set, _get_annotators): time is registered; without a
   segmentation so are the position keys the caller named; the regionprops and edge annotators exist only
   with a segmentation; no annotator feature is active yet *)
Definition ft_raw (with_seg : bool) (posk : list Z) : feats :=
  {| reg_node := if with_seg then [KTime] else KTime :: posk; reg_edge := [];
     pos_keys := if with_seg then [KPos] else posk;
     rp_all := if with_seg then [KPos; KArea; KEll; KCirc; KPerim] else []; rp_act := [];
     iou_avail := with_seg; iou_act := false; trk_act := false; lin_act := false |}.

Definition has_seg (sg : option (list (list Z))) : bool := match sg with Some _ => true | None => false end.

(* graph, array, empty lookups and history, id counter *)
Definition raw_state (nd : dict attrs) (es : list (Z * Z * attrs)) (sg : option (list (list Z))) (posk : list Z) (c : Z) : state :=
  mk_state nd es sg (ft_raw (has_seg sg) posk) [] [] 0 0 c.

(* Tracks.enable_features([k]) *)
Definition enable1 (ctrk clin : list (list Z)) (st : state) (k : Z) : state := rstate (enable_features st [k] true ctrk clin).
(* _setup_core_computed_features: position and area when there is an array, then the two ids *)
Definition core_keys (with_seg : bool) : list Z := (if with_seg then [KPos; KArea] else []) ++ [KTrack; KLin].
(* ... and whatever else the caller enables afterwards *)
Definition construct (r0 : state) (ctrk clin : list (list Z)) (extra : list Z) : state :=
  fold_left (enable1 ctrk clin) (core_keys (has_seg (seg r0)) ++ extra) r0.

(* cs lists the classes of R over the nodes: every node once, classes non-empty and closed *)
Record classes_of (r0 : state) (R : Z -> Z -> Prop) (cs : list (list Z)) : Prop := {
  co_nodup : NoDup (concat cs);
  co_nonempty : forall c, In c cs -> c <> [];
  co_cover : forall n, is_node r0 n <-> In n (concat cs);
  co_class : forall c n m, In c cs -> In n c -> In m c -> R n m;
  co_closed : forall c n m, In c cs -> In n c -> is_node r0 m -> R n m -> In m c
}.

(* the hypotheses on the raw solution *)
Record raw_ok (r0 : state) (posk : list Z) (ctrk clin : list (list Z)) : Prop := {
  ro_ft : ft r0 = ft_raw (has_seg (seg r0)) posk;
  ro_posk : ~ In KTrack posk /\ ~ In KLin posk;          (* the position keys are not the id keys *)
  ro_undo : undo_stack r0 = [];
  ro_redo : redo_stack r0 = [];
  (* the dictionaries *)
  ro_nodup : NoDup (node_ids r0);
  ro_succ_nodup : NoDup (keys (succs (g r0)));
  ro_succ_keys : forall n, haskey n (succs (g r0)) = true <-> is_node r0 n;
  ro_adj_nodup : forall u, NoDup (successors r0 u);
  ro_edge_nodes : forall u v, edge r0 u v -> is_node r0 u /\ is_node r0 v;
  ro_time : forall n, is_node r0 n -> exists t, attr r0 n KTime = Some (VZ t);
  ro_attr_nodup : forall n, NoDup (keys (node_attrs r0 n));
  (* forward-in-time binary forest; labels and nodes one to one *)
  ro_forest : W_forest r0;
  ro_seg : W_seg r0;
  (* the oracle *)
  ro_trk : classes_of r0 (same_segment r0) ctrk;
  ro_lin : classes_of r0 (wconn r0) clin
}.

(* ---- the feature table: static facts of the fresh table ---- *)
Lemma ft_raw_cfg r0 posk : ft r0 = ft_raw (has_seg (seg r0)) posk -> ~ In KTrack posk /\ ~ In KLin posk ->
  cfg_keys r0 /\ W_reg r0 /\ In KTime (reg_node (ft r0)).
Proof.
  intros E [P1 P2]. split; [|split].
  - constructor; rewrite E; destruct (has_seg (seg r0)); cbn; try (repeat constructor; cbn; intuition discriminate); try tauto; try discriminate.
  - intros k Hk.
    assert (Ha : ~ active r0 k).
    { unfold active. rewrite E. destruct (has_seg (seg r0)); cbn; intros [[]|[[_ C]|[[_ C]|[_ C]]]]; discriminate C. }
    assert (Hr : ~ in_reg r0 k).
    { unfold available in Hk. unfold in_reg. rewrite E in *. destruct (has_seg (seg r0)); cbn in Hk.
      - destruct Hk as [<-|[<-|[<-|[<-|[<-|[<-|[<-|[<-|[]]]]]]]]]; cbn; intros H; try (destruct H as [H|[]]; discriminate H); try destruct H.
      - destruct Hk as [<-|[<-|[]]]; cbn; intros [H|H]; try discriminate H; contradiction. }
    tauto.
  - rewrite E. destruct (has_seg (seg r0)); cbn; auto.
Qed.

(* ================================================================== *)
(* 4. the invariant of the construction                                 *)
(* ================================================================== *)
(* the bulk id assignment: component number as id, the components as lookup entries *)
Definition ids_ok (key : Z) (comps : list (list Z)) (book : dict (list Z)) (mx : Z) (st : state) : Prop :=
  (forall j c n, nth_error comps j = Some c -> In n c -> attr st n key = Some (VZ (1 + Z.of_nat j))) /\
  (forall j c, nth_error comps j = Some c -> lookup (1 + Z.of_nat j) book = Some c) /\
  keys book = map (fun j => 1 + Z.of_nat j) (seq 0 (length comps)) /\ mx = Z.of_nat (length comps).

Record PInv (r0 : state) (ctrk clin : list (list Z)) (st : state) : Prop := {
  pi_chg : chg (fun k => k <> KTime) r0 st;
  pi_cfg : cfg_keys st;
  pi_reg : W_reg st;
  pi_time : In KTime (reg_node (ft st));
  pi_rp : rp_fresh st;
  pi_iou : iou_fresh st;
  pi_trk : trk_act (ft st) = true -> ids_ok KTrack ctrk (trk_book (bk st)) (max_trk (bk st)) st;
  pi_lin : lin_act (ft st) = true -> ids_ok KLin clin (lin_book (bk st)) (max_lin (bk st)) st
}.

Lemma chg_time r0 st m : chg (fun k => k <> KTime) r0 st -> time_of st m = time_of r0 m.
Proof. intros C. unfold time_of, zattr. rewrite (ch_attr _ _ _ C m KTime); [reflexivity|]. intros H. now apply H. Qed.

Lemma chg_is_node K r0 st m : chg K r0 st -> (is_node st m <-> is_node r0 m).
Proof. intros C. unfold is_node. now rewrite (ch_ids _ _ _ C). Qed.

Lemma chg_edge K r0 st u v : chg K r0 st -> (edge st u v <-> edge r0 u v).
Proof. intros C. rewrite !EditBook.edge_successors. now rewrite (ch_succ _ _ _ C). Qed.

Lemma W_seg_chg r0 st : chg (fun k => k <> KTime) r0 st -> W_seg r0 -> W_seg st.
Proof.
  intros C HW. destruct (seg r0) as [sg|] eqn:Hs; [|apply W_seg_none; now rewrite (ch_seg _ _ _ C)].
  assert (Hs' : seg st = Some sg) by (now rewrite (ch_seg _ _ _ C)).
  apply (W_seg_iff _ _ Hs'). apply (W_seg_iff _ _ Hs) in HW.
  apply (seg_inv_ext (is_node r0) (is_node st) (time_of r0) (time_of st)); [intros m; apply (chg_is_node _ r0 st m C)|intros m _; now apply chg_time|exact HW].
Qed.

Lemma W_forest_chg r0 st : chg (fun k => k <> KTime) r0 st -> W_forest r0 -> W_forest st.
Proof.
  intros C [F1 F2 F3]. constructor.
  - intros u u' v E1 E2. apply (F1 u u' v); now apply (chg_edge _ r0 st _ _ C).
  - intros u. rewrite (ch_succ _ _ _ C). apply F2.
  - intros u v E. rewrite !(chg_time r0 st _ C). apply F3. now apply (chg_edge _ r0 st _ _ C).
Qed.

Lemma PInv_init r0 posk ctrk clin : raw_ok r0 posk ctrk clin -> PInv r0 ctrk clin r0.
Proof.
  intros H. destruct (ft_raw_cfg r0 posk (ro_ft _ _ _ _ H) (ro_posk _ _ _ _ H)) as (A & B & C).
  constructor; auto.
  - apply chg_refl.
  - unfold rp_fresh. destruct (seg r0); [|exact I]. intros n k _ Hk. rewrite (ro_ft _ _ _ _ H) in Hk. destruct Hk.
  - unfold iou_fresh. destruct (seg r0); [|exact I]. intros Hk. rewrite (ro_ft _ _ _ _ H) in Hk. discriminate Hk.
  - intros Hk. rewrite (ro_ft _ _ _ _ H) in Hk. discriminate Hk.
  - intros Hk. rewrite (ro_ft _ _ _ _ H) in Hk. discriminate Hk.
Qed.

Lemma available_not_time st k : cfg_keys st -> In k (available st) -> k <> KTime.
Proof.
  intros Hc Hk. unfold available in Hk. apply in_app_iff in Hk. destruct Hk as [Hk|Hk].
  - now destruct (cfg_rp_not_special st k Hc Hk) as (_ & _ & _ & A).
  - apply in_app_iff in Hk. destruct Hk as [Hk|[<-|[<-|[]]]]; try discriminate. destruct (iou_avail (ft st)); [destruct Hk as [<-|[]]; discriminate|destruct Hk].
Qed.

Lemma enable1_flags st k ctrk clin st' : enable_features st [k] true ctrk clin = Ok tt st' ->
  iou_act (ft st') = (if (KIou =? k) && iou_avail (ft st) then true else iou_act (ft st)) /\
  trk_act (ft st') = (if KTrack =? k then true else trk_act (ft st)) /\
  lin_act (ft st') = (if KLin =? k then true else lin_act (ft st)).
Proof.
  intros H. rewrite (enable_ft _ _ _ _ _ _ H). cbn [register set_flags iou_act trk_act lin_act memz existsb]. rewrite !orb_false_r. auto.
Qed.

Lemma PInv_step r0 posk ctrk clin st k : raw_ok r0 posk ctrk clin -> PInv r0 ctrk clin st -> In k (available st) ->
  PInv r0 ctrk clin (enable1 ctrk clin st k) /\ enable_features st [k] true ctrk clin = Ok tt (enable1 ctrk clin st k).
Proof.
  intros Hraw [C Hcfg Hreg Htime Hrp Hiou Htrk Hlin] Hk.
  destruct (proj1 (known_keys_accepted st [k] true ctrk clin ltac:(intros k' [<-|[]]; exact Hk))) as [st' Hen].
  unfold enable1. rewrite Hen. cbn [rstate]. split; [|reflexivity].
  pose proof (available_not_time st k Hcfg Hk) as HkT.
  pose proof (chg_enable st [k] ctrk clin st' Hen) as C1.
  assert (C1' : chg (fun k' => k' <> KTime) st st') by (eapply chg_weaken; [|exact C1]; intros k' [<-|[]]; exact HkT).
  pose proof (chg_trans _ _ _ _ C C1') as C'.
  destruct (enable_registry st [k] true ctrk clin st' Hcfg Hreg Hen) as (Hcfg' & Hreg' & _ & Hother).
  destruct (enable1_flags st k ctrk clin st' Hen) as (Fi & Ft & Fl).
  pose proof (W_seg_chg r0 st C (ro_seg _ _ _ _ Hraw)) as WS.
  assert (Hnode : forall cs R n, classes_of r0 R cs -> In n (concat cs) -> is_node st n).
  { intros cs R n Hc Hin. apply (chg_is_node _ r0 st n C). now apply (co_cover _ _ _ Hc). }
  constructor.
  - exact C'.
  - exact Hcfg'.
  - exact Hreg'.
  - apply (proj1 (Hother KTime ltac:(intros [E|[]]; now apply HkT))). exact Htime.
  - destruct (seg st) as [sg|] eqn:Hs.
    + exact (enable_rp_fresh_thm st sg [k] ctrk clin st' Hcfg Hs WS Hen Hrp).
    + unfold rp_fresh. now rewrite (ch_seg _ _ _ C1), Hs.
  - destruct (seg st) as [sg|] eqn:Hs; [|unfold iou_fresh; now rewrite (ch_seg _ _ _ C1), Hs].
    assert (Hs' : seg st' = Some sg) by (now rewrite (ch_seg _ _ _ C1)).
    destruct (Z.eq_dec k KIou) as [->|Hne].
    + destruct (enable_fresh_iou_thm st sg [KIou] ctrk clin st' Hcfg Hs WS Hen (or_introl eq_refl)) as (_ & E2 & E3).
      unfold iou_fresh. rewrite Hs'. intros _ u v He. apply E3; [exact He|]. rewrite (chg_time r0 st' u C').
      apply (chg_edge _ r0 st' u v C') in He. destruct (ro_edge_nodes _ _ _ _ Hraw u v He) as [Nu Nv].
      pose proof (ro_seg _ _ _ _ Hraw) as WS0. assert (Hs0 : seg r0 = Some sg) by (now rewrite <- (ch_seg _ _ _ C)).
      apply (W_seg_iff _ _ Hs0) in WS0. destruct WS0 as (I1 & _). destruct (I1 u Nu) as [Fu _]. destruct (I1 v Nv) as [Fv _].
      apply frame_ok_range in Fu. apply frame_ok_range in Fv. pose proof (wf_time _ (ro_forest _ _ _ _ Hraw) u v He). lia.
    + assert (Es : succs (g st') = succs (g st)) by (apply (enable_succs_noiou st [k] ctrk clin st' Hen); intros [E|[]]; now apply Hne).
      assert (Ei : iou_act (ft st') = iou_act (ft st)).
      { rewrite Fi. destruct (Z.eqb_spec KIou k) as [E|_]; [now contradiction Hne|reflexivity]. }
      unfold iou_fresh in *. rewrite Hs'. rewrite Hs in Hiou. rewrite Ei. intros Hact u v He.
      unfold edge in He. rewrite (has_edge_succs st' st u v Es) in He. rewrite (edge_attrs_succs st' st u v Es), (Hiou Hact u v He). f_equal.
      symmetry. apply iou_of_ext; try reflexivity; apply (chg_time st st' _ C1').
  - intros Hact. rewrite Ft in Hact. destruct (Z.eqb_spec KTrack k) as [<-|Hne].
    + destruct (concat_disjoint ctrk (co_nodup _ _ _ (ro_trk _ _ _ _ Hraw))) as [Hdj _].
      destruct (enable_ids_trk_thm st [KTrack] ctrk clin st' Hen (or_introl eq_refl) Hdj) as (_ & A & B & D & E).
      split; [|split; [exact B|split; [exact D|exact E]]]. intros j c n Hj Hn. apply (A j c n Hj Hn).
      apply (Hnode ctrk _ n (ro_trk _ _ _ _ Hraw)). apply in_concat_nth. eauto.
    + destruct (Htrk Hact) as (A & B & D & E). destruct (proj1 (enable_bk_other st [k] ctrk clin st' Hen)) as [Eb Em]; [intros [X|[]]; now apply Hne|].
      rewrite Eb, Em. split; [|auto]. intros j c n Hj Hn. rewrite (ch_attr _ _ _ C1 n KTrack); [now apply (A j c n)|]. intros [X|[]]. now apply Hne.
  - intros Hact. rewrite Fl in Hact. destruct (Z.eqb_spec KLin k) as [<-|Hne].
    + destruct (concat_disjoint clin (co_nodup _ _ _ (ro_lin _ _ _ _ Hraw))) as [Hdj _].
      destruct (enable_ids_lin_thm st [KLin] ctrk clin st' Hen (or_introl eq_refl) Hdj) as (_ & A & B & D & E).
      split; [|split; [exact B|split; [exact D|exact E]]]. intros j c n Hj Hn. apply (A j c n Hj Hn).
      apply (Hnode clin _ n (ro_lin _ _ _ _ Hraw)). apply in_concat_nth. eauto.
    + destruct (Hlin Hact) as (A & B & D & E). destruct (proj2 (enable_bk_other st [k] ctrk clin st' Hen)) as [Eb Em]; [intros [X|[]]; now apply Hne|].
      rewrite Eb, Em. split; [|auto]. intros j c n Hj Hn. rewrite (ch_attr _ _ _ C1 n KLin); [now apply (A j c n)|]. intros [X|[]]. now apply Hne.
Qed.

(* ================================================================== *)
(* 5. from the invariant to WF                                          *)
(* ================================================================== *)
Lemma ids_book_ok r0 st key comps book mx (idof : Z -> option Z) R :
  classes_of r0 R comps -> (forall n, is_node st n <-> is_node r0 n) -> ids_ok key comps book mx st ->
  (forall n, idof n = zattr st n key) -> book_ok st book idof mx.
Proof.
  intros Hc Hn (A & B & D & ->) Hid.
  destruct (concat_disjoint comps (co_nodup _ _ _ Hc)) as [Hdj Hnd].
  assert (Hidn : forall j c n, nth_error comps j = Some c -> In n c -> idof n = Some (1 + Z.of_nat j)).
  { intros j c n Hj Hin. rewrite Hid. unfold zattr. now rewrite (A j c n Hj Hin). }
  split; [|split].
  - rewrite D. apply FinFun.Injective_map_NoDup; [intros x y E; lia|apply seq_NoDup].
  - intros T l Hl. assert (HT : In T (keys book)) by (eapply lookup_Some_keys; eauto). rewrite D in HT.
    apply in_map_iff in HT. destruct HT as (j & <- & Hj). apply in_seq in Hj.
    destruct (nth_error comps j) as [c|] eqn:Ec; [|apply nth_error_None in Ec; lia].
    rewrite (B j c Ec) in Hl. injection Hl as <-.
    split; [apply (co_nonempty _ _ _ Hc); eapply nth_error_In; eauto|]. split; [apply Hnd; eapply nth_error_In; eauto|].
    intros n. split.
    + intros Hin. split; [apply Hn, (co_cover _ _ _ Hc), in_concat_nth; eauto|now apply (Hidn j c)].
    + intros [Nn En]. apply Hn, (co_cover _ _ _ Hc), in_concat_nth in Nn. destruct Nn as (j' & c' & Hj' & Hin').
      rewrite (Hidn j' c' n Hj' Hin') in En. assert (j' = j) by (assert (E2 : 1 + Z.of_nat j' = 1 + Z.of_nat j) by congruence; lia). subst j'. congruence.
  - intros n T Nn En. apply Hn, (co_cover _ _ _ Hc), in_concat_nth in Nn. destruct Nn as (j & c & Hj & Hin).
    rewrite (Hidn j c n Hj Hin) in En. assert (ET : T = 1 + Z.of_nat j) by congruence. subst T. split.
    + unfold haskey. now rewrite (B j c Hj).
    + assert (j < length comps)%nat by (apply nth_error_Some; congruence). lia.
Qed.

Theorem PInv_WF r0 posk ctrk clin st : raw_ok r0 posk ctrk clin -> PInv r0 ctrk clin st ->
  trk_act (ft st) = true -> lin_act (ft st) = true ->
  WF st /\ EditSessions.reg_ok st /\ EditBook.rp_disjoint st /\ EditSessionsFull.rp_decl st /\ undo_stack st = [] /\ redo_stack st = [].
Proof.
  intros Hraw [C Hcfg Hreg Htime Hrp Hiou Htrk Hlin] Ht Hl.
  specialize (Htrk Ht). specialize (Hlin Hl).
  assert (Hn : forall n, is_node st n <-> is_node r0 n) by (intros n; apply (chg_is_node _ r0 st n C)).
  assert (He : forall u v, edge st u v <-> edge r0 u v) by (intros u v; apply (chg_edge _ r0 st u v C)).
  pose proof (ro_trk _ _ _ _ Hraw) as Ctrk. pose proof (ro_lin _ _ _ _ Hraw) as Clin.
  (* the two id attributes of a node *)
  assert (Hidt : forall n, is_node st n -> exists j c, nth_error ctrk j = Some c /\ In n c /\ trk st n = Some (1 + Z.of_nat j)).
  { intros n Nn. apply Hn, (co_cover _ _ _ Ctrk), in_concat_nth in Nn. destruct Nn as (j & c & Hj & Hin). exists j, c. split; [exact Hj|split; [exact Hin|]].
    unfold trk, zattr. now rewrite (proj1 Htrk j c n Hj Hin). }
  assert (Hidl : forall n, is_node st n -> exists j c, nth_error clin j = Some c /\ In n c /\ lin st n = Some (1 + Z.of_nat j)).
  { intros n Nn. apply Hn, (co_cover _ _ _ Clin), in_concat_nth in Nn. destruct Nn as (j & c & Hj & Hin). exists j, c. split; [exact Hj|split; [exact Hin|]].
    unfold lin, zattr. now rewrite (proj1 Hlin j c n Hj Hin). }
  assert (WD : W_dict st).
  { constructor.
    - rewrite (ch_ids _ _ _ C). apply Hraw.
    - rewrite (ch_skeys _ _ _ C). apply Hraw.
    - intros n. rewrite Hn, <- (ro_succ_keys _ _ _ _ Hraw n), !haskey_keys, (ch_skeys _ _ _ C). tauto.
    - intros u. rewrite (ch_succ _ _ _ C). apply Hraw.
    - intros u v. rewrite He, !Hn. apply Hraw.
    - intros n Nn. rewrite (ch_attr _ _ _ C n KTime) by (intros X; now apply X). apply Hraw. now apply Hn.
    - intros n Nn. destruct (Hidt n Nn) as (j & c & Hj & Hin & _). eexists. exact (proj1 Htrk j c n Hj Hin).
    - intros n Nn. destruct (Hidl n Nn) as (j & c & Hj & Hin & _). eexists. exact (proj1 Hlin j c n Hj Hin).
    - intros n. apply (ch_nodup _ _ _ C). apply Hraw. }
  pose proof (W_forest_chg r0 st C (ro_forest _ _ _ _ Hraw)) as WFo.
  assert (Hss : forall n m, same_segment st n m <-> same_segment r0 n m).
  { intros n m. split; apply same_segment_succ; intros u; [symmetry|]; apply (ch_succ _ _ _ C). }
  assert (Hwc : forall n m, wconn st n m <-> wconn r0 n m).
  { intros n m. split; apply wconn_succ; intros u; [symmetry|]; apply (ch_succ _ _ _ C). }
  assert (Hsame : forall cs R n m j c j' c', classes_of r0 R cs -> nth_error cs j = Some c -> In n c -> nth_error cs j' = Some c' -> In m c' ->
             R n m -> j = j').
  { intros cs R n m j c j' c' Hc Hj Hin Hj' Hin' HR. destruct (concat_disjoint cs (co_nodup _ _ _ Hc)) as [Hdj _].
    apply (Hdj j j' c c' m Hj Hj'); [|exact Hin'].
    apply (co_closed _ _ _ Hc c n m); [eapply nth_error_In; eauto|exact Hin| |exact HR].
    apply (co_cover _ _ _ Hc). apply in_concat_nth. eauto. }
  assert (WT : W_trk st).
  { constructor.
    - intros u v Huv Hnd. destruct (wd_edge_nodes _ WD u v Huv) as [Nu Nv].
      destruct (Hidt u Nu) as (j & c & Hj & Hin & Eu). destruct (Hidt v Nv) as (j' & c' & Hj' & Hin' & Ev).
      assert (j = j') as <-; [|congruence].
      apply (Hsame ctrk _ u v j c j' c' Ctrk Hj Hin Hj' Hin'). apply Hss. apply rst_step. split; assumption.
    - intros a b Ha Hb E. destruct (Hidt a (proj1 Ha)) as (j & c & Hj & Hin & Ea). destruct (Hidt b (proj1 Hb)) as (j' & c' & Hj' & Hin' & Eb).
      assert (j' = j) by (rewrite Ea, Eb in E; assert (E2 : 1 + Z.of_nat j = 1 + Z.of_nat j') by congruence; lia). subst j'. assert (c' = c) by congruence. subst c'.
      apply (segment_head_unique st a b WD WFo Ha Hb). apply Hss. apply (co_class _ _ _ Ctrk c); auto. eapply nth_error_In; eauto. }
  assert (WL : W_lin st).
  { constructor.
    - intros u v Huv. destruct (wd_edge_nodes _ WD u v Huv) as [Nu Nv].
      destruct (Hidl u Nu) as (j & c & Hj & Hin & Eu). destruct (Hidl v Nv) as (j' & c' & Hj' & Hin' & Ev).
      assert (j = j') as <-; [|congruence].
      apply (Hsame clin _ u v j c j' c' Clin Hj Hin Hj' Hin'). apply Hwc. now apply rst_step.
    - intros a b Ha Hb E. destruct (Hidl a (proj1 Ha)) as (j & c & Hj & Hin & Ea). destruct (Hidl b (proj1 Hb)) as (j' & c' & Hj' & Hin' & Eb).
      assert (j' = j) by (rewrite Ea, Eb in E; assert (E2 : 1 + Z.of_nat j = 1 + Z.of_nat j') by congruence; lia). subst j'. assert (c' = c) by congruence. subst c'.
      apply (component_root_unique st a b WFo Ha Hb). apply Hwc. apply (co_class _ _ _ Clin c); auto. eapply nth_error_In; eauto. }
  assert (Hav : forall k, k = KTrack \/ k = KLin -> In k (available st)).
  { intros k Hk. unfold available. apply in_app_iff. right. apply in_app_iff. right. destruct Hk as [->| ->]; cbn; auto. }
  assert (Cfg : cfg_ok st).
  { split; [exact Ht|]. split; [exact Hl|]. split; [exact Htime|]. split.
    - apply (proj2 (Hreg KTrack (Hav _ (or_introl eq_refl)))). right. right. left. auto.
    - apply (proj2 (Hreg KLin (Hav _ (or_intror eq_refl)))). right. right. right. auto. }
  split; [|split; [|split; [|split; [|split]]]].
  - constructor.
    + exact Cfg.
    + exact WD.
    + exact WFo.
    + exact WT.
    + exact WL.
    + split; [apply (ids_book_ok r0 st KTrack ctrk _ _ (trk st) _ Ctrk Hn Htrk); reflexivity|apply (ids_book_ok r0 st KLin clin _ _ (lin st) _ Clin Hn Hlin); reflexivity].
    + exact (W_seg_chg r0 st C (ro_seg _ _ _ _ Hraw)).
    + apply W_fresh_split. split; assumption.
  - split.
    + intros k Hk. pose proof (ck_act _ Hcfg k Hk) as Hall.
      assert (Hav' : In k (available st)) by (unfold available; apply in_app_iff; now left).
      pose proof (proj2 (Hreg k Hav') (or_introl Hk)) as Hr. unfold in_reg in Hr.
      destruct (cfg_rp_not_special st k Hcfg Hall) as (A & _). unfold is_edge_key in Hr. destruct (Z.eqb_spec k KIou); [contradiction|exact Hr].
    + intros Ha. pose proof (ck_iou _ Hcfg Ha) as Hia.
      assert (Hav' : In KIou (available st)) by (unfold available; apply in_app_iff; right; apply in_app_iff; left; rewrite Hia; now left).
      exact (proj2 (Hreg KIou Hav') (or_intror (or_introl (conj eq_refl Ha)))).
  - intros k Hk Hin. pose proof (ck_act _ Hcfg k Hin) as Hall. destruct (cfg_rp_not_special st k Hcfg Hall) as (_ & A & B & D).
    destruct Hk as [->|[->| ->]]; congruence.
  - intros k Hk. exact (ck_act _ Hcfg k Hk).
  - destruct (ch_hist _ _ _ C) as (E & _). rewrite E. apply Hraw.
  - destruct (ch_hist _ _ _ C) as (_ & E & _). rewrite E. apply Hraw.
Qed.

(* ================================================================== *)
(* 6. the constructed state                                             *)
(* ================================================================== *)
Lemma enable_available st ks ctrk clin st' : enable_features st ks true ctrk clin = Ok tt st' -> available st' = available st.
Proof. intros H. unfold available. rewrite (enable_ft _ _ _ _ _ _ H). reflexivity. Qed.

Lemma construct_fold r0 posk ctrk clin : raw_ok r0 posk ctrk clin -> forall keys st, PInv r0 ctrk clin st ->
  (forall k, In k keys -> In k (available st)) ->
  let st' := fold_left (enable1 ctrk clin) keys st in
  PInv r0 ctrk clin st' /\ available st' = available st /\
  (trk_act (ft st) = true \/ In KTrack keys -> trk_act (ft st') = true) /\
  (lin_act (ft st) = true \/ In KLin keys -> lin_act (ft st') = true).
Proof.
  intros Hraw. induction keys as [|k r IH]; intros st HP Hav; cbn [fold_left].
  - split; [exact HP|]. split; [reflexivity|]. split; intros [H|[]]; exact H.
  - destruct (PInv_step r0 posk ctrk clin st k Hraw HP (Hav k (or_introl eq_refl))) as [HP1 Hen].
    pose proof (enable_available _ _ _ _ _ Hen) as Ea. destruct (enable1_flags _ _ _ _ _ Hen) as (_ & Ft & Fl).
    destruct (IH (enable1 ctrk clin st k) HP1) as (A & B & D & E).
    { intros k' Hk'. rewrite Ea. apply Hav. now right. }
    cbv zeta in *. split; [exact A|]. split; [congruence|]. split.
    + intros H. apply D. destruct H as [H|[Hk|H]]; [left; rewrite Ft, H; now destruct (KTrack =? k)|left; rewrite Ft, Hk, Z.eqb_refl; reflexivity|now right].
    + intros H. apply E. destruct H as [H|[Hk|H]]; [left; rewrite Fl, H; now destruct (KLin =? k)|left; rewrite Fl, Hk, Z.eqb_refl; reflexivity|now right].
Qed.

(* Deliverable 2: the state a SolutionTracks is constructed in *)
Theorem construct_WF r0 posk ctrk clin extra : raw_ok r0 posk ctrk clin -> (forall k, In k extra -> In k (available r0)) ->
  let st0 := construct r0 ctrk clin extra in
  WF st0 /\ EditSessions.reg_ok st0 /\ EditBook.rp_disjoint st0 /\ EditSessionsFull.rp_decl st0 /\ undo_stack st0 = [] /\ redo_stack st0 = [].
Proof.
  intros Hraw Hex. cbv zeta. unfold construct.
  destruct (construct_fold r0 posk ctrk clin Hraw (core_keys (has_seg (seg r0)) ++ extra) r0 (PInv_init r0 posk ctrk clin Hraw)) as (HP & _ & Ht & Hl).
  - intros k Hk. apply in_app_iff in Hk. destruct Hk as [Hk|Hk]; [|now apply Hex].
    unfold available. rewrite (ro_ft _ _ _ _ Hraw). unfold core_keys in Hk. destruct (has_seg (seg r0)); cbn in Hk |- *; intuition.
  - apply (PInv_WF r0 posk ctrk clin _ Hraw HP).
    + apply Ht. right. apply in_app_iff. left. unfold core_keys. apply in_app_iff. right. now left.
    + apply Hl. right. apply in_app_iff. left. unfold core_keys. apply in_app_iff. right. right. now left.
Qed.

(* every step of the construction is an accepted enable_features call *)
Lemma construct_accepted r0 posk ctrk clin extra : raw_ok r0 posk ctrk clin -> (forall k, In k extra -> In k (available r0)) ->
  forall pre k post, core_keys (has_seg (seg r0)) ++ extra = pre ++ k :: post ->
  let s := fold_left (enable1 ctrk clin) pre r0 in enable_features s [k] true ctrk clin = Ok tt (enable1 ctrk clin s k).
Proof.
  intros Hraw Hex pre k post E. cbv zeta.
  assert (Hav : forall k', In k' (core_keys (has_seg (seg r0)) ++ extra) -> In k' (available r0)).
  { intros k' Hk. apply in_app_iff in Hk. destruct Hk as [Hk|Hk]; [|now apply Hex].
    unfold available. rewrite (ro_ft _ _ _ _ Hraw). unfold core_keys in Hk. destruct (has_seg (seg r0)); cbn in Hk |- *; intuition. }
  destruct (construct_fold r0 posk ctrk clin Hraw pre r0 (PInv_init r0 posk ctrk clin Hraw)) as (HP & Ea & _).
  - intros k' Hk'. apply Hav. rewrite E. apply in_app_iff. now left.
  - cbv zeta in *. apply (PInv_step r0 posk ctrk clin _ k Hraw HP). rewrite Ea. apply Hav. rewrite E. apply in_app_iff. right. now left.
Qed.

(* ================================================================== *)
(* 7. every session from a constructed state                            *)
(* ================================================================== *)
Section FromRaw.
  Variables (r0 : state) (posk : list Z) (ctrk clin : list (list Z)) (extra : list Z) (ops : list op).
  Hypothesis Hraw : raw_ok r0 posk ctrk clin.
  Hypothesis Hextra : forall k, In k extra -> In k (available r0).
  Let st0 := construct r0 ctrk clin extra.
  Hypothesis Hpre : EditSessionsAll.pre_along_all st0 ops.

  (* Deliverable 3: for every valid raw solution, every session over the whole interface (edits, strokes,
     queries, undo, redo) from the constructed state stays well formed ... *)
  Theorem construct_session_WF pre post : ops = pre ++ post -> WF (run st0 pre).
  Proof.
    destruct (construct_WF r0 posk ctrk clin extra Hraw Hextra) as (W0 & Hreg & Hrp & Hdecl & Hu & Hr).
    exact (EditSessionsAll.session_all_reachable_WF st0 ops W0 Hreg Hrp Hdecl Hu Hr Hpre pre post).
  Qed.

  (* ... and obeys the timeline law: the current state is observably the state under the cursor of a
     list+cursor timeline of well-formed states that starts with the constructed one *)
  Theorem construct_session_timeline (dS : state) :
    let t := EditSessionsFull.tl_run_full st0 {| EditSessions.A.tl := [st0]; EditSessions.A.c := 0 |} ops in
    (EditSessions.A.c _ t < length (EditSessions.A.tl _ t))%nat /\
    EditInverse.obs_eq (run st0 ops) (nth (EditSessions.A.c _ t) (EditSessions.A.tl _ t) dS) /\
    Forall WF (EditSessions.A.tl _ t) /\ (exists ext, EditSessions.A.tl _ t = st0 :: ext).
  Proof.
    destruct (construct_WF r0 posk ctrk clin extra Hraw Hextra) as (W0 & Hreg & Hrp & Hdecl & Hu & Hr).
    exact (EditSessionsAll.session_all_timeline st0 ops W0 Hreg Hrp Hdecl Hu Hr Hpre dS).
  Qed.

  (* undo / redo answer exactly as the timeline says *)
  Theorem construct_session_undo_redo pre post :
    (ops = pre ++ OUndo :: post ->
       let t := EditSessionsFull.tl_run_full st0 {| EditSessions.A.tl := [st0]; EditSessions.A.c := 0 |} pre in
       fst (snd (step (run st0 pre) OUndo)) = (if snd (EditSessions.A.t_undo _ t) then 1 else 2) /\
       (snd (EditSessions.A.t_undo _ t) = false <-> EditSessions.A.c _ t = 0%nat)) /\
    (ops = pre ++ ORedo :: post ->
       let t := EditSessionsFull.tl_run_full st0 {| EditSessions.A.tl := [st0]; EditSessions.A.c := 0 |} pre in
       fst (snd (step (run st0 pre) ORedo)) = (if snd (EditSessions.A.t_redo _ t) then 1 else 2) /\
       (snd (EditSessions.A.t_redo _ t) = false <-> (length (EditSessions.A.tl _ t) <= S (EditSessions.A.c _ t))%nat)).
  Proof.
    destruct (construct_WF r0 posk ctrk clin extra Hraw Hextra) as (W0 & Hreg & Hrp & Hdecl & Hu & Hr).
    exact (EditSessionsAll.session_all_undo_redo st0 ops W0 Hreg Hrp Hdecl Hu Hr Hpre pre post).
  Qed.
End FromRaw.

(* ================================================================== *)
(* 8. raw_ok, decidably                                                 *)
(* ================================================================== *)
Lemma all_edges_iff r0 u v : NoDup (keys (succs (g r0))) -> (edge r0 u v <-> In (u, v) (all_edges r0)).
Proof.
  intros Hnd. split; [apply has_edge_in_all_edges|].
  unfold all_edges. rewrite in_flat_map. intros ([u' d] & Hin & Hv). cbn [fst snd] in Hv. apply in_map_iff in Hv.
  destruct Hv as (v' & E & Hv'). injection E as <- <-. apply (In_lookup _ _ _ Hnd) in Hin.
  unfold edge, has_edge, adj, getd. rewrite Hin. now apply haskey_keys.
Qed.

Definition mempair (u v : Z) (E : list (Z * Z)) : bool := existsb (fun p => (fst p =? u) && (snd p =? v)) E.
Lemma mempair_In u v E : mempair u v E = true <-> In (u, v) E.
Proof.
  unfold mempair. rewrite existsb_exists. split.
  - intros ([a b] & Hin & H). cbn in H. apply andb_true_iff in H. destruct H as [H1 H2]. apply Z.eqb_eq in H1. apply Z.eqb_eq in H2. now subst.
  - intros H. exists (u, v). split; [exact H|]. cbn. now rewrite !Z.eqb_refl.
Qed.

(* every element of the list is linked, by an edge of E in one direction or the other, to an earlier one *)
Fixpoint linked_from (E : list (Z * Z)) (seen rest : list Z) : bool :=
  match rest with
  | [] => true
  | y :: r => existsb (fun x => mempair x y E || mempair y x E) seen && linked_from E (seen ++ [y]) r
  end.
Definition linkedb (E : list (Z * Z)) (c : list Z) : bool := match c with [] => true | x :: r => linked_from E [x] r end.

Definition classesb (ids : list Z) (E : list (Z * Z)) (cs : list (list Z)) : bool :=
  EditWFNode.nodupb (concat cs) && forallb (fun c => match c with [] => false | _ => true end) cs &&
  forallb (fun n => memz n (concat cs)) ids && forallb (fun n => memz n ids) (concat cs) &&
  forallb (fun e => forallb (fun c => Bool.eqb (memz (fst e) c) (memz (snd e) c)) cs) E &&
  forallb (linkedb E) cs.

Lemma linked_from_sound (Rel : Z -> Z -> Prop) E x : (forall u v, In (u, v) E -> Rel u v) ->
  forall rest seen, (forall s, In s seen -> clos_refl_sym_trans Z Rel x s) -> linked_from E seen rest = true ->
  forall m, In m rest -> clos_refl_sym_trans Z Rel x m.
Proof.
  intros HE. induction rest as [|y r IH]; intros seen Hseen H m Hm; [destruct Hm|].
  cbn [linked_from] in H. apply andb_true_iff in H. destruct H as [H1 H2].
  assert (Hy : clos_refl_sym_trans Z Rel x y).
  { apply existsb_exists in H1. destruct H1 as (s & Hs & Hl). apply orb_true_iff in Hl.
    eapply rst_trans; [apply (Hseen s Hs)|]. destruct Hl as [Hl|Hl]; apply mempair_In in Hl; [apply rst_step|apply rst_sym, rst_step]; now apply HE. }
  destruct Hm as [<-|Hm]; [exact Hy|]. apply (IH (seen ++ [y])); auto.
  intros s Hs. apply in_app_iff in Hs. destruct Hs as [Hs|[<-|[]]]; auto.
Qed.

Lemma classesb_sound r0 (Rel : Z -> Z -> Prop) E cs : (forall u v, Rel u v <-> In (u, v) E) ->
  classesb (node_ids r0) E cs = true -> classes_of r0 (clos_refl_sym_trans Z Rel) cs.
Proof.
  intros HE H. unfold classesb in H. repeat (apply andb_true_iff in H; destruct H as [H ?]).
  rename H into B1, H0 into B6, H1 into B5, H2 into B4, H3 into B3, H4 into B2.
  rewrite forallb_forall in B2, B3, B4, B5, B6. constructor.
  - now apply EditWFNode.nodupb_NoDup.
  - intros c Hc E0. specialize (B2 c Hc). now rewrite E0 in B2.
  - intros n. split; intros Hn; [apply memz_In, B3; exact Hn|apply memz_In, B4; exact Hn].
  - intros c n m Hc Hn Hm. specialize (B6 c Hc). unfold linkedb in B6. destruct c as [|x r]; [destruct Hn|].
    assert (K : forall y, In y (x :: r) -> clos_refl_sym_trans Z Rel x y).
    { intros y [<-|Hy]; [apply rst_refl|]. apply (linked_from_sound Rel E x (fun u v Hi => proj2 (HE u v) Hi) r [x]); auto.
      intros s [<-|[]]. apply rst_refl. }
    eapply rst_trans; [apply rst_sym, K; exact Hn|apply K; exact Hm].
  - intros c n m Hc Hn _ HR.
    assert (K : forall a b, clos_refl_sym_trans Z Rel a b -> (In a c <-> In b c)).
    { intros a b Hab. induction Hab as [a b Hab|a|a b _ IH|a b d _ IH1 _ IH2]; try tauto.
      apply HE in Hab. specialize (B5 _ Hab). rewrite forallb_forall in B5. specialize (B5 c Hc). cbn [fst snd] in B5.
      apply Bool.eqb_prop in B5. rewrite <- !memz_In. now rewrite B5. }
    now apply (K n m HR).
Qed.

Definition nd_edges_list (r0 : state) : list (Z * Z) :=
  filter (fun e => (length (successors r0 (fst e)) <? 2)%nat) (all_edges r0).

Lemma nd_edges_list_iff r0 u v : NoDup (keys (succs (g r0))) -> (nd_edge r0 u v <-> In (u, v) (nd_edges_list r0)).
Proof.
  intros Hnd. unfold nd_edges_list, nd_edge, divides. rewrite filter_In, <- (all_edges_iff r0 u v Hnd). cbn [fst].
  rewrite Nat.ltb_lt. split; intros [A B]; (split; [exact A|lia]).
Qed.

Definition segb (r0 : state) : bool :=
  match seg r0 with
  | None => true
  | Some sg =>
    forallb (fun n => frame_ok sg (time_of r0 n) && match mask_of sg (time_of r0 n) n with [] => false | _ => true end) (node_ids r0) &&
    negb (memz 0 (node_ids r0)) &&
    forallb (fun tf => forallb (fun x => (x =? 0) || (memz x (node_ids r0) && (time_of r0 x =? Z.of_nat (fst tf)))) (snd tf))
            (combine (seq 0 (length sg)) sg)
  end.

Lemma segb_sound r0 : segb r0 = true -> W_seg r0.
Proof.
  unfold segb. destruct (seg r0) as [sg|] eqn:Hs; [|intros _; now apply W_seg_none].
  intros H. apply andb_true_iff in H. destruct H as [H B3]. apply andb_true_iff in H. destruct H as [B1 B2].
  rewrite forallb_forall in B1, B3. apply (W_seg_iff _ _ Hs). split; [|split].
  - intros n Hn. specialize (B1 n Hn). apply andb_true_iff in B1. destruct B1 as [A B]. split; [exact A|]. destruct (mask_of sg (time_of r0 n) n); [discriminate B|discriminate].
  - intros t i Hf Hl. apply frame_ok_range in Hf.
    assert (Hi : (i < length (frame_of sg t))%nat) by (destruct (Nat.lt_ge_cases i (length (frame_of sg t))) as [X|X]; [exact X|exfalso; apply Hl; now apply label_at_overflow]).
    assert (Hin : In (Z.to_nat t, frame_of sg t) (combine (seq 0 (length sg)) sg)).
    { unfold frame_of. set (k := Z.to_nat t). assert (Hk : (k < length sg)%nat) by (unfold k; lia).
      replace (k, nth k sg []) with (nth k (combine (seq 0 (length sg)) sg) (O, [])).
      - apply nth_In. rewrite combine_length, seq_length. lia.
      - rewrite combine_nth by (now rewrite seq_length). now rewrite seq_nth. }
    specialize (B3 _ Hin). cbn [fst snd] in B3. rewrite forallb_forall in B3.
    assert (Hx : In (label_at sg t i) (frame_of sg t)) by (unfold label_at; now apply nth_In).
    specialize (B3 _ Hx). apply orb_true_iff in B3. destruct B3 as [B3|B3]; [apply Z.eqb_eq in B3; contradiction|].
    apply andb_true_iff in B3. destruct B3 as [A B]. apply memz_In in A. apply Z.eqb_eq in B. split; [exact A|]. rewrite B. lia.
  - intros n Hn E. subst n. apply negb_true_iff in B2. apply memz_false in B2. contradiction.
Qed.

Definition forestb (r0 : state) : bool :=
  let es := all_edges r0 in
  forallb (fun e1 => forallb (fun e2 => implb (snd e1 =? snd e2) (fst e1 =? fst e2)) es) es &&
  forallb (fun ud => (length (keys (snd ud)) <=? 2)%nat) (succs (g r0)) &&
  forallb (fun e => time_of r0 (fst e) <? time_of r0 (snd e)) es.

Lemma successors_entry r0 u : NoDup (keys (succs (g r0))) ->
  (exists d, In (u, d) (succs (g r0)) /\ successors r0 u = keys d) \/ successors r0 u = [].
Proof.
  intros Hnd. unfold successors, adj, getd. destruct (lookup u (succs (g r0))) as [d|] eqn:E; [left|now right].
  exists d. split; [now apply lookup_In|reflexivity].
Qed.

Lemma forestb_sound r0 : NoDup (keys (succs (g r0))) -> forestb r0 = true -> W_forest r0.
Proof.
  intros Hnd H. unfold forestb in H. cbv zeta in H. apply andb_true_iff in H. destruct H as [H B3]. apply andb_true_iff in H. destruct H as [B1 B2].
  rewrite forallb_forall in B1, B2, B3. constructor.
  - intros u u' v E1 E2. apply (all_edges_iff r0 _ _ Hnd) in E1. apply (all_edges_iff r0 _ _ Hnd) in E2.
    specialize (B1 _ E1). rewrite forallb_forall in B1. specialize (B1 _ E2). cbn [fst snd] in B1. rewrite Z.eqb_refl in B1. cbn [implb] in B1. now apply Z.eqb_eq in B1.
  - intros u. destruct (successors_entry r0 u Hnd) as [(d & Hin & ->)| ->]; [|cbn; lia]. specialize (B2 _ Hin). cbn [snd] in B2. now apply Nat.leb_le in B2.
  - intros u v E. apply (all_edges_iff r0 _ _ Hnd) in E. specialize (B3 _ E). cbn [fst snd] in B3. now apply Z.ltb_lt in B3.
Qed.

Definition dictb (r0 : state) : bool :=
  let ids := node_ids r0 in let sk := keys (succs (g r0)) in
  EditWFNode.nodupb ids && EditWFNode.nodupb sk && forallb (fun n => memz n ids) sk && forallb (fun n => memz n sk) ids &&
  forallb (fun ud => EditWFNode.nodupb (keys (snd ud))) (succs (g r0)) &&
  forallb (fun e => memz (fst e) ids && memz (snd e) ids) (all_edges r0) &&
  forallb (fun na => match lookup KTime (snd na) with Some (VZ _) => true | _ => false end && EditWFNode.nodupb (keys (snd na))) (nodes (g r0)).

(* everything but the feature table and the stacks, which are those of raw_state by construction *)
Definition raw_checkb (r0 : state) (posk : list Z) (ctrk clin : list (list Z)) : bool :=
  negb (memz KTrack posk) && negb (memz KLin posk) && dictb r0 && forestb r0 && segb r0 &&
  classesb (node_ids r0) (nd_edges_list r0) ctrk && classesb (node_ids r0) (all_edges r0) clin.

Theorem raw_checkb_sound r0 posk ctrk clin :
  ft r0 = ft_raw (has_seg (seg r0)) posk -> undo_stack r0 = [] -> redo_stack r0 = [] ->
  raw_checkb r0 posk ctrk clin = true -> raw_ok r0 posk ctrk clin.
Proof.
  intros Eft Eu Er H. unfold raw_checkb in H. repeat (apply andb_true_iff in H; destruct H as [H ?]).
  rename H into P1, H0 into Cl, H1 into Ct, H2 into Sg, H3 into Fo, H4 into Di, H5 into P2.
  unfold dictb in Di. cbv zeta in Di. repeat (apply andb_true_iff in Di; destruct Di as [Di ?]).
  rename Di into D1, H into D7, H0 into D6, H1 into D5, H2 into D4, H3 into D3, H4 into D2.
  rewrite forallb_forall in D3, D4, D5, D6, D7.
  pose proof (EditWFNode.nodupb_NoDup _ D1) as N1. pose proof (EditWFNode.nodupb_NoDup _ D2) as N2.
  constructor.
  - exact Eft.
  - split; [apply memz_false, negb_true_iff, P1|apply memz_false, negb_true_iff, P2].
  - exact Eu.
  - exact Er.
  - exact N1.
  - exact N2.
  - intros n. rewrite haskey_keys. split; intros Hn; [apply memz_In, D3; exact Hn|apply memz_In, D4; exact Hn].
  - intros u. destruct (successors_entry r0 u N2) as [(d & Hin & ->)| ->]; [|constructor]. apply EditWFNode.nodupb_NoDup. exact (D5 _ Hin).
  - intros u v E. apply (all_edges_iff r0 _ _ N2) in E. specialize (D6 _ E). cbn [fst snd] in D6. apply andb_true_iff in D6. destruct D6 as [A B].
    split; now apply memz_In.
  - intros n Hn. unfold is_node, node_ids, keys in Hn. apply in_map_iff in Hn. destruct Hn as ([n' d] & <- & Hin). cbn [fst].
    pose proof (D7 _ Hin) as Q. cbn [snd] in Q. apply andb_true_iff in Q. destruct Q as [Q _].
    unfold attr, node_attrs, getd. rewrite (In_lookup _ _ _ N1 Hin). destruct (lookup KTime d) as [[z| | | |]|]; try discriminate Q. eauto.
  - intros n. unfold node_attrs, getd. destruct (lookup n (nodes (g r0))) as [d|] eqn:E; [|constructor].
    apply lookup_In in E. pose proof (D7 _ E) as Q. cbn [snd] in Q. apply andb_true_iff in Q. destruct Q as [_ Q]. now apply EditWFNode.nodupb_NoDup.
  - now apply forestb_sound.
  - now apply segb_sound.
  - apply (classesb_sound r0 (nd_edge r0) (nd_edges_list r0) ctrk); [intros u v; now apply nd_edges_list_iff|exact Ct].
  - apply (classesb_sound r0 (edge r0) (all_edges r0) clin); [intros u v; now apply all_edges_iff|exact Cl].
Qed.

(* for the state built from raw inputs the three equations hold by construction *)
Corollary raw_state_ok nd es sg posk c ctrk clin :
  raw_checkb (raw_state nd es sg posk c) posk ctrk clin = true -> raw_ok (raw_state nd es sg posk c) posk ctrk clin.
Proof. apply raw_checkb_sound; reflexivity. Qed.
