(* A concrete state satisfying the invariant bundle LWF of Proofs/EditLin.v (non-vacuity of C05):
   node 1 (t=0) divides into 2 and 3 (t=1), 2 continues to 4 (t=2); one lineage, id 1. *)
From Coq Require Import ZArith List Bool Lia.
From FT Require Import Base.Dict Model.Edit Model.EditExec Proofs.DictLemmas Proofs.EditInv Proofs.EditGraph Proofs.EditLin.
Import ListNotations.
Open Scope Z_scope.

Definition ex5_feats : feats :=
  {| reg_node := [KTime; KPos; KTrack; KLin]; reg_edge := []; pos_keys := [KPos]; rp_all := []; rp_act := [];
     iou_avail := false; iou_act := false; trk_act := true; lin_act := true |}.
Definition ex5_node (i t k l : Z) : Z * attrs := (i, [(KTime, VZ t); (KPos, VTok i); (KTrack, VZ k); (KLin, VZ l)]).
Definition ex5 : state :=
  mk_state [ex5_node 1 0 1 1; ex5_node 2 1 2 1; ex5_node 3 1 3 1; ex5_node 4 2 2 1]
           [(1, 2, []); (1, 3, []); (2, 4, [])] None ex5_feats
           [(1, [1]); (2, [2; 4]); (3, [3])] [(1, [1; 2; 3; 4])] 3 1 5.

Lemma has_edge_all_edges st u v : has_edge st u v = true -> In (u, v) (all_edges st).
Proof.
  unfold has_edge, adj, getd, all_edges. destruct (lookup u (succs (g st))) as [d|] eqn:E; [|discriminate].
  intros H. apply haskey_keys in H. apply lookup_In in E. apply in_flat_map. exists (u, d). split; [exact E|].
  cbn [fst snd]. apply in_map_iff. exists v. auto.
Qed.

Lemma ex5_nodes n : is_node ex5 n <-> n = 1 \/ n = 2 \/ n = 3 \/ n = 4.
Proof. unfold is_node. cbn. intuition. Qed.

Lemma ex5_edges u v : edge ex5 u v -> (u, v) = (1, 2) \/ (u, v) = (1, 3) \/ (u, v) = (2, 4).
Proof. intros H. apply has_edge_all_edges in H. cbn in H. intuition. Qed.

Lemma ex5_cases n : n = 1 \/ n = 2 \/ n = 3 \/ n = 4 \/ (lookup n (nodes (g ex5)) = None /\ lookup n (succs (g ex5)) = None).
Proof.
  destruct (Z.eq_dec n 1); [tauto|]. destruct (Z.eq_dec n 2); [tauto|]. destruct (Z.eq_dec n 3); [tauto|].
  destruct (Z.eq_dec n 4); [tauto|]. right. right. right. right.
  split; apply lookup_None_keys; cbn; intuition.
Qed.

Lemma ex5_W_dict : W_dict ex5.
Proof.
  constructor.
  - cbn. repeat constructor; cbn; intuition discriminate.
  - cbn. repeat constructor; cbn; intuition discriminate.
  - intros n. rewrite haskey_keys, ex5_nodes. cbn. intuition.
  - intros u. destruct (ex5_cases u) as [->|[->|[->|[->|[_ H]]]]]; try (cbn; repeat constructor; cbn; intuition discriminate).
    unfold successors, adj, getd. rewrite H. constructor.
  - intros u v H. apply ex5_edges in H. rewrite !ex5_nodes. destruct H as [E|[E|E]]; injection E as -> ->; tauto.
  - intros n H. apply ex5_nodes in H. destruct H as [->|[->|[->| ->]]]; eexists; reflexivity.
  - intros n H. apply ex5_nodes in H. destruct H as [->|[->|[->| ->]]]; eexists; reflexivity.
  - intros n H. apply ex5_nodes in H. destruct H as [->|[->|[->| ->]]]; eexists; reflexivity.
  - intros n. destruct (ex5_cases n) as [->|[->|[->|[->|[H _]]]]]; try (cbn; repeat constructor; cbn; intuition discriminate).
    unfold node_attrs, getd. rewrite H. constructor.
Qed.

Lemma ex5_W_forest : W_forest ex5.
Proof.
  constructor.
  - intros u u' v H1 H2. apply ex5_edges in H1. apply ex5_edges in H2.
    destruct H1 as [E|[E|E]]; injection E as -> ->; destruct H2 as [E|[E|E]]; inversion E; subst; reflexivity.
  - intros u. destruct (ex5_cases u) as [->|[->|[->|[->|[_ H]]]]]; try (cbn; lia).
    unfold successors, adj, getd. rewrite H. cbn. lia.
  - intros u v H. apply ex5_edges in H. destruct H as [E|[E|E]]; injection E as -> ->; reflexivity.
Qed.

Lemma ex5_W_lin : W_lin ex5.
Proof.
  constructor.
  - intros u v H. apply ex5_edges in H. destruct H as [E|[E|E]]; injection E as -> ->; reflexivity.
  - assert (R : forall a, root ex5 a -> a = 1).
    { intros a [Na Ha]. apply ex5_nodes in Na. destruct Na as [->|[->|[->| ->]]]; [reflexivity| | |]; exfalso.
      - apply (Ha 1). reflexivity.
      - apply (Ha 1). reflexivity.
      - apply (Ha 2). reflexivity. }
    intros a b Ra Rb _. now rewrite (R a Ra), (R b Rb).
Qed.

Lemma ex5_W_book : W_book ex5.
Proof.
  assert (Hn : forall n, is_node ex5 n <-> n = 1 \/ n = 2 \/ n = 3 \/ n = 4) by apply ex5_nodes.
  split; (split; [cbn; repeat constructor; cbn; intuition discriminate|split]).
  - intros T l H. cbn in H.
    destruct (Z.eqb_spec T 1) as [->|H1]; [|destruct (Z.eqb_spec T 2) as [->|H2]; [|destruct (Z.eqb_spec T 3) as [->|H3]; [|discriminate]]];
      injection H as <-; (split; [discriminate|split; [repeat constructor; cbn; intuition discriminate|]]);
      intros n; rewrite Hn; cbn [In]; split.
    + intros [<-|[]]; vm_compute; auto.
    + intros [[->|[->|[->| ->]]] H]; vm_compute in H; try discriminate; auto.
    + intros [<-|[<-|[]]]; vm_compute; auto.
    + intros [[->|[->|[->| ->]]] H]; vm_compute in H; try discriminate; auto.
    + intros [<-|[]]; vm_compute; auto.
    + intros [[->|[->|[->| ->]]] H]; vm_compute in H; try discriminate; auto.
  - intros n T Hi H. apply Hn in Hi. destruct Hi as [->|[->|[->| ->]]]; vm_compute in H; injection H as <-; split; (reflexivity || discriminate).
  - intros T l H. cbn in H. destruct (Z.eqb_spec T 1) as [->|H1]; [|discriminate].
    injection H as <-. split; [discriminate|split; [repeat constructor; cbn; intuition discriminate|]].
    intros n; rewrite Hn; cbn [In]; split.
    + intros [<-|[<-|[<-|[<-|[]]]]]; vm_compute; auto 6.
    + intros [[->|[->|[->| ->]]] H]; vm_compute in H; try discriminate; auto 6.
  - intros n T Hi H. apply Hn in Hi. destruct Hi as [->|[->|[->| ->]]]; vm_compute in H; injection H as <-; split; (reflexivity || discriminate).
Qed.

Lemma ex5_LWF : LWF ex5.
Proof.
  constructor; [|apply ex5_W_dict|apply ex5_W_forest|apply ex5_W_lin|apply ex5_W_book].
  unfold cfg_ok. cbn. intuition.
Qed.
