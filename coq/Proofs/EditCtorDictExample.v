(* Non-vacuity of Proofs/EditCtorDict.v: a saved-and-reloaded solution. Four nodes with a division
   (1 -> 2, 1 -> 3, 2 -> 4) over 3 frames of 2x2 pixels  1 1 / 0 0   2 2 / 3 0   0 4 / 4 0 ; the nodes carry
   position, area, non-contiguous track ids (7, 3, 12, 3) and lineage id 5, the edges their IoU; the caller's
   FeatureDict registers all of them. Nothing is computed: the lookups are those of the scan (maxima 12 and 5).
   Every hypothesis is discharged by computation.
   Counter-example: the same solution with a stale area on node 4 - dict_checkb refuses, and the constructed
   state violates W_fresh. *)
From Coq Require Import ZArith List Bool Lia.
From FT Require Import Base.Dict Model.Edit Model.EditExec Model.Toggle Model.EditCtor Proofs.EditInv Proofs.EditInit Proofs.EditCtor Proofs.EditCtorDict.
From FT Require Proofs.EditSessions Proofs.EditSessionsFull Proofs.EditSessionsAll Proofs.EditInverse.
Import ListNotations.
Open Scope Z_scope.

(* the caller's table; the annotators are fresh *)
Definition ftd : feats :=
  {| reg_node := [KTime; KPos; KArea; KTrack; KLin]; reg_edge := [KIou]; pos_keys := [KPos];
     rp_all := [KPos; KArea; KEll; KCirc; KPerim]; rp_act := []; iou_avail := true; iou_act := false; trk_act := false; lin_act := false |}.
Definition ndd : dict attrs :=
  [(1, [(KTime, VZ 0); (KPos, VRp [0; 1]); (KArea, VRp [0; 1]); (KTrack, VZ 7); (KLin, VZ 5)]);
   (2, [(KTime, VZ 1); (KPos, VRp [0; 1]); (KArea, VRp [0; 1]); (KTrack, VZ 3); (KLin, VZ 5)]);
   (3, [(KTime, VZ 1); (KPos, VRp [2]); (KArea, VRp [2]); (KTrack, VZ 12); (KLin, VZ 5)]);
   (4, [(KTime, VZ 2); (KPos, VRp [1; 2]); (KArea, VRp [1; 2]); (KTrack, VZ 3); (KLin, VZ 5)])].
Definition esd : list (Z * Z * attrs) := [(1, 2, [(KIou, VIou 2 2)]); (1, 3, [(KIou, VIou 0 1)]); (2, 4, [(KIou, VIou 1 3)])].
Definition sgd : list (list Z) := [[1; 1; 0; 0]; [2; 2; 3; 0]; [0; 4; 4; 0]].
Definition exd_raw : state := mk_state ndd esd (Some sgd) ftd [] [] 0 0 5.
(* only used to decide same_segment / wconn in the check *)
Definition exd_ctrk : list (list Z) := [[1]; [2; 4]; [3]].
Definition exd_clin : list (list Z) := [[1; 2; 3; 4]].

Lemma exd_dict_ok : dict_ok exd_raw.
Proof. apply (dict_checkb_sound exd_raw exd_ctrk exd_clin). vm_compute. reflexivity. Qed.

Notation exd_st0 := (construct_dict exd_raw).

Example exd_constructed :
  WF exd_st0 /\ EditSessions.reg_ok exd_st0 /\ EditBook.rp_disjoint exd_st0 /\ EditSessionsFull.rp_decl exd_st0 /\
  undo_stack exd_st0 = [] /\ redo_stack exd_st0 = [].
Proof. exact (construct_dict_WF exd_raw exd_dict_ok). Qed.

(* graph untouched, lookups from the scan, every registered manageable key active *)
Example exd_content :
  g exd_st0 = g exd_raw /\
  trk_book (bk exd_st0) = [(7, [1]); (3, [2; 4]); (12, [3])] /\ lin_book (bk exd_st0) = [(5, [1; 2; 3; 4])] /\
  (max_trk (bk exd_st0), max_lin (bk exd_st0)) = (12, 5) /\
  reg_node (ft exd_st0) = [KTime; KPos; KArea; KTrack; KLin] /\ reg_edge (ft exd_st0) = [KIou] /\ rp_act (ft exd_st0) = [KPos; KArea] /\
  (iou_act (ft exd_st0), trk_act (ft exd_st0), lin_act (ft exd_st0)) = (true, true, true).
Proof. vm_compute. repeat split. Qed.

(* a session from the reloaded state: cut 1 -> 3 (the cut-off lineage gets 6, above the loaded maximum), undo, redo,
   delete node 4, undo, a custom attribute *)
Definition exd_ops : list op := [ODelEdge 1 3; OUndo; ORedo; ODelNode 4; OUndo; OUpdAttrs 1 [(100, VTok 5)]].

Lemma exd_pre : EditSessionsAll.pre_along_all exd_st0 exd_ops.
Proof. apply EditSessionsAll.pre_alongb2_all. vm_compute. reflexivity. Qed.

Example exd_session_WF : forall pre post, exd_ops = pre ++ post -> WF (run exd_st0 pre).
Proof. exact (construct_dict_session_WF exd_raw exd_ops exd_dict_ok exd_pre). Qed.

Example exd_session_timeline (dS : state) :
  let t := EditSessionsFull.tl_run_full exd_st0 {| EditSessions.A.tl := [exd_st0]; EditSessions.A.c := 0 |} exd_ops in
  (EditSessions.A.c _ t < length (EditSessions.A.tl _ t))%nat /\
  EditInverse.obs_eq (run exd_st0 exd_ops) (nth (EditSessions.A.c _ t) (EditSessions.A.tl _ t) dS) /\
  Forall WF (EditSessions.A.tl _ t) /\ (exists ext, EditSessions.A.tl _ t = exd_st0 :: ext).
Proof. exact (construct_dict_session_timeline exd_raw exd_ops exd_dict_ok exd_pre dS). Qed.

Example exd_session_ids :
  map (fun n => zattr (run exd_st0 [ODelEdge 1 3]) n KLin) [1; 2; 3; 4] = [Some 5; Some 5; Some 6; Some 5].
Proof. vm_compute. reflexivity. Qed.

(* ---- the hypothesis on the registered values is needed ---- *)
Definition exd_stale : state :=
  mk_state [(1, [(KTime, VZ 0); (KPos, VRp [0; 1]); (KArea, VRp [0; 1]); (KTrack, VZ 7); (KLin, VZ 5)]);
            (2, [(KTime, VZ 1); (KPos, VRp [0; 1]); (KArea, VRp [0; 1]); (KTrack, VZ 3); (KLin, VZ 5)]);
            (3, [(KTime, VZ 1); (KPos, VRp [2]); (KArea, VRp [2]); (KTrack, VZ 12); (KLin, VZ 5)]);
            (4, [(KTime, VZ 2); (KPos, VRp [1; 2]); (KArea, VRp [1]); (KTrack, VZ 3); (KLin, VZ 5)])]
           esd (Some sgd) ftd [] [] 0 0 5.

Example exd_stale_area :
  dict_checkb exd_stale exd_ctrk exd_clin = false /\ ~ W_fresh (construct_dict exd_stale).
Proof.
  split; [vm_compute; reflexivity|]. intros H.
  assert (Es : seg (construct_dict exd_stale) = Some sgd) by (vm_compute; reflexivity).
  unfold W_fresh in H. rewrite Es in H. destruct H as [H _].
  assert (N : is_node (construct_dict exd_stale) 4) by (vm_compute; auto).
  assert (A : In KArea (rp_act (ft (construct_dict exd_stale)))) by (vm_compute; auto).
  specialize (H 4 KArea N A). vm_compute in H. discriminate H.
Qed.

Print Assumptions exd_constructed.
Print Assumptions exd_session_WF.
Print Assumptions exd_session_timeline.
Print Assumptions exd_stale_area.
