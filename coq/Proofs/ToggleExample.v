(* A concrete state (2 frames of 2x2 pixels, 2 nodes, 1 edge) for the C10 non-vacuity examples. *)
From Coq Require Import ZArith List Bool Lia.
From FT Require Import Base.Dict Model.Edit Model.EditExec Model.Toggle Model.ToggleExec
  Proofs.DictLemmas Proofs.EditInv Proofs.EditSeg Proofs.EditFresh Proofs.ToggleProofs.
Import ListNotations.
Open Scope Z_scope.

Definition c10_ft : feats :=
  {| reg_node := [KTime; KPos; KTrack; KLin; KArea]; reg_edge := [KIou]; pos_keys := [KPos];
     rp_all := [KPos; KArea; KEll; KCirc; KPerim]; rp_act := [KPos; KArea];
     iou_avail := true; iou_act := true; trk_act := true; lin_act := true |}.
Definition c10_nd (t T : Z) (m : list Z) : attrs :=
  [(KTime, VZ t); (KPos, VRp m); (KTrack, VZ T); (KLin, VZ 1); (KArea, VRp m)].
(*  frame 0: 1 1 / 0 0     frame 1: 2 2 / 0 0  *)
Definition c10_sg : list (list Z) := [[1;1;0;0]; [2;2;0;0]].
Definition c10_st : state :=
  mk_state [(1, c10_nd 0 1 [0;1]); (2, c10_nd 1 1 [0;1])] [(1, 2, [(KIou, VIou 2 2)])]
           (Some c10_sg) c10_ft [(1, [1;2])] [(1, [1;2])] 1 1 3.

Lemma c10_nodes n : is_node c10_st n <-> n = 1 \/ n = 2.
Proof. unfold is_node. cbn. intuition. Qed.

Lemma c10_cfg_keys : cfg_keys c10_st.
Proof.
  constructor; cbn.
  - repeat constructor; cbn; unfold KPos, KArea, KEll, KCirc, KPerim; intuition discriminate.
  - auto.
  - intros k [<-|[<-|[]]]; auto.
  - reflexivity.
Qed.

Lemma c10_W_reg : W_reg c10_st.
Proof.
  intros k Hk. cbn in Hk. unfold in_reg, active, is_edge_key. cbn.
  unfold KPos, KArea, KEll, KCirc, KPerim, KIou, KTrack, KLin, KTime in *.
  destruct Hk as [<-|[<-|[<-|[<-|[<-|[<-|[<-|[<-|[]]]]]]]]]; cbn; intuition discriminate.
Qed.

Lemma c10_W_seg : W_seg c10_st.
Proof.
  apply (W_seg_iff c10_st c10_sg eq_refl). split; [|split].
  - intros n Hn. apply c10_nodes in Hn. destruct Hn as [->| ->]; vm_compute; (split; [reflexivity|discriminate]).
  - intros t i Hf Hl. apply frame_ok_range in Hf. cbn [length c10_sg] in Hf.
    assert (Ht : t = 0 \/ t = 1) by lia.
    destruct Ht as [->| ->]; (do 4 (destruct i as [|i]; [vm_compute in Hl |- *; try (exfalso; apply Hl; reflexivity); (split; [tauto|reflexivity])|]));
      exfalso; apply Hl; apply label_at_overflow; change (4 <= S (S (S (S i))))%nat; lia.
  - intros n Hn. apply c10_nodes in Hn. lia.
Qed.

Lemma c10_disjoint : comps_disjoint [[2]; [1]].
Proof.
  intros i j c d n Hi Hj Hc Hd.
  destruct i as [|[|i]]; cbn in Hi; try (destruct i; discriminate Hi); injection Hi as <-;
  destruct j as [|[|j]]; cbn in Hj; try (destruct j; discriminate Hj); injection Hj as <-;
  cbn in Hc, Hd; try reflexivity; lia.
Qed.
