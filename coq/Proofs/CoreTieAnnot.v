(* Tie of annotators/_track_annotator.py (Gen/CoreAnnot_gen.v; it calls get_track_id of Gen/CoreQueries_gen.v): the
   bookkeeping helpers, _handle_add_node, _handle_delete_node, _handle_update_track_ids, update. *)
From Coq Require Import ZArith List Bool Lia Arith.
From FT Require Import Base.Dict Model.Edit Model.PyRt Model.PyRt3.
From FT Require Import Proofs.DictLemmas Proofs.EditInv Proofs.EditGraph Proofs.EditWalk.
From FT Require Import Gen.CoreQueries_gen Gen.CoreAnnot_gen.
From FT Require Import Proofs.CoreTieBase Proofs.CoreTieQueries.
Import ListNotations.
Open Scope Z_scope.

(* ================================================================== *)
(* 3. annotators/_track_annotator.py                                   *)
(* ================================================================== *)
Lemma zmax_gtb a b : (if b >? a then b else a) = Z.max a b.
Proof. destruct (Z.gtb_spec b a); lia. Qed.

(* projections of a state that was just built *)
Ltac stnorm := cbn [set_trk_book set_lin_book set_max_trk set_max_lin upd_bk upd_nctr bk g ft seg undo_stack redo_stack rlog nctr
                    trk_book lin_book max_trk max_lin].

(* _add_to_tracklet_bookkeeping = book_add_extend + the running maximum *)
Theorem gen_add_to_tracklet_bookkeeping_eq : forall st ns id,
  gen_add_to_tracklet_bookkeeping st ns id =
  Ok tt (upd_bk st {| trk_book := book_add_extend (trk_book (bk st)) ns id; lin_book := lin_book (bk st);
                      max_trk := Z.max (max_trk (bk st)) id; max_lin := max_lin (bk st) |}).
Proof.
  intros st ns id. unfold gen_add_to_tracklet_bookkeeping, book_add_extend, getd, haskey, py_getitem.
  destruct (lookup id (trk_book (bk st))) as [l|] eqn:E; cbn [negb bind]; stnorm.
  - rewrite E. cbn [bind]. stnorm. rewrite <- zmax_gtb.
    destruct (id >? max_trk (bk st)); reflexivity.
  - rewrite lookup_set_eq. cbn [bind]. stnorm.
    rewrite set_set_eq, <- zmax_gtb.
    destruct (id >? max_trk (bk st)); reflexivity.
Qed.

(* _remove_from_tracklet_bookkeeping = book_remove *)
Definition rm_fold (ns l : list Z) : list Z := fold_left (fun acc n => if memz n acc then remove1 n acc else acc) ns l.

Theorem gen_remove_from_tracklet_bookkeeping_eq : forall st ns id,
  gen_remove_from_tracklet_bookkeeping st ns id = Ok tt (set_trk_book st (book_remove (trk_book (bk st)) ns id)).
Proof.
  intros st ns id. unfold gen_remove_from_tracklet_bookkeeping, book_remove, haskey.
  destruct (lookup id (trk_book (bk st))) as [l|] eqn:E; cbn [negb bind]; [|now rewrite set_trk_book_same].
  match goal with |- context [py_for _ _ _ ?f] => set (F := f) end.
  assert (L : forall ns l s, lookup id (trk_book (bk s)) = Some l ->
              py_for ns tt s F = Ok tt (set_trk_book s (set id (rm_fold ns l) (trk_book (bk s))))).
  { clear. induction ns as [|n r IH]; intros l s El; cbn [py_for rm_fold fold_left].
    - now rewrite (set_same _ _ _ El), set_trk_book_same.
    - unfold F at 1. unfold py_getitem, py_list_remove. rewrite El. cbn [bind].
      destruct (memz n l) eqn:Em; cbn [bind].
      + rewrite El. cbn [bind]. rewrite Em. cbn [bind].
        rewrite (IH (remove1 n l)); stnorm; [|apply lookup_set_eq]. now rewrite set_set_eq.
      + now rewrite (IH l s El). }
  rewrite (L ns l st E). cbn [bind]. stnorm. unfold py_getitem, py_delitem, haskey. rewrite lookup_set_eq. cbn [bind].
  fold (rm_fold ns l). destruct (rm_fold ns l) as [|y q] eqn:Er; stnorm.
  - rewrite lookup_set_eq. cbn [bind]. stnorm. now rewrite del_set_eq.
  - reflexivity.
Qed.

Theorem gen_remove_from_lineage_bookkeeping_eq : forall st ns id,
  gen_remove_from_lineage_bookkeeping st ns id = Ok tt (set_lin_book st (book_remove (lin_book (bk st)) ns id)).
Proof.
  intros st ns id. unfold gen_remove_from_lineage_bookkeeping, book_remove, haskey.
  destruct (lookup id (lin_book (bk st))) as [l|] eqn:E; cbn [negb bind]; [|now rewrite set_lin_book_same].
  match goal with |- context [py_for _ _ _ ?f] => set (F := f) end.
  assert (L : forall ns l s, lookup id (lin_book (bk s)) = Some l ->
              py_for ns tt s F = Ok tt (set_lin_book s (set id (rm_fold ns l) (lin_book (bk s))))).
  { clear. induction ns as [|n r IH]; intros l s El; cbn [py_for rm_fold fold_left].
    - now rewrite (set_same _ _ _ El), set_lin_book_same.
    - unfold F at 1. unfold py_getitem, py_list_remove. rewrite El. cbn [bind].
      destruct (memz n l) eqn:Em; cbn [bind].
      + rewrite El. cbn [bind]. rewrite Em. cbn [bind].
        rewrite (IH (remove1 n l)); stnorm; [|apply lookup_set_eq]. now rewrite set_set_eq.
      + now rewrite (IH l s El). }
  rewrite (L ns l st E). cbn [bind]. stnorm. unfold py_getitem, py_delitem, haskey. rewrite lookup_set_eq. cbn [bind].
  fold (rm_fold ns l). destruct (rm_fold ns l) as [|y q] eqn:Er; stnorm.
  - rewrite lookup_set_eq. cbn [bind]. stnorm. now rewrite del_set_eq.
  - reflexivity.
Qed.

(* _add_to_lineage_bookkeeping = book_add_dedup + the running maximum *)
Definition dd_fold (ns l : list Z) : list Z := fold_left (fun acc n => if memz n acc then acc else acc ++ [n]) ns l.

Theorem gen_add_to_lineage_bookkeeping_eq : forall st ns id,
  gen_add_to_lineage_bookkeeping st ns id =
  Ok tt (upd_bk st {| trk_book := trk_book (bk st); lin_book := book_add_dedup (lin_book (bk st)) ns id;
                      max_trk := max_trk (bk st); max_lin := Z.max (max_lin (bk st)) id |}).
Proof.
  intros st ns id. unfold gen_add_to_lineage_bookkeeping, book_add_dedup.
  match goal with |- context [py_for _ _ _ ?f] => set (F := f) end.
  assert (L : forall ns l s, lookup id (lin_book (bk s)) = Some l ->
              py_for ns tt s F = Ok tt (set_lin_book s (set id (dd_fold ns l) (lin_book (bk s))))).
  { clear. induction ns as [|n r IH]; intros l s El; cbn [py_for dd_fold fold_left].
    - now rewrite (set_same _ _ _ El), set_lin_book_same.
    - unfold F at 1. unfold py_getitem. rewrite El. cbn [bind].
      destruct (memz n l) eqn:Em; cbn [bind negb].
      + now rewrite (IH l s El).
      + rewrite El. cbn [bind].
        rewrite (IH (l ++ [n])); stnorm; [|apply lookup_set_eq]. now rewrite set_set_eq. }
  unfold getd, haskey.
  destruct (lookup id (lin_book (bk st))) as [l|] eqn:E; cbn [negb bind].
  - rewrite (L ns l st E). cbn [bind]. stnorm. fold (dd_fold ns l). rewrite <- zmax_gtb.
    destruct (id >? max_lin (bk st)); reflexivity.
  - rewrite (L ns [] _); stnorm; [|apply lookup_set_eq]. cbn [bind]. stnorm. fold (dd_fold ns []).
    rewrite set_set_eq, <- zmax_gtb. destruct (id >? max_lin (bk st)); reflexivity.
Qed.

(* _update_*_bookkeeping: remove, then add *)
Theorem gen_update_tracklet_bookkeeping_eq : forall st ns old new,
  gen_update_tracklet_bookkeeping st ns old new =
  Ok tt (upd_bk st {| trk_book := book_add_extend (book_remove (trk_book (bk st)) ns old) ns new; lin_book := lin_book (bk st);
                      max_trk := Z.max (max_trk (bk st)) new; max_lin := max_lin (bk st) |}).
Proof.
  intros. unfold gen_update_tracklet_bookkeeping.
  rewrite gen_remove_from_tracklet_bookkeeping_eq. cbn [bind]. rewrite gen_add_to_tracklet_bookkeeping_eq. reflexivity.
Qed.
Theorem gen_update_lineage_bookkeeping_eq : forall st ns old new,
  gen_update_lineage_bookkeeping st ns old new =
  Ok tt (upd_bk st {| trk_book := trk_book (bk st);
                      lin_book := book_add_dedup (match old with Some o => book_remove (lin_book (bk st)) ns o | None => lin_book (bk st) end) ns new;
                      max_trk := max_trk (bk st); max_lin := Z.max (max_lin (bk st)) new |}).
Proof.
  intros. unfold gen_update_lineage_bookkeeping. destruct old as [o|]; cbn [bind].
  - rewrite gen_remove_from_lineage_bookkeeping_eq. cbn [bind]. rewrite gen_add_to_lineage_bookkeeping_eq. reflexivity.
  - rewrite gen_add_to_lineage_bookkeeping_eq. reflexivity.
Qed.

Lemma bind_ext_l : forall A B (r : res A) (f1 f2 : A -> state -> res B),
  (forall a s, f1 a s = f2 a s) -> bind r f1 = bind r f2.
Proof. intros A B r f1 f2 H. destruct r; cbn [bind]; auto. Qed.

(* _handle_add_node: the tail of do_add_node *)
Definition book_handle_add_node (st : state) (n : Z) : res unit :=
  match zattr st n KTrack with
  | None => Err EKey st
  | Some t =>
    let b := bk st in
    let tb := book_add_extend (trk_book b) [n] t in
    let mt := Z.max (max_trk b) t in
    let '(lb, ml) := if lin_act (ft st)
                     then match zattr st n KLin with
                          | Some l => (book_add_dedup (lin_book b) [n] l, Z.max (max_lin b) l)
                          | None => (lin_book b, max_lin b) end
                     else (lin_book b, max_lin b) in
    Ok tt (upd_bk st {| trk_book := tb; lin_book := lb; max_trk := mt; max_lin := ml |})
  end.
Theorem gen_handle_add_node_eq : forall st n a px, gen_handle_add_node st n a px = book_handle_add_node st n.
Proof.
  intros st n a px. unfold gen_handle_add_node, book_handle_add_node. rewrite gen_get_track_id_eq. unfold py_get_track_id.
  destruct (zattr st n KTrack) as [t|] eqn:Et; cbn [bind]; [|reflexivity].
  rewrite gen_add_to_tracklet_bookkeeping_eq. cbn [bind]. stnorm.
  destruct (lin_act (ft st)); [|reflexivity].
  unfold py_node_attr_get_z. change (has_node (upd_bk st ?b) n) with (has_node st n). rewrite (zattr_has_node _ _ _ _ Et). cbn [bind].
  change (zattr (upd_bk st ?b) n KLin) with (zattr st n KLin).
  destruct (zattr st n KLin) as [l|]; [|reflexivity].
  rewrite gen_add_to_lineage_bookkeeping_eq. reflexivity.
Qed.
(* do_add_node is: validation, pixels, graph, regionprops -- then exactly this slice *)
Lemma do_add_node_slice : forall st n a px,
  do_add_node st n a px =
  if negb (haskey KTime a) then Err EValue st else
  if negb (haskey KTrack a) then Err EValue st else
  if (match px with None => negb (all_in (pos_keys (ft st)) a) | Some _ => false end) then Err EValue st else
  do _u, st <- (match px with Some p => set_pixels st p n | None => Ok tt st end);
  let nd := nodes (g st) in
  let st := if haskey n nd then st
            else upd_g st {| nodes := nd ++ [(n, [])]; succs := set n (getd n (succs (g st)) []) (succs (g st)) |} in
  let st := fold_left (fun s kv => set_node_attr s n (fst kv) (snd kv)) a st in
  let st := rp_update st n in
  if negb (trk_act (ft st)) then Ok (BAddNode n a px) st else
  do _u, st <- book_handle_add_node st n; Ok (BAddNode n a px) st.
Proof.
  intros. unfold do_add_node, book_handle_add_node.
  repeat match goal with |- (if ?c then _ else _) = (if ?c then _ else _) => destruct c; [reflexivity|] end.
  apply bind_ext_l. intros u s. cbv zeta.
  match goal with |- (if ?c then _ else _) = _ => destruct c; [reflexivity|] end.
  match goal with |- context [zattr ?s n KTrack] => destruct (zattr s n KTrack); [|reflexivity] end.
  match goal with |- context [lin_act ?f] => destruct (lin_act f) end; [|reflexivity].
  match goal with |- context [zattr ?s n KLin] => destruct (zattr s n KLin); reflexivity end.
Qed.

(* _handle_delete_node: the tail of do_del_node *)
Definition book_handle_delete_node (st : state) (n : Z) (saved : attrs) : res unit :=
  let b := bk st in
  let tb := match lookup KTrack saved with Some (VZ t) => book_remove (trk_book b) [n] t | _ => trk_book b end in
  let lb := if lin_act (ft st)
            then match lookup KLin saved with Some (VZ l) => book_remove (lin_book b) [n] l | _ => lin_book b end
            else lin_book b in
  Ok tt (upd_bk st {| trk_book := tb; lin_book := lb; max_trk := max_trk b; max_lin := max_lin b |}).
Theorem gen_handle_delete_node_eq : forall st n saved px, gen_handle_delete_node st n saved px = book_handle_delete_node st n saved.
Proof.
  intros st n saved px. unfold gen_handle_delete_node, book_handle_delete_node, py_attrs_get_z. cbv zeta.
  assert (E0 : forall s, Ok tt s = Ok tt (upd_bk s {| trk_book := trk_book (bk s); lin_book := lin_book (bk s); max_trk := max_trk (bk s); max_lin := max_lin (bk s) |}))
    by (intros s; now rewrite books_eta, upd_bk_same).
  destruct (lookup KTrack saved) as [[t| | | |]|]; cbn [bind];
    try rewrite gen_remove_from_tracklet_bookkeeping_eq; cbn [bind]; stnorm;
    (destruct (lin_act (ft st)); [destruct (lookup KLin saved) as [[l| | | |]|]|]);
    try rewrite gen_remove_from_lineage_bookkeeping_eq; stnorm; try reflexivity; apply E0.
Qed.
Lemma do_del_node_slice : forall st n pxo,
  do_del_node st n pxo =
  match lookup n (nodes (g st)) with
  | None => Err EKey st
  | Some d =>
    let saved := saved_attrs (reg_node (ft st)) d in
    let px := match pxo with Some p => Some p | None => get_pixels st n end in
    do _u, st <- (match px with Some p => set_pixels st p 0 | None => Ok tt st end);
    let sc := map (fun ua => (fst ua, del n (snd ua))) (del n (succs (g st))) in
    let st := upd_g st {| nodes := del n (nodes (g st)); succs := sc |} in
    if negb (trk_act (ft st)) then Ok (BDelNode n saved px) st else
    do _u, st <- book_handle_delete_node st n saved; Ok (BDelNode n saved px) st
  end.
Proof.
  intros. unfold do_del_node, book_handle_delete_node. destruct (lookup n (nodes (g st))); [|reflexivity].
  cbv zeta. apply bind_ext_l. intros u s. match goal with |- (if ?c then _ else _) = _ => destruct c; reflexivity end.
Qed.

(* ---------- _handle_update_track_ids: the relabel walk ---------- *)
Definition has_trk (st : state) (n : Z) : Prop := exists t, zattr st n KTrack = Some t.
(* every node that has a parent carries a track id *)
Definition succ_trk (st : state) : Prop := forall u v, In v (successors st u) -> has_trk st v.
Definition walk_dom (st : state) (start : Z) : Prop := has_trk st start /\ succ_trk st.

Lemma W_dict_walk_dom st start : W_dict st -> has_trk st start -> walk_dom st start.
Proof.
  intros W H. split; [exact H|]. intros u v Hv. apply edge_successors in Hv. destruct (wd_edge_nodes st W u v Hv) as [_ Hn].
  destruct (wd_track st W v Hn) as [k Hk]. exists k. now apply zattr_attr.
Qed.

(* what one visit keeps: track ids stay, the successor lists are the same *)
Definition keeps (s s' : state) : Prop := (forall m, has_trk s m -> has_trk s' m) /\ (forall u, successors s' u = successors s u).
Lemma visit_keeps oldT newT newL s flag tn ln next n :
  keeps s (acc_state (visit oldT newT newL (s, flag, tn, ln, next) n)) /\
  acc_next (visit oldT newT newL (s, flag, tn, ln, next) n) = next ++ successors s n.
Proof.
  destruct (visit_struct oldT newT newL s flag tn ln next n) as [H1 H2].
  pose proof (visit_vz oldT newT newL s flag tn ln next n) as H3.
  split; [split|exact H2].
  - intros m [t Ht]. apply zattr_attr in Ht. destruct (H3 m KTrack (or_introl eq_refl) (ex_intro _ t Ht)) as [z Hz].
    exists z. now apply zattr_attr.
  - intros u. apply (same_struct_successors _ _ _ H1).
Qed.
Lemma keeps_succ_trk s s' : keeps s s' -> succ_trk s -> succ_trk s'.
Proof. intros [K1 K2] H u v Hv. rewrite K2 in Hv. apply K1. eapply H; eauto. Qed.

Definition book_handle_update_track_ids_at (fuel : nat) (st : state) (start oldT newT : Z) (oldL newL : option Z) : res unit :=
  let newL' := if lin_act (ft st) then newL else None in
  match walk fuel oldT newT newL' st [start] true [] [] with
  | None => Err EFuel st
  | Some (st1, tn, ln) =>
    let b := bk st1 in
    let tb := book_add_extend (book_remove (trk_book b) tn oldT) tn newT in
    let mt := Z.max (max_trk b) newT in
    let '(lb, ml) := match newL' with
                     | Some l => (book_add_dedup (match oldL with Some o => book_remove (lin_book b) ln o | None => lin_book b end) ln l,
                                  Z.max (max_lin b) l)
                     | None => (lin_book b, max_lin b) end in
    Ok tt (upd_bk st1 {| trk_book := tb; lin_book := lb; max_trk := mt; max_lin := ml |})
  end.
(* the hand model's fuel *)
Definition book_handle_update_track_ids (st : state) (start oldT newT : Z) (oldL newL : option Z) : res unit :=
  book_handle_update_track_ids_at (S (length (nodes (g st)))) st start oldT newT oldL newL.

Lemma has_trk_sna s n k z m : has_trk s m -> has_trk (set_node_attr s n k (VZ z)) m.
Proof.
  intros [t Ht]. apply zattr_attr in Ht.
  destruct (vz_pres_sna s n k z m KTrack (or_introl eq_refl) (ex_intro _ t Ht)) as [y Hy]. exists y. now apply zattr_attr.
Qed.

Theorem gen_handle_update_track_ids_at_eq : forall fuel st start oldT newT oldL newL, walk_dom st start ->
  gen_handle_update_track_ids fuel st start oldT newT oldL newL =
  book_handle_update_track_ids_at fuel st start oldT newT oldL newL.
Proof.
  intros fuel0 st start oldT newT oldL newL [Hstart Hsucc].
  unfold gen_handle_update_track_ids, book_handle_update_track_ids_at. cbv zeta.
  (* the lineage update is on (NL = Some l) or off (NL = None): the same script for the four cases *)
  destruct (lin_act (ft st)) eqn:Ela; destruct newL as [l|]; cbn [py_is_some andb].
  all: match goal with |- context [walk _ _ _ ?nl _ _ _ _ _] => set (NL := nl) end.
  all: match goal with |- context [py_while _ _ _ ?c ?b] => set (C := c); set (B := b) end.
  all: assert (LV : forall curr s ln tn flag, succ_trk s -> (forall n, In n curr -> has_trk s n) ->
            let '(s', flag', tn', ln', next') := fold_left (visit oldT newT NL) curr (s, flag, tn, ln, []) in
            B (ln, tn, flag, curr) s = Ok (ln', tn', flag', next') s' /\ succ_trk s' /\ (forall n, In n next' -> has_trk s' n))
    by (intros curr0 s0 ln0 tn0 flag0 Hs0 Hc0; unfold B; cbv beta iota;
        match goal with |- context [py_for _ _ _ ?f] => set (F := f) end;
        assert (LF : forall curr s ln tn flag next, succ_trk s -> (forall n, In n curr -> has_trk s n) -> (forall n, In n next -> has_trk s n) ->
                  let '(s', flag', tn', ln', next') := fold_left (visit oldT newT NL) curr (s, flag, tn, ln, next) in
                  py_for curr (ln, tn, flag, next) s F = Ok (ln', tn', flag', next') s' /\ succ_trk s' /\ (forall n, In n next' -> has_trk s' n))
          by (induction curr as [|n r IH]; intros s ln tn flag next Hs Hc Hn; cbn [fold_left py_for]; [auto|];
              destruct (visit_keeps oldT newT NL s flag tn ln next n) as [[K1 K2] K3];
              assert (E : F n (ln, tn, flag, next) s =
                          (let '(s1, f1, tn1, ln1, nx1) := visit oldT newT NL (s, flag, tn, ln, next) n in Ok (ln1, tn1, f1, nx1) s1))
                by (destruct (Hc n (or_introl eq_refl)) as [t0 Ht0]; pose proof (zattr_has_node _ _ _ _ Ht0) as Hnode;
                    unfold F, visit, NL, py_set_node_attr; cbn [val_of_optz]; rewrite ?Hnode; cbn [bind];
                    destruct flag; [|reflexivity];
                    rewrite gen_get_track_id_eq; unfold py_get_track_id;
                    match goal with |- context [zattr ?sa n KTrack] =>
                      assert (Ha : has_trk sa n) by (first [exact (ex_intro _ t0 Ht0) | apply has_trk_sna; exact (ex_intro _ t0 Ht0)]);
                      destruct Ha as [ta Hta]; rewrite Hta; cbn [bind];
                      destruct (ta =? oldT); [|reflexivity];
                      rewrite (zattr_has_node _ _ _ _ Hta); reflexivity
                    end);
              rewrite E; destruct (visit oldT newT NL (s, flag, tn, ln, next) n) as [[[[s1 f1] tn1] ln1] nx1]; cbn [acc_state acc_next] in *; cbn [bind];
              apply IH;
              [ apply (keeps_succ_trk s s1 (conj K1 K2) Hs)
              | intros m Hm; apply K1, Hc; now right
              | intros m Hm; subst nx1; apply in_app_or in Hm; destruct Hm as [Hm|Hm]; [apply K1, Hn, Hm|apply K1; eapply Hs; eauto] ]);
        specialize (LF curr0 s0 ln0 tn0 flag0 [] Hs0 Hc0 (fun n (H : In n []) => match H with end));
        destruct (fold_left (visit oldT newT NL) curr0 (s0, flag0, tn0, ln0, [])) as [[[[s1 f1] tn1] ln1] nx1];
        destruct LF as (LF1 & LF2 & LF3); rewrite LF1; cbn [bind]; auto).
  all: assert (LW : forall fuel s curr flag tn ln, succ_trk s -> (forall n, In n curr -> has_trk s n) ->
            forall (K : list Z * list Z * bool * list Z -> state -> res unit),
            (forall ln tn f1 f2 c1 c2 s, K (ln, tn, f1, c1) s = K (ln, tn, f2, c2) s) ->
            bind (py_while_from st fuel (ln, tn, flag, curr) s C B) K =
            match walk fuel oldT newT NL s curr flag tn ln with
            | Some (s', tn', ln') => K (ln', tn', true, []) s'
            | None => Err EFuel st
            end)
    by (induction fuel as [|f IH]; intros s curr flag tn ln Hs Hc K HK;
        (destruct curr as [|c0 cs]; cbn [py_while_from walk]; unfold C at 1; cbn [py_truthy]; [cbn [bind]; apply HK|]);
        [ reflexivity
        | pose proof (LV (c0 :: cs) s ln tn flag Hs Hc) as L;
          destruct (fold_left (visit oldT newT NL) (c0 :: cs) (s, flag, tn, ln, [])) as [[[[s1 f1] tn1] ln1] nx1];
          destruct L as (L1 & L2 & L3); rewrite L1; cbn [bind]; apply IH; assumption ]).
  all: unfold py_while; rewrite LW; [|exact Hsucc|intros n [<-|[]]; exact Hstart|intros; reflexivity].
  all: destruct (walk fuel0 oldT newT NL st [start] true [] []) as [[[s1 tn1] ln1]|]; [|reflexivity].
  all: cbv beta iota; rewrite gen_update_tracklet_bookkeeping_eq; cbn [bind]; rewrite ?gen_update_lineage_bookkeeping_eq; reflexivity.
Qed.
Theorem gen_handle_update_track_ids_eq : forall st start oldT newT oldL newL, walk_dom st start ->
  gen_handle_update_track_ids (S (length (nodes (g st)))) st start oldT newT oldL newL =
  book_handle_update_track_ids st start oldT newT oldL newL.
Proof. intros. now apply gen_handle_update_track_ids_at_eq. Qed.

(* "for fuel large enough": on a well-formed forest the walk ends within the hand model's fuel
   (EditWalk.levels_empty), and more fuel changes nothing *)
Lemma walk_mono oldT newT newL : forall f st curr flag tn ln r,
  walk f oldT newT newL st curr flag tn ln = Some r -> forall f', (f <= f')%nat -> walk f' oldT newT newL st curr flag tn ln = Some r.
Proof.
  induction f as [|k IH]; intros st curr flag tn ln r H f' Hle; destruct curr as [|c cs]; cbn [walk] in H; try discriminate.
  - destruct f'; exact H.
  - destruct f'; exact H.
  - destruct f' as [|k']; [lia|]. cbn [walk].
    destruct (fold_left (visit oldT newT newL) (c :: cs) (st, flag, tn, ln, [])) as [[[[s1 f1] tn1] ln1] nx1].
    apply (IH _ _ _ _ _ _ H). lia.
Qed.
Definition fuel_ok (st : state) (fuel : nat) : Prop :=
  fuel = S (length (nodes (g st))) \/ (W_dict st /\ W_forest st /\ (S (length (nodes (g st))) <= fuel)%nat).
Theorem gen_handle_update_track_ids_fuel : forall fuel st start oldT newT oldL newL, walk_dom st start -> fuel_ok st fuel ->
  gen_handle_update_track_ids fuel st start oldT newT oldL newL = book_handle_update_track_ids st start oldT newT oldL newL.
Proof.
  intros fuel st start oldT newT oldL newL Hw [->|(Wd & Wf & Hle)]; [now apply gen_handle_update_track_ids_eq|].
  rewrite gen_handle_update_track_ids_at_eq by exact Hw.
  unfold book_handle_update_track_ids, book_handle_update_track_ids_at. cbv zeta.
  destruct (walk (S (length (nodes (g st)))) oldT newT (if lin_act (ft st) then newL else None) st [start] true [] []) as [r|] eqn:W.
  - now rewrite (walk_mono _ _ _ _ _ _ _ _ _ _ W fuel Hle).
  - exfalso. apply walk_none in W. apply W. now apply levels_empty.
Qed.

(* do_upd_track is: read the old ids -- then exactly this slice *)
Lemma do_upd_track_slice : forall st start newT newL,
  do_upd_track st start newT newL =
  if negb (has_node st start) then Err EKey st else
  match zattr st start KTrack with
  | None => Err EKey st
  | Some oldT =>
    let oldL := zattr st start KLin in
    if negb (trk_act (ft st)) then Ok (BUpdTrack start oldT newT oldL newL) st else
    do _u, s <- book_handle_update_track_ids st start oldT newT oldL newL; Ok (BUpdTrack start oldT newT oldL newL) s
  end.
Proof.
  intros. unfold do_upd_track, book_handle_update_track_ids, book_handle_update_track_ids_at.
  destruct (negb (has_node st start)); [reflexivity|]. destruct (zattr st start KTrack) as [oldT|]; [|reflexivity].
  cbv zeta. destruct (negb (trk_act (ft st))); [reflexivity|].
  destruct (walk _ _ _ _ _ _ _ _ _) as [[[s1 tn] ln]|]; [|reflexivity].
  destruct (lin_act (ft st)); [destruct newL|]; reflexivity.
Qed.

(* the hypothesis is needed: node 2, a child of node 1, has no track id.  Relabelling from node 1, the Python
   raises KeyError at get_track_id(2) -- after node 1 was relabelled -- where the hand model reads "no track id"
   as "another tracklet" and finishes. *)
Example walk_dom_needed :
  let nd := [(1, [(KTime, VZ 0); (KTrack, VZ 5)]); (2, [(KTime, VZ 1)])] in
  let st0 := {| g := {| nodes := nd; succs := [(1, [(2, [])]); (2, [])] |}; seg := None;
                ft := {| reg_node := []; reg_edge := []; pos_keys := []; rp_all := []; rp_act := [];
                         iou_avail := false; iou_act := false; trk_act := true; lin_act := true |};
                bk := {| trk_book := [(5, [1])]; lin_book := []; max_trk := 5; max_lin := 0 |};
                undo_stack := []; redo_stack := []; rlog := []; nctr := 0 |} in
  (exists s, gen_handle_update_track_ids 3 st0 1 5 6 None None = Err EKey s /\ zattr s 1 KTrack = Some 6) /\
  (exists s, book_handle_update_track_ids st0 1 5 6 None None = Ok tt s).
Proof. split; eexists; vm_compute; [split|]; reflexivity. Qed.

(* TrackAnnotator.update: nothing when the tracklet feature is off, else the handler of the action's class *)
Definition book_track_annotator_update (st : state) (b : basic) : res unit :=
  if negb (trk_act (ft st)) then Ok tt st else
  match b with
  | BUpdTrack start oldT newT oldL newL => book_handle_update_track_ids st start oldT newT oldL newL
  | BAddNode n _ _ => book_handle_add_node st n
  | BDelNode n saved _ => book_handle_delete_node st n saved
  | _ => Ok tt st
  end.
Lemma bind_ret : forall A (r : res A), bind r (fun a s => Ok a s) = r.
Proof. destruct r; reflexivity. Qed.
Lemma bind_tt : forall (r : res unit), bind r (fun _ s => Ok tt s) = r.
Proof. destruct r as [[] s|e s]; reflexivity. Qed.
Theorem gen_track_annotator_update_eq : forall fuel st b,
  (forall start oldT newT oldL newL, b = BUpdTrack start oldT newT oldL newL -> walk_dom st start /\ fuel_ok st fuel) ->
  gen_track_annotator_update fuel st b = book_track_annotator_update st b.
Proof.
  intros fuel st b H. unfold gen_track_annotator_update, book_track_annotator_update.
  destruct (negb (trk_act (ft st))); [reflexivity|].
  destruct b; try reflexivity; rewrite ?gen_handle_add_node_eq, ?gen_handle_delete_node_eq; try apply bind_tt.
  destruct (H _ _ _ _ _ eq_refl) as [Hw Hf]. rewrite gen_handle_update_track_ids_fuel by assumption. apply bind_tt.
Qed.
(* the actions TrackAnnotator.update ignores *)
Lemma gen_track_annotator_update_other : forall fuel st b,
  match b with BUpdTrack _ _ _ _ _ | BAddNode _ _ _ | BDelNode _ _ _ => False | _ => True end ->
  gen_track_annotator_update fuel st b = Ok tt st.
Proof.
  intros fuel st b H. unfold gen_track_annotator_update. destruct (negb (trk_act (ft st))); [reflexivity|].
  destruct b; try reflexivity; contradiction.
Qed.

Print Assumptions gen_add_to_tracklet_bookkeeping_eq.
Print Assumptions gen_remove_from_tracklet_bookkeeping_eq.
Print Assumptions gen_add_to_lineage_bookkeeping_eq.
Print Assumptions gen_remove_from_lineage_bookkeeping_eq.
Print Assumptions gen_update_tracklet_bookkeeping_eq.
Print Assumptions gen_update_lineage_bookkeeping_eq.
Print Assumptions gen_handle_add_node_eq.
Print Assumptions do_add_node_slice.
Print Assumptions gen_handle_delete_node_eq.
Print Assumptions do_del_node_slice.
Print Assumptions gen_handle_update_track_ids_eq.
Print Assumptions do_upd_track_slice.
Print Assumptions W_dict_walk_dom.
Print Assumptions walk_dom_needed.
Print Assumptions gen_track_annotator_update_eq.
Print Assumptions gen_handle_update_track_ids_at_eq.
Print Assumptions gen_handle_update_track_ids_fuel.
