(* Generic never-forgetting history theorem (core of property C02).

   An abstract mechanism shaped like actions/action_history.py (two stacks, pointer
   |U|-|R|-1, extend-then-append, pop(-1)) refines a linear timeline with a cursor.
   Proofs/HistoryTie.v shows that the definitions translated from the current source
   (Gen/History_gen.v) are this mechanism. Parametric in the state type, the action type,
   an observation equivalence [eqv], the inverse function [inv] and a transition relation
   [Tr] with the hypothesis [Tr_inv] (property C01 in its "recorded action is consistent"
   form). *)
From Coq Require Import List Arith Lia Bool.
Import ListNotations.

Section Hist.
Variables (St Act : Type).
Variable eqv : St -> St -> Prop.
Hypothesis eqv_refl : forall s, eqv s s.
Hypothesis eqv_trans : forall a b c, eqv a b -> eqv b c -> eqv a c.
(* inv s a : apply the inverse of recorded action a in state s; returns new state and the inverse's record *)
Variable inv : St -> Act -> St * Act.
(* Tr a x y : a is a recorded transition from (a state equivalent to) x to y *)
Variable Tr : Act -> St -> St -> Prop.
Hypothesis Tr_inv : forall a x y s, Tr a x y -> eqv s y ->
   eqv (fst (inv s a)) x /\ Tr (snd (inv s a)) y x.
Variable dA : Act. Variable dS : St.

(* ---------- the mechanism, shaped like actions/action_history.py ---------- *)
Record hist := { cur : St; U : list Act; R : list Act }.

Definition add_new_action (h:hist) (a:Act) (s':St) : hist :=
  {| cur := s'; U := (if match R h with [] => true | _ => false end then U h else U h ++ R h) ++ [a]; R := [] |}.

Definition undo (h:hist) : hist * bool :=
  if length (U h) <=? length (R h) then (h, false)          (* pointer = |U|-|R|-1 < 0 *)
  else let a := nth (length (U h) - length (R h) - 1) (U h) dA in
       let '(s, b) := inv (cur h) a in
       ({| cur := s; U := U h; R := R h ++ [b] |}, true).

Definition redo (h:hist) : hist * bool :=
  match R h with
  | [] => (h, false)
  | _ => let b := last (R h) dA in
         let '(s, _) := inv (cur h) b in
         ({| cur := s; U := U h; R := removelast (R h) |}, true)
  end.

(* ---------- the reference: a timeline (list of visited states) and a cursor ---------- *)
Record tline := { tl : list St; c : nat }.
Definition t_undo (t:tline) : tline * bool := match c t with O => (t,false) | S k => ({| tl := tl t; c := k |}, true) end.
Definition t_redo (t:tline) : tline * bool :=
  if S (c t) <? length (tl t) then ({| tl := tl t; c := S (c t) |}, true) else (t,false).
(* edit after k undos: append the states walked back through, in reverse, then the new state *)
Definition t_edit (t:tline) (s':St) : tline :=
  let back := rev (removelast (skipn (c t) (tl t))) in
  let tl' := tl t ++ back ++ [s'] in {| tl := tl'; c := length tl' - 1 |}.

(* ---------- invariant, zipper-shaped ---------- *)
(* Chain e us ts e' : us leads from e through the states ts, ending in e' *)
Inductive Chain : St -> list Act -> list St -> St -> Prop :=
| ch_nil e : Chain e [] [] e
| ch_cons e a t us ts e' : Tr a e t -> Chain t us ts e' -> Chain e (a::us) (t::ts) e'.
(* Chain2 e us rs ts : undone actions us from e through ts, with rs their pending inverses, aligned *)
Inductive Chain2 : St -> list Act -> list Act -> list St -> Prop :=
| c2_nil e : Chain2 e [] [] []
| c2_cons e u r t us rs ts : Tr u e t -> Tr r t e -> Chain2 t us rs ts -> Chain2 e (u::us) (r::rs) (t::ts).

Definition Inv (h:hist) (t:tline) : Prop :=
  exists s0 Ud Uu tld tlu e,
    U h = Ud ++ Uu /\ tl t = s0 :: tld ++ tlu /\ c t = length tld /\
    Chain s0 Ud tld e /\ Chain2 e Uu (rev (R h)) tlu /\ eqv (cur h) e.

Lemma chain_len e us ts e' : Chain e us ts e' -> length us = length ts.
Proof. induction 1; cbn; auto. Qed.
Lemma chain2_len e us rs ts : Chain2 e us rs ts -> length us = length ts /\ length rs = length ts.
Proof. induction 1; cbn; intuition. Qed.
Lemma chain_app e us ts m vs ws e' : Chain e us ts m -> Chain m vs ws e' -> Chain e (us++vs) (ts++ws) e'.
Proof. induction 1; cbn; auto. intros. constructor; auto. Qed.
Lemma chain_snoc_inv : forall us e a ts e', Chain e (us++[a]) ts e' ->
  exists ts' m, ts = ts' ++ [e'] /\ Chain e us ts' m /\ Tr a m e'.
Proof.
 induction us as [|u us IH]; cbn; intros e a ts e' H.
 - inversion H as [|? ? t ? ts0 ? HT HC]; subst. inversion HC; subst.
   exists [], e. repeat split; auto. constructor.
 - inversion H as [|? ? t ? ts0 ? HT HC]; subst. apply IH in HC.
   destruct HC as [ts' [m [-> [C T]]]].
   exists (t::ts'), m. repeat split; auto. constructor; auto.
Qed.

Lemma chain_last e us ts e' d : Chain e us ts e' -> e' = last (e::ts) d.
Proof. induction 1 as [e|e a t us ts e' T C IH]; [reflexivity|]. rewrite IH. reflexivity. Qed.

Lemma removelast_cons2 (A:Type) (x y:A) l : removelast (x::y::l) = x :: removelast (y::l).
Proof. reflexivity. Qed.

(* walking forward through the undone actions and back through their inverses returns to e *)
Lemma chain2_roundtrip e us rs ts : Chain2 e us rs ts ->
  Chain e (us ++ rev rs) (ts ++ rev (removelast (e::ts))) e.
Proof.
 induction 1 as [e|e u r t us rs ts T1 T2 C IH]; [cbn; constructor|].
 rewrite removelast_cons2. cbn [rev app]. rewrite !app_assoc. 
 constructor; auto. rewrite <- !app_assoc. rewrite app_assoc. rewrite (app_assoc ts).
 eapply chain_app; [exact IH|]. constructor; auto. constructor.
Qed.

Hypothesis Tr_src : forall a x x' y, Tr a x y -> eqv x x' -> Tr a x' y.

Lemma skipn_zip : forall (tld:list St) s0 tlu d,
  skipn (length tld) (s0 :: tld ++ tlu) = last (s0::tld) d :: tlu.
Proof. induction tld as [|x l IH]; intros; [reflexivity|]. cbn [length skipn app]. rewrite (IH x tlu d). destruct l; reflexivity. Qed.
Lemma nth_zip : forall (tld:list St) s0 tlu d,
  nth (length tld) (s0 :: tld ++ tlu) d = last (s0::tld) d.
Proof. induction tld as [|x l IH]; intros; [reflexivity|]. cbn [length app].
 change (nth (S (length l)) (s0 :: x :: l ++ tlu) d) with (nth (length l) (x :: l ++ tlu) d).
 rewrite (IH x tlu d). destruct l; reflexivity. Qed.

Theorem inv_current h t : Inv h t -> eqv (cur h) (nth (c t) (tl t) dS).
Proof.
 intros (s0&Ud&Uu&tld&tlu&e&HU&Ht&Hc&C1&C2&E). rewrite Ht, Hc, nth_zip.
 now rewrite <- (chain_last _ _ _ _ dS C1).
Qed.

Theorem undo_ok h t : Inv h t ->
  snd (undo h) = snd (t_undo t) /\ Inv (fst (undo h)) (fst (t_undo t)).
Proof.
 intros (s0&Ud&Uu&tld&tlu&e&HU&Ht&Hc&C1&C2&E).
 pose proof (chain_len _ _ _ _ C1) as L1. destruct (chain2_len _ _ _ _ C2) as [L2 L3]. rewrite rev_length in L3.
 unfold undo, t_undo. rewrite HU, app_length.
 destruct (rev Ud) as [|a rUd'] eqn:ER.
 - (* nothing to undo *)
   assert (Ud = []) by (apply (f_equal (@rev _)) in ER; rewrite rev_involutive in ER; auto). subst Ud.
   cbn [length] in *. destruct (Nat.leb_spec (0 + length Uu) (length (R h))); [|lia].
   assert (c t = 0) by lia. rewrite H0. cbn. split; auto.
   exists s0, [], Uu, tld, tlu, e. repeat split; auto.
 - assert (Ud = rev rUd' ++ [a]) as EU by (apply (f_equal (@rev _)) in ER; rewrite rev_involutive in ER; auto).
   set (Ud' := rev rUd') in *. subst Ud. rewrite app_length in *. cbn [length] in *.
   destruct (Nat.leb_spec (length Ud' + 1 + length Uu) (length (R h))); [lia|].
   replace (length Ud' + 1 + length Uu - length (R h) - 1) with (length Ud') by lia.
   assert (N: nth (length Ud') ((Ud' ++ [a]) ++ Uu) dA = a).
   { rewrite app_nth1 by (rewrite app_length; cbn; lia). rewrite app_nth2 by lia. now rewrite Nat.sub_diag. }
   rewrite N.
   apply chain_snoc_inv in C1. destruct C1 as (tld'&m&->&C1&T).
   destruct (Tr_inv a m e (cur h) T E) as [E' T'].
   destruct (inv (cur h) a) as [s b] eqn:EI. cbn [fst snd] in *.
   rewrite app_length in Hc. cbn [length] in Hc. replace (c t) with (S (length tld')) by lia. cbn.
   split; auto.
   exists s0, Ud', (a::Uu), tld', (e::tlu), m. cbn. rewrite rev_app_distr. cbn.
   repeat split; auto.
   + now rewrite <- app_assoc.
   + rewrite Ht, <- app_assoc. reflexivity.
   + constructor; auto.
Qed.

Theorem redo_ok h t : Inv h t ->
  snd (redo h) = snd (t_redo t) /\ Inv (fst (redo h)) (fst (t_redo t)).
Proof.
 intros (s0&Ud&Uu&tld&tlu&e&HU&Ht&Hc&C1&C2&E).
 destruct (chain2_len _ _ _ _ C2) as [L2 L3]. rewrite rev_length in L3.
 unfold redo, t_redo. rewrite Ht, Hc. cbn [length]. rewrite app_length.
 destruct (rev (R h)) as [|b rR'] eqn:ER.
 - assert (R h = []) as RN by (apply (f_equal (@rev _)) in ER; rewrite rev_involutive in ER; auto).
   rewrite RN in *. cbn in L3. destruct tlu; [|discriminate]. cbn [length].
   destruct (Nat.ltb_spec (S (length tld)) (S (length tld + 0))); [lia|]. cbn. split; auto.
   exists s0, Ud, Uu, tld, [], e. rewrite RN. repeat split; auto.
 - assert (R h = rev rR' ++ [b]) as RN by (apply (f_equal (@rev _)) in ER; rewrite rev_involutive in ER; auto).
   inversion C2 as [|? u r0 t0 us rs ts T1 T2 C2']; subst.
   rewrite RN. destruct (rev rR' ++ [b]) eqn:X; [destruct (rev rR'); discriminate|]. rewrite <- X. clear X.
   rewrite last_last, removelast_last.
   destruct (Tr_inv b t0 e (cur h) T2 E) as [E' _].
   destruct (inv (cur h) b) as [s b'] eqn:EI. cbn [fst snd length] in *.
   destruct (Nat.ltb_spec (S (length tld)) (S (length tld + S (length ts)))); [|lia]. cbn. split; auto.
   exists s0, (Ud ++ [u]), us, (tld ++ [t0]), ts, t0. cbn. rewrite rev_involutive.
   repeat split; auto.
   + now rewrite <- app_assoc.
   + now rewrite <- app_assoc.
   + rewrite app_length. cbn. lia.
   + eapply chain_app; [exact C1|]. constructor; auto. constructor.
Qed.

Lemma add_U h a s' : U (add_new_action h a s') = U h ++ R h ++ [a].
Proof. unfold add_new_action; cbn. destruct (R h); cbn; [reflexivity| now rewrite <- app_assoc]. Qed.

Theorem edit_ok h t a s' : Inv h t -> Tr a (cur h) s' ->
  Inv (add_new_action h a s') (t_edit t s').
Proof.
 intros (s0&Ud&Uu&tld&tlu&e&HU&Ht&Hc&C1&C2&E) T.
 exists s0, (Ud ++ Uu ++ R h ++ [a]), [], (tld ++ tlu ++ rev (removelast (e::tlu)) ++ [s']), [], s'.
 rewrite add_U, HU. unfold t_edit. rewrite Ht, Hc, (skipn_zip _ _ _ dS), <- (chain_last _ _ _ _ dS C1).
 cbn [tl c cur R rev add_new_action]. repeat split.
 - now rewrite !app_nil_r, <- !app_assoc.
 - rewrite app_nil_r. cbn. now rewrite <- !app_assoc.
 - cbn [length]. rewrite !app_length. cbn. rewrite !app_length. cbn. lia.
 - eapply chain_app; [exact C1|].
   rewrite (app_assoc Uu (R h) [a]), (app_assoc tlu (rev (removelast (e :: tlu))) [s']).
   eapply chain_app.
   + pose proof (chain2_roundtrip _ _ _ _ C2) as RT. rewrite rev_involutive in RT. exact RT.
   + constructor; [|constructor]. eapply Tr_src; eauto.
 - constructor.
 - apply eqv_refl.
Qed.

(* never-forgetting: the timeline only grows at the end, and after an edit the cursor is last *)
Theorem edit_keeps_prefix t s' : exists ext, tl (t_edit t s') = tl t ++ ext /\ c (t_edit t s') = length (tl (t_edit t s')) - 1.
Proof. unfold t_edit; cbn. eexists; split; reflexivity. Qed.

(* ---------- whole histories: every finite sequence over {edit, undo, redo} ---------- *)
Inductive hop := HEdit (a : Act) (s' : St) | HUndo | HRedo.
Definition hstep (h : hist) (o : hop) : hist * bool :=
  match o with HEdit a s' => (add_new_action h a s', true) | HUndo => undo h | HRedo => redo h end.
Definition tstep (t : tline) (o : hop) : tline * bool :=
  match o with HEdit _ s' => (t_edit t s', true) | HUndo => t_undo t | HRedo => t_redo t end.
(* every edit of the sequence is a recorded transition out of the state current at that point *)
Fixpoint valid (h : hist) (ops : list hop) : Prop :=
  match ops with
  | [] => True
  | o :: r => match o with HEdit a s' => Tr a (cur h) s' | _ => True end /\ valid (fst (hstep h o)) r
  end.
Fixpoint hrun (h : hist) (ops : list hop) : hist * list bool :=
  match ops with [] => (h, []) | o :: r => let '(h', b) := hstep h o in let '(h'', bs) := hrun h' r in (h'', b :: bs) end.
Fixpoint trun (t : tline) (ops : list hop) : tline * list bool :=
  match ops with [] => (t, []) | o :: r => let '(t', b) := tstep t o in let '(t'', bs) := trun t' r in (t'', b :: bs) end.

Lemma step_ok h t o : Inv h t -> match o with HEdit a s' => Tr a (cur h) s' | _ => True end ->
  snd (hstep h o) = snd (tstep t o) /\ Inv (fst (hstep h o)) (fst (tstep t o)).
Proof.
  intros I V. destruct o as [a s'| |]; cbn [hstep tstep fst snd].
  - split; [reflexivity|]. apply edit_ok; assumption.
  - apply undo_ok; assumption.
  - apply redo_ok; assumption.
Qed.

Theorem run_ok : forall ops h t, Inv h t -> valid h ops ->
  snd (hrun h ops) = snd (trun t ops) /\ Inv (fst (hrun h ops)) (fst (trun t ops)).
Proof.
  induction ops as [|o r IH]; intros h t I V; cbn [hrun trun]; [split; [reflexivity|exact I]|].
  destruct V as [V1 V2]. destruct (step_ok h t o I V1) as [E I'].
  destruct (hstep h o) as [h' b] eqn:EH. destruct (tstep t o) as [t' b'] eqn:ET. cbn [fst snd] in *.
  destruct (IH h' t' I' V2) as [E2 I2].
  destruct (hrun h' r) as [h'' bs]. destruct (trun t' r) as [t'' bs']. cbn [fst snd] in *.
  split; [congruence|exact I2].
Qed.

Lemma init_inv s : Inv {| cur := s; U := []; R := [] |} {| tl := [s]; c := 0 |}.
Proof.
  exists s, [], [], [], [], s. cbn. repeat split; try reflexivity; try constructor. apply eqv_refl.
Qed.

(* the timeline never forgets: every step only appends to it *)
Lemma tstep_grows t o : exists ext, tl (fst (tstep t o)) = tl t ++ ext.
Proof.
  destruct o as [a s'| |]; cbn [tstep].
  - unfold t_edit. cbn [fst tl]. eexists. reflexivity.
  - unfold t_undo. destruct (c t); cbn [fst tl]; exists []; now rewrite app_nil_r.
  - unfold t_redo. destruct (S (c t) <? length (tl t)); cbn [fst tl]; exists []; now rewrite app_nil_r.
Qed.
Theorem trun_grows : forall ops t, exists ext, tl (fst (trun t ops)) = tl t ++ ext.
Proof.
  induction ops as [|o r IH]; intros t; cbn [trun]; [exists []; now rewrite app_nil_r|].
  destruct (tstep_grows t o) as [e1 E1]. destruct (tstep t o) as [t' b]. cbn [fst] in E1.
  destruct (IH t') as [e2 E2]. destruct (trun t' r) as [t'' bs]. cbn [fst] in *.
  exists (e1 ++ e2). rewrite E2, E1. now rewrite app_assoc.
Qed.

(* undo / redo that report False change nothing at all *)
Lemma undo_false_id h : snd (undo h) = false -> fst (undo h) = h.
Proof.
  unfold undo. destruct (length (U h) <=? length (R h)); [reflexivity|].
  destruct (inv (cur h) _). cbn. discriminate.
Qed.
Lemma redo_false_id h : snd (redo h) = false -> fst (redo h) = h.
Proof.
  unfold redo. destruct (R h); [reflexivity|]. destruct (inv (cur h) _). cbn. discriminate.
Qed.
(* and the reference says exactly when: cursor at the first / last state of the timeline *)
Lemma t_undo_false t : snd (t_undo t) = false <-> c t = 0%nat.
Proof. unfold t_undo. destruct (c t); cbn; split; intros; congruence. Qed.
Lemma t_redo_false t : snd (t_redo t) = false <-> (length (tl t) <= S (c t))%nat.
Proof. unfold t_redo. destruct (Nat.ltb_spec (S (c t)) (length (tl t))); cbn; split; intros; try congruence; lia. Qed.

End Hist.

