(* Local conjuncts => global statements (C04, C05):
   on a forward-in-time forest, ids that are constant along the edges of a sub-relation E
   (L1/T1) and pairwise distinct on the E-roots (L2/T2) label exactly the classes of the
   reflexive-symmetric-transitive closure of E.  E = all edges gives "same lineage id iff
   weakly connected"; E = edges out of non-dividing nodes gives "same track id iff same
   unbranched segment". *)
From Coq Require Import ZArith List Bool Lia Relations Wellfounded.
From FT Require Import Base.Dict Model.Edit Proofs.DictLemmas Proofs.EditInv Proofs.EditGraph.
Import ListNotations.
Open Scope Z_scope.

Section Classes.
Variable st : state.
Hypothesis Hd : W_dict st.
Hypothesis Hf : W_forest st.
Variable E : Z -> Z -> Prop.
Hypothesis E_sub : forall u v, E u v -> edge st u v.
Hypothesis E_parent_dec : forall v, (exists u, E u v) \/ (forall u, ~ E u v).
Variable id : Z -> option Z.
Hypothesis L1 : forall u v, E u v -> id u = id v.
Definition eroot (r : Z) : Prop := is_node st r /\ forall u, ~ E u r.
Hypothesis L2 : forall a b, eroot a -> eroot b -> id a = id b -> a = b.

Definition eanc := clos_refl_trans Z E.
Definition econn := clos_refl_sym_trans Z E.

(* a lower bound of all node times: the induction measure *)
Definition tmin : Z := fold_right Z.min 0 (map (time_of st) (node_ids st)).
Lemma tmin_le n : is_node st n -> tmin <= time_of st n.
Proof.
  unfold tmin, is_node. induction (node_ids st) as [|x r IH]; cbn; [tauto|].
  intros [->|H]; [lia|]. specialize (IH H). lia.
Qed.

Lemma eroot_exists : forall n, is_node st n -> exists r, eroot r /\ eanc r n.
Proof.
  intros n. remember (Z.to_nat (time_of st n - tmin)) as k eqn:Hk. revert n Hk.
  induction k as [k IH] using lt_wf_ind. intros n Hk Hn.
  destruct (E_parent_dec n) as [[u Hu]|Hnone].
  - pose proof (E_sub _ _ Hu) as He. destruct (wd_edge_nodes _ Hd _ _ He) as [Nu _].
    pose proof (wf_time _ Hf _ _ He) as Hlt. pose proof (tmin_le _ Nu) as Hlo.
    destruct (IH (Z.to_nat (time_of st u - tmin))) with (n := u) as [r [Hr Ha]]; auto; [lia|].
    exists r. split; [exact Hr|]. eapply rt_trans; [exact Ha|apply rt_step; exact Hu].
  - exists n. split; [split; assumption|apply rt_refl].
Qed.

Lemma eanc_id r n : eanc r n -> id r = id n.
Proof. induction 1; auto; congruence. Qed.
Lemma econn_id n m : econn n m -> id n = id m.
Proof. induction 1; auto; congruence. Qed.
Lemma eanc_econn r n : eanc r n -> econn r n.
Proof. induction 1; [apply rst_step; auto|apply rst_refl|eapply rst_trans; eauto]. Qed.

Theorem ids_label_classes : forall n m, is_node st n -> is_node st m -> (id n = id m <-> econn n m).
Proof.
  intros n m Nn Nm. split; [|apply econn_id].
  intros Eq. destruct (eroot_exists n Nn) as [r [Hr Ha]]. destruct (eroot_exists m Nm) as [r' [Hr' Ha']].
  assert (r = r') as <- by (apply L2; auto; rewrite (eanc_id _ _ Ha), (eanc_id _ _ Ha'); exact Eq).
  eapply rst_trans; [apply rst_sym, eanc_econn; exact Ha|apply eanc_econn; exact Ha'].
Qed.
End Classes.

(* ------------------------------------------------------------------ lineage: E = every edge *)
Lemma parent_dec st v : W_dict st -> (exists u, edge st u v) \/ (forall u, ~ edge st u v).
Proof.
  intros Hd. destruct (predecessors st v) as [|p r] eqn:Ep.
  - right. intros u Hu. assert (In u (predecessors st v)) as Hin.
    { apply in_predecessors. split; [apply (wd_edge_nodes _ Hd u v Hu)|exact Hu]. }
    rewrite Ep in Hin. destruct Hin.
  - left. exists p. assert (In p (predecessors st v)) as Hin by (rewrite Ep; now left).
    apply in_predecessors in Hin. tauto.
Qed.

Definition wconn (st : state) : Z -> Z -> Prop := clos_refl_sym_trans Z (edge st).

Theorem lineage_global st : W_dict st -> W_forest st -> W_lin st ->
  forall n m, is_node st n -> is_node st m -> (lin st n = lin st m <-> wconn st n m).
Proof.
  intros Hd Hf Hl n m Nn Nm.
  apply (ids_label_classes st Hd Hf (edge st) (fun u v H => H) (fun v => parent_dec st v Hd) (lin st)
           (wl1 _ Hl)); [|exact Nn|exact Nm].
  intros a b [Na Ha] [Nb Hb] Eq. apply (wl2 _ Hl a b); [split; assumption|split; assumption|exact Eq].
Qed.

(* ------------------------------------------------------------------ tracks: E = edges out of non-dividing nodes *)
Definition nd_edge (st : state) (u v : Z) : Prop := edge st u v /\ ~ divides st u.
Definition same_segment (st : state) : Z -> Z -> Prop := clos_refl_sym_trans Z (nd_edge st).

Lemma nd_parent_dec st v : W_dict st -> W_forest st -> (exists u, nd_edge st u v) \/ (forall u, ~ nd_edge st u v).
Proof.
  intros Hd Hf. destruct (parent_dec st v Hd) as [[p Hp]|Hn].
  - destruct (le_lt_dec 2 (length (successors st p))) as [Hdiv|Hnd].
    + right. intros u [Hu Hnu]. assert (u = p) as -> by (apply (wf_in _ Hf u p v); assumption). apply Hnu. exact Hdiv.
    + left. exists p. split; [exact Hp|]. unfold divides. lia.
  - right. intros u [Hu _]. now apply (Hn u).
Qed.

Theorem track_global st : W_dict st -> W_forest st -> W_trk st ->
  forall n m, is_node st n -> is_node st m -> (trk st n = trk st m <-> same_segment st n m).
Proof.
  intros Hd Hf Ht n m Nn Nm.
  apply (ids_label_classes st Hd Hf (nd_edge st) (fun u v H => proj1 H) (fun v => nd_parent_dec st v Hd Hf) (trk st)).
  - intros u v [Hu Hnu]. apply (wt1 _ Ht u v Hu Hnu).
  - intros a b [Na Ha] [Nb Hb] Eq. apply (wt2 _ Ht a b); [| |exact Eq].
    + split; [exact Na|]. intros p Hp. destruct (le_lt_dec 2 (length (successors st p))) as [Hdiv|Hnd]; [exact Hdiv|].
      exfalso. apply (Ha p). split; [exact Hp|unfold divides; lia].
    + split; [exact Nb|]. intros p Hp. destruct (le_lt_dec 2 (length (successors st p))) as [Hdiv|Hnd]; [exact Hdiv|].
      exfalso. apply (Hb p). split; [exact Hp|unfold divides; lia].
  - exact Nn.
  - exact Nm.
Qed.
