(* F-10b, machine-checked: a known, UNREPAIRED defect of the Python, reproduced by the faithful model.

   enable_features(['track_id'], recompute=True) on an ALREADY enabled feature renumbers all track ids
   (TrackAnnotator._assign_ids: 1, 2, 3, ... over the segments in the order networkx returns them) but
   keeps the undo history.  An action recorded BEFORE the switch stores ids of the OLD numbering; undoing
   it AFTER the switch writes an old id onto part of a segment whose other part carries its new id.
   Track ids then no longer label exactly the unbranched segments: W_trk (C04) fails.

   The witness.  exs (Proofs/EditWFEdge.v): 1 (t=0) divides into 2 and 3 (t=1), 2 continues to 4 (t=2);
   ids 1:1 2:2 3:3 4:2.  s0 := exs after  UserDeleteEdge(1,3); UserAddEdge(1,3)  is well formed and its
   numbering has a gap and is out of node order:  1:1  2:4  3:3  4:4  (segment {2,4} was renamed 4).
     call 1  UserDeleteEdge(2,4)          4 leaves segment {2,4} and gets the fresh id 5; recorded: "4 had id 4"
     call 2  enable_features([track_id])  segments {1},{2},{3},{4} - the order networkx produces: weakly
                                          connected components of the graph without the out-edges of
                                          dividing nodes, found in node insertion order 1,2,3,4 -
                                          renumbered 1:1 2:2 3:3 4:4   (old: 1:1 2:4 3:3 4:5)
     call 3  undo                         re-adds 2->4 and gives 4 its OLD id 4; 2 keeps its NEW id 2.
   All three calls succeed; W_trk holds after call 2; after call 3 the nodes 2 and 4 sit on one
   unbranched segment (edge 2->4, 2 does not divide) with the different track ids 2 and 4. *)
From Coq Require Import ZArith List Bool Lia.
From FT Require Import Base.Dict Model.Edit Model.EditExec Model.Toggle Model.ToggleExec Proofs.EditInv.
From FT Require Proofs.EditSegExample Proofs.EditWFEdge Proofs.EditBook Proofs.EditInverseNode Proofs.EditSessions.
Import ListNotations.
Open Scope Z_scope.

Definition f10_s0 : state := run EditWFEdge.exs [ODelEdge 1 3; OAddEdge 1 3 false].
(* the TRUE segments and lineages of the state at the moment of the switch, in networkx order *)
Definition f10_ctrk : list (list Z) := [[1]; [2]; [3]; [4]].
Definition f10_clin : list (list Z) := [[1; 2; 3]; [4]].
Definition f10_ops : list op2 := [OEdit (ODelEdge 2 4); OEnable [KTrack] true f10_ctrk f10_clin; OEdit OUndo].

Definition f10_s1 : state := fst (step2 f10_s0 (OEdit (ODelEdge 2 4))).
Definition f10_s2 : state := fst (step2 f10_s1 (OEnable [KTrack] true f10_ctrk f10_clin)).
Definition f10_s3 : state := fst (step2 f10_s2 (OEdit OUndo)).
Definition ids_of (s : state) : list (Z * option Z) := map (fun n => (n, zattr s n KTrack)) (node_ids s).

Lemma f10_s0_WF : WF f10_s0.
Proof. apply EditWFEdge.run_edge_WF; [reflexivity|apply EditWFEdge.exs_WF]. Qed.

Lemma f10_s2_nodes n : is_node f10_s2 n -> n = 1 \/ n = 2 \/ n = 3 \/ n = 4.
Proof. unfold is_node. replace (node_ids f10_s2) with [1; 2; 3; 4] by (vm_compute; reflexivity). cbn. intuition. Qed.
Lemma f10_s2_edges u v : edge f10_s2 u v -> (u, v) = (1, 2) \/ (u, v) = (1, 3).
Proof.
  intros H. apply EditSegExample.has_edge_all_edges in H.
  replace (all_edges f10_s2) with [(1, 2); (1, 3)] in H by (vm_compute; reflexivity). cbn in H. intuition.
Qed.

(* (b) after the switch the track ids label exactly the segments *)
Lemma f10_s2_W_trk : W_trk f10_s2.
Proof.
  assert (D1 : divides f10_s2 1) by (vm_compute; lia).
  constructor.
  - intros u v He Hnd. apply f10_s2_edges in He. destruct He as [E|E]; injection E as -> ->; destruct (Hnd D1).
  - intros a b Ha Hb E. pose proof (proj1 Ha) as Na. pose proof (proj1 Hb) as Nb. apply f10_s2_nodes in Na. apply f10_s2_nodes in Nb.
    destruct Na as [->|[->|[->| ->]]]; destruct Nb as [->|[->|[->| ->]]]; try reflexivity; vm_compute in E; discriminate.
Qed.

(* (c) after the undo they do not: 2 -> 4 is an unbranched step between different ids *)
Lemma f10_s3_not_W_trk : ~ W_trk f10_s3.
Proof.
  intros [T1 _]. assert (He : edge f10_s3 2 4) by (vm_compute; reflexivity).
  assert (Hnd : ~ divides f10_s3 2) by (vm_compute; lia).
  specialize (T1 2 4 He Hnd). vm_compute in T1. discriminate T1.
Qed.

Example F10b_refuted :
  exists (s0 s1 s2 s3 : state) (u v : Z) (ctrk clin : list (list Z)),
    (* a well-formed state; track ids are enabled already *)
    WF s0 /\ trk_act (ft s0) = true /\
    (* (a) every call succeeds: accepted edit (0), accepted switch (0), undo returns True (1) *)
    step2 s0 (OEdit (ODelEdge u v)) = (s1, (0, [])) /\
    step2 s1 (OEnable [KTrack] true ctrk clin) = (s2, (0, [])) /\
    step2 s2 (OEdit OUndo) = (s3, (1, [])) /\
    (* the oracle answers are the segments / lineages of s1: its only edges leave the dividing node 1 *)
    (node_ids s1, all_edges s1, ctrk, clin) = ([1; 2; 3; 4], [(1, 2); (1, 3)], [[1]; [2]; [3]; [4]], [[1; 2; 3]; [4]]) /\
    (* the switch renumbers *)
    ids_of s1 = [(1, Some 1); (2, Some 4); (3, Some 3); (4, Some 5)] /\
    ids_of s2 = [(1, Some 1); (2, Some 2); (3, Some 3); (4, Some 4)] /\
    (* (b) W_trk holds right after the switch *)
    W_trk s2 /\
    (* (c) and fails after the undo: the offending nodes are 2 and 4 *)
    ~ W_trk s3 /\
    edge s3 2 4 /\ ~ divides s3 2 /\ trk s3 2 = Some 2 /\ trk s3 4 = Some 4 /\
    ids_of s3 = [(1, Some 1); (2, Some 2); (3, Some 3); (4, Some 4)] /\ all_edges s3 = [(1, 2); (1, 3); (2, 4)].
Proof.
  exists f10_s0, f10_s1, f10_s2, f10_s3, 2, 4, f10_ctrk, f10_clin.
  split; [exact f10_s0_WF|]. split; [vm_compute; reflexivity|].
  split; [vm_compute; reflexivity|]. split; [vm_compute; reflexivity|]. split; [vm_compute; reflexivity|].
  split; [vm_compute; reflexivity|].
  split; [vm_compute; reflexivity|]. split; [vm_compute; reflexivity|]. split; [exact f10_s2_W_trk|]. split; [exact f10_s3_not_W_trk|].
  split; [vm_compute; reflexivity|]. split; [vm_compute; lia|]. split; [vm_compute; reflexivity|]. split; [vm_compute; reflexivity|].
  split; vm_compute; reflexivity.
Qed.

(* the boundary: WITHOUT the switch the same session stays well formed (an instance of the session
   theorem of Proofs/EditSessions.v, from exs with its empty history) - the switch is what breaks it *)
Definition f10_all : list op := [ODelEdge 1 3; OAddEdge 1 3 false; ODelEdge 2 4; OUndo].
Lemma f10_run_eq : run f10_s0 [ODelEdge 2 4; OUndo] = run EditWFEdge.exs f10_all.
Proof. vm_compute. reflexivity. Qed.

Example F10b_sessions_boundary :
  WF (run f10_s0 [ODelEdge 2 4; OUndo]) /\ fst (snd (step (fst (step f10_s0 (ODelEdge 2 4))) OUndo)) = 1 /\
  ids_of (run f10_s0 [ODelEdge 2 4; OUndo]) = [(1, Some 1); (2, Some 4); (3, Some 3); (4, Some 4)].
Proof.
  split; [|split; vm_compute; reflexivity]. rewrite f10_run_eq.
  assert (Hf : forallb EditSessions.session_fragment f10_all = true) by (vm_compute; reflexivity).
  assert (Hp : EditSessions.pre_along EditWFEdge.exs f10_all) by (apply EditSessions.pre_alongb2_spec; vm_compute; reflexivity).
  assert (Hu : undo_stack EditWFEdge.exs = []) by (vm_compute; reflexivity).
  assert (Hr : redo_stack EditWFEdge.exs = []) by (vm_compute; reflexivity).
  exact (EditSessions.session_WF EditWFEdge.exs f10_all Hf EditWFEdge.exs_WF EditSessions.exs_reg_ok EditInverseNode.exs_rp_disjoint Hu Hr Hp).
Qed.

Print Assumptions F10b_refuted.
Print Assumptions F10b_sessions_boundary.
