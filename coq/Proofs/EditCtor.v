(* The state a SolutionTracks is constructed in when the nodes of the input graph may already carry
   managed features (Model/EditCtor.v: construct_any) satisfies the hypotheses of the session theorems.

   What is proved (everything below is closed; no case is left out):
     scan_ids_book_ok     the scan _get_max_id_and_map is the group-by of the id attribute, for ANY node
                          attributes (missing / non-integer ids are skipped), as book_ok of Proofs/EditInv.v;
     construct_any_WF     full generality: with or without a segmentation, every combination of
                          supplied / computed for pos, area, track_id, lineage_id, then any further features;
                          hypotheses: raw_ok (Proofs/EditInit.v, unchanged), supplied_ok (below), the extra
                          keys are available;
     construct_any_session_WF / _timeline / _undo_redo   the session corollaries, as in EditInit.FromRaw;
     supplied_checkb_sound   a decidable check for supplied_ok (given raw_ok).
   supplied_ok only speaks about the features that ARE detected on the first node; nothing is assumed about
   a feature that is absent from the first node (stale partial values of it on other nodes are harmless:
   the computation overwrites them on every node and replaces the lookup).
   A non-vacuity example is in Proofs/EditCtorExample.v. *)
From Coq Require Import ZArith List Bool Lia Relations.
From FT Require Import Base.Dict Model.Edit Model.EditExec Model.Toggle Model.EditCtor Proofs.DictLemmas Proofs.EditInv Proofs.EditGraph
  Proofs.EditSeg Proofs.EditFresh Proofs.EditGlobal Proofs.ToggleProofs Proofs.EditInit.
From FT Require Proofs.EditBook Proofs.EditNodeBasic Proofs.EditWFNode Proofs.EditSessions Proofs.EditSessionsFull Proofs.EditSessionsAll.
Import ListNotations.
Open Scope Z_scope.

(* ================================================================== *)
(* 1. the scan is the group-by of the id attribute                      *)
(* ================================================================== *)
Definition scan_inv (st : state) (key : Z) (done : list Z) (acc : Z * dict (list Z)) : Prop :=
  NoDup (keys (snd acc)) /\
  (forall T l, lookup T (snd acc) = Some l -> l <> [] /\ NoDup l /\ forall n, In n l <-> (In n done /\ zattr st n key = Some T)) /\
  (forall n T, In n done -> zattr st n key = Some T -> haskey T (snd acc) = true /\ T <= fst acc).

Lemma scan_inv_skip st key done acc x : zattr st x key = None -> scan_inv st key done acc -> scan_inv st key (done ++ [x]) acc.
Proof.
  intros Hx (A & B & C). split; [exact A|]. split.
  - intros T l Hl. destruct (B T l Hl) as (B1 & B2 & B3). split; [exact B1|]. split; [exact B2|].
    intros n. rewrite B3, in_app_iff. cbn [In]. split; [tauto|]. intros [[H|[<-|[]]] E]; [tauto|congruence].
  - intros n T Hn E. apply in_app_iff in Hn. destruct Hn as [Hn|[<-|[]]]; [exact (C n T Hn E)|congruence].
Qed.

Lemma scan_inv_step st key done acc x : ~ In x done -> scan_inv st key done acc -> scan_inv st key (done ++ [x]) (scan_step st key acc x).
Proof.
  intros Hx HI. unfold scan_step.
  destruct (attr st x key) as [[i| | | |]|] eqn:E;
    try (apply scan_inv_skip; [unfold zattr; now rewrite E|exact HI]).
  assert (Zx : zattr st x key = Some i) by (unfold zattr; now rewrite E).
  destruct acc as [m b]. destruct HI as (A & B & C). unfold scan_inv. cbn [fst snd] in *.
  split; [now apply NoDup_keys_set|]. split.
  - intros T l Hl. destruct (Z.eq_dec T i) as [->|Hne].
    + rewrite lookup_set_eq in Hl. injection Hl as <-. unfold getd.
      destruct (lookup i b) as [l0|] eqn:E0.
      * destruct (B i l0 E0) as (B1 & B2 & B3). split; [now destruct l0|]. split.
        -- apply NoDup_snoc; [exact B2|]. intros H. apply B3 in H. tauto.
        -- intros n. rewrite !in_app_iff, B3. cbn [In]. split; [intros [H|[<-|[]]]; tauto|]. intros [[H|[<-|[]]] En]; tauto.
      * cbn [app]. split; [discriminate|]. split; [repeat constructor; intros []|].
        intros n. rewrite in_app_iff. cbn [In]. split; [intros [<-|[]]; tauto|]. intros [[H|[<-|[]]] En]; [|tauto].
        exfalso. destruct (C n i H En) as [Hk _]. unfold haskey in Hk. now rewrite E0 in Hk.
    + rewrite lookup_set_neq in Hl by exact Hne. destruct (B T l Hl) as (B1 & B2 & B3). split; [exact B1|]. split; [exact B2|].
      intros n. rewrite B3, in_app_iff. cbn [In]. split; [tauto|]. intros [[H|[<-|[]]] En]; [tauto|congruence].
  - intros n T Hn En. rewrite haskey_set. apply in_app_iff in Hn. destruct Hn as [Hn|[<-|[]]].
    + destruct (C n T Hn En) as [C1 C2]. rewrite C1, orb_true_r. split; [reflexivity|lia].
    + assert (T = i) by congruence. subst T. rewrite Z.eqb_refl. split; [reflexivity|lia].
Qed.

Lemma scan_inv_fold st key : forall todo done acc, NoDup (done ++ todo) -> scan_inv st key done acc ->
  scan_inv st key (done ++ todo) (fold_left (scan_step st key) todo acc).
Proof.
  induction todo as [|x r IH]; intros done acc Hnd HI; cbn [fold_left]; [now rewrite app_nil_r|].
  replace (done ++ x :: r) with ((done ++ [x]) ++ r) in * by (now rewrite <- app_assoc).
  apply IH; [exact Hnd|]. apply scan_inv_step; [|exact HI].
  destruct (NoDup_app_parts _ _ Hnd) as (H1 & _ & _). destruct (NoDup_app_parts _ _ H1) as (_ & _ & H3).
  intros H. apply (H3 x H). now left.
Qed.

(* TrackAnnotator._get_max_id_and_map: whatever ids the nodes carry, the lookup is their group-by and the
   maximum bounds them *)
Lemma scan_ids_book_ok st key : NoDup (node_ids st) ->
  book_ok st (snd (scan_ids st key)) (fun n => zattr st n key) (fst (scan_ids st key)).
Proof.
  intros Hnd. unfold scan_ids.
  assert (H0 : scan_inv st key [] (0, [])).
  { split; [constructor|]. split; [intros T l H; discriminate H|intros n T []]. }
  exact (scan_inv_fold st key (keys (nodes (g st))) [] (0, []) Hnd H0).
Qed.

(* the maximum is 0 or one of the ids *)
Lemma scan_ids_max_nonneg st key : 0 <= fst (scan_ids st key).
Proof.
  unfold scan_ids. generalize (keys (nodes (g st))) as l.
  assert (H : forall l acc, 0 <= fst acc -> 0 <= fst (fold_left (scan_step st key) l acc)).
  { induction l as [|x r IH]; intros acc Ha; cbn [fold_left]; [exact Ha|]. apply IH. unfold scan_step.
    destruct (attr st x key) as [[i| | | |]|]; cbn [fst]; lia. }
  intros l. apply H. cbn. lia.
Qed.

(* ================================================================== *)
(* 2. the hypotheses on the supplied features                           *)
(* ================================================================== *)
(* every core feature that is detected on the first node is valid on all nodes: the ids label exactly the
   unbranched segments / the components, the regionprops values are those of the current masks.
   Nothing is said about a feature the first node does not carry. With no node all clauses are vacuous. *)
Record supplied_ok (r0 : state) : Prop := {
  so_trk : first_has r0 KTrack = true ->
    (forall n, is_node r0 n -> exists i, attr r0 n KTrack = Some (VZ i)) /\
    (forall n m, is_node r0 n -> is_node r0 m -> (trk r0 n = trk r0 m <-> same_segment r0 n m));
  so_lin : first_has r0 KLin = true ->
    (forall n, is_node r0 n -> exists i, attr r0 n KLin = Some (VZ i)) /\
    (forall n m, is_node r0 n -> is_node r0 m -> (lin r0 n = lin r0 m <-> wconn r0 n m));
  so_rp : forall sg k, seg r0 = Some sg -> In k [KPos; KArea] -> first_has r0 k = true ->
    forall n, is_node r0 n -> attr r0 n k = Some (VRp (mask_of sg (time_of r0 n) n))
}.

(* ================================================================== *)
(* 3. valid ids, however they were obtained                             *)
(* ================================================================== *)
(* every node has an id, two nodes share it exactly when they are R-related, the lookup is the group-by *)
Definition ids_valid (r0 : state) (key : Z) (R : Z -> Z -> Prop) (book : dict (list Z)) (mx : Z) (st : state) : Prop :=
  (forall n, is_node r0 n -> exists i, attr st n key = Some (VZ i)) /\
  (forall n m, is_node r0 n -> is_node r0 m -> (zattr st n key = zattr st m key <-> R n m)) /\
  book_ok st book (fun n => zattr st n key) mx.

Lemma book_ok_ext st st' b (idof idof' : Z -> option Z) mx : (forall n, is_node st' n <-> is_node st n) -> (forall n, idof' n = idof n) ->
  book_ok st b idof mx -> book_ok st' b idof' mx.
Proof.
  intros Hn Hi (A & B & C). split; [exact A|]. split.
  - intros T l Hl. destruct (B T l Hl) as (B1 & B2 & B3). split; [exact B1|]. split; [exact B2|]. intros n. rewrite B3, Hn, Hi. tauto.
  - intros n T Nn En. apply (C n T); [now apply Hn|now rewrite <- Hi].
Qed.

Lemma ids_valid_ext r0 key R book mx st st' : (forall n, attr st' n key = attr st n key) -> (forall n, is_node st' n <-> is_node st n) ->
  ids_valid r0 key R book mx st -> ids_valid r0 key R book mx st'.
Proof.
  intros Ha Hn (A & B & C).
  assert (Hz : forall n, zattr st' n key = zattr st n key) by (intros n; unfold zattr; now rewrite Ha).
  split; [|split].
  - intros n Nn. rewrite Ha. now apply A.
  - intros n m Nn Nm. rewrite !Hz. now apply B.
  - apply (book_ok_ext st st' book (fun n => zattr st n key)); auto.
Qed.

(* the bulk assignment over the classes the oracle returned gives valid ids *)
Lemma ids_ok_valid r0 st key comps book mx R : classes_of r0 R comps -> (forall n, is_node st n <-> is_node r0 n) ->
  ids_ok key comps book mx st -> ids_valid r0 key R book mx st.
Proof.
  intros Hc Hn Hok. pose proof Hok as (A & B & D & E).
  destruct (concat_disjoint comps (co_nodup _ _ _ Hc)) as [Hdj _].
  assert (Hcl : forall n, is_node r0 n -> exists j c, nth_error comps j = Some c /\ In n c /\ attr st n key = Some (VZ (1 + Z.of_nat j))).
  { intros n Nn. apply (co_cover _ _ _ Hc), in_concat_nth in Nn. destruct Nn as (j & c & Hj & Hin). exists j, c.
    split; [exact Hj|]. split; [exact Hin|]. exact (A j c n Hj Hin). }
  split; [|split].
  - intros n Nn. destruct (Hcl n Nn) as (j & c & _ & _ & E1). eauto.
  - intros n m Nn Nm. destruct (Hcl n Nn) as (j & c & Hj & Hin & E1). destruct (Hcl m Nm) as (j' & c' & Hj' & Hin' & E2).
    unfold zattr. rewrite E1, E2. cbv beta iota. split.
    + intros E3. assert (j' = j) by (assert (E4 : 1 + Z.of_nat j = 1 + Z.of_nat j') by congruence; lia). subst j'. assert (c' = c) by congruence. subst c'.
      apply (co_class _ _ _ Hc c); auto. eapply nth_error_In; eauto.
    + intros HR. assert (j = j'); [|now subst].
      apply (Hdj j j' c c' m Hj Hj'); [|exact Hin']. apply (co_closed _ _ _ Hc c n m); auto. eapply nth_error_In; eauto.
  - apply (ids_book_ok r0 st key comps book mx _ R Hc Hn Hok). intros n. reflexivity.
Qed.

(* supplied ids that label the classes, with the lookup the scan builds, are valid *)
Lemma supplied_valid r0 key (R : Z -> Z -> Prop) : NoDup (node_ids r0) ->
  (forall n, is_node r0 n -> exists i, attr r0 n key = Some (VZ i)) ->
  (forall n m, is_node r0 n -> is_node r0 m -> (zattr r0 n key = zattr r0 m key <-> R n m)) ->
  ids_valid r0 key R (snd (scan_ids r0 key)) (fst (scan_ids r0 key)) r0.
Proof. intros Hnd A B. split; [exact A|]. split; [exact B|]. now apply scan_ids_book_ok. Qed.

(* ================================================================== *)
(* 4. the invariant of the construction                                 *)
(* ================================================================== *)
Record CInv (r0 : state) (st : state) : Prop := {
  ci_chg : chg (fun k => k <> KTime) r0 st;
  ci_cfg : cfg_keys st;
  ci_reg : W_reg st;
  ci_time : In KTime (reg_node (ft st));
  ci_rp : rp_fresh st;
  ci_iou : iou_fresh st;
  (* an active id feature is valid, whether it was taken over or computed *)
  ci_trk : trk_act (ft st) = true -> ids_valid r0 KTrack (same_segment r0) (trk_book (bk st)) (max_trk (bk st)) st;
  ci_lin : lin_act (ft st) = true -> ids_valid r0 KLin (wconn r0) (lin_book (bk st)) (max_lin (bk st)) st;
  (* a feature that is not active yet still has the attributes and the lookup of the input *)
  ci_same : forall k, ~ active st k -> forall n, attr st n k = attr r0 n k;
  ci_bkt : trk_act (ft st) = false -> trk_book (bk st) = snd (scan_ids r0 KTrack) /\ max_trk (bk st) = fst (scan_ids r0 KTrack);
  ci_bkl : lin_act (ft st) = false -> lin_book (bk st) = snd (scan_ids r0 KLin) /\ max_lin (bk st) = fst (scan_ids r0 KLin)
}.

Lemma enable_false_unfold st ks ctrk clin st' : enable_features st ks false ctrk clin = Ok tt st' ->
  st' = upd_ft st (register (set_flags (ft st) ks true) ks).
Proof. unfold enable_features. destruct (negb _); [discriminate|]. intros H; now injection H as <-. Qed.

Lemma enable_flags st k rc ctrk clin st' : enable_features st [k] rc ctrk clin = Ok tt st' ->
  iou_act (ft st') = (if (KIou =? k) && iou_avail (ft st) then true else iou_act (ft st)) /\
  trk_act (ft st') = (if KTrack =? k then true else trk_act (ft st)) /\
  lin_act (ft st') = (if KLin =? k then true else lin_act (ft st)).
Proof.
  intros H. rewrite (enable_ft _ _ _ _ _ _ H). cbn [register set_flags iou_act trk_act lin_act memz existsb]. rewrite !orb_false_r. auto.
Qed.

Lemma enable_available_any st ks rc ctrk clin st' : enable_features st ks rc ctrk clin = Ok tt st' -> available st' = available st.
Proof. intros H. unfold available. rewrite (enable_ft _ _ _ _ _ _ H). reflexivity. Qed.

Lemma first_has_same r0 st k : node_ids st = node_ids r0 -> (forall n, attr st n k = attr r0 n k) -> first_has st k = first_has r0 k.
Proof.
  intros Hi Ha. unfold first_has. change (keys (nodes (g st))) with (node_ids st). change (keys (nodes (g r0))) with (node_ids r0). rewrite Hi.
  destruct (node_ids r0) as [|n r]; [reflexivity|]. unfold haskey.
  change (lookup k (node_attrs st n)) with (attr st n k). change (lookup k (node_attrs r0 n)) with (attr r0 n k). now rewrite Ha.
Qed.

Lemma raw_not_active r0 posk k : ft r0 = ft_raw (has_seg (seg r0)) posk -> ~ active r0 k.
Proof. intros E. unfold active. rewrite E. destruct (has_seg (seg r0)); cbn; intros [[]|[[_ C]|[[_ C]|[_ C]]]]; discriminate C. Qed.

(* after the scan *)
Lemma CInv_init r0 posk ctrk clin : raw_ok r0 posk ctrk clin -> CInv r0 (scan_books r0).
Proof.
  intros H. destruct (ft_raw_cfg r0 posk (ro_ft _ _ _ _ H) (ro_posk _ _ _ _ H)) as (A & B & C).
  assert (Ef : ft (scan_books r0) = ft r0) by reflexivity.
  constructor.
  - apply chg_upd_bk.
  - exact (cfg_keys_ft r0 _ Ef A).
  - exact (W_reg_ft r0 _ Ef B).
  - exact C.
  - unfold rp_fresh. change (seg (scan_books r0)) with (seg r0). destruct (seg r0); [|exact I]. intros n k _ Hk. rewrite Ef, (ro_ft _ _ _ _ H) in Hk. destruct Hk.
  - unfold iou_fresh. change (seg (scan_books r0)) with (seg r0). destruct (seg r0); [|exact I]. intros Hk. rewrite Ef, (ro_ft _ _ _ _ H) in Hk. discriminate Hk.
  - intros Hk. rewrite Ef, (ro_ft _ _ _ _ H) in Hk. discriminate Hk.
  - intros Hk. rewrite Ef, (ro_ft _ _ _ _ H) in Hk. discriminate Hk.
  - intros k _ n. reflexivity.
  - intros _. split; reflexivity.
  - intros _. split; reflexivity.
Qed.

(* a step that computes the feature *)
Lemma CInv_step_compute r0 posk ctrk clin st k st' : raw_ok r0 posk ctrk clin -> CInv r0 st ->
  enable_features st [k] true ctrk clin = Ok tt st' -> CInv r0 st'.
Proof.
  intros Hraw [C Hcfg Hreg Htime Hrp Hiou Htrk Hlin Hsame Hbkt Hbkl] Hen.
  pose proof (enable_ok_avail _ _ _ _ _ _ Hen k (or_introl eq_refl)) as Hk.
  pose proof (available_not_time st k Hcfg Hk) as HkT.
  pose proof (chg_enable st [k] ctrk clin st' Hen) as C1.
  assert (C1' : chg (fun k' => k' <> KTime) st st') by (eapply chg_weaken; [|exact C1]; intros k' [<-|[]]; exact HkT).
  pose proof (chg_trans _ _ _ _ C C1') as C'.
  destruct (enable_registry st [k] true ctrk clin st' Hcfg Hreg Hen) as (Hcfg' & Hreg' & Hin & Hother).
  destruct (enable_flags st k true ctrk clin st' Hen) as (Fi & Ft & Fl).
  pose proof (W_seg_chg r0 st C (ro_seg _ _ _ _ Hraw)) as WS.
  assert (Hnode : forall cs R n, classes_of r0 R cs -> In n (concat cs) -> is_node st n).
  { intros cs R n Hc Hi. apply (chg_is_node _ r0 st n C). now apply (co_cover _ _ _ Hc). }
  constructor.
  - exact C'.
  - exact Hcfg'.
  - exact Hreg'.
  - apply (proj1 (Hother KTime ltac:(intros [E|[]]; now apply HkT))). exact Htime.
  - destruct (seg st) as [sg|] eqn:Hs.
    + exact (enable_rp_fresh_thm st sg [k] ctrk clin st' Hcfg Hs WS Hen Hrp).
    + unfold rp_fresh. now rewrite (ch_seg _ _ _ C1), Hs.
  - destruct (seg st) as [sg|] eqn:Hs; [|unfold iou_fresh; now rewrite (ch_seg _ _ _ C1), Hs].
    assert (Hs' : seg st' = Some sg) by (now rewrite (ch_seg _ _ _ C1)).
    destruct (Z.eq_dec k KIou) as [->|Hne].
    + destruct (enable_fresh_iou_thm st sg [KIou] ctrk clin st' Hcfg Hs WS Hen (or_introl eq_refl)) as (_ & E2 & E3).
      unfold iou_fresh. rewrite Hs'. intros _ u v He. apply E3; [exact He|]. rewrite (chg_time r0 st' u C').
      apply (chg_edge _ r0 st' u v C') in He. destruct (ro_edge_nodes _ _ _ _ Hraw u v He) as [Nu Nv].
      pose proof (ro_seg _ _ _ _ Hraw) as WS0. assert (Hs0 : seg r0 = Some sg) by (now rewrite <- (ch_seg _ _ _ C)).
      apply (W_seg_iff _ _ Hs0) in WS0. destruct WS0 as (I1 & _). destruct (I1 u Nu) as [Fu _]. destruct (I1 v Nv) as [Fv _].
      apply frame_ok_range in Fu. apply frame_ok_range in Fv. pose proof (wf_time _ (ro_forest _ _ _ _ Hraw) u v He). lia.
    + assert (Es : succs (g st') = succs (g st)) by (apply (enable_succs_noiou st [k] ctrk clin st' Hen); intros [E|[]]; now apply Hne).
      assert (Ei : iou_act (ft st') = iou_act (ft st)).
      { rewrite Fi. destruct (Z.eqb_spec KIou k) as [E|_]; [now contradiction Hne|reflexivity]. }
      unfold iou_fresh in *. rewrite Hs'. rewrite Hs in Hiou. rewrite Ei. intros Hact u v He.
      unfold edge in He. rewrite (has_edge_succs st' st u v Es) in He. rewrite (edge_attrs_succs st' st u v Es), (Hiou Hact u v He). f_equal.
      symmetry. apply iou_of_ext; try reflexivity; apply (chg_time st st' _ C1').
  - intros Hact. rewrite Ft in Hact. destruct (Z.eqb_spec KTrack k) as [<-|Hne].
    + destruct (concat_disjoint ctrk (co_nodup _ _ _ (ro_trk _ _ _ _ Hraw))) as [Hdj _].
      destruct (enable_ids_trk_thm st [KTrack] ctrk clin st' Hen (or_introl eq_refl) Hdj) as (_ & A & B & D & E).
      apply (ids_ok_valid r0 st' KTrack ctrk _ _ _ (ro_trk _ _ _ _ Hraw)); [intros n; apply (chg_is_node _ r0 st' n C')|].
      split; [|split; [exact B|split; [exact D|exact E]]]. intros j c n Hj Hn. apply (A j c n Hj Hn).
      apply (Hnode ctrk _ n (ro_trk _ _ _ _ Hraw)). apply in_concat_nth. eauto.
    + destruct (proj1 (enable_bk_other st [k] ctrk clin st' Hen)) as [Eb Em]; [intros [X|[]]; now apply Hne|].
      rewrite Eb, Em. apply (ids_valid_ext r0 KTrack _ _ _ st st'); [| |exact (Htrk Hact)].
      * intros n. apply (ch_attr _ _ _ C1 n KTrack). intros [X|[]]. now apply Hne.
      * intros n. apply (chg_is_node _ st st' n C1).
  - intros Hact. rewrite Fl in Hact. destruct (Z.eqb_spec KLin k) as [<-|Hne].
    + destruct (concat_disjoint clin (co_nodup _ _ _ (ro_lin _ _ _ _ Hraw))) as [Hdj _].
      destruct (enable_ids_lin_thm st [KLin] ctrk clin st' Hen (or_introl eq_refl) Hdj) as (_ & A & B & D & E).
      apply (ids_ok_valid r0 st' KLin clin _ _ _ (ro_lin _ _ _ _ Hraw)); [intros n; apply (chg_is_node _ r0 st' n C')|].
      split; [|split; [exact B|split; [exact D|exact E]]]. intros j c n Hj Hn. apply (A j c n Hj Hn).
      apply (Hnode clin _ n (ro_lin _ _ _ _ Hraw)). apply in_concat_nth. eauto.
    + destruct (proj2 (enable_bk_other st [k] ctrk clin st' Hen)) as [Eb Em]; [intros [X|[]]; now apply Hne|].
      rewrite Eb, Em. apply (ids_valid_ext r0 KLin _ _ _ st st'); [| |exact (Hlin Hact)].
      * intros n. apply (ch_attr _ _ _ C1 n KLin). intros [X|[]]. now apply Hne.
      * intros n. apply (chg_is_node _ st st' n C1).
  - intros k' Hna n. destruct (Z.eq_dec k' k) as [->|Hne]; [exfalso; apply Hna; apply (Hin k); now left|].
    rewrite (ch_attr _ _ _ C1 n k') by (intros [X|[]]; congruence). apply Hsame. intros Ha. apply Hna.
    apply (Hother k'); [intros [X|[]]; congruence|exact Ha].
  - intros Hoff. rewrite Ft in Hoff. destruct (Z.eqb_spec KTrack k) as [|Hne]; [discriminate|].
    destruct (proj1 (enable_bk_other st [k] ctrk clin st' Hen)) as [Eb Em]; [intros [X|[]]; now apply Hne|]. rewrite Eb, Em. now apply Hbkt.
  - intros Hoff. rewrite Fl in Hoff. destruct (Z.eqb_spec KLin k) as [|Hne]; [discriminate|].
    destruct (proj2 (enable_bk_other st [k] ctrk clin st' Hen)) as [Eb Em]; [intros [X|[]]; now apply Hne|]. rewrite Eb, Em. now apply Hbkl.
Qed.

(* a step that takes a supplied feature at face value *)
Lemma CInv_step_activate r0 posk ctrk clin st k st' : raw_ok r0 posk ctrk clin -> supplied_ok r0 -> CInv r0 st ->
  In k [KPos; KArea; KTrack; KLin] -> ~ active st k -> first_has r0 k = true ->
  enable_features st [k] false ctrk clin = Ok tt st' -> CInv r0 st'.
Proof.
  intros Hraw Hsup [C Hcfg Hreg Htime Hrp Hiou Htrk Hlin Hsame Hbkt Hbkl] Hk4 Hna Hfirst Hen.
  pose proof (enable_ok_avail _ _ _ _ _ _ Hen k (or_introl eq_refl)) as Hk.
  pose proof (available_not_time st k Hcfg Hk) as HkT.
  destruct (enable_registry st [k] false ctrk clin st' Hcfg Hreg Hen) as (Hcfg' & Hreg' & Hin & Hother).
  destruct (enable_flags st k false ctrk clin st' Hen) as (Fi & Ft & Fl).
  pose proof (enable_ft _ _ _ _ _ _ Hen) as Eft.
  pose proof (enable_false_unfold _ _ _ _ _ Hen) as Est.
  assert (Eg : g st' = g st) by (now rewrite Est).
  assert (Es : seg st' = seg st) by (now rewrite Est).
  assert (Eb : bk st' = bk st) by (now rewrite Est).
  assert (C1 : chg (fun k' => k' <> KTime) st st') by (apply chg_same_g; rewrite Est; reflexivity).
  assert (Ha : forall n k', attr st' n k' = attr st n k') by (intros; unfold attr, node_attrs; now rewrite Eg).
  assert (Hn : forall n, is_node st' n <-> is_node st n) by (intros n; unfold is_node, node_ids; now rewrite Eg).
  assert (HkI : k <> KIou) by (destruct Hk4 as [<-|[<-|[<-|[<-|[]]]]]; discriminate).
  constructor.
  - exact (chg_trans _ _ _ _ C C1).
  - exact Hcfg'.
  - exact Hreg'.
  - apply (proj1 (Hother KTime ltac:(intros [E|[]]; now apply HkT))). exact Htime.
  - unfold rp_fresh. rewrite Es. destruct (seg st) as [sg|] eqn:Hs; [|exact I].
    unfold rp_fresh in Hrp. rewrite Hs in Hrp.
    intros n k0 Nn Hk0. rewrite Ha, (chg_time st st' n C1). apply Hn in Nn.
    rewrite Eft in Hk0. cbn [register rp_act] in Hk0. apply set_flags_rp_act in Hk0. destruct Hk0 as [Hall Hk0].
    destruct (Z.eq_dec k0 k) as [->|Hne].
    + rewrite (Hsame k Hna n), (chg_time r0 st n C).
      destruct (cfg_rp_not_special st k Hcfg Hall) as (_ & X1 & X2 & _).
      apply (so_rp _ Hsup sg k); [now rewrite <- (ch_seg _ _ _ C)| |exact Hfirst|now apply (chg_is_node _ r0 st n C)].
      destruct Hk4 as [<-|[<-|[<-|[<-|[]]]]]; cbn; auto; congruence.
    + apply Hrp; [exact Nn|].
      assert (M : memz k0 [k] = false) by (apply memz_false; intros [X|[]]; congruence). now rewrite M in Hk0.
  - unfold iou_fresh. rewrite Es. destruct (seg st) as [sg|] eqn:Hs; [|exact I].
    unfold iou_fresh in Hiou. rewrite Hs in Hiou.
    assert (Ei : iou_act (ft st') = iou_act (ft st)).
    { rewrite Fi. destruct (Z.eqb_spec KIou k) as [E|_]; [congruence|reflexivity]. }
    assert (Esu : succs (g st') = succs (g st)) by (now rewrite Eg).
    rewrite Ei. intros Hact u v He. unfold edge in He. rewrite (has_edge_succs st' st u v Esu) in He.
    rewrite (edge_attrs_succs st' st u v Esu), (iou_of_nodes st st' sg u v) by (now rewrite Eg). exact (Hiou Hact u v He).
  - intros Hact. rewrite Eb. rewrite Ft in Hact. destruct (Z.eqb_spec KTrack k) as [<-|Hne].
    + assert (Hoff : trk_act (ft st) = false).
      { destruct (trk_act (ft st)) eqn:X; [|reflexivity]. exfalso. apply Hna. right. right. left. auto. }
      destruct (Hbkt Hoff) as [-> ->]. destruct (so_trk _ Hsup Hfirst) as [S1 S2].
      apply (ids_valid_ext r0 KTrack _ _ _ r0 st').
      * intros n. rewrite Ha. apply (Hsame KTrack Hna n).
      * intros n. rewrite Hn. apply (chg_is_node _ r0 st n C).
      * apply supplied_valid; [apply Hraw|exact S1|exact S2].
    + apply (ids_valid_ext r0 KTrack _ _ _ st st'); [intros n; apply Ha|exact Hn|exact (Htrk Hact)].
  - intros Hact. rewrite Eb. rewrite Fl in Hact. destruct (Z.eqb_spec KLin k) as [<-|Hne].
    + assert (Hoff : lin_act (ft st) = false).
      { destruct (lin_act (ft st)) eqn:X; [|reflexivity]. exfalso. apply Hna. right. right. right. auto. }
      destruct (Hbkl Hoff) as [-> ->]. destruct (so_lin _ Hsup Hfirst) as [S1 S2].
      apply (ids_valid_ext r0 KLin _ _ _ r0 st').
      * intros n. rewrite Ha. apply (Hsame KLin Hna n).
      * intros n. rewrite Hn. apply (chg_is_node _ r0 st n C).
      * apply supplied_valid; [apply Hraw|exact S1|exact S2].
    + apply (ids_valid_ext r0 KLin _ _ _ st st'); [intros n; apply Ha|exact Hn|exact (Hlin Hact)].
  - intros k' Hna' n. rewrite Ha. apply Hsame. intros X. apply Hna'.
    destruct (Z.eq_dec k' k) as [->|Hne]; [apply (Hin k); now left|]. apply (Hother k'); [intros [Y|[]]; congruence|exact X].
  - intros Hoff. rewrite Eb. apply Hbkt. rewrite Ft in Hoff. destruct (KTrack =? k); [discriminate|exact Hoff].
  - intros Hoff. rewrite Eb. apply Hbkl. rewrite Fl in Hoff. destruct (KLin =? k); [discriminate|exact Hoff].
Qed.

(* one round of the loop of _setup_core_computed_features *)
Lemma CInv_ctor_step r0 posk ctrk clin st k : raw_ok r0 posk ctrk clin -> supplied_ok r0 -> CInv r0 st ->
  In k [KPos; KArea; KTrack; KLin] -> In k (available st) -> ~ active st k ->
  CInv r0 (ctor_step ctrk clin st k) /\
  first_has st k = first_has r0 k /\
  enable_features st [k] (negb (first_has r0 k)) ctrk clin = Ok tt (ctor_step ctrk clin st k).
Proof.
  intros Hraw Hsup HI Hk4 Hk Hna. unfold ctor_step.
  assert (Ef : first_has st k = first_has r0 k).
  { apply first_has_same; [apply (ch_ids _ _ _ (ci_chg _ _ HI))|intros n; apply (ci_same _ _ HI k Hna)]. }
  rewrite Ef.
  destruct (proj1 (known_keys_accepted st [k] (negb (first_has r0 k)) ctrk clin ltac:(intros k' [<-|[]]; exact Hk))) as [st' Hen].
  rewrite Hen. split; [|split; reflexivity]. destruct (first_has r0 k) eqn:F; cbn [negb] in Hen.
  - exact (CInv_step_activate r0 posk ctrk clin st k st' Hraw Hsup HI Hk4 Hna F Hen).
  - exact (CInv_step_compute r0 posk ctrk clin st k st' Hraw HI Hen).
Qed.

Lemma ctor_fold r0 posk ctrk clin : raw_ok r0 posk ctrk clin -> supplied_ok r0 -> forall ks st, CInv r0 st -> NoDup ks ->
  (forall k, In k ks -> In k [KPos; KArea; KTrack; KLin] /\ In k (available st) /\ ~ active st k) ->
  let st' := fold_left (ctor_step ctrk clin) ks st in
  CInv r0 st' /\ available st' = available st /\
  (trk_act (ft st) = true \/ In KTrack ks -> trk_act (ft st') = true) /\
  (lin_act (ft st) = true \/ In KLin ks -> lin_act (ft st') = true).
Proof.
  intros Hraw Hsup. induction ks as [|k r IH]; intros st HI Hnd Hks; cbn [fold_left].
  - split; [exact HI|]. split; [reflexivity|]. split; intros [H|[]]; exact H.
  - destruct (Hks k (or_introl eq_refl)) as (Hk4 & Hk & Hna).
    destruct (CInv_ctor_step r0 posk ctrk clin st k Hraw Hsup HI Hk4 Hk Hna) as (HI1 & _ & Hen).
    set (st1 := ctor_step ctrk clin st k) in *.
    pose proof (enable_available_any _ _ _ _ _ _ Hen) as Ea. destruct (enable_flags _ _ _ _ _ _ Hen) as (_ & Ft & Fl).
    destruct (enable_registry st [k] _ ctrk clin st1 (ci_cfg _ _ HI) (ci_reg _ _ HI) Hen) as (_ & _ & _ & Hother).
    inversion Hnd as [|? ? Hnk Hndr]; subst.
    destruct (IH st1 HI1 Hndr) as (A & B & D & E).
    { intros k' Hk'. destruct (Hks k' (or_intror Hk')) as (X1 & X2 & X3). split; [exact X1|]. split; [now rewrite Ea|].
      intros Y. apply X3. apply (Hother k'); [intros [Z0|[]]; subst; contradiction|exact Y]. }
    cbv zeta in *. split; [exact A|]. split; [congruence|]. split.
    + intros H. apply D. destruct H as [H|[Hk0|H]]; [left; rewrite Ft, H; now destruct (KTrack =? k)|left; rewrite Ft, Hk0, Z.eqb_refl; reflexivity|now right].
    + intros H. apply E. destruct H as [H|[Hk0|H]]; [left; rewrite Fl, H; now destruct (KLin =? k)|left; rewrite Fl, Hk0, Z.eqb_refl; reflexivity|now right].
Qed.

(* the further features the caller enables, with computation *)
Definition enable_more (ctrk clin : list (list Z)) (st : state) (k : Z) : state :=
  match enable_features st [k] true ctrk clin with Ok _ s => s | Err _ s => s end.

Lemma extra_fold r0 posk ctrk clin : raw_ok r0 posk ctrk clin -> forall ks st, CInv r0 st ->
  (forall k, In k ks -> In k (available st)) ->
  let st' := fold_left (enable_more ctrk clin) ks st in
  CInv r0 st' /\ (trk_act (ft st) = true -> trk_act (ft st') = true) /\ (lin_act (ft st) = true -> lin_act (ft st') = true).
Proof.
  intros Hraw. induction ks as [|k r IH]; intros st HI Hav; cbn [fold_left]; [auto|].
  destruct (proj1 (known_keys_accepted st [k] true ctrk clin ltac:(intros k' [<-|[]]; apply Hav; now left))) as [st1 Hen].
  assert (E1 : enable_more ctrk clin st k = st1) by (unfold enable_more; now rewrite Hen). rewrite E1.
  pose proof (CInv_step_compute r0 posk ctrk clin st k st1 Hraw HI Hen) as HI1.
  pose proof (enable_available_any _ _ _ _ _ _ Hen) as Ea. destruct (enable_flags _ _ _ _ _ _ Hen) as (_ & Ft & Fl).
  destruct (IH st1 HI1) as (A & B & D).
  { intros k' Hk'. rewrite Ea. apply Hav. now right. }
  cbv zeta in *. split; [exact A|]. split.
  - intros H. apply B. rewrite Ft, H. now destruct (KTrack =? k).
  - intros H. apply D. rewrite Fl, H. now destruct (KLin =? k).
Qed.

(* ================================================================== *)
(* 5. from the invariant to WF                                          *)
(* ================================================================== *)
Theorem CInv_WF r0 posk ctrk clin st : raw_ok r0 posk ctrk clin -> CInv r0 st ->
  trk_act (ft st) = true -> lin_act (ft st) = true ->
  WF st /\ EditSessions.reg_ok st /\ EditBook.rp_disjoint st /\ EditSessionsFull.rp_decl st /\ undo_stack st = [] /\ redo_stack st = [].
Proof.
  intros Hraw [C Hcfg Hreg Htime Hrp Hiou Htrk Hlin _ _ _] Ht Hl.
  destruct (Htrk Ht) as (T1 & T2 & T3). destruct (Hlin Hl) as (L1 & L2 & L3).
  assert (Hn : forall n, is_node st n <-> is_node r0 n) by (intros n; apply (chg_is_node _ r0 st n C)).
  assert (He : forall u v, edge st u v <-> edge r0 u v) by (intros u v; apply (chg_edge _ r0 st u v C)).
  assert (WD : W_dict st).
  { constructor.
    - rewrite (ch_ids _ _ _ C). apply Hraw.
    - rewrite (ch_skeys _ _ _ C). apply Hraw.
    - intros n. rewrite Hn, <- (ro_succ_keys _ _ _ _ Hraw n), !haskey_keys, (ch_skeys _ _ _ C). tauto.
    - intros u. rewrite (ch_succ _ _ _ C). apply Hraw.
    - intros u v. rewrite He, !Hn. apply Hraw.
    - intros n Nn. rewrite (ch_attr _ _ _ C n KTime) by (intros X; now apply X). apply Hraw. now apply Hn.
    - intros n Nn. apply T1. now apply Hn.
    - intros n Nn. apply L1. now apply Hn.
    - intros n. apply (ch_nodup _ _ _ C). apply Hraw. }
  pose proof (W_forest_chg r0 st C (ro_forest _ _ _ _ Hraw)) as WFo.
  assert (Hss : forall n m, same_segment st n m <-> same_segment r0 n m).
  { intros n m. split; apply same_segment_succ; intros u; [symmetry|]; apply (ch_succ _ _ _ C). }
  assert (Hwc : forall n m, wconn st n m <-> wconn r0 n m).
  { intros n m. split; apply wconn_succ; intros u; [symmetry|]; apply (ch_succ _ _ _ C). }
  assert (WT : W_trk st).
  { constructor.
    - intros u v Huv Hnd. destruct (wd_edge_nodes _ WD u v Huv) as [Nu Nv]. apply Hn in Nu. apply Hn in Nv.
      unfold trk. apply (T2 u v Nu Nv). apply Hss. apply rst_step. split; assumption.
    - intros a b Ha Hb E. apply (segment_head_unique st a b WD WFo Ha Hb). apply Hss.
      apply (T2 a b); [apply Hn, (proj1 Ha)|apply Hn, (proj1 Hb)|exact E]. }
  assert (WL : W_lin st).
  { constructor.
    - intros u v Huv. destruct (wd_edge_nodes _ WD u v Huv) as [Nu Nv]. apply Hn in Nu. apply Hn in Nv.
      unfold lin. apply (L2 u v Nu Nv). apply Hwc. now apply rst_step.
    - intros a b Ha Hb E. apply (component_root_unique st a b WFo Ha Hb). apply Hwc.
      apply (L2 a b); [apply Hn, (proj1 Ha)|apply Hn, (proj1 Hb)|exact E]. }
  assert (Hav : forall k, k = KTrack \/ k = KLin -> In k (available st)).
  { intros k Hk. unfold available. apply in_app_iff. right. apply in_app_iff. right. destruct Hk as [->| ->]; cbn; auto. }
  assert (Cfg : cfg_ok st).
  { split; [exact Ht|]. split; [exact Hl|]. split; [exact Htime|]. split.
    - apply (proj2 (Hreg KTrack (Hav _ (or_introl eq_refl)))). right. right. left. auto.
    - apply (proj2 (Hreg KLin (Hav _ (or_intror eq_refl)))). right. right. right. auto. }
  split; [|split; [|split; [|split; [|split]]]].
  - constructor.
    + exact Cfg.
    + exact WD.
    + exact WFo.
    + exact WT.
    + exact WL.
    + split; [exact T3|exact L3].
    + exact (W_seg_chg r0 st C (ro_seg _ _ _ _ Hraw)).
    + apply W_fresh_split. split; assumption.
  - split.
    + intros k Hk. pose proof (ck_act _ Hcfg k Hk) as Hall.
      assert (Hav' : In k (available st)) by (unfold available; apply in_app_iff; now left).
      pose proof (proj2 (Hreg k Hav') (or_introl Hk)) as Hr. unfold in_reg in Hr.
      destruct (cfg_rp_not_special st k Hcfg Hall) as (A & _). unfold is_edge_key in Hr. destruct (Z.eqb_spec k KIou); [contradiction|exact Hr].
    + intros Ha. pose proof (ck_iou _ Hcfg Ha) as Hia.
      assert (Hav' : In KIou (available st)) by (unfold available; apply in_app_iff; right; apply in_app_iff; left; rewrite Hia; now left).
      exact (proj2 (Hreg KIou Hav') (or_intror (or_introl (conj eq_refl Ha)))).
  - intros k Hk Hin. pose proof (ck_act _ Hcfg k Hin) as Hall. destruct (cfg_rp_not_special st k Hcfg Hall) as (_ & A & B & D).
    destruct Hk as [->|[->| ->]]; congruence.
  - intros k Hk. exact (ck_act _ Hcfg k Hk).
  - destruct (ch_hist _ _ _ C) as (E & _). rewrite E. apply Hraw.
  - destruct (ch_hist _ _ _ C) as (_ & E & _). rewrite E. apply Hraw.
Qed.

(* ================================================================== *)
(* 6. the constructed state                                             *)
(* ================================================================== *)
Lemma construct_any_unfold r0 ctrk clin extra :
  construct_any r0 ctrk clin extra =
  fold_left (enable_more ctrk clin) extra (fold_left (ctor_step ctrk clin) (ctor_keys (with_seg r0)) (scan_books r0)).
Proof. reflexivity. Qed.

Lemma ctor_keys_facts r0 posk : ft r0 = ft_raw (has_seg (seg r0)) posk ->
  NoDup (ctor_keys (with_seg r0)) /\ In KTrack (ctor_keys (with_seg r0)) /\ In KLin (ctor_keys (with_seg r0)) /\
  forall k, In k (ctor_keys (with_seg r0)) -> In k [KPos; KArea; KTrack; KLin] /\ In k (available r0).
Proof.
  intros E. unfold available. rewrite E. unfold ctor_keys, with_seg, has_seg. destruct (seg r0); cbn.
  - split; [repeat constructor; cbn; intuition discriminate|]. split; [auto|]. split; [auto|]. intuition.
  - split; [repeat constructor; cbn; intuition discriminate|]. split; [auto|]. split; [auto|]. intuition.
Qed.

Lemma construct_any_CInv r0 posk ctrk clin extra : raw_ok r0 posk ctrk clin -> supplied_ok r0 ->
  (forall k, In k extra -> In k (available r0)) ->
  let st0 := construct_any r0 ctrk clin extra in
  CInv r0 st0 /\ trk_act (ft st0) = true /\ lin_act (ft st0) = true.
Proof.
  intros Hraw Hsup Hex. cbv zeta. rewrite construct_any_unfold.
  destruct (ctor_keys_facts r0 posk (ro_ft _ _ _ _ Hraw)) as (Knd & Kt & Kl & Kin).
  destruct (ctor_fold r0 posk ctrk clin Hraw Hsup (ctor_keys (with_seg r0)) (scan_books r0) (CInv_init r0 posk ctrk clin Hraw) Knd) as (HI & Ea & Ht & Hl).
  { intros k Hk. destruct (Kin k Hk) as [X1 X2]. split; [exact X1|]. split; [exact X2|].
    change (~ active r0 k). apply (raw_not_active r0 posk k), Hraw. }
  cbv zeta in *. set (st1 := fold_left (ctor_step ctrk clin) (ctor_keys (with_seg r0)) (scan_books r0)) in *.
  destruct (extra_fold r0 posk ctrk clin Hraw extra st1 HI) as (HI2 & Ht2 & Hl2).
  { intros k Hk. rewrite Ea. exact (Hex k Hk). }
  cbv zeta in *. split; [exact HI2|]. split; [apply Ht2, Ht; now right|apply Hl2, Hl; now right].
Qed.

(* Main statement: the state a SolutionTracks is constructed in, whichever core features the graph brought along *)
Theorem construct_any_WF r0 posk ctrk clin extra :
  raw_ok r0 posk ctrk clin -> supplied_ok r0 -> (forall k, In k extra -> In k (available r0)) ->
  let st0 := construct_any r0 ctrk clin extra in
  WF st0 /\ EditSessions.reg_ok st0 /\ EditBook.rp_disjoint st0 /\ EditSessionsFull.rp_decl st0 /\ undo_stack st0 = [] /\ redo_stack st0 = [].
Proof.
  intros Hraw Hsup Hex. cbv zeta.
  destruct (construct_any_CInv r0 posk ctrk clin extra Hraw Hsup Hex) as (HI & Ht & Hl).
  exact (CInv_WF r0 posk ctrk clin _ Hraw HI Ht Hl).
Qed.

(* what the lookups of the constructed state are when the ids were supplied: those of the scan *)
Theorem construct_any_supplied_books r0 posk ctrk clin : raw_ok r0 posk ctrk clin -> supplied_ok r0 ->
  let st1 := construct_any r0 ctrk clin [] in
  (forall n k, k <> KPos -> k <> KArea -> k <> KTrack -> k <> KLin -> attr st1 n k = attr r0 n k) /\
  (first_has r0 KTrack = true -> (forall n, attr st1 n KTrack = attr r0 n KTrack) /\
     trk_book (bk st1) = snd (scan_ids r0 KTrack) /\ max_trk (bk st1) = fst (scan_ids r0 KTrack)) /\
  (first_has r0 KLin = true -> (forall n, attr st1 n KLin = attr r0 n KLin) /\
     lin_book (bk st1) = snd (scan_ids r0 KLin) /\ max_lin (bk st1) = fst (scan_ids r0 KLin)).
Proof.
  intros Hraw Hsup. cbv zeta. rewrite construct_any_unfold. cbn [fold_left].
  destruct (ctor_keys_facts r0 posk (ro_ft _ _ _ _ Hraw)) as (Knd & _ & _ & Kin).
  assert (Hinit : forall k, In k (ctor_keys (with_seg r0)) -> In k [KPos; KArea; KTrack; KLin] /\ In k (available (scan_books r0)) /\ ~ active (scan_books r0) k).
  { intros k Hk. destruct (Kin k Hk) as [X1 X2]. split; [exact X1|]. split; [exact X2|].
    change (~ active r0 k). apply (raw_not_active r0 posk k), Hraw. }
  (* a stronger fold invariant: the steps for supplied keys change neither the attribute nor the lookup *)
  assert (K : forall ks st, CInv r0 st -> NoDup ks ->
            (forall k, In k ks -> In k [KPos; KArea; KTrack; KLin] /\ In k (available st) /\ ~ active st k) ->
            let st' := fold_left (ctor_step ctrk clin) ks st in
            (forall n k, k <> KPos -> k <> KArea -> k <> KTrack -> k <> KLin -> attr st' n k = attr st n k) /\
            (first_has r0 KTrack = true -> (forall n, attr st' n KTrack = attr st n KTrack) /\ (trk_act (ft st) = true -> trk_act (ft st') = true) /\
               trk_book (bk st') = trk_book (bk st) /\ max_trk (bk st') = max_trk (bk st)) /\
            (first_has r0 KLin = true -> (forall n, attr st' n KLin = attr st n KLin) /\
               lin_book (bk st') = lin_book (bk st) /\ max_lin (bk st') = max_lin (bk st))).
  { induction ks as [|k r IH]; intros st HI Hnd Hks; cbn [fold_left].
    - cbv zeta. split; [reflexivity|]. split; intros _; repeat split; auto.
    - destruct (Hks k (or_introl eq_refl)) as (Hk4 & Hk & Hna).
      destruct (CInv_ctor_step r0 posk ctrk clin st k Hraw Hsup HI Hk4 Hk Hna) as (HI1 & _ & Hen).
      set (st1 := ctor_step ctrk clin st k) in *.
      pose proof (enable_available_any _ _ _ _ _ _ Hen) as Ea. destruct (enable_flags _ _ _ _ _ _ Hen) as (_ & Ft & Fl).
      destruct (enable_registry st [k] _ ctrk clin st1 (ci_cfg _ _ HI) (ci_reg _ _ HI) Hen) as (_ & _ & _ & Hother).
      inversion Hnd as [|? ? Hnk Hndr]; subst.
      destruct (IH st1 HI1 Hndr) as (A & B & D).
      { intros k' Hk'. destruct (Hks k' (or_intror Hk')) as (X1 & X2 & X3). split; [exact X1|]. split; [now rewrite Ea|].
        intros Y. apply X3. apply (Hother k'); [intros [Z0|[]]; subst; contradiction|exact Y]. }
      cbv zeta in *.
      (* what the single step does *)
      assert (S : (forall n k', k' <> k -> attr st1 n k' = attr st n k') /\
                  (first_has r0 k = true -> g st1 = g st /\ bk st1 = bk st) /\
                  (k <> KTrack -> trk_book (bk st1) = trk_book (bk st) /\ max_trk (bk st1) = max_trk (bk st)) /\
                  (k <> KLin -> lin_book (bk st1) = lin_book (bk st) /\ max_lin (bk st1) = max_lin (bk st))).
      { destruct (first_has r0 k) eqn:F; cbn [negb] in Hen.
        - pose proof (enable_false_unfold _ _ _ _ _ Hen) as Est. rewrite Est. repeat split.
        - pose proof (chg_enable st [k] ctrk clin st1 Hen) as C1. destruct (enable_bk_other st [k] ctrk clin st1 Hen) as [B1 B2].
          split; [intros n k' Hne; apply (ch_attr _ _ _ C1 n k'); intros [X|[]]; congruence|]. split; [discriminate|].
          split; intros Hne; [apply B1|apply B2]; intros [X|[]]; congruence. }
      destruct S as (S1 & S2 & S3 & S4).
      assert (Hsame1 : forall n, first_has r0 k = true -> attr st1 n k = attr st n k).
      { intros n F. destruct (S2 F) as [Eg _]. unfold attr, node_attrs. now rewrite Eg. }
      split; [|split].
      + intros n k' H1 H2 H3 H4. rewrite (A n k' H1 H2 H3 H4). apply S1. destruct Hk4 as [<-|[<-|[<-|[<-|[]]]]]; congruence.
      + intros F. destruct (B F) as (B1 & B2 & B3 & B4). split; [|split; [|split]].
        * intros n. rewrite B1. destruct (Z.eq_dec k KTrack) as [->|Hne]; [now apply Hsame1|apply S1; congruence].
        * intros X. apply B2. rewrite Ft, X. now destruct (KTrack =? k).
        * rewrite B3. destruct (Z.eq_dec k KTrack) as [->|Hne]; [destruct (S2 F) as [_ Eb]; now rewrite Eb|now apply S3].
        * rewrite B4. destruct (Z.eq_dec k KTrack) as [->|Hne]; [destruct (S2 F) as [_ Eb]; now rewrite Eb|now apply S3].
      + intros F. destruct (D F) as (D1 & D3 & D4). split; [|split].
        * intros n. rewrite D1. destruct (Z.eq_dec k KLin) as [->|Hne]; [now apply Hsame1|apply S1; congruence].
        * rewrite D3. destruct (Z.eq_dec k KLin) as [->|Hne]; [destruct (S2 F) as [_ Eb]; now rewrite Eb|now apply S4].
        * rewrite D4. destruct (Z.eq_dec k KLin) as [->|Hne]; [destruct (S2 F) as [_ Eb]; now rewrite Eb|now apply S4]. }
  destruct (K (ctor_keys (with_seg r0)) (scan_books r0) (CInv_init r0 posk ctrk clin Hraw) Knd Hinit) as (A & B & D). cbv zeta in *.
  split; [exact A|]. split.
  - intros F. destruct (B F) as (B1 & _ & B3 & B4). split; [exact B1|]. split; [exact B3|exact B4].
  - intros F. destruct (D F) as (D1 & D3 & D4). split; [exact D1|]. split; [exact D3|exact D4].
Qed.

(* ================================================================== *)
(* 7. every session from a constructed state                            *)
(* ================================================================== *)
Section FromRawAny.
  Variables (r0 : state) (posk : list Z) (ctrk clin : list (list Z)) (extra : list Z) (ops : list op).
  Hypothesis Hraw : raw_ok r0 posk ctrk clin.
  Hypothesis Hsup : supplied_ok r0.
  Hypothesis Hextra : forall k, In k extra -> In k (available r0).
  Let st0 := construct_any r0 ctrk clin extra.
  Hypothesis Hpre : EditSessionsAll.pre_along_all st0 ops.

  Theorem construct_any_session_WF pre post : ops = pre ++ post -> WF (run st0 pre).
  Proof.
    destruct (construct_any_WF r0 posk ctrk clin extra Hraw Hsup Hextra) as (W0 & Hreg & Hrp & Hdecl & Hu & Hr).
    exact (EditSessionsAll.session_all_reachable_WF st0 ops W0 Hreg Hrp Hdecl Hu Hr Hpre pre post).
  Qed.

  Theorem construct_any_session_timeline (dS : state) :
    let t := EditSessionsFull.tl_run_full st0 {| EditSessions.A.tl := [st0]; EditSessions.A.c := 0 |} ops in
    (EditSessions.A.c _ t < length (EditSessions.A.tl _ t))%nat /\
    EditInverse.obs_eq (run st0 ops) (nth (EditSessions.A.c _ t) (EditSessions.A.tl _ t) dS) /\
    Forall WF (EditSessions.A.tl _ t) /\ (exists ext, EditSessions.A.tl _ t = st0 :: ext).
  Proof.
    destruct (construct_any_WF r0 posk ctrk clin extra Hraw Hsup Hextra) as (W0 & Hreg & Hrp & Hdecl & Hu & Hr).
    exact (EditSessionsAll.session_all_timeline st0 ops W0 Hreg Hrp Hdecl Hu Hr Hpre dS).
  Qed.

  Theorem construct_any_session_undo_redo pre post :
    (ops = pre ++ OUndo :: post ->
       let t := EditSessionsFull.tl_run_full st0 {| EditSessions.A.tl := [st0]; EditSessions.A.c := 0 |} pre in
       fst (snd (step (run st0 pre) OUndo)) = (if snd (EditSessions.A.t_undo _ t) then 1 else 2) /\
       (snd (EditSessions.A.t_undo _ t) = false <-> EditSessions.A.c _ t = 0%nat)) /\
    (ops = pre ++ ORedo :: post ->
       let t := EditSessionsFull.tl_run_full st0 {| EditSessions.A.tl := [st0]; EditSessions.A.c := 0 |} pre in
       fst (snd (step (run st0 pre) ORedo)) = (if snd (EditSessions.A.t_redo _ t) then 1 else 2) /\
       (snd (EditSessions.A.t_redo _ t) = false <-> (length (EditSessions.A.tl _ t) <= S (EditSessions.A.c _ t))%nat)).
  Proof.
    destruct (construct_any_WF r0 posk ctrk clin extra Hraw Hsup Hextra) as (W0 & Hreg & Hrp & Hdecl & Hu & Hr).
    exact (EditSessionsAll.session_all_undo_redo st0 ops W0 Hreg Hrp Hdecl Hu Hr Hpre pre post).
  Qed.
End FromRawAny.

(* ================================================================== *)
(* 8. supplied_ok, decidably (given the oracle answers of raw_ok)       *)
(* ================================================================== *)
Definition oz_eqb (a b : option Z) : bool :=
  match a, b with Some x, Some y => x =? y | None, None => true | _, _ => false end.
Lemma oz_eqb_eq a b : oz_eqb a b = true <-> a = b.
Proof.
  destruct a as [x|], b as [y|]; cbn; try (split; [discriminate|discriminate]); [|tauto].
  rewrite Z.eqb_eq. split; [now intros ->|now intros [= ->]].
Qed.

Definition same_classb (cs : list (list Z)) (n m : Z) : bool := existsb (fun c => memz n c && memz m c) cs.

(* an id key the first node carries: an integer on every node, equal exactly within the classes *)
Definition ids_checkb (r0 : state) (key : Z) (cs : list (list Z)) : bool :=
  negb (first_has r0 key) ||
  (forallb (fun n => match attr r0 n key with Some (VZ _) => true | _ => false end) (node_ids r0) &&
   forallb (fun n => forallb (fun m => Bool.eqb (oz_eqb (zattr r0 n key) (zattr r0 m key)) (same_classb cs n m)) (node_ids r0)) (node_ids r0)).

Definition rp_checkb (r0 : state) : bool :=
  match seg r0 with
  | None => true
  | Some sg => forallb (fun k => negb (first_has r0 k) ||
                 forallb (fun n => match attr r0 n k with
                                   | Some (VRp l) => if list_eq_dec Z.eq_dec l (mask_of sg (time_of r0 n) n) then true else false
                                   | _ => false end) (node_ids r0)) [KPos; KArea]
  end.

Definition supplied_checkb (r0 : state) (ctrk clin : list (list Z)) : bool :=
  ids_checkb r0 KTrack ctrk && ids_checkb r0 KLin clin && rp_checkb r0.

Lemma same_classb_iff r0 (R : Z -> Z -> Prop) cs n m : classes_of r0 R cs -> is_node r0 n -> is_node r0 m ->
  (same_classb cs n m = true <-> R n m).
Proof.
  intros Hc Nn Nm. unfold same_classb. rewrite existsb_exists. split.
  - intros (c & Hin & H). apply andb_true_iff in H. destruct H as [H1 H2]. apply memz_In in H1. apply memz_In in H2.
    exact (co_class _ _ _ Hc c n m Hin H1 H2).
  - intros HR. apply (co_cover _ _ _ Hc), in_concat in Nn. destruct Nn as (c & Hin & Hn). exists c. split; [exact Hin|].
    apply andb_true_iff. split; apply memz_In; [exact Hn|]. exact (co_closed _ _ _ Hc c n m Hin Hn Nm HR).
Qed.

Lemma ids_checkb_sound r0 key (R : Z -> Z -> Prop) cs : classes_of r0 R cs -> ids_checkb r0 key cs = true -> first_has r0 key = true ->
  (forall n, is_node r0 n -> exists i, attr r0 n key = Some (VZ i)) /\
  (forall n m, is_node r0 n -> is_node r0 m -> (zattr r0 n key = zattr r0 m key <-> R n m)).
Proof.
  intros Hc H F. unfold ids_checkb in H. rewrite F in H. cbn [negb orb] in H. apply andb_true_iff in H. destruct H as [H1 H2].
  rewrite forallb_forall in H1, H2. split.
  - intros n Nn. specialize (H1 n Nn). destruct (attr r0 n key) as [[i| | | |]|]; try discriminate H1. eauto.
  - intros n m Nn Nm. specialize (H2 n Nn). rewrite forallb_forall in H2. specialize (H2 m Nm). apply Bool.eqb_prop in H2.
    rewrite <- (same_classb_iff r0 R cs n m Hc Nn Nm), <- H2. symmetry. apply oz_eqb_eq.
Qed.

Theorem supplied_checkb_sound r0 posk ctrk clin : raw_ok r0 posk ctrk clin -> supplied_checkb r0 ctrk clin = true -> supplied_ok r0.
Proof.
  intros Hraw H. unfold supplied_checkb in H. apply andb_true_iff in H. destruct H as [H H3]. apply andb_true_iff in H. destruct H as [H1 H2].
  constructor.
  - exact (ids_checkb_sound r0 KTrack _ ctrk (ro_trk _ _ _ _ Hraw) H1).
  - exact (ids_checkb_sound r0 KLin _ clin (ro_lin _ _ _ _ Hraw) H2).
  - intros sg k Hs Hk F n Nn. unfold rp_checkb in H3. rewrite Hs in H3. rewrite forallb_forall in H3. specialize (H3 k Hk).
    rewrite F in H3. cbn [negb orb] in H3. rewrite forallb_forall in H3. specialize (H3 n Nn).
    destruct (attr r0 n k) as [[i|t|l|i u|]|]; try discriminate H3.
    destruct (list_eq_dec Z.eq_dec l (mask_of sg (time_of r0 n) n)) as [->|]; [reflexivity|discriminate H3].
Qed.

Print Assumptions scan_ids_book_ok.
Print Assumptions construct_any_WF.
Print Assumptions construct_any_supplied_books.
Print Assumptions construct_any_session_WF.
Print Assumptions construct_any_session_timeline.
Print Assumptions construct_any_session_undo_redo.
Print Assumptions supplied_checkb_sound.
