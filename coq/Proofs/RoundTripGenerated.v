(* Export followed by import, END TO END ON THE TRANSLATED CODE (property C14).

   The two source-derived ties are composed:
     Proofs/ExportTie.v   gen_export_to_csv / gen_export_to_geff / gen_dump_json / gen_from_json  (Gen/ExportPipeline_gen.v)
     Proofs/ImportTie.v   gen_csv_build / gen_geff_build                                        (Gen/ImportPipeline_gen.v)
   with the theorems about the hand models they are tied to.  The export tie targets Model/RoundTrip.v, the
   import tie targets Model/ImportTable.v (the model of C12), NOT RoundTrip.import_csv: the end-to-end statements
   are therefore obtained from the C12 characterisation of ImportTable.import_csv / import_geff
   (Proofs/ImportTableProofs.v: csv_nodes_edges, csv_values, csv_edges_iff, geff_nodes_edges, geff_values) and state
   the conclusion of C14_csv_roundtrip for the generated code: same node ids in the same order, same time, track
   id and position on every node, same edges.

   GLUE (explicit, because the two hand models use different representations):
     rn          string interning: the code of a column name in Model/RoundTrip.v -> its code in Model/ImportTable.v
                 ("t" 22 -> 22, "z" "y" "x" 10 11 12 -> 5 6 7, "id" 20 -> 2, "parent_id" 21 -> 3, "track_id" 2 -> 8)
     enc         a scalar token written into column c  ->  the ImportTable cell read back (Section variable; only
                 "the id and parent_id columns hold integers" is assumed of it)
     csv_read    the DataFrame pandas.read_csv returns for the file DataFrame.to_csv wrote: same columns in the same
                 order, one row per row, "" read as NaN.  THIS IS THE IO ORACLE (the hand models' hypothesis
                 [read_csv_of_to_csv t = t]) made explicit as a conversion between the two representations.
   ORACLE ANSWERS assumed (Section hypotheses, instantiated in the Example):
     ityp = true   pandas infers an integer dtype for the id column of the written file
     trk  = true   geff's validate_tracklets accepts the exported track ids (needed for "track ids are kept")
     feats_spec    the feature tables flag exactly Position / EllipsoidAxes as spatial (hypothesis of ImportTie) *)
From Coq Require Import ZArith List Bool Lia.
From FT Require Import Base.Dict Model.PyRt2 Model.RoundTrip Model.PyRt7.
From FT Require Import Proofs.RoundTripProofs Gen.ExportPipeline_gen Proofs.ExportTie.
From FT Require Model.ImportTable Model.PyRt6 Proofs.ImportTableProofs Gen.ImportPipeline_gen Proofs.ImportTie Proofs.DictLemmas.
Import ListNotations.
Open Scope Z_scope.

Module IT := FT.Model.ImportTable.
Module ITP := FT.Proofs.ImportTableProofs.
Module ITie := FT.Proofs.ImportTie.
Module P6 := FT.Model.PyRt6.
Module GI := FT.Gen.ImportPipeline_gen.

(* ================================================================== glue *)
Definition c_t : Z := 22.          (* the column "t" in the namespace of Model/ImportTable.v (a custom name) *)
Definition rn (k : Z) : Z :=
  if k =? C_t then c_t else if k =? K_z then IT.k_z else if k =? K_y then IT.k_y else if k =? K_x then IT.k_x
  else if k =? K_id then IT.k_id else if k =? K_parent then IT.k_parent else if k =? K_track then IT.k_track
  else k + 1000.

(* the explicit name map of the round trip (RoundTrip.explicit_csv_map) in the import namespace:
   {"id": "id", "parent_id": "parent_id", "time": "t", "pos": ["z", "y", "x"] | ["y", "x"], "track_id": "track_id"} *)
Definition std_map (is3d : bool) : IT.name_map :=
  [(IT.k_id, IT.Single IT.k_id); (IT.k_parent, IT.Single IT.k_parent); (IT.k_time, IT.Single c_t);
   (IT.k_pos, IT.Multi (map rn (coords is3d))); (IT.k_track, IT.Single IT.k_track)].

Section Glue.
  Variable enc : Z -> Z -> IT.cell.      (* column (RoundTrip code) -> token -> the cell read back *)

  Definition conv_cell (c : Z) (x : cell) : IT.cell := match x with Some z => enc c z | None => IT.CNone end.
  Definition nrows (T : table) : nat := match T with [] => O | (_, col) :: _ => length col end.
  (* read_csv (to_csv T) *)
  Definition csv_read (T : table) : IT.table :=
    {| IT.t_cols := map (fun kc => rn (fst kc)) T;
       IT.t_rows := map (fun i => map (fun kc => conv_cell (fst kc) (nth i (snd kc) None)) T) (seq 0 (nrows T)) |}.

  (* for the DataFrame built from row dicts: one row of converted cells per row dict *)
  Lemma csv_read_dataframe (rows : list (dict cell)) (header : list Z) : header <> [] ->
    csv_read (dataframe rows header)
    = {| IT.t_cols := map rn header;
         IT.t_rows := map (fun r => map (fun c => conv_cell c (getd c r None)) header) rows |}.
  Proof.
    intros Hh. unfold csv_read, dataframe. f_equal.
    - now rewrite map_map.
    - assert (Hn : nrows (map (fun c => (c, map (fun r => getd c r None) rows)) header) = length rows).
      { destruct header as [|c h]; [contradiction|]. cbn. now rewrite map_length. }
      rewrite Hn. clear Hn Hh.
      transitivity (map (fun i => map (fun c => conv_cell c (getd c (nth i rows []) None)) header) (seq 0 (length rows))).
      + apply map_ext_in. intros i Hi. apply in_seq in Hi. rewrite map_map. apply map_ext. intros c. cbn [fst snd].
        f_equal. rewrite (nth_indep _ None (getd c [] None)). 2:{ rewrite map_length. exact (proj2 Hi). }
        now rewrite (map_nth (fun r => getd c r None)).
      + generalize (@nil (Z * cell)) at 1. induction rows as [|r rows IH]; intros d; [reflexivity|].
        cbn [length seq map nth]. f_equal. rewrite <- seq_shift, map_map. apply IH.
  Qed.
End Glue.

(* ================================================================== (1) CSV *)
Section CsvRoundTrip.
  Variable enc : Z -> Z -> IT.cell.
  Hypothesis enc_id : forall z, enc K_id z = IT.CInt z.
  Hypothesis enc_parent : forall z, enc K_parent z = IT.CInt z.

  Fixpoint enc_coords (cs pos : list Z) : list IT.cell :=
    match cs, pos with c :: cr, p :: pr => enc c p :: enc_coords cr pr | _, _ => [] end.
  (* the row read back for node n: time t, position pos, parent cell, track id k *)
  Definition parent_cell (g : graph) (n : Z) : IT.cell := conv_cell enc K_parent (hd_error (preds g n)).
  Definition it_row (g : graph) (b : bool) (n t k : Z) (pos : list Z) : list IT.cell :=
    [enc C_t t] ++ enc_coords (coords b) pos ++ [IT.CInt n; parent_cell g n; enc K_track k].

  Definition time_of (tk : Z) (a : attrs) : Z := hd 0 (getd tk a []).
  Definition it_row_of (g : graph) (tk : Z) (pk : poskey) (trk : Z) (b : bool) (n : Z * attrs) : list IT.cell :=
    it_row g b (fst n) (time_of tk (snd n)) (time_of trk (snd n)) (get_position pk (snd n)).

  Lemma row_cells_eq g tk pk trk b n : csv_node_ok tk pk trk b n ->
    map (fun c => conv_cell enc c (getd c (csv_row g tk pk trk b n) None)) (csv_header b) = it_row_of g tk pk trk b n.
  Proof.
    intros ([t Ht] & [k Hk] & Hl). unfold it_row_of, it_row, time_of, csv_row, parent_cell. rewrite Ht, Hk.
    generalize dependent (get_position pk (snd n)). intros pos Hl. cbn [hd hd_error].
    destruct b; cbn [coords length] in Hl.
    - destruct pos as [|p1 [|p2 [|p3 [|]]]]; try discriminate. cbn. rewrite enc_id. reflexivity.
    - destruct pos as [|p1 [|p2 [|]]]; try discriminate. cbn. rewrite enc_id. reflexivity.
  Qed.

  (* the table read back from the file the generated exporter wrote *)
  Definition read_back (g : graph) (tk : Z) (pk : poskey) (trk : Z) (b : bool) : IT.table :=
    {| IT.t_cols := map rn (csv_header b); IT.t_rows := map (it_row_of g tk pk trk b) (g_nodes g) |}.

  Lemma csv_read_export g tk pk trk b : (forall n, In n (g_nodes g) -> csv_node_ok tk pk trk b n) ->
    csv_read enc (export_csv g tk pk trk b) = read_back g tk pk trk b.
  Proof.
    intros Hok. unfold export_csv. rewrite csv_read_dataframe by (destruct b; discriminate).
    unfold read_back. f_equal. rewrite map_map. apply map_ext_in. intros n Hn. apply row_cells_eq. now apply Hok.
  Qed.

  (* the cells of a row, by column *)
  Lemma row_cols g b n t k pos : length pos = length (coords b) ->
    let r := it_row g b n t k pos in
    let cols := map rn (csv_header b) in
    length r = length cols /\
    IT.cell_of cols r IT.k_id = IT.CInt n /\ IT.cell_of cols r IT.k_parent = parent_cell g n /\
    IT.cell_of cols r c_t = enc C_t t /\ IT.cell_of cols r IT.k_track = enc K_track k /\
    map (IT.cell_of cols r) (map rn (coords b)) = enc_coords (coords b) pos.
  Proof.
    intros Hl. destruct b; cbn [coords length] in Hl.
    - destruct pos as [|p1 [|p2 [|p3 [|]]]]; try discriminate. cbn. repeat split.
    - destruct pos as [|p1 [|p2 [|]]]; try discriminate. cbn. repeat split.
  Qed.

  (* ---------------- the hypotheses of the C12 theorems hold for the table read back ---------------- *)
  Variables (g : graph) (tk : Z) (pk : poskey) (trk : Z) (b : bool).
  Hypothesis Hok : forall n, In n (g_nodes g) -> csv_node_ok tk pk trk b n.
  Hypothesis Hnd : NoDup (map fst (g_nodes g)).
  Hypothesis Hm1 : ~ In (-1) (map fst (g_nodes g)).
  (* the parent written for a node is a node other than itself (edges start in nodes, no self loop) *)
  Hypothesis Hpar : forall n u, In n (map fst (g_nodes g)) -> hd_error (preds g n) = Some u ->
    In u (map fst (g_nodes g)) /\ u <> n.

  Notation t' := (read_back g tk pk trk b).
  Notation nm := (std_map b).

  Lemma std_map_wf : ITP.wf_map (IT.t_cols t') nm = true.
  Proof. destruct b; vm_compute; reflexivity. Qed.
  Lemma std_map_cols : ITP.id_col nm = IT.k_id /\ ITP.par_col nm = IT.k_parent.
  Proof. destruct b; split; reflexivity. Qed.

  Lemma row_facts n : In n (g_nodes g) ->
    let r := it_row_of g tk pk trk b n in
    let cols := IT.t_cols t' in
    length r = length cols /\
    IT.cell_of cols r IT.k_id = IT.CInt (fst n) /\ IT.cell_of cols r IT.k_parent = parent_cell g (fst n) /\
    IT.cell_of cols r c_t = enc C_t (time_of tk (snd n)) /\ IT.cell_of cols r IT.k_track = enc K_track (time_of trk (snd n)) /\
    map (IT.cell_of cols r) (map rn (coords b)) = enc_coords (coords b) (get_position pk (snd n)).
  Proof. intros Hn. destruct (Hok n Hn) as (_ & _ & Hl). exact (row_cols g b _ _ _ _ Hl). Qed.

  Lemma id_column : IT.column t' IT.k_id = map (fun n => IT.CInt (fst n)) (g_nodes g).
  Proof.
    unfold IT.column. cbn [IT.t_rows read_back]. rewrite map_map. apply map_ext_in. intros n Hn.
    now destruct (row_facts n Hn) as (_ & E & _).
  Qed.

  Lemma cint_in z (l : list (Z * attrs)) : In (IT.CInt z) (map (fun n => IT.CInt (fst n)) l) -> In z (map fst l).
  Proof. rewrite !in_map_iff. intros [n [E H]]. injection E as <-. now exists n. Qed.

  Lemma read_back_wf : ITP.wf_table t' true nm = true.
  Proof.
    unfold ITP.wf_table. destruct std_map_cols as [-> ->]. rewrite id_column. cbv zeta.
    rewrite !andb_true_iff. repeat split.
    - destruct b; reflexivity.
    - apply forallb_forall. intros r Hr. cbn [IT.t_rows read_back] in Hr. apply in_map_iff in Hr. destruct Hr as [n [<- Hn]].
      destruct (row_facts n Hn) as (El & _). apply Nat.eqb_eq. exact El.
    - apply ITP.nodup_cells_NoDup. rewrite <- (map_map fst IT.CInt). apply FinFun.Injective_map_NoDup; [|exact Hnd].
      intros x y H. now injection H.
    - apply negb_true_iff, ITP.memc_false. intros H. apply in_map_iff in H. destruct H as [n [E _]]. discriminate.
    - apply negb_true_iff, ITP.memc_false. intros H. apply Hm1. now apply cint_in.
    - apply negb_true_iff, ITP.memc_false. intros H. apply in_map_iff in H. destruct H as [n [E _]]. discriminate.
    - cbn [negb orb]. apply forallb_forall. intros c Hc. apply in_map_iff in Hc. destruct Hc as [n [<- _]]. reflexivity.
    - apply forallb_forall. intros r Hr. cbn [IT.t_rows read_back] in Hr. apply in_map_iff in Hr. destruct Hr as [n [<- Hn]].
      destruct (row_facts n Hn) as (_ & Eid & Epar & _). rewrite Eid, Epar. unfold parent_cell, conv_cell.
      destruct (hd_error (preds g (fst n))) as [u|] eqn:Eu; [|reflexivity].
      rewrite enc_parent. assert (Hin : In (fst n) (map fst (g_nodes g))) by now apply in_map.
      destruct (Hpar _ _ Hin Eu) as [Hu Hne]. apply orb_true_iff. right. apply andb_true_intro. split.
      + apply ITP.memc_In. apply in_map_iff in Hu. destruct Hu as [m [<- Hm]]. apply in_map_iff. now exists m.
      + apply negb_true_iff. cbn [IT.cell_eqb]. now apply Z.eqb_neq.
  Qed.

  (* ---------------- the hand model of the importer on the table read back (through the C12 theorems) ---------------- *)
  Lemma edges_read_back : forall l, incl l (g_nodes g) ->
    flat_map (ITP.row_edge t' true nm) (map (it_row_of g tk pk trk b) l)
    = edge_tuples (map (fun n => hd_error (preds g (fst n))) l) (map (fun n => Some (fst n)) l).
  Proof.
    induction l as [|n l IH]; intros Hl; [reflexivity|].
    cbn [map flat_map]. rewrite IH by (intros x Hx; apply Hl; now right).
    unfold edge_tuples at 2. cbn [combine flat_map]. fold (edge_tuples (map (fun n => hd_error (preds g (fst n))) l) (map (fun n => Some (fst n)) l)).
    f_equal. unfold ITP.row_edge. destruct std_map_cols as [-> ->].
    destruct (row_facts n (Hl n (or_introl eq_refl))) as (_ & Eid & Epar & _). rewrite Eid, Epar.
    unfold parent_cell, conv_cell. destruct (hd_error (preds g (fst n))) as [u|]; [|reflexivity].
    rewrite enc_parent. unfold ITP.no_parent, ITP.is_none, ITP.renum, ITP.zof. cbn [negb andb]. rewrite orb_false_r.
    destruct (u =? -1); reflexivity.
  Qed.

  Theorem csv_model_roundtrip : forall trkv lin,
    exists G, IT.import_csv t' true trkv lin nm = IT.Ok G /\
      map fst (IT.g_nodes G) = map fst (g_nodes g) /\
      IT.g_edges G = csv_edges g /\
      forall i n, nth_error (g_nodes g) i = Some n ->
        exists av, nth_error (IT.g_nodes G) i = Some (fst n, av) /\
          lookup IT.k_time av = Some (IT.VCell (enc C_t (time_of tk (snd n)))) /\
          (trkv = true -> lookup IT.k_track av = Some (IT.VCell (enc K_track (time_of trk (snd n))))) /\
          lookup IT.k_pos av = Some (IT.VList (enc_coords (coords b) (get_position pk (snd n)))) /\
          (forall k, In k (keys av) -> In k [IT.k_time; IT.k_pos; IT.k_track]).
  Proof.
    intros trkv lin.
    destruct (ITP.csv_nodes_edges t' true trkv lin nm std_map_wf read_back_wf) as [G [HG [Hn He]]].
    exists G. split; [exact HG|]. split; [|split].
    - rewrite Hn. cbn [IT.t_rows read_back]. rewrite map_map. apply map_ext_in. intros n Hin.
      destruct std_map_cols as [-> _]. now destruct (row_facts n Hin) as (_ & -> & _).
    - rewrite He. cbn [IT.t_rows read_back]. now apply edges_read_back.
    - intros i n Hi.
      assert (Hin : In n (g_nodes g)) by (eapply nth_error_In; exact Hi).
      assert (Hr : nth_error (IT.t_rows t') i = Some (it_row_of g tk pk trk b n)) by (cbn [IT.t_rows read_back]; now apply map_nth_error).
      destruct (ITP.csv_values t' true trkv lin nm G std_map_wf read_back_wf HG i _ Hr) as [av [Hav [Hs [Hm Hk]]]].
      destruct (row_facts n Hin) as (_ & Eid & _ & Et & Etr & Epos).
      destruct std_map_cols as [Ei _]. rewrite Ei, Eid in Hav. exists av. split; [exact Hav|].
      split; [|split; [|split]].
      + rewrite <- Et. apply Hs; [destruct b; reflexivity|discriminate|discriminate|discriminate|discriminate].
      + intros ->. rewrite <- Etr. apply Hs; [destruct b; reflexivity|discriminate|discriminate|reflexivity|discriminate].
      + rewrite <- Epos. apply Hm; [destruct b; reflexivity|discriminate|discriminate].
      + intros k Hkin. destruct (Hk k Hkin) as (Hh & Hni & Hnp).
        unfold haskey in Hh. destruct (lookup k nm) eqn:El; [|discriminate]. apply lookup_Some_key in El.
        destruct b; cbn in El; cbn; intuition congruence.
  Qed.
End CsvRoundTrip.

(* what "the imported graph G is the exported graph g" means (the conclusion of C14_csv_roundtrip, node by node, in the
   representation of the importer): same ids in the same order; every node carries exactly time / pos / track_id with the
   exported values; same edges *)
Definition same_graph (enc : Z -> Z -> IT.cell) (tk : Z) (pk : poskey) (trk : Z) (b : bool) (g : graph) (G : IT.graph) : Prop :=
  map fst (IT.g_nodes G) = map fst (g_nodes g) /\
  (forall i n, nth_error (g_nodes g) i = Some n ->
     exists av, nth_error (IT.g_nodes G) i = Some (fst n, av) /\
       lookup IT.k_time av = Some (IT.VCell (enc C_t (time_of tk (snd n)))) /\
       lookup IT.k_track av = Some (IT.VCell (enc K_track (time_of trk (snd n)))) /\
       lookup IT.k_pos av = Some (IT.VList (enc_coords enc (coords b) (get_position pk (snd n)))) /\
       (forall k, In k (keys av) -> In k [IT.k_time; IT.k_pos; IT.k_track])) /\
  (forall u v, In (u, v) (IT.g_edges G) <-> In (u, v) (g_edges g)).

(* the edges a CSV carries are the edges of the graph: from the C14 theorems about the hand models
   (C14_csv_roundtrip_exact says the model import returns csv_edges, C14_csv_roundtrip that these are the edges) *)
Lemma csv_edges_are_edges g tk pk trk b :
  NoDup (map fst (g_nodes g)) -> (forall n, In n (g_nodes g) -> csv_node_ok tk pk trk b n) ->
  (forall u v, In (u, v) (g_edges g) -> In v (map fst (g_nodes g))) ->
  (forall u u' v, In (u, v) (g_edges g) -> In (u', v) (g_edges g) -> u = u') ->
  (forall u v, In (u, v) (g_edges g) -> u <> -1) ->
  forall u v, In (u, v) (csv_edges g) <-> In (u, v) (g_edges g).
Proof.
  intros Hnd Hok Ht Hu Hm1.
  destruct (csv_roundtrip_full_io (fun t => t) (fun t => eq_refl) g tk pk trk b Hnd Hok Ht Hu Hm1) as (_ & He & _).
  rewrite (csv_roundtrip g tk pk trk b Hok) in He. exact He.
Qed.

Section GeneratedCsv.
  (* the library oracles of the two generated files: arbitrary *)
  Variables np_is_float np_is_int : Z -> bool.
  Variables Scale Metadata PropMeta : Type.
  Variable lin : bool.
  Variable newmeta : Metadata.
  Variable propsmeta : Z -> IT.prop -> PropMeta.
  Variable addmeta : Metadata -> list PropMeta -> Metadata.
  Variable settrack : Metadata -> dict Z -> Metadata.
  Variable default_features : Z -> dict bool.
  Variable feats0 : dict bool.
  Variable scale : option Scale.
  Hypothesis Hf0 : ITie.feats_spec feats0.
  Hypothesis Hfd : forall n, ITie.feats_spec (default_features n).
  (* the value read back (glue) *)
  Variable enc : Z -> Z -> IT.cell.
  Hypothesis enc_id : forall z, enc K_id z = IT.CInt z.
  Hypothesis enc_parent : forall z, enc K_parent z = IT.CInt z.

  (* ityp = true (pandas: the written id column is integer typed), trk = true (geff: the exported track ids validate) *)
  Notation gen_build nm t :=
    (GI.gen_csv_build Scale Metadata PropMeta (fun _ => true) (fun _ _ _ => true) (fun _ _ _ => lin)
       newmeta propsmeta addmeta settrack default_features nm None feats0 (IT.t_cols t) IT.csv_required None
       (ITie.table_frame t) scale).

  Theorem generated_csv_roundtrip : forall tr pk trk out sp,
    tracks_csv_ok tr pk trk ->
    let g := t_graph tr in
    ~ In (-1) (nx_nodes g) ->
    (forall u v, In (u, v) (g_edges g) -> In u (nx_nodes g) /\ In v (nx_nodes g) /\ u <> v) ->
    (forall u u' v, In (u, v) (g_edges g) -> In (u', v) (g_edges g) -> u = u') ->
    exists T, gen_export_to_csv np_is_float np_is_int tr out None false sp = Ok (tt, [EvCsv out T]) /\
      exists G, ITie.rmap (ITie.build_graph Scale Metadata) (gen_build (std_map (is3d tr)) (csv_read enc T)) = P6.ROk G /\
        same_graph enc (fd_time (t_features tr)) pk trk (is3d tr) g G.
  Proof.
    intros tr pk trk out sp Hok g Hm1 Hedges Huniq.
    exists (export_csv g (fd_time (t_features tr)) pk trk (is3d tr)). split.
    - exact (gen_export_to_csv_all_eq np_is_float np_is_int tr pk trk out sp Hok).
    - destruct Hok as (Hp & Htr & Hnd & Hnodes).
      rewrite (csv_read_export enc enc_id g _ pk trk (is3d tr) Hnodes).
      rewrite (ITie.gen_csv_build_eq Scale Metadata PropMeta true true lin newmeta propsmeta addmeta settrack default_features
                 _ (std_map (is3d tr)) feats0 scale) by (try assumption; destruct (is3d tr); repeat constructor; cbn; intuition discriminate).
      assert (Hpar : forall n u, In n (map fst (g_nodes g)) -> hd_error (preds g n) = Some u -> In u (map fst (g_nodes g)) /\ u <> n).
      { intros n u _ Hh. assert (Hin : In u (preds g n)) by (destruct (preds g n); [discriminate|injection Hh as ->; now left]).
        unfold preds in Hin. apply in_map_iff in Hin. destruct Hin as [[u' v] [Eu Hf]]. apply filter_In in Hf. destruct Hf as [He Ev].
        cbn in Eu, Ev. subst u'. apply Z.eqb_eq in Ev. subst v. destruct (Hedges _ _ He) as (Hu & _ & Hne). now split. }
      destruct (csv_model_roundtrip enc enc_parent g _ pk trk (is3d tr) Hnodes Hnd Hm1 Hpar true lin) as [G (HG & Hn & He & Hv)].
      exists G. rewrite HG. split; [reflexivity|]. split; [exact Hn|split].
      + intros i n Hi. destruct (Hv i n Hi) as [av (H1 & H2 & H3 & H4 & H5)]. exists av. repeat split; auto.
      + intros u v. rewrite He. apply (csv_edges_are_edges g _ pk trk (is3d tr) Hnd Hnodes).
        * intros a c H. now destruct (Hedges _ _ H) as (_ & Hc & _).
        * exact Huniq.
        * intros a c H Ea. subst a. apply Hm1. now destruct (Hedges _ _ H).
  Qed.
End GeneratedCsv.

(* ================================================================== (2) GEFF *)
(* GLUE: what geff.read_to_memory returns for the graph geff.write was given (node ids and edges as written; property
   pn k = the array of the nodes' values of attribute k, nothing missing).  This is RoundTrip.geff_columns in the
   representation of Model/ImportTable.v; pn is the interning of attribute names in the import namespace. *)
Section GeffRoundTrip.
  Variable enc : Z -> Z -> IT.cell.
  Variable pn : Z -> Z.

  Definition sval (k : Z) (a : attrs) : Z := hd 0 (getd k a []).
  Definition geff_store (names : list Z) (ns : list (Z * attrs)) : IT.props :=
    map (fun k => (pn k, {| IT.p_vals := IT.PS (map (fun n => enc k (sval k (snd n))) ns); IT.p_miss := None |})) names.
  (* the name map {"time": <time key>, "pos": [<axis keys>], "track_id": <tracklet key>} *)
  Definition geff_map (tk : Z) (names : list Z) (trk : Z) : IT.name_map :=
    [(IT.k_time, IT.Single (pn tk)); (IT.k_pos, IT.Multi (map pn names)); (IT.k_track, IT.Single (pn trk))].

  Variables (g0 : graph) (tk trk : Z) (names : list Z).
  Notation props_read := ([tk] ++ names ++ [trk]).
  Notation store := (geff_store props_read (g_nodes g0)).
  Notation nm := (geff_map tk names trk).
  Notation ids := (map fst (g_nodes g0)).
  (* attribute names are interned injectively, away from the three standard keys used; at least two axes *)
  Hypothesis pn_inj : forall a c, In a props_read -> In c props_read -> pn a = pn c -> a = c.
  Hypothesis pn_std : forall a, In a names -> ~ In (pn a) [IT.k_time; IT.k_pos; IT.k_track].
  Hypothesis names_nodup : NoDup names.
  Hypothesis names_2 : (2 <= length names)%nat.
  (* graph shape (geff's validators; true of a networkx graph without self loops) *)
  Hypothesis Hstruct : IT.structure_ok ids (g_edges g0) = true.

  Lemma keys_store : keys store = map pn props_read.
  Proof. unfold geff_store, keys. now rewrite map_map. Qed.

  Lemma lookup_store k : In k props_read ->
    lookup (pn k) store = Some {| IT.p_vals := IT.PS (map (fun n => enc k (sval k (snd n))) (g_nodes g0)); IT.p_miss := None |}.
  Proof.
    unfold geff_store. generalize pn_inj. generalize props_read. induction l as [|x l IH]; intros Hinj Hk; [contradiction|].
    cbn [map lookup]. destruct (Z.eqb_spec (pn k) (pn x)) as [E|Hne].
    - apply Hinj in E; [now subst|exact Hk|now left].
    - destruct Hk as [->|Hk]; [contradiction|]. apply IH; [|exact Hk]. intros a c Ha Hc. apply Hinj; now right.
  Qed.

  Lemma geff_map_wf : ITP.wf_map_core (keys store) nm = true.
  Proof.
    unfold ITP.wf_map_core. rewrite !andb_true_iff. repeat split.
    - apply ITP.nodup_z_NoDup. cbn. rewrite app_nil_r.
      assert (Hn : NoDup (map pn names)).
      { apply ITP.NoDup_map_inj_in; [|exact names_nodup]. intros a c Ha Hc. apply pn_inj; apply in_or_app; right; apply in_or_app; now left. }
      assert (Hs : forall x, In x (map pn names) -> ~ In x [IT.k_time; IT.k_pos; IT.k_track]).
      { intros x Hx. apply in_map_iff in Hx. destruct Hx as [a [<- Ha]]. now apply pn_std. }
      repeat constructor; try exact Hn; cbn; intros H;
        repeat (destruct H as [H|H]; [try discriminate|]); try contradiction;
        try (eapply Hs; [exact H|cbn; tauto]).
    - clear - names_2. destruct names as [|a [|c r]]; cbn in names_2; try lia. reflexivity.
    - clear - names_2. destruct names; [cbn in names_2; lia|reflexivity].
    - rewrite keys_store. cbn [forallb geff_map IT.sources snd]. rewrite !andb_true_iff. repeat split.
      + apply DictLemmas.memz_In. apply in_map. now left.
      + apply forallb_forall. intros x Hx. apply in_map_iff in Hx. destruct Hx as [a [<- Ha]].
        apply DictLemmas.memz_In. apply in_map. right. cbn [app]. apply in_or_app. now left.
      + apply DictLemmas.memz_In. apply in_map. right. cbn [app]. apply in_or_app. right. now left.
  Qed.

  Lemma value_at_store k i n : In k props_read -> nth_error (g_nodes g0) i = Some n ->
    IT.value_at {| IT.p_vals := IT.PS (map (fun n => enc k (sval k (snd n))) (g_nodes g0)); IT.p_miss := None |} i
    = Some (IT.VCell (enc k (sval k (snd n)))).
  Proof. intros _ Hi. unfold IT.value_at. cbn. f_equal. f_equal. now apply (ITP.nth_map_error (fun n => enc k (sval k (snd n)))). Qed.

  Theorem geff_model_roundtrip : forall trkv lin,
    exists G, IT.import_geff ids (g_edges g0) store trkv lin nm = IT.Ok G /\
      map fst (IT.g_nodes G) = ids /\ IT.g_edges G = g_edges g0 /\
      forall i n, nth_error (g_nodes g0) i = Some n ->
        exists av, nth_error (IT.g_nodes G) i = Some (fst n, av) /\
          lookup IT.k_time av = Some (IT.VCell (enc tk (sval tk (snd n)))) /\
          (trkv = true -> lookup IT.k_track av = Some (IT.VCell (enc trk (sval trk (snd n))))) /\
          lookup IT.k_pos av = Some (IT.VList (map (fun k => enc k (sval k (snd n))) names)) /\
          (forall k, In k (keys av) -> In k [IT.k_time; IT.k_pos; IT.k_track]).
  Proof.
    intros trkv lin.
    assert (Hin_names : forall k, In k names -> In k props_read) by (intros k Hk; right; cbn [app]; apply in_or_app; now left).
    assert (H1d : ITP.multi_1d store nm).
    { intros c Hc. cbn in Hc. rewrite app_nil_r in Hc. apply in_map_iff in Hc. destruct Hc as [k [<- Hk]].
      eexists. eexists. apply lookup_store. now apply Hin_names. }
    destruct (ITP.geff_nodes_edges ids (g_edges g0) store trkv lin nm geff_map_wf H1d Hstruct) as [G [HG [Hn He]]].
    exists G. split; [exact HG|]. split; [exact Hn|]. split; [exact He|].
    intros i n Hi.
    assert (Hid : nth_error ids i = Some (fst n)) by now apply map_nth_error.
    destruct (ITP.geff_values ids (g_edges g0) store trkv lin nm G geff_map_wf HG i _ Hid) as [av [Hav [Hs [Hm Hk]]]].
    exists av. split; [exact Hav|]. split; [|split; [|split]].
    - rewrite (Hs IT.k_time (pn tk) _ eq_refl (lookup_store tk (or_introl eq_refl))) by discriminate.
      now apply value_at_store; [left|].
    - intros ->. assert (Htrk : In trk props_read) by (right; cbn [app]; apply in_or_app; right; now left).
      rewrite (Hs IT.k_track (pn trk) _ eq_refl (lookup_store trk Htrk)) by (reflexivity || discriminate).
      now apply value_at_store.
    - destruct names as [|a0 rest] eqn:En; [cbn in names_2; lia|]. rewrite <- En in *.
      assert (Hl : lookup IT.k_pos nm = Some (IT.Multi (pn a0 :: map pn rest))) by (rewrite En; reflexivity).
      rewrite (Hm IT.k_pos _ _ Hl) by discriminate.
      assert (Hi' : (i < length (g_nodes g0))%nat) by (apply nth_error_Some; congruence).
      rewrite (ITP.geff_list_value store (length (g_nodes g0)) i (pn a0) (map pn rest) Hi').
      + replace (pn a0 :: map pn rest) with (map pn names) by (rewrite En; reflexivity).
        replace (existsb _ (map pn names)) with false.
        * f_equal. f_equal. rewrite map_map. apply map_ext_in. intros k Hkn.
          unfold getd. rewrite (lookup_store k (Hin_names k Hkn)). unfold ITP.cell_at. cbn [IT.p_vals].
          now apply (ITP.nth_map_error (fun n => enc k (sval k (snd n)))).
        * symmetry. apply not_true_is_false. intros H. apply existsb_exists in H. destruct H as [c [Hc Hmiss]].
          apply in_map_iff in Hc. destruct Hc as [k [<- Hkn]]. unfold getd in Hmiss.
          rewrite (lookup_store k (Hin_names k Hkn)) in Hmiss. discriminate.
      + intros c Hc. change (pn a0 :: map pn rest) with (map pn (a0 :: rest)) in Hc. rewrite <- En in Hc.
        apply in_map_iff in Hc. destruct Hc as [k [<- Hkn]]. eexists. eexists. split; [apply lookup_store; now apply Hin_names|].
        split; [now rewrite map_length|discriminate].
    - intros k Hkin. specialize (Hk k Hkin). unfold haskey in Hk. destruct (lookup k nm) eqn:El; [|discriminate].
      apply lookup_Some_key in El. cbn in El. cbn. tauto.
  Qed.
End GeffRoundTrip.

Section GeneratedGeff.
  Variables remove_tilde path_resolve : Z -> Z.
  Variable path_join : Z -> Z -> Z.
  Variables Scale Metadata Dir : Type.
  Variable lin : bool.
  Variable default_features : Z -> dict bool.
  Variable feats0 : dict bool.
  Variable scale : option Scale.
  Hypothesis Hf0 : ITie.feats_spec feats0.
  Hypothesis Hfd : forall n, ITie.feats_spec (default_features n).
  Variable meta : Metadata.          (* the metadata object the reader returns: arbitrary *)
  Variable eprops : IT.props.        (* edge properties: arbitrary (funtracks writes none that the node import reads) *)
  Variable enc : Z -> Z -> IT.cell.
  Variable pn : Z -> Z.

  (* read_to_memory of what geff.write was given (the glue of this section; validate_tracklets answers true) *)
  Definition geff_reader (g0 : graph) (props_read : list Z) : Dir -> list Z -> option (list Z) -> P6.img Metadata IT.props :=
    fun _ _ _ => P6.mk_img meta (map fst (g_nodes g0)) (g_edges g0) (geff_store enc pn props_read (g_nodes g0)) eprops.

  Theorem generated_geff_roundtrip : forall tr dirx ow fmt pk trk pa0 (dir : Dir),
    fd_pos (t_features tr) = Some pk -> split_ok tr pk ->
    let g := t_graph tr in
    let tk := fd_time (t_features tr) in
    let g0 := fst (split_position_attr g pk (is3d tr)) in
    let names := snd (split_position_attr g pk (is3d tr)) in
    let props_read := [tk] ++ names ++ [trk] in
    (forall a c, In a props_read -> In c props_read -> pn a = pn c -> a = c) ->
    (forall a, In a names -> ~ In (pn a) [IT.k_time; IT.k_pos; IT.k_track]) ->
    NoDup names -> (2 <= length names)%nat ->
    IT.structure_ok (nx_nodes g) (g_edges g) = true ->
    exists evs, gen_export_to_geff remove_tilde path_resolve path_join tr dirx ow None fmt = Ok (tt, evs) /\
      (exists p m, In (EvGeff p g0 m (tk :: names) (geff_axis_types tr) (geff_scale tr) ow fmt) evs) /\
      exists G, ITie.rmap (ITie.geff_build_graph Scale Metadata)
                  (GI.gen_geff_build Scale Metadata Dir (fun _ _ _ => true) (fun _ _ _ => lin) (geff_reader g0 props_read)
                     default_features (geff_map pn tk names trk) None feats0
                     (keys (geff_store enc pn props_read (g_nodes g0))) IT.geff_required None pa0 dir scale) = P6.ROk G /\
        map fst (IT.g_nodes G) = nx_nodes g /\ IT.g_edges G = g_edges g /\
        forall i n, nth_error (g_nodes g0) i = Some n ->
          exists av, nth_error (IT.g_nodes G) i = Some (fst n, av) /\
            lookup IT.k_time av = Some (IT.VCell (enc tk (sval tk (snd n)))) /\
            lookup IT.k_track av = Some (IT.VCell (enc trk (sval trk (snd n)))) /\
            lookup IT.k_pos av = Some (IT.VList (map (fun k => enc k (sval k (snd n))) names)) /\
            (forall k, In k (keys av) -> In k [IT.k_time; IT.k_pos; IT.k_track]).
  Proof.
    intros tr dirx ow fmt pk trk pa0 dir Hp Hsp g tk g0 names props_read Hinj Hstd Hnd H2 Hstruct.
    subst props_read. assert (Hs0 : nx_structure g0 = nx_structure g) by apply split_structure.
    assert (Hids : map fst (g_nodes g0) = nx_nodes g) by (injection Hs0 as H _; exact H).
    assert (Hes : g_edges g0 = g_edges g) by (injection Hs0 as _ H; exact H).
    destruct (t_seg tr) as [seg|] eqn:Hseg.
    - eexists. split; [exact (gen_export_to_geff_all_seg_eq remove_tilde path_resolve path_join tr dirx ow fmt pk seg Hp Hsp Hseg)|].
      split; [eexists; eexists; right; left; reflexivity|].
      unfold geff_reader.
      rewrite (ITie.gen_geff_build_eq Scale Metadata Dir true lin default_features meta _ _ _ eprops (geff_map pn tk names trk) feats0 pa0 dir scale)
        by (try assumption; repeat constructor; cbn; intuition discriminate).
      assert (Hst : IT.structure_ok (map fst (g_nodes g0)) (g_edges g0) = true) by (rewrite Hids, Hes; exact Hstruct).
      destruct (geff_model_roundtrip enc pn g0 tk trk names Hinj Hstd Hnd H2 Hst true lin) as [G (HG & Hn & He & Hv)].
      exists G. rewrite HG. split; [reflexivity|]. rewrite <- Hids, <- Hes. split; [exact Hn|]. split; [exact He|].
      intros i n Hi. destruct (Hv i n Hi) as [av (H1 & H3 & H4 & H5 & H6)]. exists av. repeat split; auto.
    - eexists. split; [exact (gen_export_to_geff_all_noseg_eq remove_tilde path_resolve path_join tr dirx ow fmt pk Hp Hsp Hseg)|].
      split; [eexists; eexists; right; left; reflexivity|].
      unfold geff_reader.
      rewrite (ITie.gen_geff_build_eq Scale Metadata Dir true lin default_features meta _ _ _ eprops (geff_map pn tk names trk) feats0 pa0 dir scale)
        by (try assumption; repeat constructor; cbn; intuition discriminate).
      assert (Hst : IT.structure_ok (map fst (g_nodes g0)) (g_edges g0) = true) by (rewrite Hids, Hes; exact Hstruct).
      destruct (geff_model_roundtrip enc pn g0 tk trk names Hinj Hstd Hnd H2 Hst true lin) as [G (HG & Hn & He & Hv)].
      exists G. rewrite HG. split; [reflexivity|]. rewrite <- Hids, <- Hes. split; [exact Hn|]. split; [exact He|].
      intros i n Hi. destruct (Hv i n Hi) as [av (H1 & H3 & H4 & H5 & H6)]. exists av. repeat split; auto.
  Qed.
End GeneratedGeff.

(* ================================================================== (3) internal format: FeatureDict <-> JSON *)
(* oracle: json.load returns the value json.dump was given *)
Theorem generated_featuredict_roundtrip :
  forall (json_load_of_dump : json -> json), (forall j, json_load_of_dump j = j) ->
  forall fd, fd_valid fd = true ->
  exists j, gen_dump_json fd = Ok j /\ gen_from_json (json_load_of_dump j) = Ok fd.
Proof.
  intros io Hio fd Hv. destruct (gen_featuredict_roundtrip fd Hv) as [j [Hd Hf]]. exists j. now rewrite Hio.
Qed.

(* the attrs.json written by the translated _save_attrs carries, under "features", a value from which the
   translated from_json rebuilds the FeatureDict of the tracks *)
Theorem generated_attrs_roundtrip :
  forall (json_load_of_dump : json -> json), (forall j, json_load_of_dump j = j) ->
  forall path_join tr dir, fd_valid (t_features tr) = true ->
  exists p rest j, gen_save_attrs path_join tr dir = Ok (tt, [EvJson p (JObj (rest ++ [(J_features_attr, j)]))]) /\
    gen_from_json (json_load_of_dump j) = Ok (t_features tr).
Proof.
  intros io Hio pj tr dir Hv. rewrite gen_save_attrs_eq.
  exists (pj dir S_attrs_json), [(J_scale, json_of_opt_list (t_scale tr)); (J_ndim, json_of_int (t_ndim tr))], (dump_json (t_features tr)).
  split; [reflexivity|]. rewrite Hio. destruct (gen_featuredict_roundtrip _ Hv) as [j [Hd Hf]].
  rewrite gen_dump_json_eq in Hd. injection Hd as <-. exact Hf.
Qed.

(* ================================================================== non-vacuity: a concrete solution, computed *)
(* 2D, ids 7, 3, 12, 40 (non-contiguous, unordered); 7 divides into 3 and 12; 3 -> 40 skips a frame.
   time key 0, single position key 1 (two coordinates, tokens >= 1000), track key 2. *)
Definition ex_tr : tracks :=
  {| t_graph := {| g_nodes := [(7,  [(0, [0]); (1, [1001; 1002]); (2, [5])]);
                               (3,  [(0, [1]); (1, [1003; 1004]); (2, [9])]);
                               (12, [(0, [1]); (1, [1005; 1001]); (2, [11])]);
                               (40, [(0, [3]); (1, [1006; 1007]); (2, [9])])];
                   g_edges := [(7, 3); (7, 12); (3, 40)] |};
     t_features := {| fd_features := [(0, JAtom 0); (1, JAtom 0); (2, JAtom 0)]; fd_time := 0; fd_pos := Some (PSingle 1);
                      fd_tracklet := Some 2; fd_lineage := None |};
     t_ndim := 3; t_scale := None; t_seg := None |}.
(* coordinates are read back as float tokens, everything else as integers *)
Definition ex_enc (c z : Z) : IT.cell := if memz c [K_z; K_y; K_x] then IT.CTok z else IT.CInt z.
Definition ex_feats : dict bool := [(IT.k_pos, true); (IT.k_ell, true)].
Definition ex_no (_ : Z) : bool := false.

Lemma ex_feats_spec : ITie.feats_spec ex_feats.
Proof.
  intros k. unfold ex_feats. cbn [lookup]. destruct (Z.eqb_spec k IT.k_pos) as [->|H1]; [reflexivity|].
  destruct (Z.eqb_spec k IT.k_ell) as [->|H2]; [reflexivity|].
  symmetry. apply DictLemmas.memz_false. cbn. intuition congruence.
Qed.


Definition ex_table : table :=
  [(22, [Some 0; Some 1; Some 1; Some 3]); (11, [Some 1001; Some 1003; Some 1005; Some 1006]);
   (12, [Some 1002; Some 1004; Some 1001; Some 1007]); (20, [Some 7; Some 3; Some 12; Some 40]);
   (21, [None; Some 7; Some 7; Some 3]); (2, [Some 5; Some 9; Some 11; Some 9])].
Definition ex_build (t : IT.table) :=
  ITie.rmap (ITie.build_graph unit unit)
    (GI.gen_csv_build unit unit unit (fun _ => true) (fun _ _ _ => true) (fun _ _ _ => true) tt (fun _ _ => tt) (fun m _ => m)
       (fun m _ => m) (fun _ => ex_feats) (std_map false) None ex_feats (IT.t_cols t) IT.csv_required None (ITie.table_frame t) None).

(* the generated exporter writes this table ... *)
Example ex_csv_export : gen_export_to_csv ex_no ex_no ex_tr 0 None false None = Ok (tt, [EvCsv 0 ex_table]).
Proof. vm_compute. reflexivity. Qed.

(* ... read back as this DataFrame (glue) ... *)
Example ex_csv_read : csv_read ex_enc ex_table =
  {| IT.t_cols := [c_t; IT.k_y; IT.k_x; IT.k_id; IT.k_parent; IT.k_track];
     IT.t_rows := [[IT.CInt 0; IT.CTok 1001; IT.CTok 1002; IT.CInt 7;  IT.CNone;  IT.CInt 5];
                   [IT.CInt 1; IT.CTok 1003; IT.CTok 1004; IT.CInt 3;  IT.CInt 7; IT.CInt 9];
                   [IT.CInt 1; IT.CTok 1005; IT.CTok 1001; IT.CInt 12; IT.CInt 7; IT.CInt 11];
                   [IT.CInt 3; IT.CTok 1006; IT.CTok 1007; IT.CInt 40; IT.CInt 3; IT.CInt 9]] |}.
Proof. vm_compute. reflexivity. Qed.

(* ... from which the generated importer builds the original graph: ids in order, time / track id / position, edges *)
Example ex_csv_import : ex_build (csv_read ex_enc ex_table) =
  P6.ROk {| IT.g_nodes :=
              [(7,  [(IT.k_time, IT.VCell (IT.CInt 0)); (IT.k_track, IT.VCell (IT.CInt 5));  (IT.k_pos, IT.VList [IT.CTok 1001; IT.CTok 1002])]);
               (3,  [(IT.k_time, IT.VCell (IT.CInt 1)); (IT.k_track, IT.VCell (IT.CInt 9));  (IT.k_pos, IT.VList [IT.CTok 1003; IT.CTok 1004])]);
               (12, [(IT.k_time, IT.VCell (IT.CInt 1)); (IT.k_track, IT.VCell (IT.CInt 11)); (IT.k_pos, IT.VList [IT.CTok 1005; IT.CTok 1001])]);
               (40, [(IT.k_time, IT.VCell (IT.CInt 3)); (IT.k_track, IT.VCell (IT.CInt 9));  (IT.k_pos, IT.VList [IT.CTok 1006; IT.CTok 1007])])];
            IT.g_edges := [(7, 3); (7, 12); (3, 40)] |}.
Proof. vm_compute. reflexivity. Qed.

(* every hypothesis of generated_csv_roundtrip holds for this value, so the theorem applies to it *)
Example ex_csv_hypotheses :
  tracks_csv_ok ex_tr (PSingle 1) 2 /\ ~ In (-1) (nx_nodes (t_graph ex_tr)) /\
  (forall u v, In (u, v) (g_edges (t_graph ex_tr)) -> In u (nx_nodes (t_graph ex_tr)) /\ In v (nx_nodes (t_graph ex_tr)) /\ u <> v) /\
  (forall u u' v, In (u, v) (g_edges (t_graph ex_tr)) -> In (u', v) (g_edges (t_graph ex_tr)) -> u = u') /\
  (forall z, ex_enc K_id z = IT.CInt z) /\ (forall z, ex_enc K_parent z = IT.CInt z).
Proof.
  split; [|split; [|split; [|split; [|split]]]].
  - split; [reflexivity|]. split; [reflexivity|]. split.
    + cbn. repeat constructor; cbn; intuition discriminate.
    + intros n Hn. cbn in Hn. repeat (destruct Hn as [<-|Hn]; [repeat split; eexists; reflexivity|]). contradiction.
  - cbn. intuition discriminate.
  - intros u v H. cbn in H. repeat (destruct H as [H|H]; [injection H as <- <-; cbn; intuition discriminate|]). contradiction.
  - intros u u' v H H'. cbn in H, H'.
    destruct H as [H|[H|[H|[]]]]; destruct H' as [H'|[H'|[H'|[]]]]; congruence.
  - reflexivity.
  - reflexivity.
Qed.

Example ex_csv_theorem :
  exists T, gen_export_to_csv ex_no ex_no ex_tr 0 None false None = Ok (tt, [EvCsv 0 T]) /\
    exists G, ex_build (csv_read ex_enc T) = P6.ROk G /\ same_graph ex_enc 0 (PSingle 1) 2 false (t_graph ex_tr) G.
Proof.
  destruct ex_csv_hypotheses as (H1 & H2 & H3 & H4 & H5 & H6).
  exact (generated_csv_roundtrip ex_no ex_no unit unit unit true tt (fun _ _ => tt) (fun m _ => m) (fun m _ => m) (fun _ => ex_feats)
           ex_feats None ex_feats_spec (fun _ => ex_feats_spec) ex_enc H5 H6 ex_tr (PSingle 1) 2 0 None H1 H2 H3 H4).
Qed.

(* ---- GEFF ---- *)
Definition ex_id (p : Z) : Z := p.
Definition ex_join (p n : Z) : Z := p * 100 + n.
Definition ex_pn (k : Z) : Z := k + 100.
Definition ex_g0 : graph := fst (split_position_attr (t_graph ex_tr) (PSingle 1) false).
Definition ex_geff_build :=
  ITie.rmap (ITie.geff_build_graph unit unit)
    (GI.gen_geff_build unit unit unit (fun _ _ _ => true) (fun _ _ _ => true)
       (geff_reader unit unit tt [] ex_enc ex_pn ex_g0 [0; 11; 12; 2]) (fun _ => ex_feats) (geff_map ex_pn 0 [11; 12] 2) None ex_feats
       (keys (geff_store ex_enc ex_pn [0; 11; 12; 2] (g_nodes ex_g0))) IT.geff_required None [] tt None).

Definition ex_imported : IT.graph :=
  {| IT.g_nodes :=
       [(7,  [(IT.k_time, IT.VCell (IT.CInt 0)); (IT.k_track, IT.VCell (IT.CInt 5));  (IT.k_pos, IT.VList [IT.CTok 1001; IT.CTok 1002])]);
        (3,  [(IT.k_time, IT.VCell (IT.CInt 1)); (IT.k_track, IT.VCell (IT.CInt 9));  (IT.k_pos, IT.VList [IT.CTok 1003; IT.CTok 1004])]);
        (12, [(IT.k_time, IT.VCell (IT.CInt 1)); (IT.k_track, IT.VCell (IT.CInt 11)); (IT.k_pos, IT.VList [IT.CTok 1005; IT.CTok 1001])]);
        (40, [(IT.k_time, IT.VCell (IT.CInt 3)); (IT.k_track, IT.VCell (IT.CInt 9));  (IT.k_pos, IT.VList [IT.CTok 1006; IT.CTok 1007])])];
     IT.g_edges := [(7, 3); (7, 12); (3, 40)] |}.

(* the generated GEFF exporter hands geff.write the split graph and the axis names [time; y; x] ... *)
Example ex_geff_export :
  gen_export_to_geff ex_id ex_id ex_join ex_tr 0 false None 2
  = Ok (tt, [EvZarrGroup 0 2 S_w_minus;
             EvGeff (ex_join 0 S_tracks) ex_g0 (GeffMeta false) [0; K_y; K_x] [S_time_axis; S_space; S_space] [F_one; F_one; F_one] false 2]).
Proof. vm_compute. reflexivity. Qed.

Example ex_g0_value : ex_g0 =
  {| g_nodes := [(7,  [(0, [0]); (2, [5]);  (K_y, [1001]); (K_x, [1002])]);
                 (3,  [(0, [1]); (2, [9]);  (K_y, [1003]); (K_x, [1004])]);
                 (12, [(0, [1]); (2, [11]); (K_y, [1005]); (K_x, [1001])]);
                 (40, [(0, [3]); (2, [9]);  (K_y, [1006]); (K_x, [1007])])];
     g_edges := [(7, 3); (7, 12); (3, 40)] |}.
Proof. vm_compute. reflexivity. Qed.

(* ... and the generated GEFF importer, reading that graph back (glue geff_reader), builds the same graph as the CSV route *)
Example ex_geff_import : ex_geff_build = P6.ROk ex_imported.
Proof. vm_compute. reflexivity. Qed.
Example ex_csv_import_same : ex_build (csv_read ex_enc ex_table) = P6.ROk ex_imported.
Proof. exact ex_csv_import. Qed.

Example ex_geff_hypotheses :
  fd_pos (t_features ex_tr) = Some (PSingle 1) /\ split_ok ex_tr (PSingle 1) /\
  (forall a c, In a [0; K_y; K_x; 2] -> In c [0; K_y; K_x; 2] -> ex_pn a = ex_pn c -> a = c) /\
  (forall a, In a [K_y; K_x] -> ~ In (ex_pn a) [IT.k_time; IT.k_pos; IT.k_track]) /\
  NoDup [K_y; K_x] /\ (2 <= length [K_y; K_x])%nat /\
  IT.structure_ok (nx_nodes (t_graph ex_tr)) (g_edges (t_graph ex_tr)) = true.
Proof.
  split; [reflexivity|]. split.
  { intros n Hn. cbn in Hn. repeat (destruct Hn as [<-|Hn]; [eexists; split; [reflexivity|cbn; lia]|]). contradiction. }
  split; [intros a c _ _ H; unfold ex_pn in H; lia|].
  split; [intros a Ha; cbn in Ha; destruct Ha as [<-|[<-|[]]]; cbn; intuition discriminate|].
  split; [repeat constructor; cbn; intuition discriminate|]. split; [cbn; lia|reflexivity].
Qed.

Example ex_geff_theorem :
  exists evs, gen_export_to_geff ex_id ex_id ex_join ex_tr 0 false None 2 = Ok (tt, evs) /\
    (exists p m, In (EvGeff p ex_g0 m [0; K_y; K_x] (geff_axis_types ex_tr) (geff_scale ex_tr) false 2) evs) /\
    exists G, ex_geff_build = P6.ROk G /\ map fst (IT.g_nodes G) = nx_nodes (t_graph ex_tr) /\ IT.g_edges G = g_edges (t_graph ex_tr).
Proof.
  destruct ex_geff_hypotheses as (H1 & H2 & H3 & H4 & H5 & H6 & H7).
  destruct (generated_geff_roundtrip ex_id ex_id ex_join unit unit unit true (fun _ => ex_feats) ex_feats None ex_feats_spec
              (fun _ => ex_feats_spec) tt [] ex_enc ex_pn ex_tr 0 false 2 (PSingle 1) 2 [] tt H1 H2 H3 H4 H5 H6 H7)
    as [evs (He & Hev & G & HG & Hn & Hed & _)].
  exists evs. split; [exact He|]. split; [exact Hev|]. exists G. split; [exact HG|]. split; assumption.
Qed.

(* ---- FeatureDict ---- *)
Example ex_featuredict : fd_valid (t_features ex_tr) = true /\
  gen_from_json (dump_json (t_features ex_tr)) = Ok (t_features ex_tr).
Proof. split; vm_compute; reflexivity. Qed.

Print Assumptions generated_csv_roundtrip.
Print Assumptions generated_geff_roundtrip.
Print Assumptions generated_featuredict_roundtrip.
Print Assumptions generated_attrs_roundtrip.
Print Assumptions csv_model_roundtrip.
Print Assumptions geff_model_roundtrip.
Print Assumptions csv_read_export.
Print Assumptions ex_csv_theorem.
Print Assumptions ex_geff_theorem.
Print Assumptions ex_csv_import.
Print Assumptions ex_geff_import.
