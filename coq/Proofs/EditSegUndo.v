(* C07, last clause: undoing a paint / erase stroke restores the previous array bit for bit. *)
From Coq Require Import ZArith List Bool Lia.
From FT Require Import Base.Dict Model.Edit Proofs.DictLemmas Proofs.EditInv Proofs.EditSeg.
Import ListNotations.
Open Scope Z_scope.

(* ================================================================== *)
(* 1. a generic skeleton: what every graph-only sub-action preserves    *)
(* ================================================================== *)
Section Skel.
  Variable P : state -> state -> Prop.
  Hypothesis Prefl : forall a, P a a.
  Hypothesis Ptrans : forall a b c, P a b -> P b c -> P a c.
  Hypothesis P_del_edge : forall st u v, P st (rstate (do_del_edge st u v)).
  Hypothesis P_add_edge : forall st u v a, P st (rstate (do_add_edge st u v a)).
  Hypothesis P_upd_track : forall st s t l, P st (rstate (do_upd_track st s t l)).
  Hypothesis P_bk : forall st b, P st (upd_bk st b).

  Ltac pstep := first [ apply Prefl | apply P_del_edge | apply P_add_edge | apply P_upd_track ].

  Lemma P_ok {A} (r : res A) st a s : P st (rstate r) -> r = Ok a s -> P st s.
  Proof. intros H ->. exact H. Qed.

  Lemma P_user_delete_edge_core st u v : P st (rstate (user_delete_edge_core st u v)).
  Proof.
    unfold user_delete_edge_core. destruct (negb (has_edge st u v)); [pstep|].
    apply bind_rel; [exact Ptrans|pstep|]. intros b1 s _.
    apply bind_rel; [exact Ptrans| |intros; pstep].
    destruct (out_degree s u =? 0).
    - apply bind_rel; [exact Ptrans|pstep|intros; pstep].
    - destruct (out_degree s u =? 1); [|pstep].
      destruct (successors s u) as [|sib r]; [pstep|]. destruct (zattr s u KTrack) as [t|]; [|pstep].
      apply bind_rel; [exact Ptrans|pstep|]. intros b2 s2 _.
      destruct (zattr s2 v KTrack); [|pstep]. apply bind_rel; [exact Ptrans|pstep|intros; pstep].
  Qed.

  Lemma P_user_delete_edge_false st u v : P st (rstate (user_delete_edge st u v false)).
  Proof. unfold user_delete_edge, top_wrap. assert (H := P_user_delete_edge_core st u v). destruct (user_delete_edge_core st u v); exact H. Qed.

  Lemma P_track_neighbors st T t : P st (fst (track_neighbors st T t)).
  Proof. unfold track_neighbors. destruct (lookup T (trk_book (bk st))) as [[|x l]|]; cbn [fst]; try apply Prefl. apply P_bk. Qed.

  Lemma P_udn_preds n ps s acc : P s (rstate (udn_preds n ps s acc)).
  Proof.
    revert s acc; induction ps as [|p r IH]; intros s acc; cbn [udn_preds]; [pstep|].
    apply bind_rel; [exact Ptrans| |].
    - destruct (length (successors s p) =? 2)%nat; [|pstep].
      destruct (remove1 n (successors s p)); [pstep|]. destruct (zattr s p KTrack); [|pstep].
      apply bind_rel; [exact Ptrans|pstep|intros; pstep].
    - intros acc1 s1 _. apply bind_rel; [exact Ptrans|pstep|]. intros b s2 _. apply IH.
  Qed.
  Lemma P_udn_succs n cs s acc : P s (rstate (udn_succs n cs s acc)).
  Proof.
    revert s acc; induction cs as [|c r IH]; intros s acc; cbn [udn_succs]; [pstep|].
    apply bind_rel; [exact Ptrans|pstep|]. intros b s1 _. apply IH.
  Qed.
  Lemma P_udn_orphans os s acc : P s (rstate (udn_orphans os s acc)).
  Proof.
    revert s acc; induction os as [|o r IH]; intros s acc; cbn [udn_orphans]; [pstep|].
    destruct (zattr s o KTrack); [|pstep]. apply bind_rel; [exact Ptrans|pstep|]. intros b s1 _. apply IH.
  Qed.
  Lemma P_uan_cut es s acc : P s (rstate (uan_cut es s acc)).
  Proof.
    revert s acc; induction es as [|e r IH]; intros s acc; cbn [uan_cut]; [pstep|].
    apply bind_rel; [exact Ptrans|apply P_user_delete_edge_false|]. intros x s1 _. apply IH.
  Qed.

  (* UserDeleteNode = graph-only steps, then DeleteNode *)
  Lemma udn_core_P st n pxo a s' : user_delete_node_core st n pxo = Ok a s' ->
    exists s b, P st s /\ do_del_node s n pxo = Ok b s'.
  Proof.
    unfold user_delete_node_core. intros H. destruct (negb (has_node st n)); [discriminate|].
    ok_step H acts1 s1 H1. assert (E1 := P_ok _ _ _ _ (P_udn_preds _ _ _ _) H1).
    ok_step H acts2 s2 H2. assert (E2 := P_ok _ _ _ _ (P_udn_succs _ _ _ _) H2).
    ok_step H ao s3 H3.
    assert (E3 : P s2 s3).
    { destruct (zattr s2 n KTrack) as [T|]; [|discriminate].
      assert (Etn := P_track_neighbors s2 T (time_of s2 n)).
      destruct (track_neighbors s2 T (time_of s2 n)) as [s2' [p c]]. cbn [fst] in Etn.
      destruct p as [p|]; [destruct c as [c|]|].
      - ok_step H3 b0 s4 H4. injection H3 as _ <-. eapply Ptrans; [exact Etn|]. exact (P_ok _ _ _ _ (P_add_edge _ _ _ _) H4).
      - injection H3 as _ <-. exact Etn.
      - injection H3 as _ <-. exact Etn. }
    destruct ao as [acts3 orphans]. ok_step H acts4 s4 H4. assert (E4 := P_ok _ _ _ _ (P_udn_orphans _ _ _) H4).
    ok_step H b s5 H5. injection H as _ <-. exists s4, b. split; [|exact H5].
    eapply Ptrans; [exact E1|]. eapply Ptrans; [exact E2|]. eapply Ptrans; [exact E3|exact E4].
  Qed.
End Skel.

(* features, node list and times are kept *)
Definition keepN (a b : state) : Prop :=
  ft b = ft a /\ node_ids b = node_ids a /\ forall m, time_of b m = time_of a m.
Lemma keepN_refl a : keepN a a.
Proof. repeat split. Qed.
Lemma keepN_trans a b c : keepN a b -> keepN b c -> keepN a c.
Proof. intros (A1 & A2 & A3) (B1 & B2 & B3). split; [congruence|split; [congruence|]]. intros m. now rewrite B3. Qed.
Lemma keepN_nodes a b : ft b = ft a -> nodes (g b) = nodes (g a) -> keepN a b.
Proof. intros E1 E2. split; [exact E1|]. unfold node_ids, time_of, zattr, attr, node_attrs. rewrite E2. auto. Qed.
Lemma keepN_del_edge st u v : keepN st (rstate (do_del_edge st u v)).
Proof. destruct (del_edge_effect st u v) as (_ & E2 & E3). now apply keepN_nodes. Qed.
Lemma keepN_add_edge st u v a : keepN st (rstate (do_add_edge st u v a)).
Proof. destruct (add_edge_effect st u v a) as (_ & E2 & E3). now apply keepN_nodes. Qed.
Lemma keepN_upd_track st s t l : keepN st (rstate (do_upd_track st s t l)).
Proof.
  destruct (upd_track_effect st s t l) as ((_ & E2 & _) & Hk). split; [exact E2|]. split; [apply Hk|].
  intros m. exact (nodes_keep_time _ _ _ m KTime_not_trk Hk).
Qed.
Lemma keepN_bk st b : keepN st (upd_bk st b).
Proof. repeat split. Qed.

(* ================================================================== *)
(* 2. nodes and features through the first loop of UserUpdateSegmentation *)
(* ================================================================== *)
Lemma udn_core_nodes st n pxo a s' : user_delete_node_core st n pxo = Ok a s' ->
  ft s' = ft st /\ forall m, is_node st m -> m <> n -> is_node s' m.
Proof.
  intros H. apply (udn_core_P keepN keepN_refl keepN_trans keepN_del_edge keepN_add_edge keepN_upd_track keepN_bk) in H.
  destruct H as (s & b & (K1 & K2 & _) & Hd). apply del_node_effect in Hd. destruct Hd as (_ & Hft & HN & _).
  split; [congruence|]. intros m Hm Hne. apply HN. split; [exact Hne|]. unfold is_node. now rewrite K2.
Qed.

Lemma upd_seg_nodes st n px added b st' : do_upd_seg st n px added = Ok b st' ->
  ft st' = ft st /\ node_ids st' = node_ids st.
Proof.
  intros H. destruct px as [t idx]. assert (H' := H). apply do_upd_seg_ok in H'. destruct H' as (st1 & Hsp & _).
  apply set_pixels_ok in Hsp. destruct Hsp as (sg & Hs & _ & _).
  destruct (upd_seg_effect _ _ _ _ _ _ _ _ H Hs) as (_ & _ & Hft & Hk & _). auto.
Qed.

Lemma uus_groups_nodes gs s acc acts s' : uus_groups gs s acc = Ok acts s' ->
  ft s' = ft s /\ forall m, is_node s m -> (forall g, In g gs -> snd g = 0 \/ snd g <> m) -> is_node s' m.
Proof.
  revert s acc; induction gs as [|[px old] r IH]; intros s acc H; cbn [uus_groups] in H.
  - injection H as _ <-. auto.
  - assert (Hr : forall m, (forall g, In g ((px, old) :: r) -> snd g = 0 \/ snd g <> m) -> forall g, In g r -> snd g = 0 \/ snd g <> m)
      by (intros m Hg g Hin; apply Hg; now right).
    destruct (Z.eqb_spec old 0) as [E0|E0].
    + destruct (IH _ _ H) as [F N]. split; [exact F|]. intros m Hm Hg. apply N; [exact Hm|now apply Hr].
    + assert (Hold : forall m, (forall g, In g ((px, old) :: r) -> snd g = 0 \/ snd g <> m) -> m <> old).
      { intros m Hg. destruct (Hg (px, old) (or_introl eq_refl)) as [E|E]; cbn in E; congruence. }
      destruct (match seg s with Some sg0 => mask_of sg0 (fst px) old | None => [] end).
      * ok_step H a s1 H1. unfold user_delete_node in H1. apply top_wrap_false_ok in H1. apply udn_core_nodes in H1.
        destruct H1 as [F1 N1]. destruct (IH _ _ H) as [F N]. split; [congruence|]. intros m Hm Hg.
        apply N; [apply N1; [exact Hm|now apply Hold]|now apply Hr].
      * ok_step H b s1 H1. apply upd_seg_nodes in H1. destruct H1 as [F1 N1]. destruct (IH _ _ H) as [F N].
        split; [congruence|]. intros m Hm Hg. apply N; [unfold is_node; now rewrite N1|now apply Hr].
Qed.

(* ================================================================== *)
(* 3. the array effect of inverting recorded actions                    *)
(* ================================================================== *)
Fixpoint act_all (Q : basic -> Prop) (a : action) : Prop :=
  match a with
  | ABasic b => Q b
  | AGroup l => (fix go (l : list action) : Prop := match l with [] => True | x :: r => act_all Q x /\ go r end) l
  end.
Fixpoint acts_all (Q : basic -> Prop) (l : list action) : Prop :=
  match l with [] => True | x :: r => act_all Q x /\ acts_all Q r end.
Lemma act_all_group Q l : act_all Q (AGroup l) = acts_all Q l.
Proof. cbn. induction l as [|x r IH]; [reflexivity|]. now rewrite IH. Qed.
Lemma acts_all_app Q l1 l2 : acts_all Q (l1 ++ l2) <-> acts_all Q l1 /\ acts_all Q l2.
Proof. induction l1 as [|x r IH]; cbn; [tauto|]. rewrite IH. tauto. Qed.
Lemma act_all_weaken (Q Q' : basic -> Prop) : (forall b, Q b -> Q' b) -> forall a, act_all Q a -> act_all Q' a.
Proof.
  intros HQ. fix IH 1. intros a. destruct a as [b|l]; [apply HQ|]. rewrite !act_all_group.
  induction l as [|x r IHl]; cbn; [auto|]. intros [H1 H2]. split; [now apply IH|now apply IHl].
Qed.
Lemma acts_all_weaken (Q Q' : basic -> Prop) : (forall b, Q b -> Q' b) -> forall l, acts_all Q l -> acts_all Q' l.
Proof. intros HQ l. rewrite <- !act_all_group. now apply act_all_weaken. Qed.

(* graph-only records *)
Definition basic_neutral (b : basic) : Prop :=
  match b with BAddEdge _ _ _ | BDelEdge _ _ _ | BUpdTrack _ _ _ _ _ => True | _ => False end.
(* records whose inverse never deletes a node *)
Definition basic_noadd (b : basic) : Prop := match b with BAddNode _ _ _ => False | _ => True end.
Definition basic_addedge (b : basic) : Prop := match b with BAddEdge _ _ _ => True | _ => False end.

Definition inv_eff_basic (b : basic) (X : list (list Z)) : list (list Z) :=
  match b with
  | BDelNode n _ (Some p) => paint_arr X (fst p) (snd p) n
  | BUpdSeg n p added => paint_arr X (fst p) (snd p) (if negb added then n else 0)
  | _ => X
  end.
Fixpoint inv_eff (a : action) (X : list (list Z)) : list (list Z) :=
  match a with
  | ABasic b => inv_eff_basic b X
  | AGroup l => (fix go (l : list action) (X : list (list Z)) := match l with [] => X | x :: r => inv_eff x (go r X) end) l X
  end.
Fixpoint inv_eff_list (l : list action) (X : list (list Z)) : list (list Z) :=
  match l with [] => X | x :: r => inv_eff x (inv_eff_list r X) end.
Lemma inv_eff_group l X : inv_eff (AGroup l) X = inv_eff_list l X.
Proof. cbn. induction l as [|x r IH]; [reflexivity|]. now rewrite IH. Qed.
Lemma inv_eff_list_app l1 l2 X : inv_eff_list (l1 ++ l2) X = inv_eff_list l1 (inv_eff_list l2 X).
Proof. induction l1 as [|x r IH]; cbn; [reflexivity|]. now rewrite IH. Qed.

Lemma inv_eff_neutral : forall a X, act_all basic_neutral a -> inv_eff a X = X.
Proof.
  fix IH 1. intros a X. destruct a as [b|l].
  - destruct b; cbn; try tauto.
  - rewrite act_all_group, inv_eff_group. revert X. induction l as [|x r IHl]; intros X; cbn; [reflexivity|].
    intros [H1 H2]. rewrite IHl by exact H2. now apply IH.
Qed.
Lemma inv_eff_list_neutral l X : acts_all basic_neutral l -> inv_eff_list l X = X.
Proof. intros H. rewrite <- inv_eff_group. apply inv_eff_neutral. now rewrite act_all_group. Qed.

(* ActionGroup.inverse as a list function *)
Fixpoint inv_list (l : list action) (st : state) : res (list action) :=
  match l with
  | [] => Ok [] st
  | a :: r => do accr, s <- inv_list r st; do a', s2 <- inv_action s a; Ok (accr ++ [a']) s2
  end.
Lemma inv_action_group l st : inv_action st (AGroup l) = (do l', s <- inv_list l st; Ok (AGroup l') s).
Proof.
  reflexivity.
Qed.
Lemma inv_list_app l1 l2 st r s' : inv_list (l1 ++ l2) st = Ok r s' ->
  exists r2 s2 r1, inv_list l2 st = Ok r2 s2 /\ inv_list l1 s2 = Ok r1 s'.
Proof.
  revert r s'; induction l1 as [|a l1 IH]; intros r s' H; cbn [app inv_list] in *.
  - exists r, s', []. auto.
  - ok_step H accr s H1. ok_step H a' s2 H2. injection H as _ <-.
    destruct (IH _ _ H1) as (r2 & s0 & r1 & E2 & E1). exists r2, s0, (r1 ++ [a']). split; [exact E2|].
    rewrite E1. cbn [bind]. rewrite H2. reflexivity.
Qed.

(* the array after inverting a record that contains no AddNode *)
Lemma inv_basic_seg st b b' s' X : basic_noadd b -> inv_basic st b = Ok b' s' -> seg st = Some X ->
  seg s' = Some (inv_eff_basic b X).
Proof.
  destruct b as [n a px|n saved px|u v a|u v saved|n prev new|n px added|start oldT newT oldL newL]; cbn [inv_basic basic_noadd inv_eff_basic]; intros Hb H Hs.
  - contradiction.
  - destruct px as [p|].
    + now destruct (add_node_seg _ _ _ _ _ _ _ H Hs).
    + rewrite (add_node_none_seg _ _ _ _ _ H). exact Hs.
  - rewrite (ok_seg_eq _ _ _ _ (seg_eq_del_edge _ _ _) H). exact Hs.
  - rewrite (ok_seg_eq _ _ _ _ (seg_eq_add_edge _ _ _ _) H). exact Hs.
  - rewrite (ok_seg_eq _ _ _ _ (seg_eq_upd_attrs _ _ _) H). exact Hs.
  - destruct px as [t idx]. now destruct (upd_seg_effect _ _ _ _ _ _ _ _ H Hs) as (_ & E & _).
  - rewrite (ok_seg_eq _ _ _ _ (seg_eq_upd_track _ _ _ _) H). exact Hs.
Qed.

Lemma inv_action_seg : forall a st a' s' X, act_all basic_noadd a -> inv_action st a = Ok a' s' -> seg st = Some X ->
  seg s' = Some (inv_eff a X).
Proof.
  fix IH 1. intros a st a' s' X. destruct a as [b|l].
  - cbn [inv_action act_all inv_eff]. intros Hb H Hs. ok_step H b' s H1. injection H as _ <-. eapply inv_basic_seg; eauto.
  - rewrite act_all_group, inv_eff_group, inv_action_group. intros Hl H Hs. ok_step H l' s H1. injection H as _ <-.
    revert l' s Hl H1. induction l as [|x r IHl]; intros l' s' Hl H1; cbn [inv_list inv_eff_list] in *.
    + injection H1 as _ <-. exact Hs.
    + destruct Hl as [Hx Hr]. ok_step H1 accr s1 H2. ok_step H1 x' s2 H3. injection H1 as _ <-.
      eapply IH; [exact Hx|exact H3|]. eapply IHl; eauto.
Qed.

Lemma inv_list_seg l st l' s' X : acts_all basic_noadd l -> inv_list l st = Ok l' s' -> seg st = Some X ->
  seg s' = Some (inv_eff_list l X).
Proof.
  intros Hl H Hs. rewrite <- inv_eff_group. eapply (inv_action_seg (AGroup l) st (AGroup l') s'); [now rewrite act_all_group| |exact Hs].
  rewrite inv_action_group, H. reflexivity.
Qed.

(* inverting BAddEdge records keeps array and node dictionary *)
Lemma inv_action_addedge : forall a st a' s', act_all basic_addedge a -> inv_action st a = Ok a' s' ->
  seg s' = seg st /\ nodes (g s') = nodes (g st).
Proof.
  fix IH 1. intros a st a' s'. destruct a as [b|l].
  - cbn [inv_action act_all]. intros Hb H. ok_step H b' s H1. injection H as _ <-.
    destruct b; cbn in Hb; try contradiction. cbn [inv_basic] in H1.
    destruct (del_edge_effect st u v) as (D1 & _ & D3). rewrite H1 in D1, D3. cbn [rstate] in *. auto.
  - rewrite act_all_group, inv_action_group. intros Hl H. ok_step H l' s H1. injection H as _ <-.
    revert l' s Hl H1. induction l as [|x r IHl]; intros l' s' Hl H1; cbn [inv_list] in *.
    + injection H1 as _ <-. auto.
    + destruct Hl as [Hx Hr]. ok_step H1 accr s1 H2. ok_step H1 x' s2 H3. injection H1 as _ <-.
      destruct (IHl _ _ Hr H2) as [E1 E2]. destruct (IH _ _ _ _ Hx H3) as [E3 E4]. split; congruence.
Qed.
Lemma inv_list_addedge l st l' s' : acts_all basic_addedge l -> inv_list l st = Ok l' s' ->
  seg s' = seg st /\ nodes (g s') = nodes (g st).
Proof.
  intros Hl H. apply (inv_action_addedge (AGroup l) st (AGroup l') s'); [now rewrite act_all_group|].
  rewrite inv_action_group, H. reflexivity.
Qed.
