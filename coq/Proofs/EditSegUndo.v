(* C07, last clause: undoing a paint / erase stroke restores the previous array bit for bit. *)
From Coq Require Import ZArith List Bool Lia.
From FT Require Import Base.Dict Model.Edit Proofs.DictLemmas Proofs.EditInv Proofs.EditSeg.
Import ListNotations.
Open Scope Z_scope.

(* ================================================================== *)
(* 1. a generic skeleton: what every graph-only sub-action preserves    *)
(* ================================================================== *)
Section Skel.
  Variable P : state -> state -> Prop.
  Hypothesis Prefl : forall a, P a a.
  Hypothesis Ptrans : forall a b c, P a b -> P b c -> P a c.
  Hypothesis P_del_edge : forall st u v, P st (rstate (do_del_edge st u v)).
  Hypothesis P_add_edge : forall st u v a, P st (rstate (do_add_edge st u v a)).
  Hypothesis P_upd_track : forall st s t l, P st (rstate (do_upd_track st s t l)).
  Hypothesis P_bk : forall st b, P st (upd_bk st b).

  Ltac pstep := first [ apply Prefl | apply P_del_edge | apply P_add_edge | apply P_upd_track ].

  Lemma P_ok {A} (r : res A) st a s : P st (rstate r) -> r = Ok a s -> P st s.
  Proof. intros H ->. exact H. Qed.

  Lemma P_user_delete_edge_core st u v : P st (rstate (user_delete_edge_core st u v)).
  Proof.
    unfold user_delete_edge_core. destruct (negb (has_edge st u v)); [pstep|].
    apply bind_rel; [exact Ptrans|pstep|]. intros b1 s _.
    apply bind_rel; [exact Ptrans| |intros; pstep].
    destruct (out_degree s u =? 0).
    - apply bind_rel; [exact Ptrans|pstep|intros; pstep].
    - destruct (out_degree s u =? 1); [|pstep].
      destruct (successors s u) as [|sib r]; [pstep|]. destruct (zattr s u KTrack) as [t|]; [|pstep].
      apply bind_rel; [exact Ptrans|pstep|]. intros b2 s2 _.
      destruct (zattr s2 v KTrack); [|pstep]. apply bind_rel; [exact Ptrans|pstep|intros; pstep].
  Qed.

  Lemma P_user_delete_edge_false st u v : P st (rstate (user_delete_edge st u v false)).
  Proof. unfold user_delete_edge, top_wrap. assert (H := P_user_delete_edge_core st u v). destruct (user_delete_edge_core st u v); exact H. Qed.

  Lemma P_track_neighbors st T t : P st (fst (track_neighbors st T t)).
  Proof. unfold track_neighbors. destruct (lookup T (trk_book (bk st))) as [[|x l]|]; cbn [fst]; try apply Prefl. apply P_bk. Qed.

  Lemma P_udn_preds n ps s acc : P s (rstate (udn_preds n ps s acc)).
  Proof.
    revert s acc; induction ps as [|p r IH]; intros s acc; cbn [udn_preds]; [pstep|].
    apply bind_rel; [exact Ptrans| |].
    - destruct (length (successors s p) =? 2)%nat; [|pstep].
      destruct (remove1 n (successors s p)); [pstep|]. destruct (zattr s p KTrack); [|pstep].
      apply bind_rel; [exact Ptrans|pstep|intros; pstep].
    - intros acc1 s1 _. apply bind_rel; [exact Ptrans|pstep|]. intros b s2 _. apply IH.
  Qed.
  Lemma P_udn_succs n cs s acc : P s (rstate (udn_succs n cs s acc)).
  Proof.
    revert s acc; induction cs as [|c r IH]; intros s acc; cbn [udn_succs]; [pstep|].
    apply bind_rel; [exact Ptrans|pstep|]. intros b s1 _. apply IH.
  Qed.
  Lemma P_udn_orphans os s acc : P s (rstate (udn_orphans os s acc)).
  Proof.
    revert s acc; induction os as [|o r IH]; intros s acc; cbn [udn_orphans]; [pstep|].
    destruct (zattr s o KTrack); [|pstep]. apply bind_rel; [exact Ptrans|pstep|]. intros b s1 _. apply IH.
  Qed.
  Lemma P_uan_cut es s acc : P s (rstate (uan_cut es s acc)).
  Proof.
    revert s acc; induction es as [|e r IH]; intros s acc; cbn [uan_cut]; [pstep|].
    apply bind_rel; [exact Ptrans|apply P_user_delete_edge_false|]. intros x s1 _. apply IH.
  Qed.

  (* UserDeleteNode = graph-only steps, then DeleteNode *)
  Lemma udn_core_P st n pxo a s' : user_delete_node_core st n pxo = Ok a s' ->
    exists s b, P st s /\ do_del_node s n pxo = Ok b s'.
  Proof.
    unfold user_delete_node_core. intros H. destruct (px_check st pxo); [discriminate|]. destruct (negb (has_node st n)); [discriminate|].
    ok_step H acts1 s1 H1. assert (E1 := P_ok _ _ _ _ (P_udn_preds _ _ _ _) H1).
    ok_step H acts2 s2 H2. assert (E2 := P_ok _ _ _ _ (P_udn_succs _ _ _ _) H2).
    ok_step H ao s3 H3.
    assert (E3 : P s2 s3).
    { destruct (zattr s2 n KTrack) as [T|]; [|discriminate].
      assert (Etn := P_track_neighbors s2 T (time_of s2 n)).
      destruct (track_neighbors s2 T (time_of s2 n)) as [s2' [p c]]. cbn [fst] in Etn.
      destruct p as [p|]; [destruct c as [c|]|].
      - ok_step H3 b0 s4 H4. injection H3 as _ <-. eapply Ptrans; [exact Etn|]. exact (P_ok _ _ _ _ (P_add_edge _ _ _ _) H4).
      - injection H3 as _ <-. exact Etn.
      - injection H3 as _ <-. exact Etn. }
    destruct ao as [acts3 orphans]. ok_step H acts4 s4 H4. assert (E4 := P_ok _ _ _ _ (P_udn_orphans _ _ _) H4).
    ok_step H b s5 H5. injection H as _ <-. exists s4, b. split; [|exact H5].
    eapply Ptrans; [exact E1|]. eapply Ptrans; [exact E2|]. eapply Ptrans; [exact E3|exact E4].
  Qed.
End Skel.

(* features, node list and times are kept *)
Definition keepN (a b : state) : Prop :=
  ft b = ft a /\ node_ids b = node_ids a /\ forall m, time_of b m = time_of a m.
Lemma keepN_refl a : keepN a a.
Proof. repeat split. Qed.
Lemma keepN_trans a b c : keepN a b -> keepN b c -> keepN a c.
Proof. intros (A1 & A2 & A3) (B1 & B2 & B3). split; [congruence|split; [congruence|]]. intros m. now rewrite B3. Qed.
Lemma keepN_nodes a b : ft b = ft a -> nodes (g b) = nodes (g a) -> keepN a b.
Proof. intros E1 E2. split; [exact E1|]. unfold node_ids, time_of, zattr, attr, node_attrs. rewrite E2. auto. Qed.
Lemma keepN_del_edge st u v : keepN st (rstate (do_del_edge st u v)).
Proof. destruct (del_edge_effect st u v) as (_ & E2 & E3). now apply keepN_nodes. Qed.
Lemma keepN_add_edge st u v a : keepN st (rstate (do_add_edge st u v a)).
Proof. destruct (add_edge_effect st u v a) as (_ & E2 & E3). now apply keepN_nodes. Qed.
Lemma keepN_upd_track st s t l : keepN st (rstate (do_upd_track st s t l)).
Proof.
  destruct (upd_track_effect st s t l) as ((_ & E2 & _) & Hk). split; [exact E2|]. split; [apply Hk|].
  intros m. exact (nodes_keep_time _ _ _ m KTime_not_trk Hk).
Qed.
Lemma keepN_bk st b : keepN st (upd_bk st b).
Proof. repeat split. Qed.

(* ================================================================== *)
(* 2. nodes and features through the first loop of UserUpdateSegmentation *)
(* ================================================================== *)
Lemma udn_core_nodes st n pxo a s' : user_delete_node_core st n pxo = Ok a s' ->
  ft s' = ft st /\ forall m, is_node st m -> m <> n -> is_node s' m.
Proof.
  intros H. apply (udn_core_P keepN keepN_refl keepN_trans keepN_del_edge keepN_add_edge keepN_upd_track keepN_bk) in H.
  destruct H as (s & b & (K1 & K2 & _) & Hd). apply del_node_effect in Hd. destruct Hd as (_ & Hft & HN & _).
  split; [congruence|]. intros m Hm Hne. apply HN. split; [exact Hne|]. unfold is_node. now rewrite K2.
Qed.

Lemma upd_seg_nodes st n px added b st' : do_upd_seg st n px added = Ok b st' ->
  ft st' = ft st /\ node_ids st' = node_ids st.
Proof.
  intros H. destruct px as [t idx]. assert (H' := H). apply do_upd_seg_ok in H'. destruct H' as (st1 & Hsp & _).
  apply set_pixels_ok in Hsp. destruct Hsp as (sg & Hs & _ & _).
  destruct (upd_seg_effect _ _ _ _ _ _ _ _ H Hs) as (_ & _ & Hft & Hk & _). auto.
Qed.

Lemma uus_groups_nodes gs s acc acts s' : uus_groups gs s acc = Ok acts s' ->
  ft s' = ft s /\ forall m, is_node s m -> (forall g, In g gs -> snd g = 0 \/ snd g <> m) -> is_node s' m.
Proof.
  revert s acc; induction gs as [|[px old] r IH]; intros s acc H; cbn [uus_groups] in H.
  - injection H as _ <-. auto.
  - assert (Hr : forall m, (forall g, In g ((px, old) :: r) -> snd g = 0 \/ snd g <> m) -> forall g, In g r -> snd g = 0 \/ snd g <> m)
      by (intros m Hg g Hin; apply Hg; now right).
    destruct (Z.eqb_spec old 0) as [E0|E0].
    + destruct (IH _ _ H) as [F N]. split; [exact F|]. intros m Hm Hg. apply N; [exact Hm|now apply Hr].
    + assert (Hold : forall m, (forall g, In g ((px, old) :: r) -> snd g = 0 \/ snd g <> m) -> m <> old).
      { intros m Hg. destruct (Hg (px, old) (or_introl eq_refl)) as [E|E]; cbn in E; congruence. }
      destruct (match seg s with Some sg0 => mask_of sg0 (fst px) old | None => [] end).
      * ok_step H a s1 H1. unfold user_delete_node in H1. apply top_wrap_false_ok in H1. apply udn_core_nodes in H1.
        destruct H1 as [F1 N1]. destruct (IH _ _ H) as [F N]. split; [congruence|]. intros m Hm Hg.
        apply N; [apply N1; [exact Hm|now apply Hold]|now apply Hr].
      * ok_step H b s1 H1. apply upd_seg_nodes in H1. destruct H1 as [F1 N1]. destruct (IH _ _ H) as [F N].
        split; [congruence|]. intros m Hm Hg. apply N; [unfold is_node; now rewrite N1|now apply Hr].
Qed.

(* ================================================================== *)
(* 3. the array effect of inverting recorded actions                    *)
(* ================================================================== *)
Fixpoint act_all (Q : basic -> Prop) (a : action) : Prop :=
  match a with
  | ABasic b => Q b
  | AGroup l => (fix go (l : list action) : Prop := match l with [] => True | x :: r => act_all Q x /\ go r end) l
  end.
Fixpoint acts_all (Q : basic -> Prop) (l : list action) : Prop :=
  match l with [] => True | x :: r => act_all Q x /\ acts_all Q r end.
Lemma act_all_group Q l : act_all Q (AGroup l) = acts_all Q l.
Proof. cbn. induction l as [|x r IH]; [reflexivity|]. now rewrite IH. Qed.
Lemma acts_all_app Q l1 l2 : acts_all Q (l1 ++ l2) <-> acts_all Q l1 /\ acts_all Q l2.
Proof. induction l1 as [|x r IH]; cbn; [tauto|]. rewrite IH. tauto. Qed.
Lemma act_all_weaken (Q Q' : basic -> Prop) : (forall b, Q b -> Q' b) -> forall a, act_all Q a -> act_all Q' a.
Proof.
  intros HQ. fix IH 1. intros a. destruct a as [b|l]; [apply HQ|]. rewrite !act_all_group.
  induction l as [|x r IHl]; cbn; [auto|]. intros [H1 H2]. split; [now apply IH|now apply IHl].
Qed.
Lemma acts_all_weaken (Q Q' : basic -> Prop) : (forall b, Q b -> Q' b) -> forall l, acts_all Q l -> acts_all Q' l.
Proof. intros HQ l. rewrite <- !act_all_group. now apply act_all_weaken. Qed.

(* graph-only records *)
Definition basic_neutral (b : basic) : Prop :=
  match b with BAddEdge _ _ _ | BDelEdge _ _ _ | BUpdTrack _ _ _ _ _ => True | _ => False end.
(* records whose inverse never deletes a node *)
Definition basic_noadd (b : basic) : Prop := match b with BAddNode _ _ _ => False | _ => True end.
Definition basic_addedge (b : basic) : Prop := match b with BAddEdge _ _ _ => True | _ => False end.

Definition inv_eff_basic (b : basic) (X : list (list Z)) : list (list Z) :=
  match b with
  | BDelNode n _ (Some p) => paint_arr X (fst p) (snd p) n
  | BUpdSeg n p added => paint_arr X (fst p) (snd p) (if negb added then n else 0)
  | _ => X
  end.
Fixpoint inv_eff (a : action) (X : list (list Z)) : list (list Z) :=
  match a with
  | ABasic b => inv_eff_basic b X
  | AGroup l => (fix go (l : list action) (X : list (list Z)) := match l with [] => X | x :: r => inv_eff x (go r X) end) l X
  end.
Fixpoint inv_eff_list (l : list action) (X : list (list Z)) : list (list Z) :=
  match l with [] => X | x :: r => inv_eff x (inv_eff_list r X) end.
Lemma inv_eff_group l X : inv_eff (AGroup l) X = inv_eff_list l X.
Proof. cbn. induction l as [|x r IH]; [reflexivity|]. now rewrite IH. Qed.
Lemma inv_eff_list_app l1 l2 X : inv_eff_list (l1 ++ l2) X = inv_eff_list l1 (inv_eff_list l2 X).
Proof. induction l1 as [|x r IH]; cbn; [reflexivity|]. now rewrite IH. Qed.

Lemma inv_eff_neutral : forall a X, act_all basic_neutral a -> inv_eff a X = X.
Proof.
  fix IH 1. intros a X. destruct a as [b|l].
  - destruct b; cbn; try tauto.
  - rewrite act_all_group, inv_eff_group. revert X. induction l as [|x r IHl]; intros X; cbn; [reflexivity|].
    intros [H1 H2]. rewrite IHl by exact H2. now apply IH.
Qed.
Lemma inv_eff_list_neutral l X : acts_all basic_neutral l -> inv_eff_list l X = X.
Proof. intros H. rewrite <- inv_eff_group. apply inv_eff_neutral. now rewrite act_all_group. Qed.

(* ActionGroup.inverse as a list function *)
Fixpoint inv_list (l : list action) (st : state) : res (list action) :=
  match l with
  | [] => Ok [] st
  | a :: r => do accr, s <- inv_list r st; do a', s2 <- inv_action s a; Ok (accr ++ [a']) s2
  end.
Lemma inv_action_group l st : inv_action st (AGroup l) = (do l', s <- inv_list l st; Ok (AGroup l') s).
Proof.
  reflexivity.
Qed.
Lemma inv_list_app l1 l2 st r s' : inv_list (l1 ++ l2) st = Ok r s' ->
  exists r2 s2 r1, inv_list l2 st = Ok r2 s2 /\ inv_list l1 s2 = Ok r1 s'.
Proof.
  revert r s'; induction l1 as [|a l1 IH]; intros r s' H; cbn [app inv_list] in *.
  - exists r, s', []. auto.
  - ok_step H accr s H1. ok_step H a' s2 H2. injection H as _ <-.
    destruct (IH _ _ H1) as (r2 & s0 & r1 & E2 & E1). exists r2, s0, (r1 ++ [a']). split; [exact E2|].
    rewrite E1. cbn [bind]. rewrite H2. reflexivity.
Qed.

(* the array after inverting a record that contains no AddNode *)
Lemma inv_basic_seg st b b' s' X : basic_noadd b -> inv_basic st b = Ok b' s' -> seg st = Some X ->
  seg s' = Some (inv_eff_basic b X).
Proof.
  destruct b as [n a px|n saved px|u v a|u v saved|n prev new|n px added|start oldT newT oldL newL]; cbn [inv_basic basic_noadd inv_eff_basic]; intros Hb H Hs.
  - contradiction.
  - destruct px as [p|].
    + now destruct (add_node_seg _ _ _ _ _ _ _ H Hs).
    + rewrite (add_node_none_seg _ _ _ _ _ H). exact Hs.
  - rewrite (ok_seg_eq _ _ _ _ (seg_eq_del_edge _ _ _) H). exact Hs.
  - rewrite (ok_seg_eq _ _ _ _ (seg_eq_add_edge _ _ _ _) H). exact Hs.
  - rewrite (ok_seg_eq _ _ _ _ (seg_eq_upd_attrs _ _ _) H). exact Hs.
  - destruct px as [t idx]. now destruct (upd_seg_effect _ _ _ _ _ _ _ _ H Hs) as (_ & E & _).
  - rewrite (ok_seg_eq _ _ _ _ (seg_eq_upd_track _ _ _ _) H). exact Hs.
Qed.

Lemma inv_action_seg : forall a st a' s' X, act_all basic_noadd a -> inv_action st a = Ok a' s' -> seg st = Some X ->
  seg s' = Some (inv_eff a X).
Proof.
  fix IH 1. intros a st a' s' X. destruct a as [b|l].
  - cbn [inv_action act_all inv_eff]. intros Hb H Hs. ok_step H b' s H1. injection H as _ <-. eapply inv_basic_seg; eauto.
  - rewrite act_all_group, inv_eff_group, inv_action_group. intros Hl H Hs. ok_step H l' s H1. injection H as _ <-.
    revert l' s Hl H1. induction l as [|x r IHl]; intros l' s' Hl H1; cbn [inv_list inv_eff_list] in *.
    + injection H1 as _ <-. exact Hs.
    + destruct Hl as [Hx Hr]. ok_step H1 accr s1 H2. ok_step H1 x' s2 H3. injection H1 as _ <-.
      eapply IH; [exact Hx|exact H3|]. eapply IHl; eauto.
Qed.

Lemma inv_list_seg l st l' s' X : acts_all basic_noadd l -> inv_list l st = Ok l' s' -> seg st = Some X ->
  seg s' = Some (inv_eff_list l X).
Proof.
  intros Hl H Hs. rewrite <- inv_eff_group. eapply (inv_action_seg (AGroup l) st (AGroup l') s'); [now rewrite act_all_group| |exact Hs].
  rewrite inv_action_group, H. reflexivity.
Qed.

(* inverting BAddEdge records keeps array and node dictionary *)
Lemma inv_action_addedge : forall a st a' s', act_all basic_addedge a -> inv_action st a = Ok a' s' ->
  seg s' = seg st /\ nodes (g s') = nodes (g st).
Proof.
  fix IH 1. intros a st a' s'. destruct a as [b|l].
  - cbn [inv_action act_all]. intros Hb H. ok_step H b' s H1. injection H as _ <-.
    destruct b; cbn in Hb; try contradiction. cbn [inv_basic] in H1.
    destruct (del_edge_effect st u v) as (D1 & _ & D3). rewrite H1 in D1, D3. cbn [rstate] in *. auto.
  - rewrite act_all_group, inv_action_group. intros Hl H. ok_step H l' s H1. injection H as _ <-.
    revert l' s Hl H1. induction l as [|x r IHl]; intros l' s' Hl H1; cbn [inv_list] in *.
    + injection H1 as _ <-. auto.
    + destruct Hl as [Hx Hr]. ok_step H1 accr s1 H2. ok_step H1 x' s2 H3. injection H1 as _ <-.
      destruct (IHl _ _ Hr H2) as [E1 E2]. destruct (IH _ _ _ _ Hx H3) as [E3 E4]. split; congruence.
Qed.
Lemma inv_list_addedge l st l' s' : acts_all basic_addedge l -> inv_list l st = Ok l' s' ->
  seg s' = seg st /\ nodes (g s') = nodes (g st).
Proof.
  intros Hl H. apply (inv_action_addedge (AGroup l) st (AGroup l') s'); [now rewrite act_all_group|].
  rewrite inv_action_group, H. reflexivity.
Qed.

(* ================================================================== *)
(* 4. what the sub-actions of a stroke record                           *)
(* ================================================================== *)
Lemma upd_track_rec st s t l b st' : do_upd_track st s t l = Ok b st' -> basic_neutral b.
Proof.
  unfold do_upd_track. destruct (negb (has_node st s)); [discriminate|]. destruct (zattr st s KTrack); [|discriminate].
  destruct (negb (trk_act (ft st))); [intros H; injection H as <- _; exact I|].
  destruct (walk _ _ _ _ _ _ _ _ _) as [[[st1 tn] ln]|]; [|discriminate].
  destruct (match (if lin_act (ft st) then l else None) with Some _ => _ | None => _ end). intros H; injection H as <- _; exact I.
Qed.
Lemma del_edge_rec st u v b st' : do_del_edge st u v = Ok b st' -> basic_neutral b.
Proof. unfold do_del_edge. destruct (negb (has_edge st u v)); [discriminate|]. intros H; injection H as <- _; exact I. Qed.
Lemma add_edge_rec st u v a b st' : do_add_edge st u v a = Ok b st' -> basic_neutral b /\ basic_addedge b.
Proof.
  unfold do_add_edge. destruct (negb (has_node st u)); [discriminate|]. destruct (negb (has_node st v)); [discriminate|].
  intros H; injection H as <- _; split; exact I.
Qed.
Lemma del_node_rec st n p b st' : do_del_node st n (Some p) = Ok b st' -> exists saved, b = BDelNode n saved (Some p).
Proof.
  unfold do_del_node. destruct (lookup n (nodes (g st))); [|discriminate].
  destruct (set_pixels st p 0) as [[] st1|]; [|discriminate]. cbn [bind ft upd_g].
  destruct (negb (trk_act (ft st1))); intros H; injection H as <- _; eauto.
Qed.
Lemma upd_seg_rec st n p added b st' : do_upd_seg st n p added = Ok b st' -> b = BUpdSeg n p added.
Proof.
  unfold do_upd_seg. destruct (set_pixels _ _ _) as [[] st1|]; [|discriminate]. cbn [bind].
  destruct (negb (has_node st1 n) && _); [discriminate|]. destruct (negb (has_node st1 n) && _); [discriminate|].
  intros H. now injection H as <- _.
Qed.
Lemma add_node_rec st n a px b st' : do_add_node st n a px = Ok b st' -> b = BAddNode n a px.
Proof.
  unfold do_add_node.
  destruct (negb (haskey KTime a)); [discriminate|]. destruct (negb (haskey KTrack a)); [discriminate|].
  destruct (match px with None => negb (all_in (pos_keys (ft st)) a) | Some _ => false end); [discriminate|].
  destruct (match px with Some p => set_pixels st p n | None => Ok tt st end) as [[] st1|e st1]; [|discriminate].
  cbn [bind]. match goal with |- context [negb (trk_act (ft ?s))] => set (s4 := s) end.
  destruct (negb (trk_act (ft s4))); [intros H; now injection H as <- _|].
  destruct (zattr s4 n KTrack); [|discriminate]. destruct (if lin_act (ft s4) then _ else _). intros H; now injection H as <- _.
Qed.

Lemma acts_all_snoc Q l x : acts_all Q l -> act_all Q x -> acts_all Q (l ++ [x]).
Proof. intros H1 H2. apply acts_all_app. cbn. auto. Qed.

Lemma udn_preds_rec n ps s acc acts s' : udn_preds n ps s acc = Ok acts s' -> acts_all basic_neutral acc -> acts_all basic_neutral acts.
Proof.
  revert s acc; induction ps as [|p r IH]; intros s acc H Hacc; cbn [udn_preds] in H; [injection H as <- _; exact Hacc|].
  ok_step H acc1 s1 H1. ok_step H b s2 H2. eapply IH; [exact H|]. apply acts_all_snoc; [|eapply del_edge_rec; eauto].
  destruct (length (successors s p) =? 2)%nat; [|injection H1 as <- _; exact Hacc].
  destruct (remove1 n (successors s p)); [discriminate|]. destruct (zattr s p KTrack); [|discriminate].
  ok_step H1 b0 s0 H0. injection H1 as <- _. apply acts_all_snoc; [exact Hacc|eapply upd_track_rec; eauto].
Qed.
Lemma udn_succs_rec n cs s acc acts s' : udn_succs n cs s acc = Ok acts s' -> acts_all basic_neutral acc -> acts_all basic_neutral acts.
Proof.
  revert s acc; induction cs as [|c r IH]; intros s acc H Hacc; cbn [udn_succs] in H; [injection H as <- _; exact Hacc|].
  ok_step H b s1 H1. eapply IH; [exact H|]. apply acts_all_snoc; [exact Hacc|eapply del_edge_rec; eauto].
Qed.
Lemma udn_orphans_rec os s acc acts s' : udn_orphans os s acc = Ok acts s' -> acts_all basic_neutral acc -> acts_all basic_neutral acts.
Proof.
  revert s acc; induction os as [|o r IH]; intros s acc H Hacc; cbn [udn_orphans] in H; [injection H as <- _; exact Hacc|].
  destruct (zattr s o KTrack); [|discriminate]. ok_step H b s1 H1. eapply IH; [exact H|].
  apply acts_all_snoc; [exact Hacc|eapply upd_track_rec; eauto].
Qed.

Lemma udn_core_rec st n p a s' : user_delete_node_core st n (Some p) = Ok a s' ->
  exists l saved, a = AGroup (l ++ [ABasic (BDelNode n saved (Some p))]) /\ acts_all basic_neutral l.
Proof.
  unfold user_delete_node_core. intros H. destruct (px_check st (Some p)); [discriminate|]. destruct (negb (has_node st n)); [discriminate|].
  ok_step H acts1 s1 H1. apply udn_preds_rec in H1; [|exact I].
  ok_step H acts2 s2 H2. apply udn_succs_rec in H2; [|exact H1].
  ok_step H ao s3 H3. destruct ao as [acts3 orphans].
  assert (A3 : acts_all basic_neutral acts3).
  { destruct (zattr s2 n KTrack) as [T|]; [|discriminate]. destruct (track_neighbors s2 T (time_of s2 n)) as [s2' [pp cc]].
    destruct pp as [pp|]; [destruct cc as [cc|]|].
    - ok_step H3 b0 s4 H4. injection H3 as <- _ _. apply acts_all_snoc; [exact H2|]. now destruct (add_edge_rec _ _ _ _ _ _ H4).
    - injection H3 as <- _ _. exact H2.
    - injection H3 as <- _ _. exact H2. }
  ok_step H acts4 s4 H4. apply udn_orphans_rec in H4; [|exact A3].
  ok_step H b s5 H5. injection H as <- _. apply del_node_rec in H5. destruct H5 as [saved ->]. eauto.
Qed.

Lemma udn_core_inv_eff st n p a s' X : user_delete_node_core st n (Some p) = Ok a s' ->
  act_all basic_noadd a /\ inv_eff a X = paint_arr X (fst p) (snd p) n.
Proof.
  intros H. apply udn_core_rec in H. destruct H as (l & saved & -> & Hl). split.
  - rewrite act_all_group. apply acts_all_app. split; [|cbn; auto].
    eapply acts_all_weaken; [|exact Hl]. intros b; destruct b; cbn; tauto.
  - rewrite inv_eff_group, inv_eff_list_app. cbn [inv_eff_list inv_eff inv_eff_basic]. now apply inv_eff_list_neutral.
Qed.

(* undoing the first loop: every overwritten label is written back over its group's pixels *)
Definition unzero (gs : list (pixels * Z)) (X : list (list Z)) : list (list Z) :=
  fold_right (fun g Y => if snd g =? 0 then Y else paint_arr Y (fst (fst g)) (snd (fst g)) (snd g)) X gs.

Lemma uus_groups_rec gs s acc acts s' : uus_groups gs s acc = Ok acts s' -> acts_all basic_noadd acc ->
  acts_all basic_noadd acts /\ forall X, inv_eff_list acts X = inv_eff_list acc (unzero gs X).
Proof.
  revert s acc; induction gs as [|[px old] r IH]; intros s acc H Hacc; cbn [uus_groups] in H.
  - injection H as <- _. auto.
  - cbn [unzero fold_right fst snd]. fold (unzero r). destruct (old =? 0); [eapply IH; eauto|].
    destruct (match seg s with Some sg0 => mask_of sg0 (fst px) old | None => [] end).
    + ok_step H a s1 H1. unfold user_delete_node in H1. apply top_wrap_false_ok in H1.
      destruct (IH _ _ H) as [A E].
      { apply acts_all_snoc; [exact Hacc|]. now destruct (udn_core_inv_eff _ _ _ _ _ [] H1). }
      split; [exact A|]. intros X. rewrite E, inv_eff_list_app. cbn [inv_eff_list]. f_equal. now destruct (udn_core_inv_eff _ _ _ _ _ (unzero r X) H1).
    + ok_step H b s1 H1. apply upd_seg_rec in H1. subst b.
      destruct (IH _ _ H) as [A E]; [apply acts_all_snoc; [exact Hacc|exact I]|].
      split; [exact A|]. intros X. rewrite E, inv_eff_list_app. reflexivity.
Qed.

Lemma ude_core_rec st u v a s' : user_delete_edge_core st u v = Ok a s' -> act_all basic_neutral a.
Proof.
  unfold user_delete_edge_core. intros H. destruct (negb (has_edge st u v)); [discriminate|].
  ok_step H b1 s H1. apply del_edge_rec in H1. ok_step H acts s2 H2. injection H as <- _. rewrite act_all_group.
  destruct (out_degree s u =? 0).
  - ok_step H2 b2 s3 H3. injection H2 as <- _. apply upd_track_rec in H3. cbn. auto.
  - destruct (out_degree s u =? 1); [|discriminate].
    destruct (successors s u) as [|sib r]; [discriminate|]. destruct (zattr s u KTrack) as [t|]; [|discriminate].
    ok_step H2 b2 s3 H3. apply upd_track_rec in H3. destruct (zattr s3 v KTrack); [|discriminate].
    ok_step H2 b3 s4 H4. apply upd_track_rec in H4. injection H2 as <- _. cbn. auto.
Qed.

Lemma uan_cut_rec es s acc acts s' : uan_cut es s acc = Ok acts s' -> acts_all basic_neutral acc -> acts_all basic_neutral acts.
Proof.
  revert s acc; induction es as [|e r IH]; intros s acc H Hacc; cbn [uan_cut] in H; [injection H as <- _; exact Hacc|].
  ok_step H x s1 H1. eapply IH; [exact H|]. apply acts_all_snoc; [exact Hacc|].
  unfold user_delete_edge in H1. apply top_wrap_false_ok in H1. eapply ude_core_rec; eauto.
Qed.

(* UserAddNode with pixels: what is recorded, and where the new node lives *)
Lemma uan_core_rec st n a p force x s' :
  user_add_node_core st n a (Some p) force = Ok x s' ->
  NoDup (keys a) -> ~ In KTime (rp_act (ft st)) ->
  exists a' pre post,
    x = AGroup (pre ++ ABasic (BAddNode n a' (Some p)) :: post) /\
    acts_all basic_neutral pre /\ acts_all basic_addedge post /\
    forall t, lookup KTime a = Some (VZ t) -> time_of s' n = t.
Proof.
  unfold user_add_node_core. intros H Hnd Hkt.
  destruct (lookup KTime a) as [tv|] eqn:Ltime; [|discriminate]. destruct (lookup KTrack a) as [kv|]; [|discriminate].
  destruct (has_node st n) eqn:Hh; [discriminate|].
  assert (KT : KTime <> KTrack) by (unfold KTime, KTrack; lia). assert (KL : KTime <> KLin) by (unfold KTime, KLin; lia).
  destruct (if has_track_at st _ _ then _ else _) as [T a1] eqn:Ea1.
  assert (A1 : NoDup (keys a1) /\ lookup KTime a1 = Some tv).
  { destruct (has_track_at st _ _); injection Ea1 as _ <-; [|auto]. split; [now apply NoDup_keys_set|now rewrite lookup_set_neq]. }
  clear Ea1. destruct A1 as [Hnd1 Lt1].
  assert (Ktn := P_track_neighbors keepN keepN_refl keepN_bk st T (match tv with VZ z => z | _ => 0 end)).
  destruct (track_neighbors st T _) as [st0 [pred succ]]. cbn [fst] in Ktn.
  ok_step H conflicts s1 H1. assert (E1 : s1 = st0) by (rewrite <- (uan_conflicts_state st0 pred succ force), H1; reflexivity). subst s1.
  cbn [negb] in H. destruct (px_check st0 (Some p)); [discriminate|].
  ok_step H acts s2 H2.
  assert (K2 := P_ok keepN _ _ _ _ (P_uan_cut keepN keepN_refl keepN_trans keepN_del_edge keepN_upd_track _ _ _) H2).
  apply uan_cut_rec in H2; [|exact I].
  set (a2 := if haskey KLin a1 then a1 else _) in H.
  assert (A2 : NoDup (keys a2) /\ lookup KTime a2 = Some tv).
  { unfold a2. destruct (haskey KLin a1); [auto|].
    destruct (match pred, succ with Some p0, _ => zattr s2 p0 KLin | None, Some c => zattr s2 c KLin | None, None => Some (next_lin s2) end); [|auto].
    split; [now apply NoDup_keys_set|now rewrite lookup_set_neq]. }
  destruct A2 as [Hnd2 Lt2]. clearbody a2.
  ok_step H acts' s3 H3.
  assert (K3 : keepN s2 s3 /\ acts_all basic_neutral acts').
  { destruct pred as [pp|]; [destruct succ as [cc|]|].
    - ok_step H3 b0 s4 H4. injection H3 as <- <-. split; [exact (P_ok keepN _ _ _ _ (keepN_del_edge _ _ _) H4)|].
      apply acts_all_snoc; [exact H2|eapply del_edge_rec; eauto].
    - injection H3 as <- <-. split; [apply keepN_refl|exact H2].
    - injection H3 as <- <-. split; [apply keepN_refl|exact H2]. }
  destruct K3 as [K3 N3].
  ok_step H b s4 H4. assert (Hb := add_node_rec _ _ _ _ _ _ H4). subst b.
  (* the node is new at that point, and KTime is no regionprops key: the time attribute is the one given *)
  assert (K03 : keepN st s3) by (eapply keepN_trans; [exact Ktn|eapply keepN_trans; eauto]).
  destruct K03 as (F3 & I3 & _).
  assert (Hn3 : ~ is_node s3 n).
  { unfold is_node. rewrite I3. intros Hin. apply is_node_haskey in Hin. congruence. }
  assert (T4 : forall t, tv = VZ t -> time_of s4 n = t).
  { intros t ->. apply do_add_node_ok in H4. destruct H4 as (st1 & Hsp & Hg & _ & _).
    apply set_pixels_ok in Hsp. destruct Hsp as (sg & _ & _ & ->).
    assert (Hn1 : ~ is_node (upd_seg s3 (Some (paint_arr sg (fst p) (snd p) n))) n) by exact Hn3.
    destruct (add_node_core_spec _ n a2 Hn1) as (_ & _ & _ & _ & C5 & _).
    rewrite (time_of_g _ _ n Hg). unfold time_of, zattr. rewrite (C5 KTime (VZ t)); auto. cbn [ft upd_seg]. now rewrite F3. }
  ok_step H acts'' s5 H5.
  assert (K5 : nodes (g s5) = nodes (g s4) /\ exists post1, acts'' = acts' ++ ABasic (BAddNode n a2 (Some p)) :: post1 /\ acts_all basic_addedge post1).
  { destruct pred as [pp|].
    - ok_step H5 b' s6 H6. injection H5 as <- <-. destruct (add_edge_effect s4 pp n []) as (_ & _ & E). rewrite H6 in E. cbn [rstate] in E.
      split; [exact E|]. exists [ABasic b']. split; [reflexivity|]. cbn. split; [|exact I]. now destruct (add_edge_rec _ _ _ _ _ _ H6).
    - injection H5 as <- <-. split; [reflexivity|]. exists []. split; [reflexivity|exact I]. }
  destruct K5 as (G5 & post1 & -> & P1).
  ok_step H acts''' s6 H6.
  assert (K6 : nodes (g s6) = nodes (g s5) /\ exists post2, acts''' = acts' ++ ABasic (BAddNode n a2 (Some p)) :: post2 /\ acts_all basic_addedge post2).
  { destruct succ as [cc|].
    - ok_step H6 b' s7 H7. injection H6 as <- <-. destruct (add_edge_effect s5 n cc []) as (_ & _ & E). rewrite H7 in E. cbn [rstate] in E.
      split; [exact E|]. exists (post1 ++ [ABasic b']). split; [now rewrite <- app_assoc|].
      apply acts_all_snoc; [exact P1|]. now destruct (add_edge_rec _ _ _ _ _ _ H7).
    - injection H6 as <- <-. split; [reflexivity|]. exists post1. auto. }
  destruct K6 as (G6 & post2 & -> & P2).
  injection H as <- <-. exists a2, acts', post2. split; [reflexivity|]. split; [exact N3|]. split; [exact P2|].
  intros t Et. injection Et as ->. unfold time_of, zattr, attr, node_attrs. rewrite G6, G5. now apply T4.
Qed.

(* ================================================================== *)
(* 5. the array after undoing the first loop, pointwise                 *)
(* ================================================================== *)
Lemma unzero_same_shape gs Y : same_shape (unzero gs Y) Y.
Proof.
  induction gs as [|g r IH]; cbn [unzero fold_right]; [apply same_shape_refl|]. fold (unzero r Y).
  match goal with |- context [if ?c then _ else _] => destruct c end; [exact IH|].
  eapply same_shape_trans; [apply paint_same_shape|exact IH].
Qed.

Lemma unzero_pointwise gs Y x t t' i : 0 <= t -> 0 <= t' ->
  (forall g, In g gs -> fst (fst g) = t) ->
  (forall g, In g gs -> snd g <> 0 -> In (Z.of_nat i) (snd (fst g)) -> snd g = x) ->
  label_at (unzero gs Y) t' i =
    if (t' =? t) && existsb (fun g => negb (snd g =? 0) && memz (Z.of_nat i) (snd (fst g))) gs && (i <? length (frame_of Y t))%nat
    then x else label_at Y t' i.
Proof.
  intros Ht Ht'. induction gs as [|g r IH]; intros Hfr Hx; cbn [unzero fold_right existsb].
  - now rewrite andb_false_r.
  - fold (unzero r Y).
    assert (IHr := IH (fun g' Hg' => Hfr g' (or_intror Hg')) (fun g' Hg' => Hx g' (or_intror Hg'))). clear IH.
    assert (Hgt : fst (fst g) = t) by (apply Hfr; now left).
    destruct (Z.eqb_spec (snd g) 0) as [E0|E0]; cbn [negb andb orb]; [exact IHr|].
    rewrite Hgt, label_at_paint by assumption. destruct (unzero_same_shape r Y) as [_ Sh]. rewrite Sh, IHr.
    destruct (t' =? t); cbn [andb]; [|reflexivity].
    destruct (i <? length (frame_of Y t))%nat; [|now rewrite !andb_false_r]. rewrite !andb_true_r.
    destruct (memz (Z.of_nat i) (snd (fst g))) eqn:Em; cbn [orb]; [|reflexivity].
    apply Hx; [now left|exact E0|now apply memz_In].
Qed.

(* Z is the array just before the first loop is undone: zero on the painted pixels, the old array elsewhere *)
Lemma undo_first_loop sg t idx nv Z : frame_ok sg t = true -> same_shape Z sg ->
  (forall i, In (Z.of_nat i) (all_pixels (paint_groups sg t idx nv)) -> label_at Z t i = 0) ->
  (forall t' i, 0 <= t' -> ~ (t' = t /\ In (Z.of_nat i) (all_pixels (paint_groups sg t idx nv))) -> label_at Z t' i = label_at sg t' i) ->
  unzero (paint_groups sg t idx nv) Z = sg.
Proof.
  intros Hf ShZ P1 P2. assert (Ht0 : 0 <= t) by (apply frame_ok_range in Hf; lia).
  set (groups := paint_groups sg t idx nv) in *.
  apply arr_ext; [eapply same_shape_trans; [apply unzero_same_shape|exact ShZ]|]. intros t' i Ht'.
  rewrite (unzero_pointwise groups Z (label_at sg t i) t t' i Ht0 Ht').
  - destruct ((t' =? t) && existsb (fun g => negb (snd g =? 0) && memz (Z.of_nat i) (snd (fst g))) groups && (i <? length (frame_of Z t))%nat) eqn:Ec.
    + apply andb_true_iff in Ec. destruct Ec as [Ec _]. apply andb_true_iff in Ec. destruct Ec as [E1 _]. apply Z.eqb_eq in E1. now subst.
    + destruct (in_dec Z.eq_dec (Z.of_nat i) (all_pixels groups)) as [Hin|Hnin].
      * (* painted pixel whose group was not written back: its old label is 0 *)
        destruct (Z.eqb_spec t' t) as [->|Hne]; [|apply P2; [exact Ht'|tauto]].
        rewrite (P1 i Hin). apply changed_In in Hin. destruct Hin as (Hi & Hidx & Hnv).
        destruct (Z.eq_dec (label_at sg t i) 0) as [E0|E0]; [now symmetry|]. exfalso.
        destruct (paint_groups_cover sg t idx nv (Z.of_nat i) (label_at sg t i)) as (g & Hg & Hsg & Hp); [apply io_of_In; exists i; auto|].
        assert (Hex : existsb (fun g => negb (snd g =? 0) && memz (Z.of_nat i) (snd (fst g))) groups = true).
        { apply existsb_exists. exists g. split; [exact Hg|]. cbn beta. apply andb_true_iff. split; [apply negb_true_iff, Z.eqb_neq; intros E; apply E0; rewrite <- Hsg; exact E|now apply memz_In]. }
        destruct ShZ as [_ ShZ]. rewrite ShZ in Ec. apply Nat.ltb_lt in Hi. rewrite Hex, Hi in Ec. cbn in Ec. discriminate.
      * apply P2; [exact Ht'|]. intros [_ H]. contradiction.
  - intros g Hg. apply paint_groups_In in Hg. tauto.
  - intros g Hg _ Hp. apply paint_groups_In in Hg. destruct Hg as (_ & _ & Hgi). apply Hgi in Hp.
    apply io_of_In in Hp. destruct Hp as (j & Hj & _ & _ & E & _). apply Nat2Z.inj in Hj. subst j. now symmetry.
Qed.

(* ================================================================== *)
(* 6. undo of a stroke                                                  *)
(* ================================================================== *)
Lemma uus_core_cases st nv groups T force a pl s0 :
  user_update_seg_core st nv groups T force = Ok (a, pl) s0 ->
  exists acts s1, uus_groups groups st [] = Ok acts s1 /\
    ( ((groups = [] \/ nv = 0) /\ a = AGroup acts /\ s0 = s1)
    \/ (exists px0 o r b, groups = (px0, o) :: r /\ nv <> 0 /\
          do_upd_seg s1 nv (fst px0, all_pixels groups) true = Ok b s0 /\ a = AGroup (acts ++ [ABasic b]))
    \/ (exists px0 o r x, groups = (px0, o) :: r /\ nv <> 0 /\ has_node s1 nv = false /\
          user_add_node_core s1 nv [(KTime, VZ (fst px0)); (KTrack, VZ T)] (Some (fst px0, all_pixels groups)) force = Ok x s0 /\
          a = AGroup (acts ++ [x])) ).
Proof.
  unfold user_update_seg_core. intros H. destruct (seg st); [|discriminate].
  destruct (negb (nv =? 0) && _ && has_node st nv && _); [discriminate|].
  ok_step H acts s1 H1. exists acts, s1. split; [exact H1|].
  destruct groups as [|[px0 old0] gr] eqn:Eg; [injection H as <- _ <-; left; auto|].
  destruct (Z.eqb_spec nv 0) as [E0|E0]; [injection H as <- _ <-; left; auto|].
  fold (all_pixels ((px0, old0) :: gr)) in H. set (allpx := all_pixels ((px0, old0) :: gr)) in *. cbv zeta in H.
  destruct (has_node s1 nv) eqn:Hh.
  - ok_step H b s2 H2. injection H as <- _ <-. right. left. exists px0, old0, gr, b. auto.
  - match type of H with context [user_add_node ?x1 ?x2 ?x3 ?x4 ?x5 ?x6] => destruct (user_add_node x1 x2 x3 x4 x5 x6) as [x s2|e s2] eqn:H2 end.
    + injection H as <- _ <-. unfold user_add_node in H2. apply top_wrap_false_ok in H2. right. right. exists px0, old0, gr, x. auto.
    + destruct e; try discriminate. destruct (rollback _ s2); discriminate.
Qed.

Lemma finish_top_g s a p : g (finish_top s a p) = g s /\ ft (finish_top s a p) = ft s.
Proof. unfold finish_top, hist_add. destruct (redo_stack s); auto. Qed.

Lemma undo_after_top s0 a pl r st2 : undo (finish_top s0 a pl) = Ok r st2 ->
  exists b s, inv_action (finish_top s0 a pl) a = Ok b s /\ r = true /\ seg st2 = seg s.
Proof.
  set (st1 := finish_top s0 a pl).
  assert (Hu : exists X, undo_stack st1 = X ++ [a] /\ redo_stack st1 = []).
  { unfold st1, finish_top, hist_add. destruct (redo_stack s0); cbn; eauto. }
  destruct Hu as (X & Hun & Hre). unfold undo. rewrite Hun, Hre, app_length. cbn [length].
  destruct (Nat.leb_spec (length X + 1) 0) as [Hle|_]; [lia|].
  replace (length X + 1 - 0 - 1)%nat with (length X) by lia.
  rewrite nth_error_app2 by lia. rewrite Nat.sub_diag. cbn [nth_error].
  intros H. ok_step H b s H1. injection H as <- <-. exists b, s. auto.
Qed.

(* C07: undoing a successful stroke restores the previous array, bit for bit *)
Theorem paint_undo st nv t idx T force a st1 sg r st2 :
  paint st nv t idx T force = Ok a st1 -> seg st = Some sg ->
  W_seg st -> ~ In KTime (rp_act (ft st)) ->
  undo st1 = Ok r st2 ->
  r = true /\ seg st2 = Some sg.
Proof.
  intros Hp Hs HW Hkt Hu.
  destruct (paint_exact _ _ _ _ _ _ _ _ _ Hp Hs) as (Hf & sg' & Hs1 & Sh' & P').
  assert (Ht0 : 0 <= t) by (apply frame_ok_range in Hf; lia).
  unfold paint in Hp. rewrite Hs, Hf in Hp. cbn [negb] in Hp.
  set (groups := paint_groups sg t idx nv) in *. fold (all_pixels groups) in Hp.
  set (painted := upd_seg st (Some (upd_frame (Z.to_nat t) (fun f => write_frame 0 f (all_pixels groups) nv) sg))) in *.
  destruct (user_update_seg painted nv groups T force) as [a0 s00|e0 s00] eqn:Huu; [|discriminate]. injection Hp as -> ->.
  unfold user_update_seg in Huu. destruct (user_update_seg_core painted nv groups T force) as [[a1 pl] s0|e1 s0] eqn:Hc; [|discriminate].
  injection Huu as -> <-.
  apply undo_after_top in Hu. destruct Hu as (b & s & Hinv & -> & Es). split; [reflexivity|]. rewrite Es. clear Es st2.
  destruct (finish_top_g s0 a pl) as [Gt Ft]. set (st1 := finish_top s0 a pl) in *.
  (* the painted array, in terms of the old one *)
  assert (HP2 : forall t' i, 0 <= t' -> ~ (t' = t /\ In (Z.of_nat i) (all_pixels groups)) ->
            label_at sg' t' i = label_at sg t' i \/ (t' = t /\ label_at sg t i = nv /\ label_at sg' t i = nv)).
  { intros t' i Ht' Hno. rewrite P' by exact Ht'.
    destruct ((t' =? t) && memz (Z.of_nat i) idx && (i <? length (frame_of sg t))%nat) eqn:Ec; [|now left].
    apply andb_true_iff in Ec. destruct Ec as [Ec E3]. apply andb_true_iff in Ec. destruct Ec as [E1 E2].
    apply Z.eqb_eq in E1. subst t'. apply memz_In in E2. apply Nat.ltb_lt in E3.
    destruct (Z.eq_dec (label_at sg t i) nv) as [E|E]; [|exfalso; apply Hno; split; [reflexivity|apply changed_In; auto]].
    right. split; [reflexivity|split; [exact E|]]. rewrite P' by exact Ht0. apply memz_In in E2. apply Nat.ltb_lt in E3. now rewrite Z.eqb_refl, E2, E3. }
  assert (HP1 : forall i, In (Z.of_nat i) (all_pixels groups) -> (i < length (frame_of sg t))%nat /\ label_at sg' t i = nv).
  { intros i Hin. apply changed_In in Hin. destruct Hin as (Hi & Hidx & _). split; [exact Hi|].
    rewrite P' by exact Ht0. apply memz_In in Hidx. apply Nat.ltb_lt in Hi. now rewrite Z.eqb_refl, Hidx, Hi. }
  apply uus_core_cases in Hc. destruct Hc as (acts & s1 & Hg & Hcases).
  destruct (uus_groups_rec _ _ _ _ _ Hg I) as [Anoadd Eacts]. cbn [inv_eff_list] in Eacts.
  destruct (uus_groups_nodes _ _ _ _ _ Hg) as [Fs1 Ns1].
  assert (Hseg1 : seg st1 = Some sg') by exact Hs1.
  destruct Hcases as [(Hz & -> & ->)|[(px0 & o & gr & b0 & Eg & Hnv & Hd & ->)|(px0 & o & gr & x & Eg & Hnv & Hh & Hadd & ->)]].
  - (* erase, or nothing to change *)
    rewrite (inv_action_seg _ _ _ _ _ ltac:(rewrite act_all_group; exact Anoadd) Hinv Hseg1). f_equal.
    rewrite inv_eff_group, Eacts. apply undo_first_loop; [exact Hf|exact Sh'| |].
    + intros i Hin. destruct Hz as [Hz|Hz]; [unfold groups in Hin; fold groups in Hin; rewrite Hz in Hin; destruct Hin|]. subst nv. now apply HP1.
    + intros t' i Ht' Hno. destruct (HP2 t' i Ht' Hno) as [E|(-> & E1 & E2)]; [exact E|congruence].
  - (* the label is an existing node: it was grown *)
    apply upd_seg_rec in Hd. subst b0.
    assert (Hall : act_all basic_noadd (AGroup (acts ++ [ABasic (BUpdSeg nv (fst px0, all_pixels groups) true)]))).
    { rewrite act_all_group. apply acts_all_snoc; [exact Anoadd|exact I]. }
    rewrite (inv_action_seg _ _ _ _ _ Hall Hinv Hseg1). f_equal.
    rewrite inv_eff_group, inv_eff_list_app, Eacts. cbn [inv_eff_list inv_eff inv_eff_basic fst snd negb].
    assert (Hpx0 : fst px0 = t).
    { assert (Hin : In (px0, o) groups) by (rewrite Eg; now left). apply paint_groups_In in Hin. tauto. }
    rewrite Hpx0. destruct (paint_same_shape sg' t (all_pixels groups) 0) as [ShA ShB].
    apply undo_first_loop; [exact Hf|eapply same_shape_trans; [apply paint_same_shape|exact Sh']| |].
    + intros i Hin. fold groups in Hin. rewrite label_at_paint by assumption. destruct (HP1 i Hin) as [Hi _].
      destruct Sh' as [_ Sh']. rewrite Sh'. apply memz_In in Hin. apply Nat.ltb_lt in Hi. now rewrite Z.eqb_refl, Hin, Hi.
    + intros t' i Ht' Hno. fold groups in Hno. rewrite label_at_paint by assumption.
      destruct ((t' =? t) && memz (Z.of_nat i) (all_pixels groups) && (i <? length (frame_of sg' t))%nat) eqn:Ec.
      * exfalso. apply Hno. apply andb_true_iff in Ec. destruct Ec as [Ec _]. apply andb_true_iff in Ec. destruct Ec as [E1 E2].
        split; [now apply Z.eqb_eq|now apply memz_In].
      * destruct (HP2 t' i Ht' Hno) as [E|(-> & E1 & E2)]; [exact E|congruence].
  - (* a new label: a node was added *)
    assert (Hpx0 : fst px0 = t).
    { assert (Hin : In (px0, o) groups) by (rewrite Eg; now left). apply paint_groups_In in Hin. tauto. }
    rewrite Hpx0 in Hadd.
    assert (Hkt1 : ~ In KTime (rp_act (ft s1))) by (rewrite Fs1; exact Hkt).
    assert (Hnd : NoDup (keys [(KTime, VZ t); (KTrack, VZ T)])).
    { cbn. constructor; [intros [E|[]]; unfold KTime, KTrack in E; discriminate|constructor; [tauto|constructor]]. }
    destruct (uan_core_rec _ _ _ _ _ _ _ Hadd Hnd Hkt1) as (a' & pre & post & -> & Npre & Npost & Htime).
    assert (Htn : time_of s0 nv = t) by (apply Htime; reflexivity).
    (* the label does not occur in the old frame: it was no node *)
    assert (Hnot : ~ is_node st nv).
    { intros Hin. assert (Hin1 : is_node s1 nv).
      { apply Ns1; [exact Hin|]. intros g0 Hg0. right. apply paint_groups_In in Hg0. destruct Hg0 as (_ & (p & Hp) & _).
        apply io_of_In in Hp. destruct Hp as (j & _ & _ & _ & _ & Hne). exact Hne. }
      apply is_node_haskey in Hin1. congruence. }
    assert (Hfree : forall i, label_at sg t i <> nv).
    { intros i E. apply (W_seg_iff _ _ Hs) in HW. destruct HW as (_ & I2 & _).
      destruct (I2 t i Hf) as [Hin _]; [congruence|]. rewrite E in Hin. contradiction. }
    (* split the inversion: post (edges), DeleteNode, pre, first loop *)
    rewrite inv_action_group in Hinv. ok_step Hinv l' s5 Hl. injection Hinv as _ <-.
    apply inv_list_app in Hl. destruct Hl as (r2 & s2 & r1 & Hx & Hacts).
    cbn [inv_list bind] in Hx. ok_step Hx x' s3 Hx1. injection Hx as _ <-.
    rewrite inv_action_group in Hx1. ok_step Hx1 lx s4 Hlx. injection Hx1 as _ <-.
    apply inv_list_app in Hlx. destruct Hlx as (q2 & s6 & q1 & Hpost & Hpre).
    cbn [inv_list] in Hpost. ok_step Hpost accr sp Hp1. ok_step Hpost bx s7 Hdel. injection Hpost as _ <-.
    destruct (inv_list_addedge _ _ _ _ Npost Hp1) as [Esp Gsp].
    cbn [inv_action inv_basic] in Hdel. ok_step Hdel bd s8 Hd. injection Hdel as _ <-.
    assert (Hsp : seg sp = Some sg') by congruence.
    assert (Htp : time_of sp nv = t).
    { unfold time_of, zattr, attr, node_attrs. rewrite Gsp, Gt. exact Htn. }
    apply del_node_effect in Hd. destruct Hd as (_ & _ & _ & _ & He). cbn [eff_pixels] in He.
    rewrite (get_pixels_spec _ _ _ Hsp), Htp in He. destruct He as (sgx & Hsx & _ & Hs7). rewrite Hsp in Hsx. injection Hsx as <-. cbn [fst snd] in Hs7.
    set (Z := paint_arr sg' t (mask_of sg' t nv) 0) in *.
    assert (Npre' : acts_all basic_noadd pre) by (eapply acts_all_weaken; [|exact Npre]; intros bb; destruct bb; cbn; tauto).
    assert (Hs6 := inv_list_seg _ _ _ _ _ Npre' Hpre Hs7). rewrite (inv_eff_list_neutral _ _ Npre) in Hs6.
    rewrite (inv_list_seg _ _ _ _ _ Anoadd Hacts Hs6). f_equal. rewrite Eacts.
    apply undo_first_loop; [exact Hf|eapply same_shape_trans; [apply paint_same_shape|exact Sh']| |].
    + intros i Hin. unfold Z. rewrite label_at_paint by assumption. destruct (HP1 i Hin) as [Hi Hl].
      assert (Hm : memz (Z.of_nat i) (mask_of sg' t nv) = true).
      { apply memz_In, mask_of_In_nat. destruct Sh' as [_ Sh']. rewrite Sh'. auto. }
      destruct Sh' as [_ Sh']. rewrite Sh'. apply Nat.ltb_lt in Hi. now rewrite Z.eqb_refl, Hm, Hi.
    + intros t' i Ht' Hno. unfold Z. rewrite label_at_paint by assumption.
      destruct (HP2 t' i Ht' Hno) as [E|(-> & E1 & E2)]; [|exfalso; now apply (Hfree i)].
      destruct ((t' =? t) && memz (Z.of_nat i) (mask_of sg' t nv) && (i <? length (frame_of sg' t))%nat) eqn:Ec; [|exact E].
      exfalso. apply andb_true_iff in Ec. destruct Ec as [Ec _]. apply andb_true_iff in Ec. destruct Ec as [E1 E2].
      apply Z.eqb_eq in E1. subst t'. apply memz_In, mask_of_In_nat in E2. destruct E2 as [_ E2]. rewrite E in E2. now apply (Hfree i).
Qed.
