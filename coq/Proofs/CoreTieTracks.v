(* Tie of data_model/tracks.py (Gen/CoreTracks_gen.v): _get_new_node_ids, undo, redo = get_new_node_ids, undo, redo of
   Model/Edit.v.  gen_undo_eq / gen_redo_eq do not need Gen/History_gen.v: `self.action_history.undo()` is the runtime
   combinator PyRt3.hist_undo; its relation to the code generated from action_history.py is Proofs/CoreTieHistory.v. *)
From Coq Require Import ZArith List Bool Lia Arith.
From FT Require Import Base.Dict Model.Edit Model.PyRt Model.PyRt3.
From FT Require Import Proofs.DictLemmas Proofs.EditInv.
From FT Require Proofs.EditBook.
From FT Require Import Gen.CoreTracks_gen.
From FT Require Import Proofs.CoreTieBase.
Import ListNotations.
Open Scope Z_scope.

(* ================================================================== *)
(* 2. data_model/tracks.py                                             *)
(* ================================================================== *)
Lemma list_set_app : forall pre x r v, list_set (pre ++ x :: r) (length pre) v = pre ++ v :: r.
Proof. induction pre as [|y p IH]; intros; cbn; [reflexivity|]. now rewrite IH. Qed.

(* _get_new_node_ids: the fuel of the hand model -- or any larger one -- is enough: the collision loop
   stops on an unused id before it runs out (pigeonhole, EditBook.skip_used_spec) *)
Theorem gen_get_new_node_ids_eq : forall st n fuel, (S (length (nodes (g st))) <= fuel)%nat ->
  gen_get_new_node_ids fuel st (Z.of_nat n) = let '(s', ids) := get_new_node_ids st n in Ok ids s'.
Proof.
  intros st n fuel Hfuel. unfold gen_get_new_node_ids, get_new_node_ids, py_range, py_enumerate.
  rewrite Nat2Z.id, map_map.
  set (ids := map (fun i => nctr st + Z.of_nat i) (seq 0 n)).
  change (nctr st + Z.of_nat n) with (nctr st + Z.of_nat n).
  match goal with |- context [py_for _ _ _ ?f] => set (F := f) end.
  (* the collision loop *)
  assert (W : forall k id c id' c' (s0 : state) k', skip_used k st id c = (id', c') -> has_node st id' = false -> (k <= k')%nat ->
              forall C B, C = (fun (i : Z) (s : state) => has_node s i) ->
              B = (fun (i : Z) (s : state) => Ok (nctr s) (upd_nctr s (nctr s + 1))) ->
              py_while_from s0 k' id (upd_nctr st c) C B = Ok id' (upd_nctr st c')).
  { induction k as [|k IH]; intros id c id' c' s0 k' Hs Hf Hk C B -> ->; cbn [skip_used] in Hs.
    - inversion Hs; subst. destruct k'; cbn [py_while_from]; change (has_node (upd_nctr st c') id') with (has_node st id'); now rewrite Hf.
    - destruct (has_node st id) eqn:Ei.
      + destruct k' as [|k']; [lia|]. cbn [py_while_from]. change (has_node (upd_nctr st c) id) with (has_node st id). rewrite Ei.
        cbn [bind]. change (upd_nctr (upd_nctr st c) (nctr (upd_nctr st c) + 1)) with (upd_nctr st (c + 1)).
        change (nctr (upd_nctr st c)) with c.
        apply (IH c (c + 1) id' c' s0 k' Hs Hf ltac:(lia) _ _ eq_refl eq_refl).
      + inversion Hs; subst. destruct k'; cbn [py_while_from]; change (has_node (upd_nctr st c') id') with (has_node st id'); now rewrite Ei. }
  (* the loop over the ids *)
  assert (L : forall rest pre c r' c', new_ids_loop st rest c = (r', c') -> (forall i, In i rest -> i < c) ->
              py_for (combine (map Z.of_nat (seq (length pre) (length rest))) rest) (pre ++ rest) (upd_nctr st c) F
              = Ok (pre ++ r') (upd_nctr st c')).
  { induction rest as [|i r IH]; intros pre c r' c' Hl Hlt; cbn [new_ids_loop] in Hl.
    - inversion Hl; subst. reflexivity.
    - destruct (skip_used (S (length (nodes (g st)))) st i c) as [i1 c1] eqn:Es.
      destruct (new_ids_loop st r c1) as [r1 c2] eqn:El. inversion Hl; subst. clear Hl.
      destruct (EditBook.skip_used_spec st i c i1 c1 (Hlt i (or_introl eq_refl)) Es) as (Hfresh & Hc & _).
      apply EditBook.has_node_false in Hfresh.
      cbn [length seq map combine py_for]. unfold F at 1. cbn beta iota. unfold py_while.
      rewrite (W _ _ _ _ _ (upd_nctr st c) fuel Es Hfresh Hfuel _ _ eq_refl eq_refl). cbn [bind].
      unfold py_list_setitem. rewrite app_length. cbn [length].
      replace ((0 <=? Z.of_nat (length pre)) && (Z.of_nat (length pre) <? Z.of_nat (length pre + S (length r)))) with true
        by (symmetry; apply andb_true_iff; split; [apply Z.leb_le|apply Z.ltb_lt]; lia).
      rewrite Nat2Z.id, list_set_app. cbn [bind].
      specialize (IH (pre ++ [i1]) c1 r1 c' El (fun x Hx => Z.lt_le_trans _ _ _ (Hlt x (or_intror Hx)) Hc)).
      rewrite app_length in IH. cbn [length] in IH. rewrite Nat.add_1_r, <- !app_assoc in IH. exact IH. }
  destruct (new_ids_loop st ids (nctr st + Z.of_nat n)) as [ids' c'] eqn:El.
  change (upd_nctr st (nctr st + Z.of_nat n)) with (upd_nctr st (nctr st + Z.of_nat n)).
  pose proof (L ids [] _ _ _ El) as L0. cbn [length app] in L0. rewrite L0.
  - reflexivity.
  - intros i Hi. unfold ids in Hi. apply in_map_iff in Hi. destruct Hi as (j & <- & Hj). apply in_seq in Hj. lia.
Qed.
(* with exactly the hand model's fuel *)
Corollary gen_get_new_node_ids_same_fuel : forall st n,
  gen_get_new_node_ids (S (length (nodes (g st)))) st (Z.of_nat n) = let '(s', ids) := get_new_node_ids st n in Ok ids s'.
Proof. intros. now apply gen_get_new_node_ids_eq. Qed.

(* Tracks.undo / redo: call the history, emit refresh only when it says True *)
Theorem gen_undo_eq : forall st, gen_undo st = undo st.
Proof.
  intros. unfold gen_undo, undo, hist_undo.
  destruct (length (undo_stack st) <=? length (redo_stack st))%nat; [reflexivity|].
  destruct (nth_error _ _); [|reflexivity]. destruct (inv_action st a); reflexivity.
Qed.
Theorem gen_redo_eq : forall st, gen_redo st = redo st.
Proof.
  intros. unfold gen_redo, redo, hist_redo. destruct (rev (redo_stack st)); [reflexivity|].
  destruct (inv_action _ _); reflexivity.
Qed.

Print Assumptions gen_get_new_node_ids_eq.
Print Assumptions gen_get_new_node_ids_same_fuel.
Print Assumptions gen_undo_eq.
Print Assumptions gen_redo_eq.
