(* Pure list / dictionary lemmas behind property C06: the "group-by" specification [bok] of a
   lookup dictionary, and its preservation by the three TrackAnnotator bookkeeping operations
   of Model/Edit.v (book_remove, book_add_extend, book_add_dedup).  No state here. *)
From Coq Require Import ZArith List Bool Lia Permutation.
From FT Require Import Base.Dict Model.Edit Proofs.DictLemmas.
Import ListNotations.
Open Scope Z_scope.

(* ---------- a few more dictionary lemmas ---------- *)
Lemma lookup_app {V} k (a b : dict V) :
  lookup k (a ++ b) = match lookup k a with Some v => Some v | None => lookup k b end.
Proof. induction a as [|[k' v'] r IH]; cbn; [reflexivity|]. destruct (Z.eqb k k'); [reflexivity|exact IH]. Qed.

Lemma keys_app {V} (a b : dict V) : keys (a ++ b) = keys a ++ keys b.
Proof. unfold keys. apply map_app. Qed.

Lemma haskey_set_eq {V} k (v : V) d : haskey k (set k v d) = true.
Proof. unfold haskey. now rewrite lookup_set_eq. Qed.
Lemma haskey_set_neq {V} k k' (v : V) d : k <> k' -> haskey k (set k' v d) = haskey k d.
Proof. intros H. unfold haskey. now rewrite lookup_set_neq. Qed.
Lemma haskey_del_neq {V} k k' (d : dict V) : k <> k' -> haskey k (del k' d) = haskey k d.
Proof. intros H. unfold haskey. now rewrite lookup_del_neq. Qed.
Lemma haskey_false_keys {V} k (d : dict V) : haskey k d = false <-> ~ In k (keys d).
Proof. rewrite <- haskey_keys. destruct (haskey k d); split; intros; congruence. Qed.

Lemma lookup_Some_haskey {V} k (d : dict V) v : lookup k d = Some v -> haskey k d = true.
Proof. intros H. unfold haskey. now rewrite H. Qed.
Lemma haskey_lookup {V} k (d : dict V) : haskey k d = true -> exists v, lookup k d = Some v.
Proof. unfold haskey. destruct (lookup k d) as [v|]; [intros _; now exists v|discriminate]. Qed.

(* ---------- the specification of a lookup: group-by of [idof] over the elements of [P] ---------- *)
Definition bok (P : Z -> Prop) (b : dict (list Z)) (idof : Z -> option Z) (mx : Z) : Prop :=
  NoDup (keys b) /\
  (forall T l, lookup T b = Some l -> l <> [] /\ NoDup l /\ forall n, In n l <-> (P n /\ idof n = Some T)) /\
  (forall n T, P n -> idof n = Some T -> haskey T b = true /\ T <= mx).

(* [bok] depends on (P, idof) only through the relation "n is an element carrying id T" *)
Lemma bok_ext P P' b idof idof' mx :
  (forall n T, (P n /\ idof n = Some T) <-> (P' n /\ idof' n = Some T)) ->
  bok P b idof mx -> bok P' b idof' mx.
Proof.
  intros He (Hk & Hl & Hn). split; [exact Hk|split].
  - intros T l HT. destruct (Hl T l HT) as (Hne & Hnd & Hin). split; [exact Hne|split; [exact Hnd|]].
    intros n. rewrite Hin. apply He.
  - intros n T HP Hid. destruct (proj2 (He n T) (conj HP Hid)) as [HP' Hid']. exact (Hn n T HP' Hid').
Qed.

Lemma bok_mono P b idof mx mx' : mx <= mx' -> bok P b idof mx -> bok P b idof mx'.
Proof.
  intros Hle (Hk & Hl & Hn). split; [exact Hk|split; [exact Hl|]].
  intros n T HP Hid. destruct (Hn n T HP Hid) as [A B]. split; [exact A|lia].
Qed.

(* the list stored under a key, or [] : always duplicate free, and its members are known *)
Lemma bok_getd P b idof mx id :
  bok P b idof mx -> NoDup (getd id b []) /\ forall n, In n (getd id b []) <-> (P n /\ idof n = Some id).
Proof.
  intros (Hk & Hl & Hn). unfold getd. destruct (lookup id b) as [l|] eqn:E.
  - destruct (Hl id l E) as (_ & A & B). split; assumption.
  - split; [constructor|]. intros n. split; [intros []|]. intros [HP Hid].
    destruct (Hn n id HP Hid) as [Hh _]. unfold haskey in Hh. rewrite E in Hh. discriminate.
Qed.

(* ---------- list.remove in a loop ---------- *)
Definition rm_fold (ns l : list Z) : list Z :=
  fold_left (fun acc n => if memz n acc then remove1 n acc else acc) ns l.

Lemma rm_fold_spec ns : forall l, NoDup l ->
  NoDup (rm_fold ns l) /\ forall x, In x (rm_fold ns l) <-> In x l /\ ~ In x ns.
Proof.
  unfold rm_fold. induction ns as [|n ns IH]; intros l Hnd; cbn [fold_left].
  - split; [exact Hnd|]. intros x; cbn; tauto.
  - assert (H1 : NoDup (if memz n l then remove1 n l else l) /\
                 forall x, In x (if memz n l then remove1 n l else l) <-> In x l /\ x <> n).
    { destruct (memz n l) eqn:E.
      - split; [now apply NoDup_remove1|]. intros x. now apply in_remove1_nodup.
      - apply memz_false in E. split; [exact Hnd|]. intros x.
        split; [intros H; split; [exact H|intros ->; contradiction]|tauto]. }
    destruct H1 as [Hnd1 Hin1]. destruct (IH _ Hnd1) as [Hnd2 Hin2]. split; [exact Hnd2|].
    intros x. rewrite Hin2, Hin1. cbn [In]. split.
    + intros [[H1 H2] H3]. split; [exact H1|]. intros [E|H4]; [congruence|contradiction].
    + intros [H1 H2]. split; [split; [exact H1|intros ->; apply H2; now left]|intros H3; apply H2; now right].
Qed.

(* ---------- append-unless-present in a loop ---------- *)
Definition dedup_fold (ns acc : list Z) : list Z :=
  fold_left (fun acc n => if memz n acc then acc else acc ++ [n]) ns acc.

Lemma dedup_fold_spec ns : forall acc, NoDup acc ->
  NoDup (dedup_fold ns acc) /\ forall x, In x (dedup_fold ns acc) <-> In x acc \/ In x ns.
Proof.
  unfold dedup_fold. induction ns as [|n ns IH]; intros acc Hnd; cbn [fold_left].
  - split; [exact Hnd|]. intros x; cbn; tauto.
  - assert (H1 : NoDup (if memz n acc then acc else acc ++ [n]) /\
                 forall x, In x (if memz n acc then acc else acc ++ [n]) <-> In x acc \/ x = n).
    { destruct (memz n acc) eqn:E.
      - apply memz_In in E. split; [exact Hnd|]. intros x. split; [tauto|intros [H| ->]; assumption].
      - apply memz_false in E. split; [now apply NoDup_snoc|]. intros x. rewrite in_app_iff. cbn.
        split; [intros [H|[H|[]]]; auto|intros [H|H]; auto]. }
    destruct H1 as [Hnd1 Hin1]. destruct (IH _ Hnd1) as [Hnd2 Hin2]. split; [exact Hnd2|].
    intros x. rewrite Hin2, Hin1. cbn [In]. split; [intros [[H|H]|H]; auto|intros [H|[H|H]]; auto].
Qed.

(* ---------- book_remove: the lookup of the elements that remain ---------- *)
Lemma bok_remove P b idof mx ns id :
  bok P b idof mx -> (forall n, In n ns -> P n -> idof n = Some id) ->
  bok (fun n => P n /\ ~ In n ns) (book_remove b ns id) idof mx.
Proof.
  intros (Hk & Hl & Hn) Hns. unfold book_remove. destruct (lookup id b) as [l|] eqn:El.
  - destruct (Hl id l El) as (Hne & Hnd & Hin).
    destruct (rm_fold_spec ns l Hnd) as [Hnd' Hin']. unfold rm_fold in Hnd', Hin'.
    remember (fold_left (fun acc n => if memz n acc then remove1 n acc else acc) ns l) as l' eqn:Hl'.
    clear Hl'.
    assert (Hother : forall T l0, T <> id -> lookup T b = Some l0 ->
              l0 <> [] /\ NoDup l0 /\ forall n, In n l0 <-> ((P n /\ ~ In n ns) /\ idof n = Some T)).
    { intros T l0 HT E0. destruct (Hl T l0 E0) as (A & B & C). split; [exact A|split; [exact B|]].
      intros n. rewrite C. split; [|tauto]. intros [HP Hid]. split; [split; [exact HP|]|exact Hid].
      intros Hi. specialize (Hns n Hi HP). congruence. }
    assert (Hkey : forall n, P n /\ ~ In n ns -> idof n = Some id -> In n l').
    { intros n [HP Hni] Hid. apply Hin'. split; [apply Hin; tauto|exact Hni]. }
    destruct l' as [|x l''].
    + split; [now apply NoDup_keys_del|split].
      * intros T l0 E0. destruct (Z.eq_dec T id) as [->|HT]; [rewrite lookup_del_eq in E0; discriminate|].
        rewrite lookup_del_neq in E0 by exact HT. now apply Hother.
      * intros n T HP Hid. destruct (Z.eq_dec T id) as [->|HT]; [exfalso; exact (Hkey n HP Hid)|].
        destruct HP as [HP Hni]. destruct (Hn n T HP Hid) as [Hh Hle]. split; [|exact Hle].
        now rewrite haskey_del_neq.
    + split; [now apply NoDup_keys_set|split].
      * intros T l0 E0. destruct (Z.eq_dec T id) as [->|HT].
        -- rewrite lookup_set_eq in E0. injection E0 as <-. split; [discriminate|split; [exact Hnd'|]].
           intros n. rewrite Hin', Hin. tauto.
        -- rewrite lookup_set_neq in E0 by exact HT. now apply Hother.
      * intros n T HP Hid. destruct HP as [HP Hni]. destruct (Hn n T HP Hid) as [Hh Hle]. split; [|exact Hle].
        destruct (Z.eq_dec T id) as [->|HT]; [apply haskey_set_eq|now rewrite haskey_set_neq].
  - (* unknown id: the Python code warns and returns; then none of [ns] is an element *)
    apply bok_ext with (P := P) (idof := idof); [|split; [exact Hk|split; [exact Hl|exact Hn]]].
    intros n T. split; [|tauto]. intros [HP Hid]. split; [split; [exact HP|]|exact Hid].
    intros Hi. specialize (Hns n Hi HP). destruct (Hn n id HP Hns) as [Hh _].
    unfold haskey in Hh. rewrite El in Hh. discriminate.
Qed.

(* ---------- writing a list under a key: the lookup after [ns] joined the elements ---------- *)
Lemma bok_set P b idof mx mx' ns id l' :
  bok P b idof mx -> NoDup l' -> l' <> [] ->
  (forall x, In x l' <-> In x (getd id b []) \/ In x ns) ->
  (forall n, In n ns -> idof n = Some id) ->
  mx <= mx' -> (ns <> [] -> id <= mx') ->
  bok (fun n => P n \/ In n ns) (set id l' b) idof mx'.
Proof.
  intros Hb Hnd Hne Hin Hid Hle Hle'. destruct (bok_getd P b idof mx id Hb) as [_ Hg].
  destruct Hb as (Hk & Hl & Hn). split; [now apply NoDup_keys_set|split].
  - intros T l0 E0. destruct (Z.eq_dec T id) as [->|HT].
    + rewrite lookup_set_eq in E0. injection E0 as <-. split; [exact Hne|split; [exact Hnd|]].
      intros n. rewrite Hin, Hg. split.
      * intros [[A B]|A]; [tauto|]. split; [now right|now apply Hid].
      * intros [[A|A] B]; [left; tauto|now right].
    + rewrite lookup_set_neq in E0 by exact HT. destruct (Hl T l0 E0) as (A & B & C).
      split; [exact A|split; [exact B|]]. intros n. rewrite C. split; [tauto|].
      intros [[HP|Hi] Hi2]; [tauto|]. specialize (Hid n Hi). congruence.
  - intros n T [HP|Hi] Hi2.
    + destruct (Hn n T HP Hi2) as [Hh Hle2]. split; [|lia].
      destruct (Z.eq_dec T id) as [->|HT]; [apply haskey_set_eq|now rewrite haskey_set_neq].
    + assert (T = id) by (specialize (Hid n Hi); congruence). subst T. split; [apply haskey_set_eq|].
      apply Hle'. intros ->. contradiction.
Qed.

Lemma NoDup_app_intro (a b : list Z) :
  NoDup a -> NoDup b -> (forall x, In x a -> ~ In x b) -> NoDup (a ++ b).
Proof.
  induction a as [|y r IH]; cbn; intros Ha Hb Hd; [exact Hb|].
  inversion Ha as [|? ? Hy Hr]; subst. constructor.
  - rewrite in_app_iff. intros [H|H]; [contradiction|]. apply (Hd y); [now left|exact H].
  - apply IH; [exact Hr|exact Hb|]. intros x Hx. apply Hd. now right.
Qed.

(* tracklet lookup: list.extend *)
Lemma bok_add_extend P b idof mx ns id :
  bok P b idof mx -> NoDup ns -> ns <> [] -> (forall n, In n ns -> ~ P n) ->
  (forall n, In n ns -> idof n = Some id) ->
  bok (fun n => P n \/ In n ns) (book_add_extend b ns id) idof (Z.max mx id).
Proof.
  intros Hb Hnd Hne Hdis Hid. unfold book_add_extend. destruct (bok_getd P b idof mx id Hb) as [Hg1 Hg2].
  apply bok_set with (mx := mx) (ns := ns); try assumption; try lia.
  - apply NoDup_app_intro; [exact Hg1|exact Hnd|]. intros x Hx Hx2. apply (Hdis x Hx2). now apply Hg2.
  - intros E. apply app_eq_nil in E. destruct E as [_ E]. contradiction.
  - intros x. apply in_app_iff.
Qed.

(* lineage lookup: append unless present (duplicates in [ns] are harmless) *)
Lemma bok_add_dedup P b idof mx ns id :
  bok P b idof mx -> ns <> [] ->
  (forall n, In n ns -> idof n = Some id) ->
  bok (fun n => P n \/ In n ns) (book_add_dedup b ns id) idof (Z.max mx id).
Proof.
  intros Hb Hne Hid. unfold book_add_dedup. destruct (bok_getd P b idof mx id Hb) as [Hg1 Hg2].
  destruct (dedup_fold_spec ns _ Hg1) as [A B]. unfold dedup_fold in A, B.
  apply bok_set with (mx := mx) (ns := ns); try assumption; try lia.
  intros E. destruct ns as [|n ns]; [now apply Hne|].
  assert (Hi : In n []) by (rewrite <- E; apply B; right; now left). destruct Hi.
Qed.

(* rewriting the list of a key by a permutation of itself (get_track_neighbors sorts in place) *)
Lemma bok_permute P b idof mx id l l' :
  bok P b idof mx -> lookup id b = Some l -> Permutation l l' -> bok P (set id l' b) idof mx.
Proof.
  intros Hb El Hp. destruct (bok_getd P b idof mx id Hb) as [Hg1 Hg2].
  assert (Hg : getd id b [] = l) by (unfold getd; now rewrite El). rewrite Hg in Hg1, Hg2.
  destruct Hb as (Hk & Hl & Hn). destruct (Hl id l El) as (Hne & _ & _).
  apply bok_ext with (P := fun n => P n \/ In n []) (idof := idof); [intros n T; cbn; tauto|].
  apply bok_set with (mx := mx) (ns := []).
  - split; [exact Hk|split; [exact Hl|exact Hn]].
  - eapply Permutation_NoDup; eassumption.
  - intros ->. apply Permutation_sym, Permutation_nil in Hp. contradiction.
  - intros x. rewrite Hg. cbn. split; [intros H; left; eapply Permutation_in; [apply Permutation_sym|]; eassumption|].
    intros [H|[]]. eapply Permutation_in; eassumption.
  - intros n [].
  - lia.
  - intros H; now contradiction H.
Qed.
