(* Non-vacuity of Proofs/EditWFNode.v: a concrete well-formed state with a segmentation, a run of
   seven calls mixing UserAddNode (pixels on background), UserDeleteNode, UserAddEdge,
   UserDeleteEdge, one of them refused, for which every hypothesis of run_node_WF is discharged
   by computation - and three calls outside the precondition that do break the invariant. *)
From Coq Require Import ZArith List Bool Lia.
From FT Require Import Base.Dict Model.Edit Model.EditExec Proofs.EditInv Proofs.EditSeg Proofs.EditFresh
  Proofs.EditWFEdge Proofs.EditWFNode.
From FT Require Proofs.EditUAN Proofs.EditBook Proofs.EditSegExample.
Import ListNotations.
Open Scope Z_scope.

(* EditWFEdge.exs: 3 frames of 2x2 pixels,  1 1 / 0 0   2 2 / 3 0   0 4 / 4 0 ;
   node 1 (t=0) divides into 2 and 3 (t=1), 2 continues to 4 (t=2); KPos, KArea and the IoU are managed *)
Lemma exs_rp_disjoint : rp_disjoint exs.
Proof.
  intros k Hk Hin. destruct EditSegExample.ex0_cfg as (C1 & C2 & C3 & _).
  destruct Hk as [->|[->| ->]]; contradiction.
Qed.

Definition exn_ops : list op :=
  [ OAddNode 5 [(KTime, VZ 2); (KTrack, VZ 3)] (Some (2, [0])) false;      (* node 5 below 3, on a background pixel *)
    ODelNode 4;                                                             (* the leaf 4 and its label go *)
    ODelEdge 3 5;
    OAddEdge 2 5 false;
    OAddNode 1 [(KTime, VZ 0); (KTrack, VZ 9)] (Some (0, [2])) false;       (* refused: the id is taken *)
    OAddNode 6 [(KTime, VZ 0); (KTrack, VZ 7); (KArea, VTok 99)] (Some (0, [2; 3])) false;   (* a new root; the given area is overwritten *)
    ODelNode 2 ].                                                           (* an inner node: 5 becomes a root *)

Example exn_run_WF : WF (run exs exn_ops).
Proof.
  apply run_node_WF_check.
  - reflexivity.
  - apply exs_WF.
  - apply exs_rp_disjoint.
  - vm_compute. reflexivity.
Qed.

(* the same through the propositional statement: every side condition holds where its call starts *)
Example exn_run_pre : forall pre o post, exn_ops = pre ++ o :: post -> op_pre (run exs pre) o.
Proof. apply pre_alongb_spec. vm_compute. reflexivity. Qed.

Example exn_run_rp_disjoint : rp_disjoint (run exs exn_ops).
Proof. apply run_node_rp_disjoint; [reflexivity|apply exs_rp_disjoint]. Qed.

(* outcome of each call (0 = accepted, 10 = InvalidActionError), and the state at the end:
   graph, array, lookups and stored features all changed *)
Example exn_run_effect :
  let s := run exs exn_ops in
  map (fun k => fst (snd (step (run exs (firstn k exn_ops)) (nth k exn_ops ONextIds)))) (seq 0 7) = [0; 0; 0; 0; 10; 0; 0] /\
  keys (nodes (g exs)) = [1; 2; 3; 4] /\ all_edges exs = [(1, 2); (1, 3); (2, 4)] /\
  keys (nodes (g s)) = [1; 3; 5; 6] /\ all_edges s = [(1, 3)] /\
  seg s = Some [[1; 1; 6; 6]; [0; 0; 3; 0]; [5; 0; 0; 0]] /\
  trk_book (bk s) = [(1, [1; 3]); (2, [5]); (7, [6])] /\ lin_book (bk s) = [(1, [1; 3]); (3, [6]); (4, [5])] /\
  attr s 6 KArea = Some (VRp [2; 3]) /\ attr s 5 KPos = Some (VRp [0]) /\
  lookup KIou (edge_attrs s 1 3) = Some (VIou 0 1) /\
  length (undo_stack s) = 6%nat.
Proof. vm_compute. repeat split. Qed.

(* the intermediate state after the first four calls: 5 hangs below 2 with the IoU of the two masks *)
Example exn_run_mid :
  let s := run exs (firstn 4 exn_ops) in
  all_edges s = [(1, 2); (1, 3); (2, 5)] /\ (zattr s 5 KTrack, zattr s 5 KLin) = (Some 2, Some 1) /\
  lookup KIou (edge_attrs s 2 5) = Some (VIou 1 2) /\
  seg s = Some [[1; 1; 0; 0]; [2; 2; 3; 0]; [5; 0; 0; 0]].
Proof. vm_compute. repeat split. Qed.

(* ---- the pixel side conditions are needed: accepted calls outside them break W_seg ---- *)
Lemma W_seg_needs_mask s sg n : seg s = Some sg -> is_node s n -> mask_of sg (time_of s n) n = [] -> ~ W_seg s.
Proof.
  intros Hs Hn Hm HW. apply (W_seg_iff _ _ Hs) in HW. destruct HW as (I1 & _). destruct (I1 n Hn) as [_ H]. now apply H.
Qed.

Lemma exs_seg : seg exs = Some EditSegExample.sg0.
Proof. reflexivity. Qed.

(* (a) pixels that are not background: node 3 loses its only pixel *)
Definition bad_a : op := OAddNode 5 [(KTime, VZ 1); (KTrack, VZ 9)] (Some (1, [2])) false.
Example uan_overwrite_breaks_W_seg :
  WF exs /\ ~ op_pre exs bad_a /\ snd (step exs bad_a) = (0, []) /\ ~ W_seg (fst (step exs bad_a)).
Proof.
  split; [exact exs_WF|]. split; [|split; [vm_compute; reflexivity|]].
  - intros (_ & _ & Hp). unfold uan_px_pre in Hp. rewrite exs_seg in Hp.
    destruct Hp as (_ & idx & E & _ & Hbg). injection E as <-.
    assert (Et : EditUAN.uan_time [(KTime, VZ 1); (KTrack, VZ 9)] = 1) by reflexivity. rewrite Et in Hbg.
    assert (H : label_at EditSegExample.sg0 1 2 = 0) by (apply Hbg; [vm_compute; lia|left; reflexivity]).
    vm_compute in H. discriminate H.
  - apply (W_seg_needs_mask _ [[1; 1; 0; 0]; [2; 2; 5; 0]; [0; 4; 4; 0]] 3).
    + vm_compute. reflexivity.
    + vm_compute. auto 6.
    + vm_compute. reflexivity.
Qed.

(* (b) no pixels on a state with a segmentation (a position is given instead): a node without a label *)
Definition bad_b : op := OAddNode 5 [(KTime, VZ 2); (KTrack, VZ 9); (KPos, VTok 1)] None false.
Example uan_no_pixels_breaks_W_seg :
  ~ op_pre exs bad_b /\ snd (step exs bad_b) = (0, []) /\ ~ W_seg (fst (step exs bad_b)).
Proof.
  split; [|split; [vm_compute; reflexivity|]].
  - intros (_ & _ & Hp). unfold uan_px_pre in Hp. rewrite exs_seg in Hp.
    destruct Hp as (_ & idx & E & _). discriminate E.
  - apply (W_seg_needs_mask _ EditSegExample.sg0 5).
    + vm_compute. reflexivity.
    + vm_compute. auto 6.
    + vm_compute. reflexivity.
Qed.

(* (c) pixels in another frame than the node's time: the label sits in frame 0, the node in frame 2 *)
Definition bad_c : op := OAddNode 5 [(KTime, VZ 2); (KTrack, VZ 9)] (Some (0, [2])) false.
Example uan_wrong_frame_breaks_W_seg :
  ~ op_pre exs bad_c /\ snd (step exs bad_c) = (0, []) /\ ~ W_seg (fst (step exs bad_c)).
Proof.
  split; [|split; [vm_compute; reflexivity|]].
  - intros (_ & _ & Hp). unfold uan_px_pre in Hp. rewrite exs_seg in Hp.
    destruct Hp as (_ & idx & E & _).
    assert (Et : EditUAN.uan_time [(KTime, VZ 2); (KTrack, VZ 9)] = 2) by reflexivity. rewrite Et in E. discriminate E.
  - apply (W_seg_needs_mask _ [[1; 1; 5; 0]; [2; 2; 3; 0]; [0; 4; 4; 0]] 5).
    + vm_compute. reflexivity.
    + vm_compute. auto 6.
    + vm_compute. reflexivity.
Qed.
