(* Source tie for the two SEGMENTATION-DERIVED ANNOTATORS (properties C08 "node measurements equal those of the
   current mask", C09 "edge IoU equals the true overlap", C10 bulk = incremental).

   The definitions translated from the current sources (Gen/Annotators_gen.v, rewritten by
   harness/translate_annotators.py from annotators/_edge_annotator.py, _regionprops_annotator.py, _compute_ious.py)
   ARE the hand-written model: Leibniz equality of the whole result -- value or error, and the state -- for all
   arguments.  If the Python changes its behaviour the regenerated definition changes and an equality below stops
   being provable (harness/selftest_annotators.sh: 35 semantic changes rejected, 3 harmless rewrites accepted).

   THE TIES                                                         against                              hypotheses
     IousTie.gen__compute_ious_eq     _compute_ious                 AnnotatorsIous.compute_ious_sorted   none
        (with iou_of_frames, ious_find_spec: the entry for (u, v) IS Model/Edit.v's iou_of on the two frames, u, v <> 0)
     gen_EdgeAnnotator_update_eq      EdgeAnnotator.update          PyRt3.py_edge_update                 H1 H2 H3
        (= iou_update_edges / iou_of of Model/Edit.v on the added edge / on the edges incident to the node)
     iou_update_spec                  EdgeAnnotator._iou_update     the writes (e, entry of the list or 0) for e in edges, NoDup edges, all present
     gen_EdgeAnnotator_compute_eq     EdgeAnnotator.compute         Toggle.iou_compute                   H1 H4   (_WF: from W_dict, W_seg)
     gen_regionprops_update_eq        ._regionprops_update          rp_frame = the body of Toggle.rp_compute_frame      oracle
     gen_RegionpropsAnnotator_update_eq   RegionpropsAnnotator.update   PyRt3.py_regionprops_update      oracle H5 H6
        (= rp_update of Model/Edit.v on the node of an AddNode / UpdateNodeSeg)
     gen_RegionpropsAnnotator_compute_with   .compute               rp_compute_with (Toggle.rp_compute, key list a parameter)   oracle
     gen_RegionpropsAnnotator_compute_eq / _none_eq                 Toggle.rp_compute                    oracle H7 / H5 + ck_act

   HYPOTHESES (each stated where it is needed, nowhere else)
     H1  iou_act (ft s) = true -> iou_avail (ft s) = true      the flag is set only on an annotator that has the feature
                                                               (ToggleProofs.cfg_keys.ck_iou; Python reads self.features)
     H2  seg s <> None -> ids_positive s /\ edges_closed s     node ids are POSITIVE (WF has only <> 0: the Python's
                                                               `np.max(masked) == 0` finds no negative label) and edges join nodes (W_dict)
     H3  for an AddEdge the edge is in the graph               (update runs right after graph.add_edge: has_edge_nx_add_edge)
     H4  seg s <> None -> NoDup (keys succs), NoDup successors, edges_closed, node ids <> 0        (W_dict, W_seg)
     H5  keys (gen_GraphAnnotator_features s ARp) = rp_act (ft s)    from rp_canon and NoDup rp_all: features_rp_keys
     H6  seg s <> None -> ids_positive s
     H7  keys_in_model_order s ks     the caller lists the requested active keys in rp_act order
     oracle  rp_labels / rp_values (Section Regionprops): called with spacing = scale[1:], regionprops_extended(frame) yields the
             labels labels_of frame, and the attribute read for any key is VRp (the pixels of that label IN THAT FRAME) --
             this is what the symbolic value VRp means; instance_rp_labels / instance_rp_values show it is satisfiable.
   Conventions inherited from the hand models / Model/PyRt8.v: a frame index outside the array reads the empty frame;
   get_time raises only for a missing node; TypeError / AttributeError are reported as EKey / EValue.

   WHERE THE HAND MODEL IS NOT LITERALLY THE PYTHON (section 11: machine-checked differing inputs)
     negative_id_regionprops, negative_id_iou   negative node ids (Python: "label not found": None / 0; and its own bulk IoU
                                                disagrees with its incremental IoU there)
     key_order_regionprops                      compute(keys) walks the keys in the caller's order, the model in rp_act order
                                                (same values, another insertion order of the node's attribute dict)
     iou_flag_without_feature, missing_edge     the two side conditions H1, H3 cannot be dropped *)
From Coq Require Import ZArith List Bool Lia Arith Permutation.
From FT Require Import Base.Dict Model.Edit Model.Toggle Model.PyRt Model.PyRt3 Model.PyRt4 Model.PyRt8
  Gen.Toggle_gen Gen.Annotators_gen Proofs.DictLemmas Proofs.EditInv Proofs.EditSeg Proofs.EditGraph Proofs.EditFresh Proofs.ToggleTie.
From FT Require Model.NpRt Model.PyRt5 Model.CandGraph Proofs.CandGraphProofs Proofs.AnnotatorsIous.
Import ListNotations.
Open Scope Z_scope.

Module AG := FT.Gen.Annotators_gen.

(* ================================================================== *)
(* 1. _compute_ious (annotators/_compute_ious.py)                      *)
(* ================================================================== *)
(* the list the function returns, in np.unique's order: [compute_ious_sorted], a Permutation of Model/CandGraph.v's
   compute_ious.  Proved in Proofs/AnnotatorsIous.v about the definition generated from the ANNOTATORS' file (the lemmas are
   copied from the candidate-graph tie, which this development does not depend on). *)
Module IousTie.
Theorem gen__compute_ious_eq : forall f1 f2 : list Z,
  AG.Ious.gen__compute_ious f1 f2 = FT.Model.PyRt5.Ok (FT.Proofs.AnnotatorsIous.compute_ious_sorted f1 f2).
Proof. exact FT.Proofs.AnnotatorsIous.gen__compute_ious_eq. Qed.
End IousTie.

Notation ious_of := FT.Proofs.AnnotatorsIous.compute_ious_sorted.
Notation iou_entry := FT.Proofs.AnnotatorsIous.iou_entry.
Notation unique_cols := FT.Proofs.AnnotatorsIous.unique_cols.
Notation overlap_pairs := FT.Model.CandGraph.overlap_pairs.
Notation pair_dec := FT.Model.CandGraph.pair_dec.
Notation cg_count := FT.Model.CandGraph.count.

(* ================================================================== *)
(* 2. masks, counts, and what _compute_ious says about one label pair  *)
(* ================================================================== *)
(* how many pixels carry u in f1 and v in f2 *)
Definition pcount (f1 f2 : list Z) (u v : Z) : nat := count_occ pair_dec (combine f1 f2) (u, v).

Lemma filter_memz_nil' (a : list Z) : filter (fun x => memz x []) a = [].
Proof. induction a as [|x r IH]; cbn; [reflexivity|exact IH]. Qed.

Lemma memz_positions_lt s f n p : p < s -> memz p (positions_from s f n) = false.
Proof. intros H. apply memz_false. intros Hin. apply positions_from_ge in Hin. lia. Qed.

Lemma inter_count_pcount : forall f1 f2 s u v,
  inter_count (positions_from s f1 u) (positions_from s f2 v) = Z.of_nat (pcount f1 f2 u v).
Proof.
  unfold inter_count, pcount. induction f1 as [|x r1 IH]; intros f2 s u v; [reflexivity|].
  destruct f2 as [|y r2].
  - cbn [positions_from combine count_occ]. now rewrite filter_memz_nil'.
  - cbn [positions_from combine count_occ].
    set (P1 := positions_from (s + 1) r1 u). set (P2 := positions_from (s + 1) r2 v).
    assert (Hrest : forall B', (B' = P2 \/ B' = s :: P2) -> filter (fun p => memz p B') P1 = filter (fun p => memz p P2) P1).
    { intros B' HB. apply filter_ext_in. intros p Hp. apply positions_from_ge in Hp.
      destruct HB as [->| ->]; [reflexivity|]. cbn [memz existsb]. replace (p =? s) with false; [reflexivity|].
      symmetry. apply Z.eqb_neq. lia. }
    specialize (IH r2 (s + 1) u v). fold P1 P2 in IH.
    assert (Hs1 : memz s (s :: P2) = true) by (apply memz_In; now left).
    assert (Hs0 : memz s P2 = false) by (apply memz_positions_lt; lia).
    destruct (pair_dec (x, y) (u, v)) as [E|N].
    + injection E as -> ->. rewrite !Z.eqb_refl. cbn [filter]. rewrite Hs1. cbn [length].
      rewrite (Hrest (s :: P2)) by auto. rewrite !Nat2Z.inj_succ, <- IH. reflexivity.
    + destruct (Z.eqb_spec x u) as [->|Nx].
      * destruct (Z.eqb_spec y v) as [->|Ny]; [congruence|].
        cbn [filter]. rewrite Hs0. exact IH.
      * destruct (y =? v); [rewrite (Hrest (s :: P2)) by auto|]; exact IH.
Qed.

Lemma positions_length : forall f s u, Z.of_nat (length (positions_from s f u)) = cg_count u f.
Proof.
  unfold FT.Model.CandGraph.count. induction f as [|x r IH]; intros s u; [reflexivity|].
  cbn [positions_from count_occ]. destruct (Z.eqb_spec x u) as [->|N].
  - destruct (Z.eq_dec u u) as [_|C]; [|congruence]. cbn [length]. rewrite !Nat2Z.inj_succ, IH. reflexivity.
  - destruct (Z.eq_dec x u) as [C|_]; [congruence|]. apply IH.
Qed.

Lemma positions_nil_iff f s u : positions_from s f u = [] <-> ~ In u f.
Proof.
  revert s. induction f as [|x r IH]; intros s; cbn [positions_from In]; [tauto|].
  destruct (Z.eqb_spec x u) as [->|N]; [split; [discriminate|intros H; exfalso; apply H; now left]|].
  rewrite IH. tauto.
Qed.

(* count_occ of a pair that passes the filter *)
Lemma count_occ_filter {A} (dec : forall a b : A, {a = b} + {a <> b}) (P : A -> bool) (l : list A) x :
  P x = true -> count_occ dec (filter P l) x = count_occ dec l x.
Proof.
  intros HP. induction l as [|y r IH]; [reflexivity|]. cbn [filter count_occ].
  destruct (dec y x) as [->|N].
  - rewrite HP. cbn [count_occ]. destruct (dec x x) as [_|C]; [|congruence]. now rewrite IH.
  - destruct (P y); [cbn [count_occ]; destruct (dec y x) as [C|_]; [congruence|]|]; exact IH.
Qed.

Lemma overlap_count f1 f2 u v : u <> 0 -> v <> 0 -> count_occ pair_dec (overlap_pairs f1 f2) (u, v) = pcount f1 f2 u v.
Proof.
  intros Hu Hv. unfold FT.Model.CandGraph.overlap_pairs, pcount. apply count_occ_filter. cbn [fst snd].
  apply Z.eqb_neq in Hu, Hv. now rewrite Hu, Hv.
Qed.
Lemma overlap_In f1 f2 u v : u <> 0 -> v <> 0 -> (In (u, v) (overlap_pairs f1 f2) <-> (0 < pcount f1 f2 u v)%nat).
Proof. intros Hu Hv. rewrite <- overlap_count by assumption. apply count_occ_In. Qed.
Lemma overlap_nonzero f1 f2 a b : In (a, b) (overlap_pairs f1 f2) -> a <> 0 /\ b <> 0.
Proof.
  unfold FT.Model.CandGraph.overlap_pairs. rewrite filter_In. cbn [fst snd]. intros [_ H].
  apply andb_true_iff in H. destruct H as [H1 H2]. apply negb_true_iff in H1, H2. apply Z.eqb_neq in H1, H2. tauto.
Qed.

(* the IoU the model's iou_of stores, from the two frames *)
Definition frame_iou (f1 f2 : list Z) (u v : Z) : value :=
  let i := Z.of_nat (pcount f1 f2 u v) in
  if i =? 0 then VIou 0 1 else VIou i (cg_count u f1 + cg_count v f2 - i).

Lemma iou_of_frames st sg u v :
  iou_of st sg u v = frame_iou (frame_of sg (time_of st u)) (frame_of sg (time_of st v)) u v.
Proof.
  unfold iou_of, frame_iou, mask_of. cbv zeta.
  set (f1 := frame_of sg (time_of st u)). set (f2 := frame_of sg (time_of st v)).
  pose proof (inter_count_pcount f1 f2 0 u v) as Hi. pose proof (positions_length f1 0 u) as H1. pose proof (positions_length f2 0 v) as H2.
  destruct (positions_from 0 f1 u) as [|a0 a] eqn:Ea.
  - unfold inter_count in Hi. cbn in Hi. rewrite <- Hi. reflexivity.
  - destruct (positions_from 0 f2 v) as [|b0 b] eqn:Eb.
    + unfold inter_count in Hi. rewrite filter_memz_nil' in Hi. cbn in Hi. rewrite <- Hi. reflexivity.
    + rewrite Hi, H1, H2. reflexivity.
Qed.

(* the entry _compute_ious lists for (u, v), if any *)
Definition ious_find (L : list ((Z * Z) * (Z * Z))) (e : Z * Z) : option (Z * Z) :=
  option_map snd (find (fun x => pair_eqb (fst x) e) L).
Definition entry_value (o : option (Z * Z)) : value := match o with Some q => val_of_frac q | None => VIou 0 1 end.

Lemma pair_eqb_eq a b : pair_eqb a b = true <-> a = b.
Proof.
  destruct a, b. unfold pair_eqb. cbn [fst snd]. rewrite andb_true_iff, !Z.eqb_eq.
  split; [intros [-> ->]; reflexivity|intros E; injection E; auto].
Qed.
Lemma pair_eqb_refl a : pair_eqb a a = true.
Proof. now apply pair_eqb_eq. Qed.
Lemma pair_eqb_neq a b : a <> b -> pair_eqb a b = false.
Proof. intros N. destruct (pair_eqb a b) eqn:E; [apply pair_eqb_eq in E; congruence|reflexivity]. Qed.

Lemma find_key_map {B} (F : Z * Z -> (Z * Z) * B) (e : Z * Z) : (forall p, fst (F p) = p) -> forall U,
  find (fun x => pair_eqb (fst x) e) (map F U) = if in_dec pair_dec e U then Some (F e) else None.
Proof.
  intros HF. induction U as [|p U IH]; [reflexivity|]. cbn [map find]. rewrite HF.
  destruct (pair_eqb p e) eqn:Ep.
  - apply pair_eqb_eq in Ep. subst p. destruct (in_dec pair_dec e (e :: U)) as [_|C]; [reflexivity|exfalso; apply C; now left].
  - rewrite IH. assert (p <> e) by (intros ->; rewrite pair_eqb_refl in Ep; discriminate).
    destruct (in_dec pair_dec e U) as [I|N], (in_dec pair_dec e (p :: U)) as [I'|N']; try reflexivity.
    + exfalso. apply N'. now right.
    + destruct I' as [C|C]; [congruence|contradiction].
Qed.

Lemma ious_find_spec f1 f2 u v : u <> 0 -> v <> 0 ->
  entry_value (ious_find (ious_of f1 f2) (u, v)) = frame_iou f1 f2 u v.
Proof.
  intros Hu Hv. unfold ious_find, FT.Proofs.AnnotatorsIous.compute_ious_sorted.
  rewrite (find_key_map (iou_entry f1 f2 (overlap_pairs f1 f2)) (u, v)) by reflexivity.
  unfold frame_iou. cbv zeta.
  destruct (in_dec pair_dec (u, v) (unique_cols (overlap_pairs f1 f2))) as [I|N].
  - apply (proj1 (FT.Proofs.AnnotatorsIous.unique_cols_In _ _)) in I. pose proof I as I'. apply (overlap_In f1 f2 u v Hu Hv) in I'.
    cbn [option_map entry_value]. unfold FT.Proofs.AnnotatorsIous.iou_entry. cbn [snd fst]. rewrite overlap_count by assumption.
    replace (Z.of_nat (pcount f1 f2 u v) =? 0) with false by (symmetry; apply Z.eqb_neq; lia). reflexivity.
  - cbn [option_map entry_value]. rewrite FT.Proofs.AnnotatorsIous.unique_cols_In, (overlap_In f1 f2 u v Hu Hv) in N.
    replace (Z.of_nat (pcount f1 f2 u v) =? 0) with true by (symmetry; apply Z.eqb_eq; lia). reflexivity.
Qed.

(* ---- one node's frame masked to its label: np.where(f == u, u, 0) ---- *)
Definition masked (f : list Z) (u : Z) : list Z := np_where (np_eq_mask f u) u 0.

Lemma masked_cons x r u : masked (x :: r) u = (if x =? u then u else 0) :: masked r u.
Proof. reflexivity. Qed.

Lemma masked_positions f u : u <> 0 -> forall s, positions_from s (masked f u) u = positions_from s f u.
Proof.
  intros Hu. induction f as [|x r IH]; intros s; [reflexivity|]. rewrite masked_cons. cbn [positions_from].
  destruct (Z.eqb_spec x u) as [->|N]; [rewrite Z.eqb_refl; now rewrite IH|].
  replace (0 =? u) with false by (symmetry; apply Z.eqb_neq; congruence). apply IH.
Qed.

Lemma masked_values f u a : In a (masked f u) -> a = u \/ a = 0.
Proof.
  induction f as [|x r IH]; [intros []|]. rewrite masked_cons. intros [<-|H]; [destruct (x =? u); auto|auto].
Qed.

Lemma fold_max_le : forall r x, x <= fold_left Z.max r x.
Proof. induction r as [|y r IH]; intros x; cbn [fold_left]; [lia|]. specialize (IH (Z.max x y)). lia. Qed.
Lemma fold_max_in : forall r x, fold_left Z.max r x = x \/ In (fold_left Z.max r x) r.
Proof.
  induction r as [|y r IH]; intros x; cbn [fold_left In]; [now left|].
  destruct (IH (Z.max x y)) as [E|E]; [|now right; right].
  rewrite E. destruct (Z.max_spec x y) as [[_ ->]|[_ ->]]; [right; now left|now left].
Qed.
Lemma fold_max_ge_in : forall r x y, In y r -> y <= fold_left Z.max r x.
Proof.
  induction r as [|z r IH]; intros x y; [intros []|]. cbn [fold_left]. intros [->|H]; [|now apply IH].
  pose proof (fold_max_le r (Z.max x y)). lia.
Qed.

Lemma masked_In f u : u <> 0 -> (In u (masked f u) <-> In u f).
Proof.
  intros Hu. induction f as [|x r IH]; [tauto|]. rewrite masked_cons. cbn [In]. rewrite IH.
  destruct (Z.eqb_spec x u) as [->|N]; [tauto|]. split; intros [H|H]; auto; congruence.
Qed.

(* np.max(masked) == 0  iff  the label does not occur (positive labels) *)
Lemma np_max_masked f u : 0 < u -> (np_max (masked f u) =? 0) = match positions_from 0 f u with [] => true | _ => false end.
Proof.
  intros Hu. assert (Hu0 : u <> 0) by lia. destruct (positions_from 0 f u) as [|p ps] eqn:E.
  - apply positions_nil_iff in E. rewrite <- (masked_In f u Hu0) in E.
    apply Z.eqb_eq. unfold np_max. destruct (masked f u) as [|x r] eqn:Em; [reflexivity|].
    assert (Hall : forall a, In a (x :: r) -> a = 0).
    { intros a Ha. pose proof Ha as Hv. rewrite <- Em in Hv. apply masked_values in Hv. destruct Hv as [-> | ->]; [contradiction|reflexivity]. }
    destruct (fold_max_in r x) as [-> | H]; [apply Hall; now left|apply Hall; now right].
  - apply Z.eqb_neq. assert (Hin : In u (masked f u)).
    { apply masked_In; [exact Hu0|]. destruct (in_dec Z.eq_dec u f) as [I|N]; [exact I|].
      apply positions_nil_iff with (s := 0) in N. congruence. }
    unfold np_max. destruct (masked f u) as [|x r]; [destruct Hin|].
    destruct Hin as [-> | H]; [pose proof (fold_max_le r u); lia|pose proof (fold_max_ge_in r x u H); lia].
Qed.

Lemma masked_pcount f1 f2 u v : u <> 0 -> v <> 0 -> pcount (masked f1 u) (masked f2 v) u v = pcount f1 f2 u v.
Proof.
  intros Hu Hv. apply Nat2Z.inj. rewrite <- !(inter_count_pcount _ _ 0), !masked_positions by assumption. reflexivity.
Qed.
Lemma masked_count f u : u <> 0 -> cg_count u (masked f u) = cg_count u f.
Proof. intros Hu. rewrite <- !(positions_length _ 0), masked_positions by assumption. reflexivity. Qed.
Lemma masked_frame_iou f1 f2 u v : u <> 0 -> v <> 0 -> frame_iou (masked f1 u) (masked f2 v) u v = frame_iou f1 f2 u v.
Proof. intros Hu Hv. unfold frame_iou. now rewrite masked_pcount, !masked_count. Qed.

Lemma NoDup_all_eq {A} (k : A) l : NoDup l -> (forall x, In x l -> x = k) -> l = [] \/ l = [k].
Proof.
  intros Hn Hall. destruct l as [|a [|b r]]; [now left|right; f_equal; apply Hall; now left|exfalso].
  assert (a = k) by (apply Hall; now left). assert (b = k) by (apply Hall; right; now left). subst.
  inversion Hn as [|? ? Hni _]. apply Hni. now left.
Qed.

(* what EdgeAnnotator.update reads off the list _compute_ious returns for the two masked frames *)
Lemma masked_ious_value f1 f2 u v : u <> 0 -> v <> 0 ->
  let L := ious_of (masked f1 u) (masked f2 v) in
  val_of_frac (if py_len L =? 0 then frac_of_int 0 else snd (hd ((0, 0), (0, 0)) L)) = frame_iou f1 f2 u v
  /\ (py_len L =? 0 = false -> PyRt5.list_get L 0 = PyRt5.Ok (hd ((0, 0), (0, 0)) L)).
Proof.
  intros Hu Hv L. rewrite <- (masked_frame_iou f1 f2 u v Hu Hv). rewrite <- (ious_find_spec _ _ u v Hu Hv). fold L.
  set (m1 := masked f1 u) in *. set (m2 := masked f2 v) in *. set (ov := overlap_pairs m1 m2).
  assert (Hall : forall x, In x (unique_cols ov) -> x = (u, v)).
  { intros [a b] Hx. apply (proj1 (FT.Proofs.AnnotatorsIous.unique_cols_In _ _)) in Hx. pose proof (overlap_nonzero _ _ _ _ Hx) as [Ha Hb].
    apply FT.Proofs.AnnotatorsIous.overlap_In_frames in Hx. destruct Hx as [Hx1 Hx2].
    apply masked_values in Hx1, Hx2. destruct Hx1, Hx2; try congruence. }
  destruct (NoDup_all_eq (u, v) _ (FT.Proofs.AnnotatorsIous.unique_cols_NoDup ov) Hall) as [E|E];
    unfold L, FT.Proofs.AnnotatorsIous.compute_ious_sorted; fold m1 m2 ov; rewrite E; cbn [map].
  - split; [reflexivity|discriminate].
  - split; [|reflexivity]. unfold ious_find. cbn [find fst iou_entry hd snd py_len length]. unfold FT.Proofs.AnnotatorsIous.iou_entry. cbn [fst snd].
    rewrite pair_eqb_refl. reflexivity.
Qed.

(* ================================================================== *)
(* 3. EdgeAnnotator.update  (incremental IoU; priority 1)              *)
(* ================================================================== *)
Lemma has_node_sea st u v k x n : has_node (set_edge_attr st u v k x) n = has_node st n.
Proof. unfold has_node. now rewrite sea_nodes. Qed.
Lemma time_of_sea st u v k x n : time_of (set_edge_attr st u v k x) n = time_of st n.
Proof. unfold time_of, zattr, attr, node_attrs. now rewrite sea_nodes. Qed.

(* an edge the per-edge loop can process: both ends are nodes with positive ids, the edge exists *)
Definition edge_ready (s : state) (e : Z * Z) : Prop :=
  has_node s (fst e) = true /\ has_node s (snd e) = true /\ has_edge s (fst e) (snd e) = true /\ 0 < fst e /\ 0 < snd e.
Lemma edge_ready_sea s u v k x e : edge_ready s e -> edge_ready (set_edge_attr s u v k x) e.
Proof. unfold edge_ready. now rewrite !has_node_sea, sea_has_edge. Qed.

(* the body of `for edge in edges_to_update:` as the translator emits it *)
Definition upd_body (v_edge : Z * Z) (_ : unit) (s : state) : res unit :=
  let '(v_source, v_target) := v_edge in
  do v_start_time, s <- py_get_time s v_source;
  do v_end_time, s <- py_get_time s v_target;
  do v_start_seg, s <- py_arr_getitem (seg s) v_start_time s;
  do v_end_seg, s <- py_arr_getitem (seg s) v_end_time s;
  let v_masked_start := np_where (np_eq_mask v_start_seg v_source) v_source 0 in
  let v_masked_end := np_where (np_eq_mask v_end_seg v_target) v_target 0 in
  if (np_max v_masked_start =? 0) || (np_max v_masked_end =? 0)
  then
    do _u, s <- py_set_edge_attr s v_edge KIou (val_of_frac (frac_of_int 0));
    Ok tt s
  else
    do v_iou_list, s <- lift_exn (AG.Ious.gen__compute_ious v_masked_start v_masked_end) s;
    do v_iou, s <- (
      if py_len v_iou_list =? 0
      then
        Ok (frac_of_int 0) s
      else
        do t4, s <- py_list_get v_iou_list 0 s;
        Ok (snd t4) s);
    do _u, s <- py_set_edge_attr s v_edge KIou (val_of_frac v_iou);
    Ok tt s.

Lemma frame_iou_nil_l f1 f2 u v : positions_from 0 f1 u = [] -> frame_iou f1 f2 u v = VIou 0 1.
Proof.
  intros E. unfold frame_iou. cbv zeta. rewrite <- (inter_count_pcount f1 f2 0), E. reflexivity.
Qed.
Lemma frame_iou_nil_r f1 f2 u v : positions_from 0 f2 v = [] -> frame_iou f1 f2 u v = VIou 0 1.
Proof.
  intros E. unfold frame_iou. cbv zeta. rewrite <- (inter_count_pcount f1 f2 0), E. unfold inter_count.
  now rewrite filter_memz_nil'.
Qed.

Lemma upd_body_eq s sg e : seg s = Some sg -> edge_ready s e ->
  upd_body e tt s = Ok tt (set_edge_attr s (fst e) (snd e) KIou (iou_of s sg (fst e) (snd e))).
Proof.
  intros Hs (Hu & Hv & He & Pu & Pv). destruct e as [u v]. cbn [fst snd] in *. unfold upd_body.
  unfold py_get_time. rewrite Hu. cbn [bind]. rewrite Hv. cbn [bind]. do 2 (rewrite Hs; cbn [py_arr_getitem bind]).
  rewrite iou_of_frames. set (f1 := frame_of sg (time_of s u)). set (f2 := frame_of sg (time_of s v)).
  fold (masked f1 u). fold (masked f2 v). rewrite !np_max_masked by assumption.
  unfold py_set_edge_attr. cbn [fst snd]. rewrite He.
  destruct (positions_from 0 f1 u) as [|p1 r1] eqn:E1.
  { cbn [orb bind]. rewrite frame_iou_nil_l by exact E1. reflexivity. }
  destruct (positions_from 0 f2 v) as [|p2 r2] eqn:E2.
  { cbn [orb bind]. rewrite frame_iou_nil_r by exact E2. reflexivity. }
  cbn [orb]. rewrite IousTie.gen__compute_ious_eq. cbn [lift_exn bind]. unfold FT.Model.PyRt5.frac in *.
  destruct (masked_ious_value f1 f2 u v ltac:(lia) ltac:(lia)) as [Hval Hget]. cbv zeta in Hval, Hget.
  set (L := ious_of (masked f1 u) (masked f2 v)) in *.
  destruct (py_len L =? 0) eqn:El.
  - cbn [bind]. rewrite He. cbn [bind]. rewrite <- Hval. reflexivity.
  - unfold py_list_get. rewrite (Hget eq_refl). cbn [lift_exn bind]. rewrite He. cbn [bind]. rewrite <- Hval. reflexivity.
Qed.

Lemma upd_loop_eq sg : forall es s, seg s = Some sg -> (forall e, In e es -> edge_ready s e) ->
  py_for es tt s upd_body
  = Ok tt (fold_left (fun s e => set_edge_attr s (fst e) (snd e) KIou (iou_of s sg (fst e) (snd e))) es s).
Proof.
  induction es as [|e es IH]; intros s Hs Hr; [reflexivity|]. cbn [py_for fold_left].
  rewrite (upd_body_eq s sg e Hs (Hr e (or_introl eq_refl))). cbn [bind].
  apply IH; [now rewrite sea_seg|]. intros e' He'. apply edge_ready_sea. apply Hr. now right.
Qed.

(* the hypotheses: both are consequences of WF on a state with a segmentation *)
Definition ids_positive (s : state) : Prop := forall n, has_node s n = true -> 0 < n.
Definition edges_closed (s : state) : Prop := forall u v, has_edge s u v = true -> has_node s u = true /\ has_node s v = true.

Lemma predecessors_spec s n p : In p (predecessors s n) <-> has_node s p = true /\ has_edge s p n = true.
Proof. unfold predecessors. rewrite filter_In. unfold has_node. rewrite haskey_keys. tauto. Qed.
Lemma successors_spec s n c : In c (successors s n) <-> has_edge s n c = true.
Proof. unfold successors, has_edge. symmetry. apply haskey_keys. Qed.

Lemma features_edge_iou s : (iou_act (ft s) = true -> iou_avail (ft s) = true) ->
  haskey KIou (gen_GraphAnnotator_features s AEdge) = iou_act (ft s).
Proof.
  intros H. rewrite gen_GraphAnnotator_features_eq. cbn [active_b]. rewrite Z.eqb_refl.
  destruct (iou_act (ft s)); [now rewrite H|now rewrite !andb_false_r].
Qed.

(* TIE (priority 1): EdgeAnnotator.update is the hand model py_edge_update (Model/PyRt3.v), i.e. iou_update_edges /
   iou_of of Model/Edit.v on the added edge or on the edges incident to the node whose mask changed *)
Theorem gen_EdgeAnnotator_update_eq : forall s b,
  (iou_act (ft s) = true -> iou_avail (ft s) = true) ->
  (seg s <> None -> ids_positive s /\ edges_closed s) ->
  (forall u v a, b = BAddEdge u v a -> has_edge s u v = true) ->
  AG.gen_EdgeAnnotator_update s b = py_edge_update s b.
Proof.
  intros s b Hav Hwf Hadd. unfold AG.gen_EdgeAnnotator_update. rewrite (features_edge_iou s Hav).
  change (fun (v_edge : Z * Z) (_ : unit) (s0 : state) => _) with upd_body.
  destruct b as [n a px|n sv px|u v a|u v sv|n pv nw|n px ad|st o nt ol nl]; cbn [py_isinstance class_of existsb acls_eqb orb negb];
    try reflexivity.
  - (* AddEdge *)
    cbn [py_edge_update]. unfold iou_update_edges. destruct (seg s) as [sg|] eqn:Hs; cbn [py_is_some negb]; [|reflexivity].
    destruct (iou_act (ft s)) eqn:Hact; cbn [negb]; [|reflexivity].
    cbn [py_action_edge bind]. destruct (Hwf ltac:(discriminate)) as [Hpos Hcl].
    pose proof (Hadd u v a eq_refl) as He. destruct (Hcl u v He) as [Hu Hv].
    rewrite (upd_loop_eq sg [(u, v)] s Hs).
    + cbn [bind]. reflexivity.
    + intros e [<-|[]]. unfold edge_ready. cbn [fst snd]. repeat split; auto.
  - (* UpdateNodeSeg *)
    cbn [py_edge_update]. destruct (seg s) as [sg|] eqn:Hs; cbn [py_is_some negb]; [|reflexivity].
    destruct (iou_act (ft s)) eqn:Hact; cbn [negb]; [|reflexivity].
    cbn [py_action_node bind]. unfold nx_in_edges, nx_out_edges. destruct (has_node s n) eqn:Hn; [|reflexivity].
    cbn [bind]. rewrite Hn. cbn [bind]. destruct (Hwf ltac:(discriminate)) as [Hpos Hcl].
    rewrite (upd_loop_eq sg _ s Hs).
    + cbn [bind]. unfold iou_update_edges. rewrite Hs, Hact. reflexivity.
    + intros e He. apply in_app_iff in He. destruct He as [He|He]; apply in_map_iff in He; destruct He as (x & <- & Hx).
      * apply predecessors_spec in Hx. destruct Hx as [Hp Hpe]. unfold edge_ready. cbn [fst snd]. repeat split; auto.
      * apply successors_spec in Hx. destruct (Hcl n x Hx) as [_ Hc]. unfold edge_ready. cbn [fst snd]. repeat split; auto.
Qed.

(* ================================================================== *)
(* 4. lists of IoU writes: the order does not matter                   *)
(* ================================================================== *)
Section DictComm.
Context {V : Type}.
Lemma set_comm k1 k2 (a b : V) : k1 <> k2 -> forall d, haskey k1 d = true \/ haskey k2 d = true ->
  set k1 a (set k2 b d) = set k2 b (set k1 a d).
Proof.
  intros N. induction d as [|[k v] r IH]; intros H.
  - destruct H as [H|H]; discriminate.
  - cbn [set]. destruct (Z.eqb_spec k2 k) as [E2|N2], (Z.eqb_spec k1 k) as [E1|N1]; try congruence; cbn [set].
    + subst k. rewrite Z.eqb_refl. destruct (Z.eqb_spec k1 k2); [congruence|]. reflexivity.
    + subst k. rewrite Z.eqb_refl. destruct (Z.eqb_spec k2 k1); [congruence|]. reflexivity.
    + destruct (Z.eqb_spec k1 k); [congruence|]. destruct (Z.eqb_spec k2 k); [congruence|]. f_equal. apply IH.
      unfold haskey in *. cbn [lookup] in H. destruct (Z.eqb_spec k1 k); [congruence|]. destruct (Z.eqb_spec k2 k); [congruence|]. exact H.
Qed.
Lemma set_set_same k (a b : V) d : set k a (set k b d) = set k a d.
Proof.
  induction d as [|[k' v] r IH]; cbn [set]; [now rewrite Z.eqb_refl|].
  destruct (Z.eqb_spec k k') as [->|N]; cbn [set]; [now rewrite Z.eqb_refl|].
  destruct (Z.eqb_spec k k'); [congruence|]. now rewrite IH.
Qed.
End DictComm.

Lemma has_edge_haskey_succs s u v : has_edge s u v = true -> haskey u (succs (g s)) = true.
Proof.
  unfold has_edge, adj, getd, haskey. destruct (lookup u (succs (g s))); [reflexivity|discriminate].
Qed.

Lemma upd_g_upd_g s G1 G2 : upd_g (upd_g s G1) G2 = upd_g s G2.
Proof. reflexivity. Qed.

(* two writes to different edges commute *)
Lemma sea_comm s u1 v1 u2 v2 k x y : (u1, v1) <> (u2, v2) ->
  set_edge_attr (set_edge_attr s u1 v1 k x) u2 v2 k y = set_edge_attr (set_edge_attr s u2 v2 k y) u1 v1 k x.
Proof.
  intros N. destruct (has_edge s u1 v1) eqn:E1.
  2:{ rewrite (sea_noedge s u1 v1) by exact E1. rewrite (sea_noedge (set_edge_attr s u2 v2 k y)); [reflexivity|now rewrite sea_has_edge]. }
  destruct (has_edge s u2 v2) eqn:E2.
  2:{ rewrite (sea_noedge s u2 v2) by exact E2. rewrite (sea_noedge (set_edge_attr s u1 v1 k x)); [reflexivity|now rewrite sea_has_edge]. }
  destruct (FT.Proofs.EditFresh.sea_spec s u1 v1 k x E1) as [_ A1]. destruct (FT.Proofs.EditFresh.sea_spec s u2 v2 k y E2) as [_ A2]. cbv zeta in A1, A2.
  assert (F1 : edge_attrs (set_edge_attr s u1 v1 k x) u2 v2 = edge_attrs s u2 v2).
  { rewrite A1. destruct (Z.eqb_spec u2 u1) as [->|]; [|reflexivity]. destruct (Z.eqb_spec v2 v1) as [->|]; [congruence|reflexivity]. }
  assert (F2 : edge_attrs (set_edge_attr s u2 v2 k y) u1 v1 = edge_attrs s u1 v1).
  { rewrite A2. destruct (Z.eqb_spec u1 u2) as [->|]; [|reflexivity]. destruct (Z.eqb_spec v1 v2) as [->|]; [congruence|reflexivity]. }
  unfold set_edge_attr at 1 3. rewrite !sea_has_edge, E1, E2, F1, F2.
  unfold set_edge_attr. rewrite E1, E2. rewrite !upd_g_upd_g. f_equal. cbn [g nodes succs upd_g]. f_equal.
  unfold adj. cbn [g succs upd_g].
  destruct (Z.eq_dec u1 u2) as [->|Nu].
  - rewrite !getd_set_eq, !set_set_same. f_equal. fold (adj s u2). apply set_comm; [congruence|]. left. exact E2.
  - rewrite !getd_set_neq by congruence. fold (adj s u1) (adj s u2). apply set_comm; [congruence|].
    left. now apply has_edge_haskey_succs with (v := v2).
Qed.

(* a write is (edge, value); [writes] performs them left to right *)
Definition wr := ((Z * Z) * value)%type.
Definition writes (W : list wr) (s : state) : state :=
  fold_left (fun s (w : wr) => set_edge_attr s (fst (fst w)) (snd (fst w)) KIou (snd w)) W s.
Lemma writes_app W1 W2 s : writes (W1 ++ W2) s = writes W2 (writes W1 s).
Proof. unfold writes. apply fold_left_app. Qed.
Lemma writes_cons w W s : writes (w :: W) s = writes W (set_edge_attr s (fst (fst w)) (snd (fst w)) KIou (snd w)).
Proof. reflexivity. Qed.

Lemma writes_perm W1 W2 : Permutation W1 W2 -> NoDup (map fst W1) -> forall s, writes W1 s = writes W2 s.
Proof.
  induction 1 as [|w W1 W2 HP IH|w1 w2 W|W1 W2 W3 HP1 IH1 HP2 IH2]; intros Hnd s.
  - reflexivity.
  - rewrite !writes_cons. apply IH. now inversion Hnd.
  - rewrite !writes_cons. f_equal. destruct w1 as [[u1 v1] x], w2 as [[u2 v2] y]. cbn [fst snd] in *.
    apply sea_comm. inversion Hnd as [|? ? Hni _]. intros E. apply Hni. left. now symmetry.
  - rewrite IH1 by exact Hnd. apply IH2. eapply Permutation_NoDup; [|exact Hnd]. now apply Permutation_map.
Qed.

(* frame conditions *)
Lemma writes_nodes W : forall s, nodes (g (writes W s)) = nodes (g s).
Proof. induction W as [|w W IH]; intros s; [reflexivity|]. rewrite writes_cons, IH. apply sea_nodes. Qed.
Lemma writes_seg W : forall s, seg (writes W s) = seg s.
Proof. induction W as [|w W IH]; intros s; [reflexivity|]. rewrite writes_cons, IH. apply sea_seg. Qed.
Lemma writes_has_edge W : forall s a b, has_edge (writes W s) a b = has_edge s a b.
Proof. induction W as [|w W IH]; intros s a b; [reflexivity|]. rewrite writes_cons, IH. apply sea_has_edge. Qed.
Lemma writes_successors W : forall s a, successors (writes W s) a = successors s a.
Proof. induction W as [|w W IH]; intros s a; [reflexivity|]. rewrite writes_cons, IH. apply sea_successors. Qed.
Lemma writes_has_node W s n : has_node (writes W s) n = has_node s n.
Proof. unfold has_node. now rewrite writes_nodes. Qed.
Lemma writes_time_of W s n : time_of (writes W s) n = time_of s n.
Proof. unfold time_of, zattr, attr, node_attrs. now rewrite writes_nodes. Qed.

(* writes whose value is a function of the edge: only the SET of edges matters *)
Definition wr_of (val : Z * Z -> value) (e : Z * Z) : wr := (e, val e).
Lemma writes_fun_perm val E1 E2 s : NoDup E1 -> NoDup E2 -> (forall e, In e E1 <-> In e E2) ->
  writes (map (wr_of val) E1) s = writes (map (wr_of val) E2) s.
Proof.
  intros N1 N2 H. apply writes_perm.
  - apply Permutation_map. now apply NoDup_Permutation.
  - rewrite map_map. cbn [wr_of fst]. now rewrite map_id.
Qed.

(* ================================================================== *)
(* 5. EdgeAnnotator._iou_update  (one pair of frames)                  *)
(* ================================================================== *)
Lemma mem_pair_In e l : mem_pair e l = true <-> In e l.
Proof.
  unfold mem_pair. rewrite existsb_exists. split.
  - intros (x & Hx & E). apply pair_eqb_eq in E. now subst.
  - intros H. exists e. split; [exact H|apply pair_eqb_refl].
Qed.
Lemma mem_pair_false e l : mem_pair e l = false <-> ~ In e l.
Proof. rewrite <- mem_pair_In. destruct (mem_pair e l); split; congruence. Qed.
Lemma remove1_pair_filter k l : NoDup l -> remove1_pair k l = filter (fun e => negb (pair_eqb e k)) l.
Proof.
  induction l as [|y r IH]; intros Hn; [reflexivity|]. inversion Hn as [|? ? Hni Hr]; subst. cbn [remove1_pair filter].
  destruct (pair_eqb k y) eqn:E.
  - apply pair_eqb_eq in E. subst y. rewrite pair_eqb_refl. cbn [negb]. symmetry. apply filter_true.
    intros x Hx. apply negb_true_iff, pair_eqb_neq. intros ->. contradiction.
  - replace (pair_eqb y k) with false; [cbn [negb]; now rewrite IH|].
    symmetry. apply pair_eqb_neq. intros ->. rewrite pair_eqb_refl in E. discriminate.
Qed.

(* the first loop of _iou_update, as the translator emits it *)
Definition iou_body1 : (Z * Z) * (Z * Z) -> list (Z * Z) -> state -> res (list (Z * Z)) :=
  fun '(v_id1, v_id2, v_iou) (v_edges : list (Z * Z)) (s : state) =>
  let v_edge := (v_id1, v_id2) in
  if mem_pair v_edge v_edges
  then
    do _u, s <- py_set_edge_attr s v_edge KIou (val_of_frac v_iou);
    do v_edges, s <- py_pairs_remove v_edges v_edge s;
    Ok v_edges s
  else
    Ok v_edges s.

Definition W1 (L : list ((Z * Z) * (Z * Z))) (edges : list (Z * Z)) : list wr :=
  map (fun x => (fst x, val_of_frac (snd x))) (filter (fun x => mem_pair (fst x) edges) L).

Lemma iou_loop1 : forall L edges s, NoDup (map fst L) -> NoDup edges ->
  (forall e, In e edges -> has_edge s (fst e) (snd e) = true) ->
  py_for L edges s iou_body1
  = Ok (filter (fun e => negb (mem_pair e (map fst L))) edges) (writes (W1 L edges) s).
Proof.
  induction L as [|[[a b] q] L IH]; intros edges s HL He Hex.
  - cbn [py_for map W1 filter writes fold_left]. f_equal. symmetry. apply filter_true. reflexivity.
  - inversion HL as [|? ? Hni HL']; subst. cbn [py_for iou_body1]. unfold W1. cbn [filter fst].
    destruct (mem_pair (a, b) edges) eqn:Em.
    + pose proof (proj1 (mem_pair_In _ _) Em) as Hin. unfold py_set_edge_attr. rewrite (Hex _ Hin). cbn [bind fst snd].
      unfold py_pairs_remove. rewrite Em. cbn [bind].
      rewrite IH; [|exact HL'|rewrite remove1_pair_filter by exact He; now apply NoDup_filter|].
      2:{ intros e Hr. rewrite sea_has_edge. apply Hex. rewrite remove1_pair_filter in Hr by exact He. apply filter_In in Hr. tauto. }
      f_equal.
      * rewrite remove1_pair_filter by exact He. rewrite filter_filter. apply filter_ext. intros e. cbn [map mem_pair existsb fst].
        fold (mem_pair e (map fst L)). rewrite negb_orb. reflexivity.
      * unfold W1. cbn [map fst snd]. rewrite writes_cons. cbn [fst snd]. f_equal. f_equal. apply filter_ext_in. intros [k q'] Hk. cbn [fst].
        rewrite remove1_pair_filter by exact He.
        assert (Nk : k <> (a, b)) by (intros ->; apply Hni; apply in_map_iff; exists ((a, b), q'); auto).
        destruct (mem_pair k edges) eqn:E1.
        -- apply mem_pair_In. apply filter_In. split; [now apply mem_pair_In|]. now rewrite pair_eqb_neq.
        -- apply mem_pair_false. intros C. apply filter_In in C. apply mem_pair_false in E1. tauto.
    + cbn [bind]. rewrite IH by assumption. f_equal. apply filter_ext_in. intros e Hin. cbn [map mem_pair existsb fst].
      fold (mem_pair e (map fst L)). replace (pair_eqb e (a, b)) with false; [reflexivity|].
      symmetry. apply pair_eqb_neq. intros ->. apply mem_pair_false in Em. contradiction.
Qed.

Lemma iou_loop2 : forall edges s, (forall e, In e edges -> has_edge s (fst e) (snd e) = true) ->
  py_for edges tt s (fun v_edge (_ : unit) s =>
    do _u, s <- py_set_edge_attr s v_edge KIou (val_of_frac (frac_of_int 0)); Ok tt s)
  = Ok tt (writes (map (fun e => (e, VIou 0 1)) edges) s).
Proof.
  induction edges as [|e r IH]; intros s Hex; [reflexivity|]. cbn [py_for]. unfold py_set_edge_attr at 1.
  rewrite (Hex e (or_introl eq_refl)). cbn [bind]. rewrite IH; [reflexivity|].
  intros e' He'. rewrite sea_has_edge. apply Hex. now right.
Qed.

(* the value _iou_update leaves on edge e: the entry of the list, or 0 *)
Definition iou_entry_val (L : list ((Z * Z) * (Z * Z))) (e : Z * Z) : value := entry_value (ious_find L e).

Lemma ious_find_Some L e q : NoDup (map fst L) -> In (e, q) L -> ious_find L e = Some q.
Proof.
  unfold ious_find. induction L as [|[k q'] L IH]; intros Hn Hin; [destruct Hin|]. inversion Hn as [|? ? Hni Hn']; subst.
  cbn [find fst]. destruct Hin as [E|Hin].
  - injection E as -> ->. now rewrite pair_eqb_refl.
  - rewrite pair_eqb_neq; [now apply IH|]. intros ->. apply Hni. apply in_map_iff. exists (e, q). auto.
Qed.
Lemma ious_find_None L e : ~ In e (map fst L) -> ious_find L e = None.
Proof.
  unfold ious_find. induction L as [|[k q'] L IH]; intros Hn; [reflexivity|]. cbn [find fst map In] in *.
  rewrite pair_eqb_neq; [apply IH; tauto|]. intros ->. apply Hn. now left.
Qed.

Lemma NoDup_app_gen {A} (l1 l2 : list A) : NoDup l1 -> NoDup l2 -> (forall x, In x l1 -> In x l2 -> False) -> NoDup (l1 ++ l2).
Proof.
  induction l1 as [|a l1 IH]; intros H1 H2 Hd; [exact H2|]. inversion H1 as [|? ? Hni H1']; subst. cbn [app]. constructor.
  - rewrite in_app_iff. intros [C|C]; [contradiction|]. apply (Hd a); [now left|exact C].
  - apply IH; [exact H1'|exact H2|]. intros x Hx. apply Hd. now right.
Qed.
Lemma NoDup_map_fst_filter {A B} (P : A * B -> bool) (l : list (A * B)) : NoDup (map fst l) -> NoDup (map fst (filter P l)).
Proof.
  induction l as [|y l IHl]; intros Hn; [constructor|]. inversion Hn as [|? ? Hni Hn']; subst. cbn [filter].
  destruct (P y); [cbn [map]; constructor; [|now apply IHl]|now apply IHl].
  intros C. apply Hni. apply in_map_iff in C. destruct C as (z & Ez & Hz). apply filter_In in Hz. apply in_map_iff. exists z. tauto.
Qed.

Theorem iou_update_spec : forall s edges f1 f2, NoDup edges ->
  (forall e, In e edges -> has_edge s (fst e) (snd e) = true) ->
  AG.gen_EdgeAnnotator__iou_update s edges f1 f2
  = Ok tt (writes (map (wr_of (iou_entry_val (ious_of f1 f2))) edges) s).
Proof.
  intros s edges f1 f2 He Hex. unfold AG.gen_EdgeAnnotator__iou_update.
  rewrite IousTie.gen__compute_ious_eq. cbn [lift_exn bind]. set (L := ious_of f1 f2).
  assert (HL : NoDup (map fst L)) by apply FT.Proofs.AnnotatorsIous.compute_ious_sorted_keys.
  match goal with |- context [py_for L edges s ?f] => change (py_for L edges s f) with (@py_for ((Z * Z) * (Z * Z)) (list (Z * Z)) L edges s iou_body1) end.
  rewrite (iou_loop1 L edges s HL He Hex). cbn [bind].
  set (rest := filter (fun e => negb (mem_pair e (map fst L))) edges).
  rewrite iou_loop2.
  2:{ intros e Hr. rewrite writes_has_edge. apply Hex. apply filter_In in Hr. tauto. }
  cbn [bind]. f_equal. rewrite <- writes_app.
  assert (HK : NoDup (map fst (W1 L edges ++ map (fun e : Z * Z => (e, VIou 0 1)) rest))).
  { rewrite map_app. apply NoDup_app_gen.
    - unfold W1. rewrite map_map. cbn [fst]. apply NoDup_map_fst_filter. exact HL.
    - rewrite map_map. cbn [fst]. rewrite map_id. now apply NoDup_filter.
    - intros k H1 H2. unfold W1 in H1. rewrite map_map in H1. cbn [fst] in H1. apply in_map_iff in H1. destruct H1 as (z & <- & Hz).
      apply filter_In in Hz. rewrite map_map in H2. cbn [fst] in H2. rewrite map_id in H2. apply filter_In in H2.
      destruct H2 as [_ H2]. apply negb_true_iff, mem_pair_false in H2. apply H2. apply in_map_iff. exists z. tauto. }
  apply writes_perm; [|exact HK].
  apply NoDup_Permutation.
  - eapply NoDup_map_inv. exact HK.
  - apply (NoDup_map_inv fst). rewrite map_map. cbn [wr_of fst]. now rewrite map_id.
  - intros w. rewrite in_app_iff. split.
    + intros [H|H].
      * unfold W1 in H. apply in_map_iff in H. destruct H as ([k q] & <- & Hx). apply filter_In in Hx. destruct Hx as [Hx Hm].
        cbn [fst snd] in *. apply in_map_iff. exists k. split; [|now apply mem_pair_In].
        unfold wr_of, iou_entry_val. now rewrite (ious_find_Some L k q HL Hx).
      * apply in_map_iff in H. destruct H as (e & <- & Hr). apply filter_In in Hr. destruct Hr as [Hin Hn].
        apply negb_true_iff, mem_pair_false in Hn. apply in_map_iff. exists e. split; [|exact Hin].
        unfold wr_of, iou_entry_val. now rewrite (ious_find_None L e Hn).
    + intros H. apply in_map_iff in H. destruct H as (e & <- & Hin). unfold wr_of, iou_entry_val.
      destruct (mem_pair e (map fst L)) eqn:Em.
      * left. apply mem_pair_In in Em. apply in_map_iff in Em. destruct Em as ([k q] & Ek & Hx). cbn [fst] in Ek. subst k.
        rewrite (ious_find_Some L e q HL Hx). unfold W1. apply in_map_iff. exists (e, q). split; [reflexivity|].
        apply filter_In. split; [exact Hx|]. now apply mem_pair_In.
      * right. pose proof (proj1 (mem_pair_false _ _) Em) as Hn. rewrite (ious_find_None L e Hn). apply in_map_iff. exists e. split; [reflexivity|].
        apply filter_In. split; [exact Hin|]. now rewrite Em.
Qed.

(* ================================================================== *)
(* 6. loops, group-by with defaultdict(list), out_edges of a node list *)
(* ================================================================== *)
(* a loop whose body cannot raise and leaves the state alone is a fold *)
Lemma py_for_pure {A B} (f : A -> B -> B) (body : A -> B -> state -> res B) s : forall l,
  (forall x b, In x l -> body x b s = Ok (f x b) s) ->
  forall b, py_for l b s body = Ok (fold_left (fun b x => f x b) l b) s.
Proof.
  induction l as [|x l IH]; intros H b; [reflexivity|]. cbn [py_for fold_left]. rewrite (H x b (or_introl eq_refl)). cbn [bind].
  apply IH. intros y b' Hy. apply H. now right.
Qed.

Definition groupby {A} (key : A -> Z) (l : list A) (d : dict (list A)) : dict (list A) :=
  fold_left (fun d x => dd_append (key x) x d) l d.

Lemma dd_read_append {A} k (x : A) d t : dd_read t (dd_append k x d) = if t =? k then dd_read k d ++ [x] else dd_read t d.
Proof.
  unfold dd_read, dd_append. destruct (Z.eqb_spec t k) as [->|N]; [apply getd_set_eq|now apply getd_set_neq].
Qed.
Lemma groupby_read_In {A} (key : A -> Z) t x : forall l d,
  In x (dd_read t (groupby key l d)) <-> In x (dd_read t d) \/ (In x l /\ key x = t).
Proof.
  unfold groupby. induction l as [|y l IH]; intros d; cbn [fold_left In]; [tauto|].
  rewrite IH, dd_read_append. destruct (Z.eqb_spec t (key y)) as [->|N].
  - rewrite in_app_iff. cbn [In]. intuition (subst; auto).
  - intuition (subst; auto; congruence).
Qed.
Lemma dd_read_touch {A} t t' (d : dict (list A)) : dd_read t (dd_touch t' d) = dd_read t d.
Proof.
  unfold dd_touch, dd_read. destruct (haskey t' d) eqn:E; [reflexivity|].
  destruct (Z.eqb_spec t t') as [->|N]; [|now apply getd_set_neq].
  rewrite getd_set_eq. unfold getd, haskey in *. destruct (lookup t' d); [discriminate|reflexivity].
Qed.

(* the groups of a group-by: a rearrangement of the list; each element sits in the group of its key *)
Lemma concat_append_perm {A} k (x : A) : forall d,
  Permutation (concat (map snd (dd_append k x d))) (x :: concat (map snd d)).
Proof.
  unfold dd_append. induction d as [|[k' gr] r IH].
  - cbn. apply Permutation_refl.
  - unfold getd. cbn [lookup set]. destruct (Z.eqb_spec k k') as [->|N].
    + cbn [map snd concat]. rewrite <- app_assoc. cbn [app]. apply Permutation_sym, Permutation_middle.
    + cbn [map snd concat]. unfold getd in IH. eapply Permutation_trans; [apply Permutation_app_head; exact IH|].
      apply Permutation_sym, Permutation_middle.
Qed.
Lemma groupby_perm {A} (key : A -> Z) : forall l d,
  Permutation (concat (map snd (groupby key l d))) (concat (map snd d) ++ l).
Proof.
  unfold groupby. induction l as [|y l IH]; intros d; cbn [fold_left]; [now rewrite app_nil_r|].
  eapply Permutation_trans; [apply IH|]. eapply Permutation_trans; [apply Permutation_app_tail, concat_append_perm|].
  cbn [app]. apply Permutation_middle.
Qed.
Lemma in_set_entry {V} k (v : V) k' v' : forall d, In (k', v') (set k v d) -> (k' = k /\ v' = v) \/ In (k', v') d.
Proof.
  induction d as [|[k0 v0] r IH]; cbn [set In].
  - intros [E|[]]. injection E as <- <-. now left.
  - destruct (k =? k0); cbn [In]; intros [E|H]; auto.
    + injection E as <- <-. now left.
    + destruct (IH H) as [?|?]; auto.
Qed.
Lemma groupby_keys {A} (key : A -> Z) : forall l d,
  (forall k gr, In (k, gr) d -> forall x, In x gr -> key x = k) ->
  forall k gr, In (k, gr) (groupby key l d) -> forall x, In x gr -> key x = k.
Proof.
  unfold groupby. induction l as [|y l IH]; intros d Hd; [exact Hd|]. cbn [fold_left]. apply IH.
  intros k gr Hin x Hx. unfold dd_append in Hin. apply in_set_entry in Hin. destruct Hin as [[-> ->]|Hin]; [|eapply Hd; eauto].
  apply in_app_iff in Hx. destruct Hx as [Hx|[<-|[]]]; [|reflexivity].
  unfold getd in Hx. destruct (lookup (key y) d) as [g0|] eqn:E; [|destruct Hx]. apply lookup_In in E. eapply Hd; eauto.
Qed.
Lemma NoDup_app_inv {A} (l1 l2 : list A) : NoDup (l1 ++ l2) -> NoDup l1 /\ NoDup l2.
Proof.
  induction l1 as [|a l1 IH]; cbn [app]; intros H; [split; [constructor|exact H]|].
  inversion H as [|? ? Hni H']; subst. destruct (IH H') as [H1 H2]. split; [|exact H2].
  constructor; [|exact H1]. intros C. apply Hni. apply in_app_iff. now left.
Qed.
Lemma NoDup_concat_in {A} (L : list (list A)) gr : NoDup (concat L) -> In gr L -> NoDup gr.
Proof.
  induction L as [|h L IH]; intros Hn Hin; [destruct Hin|]. cbn [concat] in Hn. apply NoDup_app_inv in Hn. destruct Hn as [H1 H2].
  destruct Hin as [<-|Hin]; [exact H1|now apply IH].
Qed.

(* graph.out_edges(l) *)
Lemma dedup_first_spec (l : list Z) : NoDup (dedup_first l) /\ forall x, In x (dedup_first l) <-> In x l.
Proof.
  unfold dedup_first.
  assert (G : forall l acc, NoDup acc ->
    NoDup (fold_left (fun acc x => if memz x acc then acc else acc ++ [x]) l acc) /\
    forall x, In x (fold_left (fun acc x => if memz x acc then acc else acc ++ [x]) l acc) <-> In x acc \/ In x l).
  { clear l. induction l as [|y l IH]; intros acc Hn; cbn [fold_left In]; [split; [exact Hn|tauto]|].
    destruct (memz y acc) eqn:E.
    - destruct (IH acc Hn) as [H1 H2]. split; [exact H1|]. intros x. rewrite H2. apply memz_In in E. split; [tauto|]. intros [H|[->|H]]; auto.
    - apply memz_false in E. destruct (IH (acc ++ [y]) (NoDup_snoc acc y Hn E)) as [H1 H2]. split; [exact H1|].
      intros x. rewrite H2, in_app_iff. cbn [In]. tauto. }
  destruct (G l [] (NoDup_nil Z)) as [H1 H2]. split; [exact H1|]. intros x. rewrite H2. cbn [In]. tauto.
Qed.

Lemma NoDup_flat_map {A B} (f : A -> list B) : forall l, NoDup l -> (forall x, In x l -> NoDup (f x)) ->
  (forall x y b, In x l -> In y l -> In b (f x) -> In b (f y) -> x = y) -> NoDup (flat_map f l).
Proof.
  induction l as [|a l IH]; intros Hn Hf Hinj; [constructor|]. inversion Hn as [|? ? Hni Hn']; subst. cbn [flat_map].
  apply NoDup_app_gen.
  - apply Hf. now left.
  - apply IH; [exact Hn'|intros x Hx; apply Hf; now right|]. intros x y b Hx Hy. apply Hinj; now right.
  - intros b Hb Hb'. apply in_flat_map in Hb'. destruct Hb' as (y & Hy & Hby).
    assert (a = y) by (apply (Hinj a y b); [now left|now right|exact Hb|exact Hby]). subst. contradiction.
Qed.

Lemma out_edges_bunch_In s l u c :
  In (u, c) (nx_out_edges_bunch s l) <-> In u l /\ has_node s u = true /\ In c (successors s u).
Proof.
  unfold nx_out_edges_bunch. rewrite in_flat_map. destruct (dedup_first_spec (filter (has_node s) l)) as [_ Hd]. split.
  - intros (x & Hx & Hin). apply in_map_iff in Hin. destruct Hin as (c' & E & Hc). injection E as -> ->.
    apply Hd, filter_In in Hx. tauto.
  - intros (H1 & H2 & H3). exists u. split; [apply Hd, filter_In; tauto|]. apply in_map_iff. exists c. tauto.
Qed.
Lemma out_edges_bunch_NoDup s l : (forall u, NoDup (successors s u)) -> NoDup (nx_out_edges_bunch s l).
Proof.
  intros Hs. unfold nx_out_edges_bunch. destruct (dedup_first_spec (filter (has_node s) l)) as [Hn _].
  apply NoDup_flat_map; [exact Hn| |].
  - intros u _. apply FinFun.Injective_map_NoDup; [|apply Hs]. intros a b E. now injection E.
  - intros x y [a b] _ _ H1 H2. apply in_map_iff in H1, H2. destruct H1 as (? & E1 & _), H2 as (? & E2 & _). congruence.
Qed.

(* ================================================================== *)
(* 7. EdgeAnnotator.compute  (bulk IoU; priority 2)                    *)
(* ================================================================== *)
Lemma py_range_In n t : In t (py_range n) <-> 0 <= t < n.
Proof.
  unfold py_range. rewrite in_map_iff. split.
  - intros (i & <- & Hi). apply in_seq in Hi. lia.
  - intros H. exists (Z.to_nat t). split; [lia|]. apply in_seq. lia.
Qed.
Lemma py_range_NoDup n : NoDup (py_range n).
Proof. unfold py_range. apply FinFun.Injective_map_NoDup; [intros a b; lia|apply seq_NoDup]. Qed.

Section EdgeCompute.
Variable s0 : state.
Variable sg : list (list Z).
Hypothesis Hseg : seg s0 = Some sg.
Hypothesis Hsk : NoDup (keys (succs (g s0))).
Hypothesis Hadj : forall u, NoDup (successors s0 u).
Hypothesis Hclosed : edges_closed s0.
Hypothesis Hnz : forall n, has_node s0 n = true -> n <> 0.

Definition valf (e : Z * Z) : value := iou_of s0 sg (fst e) (snd e).
Definition nbf0 : dict (list Z) := groupby (time_of s0) (tracks_nodes s0) [].
Definition E (t : Z) : list (Z * Z) := nx_out_edges_bunch s0 (dd_read t nbf0).

Record sim (s : state) : Prop := {
  sim_nodes : nodes (g s) = nodes (g s0); sim_seg : seg s = seg s0;
  sim_edge : forall a b, has_edge s a b = has_edge s0 a b; sim_succ : forall a, successors s a = successors s0 a }.
Lemma sim_refl : sim s0.
Proof. now split. Qed.
Lemma sim_writes W s : sim s -> sim (writes W s).
Proof.
  intros [H1 H2 H3 H4]. split.
  - now rewrite writes_nodes. - now rewrite writes_seg. - intros; now rewrite writes_has_edge. - intros; now rewrite writes_successors.
Qed.
Lemma sim_has_node s n : sim s -> has_node s n = has_node s0 n.
Proof. intros H. unfold has_node. now rewrite (sim_nodes s H). Qed.
Lemma sim_time s n : sim s -> time_of s n = time_of s0 n.
Proof. intros H. unfold time_of, zattr, attr, node_attrs. now rewrite (sim_nodes s H). Qed.
Lemma sim_bunch s l : sim s -> nx_out_edges_bunch s l = nx_out_edges_bunch s0 l.
Proof.
  intros H. unfold nx_out_edges_bunch.
  rewrite (filter_ext (has_node s) (has_node s0)) by (intros n; now apply sim_has_node).
  apply flat_map_ext. intros u. now rewrite (sim_succ s H).
Qed.

Lemma E_In t u c : In (u, c) (E t) <-> has_node s0 u = true /\ time_of s0 u = t /\ has_edge s0 u c = true.
Proof.
  unfold E. rewrite out_edges_bunch_In. unfold nbf0. rewrite groupby_read_In. unfold dd_read at 1. cbn [getd lookup In].
  unfold tracks_nodes. rewrite successors_spec. pose proof (haskey_keys u (nodes (g s0))) as Hh. unfold has_node. tauto.
Qed.
Lemma E_NoDup t : NoDup (E t).
Proof. apply out_edges_bunch_NoDup. exact Hadj. Qed.

Lemma valf_entry t k u c : has_node s0 u = true -> time_of s0 u = t -> has_edge s0 u c = true -> time_of s0 c = k ->
  iou_entry_val (ious_of (frame_of sg t) (frame_of sg k)) (u, c) = valf (u, c).
Proof.
  intros Hu Ht He Hk. unfold valf, iou_entry_val. cbn [fst snd]. rewrite iou_of_frames, Ht, Hk.
  apply ious_find_spec; [now apply Hnz|]. apply Hnz. now destruct (Hclosed u c He).
Qed.

(* `for target_t, edges in edges_by_target_frame.items(): self._iou_update(edges, seg[t], seg[target_t])` *)
Definition items_body (v_seg : option (list (list Z))) (v_t : Z) : Z * list (Z * Z) -> unit -> state -> res unit :=
  fun '(v_target_t, v_edges) (_ : unit) s =>
    do t4, s <- py_arr_getitem v_seg v_t s;
    do t5, s <- py_arr_getitem v_seg v_target_t s;
    do _u, s <- AG.gen_EdgeAnnotator__iou_update s v_edges t4 t5;
    Ok tt s.

Lemma items_loop t : forall d s, sim s ->
  (forall k gr, In (k, gr) d -> NoDup gr /\ forall e, In e gr -> In e (E t) /\ time_of s0 (snd e) = k) ->
  py_for d tt s (items_body (Some sg) t) = Ok tt (writes (map (wr_of valf) (concat (map snd d))) s).
Proof.
  induction d as [|[k gr] d IH]; intros s Hsim Hd; [reflexivity|]. cbn [py_for items_body py_arr_getitem bind].
  destruct (Hd k gr (or_introl eq_refl)) as [Hn Hg].
  rewrite iou_update_spec; [|exact Hn|].
  2:{ intros [u c] He. destruct (Hg _ He) as [HE _]. apply E_In in HE. cbn [fst snd]. rewrite (sim_edge s Hsim). tauto. }
  cbn [bind]. rewrite IH; [|now apply sim_writes|intros k' gr' H; apply Hd; now right].
  f_equal. cbn [map snd concat]. rewrite map_app, writes_app. f_equal. f_equal.
  apply map_ext_in. intros [u c] He. unfold wr_of. f_equal. destruct (Hg _ He) as [HE Hk]. apply E_In in HE. cbn [snd] in Hk.
  apply (valf_entry t k u c); tauto.
Qed.

(* the body of `for t in range(seg.shape[0] - 1):` as the translator emits it *)
Definition t_body (v_seg : option (list (list Z))) : Z -> dict (list Z) -> state -> res (dict (list Z)) :=
  fun v_t v_nodes_by_frame s =>
    let v_nodes_in_t := dd_read v_t v_nodes_by_frame in
    let v_nodes_by_frame := dd_touch v_t v_nodes_by_frame in
    let v_edges_by_target_frame := dd_new in
    do v_edges_by_target_frame, s <- py_for (nx_out_edges_bunch s v_nodes_in_t) v_edges_by_target_frame s (fun v_edge v_edges_by_target_frame s =>
      do t3, s <- py_get_time s (snd v_edge);
      let v_edges_by_target_frame := dd_append t3 v_edge v_edges_by_target_frame in
      Ok v_edges_by_target_frame s);
    do _u, s <- py_for (py_items v_edges_by_target_frame) tt s (fun '(v_target_t, v_edges) (_ : unit) s =>
      do t4, s <- py_arr_getitem v_seg v_t s;
      do t5, s <- py_arr_getitem v_seg v_target_t s;
      do _u, s <- AG.gen_EdgeAnnotator__iou_update s v_edges t4 t5;
      Ok tt s);
    Ok v_nodes_by_frame s.

Definition nbf_ok (nbf : dict (list Z)) : Prop := forall t, dd_read t nbf = dd_read t nbf0.

Lemma t_body_eq t nbf s : sim s -> nbf_ok nbf ->
  t_body (Some sg) t nbf s = Ok (dd_touch t nbf) (writes (map (wr_of valf) (E t)) s).
Proof.
  intros Hsim Hnbf. unfold t_body. cbv zeta. rewrite (Hnbf t), (sim_bunch s _ Hsim). fold (E t).
  rewrite (py_for_pure (fun (e : Z * Z) d => dd_append (time_of s0 (snd e)) e d)).
  2:{ intros [u c] d He. apply E_In in He. destruct He as (_ & _ & He). destruct (Hclosed u c He) as [_ Hc].
      unfold py_get_time. cbn [snd]. rewrite (sim_has_node s c Hsim), Hc. cbn [bind]. now rewrite (sim_time s c Hsim). }
  cbn [bind]. fold (groupby (fun e : Z * Z => time_of s0 (snd e)) (E t) dd_new).
  set (d := groupby (fun e : Z * Z => time_of s0 (snd e)) (E t) dd_new).
  assert (HP : Permutation (concat (map snd d)) (E t)) by apply (groupby_perm (fun e : Z * Z => time_of s0 (snd e)) (E t) []).
  assert (HN : NoDup (concat (map snd d))) by (eapply Permutation_NoDup; [apply Permutation_sym; exact HP|apply E_NoDup]).
  unfold py_items.
  match goal with |- context [py_for d tt s ?f] => change (py_for d tt s f) with (py_for d tt s (items_body (Some sg) t)) end.
  rewrite (items_loop t d s Hsim).
  - cbn [bind]. f_equal. apply writes_fun_perm; [exact HN|apply E_NoDup|]. intros e. split; apply Permutation_in; [exact HP|now apply Permutation_sym].
  - intros k gr Hin. split.
    + apply (NoDup_concat_in (map snd d) gr HN). apply in_map_iff. exists (k, gr). auto.
    + intros e He. split.
      * apply (Permutation_in e HP). apply in_concat. exists gr. split; [|exact He]. apply in_map_iff. exists (k, gr). auto.
      * apply (groupby_keys (fun e : Z * Z => time_of s0 (snd e)) (E t) [] ltac:(intros ? ? []) k gr Hin e He).
Qed.

Lemma outer_loop : forall ts nbf s, sim s -> nbf_ok nbf ->
  py_for ts nbf s (t_body (Some sg))
  = Ok (fold_left (fun d t => dd_touch t d) ts nbf) (writes (map (wr_of valf) (flat_map E ts)) s).
Proof.
  induction ts as [|t ts IH]; intros nbf s Hsim Hnbf; [reflexivity|]. cbn [py_for fold_left flat_map].
  rewrite (t_body_eq t nbf s Hsim Hnbf). cbn [bind]. rewrite IH.
  - f_equal. now rewrite map_app, writes_app.
  - now apply sim_writes.
  - intros t'. rewrite dd_read_touch. apply Hnbf.
Qed.

(* the model's side *)
Lemma model_fold : forall es s, sim s ->
  fold_left (fun s e => set_edge_attr s (fst e) (snd e) KIou (iou_of s sg (fst e) (snd e))) es s = writes (map (wr_of valf) es) s.
Proof.
  induction es as [|e es IH]; intros s Hsim; [reflexivity|]. cbn [fold_left map]. rewrite writes_cons. cbn [wr_of fst snd].
  assert (Ev : valf e = iou_of s sg (fst e) (snd e)) by (unfold valf; symmetry; apply iou_of_nodes; apply (sim_nodes s Hsim)).
  rewrite Ev. apply IH. apply (sim_writes [wr_of (fun _ => iou_of s sg (fst e) (snd e)) e] s Hsim).
Qed.

Lemma all_edges_In u c : In (u, c) (all_edges s0) <-> has_edge s0 u c = true.
Proof.
  unfold all_edges. rewrite in_flat_map. unfold has_edge, adj, getd. split.
  - intros ([u' a] & Hin & Hm). cbn [fst snd] in Hm. apply in_map_iff in Hm. destruct Hm as (c' & Ec & Hc). injection Ec as -> ->.
    rewrite (In_lookup u (succs (g s0)) a Hsk Hin). now apply haskey_keys.
  - destruct (lookup u (succs (g s0))) as [a|] eqn:El; [|discriminate]. intros Hc. exists (u, a). split; [now apply lookup_In|].
    cbn [fst snd]. apply in_map_iff. exists c. split; [reflexivity|now apply haskey_keys].
Qed.
Lemma all_edges_NoDup : NoDup (all_edges s0).
Proof.
  unfold all_edges. apply NoDup_flat_map.
  - apply (NoDup_map_inv fst). exact Hsk.
  - intros [u a] Hin. cbn [fst snd]. apply FinFun.Injective_map_NoDup; [intros x y Exy; now injection Exy|].
    pose proof (Hadj u) as H. unfold successors, adj, getd in H. now rewrite (In_lookup u _ a Hsk Hin) in H.
  - intros [u a] [u' a'] [x y] H1 H2 Hb1 Hb2. cbn [fst snd] in *. apply in_map_iff in Hb1, Hb2.
    destruct Hb1 as (? & Eb1 & _), Hb2 as (? & Eb2 & _). injection Eb1 as E1 _. injection Eb2 as E2 _. subst x. subst u'.
    pose proof (In_lookup u _ a Hsk H1) as L1. pose proof (In_lookup u _ a' Hsk H2) as L2. congruence.
Qed.

Definition in_range_edges : list (Z * Z) :=
  filter (fun e => (0 <=? time_of s0 (fst e)) && (time_of s0 (fst e) <? Z.of_nat (length sg) - 1)) (all_edges s0).

Lemma bulk_writes :
  writes (map (wr_of valf) (flat_map E (py_range (Z.of_nat (length sg) - 1)))) s0
  = fold_left (fun s e => set_edge_attr s (fst e) (snd e) KIou (iou_of s sg (fst e) (snd e))) in_range_edges s0.
Proof.
  rewrite (model_fold _ s0 sim_refl). apply writes_fun_perm.
  - apply NoDup_flat_map; [apply py_range_NoDup|intros t _; apply E_NoDup|].
    intros t t' [u c] _ _ H1 H2. apply E_In in H1, H2. destruct H1 as (_ & <- & _), H2 as (_ & <- & _). reflexivity.
  - apply NoDup_filter, all_edges_NoDup.
  - intros [u c]. unfold in_range_edges. rewrite in_flat_map, filter_In, all_edges_In. cbn [fst].
    rewrite andb_true_iff, Z.leb_le, Z.ltb_lt. split.
    + intros (t & Ht & HE). apply py_range_In in Ht. apply E_In in HE. destruct HE as (_ & <- & He). tauto.
    + intros (He & H1 & H2). exists (time_of s0 u). split; [apply py_range_In; lia|]. apply E_In.
      destruct (Hclosed u c He) as [Hu _]. tauto.
Qed.
End EdgeCompute.

(* which keys the bulk IoU computation looks at *)
Lemma edge_keys_iou s ko : (iou_act (ft s) = true -> iou_avail (ft s) = true) ->
  memz KIou (gen_GraphAnnotator_filter_feature_keys s AEdge ko)
  = memz KIou (match ko with Some l => l | None => available s end) && iou_act (ft s).
Proof.
  intros H. destruct ko as [ks|]; [now apply filter_feature_keys_iou|].
  cbn [gen_GraphAnnotator_filter_feature_keys]. rewrite memz_keys, gen_GraphAnnotator_features_eq. cbn [active_b]. rewrite Z.eqb_refl.
  unfold available. rewrite !memz_app. destruct (iou_act (ft s)); [rewrite H by reflexivity; cbn; now rewrite orb_true_r|now rewrite !andb_false_r].
Qed.

(* TIE (priority 2): EdgeAnnotator.compute is the model's iou_compute (Model/Toggle.v) *)
Theorem gen_EdgeAnnotator_compute_eq : forall s ko,
  (iou_act (ft s) = true -> iou_avail (ft s) = true) ->
  (seg s <> None -> NoDup (keys (succs (g s))) /\ (forall u, NoDup (successors s u)) /\ edges_closed s /\
                    (forall n, has_node s n = true -> n <> 0)) ->
  AG.gen_EdgeAnnotator_compute s ko = Ok tt (iou_compute s (match ko with Some l => l | None => available s end)).
Proof.
  intros s ko Hav Hwf. unfold AG.gen_EdgeAnnotator_compute, iou_compute.
  destruct (seg s) as [sg|] eqn:Hs; cbn [py_is_some negb]; [|reflexivity].
  rewrite <- (edge_keys_iou s ko Hav). destruct (Hwf ltac:(discriminate)) as (Hsk & Hadj & Hcl & Hnz).
  set (ks := gen_GraphAnnotator_filter_feature_keys s AEdge ko).
  destruct ks as [|k0 ks'] eqn:Eks; [reflexivity|]. cbn [py_is_nil]. rewrite <- Eks. clear Eks.
  destruct (memz KIou ks); [|reflexivity].
  (* nodes_by_frame *)
  rewrite (py_for_pure (fun n d => dd_append (time_of s n) n d)).
  2:{ intros n d Hn. unfold py_get_time. unfold tracks_nodes in Hn. apply haskey_keys in Hn. fold (has_node s n) in Hn. now rewrite Hn. }
  cbn [bind py_arr_shape0]. fold (groupby (time_of s) (tracks_nodes s) dd_new). change (groupby (time_of s) (tracks_nodes s) dd_new) with (nbf0 s).
  match goal with |- context [py_for ?l (nbf0 s) s ?f] => change (py_for l (nbf0 s) s f) with (py_for l (nbf0 s) s (t_body (Some sg))) end.
  rewrite (outer_loop s sg Hadj Hcl Hnz _ (nbf0 s) s (sim_refl s) (fun t => eq_refl)). cbn [bind].
  f_equal. apply bulk_writes; assumption.
Qed.

(* ================================================================== *)
(* 8. RegionpropsAnnotator._regionprops_update / update  (priority 3)  *)
(* ================================================================== *)
Lemma has_node_sna s n k v m : has_node (set_node_attr s n k v) m = has_node s m.
Proof.
  destruct (has_node s m) eqn:E.
  - apply has_node_is_node. unfold is_node. rewrite sna_node_ids. now apply has_node_is_node.
  - destruct (has_node (set_node_attr s n k v) m) eqn:E'; [|reflexivity].
    apply has_node_is_node in E'. unfold is_node in E'. rewrite sna_node_ids in E'. apply has_node_is_node in E'. congruence.
Qed.
Lemma has_node_set_keys : forall ks s n v m, has_node (set_keys s n ks v) m = has_node s m.
Proof. unfold set_keys. induction ks as [|k ks IH]; intros s n v m; [reflexivity|]. cbn [fold_left]. now rewrite IH, has_node_sna. Qed.

(* what regionprops computes for one frame, written onto the nodes: the body of the model's rp_compute_frame *)
Definition rp_frame (ks : list Z) (f : list Z) (s : state) : state :=
  fold_left (fun s l => if has_node s l then set_keys s l ks (VRp (positions_from 0 f l)) else s) (labels_of f) s.
Lemma rp_compute_frame_eq ks sg s t : rp_compute_frame ks sg s t = rp_frame ks (frame_of sg t) s.
Proof. reflexivity. Qed.

(* labels of a frame masked to one positive label *)
Lemma labels_of_masked f n : n <> 0 -> labels_of (masked f n) = match positions_from 0 f n with [] => [] | _ => [n] end.
Proof.
  intros Hn. unfold labels_of.
  assert (G : forall r acc, acc = [] \/ acc = [n] ->
    fold_left (fun acc x => if x =? 0 then acc else insert_sorted x acc) (masked r n) acc
    = if in_dec Z.eq_dec n r then [n] else acc).
  { induction r as [|x r IH]; intros acc Hacc; [reflexivity|]. rewrite masked_cons. cbn [fold_left].
    destruct (Z.eqb_spec x n) as [->|N].
    - replace (n =? 0) with false by (symmetry; now apply Z.eqb_neq).
      assert (E : insert_sorted n acc = [n]).
      { destruct Hacc as [->| ->]; cbn [insert_sorted]; [reflexivity|]. now rewrite Z.ltb_irrefl, Z.eqb_refl. }
      rewrite E, IH by auto. destruct (in_dec Z.eq_dec n r), (in_dec Z.eq_dec n (n :: r)) as [|C]; try reflexivity; exfalso; apply C; now left.
    - cbn [Z.eqb]. rewrite IH by exact Hacc.
      destruct (in_dec Z.eq_dec n r) as [I|I], (in_dec Z.eq_dec n (x :: r)) as [I'|I']; try reflexivity.
      + exfalso. apply I'. now right.
      + destruct I' as [C|C]; [congruence|contradiction]. }
  rewrite (G f [] (or_introl eq_refl)).
  destruct (in_dec Z.eq_dec n f) as [I|I].
  - destruct (positions_from 0 f n) eqn:E; [apply positions_nil_iff in E; contradiction|reflexivity].
  - apply (positions_nil_iff f 0) in I. now rewrite I.
Qed.

(* the regionprops keys: what `list(self.features.keys())` is on the record *)
Lemma features_fold_keys : forall (l : list Z) (flag : Z -> bool) (acc : dict ftype), NoDup l -> (forall k, In k l -> ~ In k (keys acc)) ->
  keys (fold_left (fun (acc : dict ftype) '((v_k, (v_feat, v_included)) : Z * (ftype * bool)) => if v_included then set v_k v_feat acc else acc)
         (map (fun k => (k, (feature_of_key k, flag k))) l) acc) = keys acc ++ filter flag l.
Proof.
  induction l as [|k l IH]; intros flag acc Hn Hd; cbn [map fold_left filter]; [now rewrite app_nil_r|].
  inversion Hn as [|? ? Hni Hn']; subst. destruct (flag k) eqn:Ek.
  - rewrite IH; [|exact Hn'|].
    + rewrite keys_set_notin by (apply Hd; now left). now rewrite <- app_assoc.
    + intros k' Hk' C. apply in_keys_set in C. destruct C as [->|C]; [contradiction|]. apply (Hd k'); [now right|exact C].
  - apply IH; [exact Hn'|]. intros k' Hk'. apply Hd. now right.
Qed.
Lemma features_rp_keys s : NoDup (rp_all (ft s)) -> rp_canon s -> keys (gen_GraphAnnotator_features s ARp) = rp_act (ft s).
Proof.
  intros Hn Hc. unfold gen_GraphAnnotator_features, ann_table. cbn [tbl_of].
  rewrite (features_fold_keys (rp_all (ft s)) (fun k => memz k (rp_act (ft s))) [] Hn) by (intros ? ? []).
  cbn [keys map app]. symmetry. exact Hc.
Qed.

Section Regionprops.
Variable ScaleT : Type.
Variable tracks_scale : option (list ScaleT).
Variable Region : Type.
Variable regionprops_extended : list Z -> option (list ScaleT) -> list Region.
Variable region_label : Region -> Z.
Variable region_getattr : Region -> Z -> value.

(* the spacing the symbolic value [VRp mask] is about: None without a scale, else scale[1:] (the time axis dropped) *)
Definition std_spacing : option (list ScaleT) := match tracks_scale with None => None | Some sc => Some (tl sc) end.
(* THE ORACLE CONVENTION (the only thing assumed about skimage): called on a frame with the standard spacing,
   regionprops_extended yields one region per label of the frame, in the model's labels_of order, and the attribute
   the annotator reads for key k is the model's symbolic value of the mask of that label IN THAT FRAME. *)
Hypothesis rp_labels : forall f, map region_label (regionprops_extended f std_spacing) = labels_of f.
Hypothesis rp_values : forall f r k, In r (regionprops_extended f std_spacing) ->
  region_getattr r k = VRp (positions_from 0 f (region_label r)).

Notation gen_rpu := (AG.gen_RegionpropsAnnotator__regionprops_update ScaleT tracks_scale Region regionprops_extended region_label region_getattr).
Notation gen_rp_update := (AG.gen_RegionpropsAnnotator_update ScaleT tracks_scale Region regionprops_extended region_label region_getattr).
Notation gen_rp_compute := (AG.gen_RegionpropsAnnotator_compute ScaleT tracks_scale Region regionprops_extended region_label region_getattr).

Lemma keys_loop (val : Z -> value) : forall ks s n, has_node s n = true -> (forall k, In k ks -> val k = val (hd 0 ks)) ->
  py_for ks tt s (fun v_key (_ : unit) s => do _u, s <- py_set_node_attr s n v_key (val v_key); Ok tt s)
  = Ok tt (set_keys s n ks (val (hd 0 ks))).
Proof.
  induction ks as [|k ks IH]; intros s n Hn Hv; [reflexivity|]. cbn [py_for hd]. unfold py_set_node_attr at 1.
  rewrite Hn. cbn [bind]. destruct ks as [|k' ks'].
  - reflexivity.
  - rewrite IH; [|now rewrite has_node_sna|].
    + cbn [hd]. unfold set_keys. cbn [fold_left]. now rewrite (Hv k' (or_intror (or_introl eq_refl))).
    + intros k2 Hk2. cbn [hd]. rewrite (Hv k2 (or_intror Hk2)). symmetry. apply Hv. right. now left.
Qed.
Lemma none_loop : forall ks s n, has_node s n = true ->
  py_for ks tt s (fun v_key (_ : unit) s => do _u, s <- py_set_node_attr s n v_key VNone; Ok tt s) = Ok tt (set_keys s n ks VNone).
Proof.
  induction ks as [|k ks IH]; intros s n Hn; [reflexivity|]. cbn [py_for]. unfold py_set_node_attr at 1. rewrite Hn. cbn [bind].
  rewrite IH by now rewrite has_node_sna. reflexivity.
Qed.

Lemma regions_loop f ks : forall R s, (forall r, In r R -> In r (regionprops_extended f std_spacing)) ->
  py_for R tt s (fun v_region (_ : unit) s =>
    if negb (nx_contains s (region_label v_region))
    then
      Ok tt s
    else
      do _u, s <- py_for ks tt s (fun v_key (_ : unit) s =>
        do _u, s <- py_set_node_attr s (region_label v_region) v_key (region_getattr v_region v_key);
        Ok tt s);
      Ok tt s)
  = Ok tt (fold_left (fun s l => if has_node s l then set_keys s l ks (VRp (positions_from 0 f l)) else s) (map region_label R) s).
Proof.
  induction R as [|r R IH]; intros s HR; [reflexivity|]. cbn [py_for map fold_left]. unfold nx_contains at 1.
  destruct (has_node s (region_label r)) eqn:Hn; cbn [negb].
  - rewrite (keys_loop (region_getattr r) ks s (region_label r) Hn).
    2:{ intros k _. rewrite !(rp_values f r) by (apply HR; now left). reflexivity. }
    cbn [bind]. rewrite IH by (intros r' Hr'; apply HR; now right).
    destruct ks as [|k0 ks']; [reflexivity|]. cbn [hd]. now rewrite (rp_values f r k0) by (apply HR; now left).
  - cbn [bind]. apply IH. intros r' Hr'. apply HR. now right.
Qed.

(* TIE: _regionprops_update(frame, keys) measures every label of THAT frame, masks taken in that frame, and writes the
   keys it is given onto the label's node when there is one *)
Theorem gen_regionprops_update_eq : forall s f ks, gen_rpu s f ks = Ok tt (rp_frame ks f s).
Proof.
  intros s f ks. unfold AG.gen_RegionpropsAnnotator__regionprops_update.
  change (match tracks_scale with None => None | Some t1 => Some (py_tuple (py_from1 t1)) end) with std_spacing.
  cbv zeta. unfold py_tuple_to_list.
  rewrite (regions_loop f ks _ s (fun r H => H)). cbn [bind]. unfold rp_frame. now rewrite rp_labels.
Qed.

Lemma set_keys_nil s n v : set_keys s n [] v = s.
Proof. reflexivity. Qed.

(* TIE (priority 3): RegionpropsAnnotator.update is the hand model py_regionprops_update (Model/PyRt3.v), i.e. rp_update of
   Model/Edit.v on the node of an AddNode / UpdateNodeSeg *)
Theorem gen_RegionpropsAnnotator_update_eq : forall s b,
  keys (gen_GraphAnnotator_features s ARp) = rp_act (ft s) ->
  (seg s <> None -> ids_positive s) ->
  gen_rp_update s b = py_regionprops_update s b.
Proof.
  intros s b Hk Hpos. unfold AG.gen_RegionpropsAnnotator_update.
  assert (Main : forall n,
    (if negb (py_is_some (seg s)) then Ok tt s else
      do v_node, s <- Ok n s;
      let v_keys_to_compute := keys (gen_GraphAnnotator_features s ARp) in
      if py_is_nil v_keys_to_compute then Ok tt s else
        do v_time, s <- py_get_time s v_node;
        do v_seg_frame, s <- py_arr_getitem (seg s) v_time s;
        let v_masked_frame := np_where (np_eq_mask v_seg_frame v_node) v_node 0 in
        if np_max v_masked_frame =? 0
        then
          do _u, s <- py_for v_keys_to_compute tt s (fun v_key (_ : unit) s =>
            let v_value := VNone in
            do _u, s <- py_set_node_attr s v_node v_key v_value;
            Ok tt s);
          Ok tt s
        else
          do _u, s <- gen_rpu s v_masked_frame v_keys_to_compute;
          Ok tt s)
    = match seg s, rp_act (ft s) with
      | None, _ => Ok tt s
      | _, [] => Ok tt s
      | Some _, _ :: _ => if has_node s n then Ok tt (rp_update s n) else Err EKey s
      end).
  { intros n. destruct (seg s) as [sg|] eqn:Hs; cbn [py_is_some negb]; [|reflexivity]. cbn [bind]. cbv zeta. rewrite Hk.
    destruct (rp_act (ft s)) as [|k0 ks'] eqn:Ea; [reflexivity|]. cbn [py_is_nil]. rewrite <- Ea.
    unfold py_get_time. destruct (has_node s n) eqn:Hn; [|reflexivity]. cbn [bind]. rewrite Hs. cbn [py_arr_getitem bind].
    assert (Pn : 0 < n) by (apply Hpos; [discriminate|exact Hn]).
    set (f := frame_of sg (time_of s n)). fold (masked f n). rewrite (np_max_masked f n Pn).
    rewrite (rp_update_unfold s sg n Hs). unfold mask_of. fold f.
    destruct (positions_from 0 f n) as [|p ps] eqn:Ep.
    - rewrite (none_loop (rp_act (ft s)) s n Hn). reflexivity.
    - rewrite gen_regionprops_update_eq. cbn [bind]. unfold rp_frame. rewrite (labels_of_masked f n ltac:(lia)), Ep.
      cbn [fold_left]. rewrite Hn. rewrite (masked_positions f n ltac:(lia) 0), Ep. reflexivity. }
  destruct b as [n a px|n sv px|u v a|u v sv|n pv nw|n px ad|st o nt ol nl];
    cbn [py_isinstance class_of existsb acls_eqb orb negb py_regionprops_update py_action_node]; try reflexivity; apply Main.
Qed.

(* ================================================================== *)
(* 9. RegionpropsAnnotator.compute  (bulk; priority 4)                 *)
(* ================================================================== *)
(* the model's rp_compute with the key list it iterates made a parameter:
   rp_compute st ks = rp_compute_with st (filter (fun k => memz k ks) (rp_act (ft st)))   (by computation) *)
Definition rp_compute_with (s : state) (ks' : list Z) : state :=
  match seg s with
  | None => s
  | Some sg => match ks' with
               | [] => s
               | _ => fold_left (rp_compute_frame ks' sg) (map Z.of_nat (seq 0 (length sg))) s
               end
  end.
Lemma rp_compute_is_with s ks : rp_compute s ks = rp_compute_with s (filter (fun k => memz k ks) (rp_act (ft s))).
Proof. reflexivity. Qed.

Lemma frames_loop sg ks : forall ts s,
  py_for ts tt s (fun v_t (_ : unit) s =>
    do t2, s <- py_arr_getitem (Some sg) v_t s;
    do _u, s <- gen_rpu s t2 ks;
    Ok tt s)
  = Ok tt (fold_left (rp_compute_frame ks sg) ts s).
Proof.
  induction ts as [|t ts IH]; intros s; [reflexivity|]. cbn [py_for py_arr_getitem bind fold_left].
  rewrite gen_regionprops_update_eq. cbn [bind]. rewrite IH. now rewrite rp_compute_frame_eq.
Qed.

(* TIE (priority 4), general form: every frame of the array, in order; per frame the labels of THAT frame; the keys are the
   requested active ones IN THE CALLER'S ORDER *)
Theorem gen_RegionpropsAnnotator_compute_with : forall s ko,
  gen_rp_compute s ko = Ok tt (rp_compute_with s (gen_GraphAnnotator_filter_feature_keys s ARp ko)).
Proof.
  intros s ko. unfold AG.gen_RegionpropsAnnotator_compute, rp_compute_with.
  destruct (seg s) as [sg|] eqn:Hs; cbn [py_is_some negb]; [|reflexivity].
  destruct (gen_GraphAnnotator_filter_feature_keys s ARp ko) as [|k0 ks'] eqn:Ek; [reflexivity|]. cbn [py_is_nil py_arr_shape0 bind].
  rewrite frames_loop. cbn [bind]. unfold py_range. now rewrite Nat2Z.id.
Qed.

(* ... and against the model's rp_compute, which walks the keys in rp_act order: equal whenever the caller lists the
   requested active keys in that order (in particular for one key, and for the keys of the registry in registry order) *)
Definition keys_in_model_order (s : state) (ks : list Z) : Prop :=
  filter (active_b (ft s) ARp) ks = filter (fun k => memz k ks) (rp_act (ft s)).
Theorem gen_RegionpropsAnnotator_compute_eq : forall s ks, keys_in_model_order s ks ->
  gen_rp_compute s (Some ks) = Ok tt (rp_compute s ks).
Proof.
  intros s ks H. rewrite gen_RegionpropsAnnotator_compute_with, gen_GraphAnnotator_filter_feature_keys_eq, H. reflexivity.
Qed.
Theorem gen_RegionpropsAnnotator_compute_none_eq : forall s,
  keys (gen_GraphAnnotator_features s ARp) = rp_act (ft s) -> (forall k, In k (rp_act (ft s)) -> In k (rp_all (ft s))) ->
  gen_rp_compute s None = Ok tt (rp_compute s (available s)).
Proof.
  intros s Hk Hact. rewrite gen_RegionpropsAnnotator_compute_with. cbn [gen_GraphAnnotator_filter_feature_keys]. rewrite Hk.
  rewrite rp_compute_is_with. rewrite filter_true; [reflexivity|].
  intros k Hin. unfold available. rewrite memz_app. apply Hact, memz_In in Hin. now rewrite Hin.
Qed.
End Regionprops.

(* ================================================================== *)
(* 10. the hypotheses, from the invariant WF (Proofs/EditInv.v)         *)
(* ================================================================== *)
Lemma W_dict_edges_closed s : W_dict s -> edges_closed s.
Proof.
  intros W u v He. destruct (wd_edge_nodes s W u v He) as [Hu Hv]. split; now apply has_node_is_node.
Qed.
Lemma W_seg_nonzero s : W_seg s -> seg s <> None -> forall n, has_node s n = true -> n <> 0.
Proof.
  unfold W_seg. destruct (seg s) as [sg|]; [|congruence]. intros (_ & _ & H) _ n Hn. apply H. now apply has_node_is_node.
Qed.
Lemma has_edge_nx_add_edge s u v a : has_edge (nx_add_edge s u v a) u v = true.
Proof.
  unfold has_edge, adj, nx_add_edge. cbn [g succs upd_g]. rewrite getd_set_eq. unfold haskey. now rewrite lookup_set_eq.
Qed.

(* priority 2 under WF: nothing else is needed *)
Corollary gen_EdgeAnnotator_compute_WF : forall s ko,
  (iou_act (ft s) = true -> iou_avail (ft s) = true) -> W_dict s -> W_seg s ->
  AG.gen_EdgeAnnotator_compute s ko = Ok tt (iou_compute s (match ko with Some l => l | None => available s end)).
Proof.
  intros s ko Hav Wd Ws. apply gen_EdgeAnnotator_compute_eq; [exact Hav|]. intros Hs.
  split; [apply (wd_succ_nodup s Wd)|]. split; [apply (wd_adj_nodup s Wd)|]. split; [now apply W_dict_edges_closed|now apply W_seg_nonzero].
Qed.
(* = what PyRt4.ann_compute dispatches to for the edge annotator *)
Corollary gen_EdgeAnnotator_compute_is_ann_compute : forall s ko ctrk clin,
  (iou_act (ft s) = true -> iou_avail (ft s) = true) -> W_dict s -> W_seg s ->
  AG.gen_EdgeAnnotator_compute s ko = ann_compute s AEdge ko ctrk clin.
Proof. intros. unfold ann_compute. now apply gen_EdgeAnnotator_compute_WF. Qed.

(* priority 1 under WF: WF says node ids are non-zero; the incremental path needs them POSITIVE (np.max(masked) == 0) *)
Corollary gen_EdgeAnnotator_update_WF : forall s b,
  (iou_act (ft s) = true -> iou_avail (ft s) = true) -> W_dict s -> (seg s <> None -> ids_positive s) ->
  (forall u v a, b = BAddEdge u v a -> has_edge s u v = true) ->
  AG.gen_EdgeAnnotator_update s b = py_edge_update s b.
Proof.
  intros s b Hav Wd Hp Hadd. apply gen_EdgeAnnotator_update_eq; [exact Hav| |exact Hadd].
  intros Hs. split; [now apply Hp|now apply W_dict_edges_closed].
Qed.

(* ================================================================== *)
(* 11. the oracle convention is satisfiable; the differing inputs       *)
(* ================================================================== *)
(* an instance of the regionprops oracle: a region is (frame, label); every attribute is the symbolic value of its mask *)
Definition iRegion : Type := (list Z * Z)%type.
Definition i_regionprops (f : list Z) (_ : option (list Z)) : list iRegion := map (fun l => (f, l)) (labels_of f).
Definition i_label (r : iRegion) : Z := snd r.
Definition i_getattr (r : iRegion) (_ : Z) : value := VRp (positions_from 0 (fst r) (snd r)).
Lemma instance_rp_labels sc : forall f, map i_label (i_regionprops f (std_spacing Z sc)) = labels_of f.
Proof. intros f. unfold i_regionprops. rewrite map_map. cbn [i_label snd]. apply map_id. Qed.
Lemma instance_rp_values sc : forall f r k, In r (i_regionprops f (std_spacing Z sc)) -> i_getattr r k = VRp (positions_from 0 f (i_label r)).
Proof. intros f r k H. apply in_map_iff in H. destruct H as (l & <- & _). reflexivity. Qed.

Definition ex_ft (avail act : bool) : feats :=
  {| reg_node := [KTime]; reg_edge := []; pos_keys := [KPos]; rp_all := [KPos; KArea]; rp_act := [KPos; KArea];
     iou_avail := avail; iou_act := act; trk_act := false; lin_act := false |}.
Definition ex_st (nd : dict attrs) (sc : dict (dict attrs)) (sg : list (list Z)) (avail act : bool) : state :=
  {| g := {| nodes := nd; succs := sc |}; seg := Some sg; ft := ex_ft avail act;
     bk := {| trk_book := []; lin_book := []; max_trk := 0; max_lin := 0 |};
     undo_stack := []; redo_stack := []; rlog := []; nctr := 0 |}.
Notation i_rp_update := (AG.gen_RegionpropsAnnotator_update Z None iRegion i_regionprops i_label i_getattr).
Notation i_rp_compute := (AG.gen_RegionpropsAnnotator_compute Z None iRegion i_regionprops i_label i_getattr).

(* (a) a NEGATIVE node id whose frame holds other pixels: the Python finds np.max(masked) == 0 and stores None
       ("cannot find label"); the model's rp_update stores the value of the mask.  Hence [ids_positive]. *)
Example negative_id_regionprops :
  let s := ex_st [(-1, [(KTime, VZ 0)])] [(-1, [])] [[-1; 0]] true true in
  i_rp_update s (BUpdSeg (-1) (0, [0]) true) = Ok tt (set_keys s (-1) [KPos; KArea] VNone) /\
  py_regionprops_update s (BUpdSeg (-1) (0, [0]) true) = Ok tt (set_keys s (-1) [KPos; KArea] (VRp [0])).
Proof. split; reflexivity. Qed.
(* (b) the same for the IoU: incrementally the Python stores 0, in bulk (and in the model, both ways) the true overlap 1/1:
       on negative ids the Python's own bulk and incremental paths disagree *)
Example negative_id_iou :
  let s := ex_st [(-1, [(KTime, VZ 0)]); (-2, [(KTime, VZ 1)])] [(-1, [(-2, [])]); (-2, [])] [[-1; 0]; [-2; 0]] true true in
  AG.gen_EdgeAnnotator_update s (BAddEdge (-1) (-2) []) = Ok tt (set_edge_attr s (-1) (-2) KIou (VIou 0 1)) /\
  py_edge_update s (BAddEdge (-1) (-2) []) = Ok tt (set_edge_attr s (-1) (-2) KIou (VIou 1 1)) /\
  AG.gen_EdgeAnnotator_compute s (Some [KIou]) = Ok tt (set_edge_attr s (-1) (-2) KIou (VIou 1 1)) /\
  iou_compute s [KIou] = set_edge_attr s (-1) (-2) KIou (VIou 1 1).
Proof. repeat split; reflexivity. Qed.
(* (c) the order of the keys: compute([area, pos]) on a node that has neither writes area first; the model writes pos first.
       Same values under the same keys, another insertion order of the node's attribute dict.  Hence [keys_in_model_order]. *)
Example key_order_regionprops :
  let s := ex_st [(1, [(KTime, VZ 0)])] [(1, [])] [[1]] true true in
  (exists s1, i_rp_compute s (Some [KArea; KPos]) = Ok tt s1 /\ keys (node_attrs s1 1) = [KTime; KArea; KPos]) /\
  keys (node_attrs (rp_compute s [KArea; KPos]) 1) = [KTime; KPos; KArea] /\
  ~ keys_in_model_order s [KArea; KPos].
Proof. split; [eexists; split; reflexivity|]. split; [reflexivity|]. intros C. discriminate C. Qed.
(* (d) an EdgeAnnotator whose table is empty (no segmentation at construction) but whose flag is set in the record: the Python
       looks in self.features, the model at the flag.  Hence [iou_act -> iou_avail] (cfg_keys.ck_iou). *)
Example iou_flag_without_feature :
  let s := ex_st [(1, [(KTime, VZ 0)]); (2, [(KTime, VZ 1)])] [(1, [(2, [])]); (2, [])] [[1]; [2]] false true in
  AG.gen_EdgeAnnotator_update s (BAddEdge 1 2 []) = Ok tt s /\ py_edge_update s (BAddEdge 1 2 []) <> Ok tt s.
Proof. split; [reflexivity|discriminate]. Qed.
(* (e) an edge that is not in the graph (update is only ever called right after graph.add_edge): Python KeyError, model no-op *)
Example missing_edge :
  let s := ex_st [(1, [(KTime, VZ 0)]); (2, [(KTime, VZ 1)])] [(1, []); (2, [])] [[1]; [2]] true true in
  AG.gen_EdgeAnnotator_update s (BAddEdge 1 2 []) = Err EKey s /\ py_edge_update s (BAddEdge 1 2 []) = Ok tt s.
Proof. split; reflexivity. Qed.

Print Assumptions IousTie.gen__compute_ious_eq.
Print Assumptions iou_of_frames.
Print Assumptions ious_find_spec.
Print Assumptions masked_positions.
Print Assumptions sea_comm.
Print Assumptions writes_perm.
Print Assumptions gen_EdgeAnnotator_update_eq.
Print Assumptions gen_EdgeAnnotator_update_WF.
Print Assumptions iou_update_spec.
Print Assumptions gen_EdgeAnnotator_compute_eq.
Print Assumptions gen_EdgeAnnotator_compute_WF.
Print Assumptions gen_EdgeAnnotator_compute_is_ann_compute.
Print Assumptions gen_regionprops_update_eq.
Print Assumptions gen_RegionpropsAnnotator_update_eq.
Print Assumptions gen_RegionpropsAnnotator_compute_with.
Print Assumptions gen_RegionpropsAnnotator_compute_eq.
Print Assumptions gen_RegionpropsAnnotator_compute_none_eq.
Print Assumptions features_rp_keys.
Print Assumptions instance_rp_labels.
Print Assumptions instance_rp_values.
Print Assumptions negative_id_regionprops.
Print Assumptions negative_id_iou.
Print Assumptions key_order_regionprops.
Print Assumptions iou_flag_without_feature.
Print Assumptions missing_edge.
