(* C01: every edit is exactly invertible.
   1. the observation equivalence [obs_eq] (pointwise; an explicit None and an absent
      attribute are the same observation) and the finer [core_eq] (graph, array and feature
      table literally equal; only the lookups, the history and the counters may differ);
   2. every basic action reads and writes the core only ([*_core] congruence lemmas);
   3. the inverse laws of the seven basic actions;
   4. the composition principle for groups;
   5. UserDeleteEdge / UserAddEdge. *)
From Coq Require Import ZArith List Bool Lia.
From FT Require Import Base.Dict Model.Edit Proofs.DictLemmas Proofs.EditInv Proofs.BookLemmas Proofs.EditBook.
Import ListNotations.
Open Scope Z_scope.

(* ================================================================== *)
(* 1. observations                                                      *)
(* ================================================================== *)
(* get_node_attr / get_edge_attr return None both for a missing key and for a stored None *)
Definition attr_obs (st : state) (n k : Z) : option value :=
  match attr st n k with Some VNone => None | x => x end.
Definition eattr_obs (st : state) (u v k : Z) : option value :=
  match lookup k (edge_attrs st u v) with Some VNone => None | x => x end.

Record obs_eq (s s' : state) : Prop := {
  oe_nodes : forall n, is_node s' n <-> is_node s n;
  oe_edges : forall u v, has_edge s' u v = has_edge s u v;
  oe_nattr : forall n k, In k (reg_node (ft s)) -> attr_obs s' n k = attr_obs s n k;
  oe_eattr : forall u v k, In k (reg_edge (ft s)) -> eattr_obs s' u v k = eattr_obs s u v k;
  oe_seg : seg s' = seg s;
  oe_ft : ft s' = ft s
}.

Lemma obs_eq_refl s : obs_eq s s.
Proof. constructor; intros; reflexivity. Qed.

Lemma obs_eq_sym s s' : obs_eq s s' -> obs_eq s' s.
Proof.
  intros [A B C D E F]. constructor.
  - intros n. symmetry. apply A.
  - intros u v. symmetry. apply B.
  - intros n k Hk. rewrite F in Hk. symmetry. now apply C.
  - intros u v k Hk. rewrite F in Hk. symmetry. now apply D.
  - now symmetry.
  - now symmetry.
Qed.

Lemma obs_eq_trans a b c : obs_eq a b -> obs_eq b c -> obs_eq a c.
Proof.
  intros [A1 B1 C1 D1 E1 F1] [A2 B2 C2 D2 E2 F2]. constructor.
  - intros n. rewrite A2. apply A1.
  - intros u v. rewrite B2. apply B1.
  - intros n k Hk. rewrite C2 by (now rewrite F1). now apply C1.
  - intros u v k Hk. rewrite D2 by (now rewrite F1). now apply D1.
  - congruence.
  - congruence.
Qed.

(* the core of a state: everything the observations (and the basic actions' control flow) read *)
Definition core_eq (s s' : state) : Prop := g s' = g s /\ seg s' = seg s /\ ft s' = ft s.

Lemma core_eq_refl s : core_eq s s.
Proof. unfold core_eq. auto. Qed.
Lemma core_eq_sym s s' : core_eq s s' -> core_eq s' s.
Proof. unfold core_eq. intros (A & B & C). auto. Qed.
Lemma core_eq_trans a b c : core_eq a b -> core_eq b c -> core_eq a c.
Proof. unfold core_eq. intros (A & B & C) (A' & B' & C'). repeat split; congruence. Qed.

Lemma core_eq_obs s s' : core_eq s s' -> obs_eq s s'.
Proof.
  intros (A & B & C). constructor; auto.
  - intros n. unfold is_node, node_ids. now rewrite A.
  - intros u v. unfold has_edge, adj. now rewrite A.
  - intros n k _. unfold attr_obs, attr, node_attrs. now rewrite A.
  - intros u v k _. unfold eattr_obs, edge_attrs, adj. now rewrite A.
Qed.

Lemma core_eq_upd_bk s b : core_eq s (upd_bk s b).
Proof. unfold core_eq. auto. Qed.

(* the invariants only speak about the core *)
Lemma core_W_dict s s' : core_eq s s' -> W_dict s -> W_dict s'.
Proof. intros (A & _). now apply W_dict_same_g. Qed.
Lemma core_cfg_ok s s' : core_eq s s' -> cfg_ok s -> cfg_ok s'.
Proof. intros (_ & _ & C). unfold cfg_ok. now rewrite C. Qed.
Lemma core_rp_disjoint s s' : core_eq s s' -> rp_disjoint s -> rp_disjoint s'.
Proof. intros (_ & _ & C). unfold rp_disjoint. now rewrite C. Qed.
Lemma core_W_forest s s' : core_eq s s' -> W_forest s -> W_forest s'.
Proof.
  intros (A & _) [F1 F2 F3].
  assert (E : forall u v, edge s' u v <-> edge s u v) by (intros u v; unfold edge, has_edge, adj; now rewrite A).
  assert (T : forall n, time_of s' n = time_of s n) by (intros n; unfold time_of, zattr, attr, node_attrs; now rewrite A).
  constructor.
  - intros u u' v H1 H2. apply (F1 u u' v); now apply E.
  - intros u. unfold successors, adj. rewrite A. apply F2.
  - intros u v H. rewrite !T. apply F3. now apply E.
Qed.
Lemma core_W_lin s s' : core_eq s s' -> W_lin s -> W_lin s'.
Proof.
  intros (A & _) [L1 L2].
  assert (E : forall u v, edge s' u v <-> edge s u v) by (intros u v; unfold edge, has_edge, adj; now rewrite A).
  assert (L : forall n, lin s' n = lin s n) by (intros n; unfold lin, zattr, attr, node_attrs; now rewrite A).
  assert (N : forall n, is_node s' n <-> is_node s n) by (intros n; unfold is_node, node_ids; now rewrite A).
  constructor.
  - intros u v H. rewrite !L. apply L1. now apply E.
  - intros a b [Ha Ha'] [Hb Hb'] H. rewrite !L in H. apply L2; [split|split|exact H].
    + now apply N.
    + intros p Hp. apply (Ha' p). now apply E.
    + now apply N.
    + intros p Hp. apply (Hb' p). now apply E.
Qed.
Lemma core_W_seg s s' : core_eq s s' -> W_seg s -> W_seg s'.
Proof.
  intros (A & B & _). unfold W_seg, is_node, node_ids, time_of, zattr, attr, node_attrs. now rewrite A, B.
Qed.
Lemma core_W_fresh s s' : core_eq s s' -> W_fresh s -> W_fresh s'.
Proof.
  intros (A & B & C).
  unfold W_fresh, is_node, node_ids, edge, has_edge, edge_attrs, adj, iou_of, time_of, zattr, attr, node_attrs.
  now rewrite A, B, C.
Qed.

(* ================================================================== *)
(* 2. the basic actions read and write the core only                    *)
(* ================================================================== *)
Definition res_core {A} (r r' : res A) : Prop :=
  match r, r' with
  | Ok a s, Ok a' s' => a = a' /\ core_eq s s'
  | Err e s, Err e' s' => e = e' /\ core_eq s s'
  | _, _ => False
  end.

Lemma res_core_ok {A} (r r' : res A) a s : res_core r r' -> r = Ok a s -> exists s', r' = Ok a s' /\ core_eq s s'.
Proof. intros H ->. destruct r' as [a' s'|e' s']; cbn in H; [|contradiction]. destruct H as [<- H]. now exists s'. Qed.

Lemma bind_core {A B} (r r' : res A) (f f' : A -> state -> res B) :
  res_core r r' -> (forall a s s', core_eq s s' -> res_core (f a s) (f' a s')) -> res_core (bind r f) (bind r' f').
Proof.
  intros H Hf. destruct r as [a s|e s], r' as [a' s'|e' s']; cbn in H; try contradiction; cbn [bind].
  - destruct H as [<- H]. now apply Hf.
  - exact H.
Qed.

Lemma fold_rel {X Y} (R : Y -> Y -> Prop) (f : Y -> X -> Y) :
  (forall a a' x, R a a' -> R (f a x) (f a' x)) -> forall l a a', R a a' -> R (fold_left f l a) (fold_left f l a').
Proof. intros Hf. induction l as [|x r IH]; intros a a' H; cbn [fold_left]; [exact H|]. apply IH. now apply Hf. Qed.

Section CoreReaders.
  Variables s s' : state.
  Hypothesis H : core_eq s s'.
  Let Eg : g s' = g s. Proof. apply H. Qed.
  Let Es : seg s' = seg s. Proof. apply H. Qed.
  Let Ef : ft s' = ft s. Proof. apply H. Qed.

  Lemma core_has_node n : has_node s' n = has_node s n.
  Proof. unfold has_node. now rewrite Eg. Qed.
  Lemma core_node_attrs n : node_attrs s' n = node_attrs s n.
  Proof. unfold node_attrs. now rewrite Eg. Qed.
  Lemma core_attr n k : attr s' n k = attr s n k.
  Proof. unfold attr. now rewrite core_node_attrs. Qed.
  Lemma core_zattr n k : zattr s' n k = zattr s n k.
  Proof. unfold zattr. now rewrite core_attr. Qed.
  Lemma core_time_of n : time_of s' n = time_of s n.
  Proof. unfold time_of. now rewrite core_zattr. Qed.
  Lemma core_adj u : adj s' u = adj s u.
  Proof. unfold adj. now rewrite Eg. Qed.
  Lemma core_successors u : successors s' u = successors s u.
  Proof. unfold successors. now rewrite core_adj. Qed.
  Lemma core_has_edge u v : has_edge s' u v = has_edge s u v.
  Proof. unfold has_edge. now rewrite core_adj. Qed.
  Lemma core_edge_attrs u v : edge_attrs s' u v = edge_attrs s u v.
  Proof. unfold edge_attrs. now rewrite core_adj. Qed.
  Lemma core_predecessors v : predecessors s' v = predecessors s v.
  Proof. unfold predecessors. rewrite Eg. apply filter_ext. intros u. apply core_has_edge. Qed.
  Lemma core_is_node n : is_node s' n <-> is_node s n.
  Proof. unfold is_node, node_ids. now rewrite Eg. Qed.
  Lemma core_iou_of sg u v : iou_of s' sg u v = iou_of s sg u v.
  Proof. unfold iou_of. now rewrite !core_time_of. Qed.
  Lemma core_get_pixels n : get_pixels s' n = get_pixels s n.
  Proof. unfold get_pixels. now rewrite Es, core_time_of. Qed.
  Lemma core_protected_keys : protected_keys s' = protected_keys s.
  Proof. unfold protected_keys. now rewrite Ef. Qed.

  Lemma sna_core n k v : core_eq (set_node_attr s n k v) (set_node_attr s' n k v).
  Proof.
    unfold set_node_attr. rewrite Eg. destruct (lookup n (nodes (g s))); [|exact H].
    unfold core_eq. cbn [g seg ft upd_g]. auto.
  Qed.
  Lemma sea_core u v k x : core_eq (set_edge_attr s u v k x) (set_edge_attr s' u v k x).
  Proof.
    unfold set_edge_attr. rewrite core_has_edge. destruct (has_edge s u v); [|exact H].
    unfold core_eq. cbn [g seg ft upd_g]. rewrite ?core_edge_attrs, ?core_adj, ?Eg. auto.
  Qed.
  Lemma set_pixels_core px v : res_core (set_pixels s px v) (set_pixels s' px v).
  Proof.
    unfold set_pixels. rewrite Es. destruct (seg s) as [sg|]; [|cbn; auto].
    destruct (frame_ok sg (fst px)); cbn; [|auto]. split; [reflexivity|]. unfold core_eq. cbn. auto.
  Qed.
End CoreReaders.

Lemma set_attrs_core s s' n a : core_eq s s' -> core_eq (set_attrs s n a) (set_attrs s' n a).
Proof. unfold set_attrs. apply fold_rel. intros x x' kv Hx. now apply sna_core. Qed.

Lemma rp_update_core s s' n : core_eq s s' -> core_eq (rp_update s n) (rp_update s' n).
Proof.
  intros H. unfold rp_update. pose proof H as (Eg & Es & Ef). rewrite Es, Ef, (core_time_of _ _ H).
  destruct (seg s) as [sg|]; [|exact H]. apply fold_rel; [|exact H]. intros x x' k Hx. now apply sna_core.
Qed.

Lemma iou_update_edges_core s s' es : core_eq s s' -> core_eq (iou_update_edges s es) (iou_update_edges s' es).
Proof.
  intros H. unfold iou_update_edges. pose proof H as (Eg & Es & Ef). rewrite Es, Ef.
  destruct (seg s) as [sg|]; [|exact H]. destruct (iou_act (ft s)); [|exact H].
  apply fold_rel; [|exact H]. intros x x' e Hx. rewrite (core_iou_of _ _ Hx). now apply sea_core.
Qed.

Lemma do_add_edge_core s s' u v a : core_eq s s' -> res_core (do_add_edge s u v a) (do_add_edge s' u v a).
Proof.
  intros H. unfold do_add_edge. rewrite !(core_has_node _ _ H).
  destruct (negb (has_node s u)); [cbn; auto|]. destruct (negb (has_node s v)); [cbn; auto|].
  cbn. split; [reflexivity|]. apply iou_update_edges_core. pose proof H as (Eg & Es & Ef).
  unfold core_eq. cbn [g seg ft upd_g]. rewrite ?(core_edge_attrs _ _ H), ?(core_adj _ _ H), ?Eg. auto.
Qed.

Lemma do_del_edge_core s s' u v : core_eq s s' -> res_core (do_del_edge s u v) (do_del_edge s' u v).
Proof.
  intros H. unfold do_del_edge. rewrite (core_has_edge _ _ H).
  destruct (negb (has_edge s u v)); [cbn; auto|]. pose proof H as (Eg & Es & Ef).
  cbn. rewrite Ef, (core_edge_attrs _ _ H). split; [reflexivity|].
  unfold core_eq. cbn [g seg ft upd_g]. rewrite (core_adj _ _ H), ?Eg. auto.
Qed.

Lemma do_upd_attrs_core s s' n new : core_eq s s' -> res_core (do_upd_attrs s n new) (do_upd_attrs s' n new).
Proof.
  intros H. unfold do_upd_attrs. rewrite (core_protected_keys _ _ H). pose proof H as (Eg & Es & Ef).
  destruct (existsb _ new); [cbn; auto|]. rewrite Eg. destruct (lookup n (nodes (g s))).
  - cbn. split; [reflexivity|]. now apply (set_attrs_core s s' n new).
  - destruct new; cbn; auto.
Qed.

Lemma do_upd_seg_core s s' n px added : core_eq s s' -> res_core (do_upd_seg s n px added) (do_upd_seg s' n px added).
Proof.
  intros H. unfold do_upd_seg. apply bind_core; [now apply set_pixels_core|].
  intros _ x x' Hx. rewrite (core_has_node _ _ Hx). pose proof Hx as (Eg & Es & Ef). rewrite Ef.
  destruct (negb (has_node x n) && _); [cbn; auto|]. destruct (negb (has_node x n) && _); [cbn; auto|].
  cbn. split; [reflexivity|]. pose proof (rp_update_core _ _ n Hx) as Hr.
  rewrite (core_predecessors _ _ Hr), (core_successors _ _ Hr). now apply iou_update_edges_core.
Qed.

Lemma add_node_graph_core s s' n a : core_eq s s' -> core_eq (add_node_graph s n a) (add_node_graph s' n a).
Proof.
  intros H. unfold add_node_graph. cbv zeta. apply rp_update_core.
  apply (set_attrs_core _ _ n a). pose proof H as (Eg & Es & Ef). rewrite Eg.
  destruct (haskey n (nodes (g s))); [exact H|]. unfold core_eq. cbn [g seg ft upd_g]. auto.
Qed.

Lemma add_node_tail_core s s' n a px : core_eq s s' -> res_core (add_node_tail s n a px) (add_node_tail s' n a px).
Proof.
  intros H. unfold add_node_tail. pose proof H as (Eg & Es & Ef). rewrite Ef, !(core_zattr _ _ H).
  destruct (negb (trk_act (ft s))); [cbn; auto|]. destruct (zattr s n KTrack); [|cbn; auto].
  destruct (lin_act (ft s)); [destruct (zattr s n KLin)|]; cbn; (split; [reflexivity|]);
    (eapply core_eq_trans; [apply core_eq_sym, core_eq_upd_bk|]; eapply core_eq_trans; [exact H|apply core_eq_upd_bk]).
Qed.

Lemma do_add_node_core s s' n a px : core_eq s s' -> res_core (do_add_node s n a px) (do_add_node s' n a px).
Proof.
  intros H. rewrite !do_add_node_eq. pose proof H as (Eg & Es & Ef). rewrite Ef.
  destruct (negb (haskey KTime a)); [cbn; auto|]. destruct (negb (haskey KTrack a)); [cbn; auto|].
  destruct (match px with None => _ | Some _ => false end); [cbn; auto|].
  apply bind_core.
  - destruct px as [p|]; [now apply set_pixels_core|cbn; auto].
  - intros _ x x' Hx. apply add_node_tail_core. now apply add_node_graph_core.
Qed.

Lemma del_node_tail_core s s' n saved px : core_eq s s' -> res_core (del_node_tail s n saved px) (del_node_tail s' n saved px).
Proof.
  intros H. unfold del_node_tail. pose proof H as (Eg & Es & Ef). rewrite Ef.
  destruct (negb (trk_act (ft s))); [cbn; auto|]. cbn. split; [reflexivity|].
  eapply core_eq_trans; [apply core_eq_sym, core_eq_upd_bk|]; eapply core_eq_trans; [exact H|apply core_eq_upd_bk].
Qed.

Lemma do_del_node_core s s' n pxo : core_eq s s' -> res_core (do_del_node s n pxo) (do_del_node s' n pxo).
Proof.
  intros H. rewrite !do_del_node_eq. pose proof H as (Eg & Es & Ef). rewrite Eg, Ef, (core_get_pixels _ _ H).
  destruct (lookup n (nodes (g s))) as [d|]; [|cbn; auto]. cbv zeta.
  apply bind_core.
  - destruct (match pxo with Some p => Some p | None => get_pixels s n end) as [p|]; [now apply set_pixels_core|cbn; auto].
  - intros _ x x' Hx. apply del_node_tail_core. pose proof Hx as (Eg' & Es' & Ef').
    unfold del_node_graph, core_eq. cbn [g seg ft upd_g]. rewrite Eg'. auto.
Qed.

(* the relabelling walk *)
Definition acc_core (a a' : state * bool * list Z * list Z * list Z) : Prop :=
  let '(s, f, tn, ln, nx) := a in let '(s', f', tn', ln', nx') := a' in
  core_eq s s' /\ f = f' /\ tn = tn' /\ ln = ln' /\ nx = nx'.

Lemma visit_core oldT newT newL a a' n : acc_core a a' -> acc_core (visit oldT newT newL a n) (visit oldT newT newL a' n).
Proof.
  destruct a as [[[[s f] tn] ln] nx], a' as [[[[s' f'] tn'] ln'] nx']. intros (H & <- & <- & <- & <-).
  unfold visit. destruct newL as [l|].
  - pose proof (sna_core _ _ H n KLin (VZ l)) as H1. destruct f.
    + rewrite (core_zattr _ _ H1). destruct (match zattr _ n KTrack with Some t => t =? oldT | None => false end).
      * pose proof (sna_core _ _ H1 n KTrack (VZ newT)) as H2. cbn. rewrite (core_successors _ _ H2). auto.
      * cbn. rewrite (core_successors _ _ H1). auto.
    + cbn. rewrite (core_successors _ _ H1). auto.
  - destruct f.
    + rewrite (core_zattr _ _ H). destruct (match zattr _ n KTrack with Some t => t =? oldT | None => false end).
      * pose proof (sna_core _ _ H n KTrack (VZ newT)) as H2. cbn. rewrite (core_successors _ _ H2). auto.
      * cbn. rewrite (core_successors _ _ H). auto.
    + cbn. rewrite (core_successors _ _ H). auto.
Qed.

Lemma walk_core oldT newT newL : forall fuel s s' curr flag tn ln, core_eq s s' ->
  match walk fuel oldT newT newL s curr flag tn ln, walk fuel oldT newT newL s' curr flag tn ln with
  | Some (s1, tn1, ln1), Some (s1', tn1', ln1') => core_eq s1 s1' /\ bk s1 = bk s /\ bk s1' = bk s' /\ tn1 = tn1' /\ ln1 = ln1'
  | None, None => True
  | _, _ => False
  end.
Proof.
  induction fuel as [|f IH]; intros s s' curr flag tn ln H.
  - destruct curr; cbn; auto.
  - destruct curr as [|c cs]; [cbn; auto|]. cbn [walk].
    pose proof (fold_rel acc_core (visit oldT newT newL) (visit_core oldT newT newL) (c :: cs) (s, flag, tn, ln, []) (s', flag, tn, ln, [])) as Hf.
    assert (Hb : forall l a, bk (fst (fst (fst (fst (fold_left (visit oldT newT newL) l a))))) = bk (fst (fst (fst (fst a))))).
    { induction l as [|x r IHl]; intros a; cbn [fold_left]; [reflexivity|]. rewrite IHl.
      destruct a as [[[[sa fa] tna] lna] nxa]. unfold visit. cbn [fst].
      destruct newL as [l0|]; destruct fa;
        try destruct (match zattr _ x KTrack with Some t => t =? oldT | None => false end); cbn [fst]; rewrite ?sna_bk; reflexivity. }
    pose proof (Hb (c :: cs) (s, flag, tn, ln, [])) as Hb1. pose proof (Hb (c :: cs) (s', flag, tn, ln, [])) as Hb2. cbn [fst] in Hb1, Hb2.
    destruct (fold_left (visit oldT newT newL) (c :: cs) (s, flag, tn, ln, [])) as [[[[s1 f1] tn1] ln1] nx1].
    destruct (fold_left (visit oldT newT newL) (c :: cs) (s', flag, tn, ln, [])) as [[[[s1' f1'] tn1'] ln1'] nx1'].
    cbn [fst] in Hb1, Hb2.
    destruct Hf as (H1 & <- & <- & <- & <-); [cbn; auto|].
    specialize (IH s1 s1' nx1 f1 tn1 ln1 H1).
    destruct (walk f oldT newT newL s1 nx1 f1 tn1 ln1) as [[[s2 tn2] ln2]|], (walk f oldT newT newL s1' nx1 f1 tn1 ln1) as [[[s2' tn2'] ln2']|]; auto.
    destruct IH as (A & B & C & D & E). split; [exact A|]. split; [congruence|]. split; [congruence|]. split; assumption.
Qed.

Lemma do_upd_track_core s s' start newT newL : core_eq s s' ->
  res_core (do_upd_track s start newT newL) (do_upd_track s' start newT newL).
Proof.
  intros H. unfold do_upd_track. pose proof H as (Eg & Es & Ef). rewrite (core_has_node _ _ H), !(core_zattr _ _ H), Ef, Eg.
  destruct (negb (has_node s start)); [cbn; auto|]. destruct (zattr s start KTrack) as [oldT|]; [|cbn; auto].
  destruct (negb (trk_act (ft s))); [cbn; auto|].
  pose proof (walk_core oldT newT (if lin_act (ft s) then newL else None) (S (length (nodes (g s)))) s s' [start] true [] [] H) as W.
  destruct (walk _ oldT newT _ s [start] true [] []) as [[[s1 tn1] ln1]|], (walk _ oldT newT _ s' [start] true [] []) as [[[s1' tn1'] ln1']|];
    try contradiction; [|cbn; auto].
  destruct W as (A & _ & _ & <- & <-).
  destruct (if lin_act (ft s) then newL else None); cbn; (split; [reflexivity|]);
    (eapply core_eq_trans; [apply core_eq_sym, core_eq_upd_bk|]; eapply core_eq_trans; [exact A|apply core_eq_upd_bk]).
Qed.

Lemma inv_basic_core s s' b : core_eq s s' -> res_core (inv_basic s b) (inv_basic s' b).
Proof.
  intros H. destruct b; cbn [inv_basic].
  - now apply do_del_node_core.
  - now apply do_add_node_core.
  - now apply do_del_edge_core.
  - now apply do_add_edge_core.
  - now apply do_upd_attrs_core.
  - now apply do_upd_seg_core.
  - now apply do_upd_track_core.
Qed.

Lemma inv_basic_at st1 s b b' st2 : core_eq st1 s -> inv_basic st1 b = Ok b' st2 ->
  exists s2, inv_basic s b = Ok b' s2 /\ core_eq st2 s2.
Proof. intros H E. exact (res_core_ok _ _ _ _ (inv_basic_core _ _ b H) E). Qed.

(* ================================================================== *)
(* 3. dictionary facts: writing a key twice, deleting what was added     *)
(* ================================================================== *)
Section DictMore.
Context {V : Type}.
Implicit Types (d : dict V) (k : Z).

Lemma set_set_eq k (v v' : V) d : set k v (set k v' d) = set k v d.
Proof.
  induction d as [|[k1 v1] r IH]; cbn; [now rewrite Z.eqb_refl|].
  destruct (Z.eqb_spec k k1) as [->|Hn]; cbn; [now rewrite Z.eqb_refl|].
  destruct (Z.eqb_spec k k1); [contradiction|]. now rewrite IH.
Qed.
Lemma set_same k (v : V) d : lookup k d = Some v -> set k v d = d.
Proof.
  induction d as [|[k1 v1] r IH]; cbn; [discriminate|].
  destruct (Z.eqb_spec k k1) as [->|Hn]; [intros [= ->]; reflexivity|]. intros E. now rewrite IH.
Qed.
Lemma del_notin k d : ~ In k (keys d) -> del k d = d.
Proof.
  induction d as [|[k1 v1] r IH]; cbn; [reflexivity|]. intros Hn.
  destruct (Z.eqb_spec k k1) as [->|Hne]; [exfalso; apply Hn; now left|]. rewrite IH; [reflexivity|]. intros Hi. apply Hn. now right.
Qed.
Lemma del_set_eq k (v : V) d : del k (set k v d) = del k d.
Proof.
  induction d as [|[k1 v1] r IH]; cbn; [now rewrite Z.eqb_refl|].
  destruct (Z.eqb_spec k k1) as [->|Hn]; cbn; [now rewrite Z.eqb_refl|].
  destruct (Z.eqb_spec k k1); [contradiction|]. now rewrite IH.
Qed.
Lemma del_set_new k (v : V) d : ~ In k (keys d) -> del k (set k v d) = d.
Proof. intros H. rewrite del_set_eq. now apply del_notin. Qed.
Lemma del_app k d e : del k (d ++ e) = del k d ++ del k e.
Proof. induction d as [|[k1 v1] r IH]; cbn; [reflexivity|]. destruct (k =? k1); [exact IH|]. cbn. now rewrite IH. Qed.
Lemma set_notin k (v : V) d : ~ In k (keys d) -> set k v d = d ++ [(k, v)].
Proof.
  induction d as [|[k1 v1] r IH]; cbn; [reflexivity|]. intros Hn.
  destruct (Z.eqb_spec k k1) as [->|Hne]; [exfalso; apply Hn; now left|]. rewrite IH; [reflexivity|]. intros Hi. apply Hn. now right.
Qed.
Lemma haskey_set k k' (x : V) d : haskey k (set k' x d) = (k =? k') || haskey k d.
Proof. unfold haskey. destruct (Z.eqb_spec k k') as [->|Hne]; [now rewrite lookup_set_eq|]. now rewrite lookup_set_neq. Qed.
Lemma haskey_del k k' d : haskey k (del k' d) = negb (k =? k') && haskey k d.
Proof. unfold haskey. destruct (Z.eqb_spec k k') as [->|Hne]; [now rewrite lookup_del_eq|]. now rewrite lookup_del_neq. Qed.
Lemma getd_del_neq k k' d dflt : k <> k' -> getd k (del k' d) dflt = getd k d dflt.
Proof. intros H. unfold getd. now rewrite lookup_del_neq. Qed.
Lemma getd_del_eq k d dflt : getd k (del k d) dflt = dflt.
Proof. unfold getd. now rewrite lookup_del_eq. Qed.

(* d.update(e): a key all of whose bindings in e carry the same value ends up with that value *)
Lemma update_lookup_in k (v : V) (e : dict V) : forall d, (forall v', In (k, v') e -> v' = v) ->
  (In k (keys e) \/ lookup k d = Some v) -> lookup k (update d e) = Some v.
Proof.
  unfold update. induction e as [|[k1 v1] r IH]; intros d Hall Hc; cbn [fold_left fst snd].
  - destruct Hc as [[]|Hc]. exact Hc.
  - apply IH; [intros v' Hv'; apply Hall; now right|].
    destruct (Z.eq_dec k k1) as [<-|Hne].
    + right. rewrite (Hall v1 (or_introl eq_refl)). apply lookup_set_eq.
    + destruct Hc as [[E|Hc]|Hc]; [cbn in E; congruence|now left|right]. now rewrite lookup_set_neq.
Qed.
Lemma update_lookup_notin k (e : dict V) : forall d, ~ In k (keys e) -> lookup k (update d e) = lookup k d.
Proof.
  unfold update. induction e as [|[k1 v1] r IH]; intros d Hn; cbn [fold_left fst snd]; [reflexivity|].
  rewrite IH by (intros Hi; apply Hn; now right). apply lookup_set_neq. intros ->. apply Hn. now left.
Qed.
End DictMore.

Lemma graph_eta (x : graph) : {| nodes := nodes x; succs := succs x |} = x.
Proof. now destruct x. Qed.

(* what DeleteNode / DeleteEdge save: the registered attributes that are not None *)
Lemma saved_attrs_in reg d k v : In (k, v) (saved_attrs reg d) -> In k reg /\ lookup k d = Some v /\ v <> VNone.
Proof.
  unfold saved_attrs.
  assert (G : forall reg acc, In (k, v) (fold_left (fun acc k => match lookup k d with Some VNone => acc | Some v => acc ++ [(k, v)] | None => acc end) reg acc) ->
     In (k, v) acc \/ (In k reg /\ lookup k d = Some v /\ v <> VNone)).
  { intros reg0. induction reg0 as [|k1 r IH]; intros acc Hin; cbn [fold_left] in Hin; [now left|].
    apply IH in Hin. destruct Hin as [Hin|(A & B & C)]; [|right; split; [now right|auto]].
    destruct (lookup k1 d) as [x|] eqn:E; [|now left].
    destruct x; try (apply in_app_iff in Hin; destruct Hin as [Hin|[Hin|[]]]; [now left|injection Hin as <- <-; right; split; [now left|split; [exact E|discriminate]]]).
    now left. }
  intros Hin. apply G in Hin. destruct Hin as [[]|Hin]. exact Hin.
Qed.
Lemma saved_attrs_keys reg d k : In k (keys (saved_attrs reg d)) <-> In k reg /\ exists v, lookup k d = Some v /\ v <> VNone.
Proof.
  split.
  - intros Hk. unfold keys in Hk. apply in_map_iff in Hk. destruct Hk as ([k' v] & <- & Hin). apply saved_attrs_in in Hin.
    destruct Hin as (A & B & C). split; [exact A|now exists v].
  - intros (Hk & v & E & Hv). apply lookup_Some_keys with (v := v). apply saved_attrs_lookup; assumption.
Qed.

(* the observation of a saved-and-restored attribute dictionary *)
Lemma obs_saved reg d k (x : option value) :
  In k reg ->
  (forall v, lookup k d = Some v -> v <> VNone -> x = Some v) ->
  ((lookup k d = None \/ lookup k d = Some VNone) -> x = None) ->
  match x with Some VNone => None | y => y end = match lookup k d with Some VNone => None | y => y end.
Proof.
  intros Hk H1 H2. destruct (lookup k d) as [v|] eqn:E.
  - destruct v; try (rewrite (H1 _ eq_refl) by discriminate; reflexivity). rewrite H2 by (now right). reflexivity.
  - rewrite H2 by (now left). reflexivity.
Qed.

(* ================================================================== *)
(* 4. AddEdge / DeleteEdge                                               *)
(* ================================================================== *)
Lemma adj_row st st' u row : succs (g st') = set u row (succs (g st)) -> forall a, adj st' a = if a =? u then row else adj st a.
Proof. intros Hs a. unfold adj. rewrite Hs. destruct (Z.eqb_spec a u) as [->|Hne]; [apply getd_set_eq|now apply getd_set_neq]. Qed.

Lemma succs_put st st' u v x : succs (g st') = set u (set v x (adj st u)) (succs (g st)) ->
  (forall a b, has_edge st' a b = ((a =? u) && (b =? v)) || has_edge st a b) /\
  (forall a b, edge_attrs st' a b = if (a =? u) && (b =? v) then x else edge_attrs st a b).
Proof.
  intros Hs. split; intros a b; unfold has_edge, edge_attrs; rewrite (adj_row st st' u _ Hs a).
  - destruct (Z.eqb_spec a u) as [->|Hne]; cbn [andb orb]; [|reflexivity]. apply haskey_set.
  - destruct (Z.eqb_spec a u) as [->|Hne]; cbn [andb]; [|reflexivity].
    destruct (Z.eqb_spec b v) as [->|Hne]; [apply getd_set_eq|now apply getd_set_neq].
Qed.
Lemma succs_drop st st' u v : succs (g st') = set u (del v (adj st u)) (succs (g st)) ->
  (forall a b, has_edge st' a b = negb ((a =? u) && (b =? v)) && has_edge st a b) /\
  (forall a b, edge_attrs st' a b = if (a =? u) && (b =? v) then [] else edge_attrs st a b).
Proof.
  intros Hs. split; intros a b; unfold has_edge, edge_attrs; rewrite (adj_row st st' u _ Hs a).
  - destruct (Z.eqb_spec a u) as [->|Hne]; cbn [andb negb]; [|reflexivity]. apply haskey_del.
  - destruct (Z.eqb_spec a u) as [->|Hne]; cbn [andb]; [|reflexivity].
    destruct (Z.eqb_spec b v) as [->|Hne]; [apply getd_del_eq|now apply getd_del_neq].
Qed.

(* AddEdge, exactly: the row of u gets (v, X), where X is the updated attribute dictionary
   with the IoU the annotator computes written on top when that feature is active *)
Lemma add_edge_char st u v a b st1 : do_add_edge st u v a = Ok b st1 ->
  b = BAddEdge u v a /\ is_node st u /\ is_node st v /\
  nodes (g st1) = nodes (g st) /\ seg st1 = seg st /\ ft st1 = ft st /\ bk st1 = bk st /\
  exists X, succs (g st1) = set u (set v X (adj st u)) (succs (g st)) /\
    match seg st with
    | Some sg => if iou_act (ft st) then X = set KIou (iou_of st sg u v) (update (edge_attrs st u v) a)
                 else X = update (edge_attrs st u v) a
    | None => X = update (edge_attrs st u v) a
    end.
Proof.
  unfold do_add_edge. destruct (has_node st u) eqn:Eu; [|discriminate]. destruct (has_node st v) eqn:Ev; [|discriminate].
  cbn [negb]. intros H. injection H as <- <-.
  split; [reflexivity|]. split; [now apply has_node_is_node|]. split; [now apply has_node_is_node|].
  set (ea := update (edge_attrs st u v) a).
  set (s1 := upd_g st {| nodes := nodes (g st); succs := set u (set v ea (adj st u)) (succs (g st)) |}).
  pose proof (iou_update_edges_upd s1 [(u, v)]) as U.
  split; [now rewrite (eu_nodes _ _ U)|]. split; [now rewrite (eu_seg _ _ U)|]. split; [now rewrite (eu_ft _ _ U)|].
  split; [now rewrite (eu_bk _ _ U)|]. clear U.
  unfold iou_update_edges. change (seg s1) with (seg st). change (ft s1) with (ft st).
  destruct (seg st) as [sg|].
  2:{ exists ea. split; reflexivity. }
  destruct (iou_act (ft st)).
  2:{ exists ea. split; reflexivity. }
  cbn [fold_left fst snd].
  assert (He : has_edge s1 u v = true).
  { unfold has_edge, adj, s1. cbn [g succs upd_g]. rewrite getd_set_eq. apply haskey_set_eq. }
  unfold set_edge_attr. rewrite He. cbn [g nodes succs seg ft bk upd_g].
  exists (set KIou (iou_of st sg u v) ea). split.
  - assert (Ea : adj s1 u = set v ea (adj st u)) by (unfold adj, s1; cbn [g succs upd_g]; apply getd_set_eq).
    assert (Ee : edge_attrs s1 u v = ea) by (unfold edge_attrs; rewrite Ea; apply getd_set_eq).
    rewrite Ee, Ea. unfold s1 at 2. cbn [g succs upd_g]. rewrite !set_set_eq.
    replace (iou_of s1 sg u v) with (iou_of st sg u v); [reflexivity|]. reflexivity.
  - reflexivity.
Qed.

Lemma del_edge_char st u v b st1 : do_del_edge st u v = Ok b st1 ->
  b = BDelEdge u v (saved_attrs (reg_edge (ft st)) (edge_attrs st u v)) /\ has_edge st u v = true /\
  nodes (g st1) = nodes (g st) /\ seg st1 = seg st /\ ft st1 = ft st /\ bk st1 = bk st /\
  succs (g st1) = set u (del v (adj st u)) (succs (g st)).
Proof.
  unfold do_del_edge. destruct (has_edge st u v) eqn:E; [|discriminate]. cbn [negb]. intros H. injection H as <- <-.
  cbn. repeat split; reflexivity.
Qed.

(* AddEdge of an edge that was not there, then its inverse: the graph is literally restored *)
Theorem add_edge_inverse st u v a b st1 :
  W_dict st -> has_edge st u v = false -> do_add_edge st u v a = Ok b st1 ->
  exists b' st2, inv_basic st1 b = Ok b' st2 /\ core_eq st st2 /\ bk st2 = bk st.
Proof.
  intros WD Hne H. destruct (add_edge_char _ _ _ _ _ _ H) as (-> & Nu & Nv & En & Es & Ef & Eb & X & Esu & _).
  destruct (succs_put st st1 u v X Esu) as [P1 P2].
  cbn [inv_basic]. unfold do_del_edge. rewrite P1, !Z.eqb_refl. cbn [andb orb negb].
  eexists _, _. split; [reflexivity|]. split; [|cbn; exact Eb].
  unfold core_eq. cbn [g seg ft upd_g]. split; [|auto].
  rewrite (adj_row st st1 u _ Esu u), Z.eqb_refl, Esu, set_set_eq, En.
  rewrite del_set_new.
  - rewrite set_same; [apply graph_eta|].
    apply (wd_succ_keys st WD) in Nu. unfold adj, getd. unfold haskey in Nu. destruct (lookup u (succs (g st))); [reflexivity|discriminate].
  - intros Hi. apply haskey_keys in Hi. unfold has_edge in Hne. congruence.
Qed.

Definition iou_fresh_at (st : state) (u v : Z) : Prop :=
  forall sg, seg st = Some sg -> iou_act (ft st) = true -> lookup KIou (edge_attrs st u v) = Some (iou_of st sg u v).

Lemma W_fresh_iou_at st u v : W_fresh st -> edge st u v -> iou_fresh_at st u v.
Proof. intros W He sg Hs Ha. unfold W_fresh in W. rewrite Hs in W. now apply (proj2 W). Qed.

(* DeleteEdge, then its inverse: same observation (the edge moves to the end of u's adjacency,
   unregistered attributes of the edge are gone) *)
Theorem del_edge_inverse st u v b st1 :
  W_dict st -> iou_fresh_at st u v -> do_del_edge st u v = Ok b st1 ->
  exists b' st2, inv_basic st1 b = Ok b' st2 /\ obs_eq st st2 /\ nodes (g st2) = nodes (g st) /\ bk st2 = bk st.
Proof.
  intros WD Hio H. destruct (del_edge_char _ _ _ _ _ H) as (-> & He & En & Es & Ef & Eb & Esu).
  destruct (succs_drop st st1 u v Esu) as [D1 D2].
  destruct (wd_edge_nodes st WD u v He) as [Nu Nv].
  cbn [inv_basic].
  destruct (do_add_edge st1 u v (saved_attrs (reg_edge (ft st)) (edge_attrs st u v))) as [b' st2|e st2] eqn:H2.
  2:{ exfalso. unfold do_add_edge in H2. unfold has_node in H2. rewrite En in H2.
      apply has_node_is_node in Nu. apply has_node_is_node in Nv. unfold has_node in Nu, Nv. rewrite Nu, Nv in H2. discriminate. }
  exists b', st2. split; [reflexivity|].
  destruct (add_edge_char _ _ _ _ _ _ H2) as (_ & _ & _ & En2 & Es2 & Ef2 & Eb2 & X & Esu2 & HX).
  destruct (succs_put st1 st2 u v X Esu2) as [P1 P2].
  split; [|split; [congruence|congruence]].
  constructor.
  - intros n. unfold is_node, node_ids. now rewrite En2, En.
  - intros a c. rewrite P1, D1. destruct ((a =? u) && (c =? v)) eqn:E; cbn [negb andb orb]; [|reflexivity].
    apply andb_true_iff in E. destruct E as [E1 E2]. apply Z.eqb_eq in E1, E2. now subst.
  - intros n k _. unfold attr_obs, attr, node_attrs. now rewrite En2, En.
  - intros a c k Hk. unfold eattr_obs. rewrite P2, D2. destruct ((a =? u) && (c =? v)) eqn:E; [|reflexivity].
    apply andb_true_iff in E. destruct E as [E1 E2]. apply Z.eqb_eq in E1, E2. subst a c.
    set (d := edge_attrs st u v) in *. set (sv := saved_attrs (reg_edge (ft st)) d) in *.
    assert (Hup : forall w, lookup k d = Some w -> w <> VNone -> lookup k (update [] sv) = Some w).
    { intros w E Hw. apply update_lookup_in.
      - intros w' Hin. apply saved_attrs_in in Hin. destruct Hin as (_ & E' & _). congruence.
      - left. apply saved_attrs_keys. split; [exact Hk|now exists w]. }
    assert (Hno : (lookup k d = None \/ lookup k d = Some VNone) -> lookup k (update [] sv) = None).
    { intros Hc. rewrite update_lookup_notin; [reflexivity|]. intros Hi. apply saved_attrs_keys in Hi.
      destruct Hi as (_ & w & E & Hw). destruct Hc as [Hc|Hc]; congruence. }
    assert (Ee1 : edge_attrs st1 u v = []) by (rewrite D2, !Z.eqb_refl; reflexivity).
    rewrite Ee1, Es, Ef in HX.
    destruct (seg st) as [sg|] eqn:Esg; [destruct (iou_act (ft st)) eqn:Eact|]; subst X; try (apply (obs_saved _ _ _ _ Hk Hup Hno)).
    destruct (Z.eq_dec k KIou) as [->|Hne].
    + rewrite lookup_set_eq. unfold d. rewrite (Hio sg Esg Eact).
      replace (iou_of st1 sg u v) with (iou_of st sg u v); [reflexivity|].
      unfold iou_of, time_of, zattr, attr, node_attrs. now rewrite En.
    + rewrite lookup_set_neq by exact Hne. apply (obs_saved _ _ _ _ Hk Hup Hno).
  - congruence.
  - congruence.
Qed.
