(* C01: every edit is exactly invertible.
   1. the observation equivalence [obs_eq] (pointwise; an explicit None and an absent
      attribute are the same observation) and the finer [core_eq] (graph, array and feature
      table literally equal; only the lookups, the history and the counters may differ);
   2. every basic action reads and writes the core only ([*_core] congruence lemmas);
   3. the inverse laws of the seven basic actions;
   4. the composition principle for groups;
   5. UserDeleteEdge / UserAddEdge. *)
From Coq Require Import ZArith List Bool Lia.
From FT Require Import Base.Dict Model.Edit Proofs.DictLemmas Proofs.EditInv Proofs.BookLemmas Proofs.EditBook.
Import ListNotations.
Open Scope Z_scope.

(* ================================================================== *)
(* 1. observations                                                      *)
(* ================================================================== *)
(* get_node_attr / get_edge_attr return None both for a missing key and for a stored None *)
Definition obsv (o : option value) : option value :=
  match o with Some VNone => None | Some v => Some v | None => None end.
Definition attr_obs (st : state) (n k : Z) : option value := obsv (attr st n k).
Definition eattr_obs (st : state) (u v k : Z) : option value := obsv (lookup k (edge_attrs st u v)).
Lemma attr_obs_eq st n k : attr_obs st n k = match attr st n k with Some VNone => None | x => x end.
Proof. unfold attr_obs, obsv. destruct (attr st n k) as [[]|]; reflexivity. Qed.

Record obs_eq (s s' : state) : Prop := {
  oe_nodes : forall n, is_node s' n <-> is_node s n;
  oe_edges : forall u v, has_edge s' u v = has_edge s u v;
  oe_nattr : forall n k, In k (reg_node (ft s)) -> attr_obs s' n k = attr_obs s n k;
  oe_eattr : forall u v k, In k (reg_edge (ft s)) -> eattr_obs s' u v k = eattr_obs s u v k;
  oe_seg : seg s' = seg s;
  oe_ft : ft s' = ft s
}.

Lemma obs_eq_refl s : obs_eq s s.
Proof. constructor; intros; reflexivity. Qed.

Lemma obs_eq_sym s s' : obs_eq s s' -> obs_eq s' s.
Proof.
  intros [A B C D E F]. constructor.
  - intros n. symmetry. apply A.
  - intros u v. symmetry. apply B.
  - intros n k Hk. rewrite F in Hk. symmetry. now apply C.
  - intros u v k Hk. rewrite F in Hk. symmetry. now apply D.
  - now symmetry.
  - now symmetry.
Qed.

Lemma obs_eq_trans a b c : obs_eq a b -> obs_eq b c -> obs_eq a c.
Proof.
  intros [A1 B1 C1 D1 E1 F1] [A2 B2 C2 D2 E2 F2]. constructor.
  - intros n. rewrite A2. apply A1.
  - intros u v. rewrite B2. apply B1.
  - intros n k Hk. rewrite C2 by (now rewrite F1). now apply C1.
  - intros u v k Hk. rewrite D2 by (now rewrite F1). now apply D1.
  - congruence.
  - congruence.
Qed.

(* the core of a state: everything the observations (and the basic actions' control flow) read *)
Definition core_eq (s s' : state) : Prop := g s' = g s /\ seg s' = seg s /\ ft s' = ft s.

Lemma core_eq_refl s : core_eq s s.
Proof. unfold core_eq. auto. Qed.
Lemma core_eq_sym s s' : core_eq s s' -> core_eq s' s.
Proof. unfold core_eq. intros (A & B & C). auto. Qed.
Lemma core_eq_trans a b c : core_eq a b -> core_eq b c -> core_eq a c.
Proof. unfold core_eq. intros (A & B & C) (A' & B' & C'). repeat split; congruence. Qed.

Lemma core_eq_obs s s' : core_eq s s' -> obs_eq s s'.
Proof.
  intros (A & B & C). constructor; auto.
  - intros n. unfold is_node, node_ids. now rewrite A.
  - intros u v. unfold has_edge, adj. now rewrite A.
  - intros n k _. unfold attr_obs, attr, node_attrs. now rewrite A.
  - intros u v k _. unfold eattr_obs, edge_attrs, adj. now rewrite A.
Qed.

Lemma core_eq_upd_bk s b : core_eq s (upd_bk s b).
Proof. unfold core_eq. auto. Qed.

(* the invariants only speak about the core *)
Lemma core_W_dict s s' : core_eq s s' -> W_dict s -> W_dict s'.
Proof. intros (A & _). now apply W_dict_same_g. Qed.
Lemma core_cfg_ok s s' : core_eq s s' -> cfg_ok s -> cfg_ok s'.
Proof. intros (_ & _ & C). unfold cfg_ok. now rewrite C. Qed.
Lemma core_rp_disjoint s s' : core_eq s s' -> rp_disjoint s -> rp_disjoint s'.
Proof. intros (_ & _ & C). unfold rp_disjoint. now rewrite C. Qed.
Lemma core_W_forest s s' : core_eq s s' -> W_forest s -> W_forest s'.
Proof.
  intros (A & _) [F1 F2 F3].
  assert (E : forall u v, edge s' u v <-> edge s u v) by (intros u v; unfold edge, has_edge, adj; now rewrite A).
  assert (T : forall n, time_of s' n = time_of s n) by (intros n; unfold time_of, zattr, attr, node_attrs; now rewrite A).
  constructor.
  - intros u u' v H1 H2. apply (F1 u u' v); now apply E.
  - intros u. unfold successors, adj. rewrite A. apply F2.
  - intros u v H. rewrite !T. apply F3. now apply E.
Qed.
Lemma core_W_lin s s' : core_eq s s' -> W_lin s -> W_lin s'.
Proof.
  intros (A & _) [L1 L2].
  assert (E : forall u v, edge s' u v <-> edge s u v) by (intros u v; unfold edge, has_edge, adj; now rewrite A).
  assert (L : forall n, lin s' n = lin s n) by (intros n; unfold lin, zattr, attr, node_attrs; now rewrite A).
  assert (N : forall n, is_node s' n <-> is_node s n) by (intros n; unfold is_node, node_ids; now rewrite A).
  constructor.
  - intros u v H. rewrite !L. apply L1. now apply E.
  - intros a b [Ha Ha'] [Hb Hb'] H. rewrite !L in H. apply L2; [split|split|exact H].
    + now apply N.
    + intros p Hp. apply (Ha' p). now apply E.
    + now apply N.
    + intros p Hp. apply (Hb' p). now apply E.
Qed.
Lemma core_W_seg s s' : core_eq s s' -> W_seg s -> W_seg s'.
Proof.
  intros (A & B & _). unfold W_seg, is_node, node_ids, time_of, zattr, attr, node_attrs. now rewrite A, B.
Qed.
Lemma core_W_fresh s s' : core_eq s s' -> W_fresh s -> W_fresh s'.
Proof.
  intros (A & B & C).
  unfold W_fresh, is_node, node_ids, edge, has_edge, edge_attrs, adj, iou_of, time_of, zattr, attr, node_attrs.
  now rewrite A, B, C.
Qed.

(* ================================================================== *)
(* 2. the basic actions read and write the core only                    *)
(* ================================================================== *)
Definition res_core {A} (r r' : res A) : Prop :=
  match r, r' with
  | Ok a s, Ok a' s' => a = a' /\ core_eq s s'
  | Err e s, Err e' s' => e = e' /\ core_eq s s'
  | _, _ => False
  end.

Lemma res_core_ok {A} (r r' : res A) a s : res_core r r' -> r = Ok a s -> exists s', r' = Ok a s' /\ core_eq s s'.
Proof. intros H ->. destruct r' as [a' s'|e' s']; cbn in H; [|contradiction]. destruct H as [<- H]. now exists s'. Qed.

Lemma bind_core {A B} (r r' : res A) (f f' : A -> state -> res B) :
  res_core r r' -> (forall a s s', core_eq s s' -> res_core (f a s) (f' a s')) -> res_core (bind r f) (bind r' f').
Proof.
  intros H Hf. destruct r as [a s|e s], r' as [a' s'|e' s']; cbn in H; try contradiction; cbn [bind].
  - destruct H as [<- H]. now apply Hf.
  - exact H.
Qed.

Lemma fold_rel {X Y} (R : Y -> Y -> Prop) (f : Y -> X -> Y) :
  (forall a a' x, R a a' -> R (f a x) (f a' x)) -> forall l a a', R a a' -> R (fold_left f l a) (fold_left f l a').
Proof. intros Hf. induction l as [|x r IH]; intros a a' H; cbn [fold_left]; [exact H|]. apply IH. now apply Hf. Qed.

Section CoreReaders.
  Variables s s' : state.
  Hypothesis H : core_eq s s'.
  Let Eg : g s' = g s. Proof. apply H. Qed.
  Let Es : seg s' = seg s. Proof. apply H. Qed.
  Let Ef : ft s' = ft s. Proof. apply H. Qed.

  Lemma core_has_node n : has_node s' n = has_node s n.
  Proof. unfold has_node. now rewrite Eg. Qed.
  Lemma core_node_attrs n : node_attrs s' n = node_attrs s n.
  Proof. unfold node_attrs. now rewrite Eg. Qed.
  Lemma core_attr n k : attr s' n k = attr s n k.
  Proof. unfold attr. now rewrite core_node_attrs. Qed.
  Lemma core_zattr n k : zattr s' n k = zattr s n k.
  Proof. unfold zattr. now rewrite core_attr. Qed.
  Lemma core_time_of n : time_of s' n = time_of s n.
  Proof. unfold time_of. now rewrite core_zattr. Qed.
  Lemma core_adj u : adj s' u = adj s u.
  Proof. unfold adj. now rewrite Eg. Qed.
  Lemma core_successors u : successors s' u = successors s u.
  Proof. unfold successors. now rewrite core_adj. Qed.
  Lemma core_has_edge u v : has_edge s' u v = has_edge s u v.
  Proof. unfold has_edge. now rewrite core_adj. Qed.
  Lemma core_edge_attrs u v : edge_attrs s' u v = edge_attrs s u v.
  Proof. unfold edge_attrs. now rewrite core_adj. Qed.
  Lemma core_predecessors v : predecessors s' v = predecessors s v.
  Proof. unfold predecessors. rewrite Eg. apply filter_ext. intros u. apply core_has_edge. Qed.
  Lemma core_is_node n : is_node s' n <-> is_node s n.
  Proof. unfold is_node, node_ids. now rewrite Eg. Qed.
  Lemma core_iou_of sg u v : iou_of s' sg u v = iou_of s sg u v.
  Proof. unfold iou_of. now rewrite !core_time_of. Qed.
  Lemma core_get_pixels n : get_pixels s' n = get_pixels s n.
  Proof. unfold get_pixels. now rewrite Es, core_time_of. Qed.
  Lemma core_protected_keys : protected_keys s' = protected_keys s.
  Proof. unfold protected_keys. now rewrite Ef. Qed.

  Lemma sna_core n k v : core_eq (set_node_attr s n k v) (set_node_attr s' n k v).
  Proof.
    unfold set_node_attr. rewrite Eg. destruct (lookup n (nodes (g s))); [|exact H].
    unfold core_eq. cbn [g seg ft upd_g]. auto.
  Qed.
  Lemma dna_core n k : core_eq (del_node_attr s n k) (del_node_attr s' n k).
  Proof.
    unfold del_node_attr. rewrite Eg. destruct (lookup n (nodes (g s))); [|exact H].
    unfold core_eq. cbn [g seg ft upd_g]. auto.
  Qed.
  Lemma apply_attr_core n kv : core_eq (apply_attr s n kv) (apply_attr s' n kv).
  Proof. unfold apply_attr. destruct (snd kv); first [apply dna_core | apply sna_core]. Qed.
  Lemma sea_core u v k x : core_eq (set_edge_attr s u v k x) (set_edge_attr s' u v k x).
  Proof.
    unfold set_edge_attr. rewrite core_has_edge. destruct (has_edge s u v); [|exact H].
    unfold core_eq. cbn [g seg ft upd_g]. rewrite ?core_edge_attrs, ?core_adj, ?Eg. auto.
  Qed.
  Lemma set_pixels_core px v : res_core (set_pixels s px v) (set_pixels s' px v).
  Proof.
    unfold set_pixels. rewrite Es. destruct (seg s) as [sg|]; [|cbn; auto].
    destruct (frame_ok sg (fst px)); cbn; [|auto]. split; [reflexivity|]. unfold core_eq. cbn. auto.
  Qed.
End CoreReaders.

Lemma set_attrs_core s s' n a : core_eq s s' -> core_eq (set_attrs s n a) (set_attrs s' n a).
Proof. unfold set_attrs. apply fold_rel. intros x x' kv Hx. now apply sna_core. Qed.

Lemma apply_attrs_core s s' n a : core_eq s s' -> core_eq (apply_attrs s n a) (apply_attrs s' n a).
Proof. unfold apply_attrs. apply fold_rel. intros x x' kv Hx. now apply apply_attr_core. Qed.

Lemma rp_update_core s s' n : core_eq s s' -> core_eq (rp_update s n) (rp_update s' n).
Proof.
  intros H. unfold rp_update. pose proof H as (Eg & Es & Ef). rewrite Es, Ef, (core_time_of _ _ H).
  destruct (seg s) as [sg|]; [|exact H]. apply fold_rel; [|exact H]. intros x x' k Hx. now apply sna_core.
Qed.

Lemma iou_update_edges_core s s' es : core_eq s s' -> core_eq (iou_update_edges s es) (iou_update_edges s' es).
Proof.
  intros H. unfold iou_update_edges. pose proof H as (Eg & Es & Ef). rewrite Es, Ef.
  destruct (seg s) as [sg|]; [|exact H]. destruct (iou_act (ft s)); [|exact H].
  apply fold_rel; [|exact H]. intros x x' e Hx. rewrite (core_iou_of _ _ Hx). now apply sea_core.
Qed.

Lemma do_add_edge_core s s' u v a : core_eq s s' -> res_core (do_add_edge s u v a) (do_add_edge s' u v a).
Proof.
  intros H. unfold do_add_edge. rewrite !(core_has_node _ _ H).
  destruct (negb (has_node s u)); [cbn; auto|]. destruct (negb (has_node s v)); [cbn; auto|].
  cbn. split; [reflexivity|]. apply iou_update_edges_core. pose proof H as (Eg & Es & Ef).
  unfold core_eq. cbn [g seg ft upd_g]. rewrite ?(core_edge_attrs _ _ H), ?(core_adj _ _ H), ?Eg. auto.
Qed.

Lemma do_del_edge_core s s' u v : core_eq s s' -> res_core (do_del_edge s u v) (do_del_edge s' u v).
Proof.
  intros H. unfold do_del_edge. rewrite (core_has_edge _ _ H).
  destruct (negb (has_edge s u v)); [cbn; auto|]. pose proof H as (Eg & Es & Ef).
  cbn. rewrite Ef, (core_edge_attrs _ _ H). split; [reflexivity|].
  unfold core_eq. cbn [g seg ft upd_g]. rewrite (core_adj _ _ H), ?Eg. auto.
Qed.

Lemma do_upd_attrs_core s s' n new : core_eq s s' -> res_core (do_upd_attrs s n new) (do_upd_attrs s' n new).
Proof.
  intros H. unfold do_upd_attrs. rewrite (core_protected_keys _ _ H). pose proof H as (Eg & Es & Ef).
  destruct (existsb _ new); [cbn; auto|]. rewrite Eg. destruct (lookup n (nodes (g s))).
  - cbn. split; [reflexivity|]. now apply (apply_attrs_core s s' n new).
  - destruct new; cbn; auto.
Qed.

Lemma do_upd_seg_core s s' n px added : core_eq s s' -> res_core (do_upd_seg s n px added) (do_upd_seg s' n px added).
Proof.
  intros H. unfold do_upd_seg. apply bind_core; [now apply set_pixels_core|].
  intros _ x x' Hx. rewrite (core_has_node _ _ Hx). pose proof Hx as (Eg & Es & Ef). rewrite Ef.
  destruct (negb (has_node x n) && _); [cbn; auto|]. destruct (negb (has_node x n) && _); [cbn; auto|].
  cbn. split; [reflexivity|]. pose proof (rp_update_core _ _ n Hx) as Hr.
  rewrite (core_predecessors _ _ Hr), (core_successors _ _ Hr). now apply iou_update_edges_core.
Qed.

Lemma add_node_graph_core s s' n a : core_eq s s' -> core_eq (add_node_graph s n a) (add_node_graph s' n a).
Proof.
  intros H. unfold add_node_graph. cbv zeta. apply rp_update_core.
  apply (set_attrs_core _ _ n a). pose proof H as (Eg & Es & Ef). rewrite Eg.
  destruct (haskey n (nodes (g s))); [exact H|]. unfold core_eq. cbn [g seg ft upd_g]. auto.
Qed.

Lemma add_node_tail_core s s' n a px : core_eq s s' -> res_core (add_node_tail s n a px) (add_node_tail s' n a px).
Proof.
  intros H. unfold add_node_tail. pose proof H as (Eg & Es & Ef). rewrite Ef, !(core_zattr _ _ H).
  destruct (negb (trk_act (ft s))); [cbn; auto|]. destruct (zattr s n KTrack); [|cbn; auto].
  destruct (lin_act (ft s)); [destruct (zattr s n KLin)|]; cbn; (split; [reflexivity|]);
    (eapply core_eq_trans; [apply core_eq_sym, core_eq_upd_bk|]; eapply core_eq_trans; [exact H|apply core_eq_upd_bk]).
Qed.

Lemma do_add_node_core s s' n a px : core_eq s s' -> res_core (do_add_node s n a px) (do_add_node s' n a px).
Proof.
  intros H. rewrite !do_add_node_eq. pose proof H as (Eg & Es & Ef). rewrite Ef.
  destruct (negb (haskey KTime a)); [cbn; auto|]. destruct (negb (haskey KTrack a)); [cbn; auto|].
  destruct (match px with None => _ | Some _ => false end); [cbn; auto|].
  apply bind_core.
  - destruct px as [p|]; [now apply set_pixels_core|cbn; auto].
  - intros _ x x' Hx. apply add_node_tail_core. now apply add_node_graph_core.
Qed.

Lemma del_node_tail_core s s' n saved px : core_eq s s' -> res_core (del_node_tail s n saved px) (del_node_tail s' n saved px).
Proof.
  intros H. unfold del_node_tail. pose proof H as (Eg & Es & Ef). rewrite Ef.
  destruct (negb (trk_act (ft s))); [cbn; auto|]. cbn. split; [reflexivity|].
  eapply core_eq_trans; [apply core_eq_sym, core_eq_upd_bk|]; eapply core_eq_trans; [exact H|apply core_eq_upd_bk].
Qed.

Lemma do_del_node_core s s' n pxo : core_eq s s' -> res_core (do_del_node s n pxo) (do_del_node s' n pxo).
Proof.
  intros H. rewrite !do_del_node_eq. pose proof H as (Eg & Es & Ef). rewrite Eg, Ef, (core_get_pixels _ _ H).
  destruct (lookup n (nodes (g s))) as [d|]; [|cbn; auto]. cbv zeta.
  apply bind_core.
  - destruct (match pxo with Some p => Some p | None => get_pixels s n end) as [p|]; [now apply set_pixels_core|cbn; auto].
  - intros _ x x' Hx. apply del_node_tail_core. pose proof Hx as (Eg' & Es' & Ef').
    unfold del_node_graph, core_eq. cbn [g seg ft upd_g]. rewrite Eg'. auto.
Qed.

(* the relabelling walk *)
Definition acc_core (a a' : state * bool * list Z * list Z * list Z) : Prop :=
  let '(s, f, tn, ln, nx) := a in let '(s', f', tn', ln', nx') := a' in
  core_eq s s' /\ f = f' /\ tn = tn' /\ ln = ln' /\ nx = nx'.

Lemma visit_core oldT newT newL a a' n : acc_core a a' -> acc_core (visit oldT newT newL a n) (visit oldT newT newL a' n).
Proof.
  destruct a as [[[[s f] tn] ln] nx], a' as [[[[s' f'] tn'] ln'] nx']. intros (H & <- & <- & <- & <-).
  unfold visit. destruct newL as [l|].
  - pose proof (sna_core _ _ H n KLin (VZ l)) as H1. destruct f.
    + rewrite (core_zattr _ _ H1). destruct (match zattr _ n KTrack with Some t => t =? oldT | None => false end).
      * pose proof (sna_core _ _ H1 n KTrack (VZ newT)) as H2. cbn. rewrite (core_successors _ _ H2). auto.
      * cbn. rewrite (core_successors _ _ H1). auto.
    + cbn. rewrite (core_successors _ _ H1). auto.
  - destruct f.
    + rewrite (core_zattr _ _ H). destruct (match zattr _ n KTrack with Some t => t =? oldT | None => false end).
      * pose proof (sna_core _ _ H n KTrack (VZ newT)) as H2. cbn. rewrite (core_successors _ _ H2). auto.
      * cbn. rewrite (core_successors _ _ H). auto.
    + cbn. rewrite (core_successors _ _ H). auto.
Qed.

Lemma walk_core oldT newT newL : forall fuel s s' curr flag tn ln, core_eq s s' ->
  match walk fuel oldT newT newL s curr flag tn ln, walk fuel oldT newT newL s' curr flag tn ln with
  | Some (s1, tn1, ln1), Some (s1', tn1', ln1') => core_eq s1 s1' /\ bk s1 = bk s /\ bk s1' = bk s' /\ tn1 = tn1' /\ ln1 = ln1'
  | None, None => True
  | _, _ => False
  end.
Proof.
  induction fuel as [|f IH]; intros s s' curr flag tn ln H.
  - destruct curr; cbn; auto.
  - destruct curr as [|c cs]; [cbn; auto|]. cbn [walk].
    pose proof (fold_rel acc_core (visit oldT newT newL) (visit_core oldT newT newL) (c :: cs) (s, flag, tn, ln, []) (s', flag, tn, ln, [])) as Hf.
    assert (Hb : forall l a, bk (fst (fst (fst (fst (fold_left (visit oldT newT newL) l a))))) = bk (fst (fst (fst (fst a))))).
    { induction l as [|x r IHl]; intros a; cbn [fold_left]; [reflexivity|]. rewrite IHl.
      destruct a as [[[[sa fa] tna] lna] nxa]. unfold visit. cbn [fst].
      destruct newL as [l0|]; destruct fa;
        try destruct (match zattr _ x KTrack with Some t => t =? oldT | None => false end); cbn [fst]; rewrite ?sna_bk; reflexivity. }
    pose proof (Hb (c :: cs) (s, flag, tn, ln, [])) as Hb1. pose proof (Hb (c :: cs) (s', flag, tn, ln, [])) as Hb2. cbn [fst] in Hb1, Hb2.
    destruct (fold_left (visit oldT newT newL) (c :: cs) (s, flag, tn, ln, [])) as [[[[s1 f1] tn1] ln1] nx1].
    destruct (fold_left (visit oldT newT newL) (c :: cs) (s', flag, tn, ln, [])) as [[[[s1' f1'] tn1'] ln1'] nx1'].
    cbn [fst] in Hb1, Hb2.
    destruct Hf as (H1 & <- & <- & <- & <-); [cbn; auto|].
    specialize (IH s1 s1' nx1 f1 tn1 ln1 H1).
    destruct (walk f oldT newT newL s1 nx1 f1 tn1 ln1) as [[[s2 tn2] ln2]|], (walk f oldT newT newL s1' nx1 f1 tn1 ln1) as [[[s2' tn2'] ln2']|]; auto.
    destruct IH as (A & B & C & D & E). split; [exact A|]. split; [congruence|]. split; [congruence|]. split; assumption.
Qed.

Lemma do_upd_track_core s s' start newT newL : core_eq s s' ->
  res_core (do_upd_track s start newT newL) (do_upd_track s' start newT newL).
Proof.
  intros H. unfold do_upd_track. pose proof H as (Eg & Es & Ef). rewrite (core_has_node _ _ H), !(core_zattr _ _ H), Ef, Eg.
  destruct (negb (has_node s start)); [cbn; auto|]. destruct (zattr s start KTrack) as [oldT|]; [|cbn; auto].
  destruct (negb (trk_act (ft s))); [cbn; auto|].
  pose proof (walk_core oldT newT (if lin_act (ft s) then newL else None) (S (length (nodes (g s)))) s s' [start] true [] [] H) as W.
  destruct (walk _ oldT newT _ s [start] true [] []) as [[[s1 tn1] ln1]|], (walk _ oldT newT _ s' [start] true [] []) as [[[s1' tn1'] ln1']|];
    try contradiction; [|cbn; auto].
  destruct W as (A & _ & _ & <- & <-).
  destruct (if lin_act (ft s) then newL else None); cbn; (split; [reflexivity|]);
    (eapply core_eq_trans; [apply core_eq_sym, core_eq_upd_bk|]; eapply core_eq_trans; [exact A|apply core_eq_upd_bk]).
Qed.

Lemma inv_basic_core s s' b : core_eq s s' -> res_core (inv_basic s b) (inv_basic s' b).
Proof.
  intros H. destruct b; cbn [inv_basic].
  - now apply do_del_node_core.
  - now apply do_add_node_core.
  - now apply do_del_edge_core.
  - now apply do_add_edge_core.
  - now apply do_upd_attrs_core.
  - now apply do_upd_seg_core.
  - now apply do_upd_track_core.
Qed.

Lemma inv_basic_at st1 s b b' st2 : core_eq st1 s -> inv_basic st1 b = Ok b' st2 ->
  exists s2, inv_basic s b = Ok b' s2 /\ core_eq st2 s2.
Proof. intros H E. exact (res_core_ok _ _ _ _ (inv_basic_core _ _ b H) E). Qed.

(* ================================================================== *)
(* 3. dictionary facts: writing a key twice, deleting what was added     *)
(* ================================================================== *)
Section DictMore.
Context {V : Type}.
Implicit Types (d : dict V) (k : Z).

Lemma set_set_eq k (v v' : V) d : set k v (set k v' d) = set k v d.
Proof.
  induction d as [|[k1 v1] r IH]; cbn; [now rewrite Z.eqb_refl|].
  destruct (Z.eqb_spec k k1) as [->|Hn]; cbn; [now rewrite Z.eqb_refl|].
  destruct (Z.eqb_spec k k1); [contradiction|]. now rewrite IH.
Qed.
Lemma set_same k (v : V) d : lookup k d = Some v -> set k v d = d.
Proof.
  induction d as [|[k1 v1] r IH]; cbn; [discriminate|].
  destruct (Z.eqb_spec k k1) as [->|Hn]; [intros [= ->]; reflexivity|]. intros E. now rewrite IH.
Qed.
Lemma del_notin k d : ~ In k (keys d) -> del k d = d.
Proof.
  induction d as [|[k1 v1] r IH]; cbn; [reflexivity|]. intros Hn.
  destruct (Z.eqb_spec k k1) as [->|Hne]; [exfalso; apply Hn; now left|]. rewrite IH; [reflexivity|]. intros Hi. apply Hn. now right.
Qed.
Lemma del_set_eq k (v : V) d : del k (set k v d) = del k d.
Proof.
  induction d as [|[k1 v1] r IH]; cbn; [now rewrite Z.eqb_refl|].
  destruct (Z.eqb_spec k k1) as [->|Hn]; cbn; [now rewrite Z.eqb_refl|].
  destruct (Z.eqb_spec k k1); [contradiction|]. now rewrite IH.
Qed.
Lemma del_set_new k (v : V) d : ~ In k (keys d) -> del k (set k v d) = d.
Proof. intros H. rewrite del_set_eq. now apply del_notin. Qed.
Lemma del_app k d e : del k (d ++ e) = del k d ++ del k e.
Proof. induction d as [|[k1 v1] r IH]; cbn; [reflexivity|]. destruct (k =? k1); [exact IH|]. cbn. now rewrite IH. Qed.
Lemma set_notin k (v : V) d : ~ In k (keys d) -> set k v d = d ++ [(k, v)].
Proof.
  induction d as [|[k1 v1] r IH]; cbn; [reflexivity|]. intros Hn.
  destruct (Z.eqb_spec k k1) as [->|Hne]; [exfalso; apply Hn; now left|]. rewrite IH; [reflexivity|]. intros Hi. apply Hn. now right.
Qed.
Lemma haskey_set k k' (x : V) d : haskey k (set k' x d) = (k =? k') || haskey k d.
Proof. unfold haskey. destruct (Z.eqb_spec k k') as [->|Hne]; [now rewrite lookup_set_eq|]. now rewrite lookup_set_neq. Qed.
Lemma haskey_del k k' d : haskey k (del k' d) = negb (k =? k') && haskey k d.
Proof. unfold haskey. destruct (Z.eqb_spec k k') as [->|Hne]; [now rewrite lookup_del_eq|]. now rewrite lookup_del_neq. Qed.
Lemma getd_del_neq k k' d dflt : k <> k' -> getd k (del k' d) dflt = getd k d dflt.
Proof. intros H. unfold getd. now rewrite lookup_del_neq. Qed.
Lemma getd_del_eq k d dflt : getd k (del k d) dflt = dflt.
Proof. unfold getd. now rewrite lookup_del_eq. Qed.

(* d.update(e): a key all of whose bindings in e carry the same value ends up with that value *)
Lemma update_lookup_in k (v : V) (e : dict V) : forall d, (forall v', In (k, v') e -> v' = v) ->
  (In k (keys e) \/ lookup k d = Some v) -> lookup k (update d e) = Some v.
Proof.
  unfold update. induction e as [|[k1 v1] r IH]; intros d Hall Hc; cbn [fold_left fst snd].
  - destruct Hc as [[]|Hc]. exact Hc.
  - apply IH; [intros v' Hv'; apply Hall; now right|].
    destruct (Z.eq_dec k k1) as [<-|Hne].
    + right. rewrite (Hall v1 (or_introl eq_refl)). apply lookup_set_eq.
    + destruct Hc as [[E|Hc]|Hc]; [cbn in E; congruence|now left|right]. now rewrite lookup_set_neq.
Qed.
Lemma update_lookup_notin k (e : dict V) : forall d, ~ In k (keys e) -> lookup k (update d e) = lookup k d.
Proof.
  unfold update. induction e as [|[k1 v1] r IH]; intros d Hn; cbn [fold_left fst snd]; [reflexivity|].
  rewrite IH by (intros Hi; apply Hn; now right). apply lookup_set_neq. intros ->. apply Hn. now left.
Qed.
End DictMore.

Lemma graph_eta (x : graph) : {| nodes := nodes x; succs := succs x |} = x.
Proof. now destruct x. Qed.

(* what DeleteNode / DeleteEdge save: the registered attributes that are not None *)
Lemma saved_attrs_in reg d k v : In (k, v) (saved_attrs reg d) -> In k reg /\ lookup k d = Some v /\ v <> VNone.
Proof.
  unfold saved_attrs.
  assert (G : forall reg acc, In (k, v) (fold_left (fun acc k => match lookup k d with Some VNone => acc | Some v => acc ++ [(k, v)] | None => acc end) reg acc) ->
     In (k, v) acc \/ (In k reg /\ lookup k d = Some v /\ v <> VNone)).
  { intros reg0. induction reg0 as [|k1 r IH]; intros acc Hin; cbn [fold_left] in Hin; [now left|].
    apply IH in Hin. destruct Hin as [Hin|(A & B & C)]; [|right; split; [now right|auto]].
    destruct (lookup k1 d) as [x|] eqn:E; [|now left].
    destruct x; try (apply in_app_iff in Hin; destruct Hin as [Hin|[Hin|[]]]; [now left|injection Hin as <- <-; right; split; [now left|split; [exact E|discriminate]]]).
    now left. }
  intros Hin. apply G in Hin. destruct Hin as [[]|Hin]. exact Hin.
Qed.
Lemma saved_attrs_keys reg d k : In k (keys (saved_attrs reg d)) <-> In k reg /\ exists v, lookup k d = Some v /\ v <> VNone.
Proof.
  split.
  - intros Hk. unfold keys in Hk. apply in_map_iff in Hk. destruct Hk as ([k' v] & <- & Hin). apply saved_attrs_in in Hin.
    destruct Hin as (A & B & C). split; [exact A|now exists v].
  - intros (Hk & v & E & Hv). apply lookup_Some_keys with (v := v). apply saved_attrs_lookup; assumption.
Qed.

(* the observation of a saved-and-restored attribute dictionary *)
Lemma obs_saved reg d k (x : option value) :
  In k reg ->
  (forall v, lookup k d = Some v -> v <> VNone -> x = Some v) ->
  ((lookup k d = None \/ lookup k d = Some VNone) -> x = None) ->
  obsv x = obsv (lookup k d).
Proof.
  intros Hk H1 H2. unfold obsv. destruct (lookup k d) as [v|] eqn:E.
  - destruct v; try (rewrite (H1 _ eq_refl) by discriminate; reflexivity). rewrite H2 by (now right). reflexivity.
  - rewrite H2 by (now left). reflexivity.
Qed.

(* ================================================================== *)
(* 4. AddEdge / DeleteEdge                                               *)
(* ================================================================== *)
Lemma adj_row st st' u row : succs (g st') = set u row (succs (g st)) -> forall a, adj st' a = if a =? u then row else adj st a.
Proof. intros Hs a. unfold adj. rewrite Hs. destruct (Z.eqb_spec a u) as [->|Hne]; [apply getd_set_eq|now apply getd_set_neq]. Qed.

Lemma succs_put st st' u v x : succs (g st') = set u (set v x (adj st u)) (succs (g st)) ->
  (forall a b, has_edge st' a b = ((a =? u) && (b =? v)) || has_edge st a b) /\
  (forall a b, edge_attrs st' a b = if (a =? u) && (b =? v) then x else edge_attrs st a b).
Proof.
  intros Hs. split; intros a b; unfold has_edge, edge_attrs; rewrite (adj_row st st' u _ Hs a).
  - destruct (Z.eqb_spec a u) as [->|Hne]; cbn [andb orb]; [|reflexivity]. apply haskey_set.
  - destruct (Z.eqb_spec a u) as [->|Hne]; cbn [andb]; [|reflexivity].
    destruct (Z.eqb_spec b v) as [->|Hne]; [apply getd_set_eq|now apply getd_set_neq].
Qed.
Lemma succs_drop st st' u v : succs (g st') = set u (del v (adj st u)) (succs (g st)) ->
  (forall a b, has_edge st' a b = negb ((a =? u) && (b =? v)) && has_edge st a b) /\
  (forall a b, edge_attrs st' a b = if (a =? u) && (b =? v) then [] else edge_attrs st a b).
Proof.
  intros Hs. split; intros a b; unfold has_edge, edge_attrs; rewrite (adj_row st st' u _ Hs a).
  - destruct (Z.eqb_spec a u) as [->|Hne]; cbn [andb negb]; [|reflexivity]. apply haskey_del.
  - destruct (Z.eqb_spec a u) as [->|Hne]; cbn [andb]; [|reflexivity].
    destruct (Z.eqb_spec b v) as [->|Hne]; [apply getd_del_eq|now apply getd_del_neq].
Qed.

(* AddEdge, exactly: the row of u gets (v, X), where X is the updated attribute dictionary
   with the IoU the annotator computes written on top when that feature is active *)
Lemma add_edge_char st u v a b st1 : do_add_edge st u v a = Ok b st1 ->
  b = BAddEdge u v a /\ is_node st u /\ is_node st v /\
  nodes (g st1) = nodes (g st) /\ seg st1 = seg st /\ ft st1 = ft st /\ bk st1 = bk st /\
  exists X, succs (g st1) = set u (set v X (adj st u)) (succs (g st)) /\
    match seg st with
    | Some sg => if iou_act (ft st) then X = set KIou (iou_of st sg u v) (update (edge_attrs st u v) a)
                 else X = update (edge_attrs st u v) a
    | None => X = update (edge_attrs st u v) a
    end.
Proof.
  unfold do_add_edge. destruct (has_node st u) eqn:Eu; [|discriminate]. destruct (has_node st v) eqn:Ev; [|discriminate].
  cbn [negb]. intros H. injection H as <- <-.
  split; [reflexivity|]. split; [now apply has_node_is_node|]. split; [now apply has_node_is_node|].
  set (ea := update (edge_attrs st u v) a).
  set (s1 := upd_g st {| nodes := nodes (g st); succs := set u (set v ea (adj st u)) (succs (g st)) |}).
  pose proof (iou_update_edges_upd s1 [(u, v)]) as U.
  split; [now rewrite (eu_nodes _ _ U)|]. split; [now rewrite (eu_seg _ _ U)|]. split; [now rewrite (eu_ft _ _ U)|].
  split; [now rewrite (eu_bk _ _ U)|]. clear U.
  unfold iou_update_edges. change (seg s1) with (seg st). change (ft s1) with (ft st).
  destruct (seg st) as [sg|].
  2:{ exists ea. split; reflexivity. }
  destruct (iou_act (ft st)).
  2:{ exists ea. split; reflexivity. }
  cbn [fold_left fst snd].
  assert (He : has_edge s1 u v = true).
  { unfold has_edge, adj, s1. cbn [g succs upd_g]. rewrite getd_set_eq. apply haskey_set_eq. }
  unfold set_edge_attr. rewrite He. cbn [g nodes succs seg ft bk upd_g].
  exists (set KIou (iou_of st sg u v) ea). split.
  - assert (Ea : adj s1 u = set v ea (adj st u)) by (unfold adj, s1; cbn [g succs upd_g]; apply getd_set_eq).
    assert (Ee : edge_attrs s1 u v = ea) by (unfold edge_attrs; rewrite Ea; apply getd_set_eq).
    rewrite Ee, Ea. unfold s1 at 2. cbn [g succs upd_g]. rewrite !set_set_eq.
    replace (iou_of s1 sg u v) with (iou_of st sg u v); [reflexivity|]. reflexivity.
  - reflexivity.
Qed.

Lemma del_edge_char st u v b st1 : do_del_edge st u v = Ok b st1 ->
  b = BDelEdge u v (saved_attrs (reg_edge (ft st)) (edge_attrs st u v)) /\ has_edge st u v = true /\
  nodes (g st1) = nodes (g st) /\ seg st1 = seg st /\ ft st1 = ft st /\ bk st1 = bk st /\
  succs (g st1) = set u (del v (adj st u)) (succs (g st)).
Proof.
  unfold do_del_edge. destruct (has_edge st u v) eqn:E; [|discriminate]. cbn [negb]. intros H. injection H as <- <-.
  cbn. repeat split; reflexivity.
Qed.

(* AddEdge of an edge that was not there, then its inverse: the graph is literally restored *)
Theorem add_edge_inverse st u v a b st1 :
  W_dict st -> has_edge st u v = false -> do_add_edge st u v a = Ok b st1 ->
  exists b' st2, inv_basic st1 b = Ok b' st2 /\ core_eq st st2 /\ bk st2 = bk st.
Proof.
  intros WD Hne H. destruct (add_edge_char _ _ _ _ _ _ H) as (-> & Nu & Nv & En & Es & Ef & Eb & X & Esu & _).
  destruct (succs_put st st1 u v X Esu) as [P1 P2].
  cbn [inv_basic]. unfold do_del_edge. rewrite P1, !Z.eqb_refl. cbn [andb orb negb].
  eexists _, _. split; [reflexivity|]. split; [|cbn; exact Eb].
  unfold core_eq. cbn [g seg ft upd_g]. split; [|auto].
  rewrite (adj_row st st1 u _ Esu u), Z.eqb_refl, Esu, set_set_eq, En.
  rewrite del_set_new.
  - rewrite set_same; [apply graph_eta|].
    apply (wd_succ_keys st WD) in Nu. unfold adj, getd. unfold haskey in Nu. destruct (lookup u (succs (g st))); [reflexivity|discriminate].
  - intros Hi. apply haskey_keys in Hi. unfold has_edge in Hne. congruence.
Qed.

Definition iou_fresh_at (st : state) (u v : Z) : Prop :=
  forall sg, seg st = Some sg -> iou_act (ft st) = true -> lookup KIou (edge_attrs st u v) = Some (iou_of st sg u v).

Lemma W_fresh_iou_at st u v : W_fresh st -> edge st u v -> iou_fresh_at st u v.
Proof. intros W He sg Hs Ha. unfold W_fresh in W. rewrite Hs in W. now apply (proj2 W). Qed.

(* DeleteEdge, then its inverse: same observation (the edge moves to the end of u's adjacency,
   unregistered attributes of the edge are gone) *)
Theorem del_edge_inverse st u v b st1 :
  W_dict st -> iou_fresh_at st u v -> do_del_edge st u v = Ok b st1 ->
  exists b' st2, inv_basic st1 b = Ok b' st2 /\ obs_eq st st2 /\ nodes (g st2) = nodes (g st) /\ bk st2 = bk st.
Proof.
  intros WD Hio H. destruct (del_edge_char _ _ _ _ _ H) as (-> & He & En & Es & Ef & Eb & Esu).
  destruct (succs_drop st st1 u v Esu) as [D1 D2].
  destruct (wd_edge_nodes st WD u v He) as [Nu Nv].
  cbn [inv_basic].
  destruct (do_add_edge st1 u v (saved_attrs (reg_edge (ft st)) (edge_attrs st u v))) as [b' st2|e st2] eqn:H2.
  2:{ exfalso. unfold do_add_edge in H2. unfold has_node in H2. rewrite En in H2.
      apply has_node_is_node in Nu. apply has_node_is_node in Nv. unfold has_node in Nu, Nv. rewrite Nu, Nv in H2. discriminate. }
  exists b', st2. split; [reflexivity|].
  destruct (add_edge_char _ _ _ _ _ _ H2) as (_ & _ & _ & En2 & Es2 & Ef2 & Eb2 & X & Esu2 & HX).
  destruct (succs_put st1 st2 u v X Esu2) as [P1 P2].
  split; [|split; [congruence|congruence]].
  constructor.
  - intros n. unfold is_node, node_ids. now rewrite En2, En.
  - intros a c. rewrite P1, D1. destruct ((a =? u) && (c =? v)) eqn:E; cbn [negb andb orb]; [|reflexivity].
    apply andb_true_iff in E. destruct E as [E1 E2]. apply Z.eqb_eq in E1, E2. now subst.
  - intros n k _. unfold attr_obs, attr, node_attrs. now rewrite En2, En.
  - intros a c k Hk. unfold eattr_obs. rewrite P2, D2. destruct ((a =? u) && (c =? v)) eqn:E; [|reflexivity].
    apply andb_true_iff in E. destruct E as [E1 E2]. apply Z.eqb_eq in E1, E2. subst a c.
    set (d := edge_attrs st u v) in *. set (sv := saved_attrs (reg_edge (ft st)) d) in *.
    assert (Hup : forall w, lookup k d = Some w -> w <> VNone -> lookup k (update [] sv) = Some w).
    { intros w E Hw. apply update_lookup_in.
      - intros w' Hin. apply saved_attrs_in in Hin. destruct Hin as (_ & E' & _). congruence.
      - left. apply saved_attrs_keys. split; [exact Hk|now exists w]. }
    assert (Hno : (lookup k d = None \/ lookup k d = Some VNone) -> lookup k (update [] sv) = None).
    { intros Hc. rewrite update_lookup_notin; [reflexivity|]. intros Hi. apply saved_attrs_keys in Hi.
      destruct Hi as (_ & w & E & Hw). destruct Hc as [Hc|Hc]; congruence. }
    assert (Ee1 : edge_attrs st1 u v = []) by (rewrite D2, !Z.eqb_refl; reflexivity).
    rewrite Ee1, Es, Ef in HX.
    destruct (seg st) as [sg|] eqn:Esg; [destruct (iou_act (ft st)) eqn:Eact|]; subst X; try (apply (obs_saved _ _ _ _ Hk Hup Hno)).
    destruct (Z.eq_dec k KIou) as [->|Hne].
    + rewrite lookup_set_eq. unfold d. rewrite (Hio sg Esg Eact).
      replace (iou_of st1 sg u v) with (iou_of st sg u v); [reflexivity|].
      unfold iou_of, time_of, zattr, attr, node_attrs. now rewrite En.
    + rewrite lookup_set_neq by exact Hne. apply (obs_saved _ _ _ _ Hk Hup Hno).
  - congruence.
  - congruence.
Qed.

(* the two-sided law: undo restores the observation, redo (= inverting the inverse) re-applies *)
Definition inverts (st st1 : state) (b : basic) : Prop :=
  exists b' st2, inv_basic st1 b = Ok b' st2 /\ obs_eq st2 st /\
  exists b'' st3, inv_basic st2 b' = Ok b'' st3 /\ obs_eq st3 st1.

Lemma add_edge_iou_fresh_at st u v a b st1 : do_add_edge st u v a = Ok b st1 -> iou_fresh_at st1 u v.
Proof.
  intros H. destruct (add_edge_char _ _ _ _ _ _ H) as (_ & _ & _ & En & Es & Ef & _ & X & Esu & HX).
  destruct (succs_put st st1 u v X Esu) as [_ P2].
  intros sg Hs Ha. rewrite P2, !Z.eqb_refl. cbn [andb]. rewrite Es in Hs. rewrite Ef in Ha. rewrite Hs, Ha in HX. subst X.
  rewrite lookup_set_eq. f_equal. unfold iou_of, time_of, zattr, attr, node_attrs. now rewrite En.
Qed.

Theorem C01_add_edge_law st u v a b st1 :
  W_dict st -> has_edge st u v = false -> do_add_edge st u v a = Ok b st1 -> inverts st st1 b.
Proof.
  intros WD Hne H. destruct (add_edge_inverse _ _ _ _ _ _ WD Hne H) as (b' & st2 & H2 & C2 & _).
  exists b', st2. split; [exact H2|]. split; [apply obs_eq_sym, core_eq_obs, C2|].
  destruct (add_edge_char _ _ _ _ _ _ H) as (-> & _). cbn [inv_basic] in H2.
  destruct (del_edge_inverse st1 u v b' st2 (add_edge_W_dict _ _ _ _ _ _ H WD) (add_edge_iou_fresh_at _ _ _ _ _ _ H) H2)
    as (b'' & st3 & H3 & O3 & _).
  exists b'', st3. split; [exact H3|]. now apply obs_eq_sym.
Qed.

Theorem C01_del_edge_law st u v b st1 :
  W_dict st -> iou_fresh_at st u v -> do_del_edge st u v = Ok b st1 -> inverts st st1 b.
Proof.
  intros WD Hio H. destruct (del_edge_inverse _ _ _ _ _ WD Hio H) as (b' & st2 & H2 & O2 & _).
  exists b', st2. split; [exact H2|]. split; [now apply obs_eq_sym|].
  destruct (del_edge_char _ _ _ _ _ H) as (-> & He & _ & _ & _ & _ & Esu). cbn [inv_basic] in H2.
  assert (Hne : has_edge st1 u v = false).
  { destruct (succs_drop st st1 u v Esu) as [D1 _]. rewrite D1, !Z.eqb_refl. reflexivity. }
  destruct (add_edge_inverse st1 u v _ b' st2 (del_edge_W_dict _ _ _ _ _ H WD) Hne H2) as (b'' & st3 & H3 & C3 & _).
  exists b'', st3. split; [exact H3|]. apply obs_eq_sym, core_eq_obs, C3.
Qed.

(* ================================================================== *)
(* 5. UpdateNodeAttrs                                                    *)
(* ================================================================== *)
(* the attribute of node n at key k after writing the list a key by key: the last binding wins *)
Fixpoint last_binding (k : Z) (a : attrs) (dflt : option value) : option value :=
  match a with [] => dflt | (k', v) :: r => last_binding k r (if k =? k' then Some v else dflt) end.

Lemma set_attrs_attr st n a : is_node st n -> forall k, attr (set_attrs st n a) n k = last_binding k a (attr st n k).
Proof.
  unfold set_attrs. revert st. induction a as [|[k1 v1] r IH]; intros st Hn k; cbn [fold_left fst snd last_binding]; [reflexivity|].
  rewrite IH by (unfold is_node; now rewrite sna_node_ids). f_equal.
  destruct (Z.eqb_spec k k1) as [->|Hne]; [now apply sna_attr_same|]. apply sna_attr_other. now right.
Qed.

Lemma last_binding_notin k a dflt : ~ In k (keys a) -> last_binding k a dflt = dflt.
Proof.
  revert dflt. induction a as [|[k1 v1] r IH]; intros dflt Hn; cbn [last_binding]; [reflexivity|].
  rewrite IH by (intros Hi; apply Hn; now right). destruct (Z.eqb_spec k k1) as [->|]; [exfalso; apply Hn; now left|reflexivity].
Qed.
Lemma last_binding_const k a x dflt : (forall v, In (k, v) a -> v = x) -> In k (keys a) -> last_binding k a dflt = Some x.
Proof.
  revert dflt. induction a as [|[k1 v1] r IH]; intros dflt Hall Hin; [destruct Hin|]. cbn [last_binding].
  destruct (in_dec Z.eq_dec k (keys r)) as [Hr|Hr].
  - apply IH; [intros v Hv; apply Hall; now right|exact Hr].
  - rewrite last_binding_notin by exact Hr. destruct Hin as [E|Hin]; [|contradiction]. cbn in E. subst k1.
    rewrite Z.eqb_refl. f_equal. apply Hall. now left.
Qed.

(* UpdateNodeAttrs._apply key by key: a None value removes the attribute, which is the same
   observation as storing it, so up to [obsv] the last binding still wins *)
Lemma last_binding_obsv k a d d' : obsv d = obsv d' -> obsv (last_binding k a d) = obsv (last_binding k a d').
Proof.
  revert d d'. induction a as [|[k1 v1] r IH]; intros d d' H; cbn [last_binding]; [exact H|].
  apply IH. destruct (k =? k1); [reflexivity|exact H].
Qed.
Lemma apply_attr_node_ids st n kv : node_ids (apply_attr st n kv) = node_ids st.
Proof. unfold apply_attr. destruct (snd kv); first [apply dna_node_ids | apply sna_node_ids]. Qed.
Lemma apply_attr_attr_same st n kv : is_node st n -> obsv (attr (apply_attr st n kv) n (fst kv)) = obsv (Some (snd kv)).
Proof.
  intros Hn. unfold apply_attr. destruct (snd kv) eqn:E;
    first [rewrite dna_attr_same by exact Hn | rewrite sna_attr_same by exact Hn]; reflexivity.
Qed.
Lemma apply_attr_attr_other st n kv m k' : (m <> n \/ k' <> fst kv) -> attr (apply_attr st n kv) m k' = attr st m k'.
Proof. intros H. unfold apply_attr. destruct (snd kv); first [now apply dna_attr_other | now apply sna_attr_other]. Qed.
Lemma apply_attrs_attr st n a :
  is_node st n -> forall k, obsv (attr (apply_attrs st n a) n k) = obsv (last_binding k a (attr st n k)).
Proof.
  unfold apply_attrs. revert st. induction a as [|[k1 v1] r IH]; intros st Hn k; cbn [fold_left last_binding]; [reflexivity|].
  rewrite IH by (unfold is_node; now rewrite apply_attr_node_ids). apply last_binding_obsv.
  destruct (Z.eqb_spec k k1) as [->|Hne]; [now apply (apply_attr_attr_same st n (k1, v1))|].
  f_equal. apply apply_attr_attr_other. now right.
Qed.

Lemma upd_attrs_char st n new b st1 : do_upd_attrs st n new = Ok b st1 ->
  (forall k, In k (keys new) -> ~ In k (protected_keys st)) /\
  ((~ is_node st n /\ new = [] /\ st1 = st /\ b = BUpdAttrs n [] []) \/
   (is_node st n /\ st1 = apply_attrs st n new /\
    b = BUpdAttrs n (map (fun kv => (fst kv, match attr st n (fst kv) with Some v => v | None => VNone end)) new) new)).
Proof.
  intros H. split; [apply (do_upd_attrs_inv _ _ _ _ _ H)|]. unfold do_upd_attrs in H.
  destruct (existsb _ new); [discriminate|]. destruct (lookup n (nodes (g st))) as [d|] eqn:E.
  - right. injection H as <- <-. split; [apply is_node_lookup; now exists d|]. split; [reflexivity|].
    unfold attr, node_attrs, getd. rewrite E. reflexivity.
  - left. destruct new; [|discriminate]. injection H as <- <-. split; [|auto].
    intros Hn. apply is_node_lookup in Hn. destruct Hn as [d Hd]. congruence.
Qed.

Theorem upd_attrs_inverse st n new b st1 : do_upd_attrs st n new = Ok b st1 ->
  exists b' st2, inv_basic st1 b = Ok b' st2 /\ obs_eq st st2 /\ bk st2 = bk st.
Proof.
  intros H. destruct (upd_attrs_char _ _ _ _ _ H) as [Hp [(Hn & -> & -> & ->)|(Hn & -> & ->)]].
  - cbn [inv_basic]. rewrite H. eexists _, _. split; [reflexivity|]. split; [apply obs_eq_refl|reflexivity].
  - cbn [inv_basic].
    set (prev := map (fun kv => (fst kv, match attr st n (fst kv) with Some v => v | None => VNone end)) new).
    assert (Hkeys : keys prev = keys new) by (unfold prev, keys; rewrite map_map; reflexivity).
    destruct (apply_attrs_upd_at st n new) as [A F].
    set (st1 := apply_attrs st n new) in *.
    assert (Hn1 : is_node st1 n) by (now apply (attr_upd_is_node _ _ n A)).
    unfold do_upd_attrs.
    assert (Ex : existsb (fun kv => memz (fst kv) (protected_keys st1)) prev = false).
    { destruct (existsb _ prev) eqn:Ex; [|reflexivity]. exfalso. apply existsb_exists in Ex. destruct Ex as (kv & Hin & Hm).
      apply memz_In in Hm. unfold protected_keys in Hm. rewrite (au_ft _ _ A) in Hm. apply (Hp (fst kv)); [|exact Hm].
      rewrite <- Hkeys. unfold keys. now apply in_map. }
    rewrite Ex. apply is_node_lookup in Hn1. destruct Hn1 as [d1 Hd1]. rewrite Hd1.
    eexists _, _. split; [reflexivity|]. fold (apply_attrs st1 n prev).
    destruct (apply_attrs_upd_at st1 n prev) as [A2 F2]. split; [|now rewrite (au_bk _ _ A2), (au_bk _ _ A)].
    assert (Hn1 : is_node st1 n) by (apply is_node_lookup; now exists d1).
    constructor.
    + intros m. rewrite (attr_upd_is_node _ _ m A2). apply (attr_upd_is_node _ _ m A).
    + intros u v. unfold has_edge, adj. now rewrite (au_succs _ _ A2), (au_succs _ _ A).
    + intros m k _. unfold attr_obs.
      destruct (Z.eq_dec m n) as [->|Hm]; [|rewrite F2, F by (now left); reflexivity].
      destruct (in_dec Z.eq_dec k (keys new)) as [Hk|Hk]; [|rewrite F2, F by (right; congruence); reflexivity].
      rewrite (apply_attrs_attr st1 n prev Hn1 k).
      rewrite (last_binding_const k prev (match attr st n k with Some v => v | None => VNone end)).
      * unfold obsv. destruct (attr st n k) as [[]|]; reflexivity.
      * intros v Hv. unfold prev in Hv. apply in_map_iff in Hv. destruct Hv as (kv & E & _). now injection E as <- <-.
      * now rewrite Hkeys.
    + intros u v k _. unfold eattr_obs, edge_attrs, adj. now rewrite (au_succs _ _ A2), (au_succs _ _ A).
    + now rewrite (au_seg _ _ A2), (au_seg _ _ A).
    + now rewrite (au_ft _ _ A2), (au_ft _ _ A).
Qed.

Theorem C01_upd_attrs_law st n new b st1 : do_upd_attrs st n new = Ok b st1 -> inverts st st1 b.
Proof.
  intros H. destruct (upd_attrs_inverse _ _ _ _ _ H) as (b' & st2 & H2 & O2 & _).
  exists b', st2. split; [exact H2|]. split; [now apply obs_eq_sym|].
  assert (Hb : exists prev, b = BUpdAttrs n prev new).
  { destruct (upd_attrs_char _ _ _ _ _ H) as [_ [(_ & -> & _ & ->)|(_ & _ & ->)]]; eexists; reflexivity. }
  destruct Hb as [prev ->]. cbn [inv_basic] in H2.
  destruct (upd_attrs_inverse _ _ _ _ _ H2) as (b'' & st3 & H3 & O3 & _).
  exists b'', st3. split; [exact H3|]. now apply obs_eq_sym.
Qed.

(* ================================================================== *)
(* 6. UpdateNodeSeg                                                      *)
(* ================================================================== *)
(* painting v and then w over the same pixels gives the array back when those pixels held w *)
Lemma write_back : forall f i idx v w,
  (forall j, (j < length f)%nat -> memz (i + Z.of_nat j) idx = true -> nth j f 0 = w) ->
  write_frame i (write_frame i f idx v) idx w = f.
Proof.
  induction f as [|x r IH]; intros i idx v w Hp; cbn [write_frame]; [reflexivity|]. f_equal.
  - destruct (memz i idx) eqn:E; [|reflexivity]. symmetry. apply (Hp 0%nat); [cbn; lia|]. now rewrite Z.add_0_r.
  - apply IH. intros j Hj Hm. apply (Hp (S j)); [cbn; lia|]. now replace (i + Z.of_nat (S j)) with (i + 1 + Z.of_nat j) by lia.
Qed.

Lemma upd_frame_back : forall sg k (h h' : list Z -> list Z),
  ((k < length sg)%nat -> h' (h (nth k sg [])) = nth k sg []) -> upd_frame k h' (upd_frame k h sg) = sg.
Proof.
  induction sg as [|f r IH]; intros k h h' Hh; [destruct k; reflexivity|].
  destruct k as [|j]; cbn [upd_frame].
  - f_equal. apply Hh. cbn. lia.
  - f_equal. apply IH. intros Hj. apply Hh. cbn. lia.
Qed.

Lemma upd_frame_len k h sg : length (upd_frame k h sg) = length sg.
Proof. revert k. induction sg as [|f r IH]; intros [|j]; cbn; auto. Qed.

Definition paint_sg (sg : list (list Z)) (px : pixels) (v : Z) : list (list Z) :=
  upd_frame (Z.to_nat (fst px)) (fun f => write_frame 0 f (snd px) v) sg.

Lemma paint_back sg px v w : frame_ok sg (fst px) = true ->
  (forall i, (i < length (frame_of sg (fst px)))%nat -> In (Z.of_nat i) (snd px) -> label_at sg (fst px) i = w) ->
  paint_sg (paint_sg sg px v) px w = sg.
Proof.
  intros Hf Hp. unfold paint_sg. apply upd_frame_back. intros _. apply write_back.
  intros j Hj Hm. apply memz_In in Hm. apply Hp; assumption.
Qed.
Lemma paint_frame_ok sg px v t : frame_ok (paint_sg sg px v) t = frame_ok sg t.
Proof. unfold frame_ok, paint_sg. now rewrite upd_frame_len. Qed.

Lemma set_pixels_char st px v u st0 : set_pixels st px v = Ok u st0 ->
  exists sg, seg st = Some sg /\ frame_ok sg (fst px) = true /\ st0 = upd_seg st (Some (paint_sg sg px v)).
Proof.
  unfold set_pixels. destruct (seg st) as [sg|]; [|discriminate]. destruct (frame_ok sg (fst px)) eqn:E; [|discriminate].
  intros H. injection H as <-. exists sg. auto.
Qed.
Lemma set_pixels_run st sg px v : seg st = Some sg -> frame_ok sg (fst px) = true ->
  set_pixels st px v = Ok tt (upd_seg st (Some (paint_sg sg px v))).
Proof. intros Hs Hf. unfold set_pixels. now rewrite Hs, Hf. Qed.

(* the value RegionpropsAnnotator.update writes for a mask *)
Definition rpval (m : list Z) : value := match m with [] => VNone | _ => VRp m end.

Lemma set_keys_attr n v : forall ks st, is_node st n -> forall k,
  attr (fold_left (fun s k => set_node_attr s n k v) ks st) n k = if memz k ks then Some v else attr st n k.
Proof.
  induction ks as [|k1 r IH]; intros st Hn k; cbn [fold_left]; [reflexivity|].
  rewrite IH by (unfold is_node; now rewrite sna_node_ids). unfold memz. cbn [existsb].
  destruct (existsb (Z.eqb k) r); [now rewrite orb_true_r|]. rewrite orb_false_r.
  destruct (Z.eqb_spec k k1) as [->|Hne]; [now apply sna_attr_same|]. apply sna_attr_other. now right.
Qed.

Lemma rp_update_spec st n sg : seg st = Some sg -> is_node st n ->
  forall k, In k (rp_act (ft st)) -> attr (rp_update st n) n k = Some (rpval (mask_of sg (time_of st n) n)).
Proof.
  intros Hs Hn k Hk. unfold rp_update. rewrite Hs. rewrite set_keys_attr by exact Hn.
  apply memz_In in Hk. rewrite Hk. unfold rpval. destruct (mask_of sg (time_of st n) n); reflexivity.
Qed.

Lemma time_of_same s s' n : attr s' n KTime = attr s n KTime -> time_of s' n = time_of s n.
Proof. intros H. unfold time_of, zattr. now rewrite H. Qed.
Lemma iou_of_times s s' sg u v : time_of s' u = time_of s u -> time_of s' v = time_of s v -> iou_of s' sg u v = iou_of s sg u v.
Proof. intros E1 E2. unfold iou_of. now rewrite E1, E2. Qed.
Lemma iou_of_same_nodes s s' sg u v : nodes (g s') = nodes (g s) -> iou_of s' sg u v = iou_of s sg u v.
Proof. intros E. unfold iou_of, time_of, zattr, attr, node_attrs. now rewrite E. Qed.

Definition pmem (a b : Z) (es : list (Z * Z)) : bool := existsb (fun e => (fst e =? a) && (snd e =? b)) es.

Lemma sea_spec st u v k x : has_edge st u v = true ->
  let st' := set_edge_attr st u v k x in
  nodes (g st') = nodes (g st) /\ (forall a b, has_edge st' a b = has_edge st a b) /\
  (forall a b, edge_attrs st' a b = if (a =? u) && (b =? v) then set k x (edge_attrs st u v) else edge_attrs st a b).
Proof.
  intros He. cbv zeta.
  assert (Hs : succs (g (set_edge_attr st u v k x)) = set u (set v (set k x (edge_attrs st u v)) (adj st u)) (succs (g st)))
    by (unfold set_edge_attr; now rewrite He).
  destruct (succs_put _ _ _ _ _ Hs) as [H1 H2]. split; [unfold set_edge_attr; now rewrite He|]. split; [|exact H2].
  intros a b. rewrite H1. destruct (Z.eqb_spec a u) as [->|]; [|reflexivity]. destruct (Z.eqb_spec b v) as [->|]; [|reflexivity].
  now rewrite He.
Qed.

Lemma iou_fold_spec sg : forall es s,
  let s' := fold_left (fun s e => set_edge_attr s (fst e) (snd e) KIou (iou_of s sg (fst e) (snd e))) es s in
  nodes (g s') = nodes (g s) /\ (forall a b, has_edge s' a b = has_edge s a b) /\
  (forall a b k, lookup k (edge_attrs s' a b) =
     if (k =? KIou) && pmem a b es && has_edge s a b then Some (iou_of s sg a b) else lookup k (edge_attrs s a b)).
Proof.
  induction es as [|[eu ev] r IH]; intros s; cbn [fold_left fst snd].
  - split; [reflexivity|]. split; [reflexivity|]. intros a b k. unfold pmem. cbn. now rewrite andb_false_r.
  - set (s1 := set_edge_attr s eu ev KIou (iou_of s sg eu ev)).
    destruct (IH s1) as (I0 & I1 & I2). cbv zeta in *.
    destruct (has_edge s eu ev) eqn:He.
    + destruct (sea_spec s eu ev KIou (iou_of s sg eu ev) He) as (S0 & S1 & S2). fold s1 in S0, S1, S2.
      split; [congruence|]. split; [intros a b; now rewrite I1, S1|].
      intros a b k. rewrite I2, S1, S2, (iou_of_same_nodes s s1 sg a b S0). unfold pmem. cbn [existsb fst snd].
      destruct (has_edge s a b) eqn:Hab.
      2:{ rewrite !andb_false_r. destruct ((a =? eu) && (b =? ev)) eqn:E; [|reflexivity].
          apply andb_true_iff in E. destruct E as [E1 E2]. apply Z.eqb_eq in E1, E2. subst. congruence. }
      rewrite !andb_true_r. destruct (Z.eqb_spec k KIou) as [->|Hk]; cbn [andb].
      * fold (pmem a b r). destruct (pmem a b r); [now rewrite orb_true_r|]. rewrite orb_false_r.
        rewrite (Z.eqb_sym eu a), (Z.eqb_sym ev b).
        destruct (Z.eqb_spec a eu) as [->|]; [|reflexivity]. destruct (Z.eqb_spec b ev) as [->|]; [|reflexivity].
        cbn [andb]. apply lookup_set_eq.
      * destruct ((a =? eu) && (b =? ev)) eqn:E; [|reflexivity].
        apply andb_true_iff in E. destruct E as [E1 E2]. apply Z.eqb_eq in E1, E2. subst. now apply lookup_set_neq.
    + assert (E1 : s1 = s) by (unfold s1, set_edge_attr; now rewrite He). clearbody s1. subst s1.
      split; [exact I0|]. split; [exact I1|]. intros a b k. rewrite I2. unfold pmem. cbn [existsb fst snd]. fold (pmem a b r).
      destruct ((eu =? a) && (ev =? b)) eqn:E; [|reflexivity].
      apply andb_true_iff in E. destruct E as [E2 E3]. apply Z.eqb_eq in E2, E3. subst. rewrite He. now rewrite !andb_false_r.
Qed.

Lemma iou_update_spec st es :
  let st' := iou_update_edges st es in
  nodes (g st') = nodes (g st) /\ seg st' = seg st /\ ft st' = ft st /\ bk st' = bk st /\
  (forall a b, has_edge st' a b = has_edge st a b) /\
  (forall a b k, lookup k (edge_attrs st' a b) =
     match seg st with
     | Some sg => if iou_act (ft st) && (k =? KIou) && pmem a b es && has_edge st a b then Some (iou_of st sg a b)
                  else lookup k (edge_attrs st a b)
     | None => lookup k (edge_attrs st a b)
     end).
Proof.
  cbv zeta. pose proof (iou_update_edges_upd st es) as U.
  split; [apply U|]. split; [apply U|]. split; [apply U|]. split; [apply U|]. clear U.
  unfold iou_update_edges. destruct (seg st) as [sg|]; [|split; reflexivity].
  destruct (iou_act (ft st)); [|split; reflexivity]. cbn [andb].
  destruct (iou_fold_spec sg es st) as (_ & A & B). split; assumption.
Qed.

Definition incident_edges (s : state) (n : Z) : list (Z * Z) :=
  map (fun p => (p, n)) (predecessors s n) ++ map (fun c => (n, c)) (successors s n).

Lemma pmem_incident s n a b : W_dict s -> has_edge s a b = true -> pmem a b (incident_edges s n) = (a =? n) || (b =? n).
Proof.
  intros WD He. unfold pmem, incident_edges. rewrite existsb_app.
  destruct (wd_edge_nodes s WD a b He) as [Na Nb].
  destruct (Z.eqb_spec b n) as [->|Hb].
  - rewrite orb_true_r. replace (existsb _ (map (fun p => (p, n)) (predecessors s n))) with true; [reflexivity|].
    symmetry. apply existsb_exists. exists (a, n). split; [|cbn; now rewrite !Z.eqb_refl].
    apply in_map_iff. exists a. split; [reflexivity|]. unfold predecessors. apply filter_In. split; [exact Na|exact He].
  - replace (existsb _ (map (fun p => (p, n)) (predecessors s n))) with false.
    2:{ symmetry. destruct (existsb _ (map _ (predecessors s n))) eqn:E; [|reflexivity]. exfalso.
        apply existsb_exists in E. destruct E as (e & Hin & Hm). apply in_map_iff in Hin. destruct Hin as (p & <- & _).
        cbn in Hm. apply andb_true_iff in Hm. destruct Hm as [_ Hm]. apply Z.eqb_eq in Hm. congruence. }
    cbn [orb]. rewrite orb_false_r. destruct (Z.eqb_spec a n) as [->|Ha].
    + apply existsb_exists. exists (n, b). split; [|cbn; now rewrite !Z.eqb_refl].
      apply in_map_iff. exists b. split; [reflexivity|]. unfold successors. apply haskey_keys. exact He.
    + destruct (existsb _ (map _ (successors s n))) eqn:E; [|reflexivity]. exfalso.
      apply existsb_exists in E. destruct E as (e & Hin & Hm). apply in_map_iff in Hin. destruct Hin as (c & <- & _).
      cbn in Hm. apply andb_true_iff in Hm. destruct Hm as [Hm _]. apply Z.eqb_eq in Hm. congruence.
Qed.

Lemma upd_seg_char st n px added b st1 : do_upd_seg st n px added = Ok b st1 -> is_node st n ->
  exists sg, seg st = Some sg /\ frame_ok sg (fst px) = true /\ b = BUpdSeg n px added /\
    st1 = iou_update_edges (rp_update (upd_seg st (Some (paint_sg sg px (if added then n else 0)))) n)
            (incident_edges (rp_update (upd_seg st (Some (paint_sg sg px (if added then n else 0)))) n) n).
Proof.
  intros H Hn. unfold do_upd_seg in H.
  destruct (set_pixels st px (if added then n else 0)) as [u st0|e st0] eqn:Ep; [|discriminate]. cbn [bind] in H.
  destruct (set_pixels_char _ _ _ _ _ Ep) as (sg & Hs & Hf & ->).
  assert (Hh : has_node (upd_seg st (Some (paint_sg sg px (if added then n else 0)))) n = true) by (now apply has_node_is_node).
  rewrite Hh in H. cbn [negb andb] in H. injection H as <- <-. exists sg. auto.
Qed.

(* what a stored managed value must be for the inverse to reproduce it: the value of the current masks *)
Definition seg_fresh_at (st : state) (n : Z) : Prop :=
  forall sg, seg st = Some sg ->
    (forall k, In k (rp_act (ft st)) -> attr st n k = Some (rpval (mask_of sg (time_of st n) n))) /\
    (iou_act (ft st) = true -> forall a b, has_edge st a b = true -> a = n \/ b = n ->
       lookup KIou (edge_attrs st a b) = Some (iou_of st sg a b)).

Lemma W_fresh_seg_fresh_at st n : W_fresh st -> W_seg st -> is_node st n -> seg_fresh_at st n.
Proof.
  intros WF WS Hn sg Hs. unfold W_fresh in WF. unfold W_seg in WS. rewrite Hs in WF, WS. destruct WF as [F1 F2]. destruct WS as (S1 & _).
  split.
  - intros k Hk. rewrite (F1 n k Hn Hk). destruct (S1 n Hn) as [_ Hne]. unfold rpval. destruct (mask_of sg (time_of st n) n); [congruence|reflexivity].
  - intros Ha a b He _. now apply F2.
Qed.

(* the effect of UpdateNodeSeg, pointwise *)
Lemma upd_seg_effect st n px added b st1 sg :
  W_dict st -> rp_disjoint st -> is_node st n -> seg st = Some sg -> do_upd_seg st n px added = Ok b st1 ->
  let sg' := paint_sg sg px (if added then n else 0) in
  frame_ok sg (fst px) = true /\ b = BUpdSeg n px added /\
  seg st1 = Some sg' /\ ft st1 = ft st /\ bk st1 = bk st /\ node_ids st1 = node_ids st /\
  (forall m, time_of st1 m = time_of st m) /\
  (forall a c, has_edge st1 a c = has_edge st a c) /\
  (forall m k, attr st1 m k = if (m =? n) && memz k (rp_act (ft st)) then Some (rpval (mask_of sg' (time_of st n) n)) else attr st m k) /\
  (forall a c k, lookup k (edge_attrs st1 a c) =
     if iou_act (ft st) && (k =? KIou) && ((a =? n) || (c =? n)) && has_edge st a c then Some (iou_of st sg' a c)
     else lookup k (edge_attrs st a c)) /\
  W_dict st1.
Proof.
  intros WD Hrp Hn Hs H. pose proof (upd_seg_W_dict _ _ _ _ _ _ H Hrp WD) as WD1.
  destruct (upd_seg_char _ _ _ _ _ _ H Hn) as (sg0 & Hs0 & Hf & Hb & E1). rewrite Hs in Hs0. injection Hs0 as <-. cbv zeta.
  set (sg' := paint_sg sg px (if added then n else 0)) in *.
  set (s0 := upd_seg st (Some sg')) in *. set (s1 := rp_update s0 n) in *.
  assert (Hn0 : is_node s0 n) by exact Hn.
  destruct (rp_update_upd_at s0 n) as [A F]. fold s1 in A, F. change (ft s0) with (ft st) in F.
  destruct (iou_update_spec s1 (incident_edges s1 n)) as (I0 & I1 & I2 & I3 & I4 & I5). rewrite <- E1 in I0, I1, I2, I3, I4, I5.
  assert (Hattr1 : forall m k, attr s1 m k = if (m =? n) && memz k (rp_act (ft st)) then Some (rpval (mask_of sg' (time_of st n) n)) else attr st m k).
  { intros m k. destruct (Z.eqb_spec m n) as [->|Hm]; cbn [andb].
    - destruct (memz k (rp_act (ft st))) eqn:Ek.
      + apply memz_In in Ek. apply (rp_update_spec s0 n sg' eq_refl Hn0 k Ek).
      + apply memz_false in Ek. apply F. now right.
    - apply F. now left. }
  assert (Hattr : forall m k, attr st1 m k = attr s1 m k) by (intros m k; unfold attr, node_attrs; now rewrite I0).
  assert (Htime1 : forall m, time_of s1 m = time_of st m).
  { intros m. apply time_of_same. rewrite Hattr1. destruct (memz KTime (rp_act (ft st))) eqn:Ek; [|now rewrite andb_false_r].
    apply memz_In in Ek. exfalso. apply (Hrp KTime); [unfold id_key; auto|exact Ek]. }
  assert (Hedge1 : forall a c, has_edge s1 a c = has_edge st a c) by (intros a c; unfold has_edge, adj; now rewrite (au_succs _ _ A)).
  assert (Heat1 : forall a c, edge_attrs s1 a c = edge_attrs st a c) by (intros a c; unfold edge_attrs, adj; now rewrite (au_succs _ _ A)).
  assert (WD1' : W_dict s1).
  { eapply W_dict_attr_upd; [exact A| |apply (W_dict_same_g st s0 eq_refl WD)]. intros m k Hk. apply F. right. now apply Hrp. }
  split; [exact Hf|]. split; [exact Hb|]. split; [now rewrite I1, (au_seg _ _ A)|]. split; [now rewrite I2, (au_ft _ _ A)|].
  split; [now rewrite I3, (au_bk _ _ A)|]. split; [unfold node_ids; rewrite I0; apply (au_ids _ _ A)|].
  split; [intros m; rewrite <- Htime1; apply time_of_same, Hattr|]. split; [intros a c; now rewrite I4|].
  split; [intros m k; now rewrite Hattr|]. split; [|exact WD1].
  intros a c k. rewrite I5, (au_seg _ _ A). change (seg s0) with (Some sg'). rewrite (au_ft _ _ A). change (ft s0) with (ft st).
  rewrite Hedge1, Heat1. destruct (has_edge st a c) eqn:He; [|now rewrite !andb_false_r].
  rewrite (pmem_incident s1 n a c WD1') by (now rewrite Hedge1).
  rewrite (iou_of_times st s1 sg' a c (Htime1 a) (Htime1 c)). reflexivity.
Qed.

Lemma upd_seg_fresh_after st n px added b st1 :
  W_dict st -> rp_disjoint st -> is_node st n -> do_upd_seg st n px added = Ok b st1 -> seg_fresh_at st1 n.
Proof.
  intros WD Hrp Hn H. destruct (upd_seg_char _ _ _ _ _ _ H Hn) as (sg & Hs & _).
  destruct (upd_seg_effect st n px added b st1 sg WD Hrp Hn Hs H) as (_ & _ & E1 & E2 & _ & _ & E4 & E5 & E6 & E7 & _).
  intros sg1 Hs1. rewrite E1 in Hs1. injection Hs1 as <-. rewrite E2. split.
  - intros k Hk. rewrite E6, Z.eqb_refl, E4. apply memz_In in Hk. now rewrite Hk.
  - intros Ha a c He Hac. rewrite E7, Ha, Z.eqb_refl. rewrite E5 in He. rewrite He.
    assert (Hor : (a =? n) || (c =? n) = true) by (destruct Hac as [->| ->]; rewrite Z.eqb_refl; [reflexivity|apply orb_true_r]).
    rewrite Hor. cbn [andb]. f_equal. symmetry. apply iou_of_times; apply E4.
Qed.

(* UpdateNodeSeg, then its inverse: the array is restored bit for bit, the recomputed managed
   values are the ones that were stored *)
Theorem upd_seg_inverse st n px (added : bool) b st1 :
  W_dict st -> rp_disjoint st -> is_node st n -> seg_fresh_at st n ->
  (forall sg i, seg st = Some sg -> (i < length (frame_of sg (fst px)))%nat -> In (Z.of_nat i) (snd px) ->
     label_at sg (fst px) i = if added then 0 else n) ->
  do_upd_seg st n px added = Ok b st1 ->
  exists b' st2, inv_basic st1 b = Ok b' st2 /\ obs_eq st st2 /\ bk st2 = bk st.
Proof.
  intros WD Hrp Hn Hfr Hpix H. destruct (upd_seg_char _ _ _ _ _ _ H Hn) as (sg & Hs & _).
  destruct (upd_seg_effect st n px added b st1 sg WD Hrp Hn Hs H) as (Hf & -> & E1 & E2 & E3 & E4 & E5 & E6 & E7 & E8 & WD1).
  cbv zeta in *. set (sg' := paint_sg sg px (if added then n else 0)) in *.
  assert (Hn1 : is_node st1 n) by (unfold is_node; now rewrite E4).
  assert (Hrp1 : rp_disjoint st1) by (unfold rp_disjoint; now rewrite E2).
  assert (Hf1 : frame_ok sg' (fst px) = true) by (unfold sg'; now rewrite paint_frame_ok).
  cbn [inv_basic].
  destruct (do_upd_seg st1 n px (negb added)) as [b' st2|e st2] eqn:H2.
  2:{ exfalso. unfold do_upd_seg in H2. rewrite (set_pixels_run st1 sg' px _ E1 Hf1) in H2. cbn [bind] in H2.
      assert (Hh : has_node (upd_seg st1 (Some (paint_sg sg' px (if negb added then n else 0)))) n = true) by (now apply has_node_is_node).
      rewrite Hh in H2. discriminate. }
  exists b', st2. split; [reflexivity|].
  destruct (upd_seg_effect st1 n px (negb added) b' st2 sg' WD1 Hrp1 Hn1 E1 H2) as (_ & _ & G1 & G2 & G3 & G4 & G5 & G6 & G7 & G8 & _).
  cbv zeta in *.
  assert (Eback : paint_sg sg' px (if negb added then n else 0) = sg).
  { unfold sg'. apply paint_back; [exact Hf|]. intros i Hi Hin. rewrite (Hpix sg i Hs Hi Hin). now destruct added. }
  rewrite Eback in *. destruct (Hfr sg Hs) as [Fr1 Fr2].
  split; [|congruence]. constructor.
  - intros m. unfold is_node. now rewrite G4, E4.
  - intros a c. now rewrite G6, E6.
  - intros m k _. unfold attr_obs. f_equal. rewrite G7, E2, E5, E7.
    destruct ((m =? n) && memz k (rp_act (ft st))) eqn:Ec; [|reflexivity].
    apply andb_true_iff in Ec. destruct Ec as [Em Ek]. apply Z.eqb_eq in Em. subst m. apply memz_In in Ek. symmetry. now apply Fr1.
  - intros a c k _. unfold eattr_obs. f_equal. rewrite G8, E2, E6, E8.
    destruct (iou_act (ft st) && (k =? KIou) && ((a =? n) || (c =? n)) && has_edge st a c) eqn:Ec; [|reflexivity].
    apply andb_true_iff in Ec. destruct Ec as [Ec He]. apply andb_true_iff in Ec. destruct Ec as [Ec Hac].
    apply andb_true_iff in Ec. destruct Ec as [Ha Hk]. apply Z.eqb_eq in Hk. subst k.
    rewrite (iou_of_times st st1 sg a c (E5 a) (E5 c)). symmetry. apply Fr2; [exact Ha|exact He|].
    apply orb_true_iff in Hac. destruct Hac as [Hx|Hx]; apply Z.eqb_eq in Hx; auto.
  - congruence.
  - congruence.
Qed.

Theorem C01_upd_seg_law st n px (added : bool) b st1 :
  W_dict st -> rp_disjoint st -> is_node st n -> seg_fresh_at st n ->
  (forall sg i, seg st = Some sg -> (i < length (frame_of sg (fst px)))%nat -> In (Z.of_nat i) (snd px) ->
     label_at sg (fst px) i = if added then 0 else n) ->
  do_upd_seg st n px added = Ok b st1 -> inverts st st1 b.
Proof.
  intros WD Hrp Hn Hfr Hpix H. destruct (upd_seg_inverse _ _ _ _ _ _ WD Hrp Hn Hfr Hpix H) as (b' & st2 & H2 & O2 & _).
  exists b', st2. split; [exact H2|]. split; [now apply obs_eq_sym|].
  destruct (upd_seg_char _ _ _ _ _ _ H Hn) as (sg & Hs & _).
  destruct (upd_seg_effect st n px added b st1 sg WD Hrp Hn Hs H) as (Hf & -> & E1 & E2 & E3 & E4 & E5 & E6 & E7 & E8 & WD1).
  cbn [inv_basic] in H2.
  assert (Hn1 : is_node st1 n) by (unfold is_node; now rewrite E4).
  assert (Hrp1 : rp_disjoint st1) by (unfold rp_disjoint; now rewrite E2).
  assert (Hpix1 : forall sg1 i, seg st1 = Some sg1 -> (i < length (frame_of sg1 (fst px)))%nat -> In (Z.of_nat i) (snd px) ->
     label_at sg1 (fst px) i = if negb added then 0 else n).
  { intros sg1 i Hs1 Hi Hin. rewrite E1 in Hs1. injection Hs1 as <-. revert Hi. unfold label_at, frame_of, paint_sg.
    assert (Hlt : (Z.to_nat (fst px) < length sg)%nat).
    { unfold frame_ok in Hf. apply andb_true_iff in Hf. destruct Hf as [A B]. apply Z.leb_le in A. apply Z.ltb_lt in B. lia. }
    assert (Hnth : forall k h sg0, (k < length sg0)%nat -> nth k (upd_frame k h sg0) [] = h (nth k sg0 [])).
    { clear. induction k as [|k IH]; intros h [|f r] Hk; cbn in *; try lia; [reflexivity|]. apply IH. lia. }
    rewrite Hnth by exact Hlt. set (f := nth (Z.to_nat (fst px)) sg []).
    assert (Hw : forall f0 s j, (j < length f0)%nat -> length (write_frame s f0 (snd px) (if added then n else 0)) = length f0 /\
              nth j (write_frame s f0 (snd px) (if added then n else 0)) 0 = if memz (s + Z.of_nat j) (snd px) then (if added then n else 0) else nth j f0 0).
    { clear. induction f0 as [|x r IH]; intros s j Hj; cbn in Hj; [lia|]. cbn [write_frame length]. destruct j as [|j].
      - split; [|cbn; now rewrite Z.add_0_r]. f_equal.
        destruct r; [reflexivity|]. apply (IH (s + 1) 0%nat). cbn. lia.
      - assert (Hj' : (j < length r)%nat) by lia. destruct (IH (s + 1) j Hj') as [L N]. split; [now rewrite L|].
        cbn [nth]. rewrite N. now replace (s + 1 + Z.of_nat j) with (s + Z.of_nat (S j)) by lia. }
    intros Hi. destruct (length f) eqn:El.
    { destruct f; [cbn in Hi; lia|discriminate]. }
    assert (Hi' : (i < length f)%nat).
    { destruct (Hw f 0 0%nat ltac:(lia)) as [L _]. now rewrite L in Hi. }
    destruct (Hw f 0 i Hi') as [_ N]. rewrite N. cbn. apply memz_In in Hin. rewrite Hin. now destruct added. }
  destruct (upd_seg_inverse st1 n px (negb added) b' st2 WD1 Hrp1 Hn1
              (upd_seg_fresh_after _ _ _ _ _ _ WD Hrp Hn H) Hpix1 H2) as (b'' & st3 & H3 & O3 & _).
  exists b'', st3. split; [|now apply obs_eq_sym].
  assert (Eb' : b' = BUpdSeg n px (negb added)).
  { destruct (upd_seg_char _ _ _ _ _ _ H2 Hn1) as (sg1 & _ & _ & Eb & _). exact Eb. }
  subst b'. exact H3.
Qed.

(* ================================================================== *)
(* 7. AddNode / DeleteNode                                               *)
(* ================================================================== *)
(* ---- more about the array ---- *)
Lemma write_frame_spec v idx : forall f s j, (j < length f)%nat ->
  length (write_frame s f idx v) = length f /\
  nth j (write_frame s f idx v) 0 = if memz (s + Z.of_nat j) idx then v else nth j f 0.
Proof.
  induction f as [|x r IH]; intros s j Hj; cbn in Hj; [lia|]. cbn [write_frame length]. destruct j as [|j].
  - split; [|cbn; now rewrite Z.add_0_r]. f_equal. destruct r; [reflexivity|]. apply (IH (s + 1) 0%nat). cbn. lia.
  - assert (Hj' : (j < length r)%nat) by lia. destruct (IH (s + 1) j Hj') as [L N]. split; [now rewrite L|].
    cbn [nth]. rewrite N. now replace (s + 1 + Z.of_nat j) with (s + Z.of_nat (S j)) by lia.
Qed.
Lemma write_frame_len v idx f s : length (write_frame s f idx v) = length f.
Proof. revert s. induction f as [|x r IH]; intros s; cbn; [reflexivity|]. now rewrite IH. Qed.

Lemma write_frame_ext v idx idx' : forall f s,
  (forall j, (j < length f)%nat -> memz (s + Z.of_nat j) idx = memz (s + Z.of_nat j) idx') ->
  write_frame s f idx v = write_frame s f idx' v.
Proof.
  induction f as [|x r IH]; intros s H; cbn [write_frame]; [reflexivity|]. f_equal.
  - specialize (H 0%nat). cbn in H. rewrite Z.add_0_r in H. rewrite H by lia. reflexivity.
  - apply IH. intros j Hj. replace (s + 1 + Z.of_nat j) with (s + Z.of_nat (S j)) by lia. apply H. cbn. lia.
Qed.

Lemma upd_frame_nth k h : forall sg, (k < length sg)%nat -> nth k (upd_frame k h sg) [] = h (nth k sg []).
Proof. induction k as [|k IH]; intros [|f r] Hk; cbn in *; try lia; [reflexivity|]. apply IH. lia. Qed.

Lemma frame_ok_lt sg t : frame_ok sg t = true -> (Z.to_nat t < length sg)%nat /\ 0 <= t.
Proof. unfold frame_ok. intros H. apply andb_true_iff in H. destruct H as [A B]. apply Z.leb_le in A. apply Z.ltb_lt in B. lia. Qed.

Lemma frame_of_paint_same sg t idx v : frame_ok sg t = true ->
  frame_of (paint_sg sg (t, idx) v) t = write_frame 0 (frame_of sg t) idx v.
Proof. intros Hf. unfold frame_of, paint_sg. cbn [fst snd]. apply upd_frame_nth. apply (frame_ok_lt _ _ Hf). Qed.

Lemma label_at_paint_same sg t idx v i : frame_ok sg t = true -> (i < length (frame_of sg t))%nat ->
  label_at (paint_sg sg (t, idx) v) t i = if memz (Z.of_nat i) idx then v else label_at sg t i.
Proof.
  intros Hf Hi. unfold label_at. rewrite frame_of_paint_same by exact Hf. destruct (write_frame_spec v idx (frame_of sg t) 0 i Hi) as [_ N].
  exact N.
Qed.
Lemma frame_len_paint sg t idx v : frame_ok sg t = true -> length (frame_of (paint_sg sg (t, idx) v) t) = length (frame_of sg t).
Proof. intros Hf. rewrite frame_of_paint_same by exact Hf. apply write_frame_len. Qed.

Lemma paint_ext sg t idx idx' v : frame_ok sg t = true ->
  (forall j, (j < length (frame_of sg t))%nat -> memz (Z.of_nat j) idx = memz (Z.of_nat j) idx') ->
  paint_sg sg (t, idx) v = paint_sg sg (t, idx') v.
Proof.
  intros Hf H. unfold paint_sg. cbn [fst snd]. destruct (frame_ok_lt _ _ Hf) as [Hlt _].
  set (k := Z.to_nat t) in *. unfold frame_of in H. fold k in H. clearbody k. clear Hf.
  revert k Hlt H. induction sg as [|f r IH]; intros k Hlt H; [destruct k; reflexivity|].
  destruct k as [|k]; cbn [upd_frame].
  - f_equal. apply write_frame_ext. intros j Hj. apply H. exact Hj.
  - f_equal. apply IH; [cbn in Hlt; lia|]. exact H.
Qed.

Lemma positions_from_In n : forall f s p,
  In p (positions_from s f n) <-> exists j, (j < length f)%nat /\ p = s + Z.of_nat j /\ nth j f 0 = n.
Proof.
  induction f as [|x r IH]; intros s p; cbn [positions_from].
  - split; [intros []|intros (j & Hj & _); cbn in Hj; lia].
  - assert (Hr : In p (positions_from (s + 1) r n) <-> exists j, (j < length r)%nat /\ p = s + Z.of_nat (S j) /\ nth (S j) (x :: r) 0 = n).
    { rewrite IH. split; intros (j & A & B & C); exists j; (split; [exact A|split; [lia|exact C]]). }
    split.
    + intros Hin. assert (Hc : (x = n /\ p = s) \/ In p (positions_from (s + 1) r n)).
      { destruct (Z.eqb_spec x n) as [E|E]; [destruct Hin as [<-|Hin]; [left; auto|now right]|now right]. }
      destruct Hc as [[E ->]|Hc].
      * exists 0%nat. cbn. split; [lia|split; [lia|exact E]].
      * apply Hr in Hc. destruct Hc as (j & A & B & C). exists (S j). cbn [length]. split; [lia|auto].
    + intros (j & Hj & -> & Hn). destruct j as [|j].
      * cbn in Hn. subst x. rewrite Z.eqb_refl. left. cbn. lia.
      * assert (Hc : In (s + Z.of_nat (S j)) (positions_from (s + 1) r n)).
        { apply Hr. exists j. cbn [length] in Hj. split; [lia|auto]. }
        destruct (x =? n); [now right|exact Hc].
Qed.

Lemma mask_of_In sg t n i : In (Z.of_nat i) (mask_of sg t n) <-> (i < length (frame_of sg t))%nat /\ label_at sg t i = n.
Proof.
  unfold mask_of, label_at. rewrite positions_from_In. split.
  - intros (j & Hj & E & Hn). assert (i = j) by lia. subst j. auto.
  - intros [Hi Hn]. exists i. split; [exact Hi|split; [lia|exact Hn]].
Qed.

(* painting n over background in a frame that has no n, then clearing the mask of n: the array is back *)
Lemma unpaint sg t idx n : frame_ok sg t = true ->
  (forall j, (j < length (frame_of sg t))%nat -> label_at sg t j <> n) ->
  (forall j, (j < length (frame_of sg t))%nat -> In (Z.of_nat j) idx -> label_at sg t j = 0) ->
  paint_sg (paint_sg sg (t, idx) n) (t, mask_of (paint_sg sg (t, idx) n) t n) 0 = sg.
Proof.
  intros Hf Hno Hbg. set (sg' := paint_sg sg (t, idx) n).
  assert (Hf' : frame_ok sg' t = true) by (unfold sg'; now rewrite paint_frame_ok).
  rewrite (paint_ext sg' t (mask_of sg' t n) idx 0 Hf').
  - unfold sg'. apply (paint_back sg (t, idx) n 0 Hf). exact Hbg.
  - intros j Hj. unfold sg' in Hj. rewrite frame_len_paint in Hj by exact Hf.
    destruct (memz (Z.of_nat j) idx) eqn:Ei.
    + apply memz_In. apply mask_of_In. unfold sg'. rewrite frame_len_paint by exact Hf. split; [exact Hj|].
      rewrite label_at_paint_same by assumption. now rewrite Ei.
    + apply memz_false. intros Hm. apply mask_of_In in Hm. destruct Hm as [_ Hm]. unfold sg' in Hm.
      rewrite label_at_paint_same in Hm by assumption. rewrite Ei in Hm. exact (Hno j Hj Hm).
Qed.

Lemma paint_nil sg t v : paint_sg sg (t, []) v = sg.
Proof.
  unfold paint_sg. cbn [fst snd]. generalize (Z.to_nat t) as k.
  assert (Hw : forall f s, write_frame s f [] v = f) by (induction f as [|x r IH]; intros s; cbn; [reflexivity|now rewrite IH]).
  induction sg as [|f r IH]; intros [|k]; cbn [upd_frame]; try reflexivity; [now rewrite Hw|now rewrite IH].
Qed.

(* ---- the node dictionary while a new node is being filled in ---- *)
Lemma lookup_app_new {V} (nd : dict V) n x : ~ In n (keys nd) -> lookup n (nd ++ [(n, x)]) = Some x.
Proof. intros Hn. rewrite lookup_app. apply lookup_None_keys in Hn. rewrite Hn. cbn. now rewrite Z.eqb_refl. Qed.
Lemma set_app_new {V} (nd : dict V) n x y : ~ In n (keys nd) -> set n y (nd ++ [(n, x)]) = nd ++ [(n, y)].
Proof.
  induction nd as [|[k v] r IH]; intros Hn; cbn; [now rewrite Z.eqb_refl|].
  destruct (Z.eqb_spec n k) as [->|Hne]; [exfalso; apply Hn; now left|]. rewrite IH; [reflexivity|]. intros Hi. apply Hn. now right.
Qed.

Definition tail_node (nd : dict attrs) (sc : dict (dict attrs)) (n : Z) (s : state) : Prop :=
  (exists d, nodes (g s) = nd ++ [(n, d)]) /\ succs (g s) = sc.

Lemma sna_tail nd sc n s k v : ~ In n (keys nd) -> tail_node nd sc n s -> tail_node nd sc n (set_node_attr s n k v).
Proof.
  intros Hn [[d Hd] Hs]. split; [|now rewrite sna_succs].
  unfold set_node_attr. rewrite Hd, (lookup_app_new nd n d Hn). cbn [g nodes upd_g]. exists (set k v d). now apply set_app_new.
Qed.
Lemma set_attrs_tail nd sc n a : ~ In n (keys nd) -> forall s, tail_node nd sc n s -> tail_node nd sc n (set_attrs s n a).
Proof. intros Hn. unfold set_attrs. induction a as [|[k v] r IH]; intros s H; cbn [fold_left]; [exact H|]. apply IH. now apply sna_tail. Qed.
Lemma rp_update_tail nd sc n : ~ In n (keys nd) -> forall s, tail_node nd sc n s -> tail_node nd sc n (rp_update s n).
Proof.
  intros Hn s H. unfold rp_update. destruct (seg s) as [sg|]; [|exact H].
  generalize (match mask_of sg (time_of s n) n with [] => VNone | _ :: _ => VRp (mask_of sg (time_of s n) n) end). intros v.
  generalize (rp_act (ft s)) as ks. intros ks. revert s H. induction ks as [|k r IH]; intros s0 H; cbn [fold_left]; [exact H|]. apply IH. now apply sna_tail.
Qed.

Lemma map_id_in {A} (f : A -> A) (l : list A) : (forall x, In x l -> f x = x) -> map f l = l.
Proof. induction l as [|x r IH]; intros H; cbn; [reflexivity|]. rewrite H by (now left). rewrite IH; [reflexivity|]. intros y Hy. apply H. now right. Qed.

(* no row of the adjacency mentions a non-node *)
Lemma rows_without st n : W_dict st -> ~ is_node st n ->
  map (fun ua : Z * dict attrs => (fst ua, del n (snd ua))) (succs (g st)) = succs (g st).
Proof.
  intros WD Hn. apply map_id_in. intros [u row] Hin. cbn [fst snd]. f_equal. apply del_notin. intros Hk.
  apply Hn. apply (wd_edge_nodes st WD u n). unfold edge, has_edge, adj, getd.
  rewrite (In_lookup u (succs (g st)) row (wd_succ_nodup st WD) Hin). now apply haskey_keys.
Qed.

Lemma add_node_graph_shape st n a : W_dict st -> ~ is_node st n ->
  tail_node (nodes (g st)) (succs (g st) ++ [(n, [])]) n (add_node_graph st n a) /\
  seg (add_node_graph st n a) = seg st /\ ft (add_node_graph st n a) = ft st /\ bk (add_node_graph st n a) = bk st.
Proof.
  intros WD Hn. destruct (add_node_graph_spec st n a Hn) as (st1 & [A _] & _ & En & Es & Eb & Ef).
  assert (Hk : ~ In n (keys (nodes (g st)))) by exact Hn.
  assert (Hsk : ~ In n (keys (succs (g st)))).
  { intros Hi. apply Hn. apply (wd_succ_keys st WD n). now apply haskey_keys. }
  split.
  - unfold add_node_graph. cbv zeta. apply has_node_false in Hn. unfold has_node in Hn. rewrite Hn.
    apply rp_update_tail; [exact Hk|]. apply set_attrs_tail; [exact Hk|]. split; [now exists []|].
    cbn [g succs upd_g]. rewrite set_notin by exact Hsk. unfold getd. apply lookup_None_keys in Hsk. now rewrite Hsk.
  - unfold add_node_graph. cbv zeta. apply has_node_false in Hn. unfold has_node in Hn. rewrite Hn.
    match goal with |- seg (rp_update ?s n) = _ /\ _ => destruct (rp_update_upd_at s n) as [A2 _]; destruct (set_attrs_upd_at
      (upd_g st {| nodes := nodes (g st) ++ [(n, [])]; succs := set n (getd n (succs (g st)) []) (succs (g st)) |}) n a) as [A1 _] end.
    unfold set_attrs in A1. rewrite (au_seg _ _ A2), (au_ft _ _ A2), (au_bk _ _ A2), (au_seg _ _ A1), (au_ft _ _ A1), (au_bk _ _ A1).
    auto.
Qed.

Lemma add_node_tail_char s n a px b s' : add_node_tail s n a px = Ok b s' -> b = BAddNode n a px /\ core_eq s s' .
Proof.
  unfold add_node_tail. destruct (negb (trk_act (ft s))); [intros H; injection H as <- <-; split; [reflexivity|apply core_eq_refl]|].
  destruct (zattr s n KTrack); [|discriminate].
  destruct (lin_act (ft s)); [destruct (zattr s n KLin)|]; intros H; injection H as <- <-; (split; [reflexivity|apply core_eq_upd_bk]).
Qed.
Lemma del_node_tail_char s n saved px : exists s', del_node_tail s n saved px = Ok (BDelNode n saved px) s' /\ core_eq s s'.
Proof.
  unfold del_node_tail. destruct (negb (trk_act (ft s))); eexists; (split; [reflexivity|]); [apply core_eq_refl|apply core_eq_upd_bk].
Qed.

(* the pixel side of the documented precondition of AddNode *)
Definition add_node_px_ok (st : state) (n : Z) (a : attrs) (px : option pixels) : Prop :=
  forall sg, seg st = Some sg -> exists t,
    (forall v, In (KTime, v) a -> v = VZ t) /\ frame_ok sg t = true /\
    (forall j, (j < length (frame_of sg t))%nat -> label_at sg t j <> n) /\
    match px with
    | None => True
    | Some p => fst p = t /\ forall j, (j < length (frame_of sg t))%nat -> In (Z.of_nat j) (snd p) -> label_at sg t j = 0
    end.

(* the attributes of the freshly added node *)
Lemma add_node_graph_attr st n a k : ~ is_node st n -> ~ In k (rp_act (ft st)) \/ seg st = None ->
  attr (add_node_graph st n a) n k = last_binding k a None.
Proof.
  intros Hn Hk. destruct (add_node_graph_spec st n a Hn) as (st1 & _ & [_ F2] & En & Es & Eb & Ef).
  assert (Hn1 : is_node st1 n) by (unfold is_node, node_ids; rewrite En, keys_app, in_app_iff; right; now left).
  assert (E0 : attr st1 n k = None).
  { assert (E : lookup n (nodes (g st1)) = Some []) by (rewrite En; apply lookup_app_new; exact Hn).
    unfold attr, node_attrs, getd. now rewrite E. }
  destruct Hk as [Hk|Hk].
  - rewrite F2 by (now right). now rewrite (set_attrs_attr st1 n a Hn1 k), E0.
  - unfold add_node_graph. cbv zeta. pose proof Hn as Hn'. apply has_node_false in Hn. unfold has_node in Hn. rewrite Hn.
    unfold rp_update.
    match goal with |- attr (match seg ?s with _ => _ end) _ _ = _ => assert (Es0 : seg s = None) end.
    { match goal with |- seg (fold_left _ a ?s) = None => destruct (set_attrs_upd_at s n a) as [A _] end.
      unfold set_attrs in A. rewrite (au_seg _ _ A). exact Hk. }
    rewrite Es0.
    match goal with |- attr (fold_left _ a ?s) n k = _ => change (attr (set_attrs s n a) n k = last_binding k a None); rewrite (set_attrs_attr s n a) end.
    + f_equal. match goal with |- attr ?s n k = None => assert (E : lookup n (nodes (g s)) = Some []) by (cbn [g nodes upd_g]; apply lookup_app_new; exact Hn') end.
      unfold attr, node_attrs, getd. cbn [g nodes upd_g] in *. now rewrite E.
    + unfold is_node, node_ids. cbn [g nodes upd_g]. rewrite keys_app, in_app_iff. right. now left.
Qed.

Lemma mask_of_none sg t n : (forall j, (j < length (frame_of sg t))%nat -> label_at sg t j <> n) -> mask_of sg t n = [].
Proof.
  intros H. destruct (mask_of sg t n) as [|p r] eqn:E; [reflexivity|exfalso].
  assert (Hin : In p (mask_of sg t n)) by (rewrite E; now left). unfold mask_of in Hin. apply positions_from_In in Hin.
  destruct Hin as (j & Hj & _ & Hn). exact (H j Hj Hn).
Qed.

(* AddNode of a new id painted over background, then its inverse: graph and array literally restored *)
Theorem add_node_inverse st n a px b st1 :
  W_dict st -> ~ is_node st n -> rp_disjoint st -> add_node_px_ok st n a px ->
  do_add_node st n a px = Ok b st1 ->
  exists b' st2, inv_basic st1 b = Ok b' st2 /\ core_eq st st2.
Proof.
  intros WD Hn Hrp Hpx H. rewrite do_add_node_eq in H.
  destruct (haskey KTime a) eqn:Hkt; [|discriminate]. cbn [negb] in H. destruct (negb (haskey KTrack a)); [discriminate|].
  destruct (match px with None => _ | Some _ => false end); [discriminate|].
  destruct (match px with Some p => set_pixels st p n | None => Ok tt st end) as [u st0|e st0] eqn:Ep; [|discriminate].
  cbn [bind] in H. destruct (add_node_tail_char _ _ _ _ _ _ H) as [-> C31]. clear H.
  destruct (opt_set_pixels_ok _ _ _ _ _ Ep) as (Eg & Eb & Ef & _).
  assert (WD0 : W_dict st0) by (now apply (W_dict_same_g st st0)).
  assert (Hn0 : ~ is_node st0 n) by (unfold is_node, node_ids; now rewrite Eg).
  set (st3 := add_node_graph st0 n a) in *.
  destruct (add_node_graph_shape st0 n a WD0 Hn0) as ([[d Hd] Hsc] & S3 & F3 & _). fold st3 in Hd, Hsc, S3, F3.
  rewrite Eg in Hd, Hsc.
  assert (Hk : ~ In n (keys (nodes (g st)))) by exact Hn.
  assert (Hsk : ~ In n (keys (succs (g st)))).
  { intros Hi. apply Hn. apply (wd_succ_keys st WD n). now apply haskey_keys. }
  (* it is enough to invert in st3, which has the same core as st1 *)
  assert (Hgoal : exists b' s2, do_del_node st3 n None = Ok b' s2 /\ core_eq st s2).
  { rewrite do_del_node_eq. rewrite Hd, (lookup_app_new _ n d Hk). cbv zeta.
    assert (Hg3 : forall s, g s = g st3 -> g (del_node_graph s n) = g st).
    { intros s Hs. unfold del_node_graph. cbn [g upd_g]. rewrite Hs, Hd, Hsc, !del_app.
      cbn [del]. rewrite Z.eqb_refl, !app_nil_r, !del_notin by assumption. rewrite (rows_without st n WD Hn). apply graph_eta. }
    unfold get_pixels. rewrite S3. destruct (seg st) as [sg|] eqn:Hs.
    - destruct (Hpx sg Hs) as (t & Ht & Hf & Hno & Hp).
      set (idx0 := match px with Some p => snd p | None => [] end).
      assert (Es0 : seg st0 = Some (paint_sg sg (t, idx0) n)).
      { unfold idx0. destruct px as [[t' idx]|].
        - destruct Hp as [Et _]. cbn in Et. subst t'. destruct (set_pixels_char _ _ _ _ _ Ep) as (sg1 & Hs1 & _ & ->).
          rewrite Hs in Hs1. injection Hs1 as <-. reflexivity.
        - injection Ep as _ E0. rewrite <- E0, paint_nil. exact Hs. }
      rewrite Es0.
      assert (Etime : time_of st3 n = t).
      { unfold time_of, zattr. unfold st3. rewrite add_node_graph_attr; [|exact Hn0|left; rewrite Ef; apply Hrp; unfold id_key; auto].
        rewrite (last_binding_const KTime a (VZ t) None Ht); [reflexivity|]. now apply haskey_keys. }
      rewrite Etime. set (sg3 := paint_sg sg (t, idx0) n).
      assert (Hf3 : frame_ok sg3 t = true) by (unfold sg3; now rewrite paint_frame_ok).
      assert (Es3 : seg st3 = Some sg3) by (now rewrite S3).
      rewrite (set_pixels_run st3 sg3 (t, mask_of sg3 t n) 0 Es3 Hf3). cbn [bind].
      destruct (del_node_tail_char (del_node_graph (upd_seg st3 (Some (paint_sg sg3 (t, mask_of sg3 t n) 0))) n) n
                  (saved_attrs (reg_node (ft st3)) d) (Some (t, mask_of sg3 t n))) as (s2 & H2 & C2).
      eexists _, s2. split; [exact H2|]. eapply core_eq_trans; [|exact C2].
      unfold core_eq. split; [now apply Hg3|]. cbn [seg ft del_node_graph upd_g upd_seg]. split; [|now rewrite F3, Ef].
      unfold sg3. rewrite unpaint; [now rewrite Hs|exact Hf|exact Hno|].
      unfold idx0. destruct px as [p|]; [apply Hp|intros j _ []].
    - assert (Es0 : seg st0 = None).
      { destruct px as [p|]; [|injection Ep as _ E0; rewrite <- E0; exact Hs]. destruct (set_pixels_char _ _ _ _ _ Ep) as (sg1 & Hs1 & _). congruence. }
      rewrite Es0. cbn [bind].
      destruct (del_node_tail_char (del_node_graph st3 n) n (saved_attrs (reg_node (ft st3)) d) None) as (s2 & H2 & C2).
      eexists _, s2. split; [exact H2|]. eapply core_eq_trans; [|exact C2].
      unfold core_eq. split; [now apply Hg3|]. cbn [seg ft del_node_graph upd_g]. rewrite S3, F3, Es0, Ef. auto. }
  destruct Hgoal as (b' & s2 & H2 & C2).
  destruct (inv_basic_at st3 st1 (BAddNode n a px) b' s2 C31 H2) as (s2' & H2' & C2').
  exists b', s2'. split; [exact H2'|]. eapply core_eq_trans; eauto.
Qed.

(* ---- DeleteNode then AddNode ---- *)
Definition del_node_px_ok (st : state) (n : Z) (pxo : option pixels) : Prop :=
  match pxo with
  | None => True
  | Some p => forall sg j, seg st = Some sg -> (j < length (frame_of sg (fst p)))%nat -> In (Z.of_nat j) (snd p) -> label_at sg (fst p) j = n
  end.
(* without a segmentation the node needs a stored position to be re-creatable *)
Definition pos_ok (st : state) (n : Z) : Prop :=
  seg st = None -> forall k, In k (pos_keys (ft st)) -> In k (reg_node (ft st)) /\ exists v, attr st n k = Some v /\ v <> VNone.
Definition isolated (st : state) (n : Z) : Prop := forall m, has_edge st n m = false /\ has_edge st m n = false.

Lemma del_node_graph_adj st n u : adj (del_node_graph st n) u = if u =? n then [] else del n (adj st u).
Proof.
  unfold adj at 1, del_node_graph, getd. cbn [g succs upd_g]. rewrite lookup_map_vals.
  destruct (Z.eqb_spec u n) as [->|Hu]; [now rewrite lookup_del_eq|]. rewrite lookup_del_neq by exact Hu.
  unfold adj, getd. destruct (lookup u (succs (g st))); reflexivity.
Qed.

Theorem del_node_inverse st n pxo b st1 :
  W_dict st -> cfg_ok st -> rp_disjoint st -> isolated st n -> seg_fresh_at st n -> del_node_px_ok st n pxo -> pos_ok st n ->
  do_del_node st n pxo = Ok b st1 ->
  exists b' st2, inv_basic st1 b = Ok b' st2 /\ obs_eq st st2.
Proof.
  intros WD (Cta & Cla & Crt & Crk & Crl) Hrp Hiso Hfr Hpx Hpos H.
  pose proof (del_node_W_dict _ _ _ _ _ H WD) as WD1.
  rewrite do_del_node_eq in H. destruct (lookup n (nodes (g st))) as [d|] eqn:Ed; [|discriminate]. cbv zeta in H.
  assert (Hn : is_node st n) by (apply is_node_lookup; now exists d).
  assert (Hd : node_attrs st n = d) by (unfold node_attrs, getd; now rewrite Ed).
  set (saved := saved_attrs (reg_node (ft st)) d) in *.
  set (px := match pxo with Some p => Some p | None => get_pixels st n end) in *.
  destruct (match px with Some p => set_pixels st p 0 | None => Ok tt st end) as [u st0|e st0] eqn:Ep; [|discriminate].
  cbn [bind] in H. destruct (opt_set_pixels_ok _ _ _ _ _ Ep) as (Eg & Eb & Ef & _).
  destruct (del_node_tail_char (del_node_graph st0 n) n saved px) as (s' & H' & CD1). rewrite H in H'. injection H' as -> <-. clear H.
  set (sD := del_node_graph st0 n) in *.
  destruct (wd_time st WD n Hn) as [t Et]. destruct (wd_track st WD n Hn) as [T ET].
  assert (Est : lookup KTime saved = Some (VZ t)).
  { apply saved_attrs_lookup; [exact Crt| |discriminate]. unfold attr in Et. now rewrite Hd in Et. }
  assert (Esk : lookup KTrack saved = Some (VZ T)).
  { apply saved_attrs_lookup; [exact Crk| |discriminate]. unfold attr in ET. now rewrite Hd in ET. }
  assert (Hall : forall k v, In (k, v) saved -> lookup k d = Some v /\ v <> VNone /\ In k (reg_node (ft st))).
  { intros k v Hin. apply saved_attrs_in in Hin. tauto. }
  assert (Hlast : forall k v, lookup k saved = Some v -> last_binding k saved None = Some v).
  { intros k v E. apply last_binding_const; [|eapply lookup_Some_keys; eauto].
    intros v' Hin. apply lookup_In in E. destruct (Hall k v E) as (A & _). destruct (Hall k v' Hin) as (A' & _). congruence. }
  (* the array: what DeleteNode cleared is what AddNode paints *)
  assert (Hseg : match px with
                 | Some p => exists sg, seg st = Some sg /\ frame_ok sg (fst p) = true /\ seg st0 = Some (paint_sg sg p 0) /\
                              paint_sg (paint_sg sg p 0) p n = sg
                 | None => seg st = None /\ seg st0 = None /\ pxo = None
                 end).
  { destruct px as [p|] eqn:Epx.
    - destruct (set_pixels_char _ _ _ _ _ Ep) as (sg & Hs & Hf & ->). exists sg. split; [exact Hs|]. split; [exact Hf|]. split; [reflexivity|].
      apply paint_back; [exact Hf|]. intros i Hi Hin. unfold px in Epx. destruct pxo as [p0|].
      + injection Epx as ->. apply (Hpx sg i Hs Hi Hin).
      + unfold get_pixels in Epx. rewrite Hs in Epx. injection Epx as <-. cbn [fst snd] in *. apply mask_of_In in Hin. apply Hin.
    - unfold px in Epx. destruct pxo as [p0|]; [discriminate|]. unfold get_pixels in Epx. destruct (seg st) eqn:Hs; [discriminate|].
      injection Ep as _ <-. auto. }
  (* enough to invert in sD *)
  assert (Hgoal : exists b' s2, do_add_node sD n saved px = Ok b' s2 /\ obs_eq st s2).
  { rewrite do_add_node_eq. rewrite (lookup_Some_haskey _ _ _ Est), (lookup_Some_haskey _ _ _ Esk). cbn [negb].
    assert (Hposchk : match px with None => negb (all_in (pos_keys (ft sD)) saved) | Some _ => false end = false).
    { destruct px as [p|]; [reflexivity|]. destruct Hseg as (Hs & _ & _). apply negb_false_iff. unfold all_in. apply forallb_forall.
      intros k Hk. change (ft sD) with (ft st0) in Hk. rewrite Ef in Hk. destruct (Hpos Hs k Hk) as (Hr & v & Ev & Hv).
      apply lookup_Some_haskey with (v := v). apply saved_attrs_lookup; [exact Hr| |exact Hv]. unfold attr in Ev. now rewrite Hd in Ev. }
    rewrite Hposchk.
    assert (HnD : forall s, g s = g sD -> ~ is_node s n).
    { intros s Hs Hi. unfold is_node, node_ids in Hi. rewrite Hs in Hi. unfold sD, del_node_graph in Hi. cbn [g nodes upd_g] in Hi.
      apply in_keys_del in Hi. now destruct Hi. }
    assert (WDD : W_dict sD) by (apply (core_W_dict st1 sD); [now apply core_eq_sym|exact WD1]).
    (* the state after re-painting *)
    assert (Hpaint : exists sD0, (match px with Some p => set_pixels sD p n | None => Ok tt sD end) = Ok tt sD0 /\
                       g sD0 = g sD /\ ft sD0 = ft st /\ seg sD0 = seg st).
    { destruct px as [p|].
      - destruct Hseg as (sg & Hs & Hf & Hs0 & Hback).
        assert (HsD : seg sD = Some (paint_sg sg p 0)) by exact Hs0.
        rewrite (set_pixels_run sD _ p n HsD) by (now rewrite paint_frame_ok).
        eexists. split; [reflexivity|]. cbn [g ft seg upd_seg]. rewrite Hback. split; [reflexivity|]. split; [exact Ef|now rewrite Hs].
      - destruct Hseg as (Hs & Hs0 & _). exists sD. split; [reflexivity|]. split; [reflexivity|]. split; [exact Ef|]. now rewrite Hs. }
    destruct Hpaint as (sD0 & Hp0 & Eg0 & Ef0 & Es0). rewrite Hp0. cbn [bind].
    assert (Hn0 : ~ is_node sD0 n) by (now apply HnD).
    assert (WD0 : W_dict sD0) by (now apply (W_dict_same_g sD sD0)).
    set (s3 := add_node_graph sD0 n saved).
    destruct (add_node_graph_shape sD0 n saved WD0 Hn0) as (_ & S3 & F3 & _). fold s3 in S3, F3.
    destruct (add_node_graph_nodes sD0 n saved Hn0) as (Eids & _ & _ & Hat). cbv zeta in Eids, Hat. fold s3 in Eids, Hat.
    destruct (add_node_graph_spec sD0 n saved Hn0) as (sa & [A _] & _ & Ena & Esa & _ & _). fold s3 in A.
    assert (Hrp0 : rp_disjoint sD0) by (unfold rp_disjoint; now rewrite Ef0).
    assert (Hattr_n : forall k, ~ In k (rp_act (ft st)) \/ seg st = None -> attr s3 n k = last_binding k saved None).
    { intros k Hk. unfold s3. apply add_node_graph_attr; [exact Hn0|]. now rewrite Ef0, Es0. }
    assert (Etrk : zattr s3 n KTrack = Some T).
    { apply zattr_VZ. rewrite Hattr_n by (left; apply Hrp; unfold id_key; auto). now apply Hlast. }
    assert (Etime : time_of s3 n = t).
    { unfold time_of. rewrite (zattr_VZ s3 n KTime t); [reflexivity|]. rewrite Hattr_n by (left; apply Hrp; unfold id_key; auto). now apply Hlast. }
    destruct (add_node_tail s3 n saved px) as [b' s2|e s2] eqn:Ht.
    2:{ exfalso. unfold add_node_tail in Ht. rewrite F3, Ef0, Cta, Etrk in Ht. cbn [negb] in Ht.
        destruct (lin_act (ft st)); [destruct (zattr s3 n KLin)|]; discriminate. }
    exists b', s2. split; [reflexivity|]. destruct (add_node_tail_char _ _ _ _ _ _ Ht) as [_ C32].
    eapply obs_eq_trans; [|apply core_eq_obs; exact C32].
    (* adjacency of s3 *)
    assert (Hadj : forall x, adj s3 x = if x =? n then [] else del n (adj st x)).
    { intros x. unfold adj at 1. rewrite (au_succs _ _ A), Esa, Eg0.
      assert (HnD' : getd n (succs (g sD)) [] = []).
      { pose proof (del_node_graph_adj st0 n n) as X. rewrite Z.eqb_refl in X. exact X. }
      rewrite HnD'. destruct (Z.eqb_spec x n) as [->|Hx]; [apply getd_set_eq|]. rewrite getd_set_neq by exact Hx.
      pose proof (del_node_graph_adj st0 n x) as X. unfold adj at 1 in X. fold sD in X. rewrite X.
      destruct (Z.eqb_spec x n); [contradiction|]. unfold adj. now rewrite Eg. }
    assert (HE : forall x y, has_edge s3 x y = has_edge st x y).
    { intros x y. unfold has_edge at 1. rewrite Hadj. destruct (Z.eqb_spec x n) as [->|Hx].
      - symmetry. apply (Hiso y).
      - rewrite haskey_del. destruct (Z.eqb_spec y n) as [->|Hy]; [symmetry; apply (Hiso x)|reflexivity]. }
    assert (HEA : forall x y, edge_attrs s3 x y = edge_attrs st x y).
    { intros x y. unfold edge_attrs at 1. rewrite Hadj. destruct (Z.eqb_spec x n) as [->|Hx].
      - destruct (Hiso y) as [Hy _]. unfold has_edge, haskey in Hy. unfold edge_attrs, getd. destruct (lookup y (adj st n)); [discriminate|reflexivity].
      - destruct (Z.eq_dec y n) as [->|Hy]; [|now rewrite getd_del_neq].
        rewrite getd_del_eq. destruct (Hiso x) as [_ Hy]. unfold has_edge, haskey in Hy. unfold edge_attrs, getd. destruct (lookup n (adj st x)); [discriminate|reflexivity]. }
    assert (HinD : forall m, is_node sD0 m <-> m <> n /\ is_node st m).
    { intros m. unfold is_node, node_ids. rewrite Eg0. unfold sD, del_node_graph. cbn [g nodes upd_g]. rewrite Eg. apply in_keys_del. }
    assert (HatD : forall m k, m <> n -> attr sD0 m k = attr st m k).
    { intros m k Hm. unfold attr, node_attrs. rewrite Eg0. unfold sD, del_node_graph. cbn [g nodes upd_g]. rewrite Eg. unfold getd. now rewrite lookup_del_neq. }
    constructor.
    - intros m. unfold is_node at 1. rewrite Eids, in_app_iff. fold (is_node sD0 m). rewrite HinD. cbn [In].
      split; [intros [[_ X]|[<-|[]]]; assumption|]. intros X. destruct (Z.eq_dec m n) as [->|Hm]; [right; now left|left; now split].
    - exact HE.
    - intros m k Hk. unfold attr_obs. destruct (Z.eq_dec m n) as [->|Hm]; [|now rewrite Hat, HatD].
      assert (Hplain : attr s3 n k = last_binding k saved None -> obsv (attr s3 n k) = obsv (attr st n k)).
      { intros E. rewrite E. unfold attr. rewrite Hd. apply (obs_saved (reg_node (ft st)) d k _ Hk).
        - intros v Ev Hv. apply Hlast. now apply saved_attrs_lookup.
        - intros Hc. apply last_binding_notin. intros Hi. apply saved_attrs_keys in Hi. destruct Hi as (_ & v & Ev & Hv). destruct Hc; congruence. }
      destruct (seg st) as [sg|] eqn:Hs; [|apply Hplain, Hattr_n; now right].
      destruct (in_dec Z.eq_dec k (rp_act (ft st))) as [Hi|Hi]; [|apply Hplain, Hattr_n; now left].
      f_equal. destruct (Hfr sg Hs) as [Fr _]. rewrite (Fr k Hi).
      (* the recomputed regionprops value *)
      set (sb := set_attrs (upd_g sD0 {| nodes := nodes (g sD0) ++ [(n, [])]; succs := set n (getd n (succs (g sD0)) []) (succs (g sD0)) |}) n saved).
      assert (E3 : s3 = rp_update sb n).
      { unfold s3, add_node_graph. cbv zeta. pose proof Hn0 as Hn0'. apply has_node_false in Hn0'. unfold has_node in Hn0'. now rewrite Hn0'. }
      assert (Hsb : seg sb = Some sg /\ ft sb = ft st /\ is_node sb n).
      { unfold sb. match goal with |- context [set_attrs ?s0 n saved] => destruct (set_attrs_upd_at s0 n saved) as [A1 _] end.
        rewrite (au_seg _ _ A1), (au_ft _ _ A1). cbn [seg ft upd_g]. split; [now rewrite Es0|]. split; [exact Ef0|].
        apply (attr_upd_is_node _ _ n A1). unfold is_node, node_ids. cbn [g nodes upd_g]. rewrite keys_app, in_app_iff. right. now left. }
      destruct Hsb as (Sb1 & Sb2 & Sb3).
      assert (Etb : time_of sb n = t).
      { rewrite <- Etime, E3. symmetry. apply time_of_same. destruct (rp_update_upd_at sb n) as [_ Fb]. apply Fb. right. rewrite Sb2. apply Hrp. unfold id_key. auto. }
      rewrite E3, (rp_update_spec sb n sg Sb1 Sb3 k) by (now rewrite Sb2). rewrite Etb.
      unfold time_of. now rewrite (zattr_VZ st n KTime t Et).
    - intros x y k _. unfold eattr_obs. now rewrite HEA.
    - now rewrite S3, Es0.
    - now rewrite F3, Ef0. }
  destruct Hgoal as (b' & s2 & H2 & O2).
  destruct (inv_basic_at sD st1 (BDelNode n saved px) b' s2 CD1 H2) as (s2' & H2' & C2').
  exists b', s2'. split; [exact H2'|]. eapply obs_eq_trans; [exact O2|now apply core_eq_obs].
Qed.

(* ---- the two-sided laws for nodes ---- *)
Lemma isolated_non_node st n : W_dict st -> ~ is_node st n -> isolated st n.
Proof.
  intros WD Hn m. split.
  - destruct (has_edge st n m) eqn:E; [|reflexivity]. exfalso. apply Hn. apply (wd_edge_nodes st WD n m E).
  - destruct (has_edge st m n) eqn:E; [|reflexivity]. exfalso. apply Hn. apply (wd_edge_nodes st WD m n E).
Qed.

Lemma add_node_effect st n a px b st1 : W_dict st -> ~ is_node st n -> rp_disjoint st -> do_add_node st n a px = Ok b st1 ->
  b = BAddNode n a px /\ ft st1 = ft st /\ is_node st1 n /\ (seg st1 = None <-> seg st = None) /\
  (forall x, adj st1 x = adj st x) /\
  (forall k, ~ In k (rp_act (ft st)) \/ seg st1 = None -> attr st1 n k = last_binding k a None) /\
  (forall sg1 k, seg st1 = Some sg1 -> In k (rp_act (ft st)) -> attr st1 n k = Some (rpval (mask_of sg1 (time_of st1 n) n))).
Proof.
  intros WD Hn Hrp H. rewrite do_add_node_eq in H.
  destruct (negb (haskey KTime a)); [discriminate|]. destruct (negb (haskey KTrack a)); [discriminate|].
  destruct (match px with None => _ | Some _ => false end); [discriminate|].
  destruct (match px with Some p => set_pixels st p n | None => Ok tt st end) as [u st0|e st0] eqn:Ep; [|discriminate].
  cbn [bind] in H. destruct (add_node_tail_char _ _ _ _ _ _ H) as [-> C31]. clear H.
  destruct (opt_set_pixels_ok _ _ _ _ _ Ep) as (Eg & Eb & Ef & _).
  assert (WD0 : W_dict st0) by (now apply (W_dict_same_g st st0)).
  assert (Hn0 : ~ is_node st0 n) by (unfold is_node, node_ids; now rewrite Eg).
  set (st3 := add_node_graph st0 n a) in *.
  destruct (add_node_graph_shape st0 n a WD0 Hn0) as ([[d Hd] Hsc] & S3 & F3 & _). fold st3 in Hd, Hsc, S3, F3.
  destruct C31 as (Cg & Cs & Cf).
  assert (Hsk : ~ In n (keys (succs (g st)))).
  { intros Hi. apply Hn. apply (wd_succ_keys st WD n). now apply haskey_keys. }
  assert (Hs0 : seg st0 = None <-> seg st = None).
  { destruct px as [p|]; [|injection Ep as _ E0; now rewrite <- E0]. destruct (set_pixels_char _ _ _ _ _ Ep) as (sg1 & Hs1 & _ & ->).
    cbn [seg upd_seg]. rewrite Hs1. split; discriminate. }
  split; [reflexivity|]. split; [now rewrite Cf, F3|]. split; [|split; [|split; [|split]]].
  - unfold is_node, node_ids. rewrite Cg, Hd, keys_app, in_app_iff. right. now left.
  - rewrite Cs, S3. exact Hs0.
  - intros x. unfold adj. rewrite Cg, Hsc, Eg. unfold getd. rewrite lookup_app.
    destruct (lookup x (succs (g st))) eqn:E; [reflexivity|]. cbn. destruct (x =? n); reflexivity.
  - intros k Hk. unfold attr, node_attrs. rewrite Cg. fold (node_attrs st3 n). fold (attr st3 n k).
    unfold st3. apply add_node_graph_attr; [exact Hn0|]. rewrite Ef. destruct Hk as [Hk|Hk]; [now left|right]. now rewrite Cs, S3 in Hk.
  - intros sg1 k Hs1 Hk.
    set (sb := set_attrs (upd_g st0 {| nodes := nodes (g st0) ++ [(n, [])]; succs := set n (getd n (succs (g st0)) []) (succs (g st0)) |}) n a).
    assert (E3 : st3 = rp_update sb n).
    { unfold st3, add_node_graph. cbv zeta. pose proof Hn0 as Hn0'. apply has_node_false in Hn0'. unfold has_node in Hn0'. now rewrite Hn0'. }
    assert (Hsb : seg sb = seg st0 /\ ft sb = ft st /\ is_node sb n).
    { unfold sb. match goal with |- context [set_attrs ?s0 n a] => destruct (set_attrs_upd_at s0 n a) as [A1 _] end.
      rewrite (au_seg _ _ A1), (au_ft _ _ A1). cbn [seg ft upd_g]. split; [reflexivity|]. split; [exact Ef|].
      apply (attr_upd_is_node _ _ n A1). unfold is_node, node_ids. cbn [g nodes upd_g]. rewrite keys_app, in_app_iff. right. now left. }
    destruct Hsb as (Sb1 & Sb2 & Sb3).
    assert (Et : time_of st1 n = time_of sb n).
    { unfold time_of, zattr, attr, node_attrs. rewrite Cg. fold (node_attrs st3 n). fold (attr st3 n KTime). rewrite E3.
      destruct (rp_update_upd_at sb n) as [_ Fb]. rewrite Fb; [reflexivity|]. right. rewrite Sb2. apply Hrp. unfold id_key. auto. }
    unfold attr, node_attrs. rewrite Cg. fold (node_attrs st3 n). fold (attr st3 n k). rewrite E3, Et.
    apply rp_update_spec; [|exact Sb3|now rewrite Sb2]. rewrite Sb1, <- S3, <- Cs. exact Hs1.
Qed.

Theorem C01_add_node_law st n a px b st1 t0 T L :
  W_dict st -> cfg_ok st -> rp_disjoint st -> ~ is_node st n -> add_node_px_ok st n a px ->
  NoDup (keys a) -> lookup KTime a = Some (VZ t0) -> lookup KTrack a = Some (VZ T) -> lookup KLin a = Some (VZ L) ->
  (seg st = None -> forall k, In k (pos_keys (ft st)) -> In k (reg_node (ft st)) /\ exists v, lookup k a = Some v /\ v <> VNone) ->
  do_add_node st n a px = Ok b st1 -> inverts st st1 b.
Proof.
  intros WD Cfg Hrp Hn Hpx Hnd Ha0 Ha1 Ha2 Hpos H.
  destruct (add_node_inverse _ _ _ _ _ _ WD Hn Hrp Hpx H) as (b' & st2 & H2 & C2).
  exists b', st2. split; [exact H2|]. split; [apply obs_eq_sym, core_eq_obs, C2|].
  pose proof (add_node_W_dict _ _ _ _ _ _ _ _ _ Hn Hrp Hnd Ha0 Ha1 Ha2 H WD) as WD1.
  destruct (add_node_effect _ _ _ _ _ _ WD Hn Hrp H) as (-> & Ef & Hn1 & Hsn & Hadj & Hplain & Hrpv).
  cbn [inv_basic] in H2.
  assert (Hiso : isolated st1 n).
  { intros m. destruct (isolated_non_node st n WD Hn m) as [A B]. unfold has_edge in *. now rewrite !Hadj. }
  assert (Hfr : seg_fresh_at st1 n).
  { intros sg1 Hs1. split.
    - intros k Hk. rewrite Ef in Hk. now apply Hrpv.
    - intros _ x y He Hxy. exfalso. destruct Hxy as [-> | ->]; [destruct (Hiso y)|destruct (Hiso x)]; congruence. }
  assert (Hpos1 : pos_ok st1 n).
  { intros Hs1 k Hk. rewrite Ef in Hk |- *.
    assert (Hs : seg st = None) by (now apply Hsn).
    destruct (Hpos Hs k Hk) as (Hr & v & Ev & Hv). split; [exact Hr|]. exists v. split; [|exact Hv].
    rewrite Hplain by (now right). apply last_binding_const; [|eapply lookup_Some_keys; eauto].
    intros v' Hin. apply (In_lookup k a v' Hnd) in Hin. congruence. }
  assert (Cfg1 : cfg_ok st1) by (unfold cfg_ok; now rewrite Ef).
  assert (Hrp1 : rp_disjoint st1) by (unfold rp_disjoint; now rewrite Ef).
  destruct (del_node_inverse st1 n None _ st2 WD1 Cfg1 Hrp1 Hiso Hfr I Hpos1 H2) as (b'' & st3 & H3 & O3).
  assert (Eb' : exists sv pe, b' = BDelNode n sv pe).
  { rewrite do_del_node_eq in H2. destruct (lookup n (nodes (g st1))); [|discriminate]. cbv zeta in H2.
    destruct (match get_pixels st1 n with Some p => set_pixels st1 p 0 | None => Ok tt st1 end); [|discriminate]. cbn [bind] in H2.
    match type of H2 with del_node_tail ?s n ?sv ?pe = _ => destruct (del_node_tail_char s n sv pe) as (s' & Hs' & _); rewrite H2 in Hs'; injection Hs' as -> _; now exists sv, pe end. }
  destruct Eb' as (sv & pe & ->).
  exists b'', st3. split; [exact H3|]. now apply obs_eq_sym.
Qed.

Definition del_node_px_exact (st : state) (n : Z) (pxo : option pixels) : Prop :=
  match pxo with
  | None => True
  | Some p => forall sg, seg st = Some sg -> fst p = time_of st n /\
                forall j, (j < length (frame_of sg (fst p)))%nat -> (In (Z.of_nat j) (snd p) <-> label_at sg (fst p) j = n)
  end.

Theorem C01_del_node_law st n pxo b st1 :
  W_dict st -> cfg_ok st -> rp_disjoint st -> isolated st n -> seg_fresh_at st n -> del_node_px_exact st n pxo -> pos_ok st n ->
  (seg st <> None -> n <> 0) ->
  do_del_node st n pxo = Ok b st1 -> inverts st st1 b.
Proof.
  intros WD Cfg Hrp Hiso Hfr Hex Hpos Hn0 H.
  assert (Hpx : del_node_px_ok st n pxo).
  { unfold del_node_px_ok. destruct pxo as [p|]; [|exact I]. intros sg j Hs Hj Hin. destruct (Hex sg Hs) as [_ X]. now apply X. }
  destruct (del_node_inverse _ _ _ _ _ WD Cfg Hrp Hiso Hfr Hpx Hpos H) as (b' & st2 & H2 & O2).
  exists b', st2. split; [exact H2|]. split; [now apply obs_eq_sym|].
  pose proof (del_node_W_dict _ _ _ _ _ H WD) as WD1.
  rewrite do_del_node_eq in H. destruct (lookup n (nodes (g st))) as [d|] eqn:Ed; [|discriminate]. cbv zeta in H.
  assert (Hn : is_node st n) by (apply is_node_lookup; now exists d).
  assert (Hd : node_attrs st n = d) by (unfold node_attrs, getd; now rewrite Ed).
  set (saved := saved_attrs (reg_node (ft st)) d) in *.
  set (px := match pxo with Some p => Some p | None => get_pixels st n end) in *.
  destruct (match px with Some p => set_pixels st p 0 | None => Ok tt st end) as [u st0|e st0] eqn:Ep; [|discriminate].
  cbn [bind] in H. destruct (opt_set_pixels_ok _ _ _ _ _ Ep) as (Eg & Eb & Ef & _).
  destruct (del_node_tail_char (del_node_graph st0 n) n saved px) as (s' & H' & (Cg & Cs & Cf)). rewrite H in H'. injection H' as -> <-. clear H.
  cbn [inv_basic] in H2.
  assert (Hn1 : ~ is_node st1 n).
  { unfold is_node, node_ids. rewrite Cg. unfold del_node_graph. cbn [g nodes upd_g]. intros Hi. apply in_keys_del in Hi. now destruct Hi. }
  assert (Hrp1 : rp_disjoint st1) by (unfold rp_disjoint; rewrite Cf; cbn [ft del_node_graph upd_g]; now rewrite Ef).
  destruct (wd_time st WD n Hn) as [t Et].
  assert (Ett : time_of st n = t) by (unfold time_of; now rewrite (zattr_VZ st n KTime t Et)).
  assert (Hpx1 : add_node_px_ok st1 n saved px).
  { intros sg1 Hs1. rewrite Cs in Hs1. cbn [seg del_node_graph upd_g] in Hs1. exists t.
    split.
    { intros v Hin. apply saved_attrs_in in Hin. destruct Hin as (_ & E & _). unfold attr in Et. rewrite Hd in Et. congruence. }
    destruct px as [[tp idx]|] eqn:Epx.
    2:{ exfalso. injection Ep as _ <-. unfold px in Epx. destruct pxo; [discriminate|]. unfold get_pixels in Epx. rewrite Hs1 in Epx. discriminate. }
    destruct (set_pixels_char _ _ _ _ _ Ep) as (sg & Hs & Hf & ->). cbn [seg upd_seg] in Hs1. injection Hs1 as <-. cbn [fst snd] in Hf.
    assert (Hexact : tp = t /\ forall j, (j < length (frame_of sg tp))%nat -> (In (Z.of_nat j) idx <-> label_at sg tp j = n)).
    { unfold px in Epx. destruct pxo as [p0|].
      - injection Epx as ->. destruct (Hex sg Hs) as [A B]. cbn [fst snd] in A, B. split; [congruence|exact B].
      - unfold get_pixels in Epx. rewrite Hs in Epx. injection Epx as <- <-. split; [exact Ett|]. intros j Hj. rewrite mask_of_In. tauto. }
    destruct Hexact as [-> Hiff].
    assert (Hlab : forall j, (j < length (frame_of sg t))%nat -> label_at (paint_sg sg (t, idx) 0) t j = if memz (Z.of_nat j) idx then 0 else label_at sg t j)
      by (intros j Hj; now apply label_at_paint_same).
    split; [now rewrite paint_frame_ok|]. split; [|split; [reflexivity|]].
    - intros j Hj. rewrite frame_len_paint in Hj by exact Hf. rewrite (Hlab j Hj). destruct (memz (Z.of_nat j) idx) eqn:Em.
      + intros E0. apply Hn0; [congruence|now symmetry].
      + intros E. apply Hiff in E; [|exact Hj]. apply memz_In in E. congruence.
    - cbn [snd]. intros j Hj Hin. rewrite frame_len_paint in Hj by exact Hf. rewrite (Hlab j Hj). apply memz_In in Hin. now rewrite Hin. }
  destruct (add_node_inverse st1 n saved px b' st2 WD1 Hn1 Hrp1 Hpx1 H2) as (b'' & st3 & H3 & C3).
  assert (Eb' : b' = BAddNode n saved px).
  { rewrite do_add_node_eq in H2. destruct (negb (haskey KTime saved)); [discriminate|]. destruct (negb (haskey KTrack saved)); [discriminate|].
    destruct (match px with None => _ | Some _ => false end); [discriminate|].
    destruct (match px with Some p => set_pixels st1 p n | None => Ok tt st1 end); [|discriminate]. cbn [bind] in H2.
    now destruct (add_node_tail_char _ _ _ _ _ _ H2). }
  subst b'. exists b'', st3. split; [exact H3|]. apply obs_eq_sym, core_eq_obs, C3.
Qed.

(* ================================================================== *)
(* 8. UpdateTrackIDs                                                     *)
(* ================================================================== *)
From FT Require Proofs.EditWalk Proofs.EditLin.

(* the nodes the walk relabels: the longest prefix of the visiting order that carries the old id *)
Definition trkb (st : state) (T x : Z) : bool := match zattr st x KTrack with Some t => t =? T | None => false end.
Fixpoint pref (st : state) (T : Z) (vis : list Z) : list Z :=
  match vis with [] => [] | x :: r => if trkb st T x then x :: pref st T r else [] end.
(* the node at which the relabelling stops *)
Fixpoint stop (st : state) (T : Z) (vis : list Z) : option Z :=
  match vis with [] => None | x :: r => if trkb st T x then stop st T r else Some x end.

Lemma trkb_true st T x : trkb st T x = true <-> trk st x = Some T.
Proof.
  unfold trkb, trk. destruct (zattr st x KTrack) as [t|]; [|split; discriminate].
  rewrite Z.eqb_eq. split; [now intros ->|now intros [= ->]].
Qed.
Lemma pref_ext st st' T vis : (forall m, In m vis -> trk st' m = trk st m) -> pref st' T vis = pref st T vis /\ stop st' T vis = stop st T vis.
Proof.
  induction vis as [|x r IH]; intros H; cbn [pref stop]; [split; reflexivity|].
  assert (E : trkb st' T x = trkb st T x) by (unfold trkb; unfold trk in H; now rewrite (H x (or_introl eq_refl))).
  rewrite E. destruct (IH (fun m Hm => H m (or_intror Hm))) as [A B]. rewrite A, B. split; reflexivity.
Qed.
Lemma pref_incl st T vis : incl (pref st T vis) vis.
Proof. induction vis as [|x r IH]; cbn [pref]; [intros m []|]. destruct (trkb st T x); [|intros m []]. intros m [<-|Hm]; [now left|right; now apply IH]. Qed.
Lemma pref_trk st T vis m : In m (pref st T vis) -> trk st m = Some T.
Proof.
  induction vis as [|x r IH]; cbn [pref]; [intros []|]. destruct (trkb st T x) eqn:E; [|intros []].
  intros [<-|Hm]; [now apply trkb_true|now apply IH].
Qed.
Lemma stop_spec st T vis x : stop st T vis = Some x -> In x vis /\ ~ In x (pref st T vis) /\ trk st x <> Some T.
Proof.
  induction vis as [|y r IH]; cbn [stop pref]; [discriminate|]. destruct (trkb st T y) eqn:E.
  - intros H. destruct (IH H) as (A & B & C). split; [now right|]. split; [|exact C].
    intros [->|Hi]; [apply trkb_true in E; contradiction|contradiction].
  - intros [= ->]. split; [now left|]. split; [intros []|]. intros Ht. apply trkb_true in Ht. congruence.
Qed.

(* relabelling the prefix with T': the same prefix is found again when looking for T',
   provided the node where the walk stopped does not carry T' *)
Lemma pref_relabel st st1 T T' : forall vis, NoDup vis ->
  (forall m, In m vis -> trk st1 m = if memz m (pref st T vis) then Some T' else trk st m) ->
  (forall x, stop st T vis = Some x -> trk st x <> Some T') ->
  pref st1 T' vis = pref st T vis /\ stop st1 T' vis = stop st T vis.
Proof.
  induction vis as [|x r IH]; intros Hnd Htr Hst; cbn [pref stop]; [split; reflexivity|].
  inversion Hnd as [|? ? Hx Hr]; subst. destruct (trkb st T x) eqn:E.
  - assert (E1 : trkb st1 T' x = true).
    { apply trkb_true. rewrite (Htr x (or_introl eq_refl)). cbn [pref]. rewrite E. unfold memz. cbn [existsb]. now rewrite Z.eqb_refl. }
    rewrite E1. destruct (IH Hr) as [A B].
    + intros m Hm. rewrite (Htr m (or_intror Hm)). cbn [pref]. rewrite E. unfold memz. cbn [existsb].
      destruct (Z.eqb_spec m x) as [->|]; [contradiction|reflexivity].
    + intros y Hy. apply Hst. cbn [stop]. now rewrite E.
    + rewrite A, B. split; reflexivity.
  - assert (E1 : trkb st1 T' x = false).
    { destruct (trkb st1 T' x) eqn:E1; [|reflexivity]. exfalso. apply trkb_true in E1.
      rewrite (Htr x (or_introl eq_refl)) in E1. cbn [pref] in E1. rewrite E in E1. cbn in E1.
      apply (Hst x); [cbn [stop]; now rewrite E|exact E1]. }
    rewrite E1. split; reflexivity.
Qed.

Lemma visit1_fold_pref oldT newT newL : forall vis st flag tn ln st1 f1 tn1 ln1, NoDup vis ->
  fold_left (visit1 oldT newT newL) vis (st, flag, tn, ln) = (st1, f1, tn1, ln1) ->
  tn1 = tn ++ (if flag then pref st oldT vis else []).
Proof.
  induction vis as [|x r IH]; intros st flag tn ln st1 f1 tn1 ln1 Hnd H.
  - cbn in H. injection H as _ _ <- _. destruct flag; now rewrite app_nil_r.
  - cbn [fold_left] in H. destruct (visit1 oldT newT newL (st, flag, tn, ln) x) as [[[sa fa] tna] lna] eqn:Ev.
    inversion Hnd as [|? ? Hx Hr]; subst.
    destruct (visit1_spec _ _ _ _ _ _ _ _ _ _ _ _ Ev) as (_ & _ & _ & _ & _ & HT).
    rewrite (IH _ _ _ _ _ _ _ _ Hr H).
    destruct HT as [([Hf Ht] & -> & -> & _ & Tm)|(Hno & -> & -> & _)].
    + subst flag. cbn [pref]. apply trkb_true in Ht. rewrite Ht.
      destruct (pref_ext st sa oldT r) as [A _].
      { intros m Hm. unfold trk, zattr. rewrite Tm; [reflexivity|]. intros ->. contradiction. }
      rewrite A, <- app_assoc. reflexivity.
    + rewrite app_nil_r. destruct flag; [|now rewrite app_nil_r]. cbn [pref].
      destruct (trkb st oldT x) eqn:E; [|now rewrite app_nil_r]. exfalso. apply Hno. split; [reflexivity|now apply trkb_true].
Qed.

Lemma reach_conv st a b : EditBook.reach st a b -> EditWalk.reach st a b.
Proof.
  induction 1 as [u|u v w _ IH He]; [apply Relation_Operators.rt_refl|].
  eapply Relation_Operators.rt_trans; [exact IH|now apply Relation_Operators.rt_step].
Qed.

(* the walk, completely *)
Lemma walk_char st start oldT newT newL s1 tn ln :
  W_dict st -> W_forest st -> is_node st start -> trk st start = Some oldT ->
  walk (S (length (nodes (g st)))) oldT newT newL st [start] true [] [] = Some (s1, tn, ln) ->
  exists vis, bfs (S (length (nodes (g st)))) st [start] = Some vis /\ NoDup vis /\ In start vis /\
    (forall m, In m vis -> EditWalk.reach st start m) /\ (forall m, In m vis -> is_node st m) /\
    attr_upd st s1 /\ tn = pref st oldT vis /\ In start (pref st oldT vis) /\
    (forall m k, k <> KTrack -> k <> KLin -> attr s1 m k = attr st m k) /\
    (forall m, attr s1 m KTrack = if memz m (pref st oldT vis) then Some (VZ newT) else attr st m KTrack) /\
    (forall m, attr s1 m KLin = match newL with
                                | Some l => if memz m vis then Some (VZ l) else attr st m KLin
                                | None => attr st m KLin end).
Proof.
  intros WD WF Hs Ht Hw.
  destruct (upd_track_walk _ _ _ _ _ _ _ _ WD Hs Ht Hw) as (vis & Eb & A & F & Hsv & Hvn & Eln & L1 & L2 & Hincl & Hst & _ & T1 & T2).
  destruct (walk_bfs _ _ _ _ _ _ _ _ _ _ _ _ Hw) as (vis' & flag1 & Eb' & Ef). rewrite Eb in Eb'. injection Eb' as <-.
  destruct (bfs_forest st WD (wf_in st WF) (wf_time st WF) (S (length (nodes (g st)))) [start] vis
      ltac:(constructor; [intros []|constructor]) ltac:(intros a b' [<-|[]] [<-|[]] _; reflexivity) Eb) as [Hnd Hreach].
  pose proof (visit1_fold_pref _ _ _ _ _ _ _ _ _ _ _ _ Hnd Ef) as Etn. cbn [app] in Etn.
  exists vis. split; [exact Eb|]. split; [exact Hnd|]. split; [exact Hsv|]. split.
  { intros m Hm. destruct (Hreach m Hm) as (c & [<-|[]] & R). now apply reach_conv. }
  split; [exact Hvn|]. split; [exact A|]. split; [exact Etn|]. split; [now rewrite <- Etn|]. split; [exact F|]. split.
  - intros m. rewrite <- Etn. destruct (memz m tn) eqn:Em; [apply memz_In in Em; apply T1, Em|apply memz_false in Em; now apply T2].
  - intros m. destruct newL as [l|]; [|apply L2; now left].
    destruct (memz m vis) eqn:Em; [apply memz_In in Em; now apply (L1 m l)|apply memz_false in Em; apply L2; now right].
Qed.

Lemma do_upd_track_char st start newT newL b st1 : cfg_ok st -> do_upd_track st start newT newL = Ok b st1 ->
  exists oldT s1 tn ln, is_node st start /\ trk st start = Some oldT /\
    b = BUpdTrack start oldT newT (zattr st start KLin) newL /\
    walk (S (length (nodes (g st)))) oldT newT newL st [start] true [] [] = Some (s1, tn, ln) /\ core_eq s1 st1 /\
    max_trk (bk s1) <= max_trk (bk st1).
Proof.
  intros (Cta & Cla & _). unfold do_upd_track. destruct (has_node st start) eqn:Eh; [|discriminate]. cbn [negb].
  destruct (zattr st start KTrack) as [oldT|] eqn:Et; [|discriminate]. rewrite Cta, Cla. cbn [negb].
  destruct (walk _ oldT newT newL st [start] true [] []) as [[[s1 tn] ln]|] eqn:Ew; [|discriminate].
  intros H. exists oldT, s1, tn, ln. split; [now apply has_node_is_node|]. split; [exact Et|].
  destruct newL as [l|]; injection H as <- <-; (split; [reflexivity|]); (split; [exact Ew|]); (split; [apply core_eq_upd_bk|cbn; lia]).
Qed.

(* pointwise equality of the graph: same node list, same adjacency, same value of every attribute *)
Definition pw_eq (s s' : state) : Prop :=
  node_ids s' = node_ids s /\ succs (g s') = succs (g s) /\ (forall m k, attr s' m k = attr s m k) /\
  seg s' = seg s /\ ft s' = ft s.
Lemma pw_eq_refl s : pw_eq s s.
Proof. unfold pw_eq. auto. Qed.
Lemma pw_eq_sym s s' : pw_eq s s' -> pw_eq s' s.
Proof. intros (A & B & C & D & E). unfold pw_eq. repeat split; auto. Qed.
Lemma pw_eq_trans a b c : pw_eq a b -> pw_eq b c -> pw_eq a c.
Proof. intros (A & B & C & D & E) (A' & B' & C' & D' & E'). unfold pw_eq. split; [congruence|]. split; [congruence|]. split; [intros m k; now rewrite C', C|]. split; congruence. Qed.
Lemma core_eq_pw s s' : core_eq s s' -> pw_eq s s'.
Proof. intros (A & B & C). unfold pw_eq, node_ids, attr, node_attrs. rewrite A. auto. Qed.
Lemma pw_eq_obs s s' : pw_eq s s' -> obs_eq s s'.
Proof.
  intros (A & B & C & D & E). constructor; auto.
  - intros n. unfold is_node. now rewrite A.
  - intros u v. unfold has_edge, adj. now rewrite B.
  - intros n k _. unfold attr_obs. now rewrite C.
  - intros u v k _. unfold eattr_obs, edge_attrs, adj. now rewrite B.
Qed.

(* the documented precondition, in the exact form the walk needs: the node at which the
   relabelling stops does not already carry the new id *)
Definition upd_track_pre (st : state) (start newT : Z) : Prop :=
  forall vis oldT x, bfs (S (length (nodes (g st)))) st [start] = Some vis -> trk st start = Some oldT ->
    stop st oldT vis = Some x -> trk st x <> Some newT.
(* the lineage id is uniform downstream of the start node *)
Definition lin_down (st : state) (start : Z) : Prop := forall m, EditWalk.reach st start m -> lin st m = lin st start.

Lemma zattr_of_attr s s' m k : attr s' m k = attr s m k -> zattr s' m k = zattr s m k.
Proof. intros H. unfold zattr. now rewrite H. Qed.

(* UpdateTrackIDs, pointwise *)
Lemma upd_track_effect st start newT newL b st1 :
  cfg_ok st -> W_dict st -> W_forest st -> do_upd_track st start newT newL = Ok b st1 ->
  exists oldT vis, is_node st start /\ trk st start = Some oldT /\
    b = BUpdTrack start oldT newT (zattr st start KLin) newL /\
    bfs (S (length (nodes (g st)))) st [start] = Some vis /\
    bfs (S (length (nodes (g st1)))) st1 [start] = Some vis /\
    NoDup vis /\ In start (pref st oldT vis) /\
    (forall m, In m vis -> EditWalk.reach st start m) /\
    node_ids st1 = node_ids st /\ succs (g st1) = succs (g st) /\ seg st1 = seg st /\ ft st1 = ft st /\
    (forall m k, k <> KTrack -> k <> KLin -> attr st1 m k = attr st m k) /\
    (forall m, attr st1 m KTrack = if memz m (pref st oldT vis) then Some (VZ newT) else attr st m KTrack) /\
    (forall m, attr st1 m KLin = match newL with
                                 | Some l => if memz m vis then Some (VZ l) else attr st m KLin
                                 | None => attr st m KLin end).
Proof.
  intros Cfg WD WF H.
  destruct (do_upd_track_char _ _ _ _ _ _ Cfg H) as (oldT & s1 & tn & ln & Hs & Ht & Hb & Hw & C1 & _).
  destruct (walk_char _ _ _ _ _ _ _ _ WD WF Hs Ht Hw) as (vis & Eb & Hnd & Hsv & Hreach & Hvn & A & Etn & Hsp & F & KT & KL).
  pose proof C1 as (Cg & Cs & Cf).
  assert (Ea : forall m k, attr st1 m k = attr s1 m k) by (intros m k; apply (core_attr _ _ C1)).
  exists oldT, vis. split; [exact Hs|]. split; [exact Ht|]. split; [exact Hb|]. split; [exact Eb|]. split.
  { assert (El : length (nodes (g st1)) = length (nodes (g st))).
    { rewrite Cg. pose proof (au_ids _ _ A) as Ei. unfold node_ids, keys in Ei. apply (f_equal (@length Z)) in Ei. now rewrite !map_length in Ei. }
    rewrite El, <- Eb. apply bfs_ext. intros u. rewrite (core_successors _ _ C1). now apply attr_upd_successors. }
  split; [exact Hnd|]. split; [exact Hsp|]. split; [exact Hreach|].
  split; [unfold node_ids; rewrite Cg; apply (au_ids _ _ A)|]. split; [rewrite Cg; apply (au_succs _ _ A)|].
  split; [rewrite Cs; apply (au_seg _ _ A)|]. split; [rewrite Cf; apply (au_ft _ _ A)|].
  split; [intros m k H1 H2; rewrite Ea; now apply F|]. split; [intros m; rewrite Ea; apply KT|intros m; rewrite Ea; apply KL].
Qed.

Theorem upd_track_inverse st start newT newL b st1 :
  cfg_ok st -> W_dict st -> W_forest st -> lin_down st start -> upd_track_pre st start newT ->
  do_upd_track st start newT newL = Ok b st1 ->
  exists b' st2, inv_basic st1 b = Ok b' st2 /\ pw_eq st st2.
Proof.
  intros Cfg WD WF Hlin Hpre H.
  destruct (upd_track_effect _ _ _ _ _ _ Cfg WD WF H) as (oldT & vis & Hs & Ht & -> & Eb & Eb1 & Hnd & Hsp & Hreach & Ei & Es & Esg & Ef & F & KT & KL).
  pose proof (upd_track_W_dict _ _ _ _ _ _ Cfg WD H) as WD1.
  assert (WF1 : W_forest st1).
  { apply (EditWalk.same_struct_W_forest st st1); [|exact WF].
    pose proof (EditWalk.do_upd_track_struct st start newT newL _ eq_refl) as S. now rewrite H in S. }
  assert (Cfg1 : cfg_ok st1) by (unfold cfg_ok; now rewrite Ef).
  assert (Hs1 : is_node st1 start) by (unfold is_node; now rewrite Ei).
  destruct (wd_lin st WD start Hs) as [o Eo]. rewrite (zattr_VZ st start KLin o Eo). cbn [inv_basic].
  destruct (EditWalk.do_upd_track_ok st1 start oldT (Some o) WD1 WF1 Hs1) as (b' & st2 & H2).
  exists b', st2. split; [exact H2|].
  destruct (upd_track_effect _ _ _ _ _ _ Cfg1 WD1 WF1 H2) as (oldT1 & vis1 & _ & Ht1 & _ & Eb' & _ & _ & _ & _ & Ei2 & Es2 & Esg2 & Ef2 & F2 & KT2 & KL2).
  rewrite Eb1 in Eb'. injection Eb' as <-.
  assert (EoldT1 : oldT1 = newT).
  { unfold trk in Ht1. apply zattr_inv in Ht1. rewrite KT in Ht1. apply memz_In in Hsp. rewrite Hsp in Ht1. congruence. }
  subst oldT1.
  assert (Htrk1 : forall m, trk st1 m = if memz m (pref st oldT vis) then Some newT else trk st m).
  { intros m. unfold trk, zattr. rewrite KT. destruct (memz m (pref st oldT vis)); reflexivity. }
  destruct (pref_relabel st st1 oldT newT vis Hnd (fun m _ => Htrk1 m)) as [EP _].
  { intros x Hx. exact (Hpre vis oldT x Eb Ht Hx). }
  rewrite EP in KT2.
  unfold pw_eq. split; [congruence|]. split; [congruence|]. split; [|split; congruence].
  intros m k. destruct (Z.eq_dec k KTrack) as [->|Hk1]; [|destruct (Z.eq_dec k KLin) as [->|Hk2]].
  - rewrite KT2, KT. destruct (memz m (pref st oldT vis)) eqn:Em; [|reflexivity].
    apply memz_In in Em. apply pref_trk in Em. symmetry. now apply zattr_inv.
  - rewrite KL2. destruct (memz m vis) eqn:Em.
    + apply memz_In in Em. symmetry. apply zattr_inv. change (lin st m = Some o). rewrite (Hlin m (Hreach m Em)). now apply zattr_VZ.
    + rewrite KL. destruct newL; [now rewrite Em|reflexivity].
  - rewrite F2, F by assumption. reflexivity.
Qed.

Theorem C01_upd_track_law st start newT newL b st1 :
  cfg_ok st -> W_dict st -> W_forest st -> lin_down st start -> upd_track_pre st start newT ->
  do_upd_track st start newT newL = Ok b st1 -> inverts st st1 b.
Proof.
  intros Cfg WD WF Hlin Hpre H.
  destruct (upd_track_inverse _ _ _ _ _ _ Cfg WD WF Hlin Hpre H) as (b' & st2 & H2 & P2).
  exists b', st2. split; [exact H2|]. split; [apply obs_eq_sym, pw_eq_obs, P2|].
  destruct (upd_track_effect _ _ _ _ _ _ Cfg WD WF H) as (oldT & vis & Hs & Ht & -> & Eb & Eb1 & Hnd & Hsp & Hreach & Ei & Es & Esg & Ef & F & KT & KL).
  pose proof (upd_track_W_dict _ _ _ _ _ _ Cfg WD H) as WD1.
  pose proof (EditWalk.do_upd_track_struct st start newT newL _ eq_refl) as SS. rewrite H in SS. cbn [rstate] in SS.
  assert (WF1 : W_forest st1) by (now apply (EditWalk.same_struct_W_forest st st1)).
  assert (Cfg1 : cfg_ok st1) by (unfold cfg_ok; now rewrite Ef).
  assert (Hs1 : is_node st1 start) by (unfold is_node; now rewrite Ei).
  destruct (wd_lin st WD start Hs) as [o Eo]. rewrite (zattr_VZ st start KLin o Eo) in H2. cbn [inv_basic] in H2.
  assert (Htrk1 : forall m, trk st1 m = if memz m (pref st oldT vis) then Some newT else trk st m).
  { intros m. unfold trk, zattr. rewrite KT. destruct (memz m (pref st oldT vis)); reflexivity. }
  destruct (pref_relabel st st1 oldT newT vis Hnd (fun m _ => Htrk1 m)) as [EP ES].
  { intros x Hx. exact (Hpre vis oldT x Eb Ht Hx). }
  assert (Hlin1 : lin_down st1 start).
  { assert (Cta : trk_act (ft st) = true) by apply Cfg. assert (Cla : lin_act (ft st) = true) by apply Cfg.
    pose proof (EditLin.do_upd_track_lin st start newT newL _ st1 WD Cta Cla Hs H) as L.
    intros m Hm. apply (EditWalk.reach_same_struct st st1 start m SS) in Hm. destruct newL as [l|].
    - destruct L as [L1 _]. rewrite (L1 m Hm). symmetry. apply L1. apply Relation_Operators.rt_refl.
    - rewrite !L. now apply Hlin. }
  assert (Hpre1 : upd_track_pre st1 start oldT).
  { intros vis' oldT' x Eb' Ht' Hx. rewrite Eb1 in Eb'. injection Eb' as <-.
    assert (oldT' = newT).
    { rewrite Htrk1 in Ht'. apply memz_In in Hsp. rewrite Hsp in Ht'. congruence. }
    subst oldT'. rewrite ES in Hx. destruct (stop_spec _ _ _ _ Hx) as (_ & Hnp & Hne).
    rewrite Htrk1. apply memz_false in Hnp. now rewrite Hnp. }
  destruct (upd_track_inverse _ _ _ _ _ _ Cfg1 WD1 WF1 Hlin1 Hpre1 H2) as (b'' & st3 & H3 & P3).
  exists b'', st3. split; [exact H3|]. apply obs_eq_sym, pw_eq_obs, P3.
Qed.

(* the documented precondition implies the exact one *)
Lemma upd_track_pre_doc st start newT :
  (forall oldT m, trk st start = Some oldT -> EditWalk.reach st start m -> trk st m = Some newT -> newT = oldT) ->
  W_dict st -> W_forest st -> upd_track_pre st start newT.
Proof.
  intros Hdoc WD WF vis oldT x Eb Ht Hx Hn.
  destruct (bfs_forest st WD (wf_in st WF) (wf_time st WF) (S (length (nodes (g st)))) [start] vis
      ltac:(constructor; [intros []|constructor]) ltac:(intros a b' [<-|[]] [<-|[]] _; reflexivity) Eb) as [_ Hreach].
  destruct (stop_spec _ _ _ _ Hx) as (Hin & _ & Hne).
  destruct (Hreach x Hin) as (c & [<-|[]] & R). apply reach_conv in R.
  rewrite (Hdoc oldT x Ht R Hn) in Hn. contradiction.
Qed.

(* ================================================================== *)
(* 9. groups: the composition principle                                  *)
(* ================================================================== *)
(* ActionGroup.inverse as a top-level function *)
Fixpoint inv_list (l : list action) (st : state) : res (list action) :=
  match l with
  | [] => Ok [] st
  | a :: r => do accr, s <- inv_list r st; do a', s2 <- inv_action s a; Ok (accr ++ [a']) s2
  end.
Lemma inv_action_group l st : inv_action st (AGroup l) = do l', s <- inv_list l st; Ok (AGroup l') s.
Proof.
  cbn [inv_action]. f_equal.
Qed.
Lemma inv_action_basic b st : inv_action st (ABasic b) = do b', s <- inv_basic st b; Ok (ABasic b') s.
Proof. reflexivity. Qed.

(* the inverse of the whole list is the inverses of its members, last member first *)
Lemma inv_list_app l1 l2 st : inv_list (l1 ++ l2) st =
  do r2, s <- inv_list l2 st; do r1, s' <- inv_list l1 s; Ok (r2 ++ r1) s'.
Proof.
  revert st. induction l1 as [|a r IH]; intros st; cbn [app inv_list].
  - destruct (inv_list l2 st) as [r2 s|e s]; cbn [bind]; [now rewrite app_nil_r|reflexivity].
  - rewrite IH. destruct (inv_list l2 st) as [r2 s|e s]; cbn [bind]; [|reflexivity].
    destruct (inv_list r s) as [r1 s'|e s']; cbn [bind]; [|reflexivity].
    destruct (inv_action s' a) as [a' s2|e s2]; cbn [bind]; [|reflexivity]. now rewrite app_assoc.
Qed.

Section Compose.
(* [I] : whatever invariant the states in which inverses get applied are known to satisfy *)
Variable I : state -> Prop.

(* "a is a recorded transition from x to y that can be undone / redone n times in a row, from any
   state that satisfies I and looks like the state the (un)doing starts from" *)
Fixpoint ConsN (n : nat) (a : action) (x y : state) : Prop :=
  match n with
  | O => True
  | S k => forall s, I s -> obs_eq s y ->
           exists b s', inv_action s a = Ok b s' /\ I s' /\ obs_eq s' x /\ ConsN k b y x
  end.
Definition Consistent (a : action) (x y : state) : Prop := forall n, ConsN n a x y.

Lemma ConsN_eqv : forall n a x x' y y', obs_eq x x' -> obs_eq y y' -> ConsN n a x y -> ConsN n a x' y'.
Proof.
  induction n as [|k IH]; intros a x x' y y' Hx Hy H; [exact Logic.I|]. cbn [ConsN] in *.
  intros s Hs Hsy. destruct (H s Hs) as (b & s' & E & Hs' & Hsx & Hc).
  - eapply obs_eq_trans; [exact Hsy|now apply obs_eq_sym].
  - exists b, s'. split; [exact E|]. split; [exact Hs'|]. split; [eapply obs_eq_trans; eauto|]. now apply (IH b y y' x x').
Qed.

(* a chain of recorded transitions x = s0 -a1-> s1 ... -ak-> sk ~ y *)
Inductive Chain (P : action -> state -> state -> Prop) : list action -> state -> state -> Prop :=
  | ch_nil x y : obs_eq x y -> Chain P [] x y
  | ch_cons a l x m y : P a x m -> Chain P l m y -> Chain P (a :: l) x y.

Lemma Chain_mono (P Q : action -> state -> state -> Prop) : (forall a x y, P a x y -> Q a x y) ->
  forall l x y, Chain P l x y -> Chain Q l x y.
Proof. intros H l x y C. induction C; [now constructor|econstructor; eauto]. Qed.

Lemma Chain_snoc n l a x m y : Chain (ConsN n) l x m -> ConsN n a m y -> Chain (ConsN n) (l ++ [a]) x y.
Proof.
  intros C. revert a y. induction C as [x m Hxm|a0 l x m0 m H0 C IH]; intros a y Ha; cbn [app].
  - apply ch_cons with (m := y); [|constructor; apply obs_eq_refl].
    apply (ConsN_eqv n a m x y y); [now apply obs_eq_sym|apply obs_eq_refl|exact Ha].
  - apply ch_cons with (m := m0); [exact H0|]. now apply IH.
Qed.

Lemma inv_list_chain k : forall l x y, Chain (ConsN (S k)) l x y -> forall s, I s -> obs_eq s y ->
  exists l' s', inv_list l s = Ok l' s' /\ I s' /\ obs_eq s' x /\ Chain (ConsN k) l' y x.
Proof.
  intros l x y C. induction C as [x y Hxy|a l x m y Ha C IH]; intros s Hs Hsy; cbn [inv_list].
  - exists [], s. split; [reflexivity|]. split; [exact Hs|]. split; [|constructor; now apply obs_eq_sym].
    eapply obs_eq_trans; [exact Hsy|now apply obs_eq_sym].
  - destruct (IH s Hs Hsy) as (accr & s1 & E1 & Hs1 & Hs1m & C1). rewrite E1. cbn [bind].
    cbn [ConsN] in Ha. destruct (Ha s1 Hs1 Hs1m) as (a' & s2 & E2 & Hs2 & Hs2x & Ca'). rewrite E2. cbn [bind].
    exists (accr ++ [a']), s2. split; [reflexivity|]. split; [exact Hs2|]. split; [exact Hs2x|]. now apply Chain_snoc with (m := m).
Qed.

(* C01 for groups: a chain of invertible members is an invertible group *)
Theorem group_ConsN : forall n l x y, Chain (ConsN n) l x y -> ConsN n (AGroup l) x y.
Proof.
  induction n as [|k IH]; intros l x y C; [exact Logic.I|]. cbn [ConsN]. intros s Hs Hsy.
  destruct (inv_list_chain k l x y C s Hs Hsy) as (l' & s' & E & Hs' & Hs'x & C').
  exists (AGroup l'), s'. rewrite inv_action_group, E. cbn [bind]. split; [reflexivity|]. split; [exact Hs'|]. split; [exact Hs'x|].
  now apply IH.
Qed.

Theorem group_Consistent l x y : Chain Consistent l x y -> Consistent (AGroup l) x y.
Proof. intros C n. apply group_ConsN. revert C. apply Chain_mono. intros a u v H. apply H. Qed.

(* the shape Props/C02.v's timeline theorem is parametric in *)
Definition inv_tot (s : state) (a : action) : state * action :=
  match inv_action s a with Ok b s' => (s', b) | Err _ s' => (s', a) end.
Definition eqvI (s s' : state) : Prop := obs_eq s s' /\ (I s <-> I s').
Definition TrI (a : action) (x y : state) : Prop := I x /\ I y /\ Consistent a x y.

Lemma eqvI_refl s : eqvI s s.
Proof. split; [apply obs_eq_refl|tauto]. Qed.
Lemma eqvI_trans a b c : eqvI a b -> eqvI b c -> eqvI a c.
Proof. intros [A1 A2] [B1 B2]. split; [eapply obs_eq_trans; eauto|tauto]. Qed.

Theorem TrI_inv a x y s : TrI a x y -> eqvI s y -> eqvI (fst (inv_tot s a)) x /\ TrI (snd (inv_tot s a)) y x.
Proof.
  intros (Ix & Iy & C) [Hsy Hi]. assert (Is : I s) by tauto.
  destruct (C 1%nat s Is Hsy) as (b & s' & E & Is' & Hs'x & _). unfold inv_tot. rewrite E. cbn [fst snd].
  split; [split; [exact Hs'x|tauto]|]. split; [exact Iy|]. split; [exact Ix|].
  intros n. destruct (C (S n) s Is Hsy) as (b2 & s2 & E2 & _ & _ & Cn). rewrite E in E2. injection E2 as <- <-. exact Cn.
Qed.
Theorem TrI_src a x x' y : TrI a x y -> eqvI x x' -> TrI a x' y.
Proof.
  intros (Ix & Iy & C) [Hxx Hi]. split; [tauto|]. split; [exact Iy|]. intros n.
  apply (ConsN_eqv n a x x' y y Hxx (obs_eq_refl y)). apply C.
Qed.
End Compose.

(* ================================================================== *)
(* 10. the basic laws under the global invariants of Proofs/EditInv.v    *)
(* ================================================================== *)
Lemma del_edge_ok_edge st u v b st1 : do_del_edge st u v = Ok b st1 -> edge st u v.
Proof. intros H. now destruct (del_edge_char _ _ _ _ _ H) as (_ & He & _). Qed.

Theorem C01_basic_del_edge st u v b st1 :
  W_dict st -> W_fresh st -> do_del_edge st u v = Ok b st1 -> inverts st st1 b.
Proof.
  intros WD WFr H. apply (C01_del_edge_law st u v b st1 WD); [|exact H].
  apply W_fresh_iou_at; [exact WFr|now apply (del_edge_ok_edge _ _ _ _ _ H)].
Qed.

Theorem C01_basic_upd_seg st n px (added : bool) b st1 :
  W_dict st -> rp_disjoint st -> W_fresh st -> W_seg st -> is_node st n ->
  (forall sg i, seg st = Some sg -> (i < length (frame_of sg (fst px)))%nat -> In (Z.of_nat i) (snd px) ->
     label_at sg (fst px) i = if added then 0 else n) ->
  do_upd_seg st n px added = Ok b st1 -> inverts st st1 b.
Proof.
  intros WD Hrp WFr WS Hn Hpix H. apply (C01_upd_seg_law st n px added b st1 WD Hrp Hn); [|exact Hpix|exact H].
  now apply W_fresh_seg_fresh_at.
Qed.

Theorem C01_basic_del_node st n pxo b st1 :
  W_dict st -> cfg_ok st -> rp_disjoint st -> W_fresh st -> W_seg st ->
  isolated st n -> del_node_px_exact st n pxo -> pos_ok st n ->
  do_del_node st n pxo = Ok b st1 -> inverts st st1 b.
Proof.
  intros WD Cfg Hrp WFr WS Hiso Hex Hpos H.
  assert (Hn : is_node st n).
  { rewrite do_del_node_eq in H. destruct (lookup n (nodes (g st))) as [d|] eqn:Ed; [|discriminate]. apply is_node_lookup. now exists d. }
  apply (C01_del_node_law st n pxo b st1 WD Cfg Hrp Hiso); [now apply W_fresh_seg_fresh_at|exact Hex|exact Hpos| |exact H].
  intros Hs. unfold W_seg in WS. destruct (seg st) as [sg|]; [|congruence]. destruct WS as (_ & _ & W3). now apply W3.
Qed.

Lemma lin_down_of_W_lin st start : W_lin st -> lin_down st start.
Proof.
  intros [L1 _] m Hm. induction Hm as [x y Hxy|x|x y z _ IH1 _ IH2]; [symmetry; now apply L1|reflexivity|congruence].
Qed.

Theorem C01_basic_upd_track st start newT newL b st1 :
  cfg_ok st -> W_dict st -> W_forest st -> W_lin st ->
  (forall oldT m, trk st start = Some oldT -> EditWalk.reach st start m -> trk st m = Some newT -> newT = oldT) ->
  do_upd_track st start newT newL = Ok b st1 -> inverts st st1 b.
Proof.
  intros Cfg WD WF WL Hdoc H. apply (C01_upd_track_law st start newT newL b st1 Cfg WD WF); [now apply lin_down_of_W_lin| |exact H].
  now apply upd_track_pre_doc.
Qed.

(* ================================================================== *)
(* 11. the edge and relabelling actions only depend on the graph pointwise *)
(* ================================================================== *)
Definition res_pw {A} (r r' : res A) : Prop :=
  match r, r' with
  | Ok a s, Ok a' s' => a = a' /\ pw_eq s s'
  | Err e s, Err e' s' => e = e' /\ pw_eq s s'
  | _, _ => False
  end.
Lemma res_pw_ok {A} (r r' : res A) a s : res_pw r r' -> r = Ok a s -> exists s', r' = Ok a s' /\ pw_eq s s'.
Proof. intros H ->. destruct r' as [a' s'|e' s']; cbn in H; [|contradiction]. destruct H as [<- H]. now exists s'. Qed.

Section PwReaders.
  Variables s s' : state.
  Hypothesis H : pw_eq s s'.
  Let Ei : node_ids s' = node_ids s. Proof. apply H. Qed.
  Let Es : succs (g s') = succs (g s). Proof. apply H. Qed.
  Let Ea : forall m k, attr s' m k = attr s m k. Proof. apply H. Qed.
  Let Eg : seg s' = seg s. Proof. apply H. Qed.
  Let Ef : ft s' = ft s. Proof. apply H. Qed.

  Lemma pw_is_node n : is_node s' n <-> is_node s n.
  Proof. unfold is_node. now rewrite Ei. Qed.
  Lemma pw_has_node n : has_node s' n = has_node s n.
  Proof.
    destruct (has_node s n) eqn:E.
    - apply has_node_is_node. apply pw_is_node. now apply has_node_is_node.
    - apply has_node_false. rewrite pw_is_node. now apply has_node_false.
  Qed.
  Lemma pw_zattr n k : zattr s' n k = zattr s n k.
  Proof. unfold zattr. now rewrite Ea. Qed.
  Lemma pw_time_of n : time_of s' n = time_of s n.
  Proof. unfold time_of. now rewrite pw_zattr. Qed.
  Lemma pw_adj u : adj s' u = adj s u.
  Proof. unfold adj. now rewrite Es. Qed.
  Lemma pw_successors u : successors s' u = successors s u.
  Proof. unfold successors. now rewrite pw_adj. Qed.
  Lemma pw_has_edge u v : has_edge s' u v = has_edge s u v.
  Proof. unfold has_edge. now rewrite pw_adj. Qed.
  Lemma pw_edge_attrs u v : edge_attrs s' u v = edge_attrs s u v.
  Proof. unfold edge_attrs. now rewrite pw_adj. Qed.
  Lemma pw_iou_of sg u v : iou_of s' sg u v = iou_of s sg u v.
  Proof. unfold iou_of. now rewrite !pw_time_of. Qed.
  Lemma pw_nodes_len : length (nodes (g s')) = length (nodes (g s)).
  Proof. pose proof Ei as E. unfold node_ids, keys in E. apply (f_equal (@length Z)) in E. now rewrite !map_length in E. Qed.

  Lemma sna_pw n k v : pw_eq (set_node_attr s n k v) (set_node_attr s' n k v).
  Proof.
    destruct (in_dec Z.eq_dec n (node_ids s)) as [Hn|Hn].
    - assert (Hn' : is_node s' n) by (now apply pw_is_node).
      unfold pw_eq. rewrite !sna_node_ids, !sna_succs, !sna_seg, !sna_ft. repeat split; auto.
      intros m j. destruct (Z.eq_dec m n) as [->|Hm]; [destruct (Z.eq_dec j k) as [->|Hj]|].
      + now rewrite !sna_attr_same.
      + rewrite !sna_attr_other by (now right). apply Ea.
      + rewrite !sna_attr_other by (now left). apply Ea.
    - rewrite (sna_notnode s n k v Hn). rewrite (sna_notnode s' n k v); [exact H|]. now rewrite pw_is_node.
  Qed.

  Lemma sea_pw u v k x : pw_eq (set_edge_attr s u v k x) (set_edge_attr s' u v k x).
  Proof.
    unfold set_edge_attr. rewrite pw_has_edge. destruct (has_edge s u v); [|exact H].
    unfold pw_eq, node_ids, attr, node_attrs. cbn [g nodes succs seg ft upd_g]. rewrite pw_edge_attrs, pw_adj, Es.
    repeat split; auto. all: intros m j; apply Ea.
  Qed.
End PwReaders.

Lemma pw_eq_upd_bk s b : pw_eq s (upd_bk s b).
Proof. unfold pw_eq. auto. Qed.

Lemma iou_update_edges_pw s s' es : pw_eq s s' -> pw_eq (iou_update_edges s es) (iou_update_edges s' es).
Proof.
  intros H. unfold iou_update_edges. pose proof H as (_ & _ & _ & Eg & Ef). rewrite Eg, Ef.
  destruct (seg s) as [sg|]; [|exact H]. destruct (iou_act (ft s)); [|exact H].
  apply fold_rel; [|exact H]. intros x x' e Hx. rewrite (pw_iou_of _ _ Hx). now apply sea_pw.
Qed.

Lemma do_add_edge_pw s s' u v a : pw_eq s s' -> res_pw (do_add_edge s u v a) (do_add_edge s' u v a).
Proof.
  intros H. unfold do_add_edge. rewrite !(pw_has_node _ _ H).
  destruct (negb (has_node s u)); [cbn; auto|]. destruct (negb (has_node s v)); [cbn; auto|].
  cbn. split; [reflexivity|]. apply iou_update_edges_pw. pose proof H as (Ei & Es & Ea & Eg & Ef).
  unfold pw_eq, node_ids, attr, node_attrs. cbn [g nodes succs seg ft upd_g]. rewrite (pw_edge_attrs _ _ H), (pw_adj _ _ H), Es.
  repeat split; auto. all: intros m k; apply Ea.
Qed.

Lemma do_del_edge_pw s s' u v : pw_eq s s' -> res_pw (do_del_edge s u v) (do_del_edge s' u v).
Proof.
  intros H. unfold do_del_edge. rewrite (pw_has_edge _ _ H).
  destruct (negb (has_edge s u v)); [cbn; auto|]. pose proof H as (Ei & Es & Ea & Eg & Ef).
  cbn. rewrite Ef, (pw_edge_attrs _ _ H). split; [reflexivity|].
  unfold pw_eq, node_ids, attr, node_attrs. cbn [g nodes succs seg ft upd_g]. rewrite (pw_adj _ _ H), Es.
  repeat split; auto. all: intros m k; apply Ea.
Qed.

Definition acc_pw (a a' : state * bool * list Z * list Z * list Z) : Prop :=
  let '(s, f, tn, ln, nx) := a in let '(s', f', tn', ln', nx') := a' in
  pw_eq s s' /\ f = f' /\ tn = tn' /\ ln = ln' /\ nx = nx'.

Lemma visit_pw oldT newT newL a a' n : acc_pw a a' -> acc_pw (visit oldT newT newL a n) (visit oldT newT newL a' n).
Proof.
  destruct a as [[[[s f] tn] ln] nx], a' as [[[[s' f'] tn'] ln'] nx']. intros (H & <- & <- & <- & <-).
  unfold visit. destruct newL as [l|].
  - pose proof (sna_pw _ _ H n KLin (VZ l)) as H1. destruct f.
    + rewrite (pw_zattr _ _ H1). destruct (match zattr _ n KTrack with Some t => t =? oldT | None => false end).
      * pose proof (sna_pw _ _ H1 n KTrack (VZ newT)) as H2. cbn. rewrite (pw_successors _ _ H2). auto.
      * cbn. rewrite (pw_successors _ _ H1). auto.
    + cbn. rewrite (pw_successors _ _ H1). auto.
  - destruct f.
    + rewrite (pw_zattr _ _ H). destruct (match zattr _ n KTrack with Some t => t =? oldT | None => false end).
      * pose proof (sna_pw _ _ H n KTrack (VZ newT)) as H2. cbn. rewrite (pw_successors _ _ H2). auto.
      * cbn. rewrite (pw_successors _ _ H). auto.
    + cbn. rewrite (pw_successors _ _ H). auto.
Qed.

Lemma walk_pw oldT newT newL : forall fuel s s' curr flag tn ln, pw_eq s s' ->
  match walk fuel oldT newT newL s curr flag tn ln, walk fuel oldT newT newL s' curr flag tn ln with
  | Some (s1, tn1, ln1), Some (s1', tn1', ln1') => pw_eq s1 s1' /\ tn1 = tn1' /\ ln1 = ln1'
  | None, None => True
  | _, _ => False
  end.
Proof.
  induction fuel as [|f IH]; intros s s' curr flag tn ln H.
  - destruct curr; cbn; auto.
  - destruct curr as [|c cs]; [cbn; auto|]. cbn [walk].
    pose proof (fold_rel acc_pw (visit oldT newT newL) (visit_pw oldT newT newL) (c :: cs) (s, flag, tn, ln, []) (s', flag, tn, ln, [])) as Hf.
    destruct (fold_left (visit oldT newT newL) (c :: cs) (s, flag, tn, ln, [])) as [[[[s1 f1] tn1] ln1] nx1].
    destruct (fold_left (visit oldT newT newL) (c :: cs) (s', flag, tn, ln, [])) as [[[[s1' f1'] tn1'] ln1'] nx1'].
    destruct Hf as (H1 & <- & <- & <- & <-); [cbn; auto|]. apply IH. exact H1.
Qed.

Lemma do_upd_track_pw s s' start newT newL : pw_eq s s' ->
  res_pw (do_upd_track s start newT newL) (do_upd_track s' start newT newL).
Proof.
  intros H. unfold do_upd_track. pose proof H as (Ei & Es & Ea & Eg & Ef).
  rewrite (pw_has_node _ _ H), !(pw_zattr _ _ H), Ef, (pw_nodes_len _ _ H).
  destruct (negb (has_node s start)); [cbn; auto|]. destruct (zattr s start KTrack) as [oldT|]; [|cbn; auto].
  destruct (negb (trk_act (ft s))); [cbn; auto|].
  pose proof (walk_pw oldT newT (if lin_act (ft s) then newL else None) (S (length (nodes (g s)))) s s' [start] true [] [] H) as W.
  destruct (walk _ oldT newT _ s [start] true [] []) as [[[s1 tn1] ln1]|], (walk _ oldT newT _ s' [start] true [] []) as [[[s1' tn1'] ln1']|];
    try contradiction; [|cbn; auto].
  destruct W as (A & <- & <-).
  destruct (if lin_act (ft s) then newL else None); cbn; (split; [reflexivity|]);
    (eapply pw_eq_trans; [apply pw_eq_sym, pw_eq_upd_bk|]; eapply pw_eq_trans; [exact A|apply pw_eq_upd_bk]).
Qed.

(* ================================================================== *)
(* 12. track ids below a division                                        *)
(* ================================================================== *)
From FT Require Proofs.EditGlobal Proofs.EditBasic.
From Coq Require Import Relations.

(* every node has a tracklet head above it that carries its track id *)
Lemma head_above st n : W_dict st -> W_forest st -> W_trk st -> is_node st n ->
  exists h, head st h /\ EditWalk.reach st h n /\ trk st h = trk st n.
Proof.
  intros WD WF WT Hn.
  destruct (EditGlobal.eroot_exists st WD WF (EditGlobal.nd_edge st) (fun u v H => proj1 H)
              (fun v => EditGlobal.nd_parent_dec st v WD WF) n Hn) as (r & [Nr Hr] & Ha).
  exists r. split; [|split].
  - split; [exact Nr|]. intros p Hp. destruct (le_lt_dec 2 (length (successors st p))) as [Hdiv|Hnd]; [exact Hdiv|].
    exfalso. apply (Hr p). split; [exact Hp|unfold divides; lia].
  - clear Hr Nr Hn. induction Ha as [x y Hxy|x|x y z _ IH1 _ IH2]; [apply rt_step; apply Hxy|apply rt_refl|eapply rt_trans; eauto].
  - apply (EditGlobal.eanc_id (EditGlobal.nd_edge st) (trk st)); [|exact Ha]. intros a b [Hab Hnd]. now apply (wt1 st WT).
Qed.

Lemma head_below st c x : W_dict st -> W_forest st -> W_trk st -> head st c -> EditWalk.reach st c x ->
  exists h, head st h /\ EditWalk.reach st c h /\ trk st h = trk st x.
Proof.
  intros WD WF WT Hc R. apply clos_rt_rtn1 in R. induction R as [|p y Hpy R IH].
  - exists c. split; [exact Hc|]. split; [apply rt_refl|reflexivity].
  - destruct IH as (hp & Hh & Rh & Et). apply clos_rtn1_rt in R.
    destruct (le_lt_dec 2 (length (successors st p))) as [Hdiv|Hnd].
    + exists y. split; [|split; [eapply rt_trans; [exact R|now apply rt_step]|reflexivity]].
      split; [apply (wd_edge_nodes st WD p y Hpy)|]. intros q Hq. now rewrite (wf_in st WF q p y Hq Hpy).
    + exists hp. split; [exact Hh|]. split; [exact Rh|]. rewrite Et. apply (wt1 st WT p y Hpy). unfold divides. lia.
Qed.

(* the track id of a dividing node does not occur below it *)
Lemma trk_below_division st u c x : W_dict st -> W_forest st -> W_trk st ->
  edge st u c -> divides st u -> EditWalk.reach st c x -> trk st x <> trk st u.
Proof.
  intros WD WF WT Huc Hdiv R Eq.
  destruct (wd_edge_nodes st WD u c Huc) as [Nu Nc].
  assert (Hc : head st c) by (split; [exact Nc|intros q Hq; now rewrite (wf_in st WF q u c Hq Huc)]).
  destruct (head_below st c x WD WF WT Hc R) as (hx & Hhx & Rx & Ex).
  destruct (head_above st u WD WF WT Nu) as (hu & Hhu & Ru & Eu).
  assert (hx = hu) by (apply (wt2 st WT); [exact Hhx|exact Hhu|congruence]). subst hx.
  pose proof (wf_time st WF u c Huc) as T1.
  destruct (EditLin.reach_time st WF hu u Ru) as [E1|T2]; destruct (EditLin.reach_time st WF c hu Rx) as [E2|T3]; subst; lia.
Qed.

(* ================================================================== *)
(* 13. UserDeleteEdge / UserAddEdge                                       *)
(* ================================================================== *)
Lemma inv_list_2 b1 b2 s : inv_list [ABasic b1; ABasic b2] s =
  match inv_basic s b2 with
  | Ok b2' sa => match inv_basic sa b1 with Ok b1' sb => Ok [ABasic b2'; ABasic b1'] sb | Err e sb => Err e sb end
  | Err e sa => Err e sa
  end.
Proof. cbn. destruct (inv_basic s b2) as [b2' sa|e sa]; cbn; [|reflexivity]. destruct (inv_basic sa b1); reflexivity. Qed.
Lemma inv_list_3 b1 b2 b3 s : inv_list [ABasic b1; ABasic b2; ABasic b3] s =
  match inv_basic s b3 with
  | Ok b3' sa => match inv_basic sa b2 with
                 | Ok b2' sb => match inv_basic sb b1 with Ok b1' sc => Ok [ABasic b3'; ABasic b2'; ABasic b1'] sc | Err e sc => Err e sc end
                 | Err e sb => Err e sb end
  | Err e sa => Err e sa
  end.
Proof.
  cbn. destruct (inv_basic s b3) as [b3' sa|e sa]; cbn; [|reflexivity]. destruct (inv_basic sa b2) as [b2' sb|e sb]; cbn; [|reflexivity].
  destruct (inv_basic sb b1); reflexivity.
Qed.

(* undoing a recorded UpdateTrackIDs / DeleteEdge / AddEdge from a state that is pointwise equal to the recorded post-state *)
Lemma upd_track_undo_at st start newT newL b st1 s :
  cfg_ok st -> W_dict st -> W_forest st -> lin_down st start -> upd_track_pre st start newT ->
  do_upd_track st start newT newL = Ok b st1 -> pw_eq st1 s ->
  exists b' s', inv_basic s b = Ok b' s' /\ pw_eq st s'.
Proof.
  intros Cfg WD WF Hlin Hpre H P. destruct (upd_track_inverse _ _ _ _ _ _ Cfg WD WF Hlin Hpre H) as (b' & st2 & H2 & P2).
  destruct (do_upd_track_char _ _ _ _ _ _ Cfg H) as (oldT & _ & _ & _ & _ & _ & -> & _). cbn [inv_basic] in *.
  destruct (res_pw_ok _ _ _ _ (do_upd_track_pw _ _ start oldT (zattr st start KLin) P) H2) as (s' & E & P').
  exists b', s'. split; [exact E|]. eapply pw_eq_trans; eauto.
Qed.

Lemma del_edge_undo_at st u v b st1 s :
  W_dict st -> iou_fresh_at st u v -> do_del_edge st u v = Ok b st1 -> pw_eq st1 s ->
  exists b' s', inv_basic s b = Ok b' s' /\ obs_eq st s'.
Proof.
  intros WD Hio H P. destruct (del_edge_inverse _ _ _ _ _ WD Hio H) as (b' & st2 & H2 & O2 & _).
  destruct (del_edge_char _ _ _ _ _ H) as (-> & _). cbn [inv_basic] in *.
  destruct (res_pw_ok _ _ _ _ (do_add_edge_pw _ _ u v _ P) H2) as (s' & E & P').
  exists b', s'. split; [exact E|]. eapply obs_eq_trans; [exact O2|now apply pw_eq_obs].
Qed.

Lemma add_edge_undo_at st u v a b st1 s :
  W_dict st -> has_edge st u v = false -> do_add_edge st u v a = Ok b st1 -> pw_eq st1 s ->
  exists b' s', inv_basic s b = Ok b' s' /\ pw_eq st s'.
Proof.
  intros WD Hne H P. destruct (add_edge_inverse _ _ _ _ _ _ WD Hne H) as (b' & st2 & H2 & C2 & _).
  destruct (add_edge_char _ _ _ _ _ _ H) as (-> & _). cbn [inv_basic] in *.
  destruct (res_pw_ok _ _ _ _ (do_del_edge_pw _ _ u v P) H2) as (s' & E & P').
  exists b', s'. split; [exact E|]. eapply pw_eq_trans; [apply core_eq_pw; exact C2|exact P'].
Qed.

Lemma two_in_length (l : list Z) a b : In a l -> In b l -> a <> b -> (2 <= length l)%nat.
Proof.
  destruct l as [|x [|y r]]; cbn; [tauto| |lia]. intros [<-|[]] [<-|[]] H. congruence.
Qed.

Lemma lin_down_sub st s x : W_lin st -> (forall a c, edge s a c -> edge st a c) -> (forall m, lin s m = lin st m) -> lin_down s x.
Proof.
  intros WL Hsub Hl m R. rewrite !Hl. apply (lin_down_of_W_lin st x WL). now apply (EditLin.reach_sub st s Hsub).
Qed.

Theorem C01_user_delete_edge_at st u v a st' sx :
  WF st -> user_delete_edge_core st u v = Ok a st' -> pw_eq st' sx ->
  exists b st2, inv_action sx a = Ok b st2 /\ obs_eq st2 st.
Proof.
  intros [Cfg WD WFo WT WL WB WS WFr] H Px. unfold user_delete_edge_core in H.
  destruct (has_edge st u v) eqn:He; [|discriminate]. cbn [negb] in H.
  destruct (do_del_edge st u v) as [b1 s1|e1 s1] eqn:H1; [|discriminate]. cbn [bind] in H.
  destruct (EditBasic.do_del_edge_WS st u v b1 s1 WD WFo H1) as (WD1 & WF1 & E1 & N1 & A1 & (_ & Rft & _)).
  assert (Cfg1 : cfg_ok s1) by (unfold cfg_ok; now rewrite Rft).
  pose proof (del_edge_W_book _ _ _ _ _ H1 WB) as WB1.
  assert (Htrk1 : forall m, trk s1 m = trk st m) by (intros m; unfold trk, zattr; now rewrite A1).
  assert (Hlin1 : forall m, lin s1 m = lin st m) by (intros m; unfold lin, zattr; now rewrite A1).
  assert (Hsub1 : forall x y, edge s1 x y -> edge st x y) by (intros x y Hac; now apply E1 in Hac).
  assert (Hld1 : forall x, lin_down s1 x) by (intros x; now apply (lin_down_sub st s1 x WL Hsub1 Hlin1)).
  destruct (wd_edge_nodes st WD u v He) as [Nu Nv].
  assert (Nv1 : is_node s1 v) by (unfold is_node; now rewrite N1).
  pose proof (W_fresh_iou_at st u v WFr He) as Hio.
  destruct (out_degree s1 u =? 0) eqn:Eod.
  - (* plain edge *)
    destruct (do_upd_track s1 v (next_trk s1) (Some (next_lin s1))) as [b2 s2|e2 s2] eqn:H2; [|discriminate].
    cbn [bind] in H. injection H as <- E'; subst st'. rewrite inv_action_group, inv_list_2.
    assert (Hpre : upd_track_pre s1 v (next_trk s1)).
    { apply upd_track_pre_doc; [|exact WD1|exact WF1]. intros oldT m _ R Hm. exfalso.
      apply (next_trk_fresh s1 WB1 m); [|exact Hm]. now apply (EditWalk.reach_is_node s1 v m WD1 Nv1). }
    destruct (upd_track_undo_at s1 v _ _ b2 s2 sx Cfg1 WD1 WF1 (Hld1 v) Hpre H2 Px) as (b2' & s1' & I2 & P2). rewrite I2.
    destruct (del_edge_undo_at st u v b1 s1 s1' WD Hio H1 P2) as (b1' & s0 & I1 & O1). rewrite I1. cbn [bind].
    eexists _, _. split; [reflexivity|now apply obs_eq_sym].
  - (* division edge *)
    destruct (out_degree s1 u =? 1) eqn:Eod1; [|discriminate].
    destruct (successors s1 u) as [|sib rest] eqn:Es; [discriminate|]. destruct (zattr s1 u KTrack) as [t|] eqn:Et; [|discriminate].
    destruct (do_upd_track s1 sib t None) as [b2 s2|e2 s2] eqn:H2; [|discriminate]. cbn [bind] in H.
    destruct (zattr s2 v KTrack) as [tv|] eqn:Etv; [|discriminate].
    destruct (do_upd_track s2 v tv (Some (next_lin s2))) as [b3 s3|e3 s3] eqn:H3; [|discriminate].
    cbn [bind] in H. injection H as <- E'; subst st'. rewrite inv_action_group, inv_list_3.
    (* the sibling *)
    assert (Hsib1 : edge s1 u sib) by (apply edge_successors; rewrite Es; now left).
    assert (Hsib : edge st u sib /\ sib <> v).
    { apply E1 in Hsib1. destruct Hsib1 as [A B]. split; [exact A|]. intros ->. apply B. auto. }
    assert (Hdiv : divides st u).
    { unfold divides. apply (two_in_length (successors st u) v sib); [now apply edge_successors|apply edge_successors; apply Hsib|]. intros E. now apply (proj2 Hsib). }
    assert (Hpre2 : upd_track_pre s1 sib t).
    { apply upd_track_pre_doc; [|exact WD1|exact WF1]. intros oldT m _ R Hm. exfalso.
      apply (trk_below_division st u sib m WD WFo WT (proj1 Hsib) Hdiv); [now apply (EditLin.reach_sub st s1 Hsub1)|].
      rewrite <- !Htrk1. rewrite Hm. symmetry. exact Et. }
    (* the state after relabelling the sibling *)
    destruct (upd_track_effect _ _ _ _ _ _ Cfg1 WD1 WF1 H2) as (oldT2 & vis2 & _ & _ & _ & _ & _ & _ & _ & _ & Ei2 & Es2 & _ & Ef2 & _ & _ & KL2).
    pose proof (upd_track_W_dict _ _ _ _ _ _ Cfg1 WD1 H2) as WD2.
    assert (WF2 : W_forest s2).
    { apply (EditWalk.same_struct_W_forest s1 s2); [|exact WF1].
      pose proof (EditWalk.do_upd_track_struct s1 sib t None _ eq_refl) as S. now rewrite H2 in S. }
    assert (Cfg2 : cfg_ok s2) by (unfold cfg_ok; now rewrite Ef2).
    assert (Hsub2 : forall x y, edge s2 x y -> edge st x y) by (intros x y Hac; apply Hsub1; unfold edge, has_edge, adj in *; now rewrite <- Es2).
    assert (Hlin2 : forall m, lin s2 m = lin st m) by (intros m; rewrite <- Hlin1; unfold lin, zattr; now rewrite KL2).
    assert (Hpre3 : upd_track_pre s2 v tv).
    { apply upd_track_pre_doc; [|exact WD2|exact WF2]. intros oldT m Ht _ _. unfold trk in Ht. congruence. }
    destruct (upd_track_undo_at s2 v _ _ b3 s3 sx Cfg2 WD2 WF2 (lin_down_sub st s2 v WL Hsub2 Hlin2) Hpre3 H3 Px) as (b3' & s2' & I3 & P3). rewrite I3.
    destruct (upd_track_undo_at s1 sib t None b2 s2 s2' Cfg1 WD1 WF1 (Hld1 sib) Hpre2 H2 P3) as (b2' & s1' & I2 & P2). rewrite I2.
    destruct (del_edge_undo_at st u v b1 s1 s1' WD Hio H1 P2) as (b1' & s0 & I1 & O1). rewrite I1. cbn [bind].
    eexists _, _. split; [reflexivity|now apply obs_eq_sym].
Qed.

Theorem C01_user_delete_edge st u v a st' :
  WF st -> user_delete_edge_core st u v = Ok a st' ->
  exists b st2, inv_action st' a = Ok b st2 /\ obs_eq st2 st.
Proof. intros W H. exact (C01_user_delete_edge_at st u v a st' st' W H (pw_eq_refl st')). Qed.

(* ---- UserAddEdge ---- *)
From FT Require Proofs.EditTrk Proofs.EditUserEdge.

(* in a forest the ancestors of a node form a chain *)
Lemma anc_chain st a b m : W_forest st -> EditWalk.reach st a m -> EditWalk.reach st b m ->
  EditWalk.reach st a b \/ EditWalk.reach st b a.
Proof.
  intros WF Ra Rb. apply clos_rt_rtn1 in Rb. induction Rb as [|p y Hpy Rb IH]; [now left|].
  destruct (Z.eq_dec y a) as [->|Hne].
  - right. apply clos_rtn1_rt in Rb. eapply rt_trans; [exact Rb|now apply rt_step].
  - apply IH. now apply (EditLin.reach_parent st a p y WF Hpy Hne).
Qed.

(* joining v (no parent, later than u) under u: the track id of u does not occur below v *)
Lemma trk_join_pre st u v m : W_dict st -> W_forest st -> W_trk st ->
  is_node st u -> is_node st v -> time_of st u < time_of st v -> (forall p, ~ edge st p v) ->
  EditWalk.reach st v m -> trk st m <> trk st u.
Proof.
  intros WD WF WT Nu Nv Ht Hnp R Eq.
  assert (Nm : is_node st m) by (now apply (EditWalk.reach_is_node st v m WD Nv)).
  destruct (head_above st m WD WF WT Nm) as (hm & Hhm & Rm & Em).
  destruct (head_above st u WD WF WT Nu) as (hu & Hhu & Ru & Eu).
  assert (hm = hu) by (apply (wt2 st WT); [exact Hhm|exact Hhu|congruence]). subst hm.
  assert (Rvu : EditWalk.reach st v u).
  { destruct (anc_chain st v hu m WF R Rm) as [Rvh|Rhv].
    - eapply rt_trans; eauto.
    - apply clos_rt_rtn1 in Rhv. destruct Rhv as [|p y Hpy _]; [exact Ru|]. exfalso. exact (Hnp p Hpy). }
  destruct (EditLin.reach_time st WF v u Rvu) as [E|T]; [subst; lia|lia].
Qed.

Lemma top_wrap_false p r : top_wrap false p r = r.
Proof. destruct r; reflexivity. Qed.

Lemma upd_track_keeps st start newT newL b st1 : cfg_ok st -> W_dict st -> W_forest st ->
  do_upd_track st start newT newL = Ok b st1 ->
  cfg_ok st1 /\ W_dict st1 /\ W_forest st1 /\ node_ids st1 = node_ids st /\ succs (g st1) = succs (g st) /\
  (forall m k, k <> KTrack -> k <> KLin -> attr st1 m k = attr st m k) /\
  (newL = None -> forall m, lin st1 m = lin st m).
Proof.
  intros Cfg WD WF H.
  destruct (upd_track_effect _ _ _ _ _ _ Cfg WD WF H) as (oldT & vis & _ & _ & _ & _ & _ & _ & _ & _ & Ei & Es & _ & Ef & F & _ & KL).
  split; [unfold cfg_ok; now rewrite Ef|]. split; [exact (upd_track_W_dict _ _ _ _ _ _ Cfg WD H)|]. split.
  { apply (EditWalk.same_struct_W_forest st st1); [|exact WF].
    pose proof (EditWalk.do_upd_track_struct st start newT newL _ eq_refl) as S. now rewrite H in S. }
  split; [exact Ei|]. split; [exact Es|]. split; [exact F|]. intros -> m. unfold lin, zattr. now rewrite KL.
Qed.

Lemma uae_tail_undo pre s u v a sf :
  cfg_ok s -> W_dict s -> W_forest s -> W_trk s -> W_lin s -> EditTrk.trk_bounded s ->
  is_node s u -> is_node s v -> time_of s u < time_of s v -> (forall p, ~ edge s p v) ->
  EditLin.uae_tail pre s u v = Ok a sf ->
  exists tail, a = AGroup (pre ++ tail) /\
    forall sx, pw_eq sf sx -> exists l' s', inv_list tail sx = Ok l' s' /\ pw_eq s s'.
Proof.
  intros Cfg WD WF WT WL Hb Nu Nv Ht Hnp H. unfold EditLin.uae_tail in H. cbv zeta in H.
  assert (Hld : forall x, lin_down s x) by (intros x; now apply lin_down_of_W_lin).
  destruct (out_degree s u =? 0) eqn:Eod.
  - (* join *)
    destruct (zattr s u KTrack) as [t|] eqn:Et; [|discriminate].
    destruct (do_upd_track s v t (zattr s u KLin)) as [b s2|e s2] eqn:H2; [|discriminate]. cbn [bind] in H.
    destruct (do_add_edge s2 u v []) as [b' s3|e s3] eqn:H3; [|discriminate]. cbn [bind] in H. injection H as <- <-.
    exists [ABasic b; ABasic b']. split; [now rewrite <- app_assoc|]. intros sx Px. rewrite inv_list_2.
    destruct (upd_track_keeps _ _ _ _ _ _ Cfg WD WF H2) as (Cfg2 & WD2 & WF2 & Ei2 & Es2 & _).
    assert (Hne : has_edge s2 u v = false).
    { destruct (has_edge s2 u v) eqn:E; [|reflexivity]. exfalso. apply (Hnp u). unfold edge, has_edge, adj in *. now rewrite <- Es2. }
    destruct (add_edge_undo_at s2 u v [] b' s3 sx WD2 Hne H3 Px) as (b'' & s2' & I3 & P2). rewrite I3.
    assert (Hpre : upd_track_pre s v t).
    { apply upd_track_pre_doc; [|exact WD|exact WF]. intros oldT m _ R Hm. exfalso.
      apply (trk_join_pre s u v m WD WF WT Nu Nv Ht Hnp R). rewrite Hm. symmetry. exact Et. }
    destruct (upd_track_undo_at s v t _ b s2 s2' Cfg WD WF (Hld v) Hpre H2 P2) as (b2' & s' & I2 & P). rewrite I2.
    eexists _, _. split; [reflexivity|exact P].
  - (* u gets a second child: its first child starts a new track *)
    destruct (out_degree s u =? 1) eqn:Eod1; [|discriminate].
    destruct (successors s u) as [|c rest] eqn:Es; [discriminate|].
    destruct (do_upd_track s c (next_trk s) None) as [b s2|e s2] eqn:H2; [|discriminate]. cbn [bind] in H.
    destruct (zattr s2 v KTrack) as [tv|] eqn:Etv; [|discriminate].
    destruct (do_upd_track s2 v tv (zattr s2 u KLin)) as [b2 s3|e s3] eqn:H3; [|discriminate]. cbn [bind] in H.
    destruct (do_add_edge s3 u v []) as [b' s4|e s4] eqn:H4; [|discriminate]. cbn [bind] in H. injection H as <- <-.
    exists [ABasic b; ABasic b2; ABasic b']. split; [now rewrite <- app_assoc|]. intros sx Px. rewrite inv_list_3.
    destruct (upd_track_keeps _ _ _ _ _ _ Cfg WD WF H2) as (Cfg2 & WD2 & WF2 & Ei2 & Es2 & F2 & L2).
    destruct (upd_track_keeps _ _ _ _ _ _ Cfg2 WD2 WF2 H3) as (Cfg3 & WD3 & WF3 & Ei3 & Es3 & _).
    assert (Hne : has_edge s3 u v = false).
    { destruct (has_edge s3 u v) eqn:E; [|reflexivity]. exfalso. apply (Hnp u). unfold edge, has_edge, adj in *. now rewrite <- Es2, <- Es3. }
    destruct (add_edge_undo_at s3 u v [] b' s4 sx WD3 Hne H4 Px) as (b'' & s3' & I4 & P3). rewrite I4.
    assert (Hpre3 : upd_track_pre s2 v tv).
    { apply upd_track_pre_doc; [|exact WD2|exact WF2]. intros oldT m Hto _ _. unfold trk in Hto. congruence. }
    assert (Hld2 : lin_down s2 v).
    { apply (lin_down_sub s s2 v WL); [|now apply L2]. intros x y Hxy. unfold edge, has_edge, adj in *. now rewrite <- Es2. }
    destruct (upd_track_undo_at s2 v tv _ b2 s3 s3' Cfg2 WD2 WF2 Hld2 Hpre3 H3 P3) as (b2' & s2' & I3 & P2). rewrite I3.
    assert (Nc : is_node s c).
    { apply (wd_edge_nodes s WD u c). apply edge_successors. rewrite Es. now left. }
    assert (Hpre2 : upd_track_pre s c (next_trk s)).
    { apply upd_track_pre_doc; [|exact WD|exact WF]. intros oldT m _ R Hm. exfalso.
      apply (EditTrk.trk_bounded_fresh s Hb m); [|exact Hm]. now apply (EditWalk.reach_is_node s c m WD Nc). }
    destruct (upd_track_undo_at s c _ None b s2 s2' Cfg WD WF (Hld c) Hpre2 H2 P2) as (b1' & s' & I2 & P). rewrite I2.
    eexists _, _. split; [reflexivity|exact P].
Qed.

Theorem C01_user_add_edge st u v force a st' :
  WF st -> user_add_edge_core st u v force = Ok a st' ->
  exists b st2, inv_action st' a = Ok b st2 /\ obs_eq st2 st.
Proof.
  intros W H. pose proof W as [Cfg WD WFo WT WL WB WS WFr]. rewrite EditLin.uae_core_unfold in H.
  destruct (has_node st u) eqn:Hu; [|discriminate]. destruct (has_node st v) eqn:Hv; [|discriminate]. cbn [negb] in H.
  destruct (time_of st u >=? time_of st v) eqn:Et; [discriminate|].
  destruct (out_degree st u - (if has_edge st u v then 1 else 0) >? 1); [discriminate|].
  apply has_node_is_node in Hu. apply has_node_is_node in Hv.
  assert (Ht : time_of st u < time_of st v) by (rewrite Z.geb_leb in Et; apply Z.leb_gt in Et; lia).
  destruct (in_degree st v >? 0) eqn:Ein.
  - destruct force; cbn [negb] in H; [|discriminate].
    destruct (predecessors st v) as [|p r] eqn:Ep.
    { exfalso. unfold in_degree in Ein. rewrite Ep in Ein. discriminate. }
    assert (Hpv : is_node st p /\ edge st p v) by (apply EditGraph.in_predecessors; rewrite Ep; now left).
    destruct Hpv as [Np Epv].
    unfold user_delete_edge in H. rewrite top_wrap_false in H.
    destruct (user_delete_edge_core st p v) as [a0 s|e s] eqn:Hude; [|discriminate]. cbn [bind] in H.
    (* the state after the forced removal of the merge edge *)
    destruct (EditUserEdge.ude_core_spec st p v WD WFo) as [_ Hy]. destruct (Hy Epv) as (a0' & s0 & H0 & WDs & WFs & Gs & Es & _).
    rewrite Hude in H0. injection H0 as <- <-.
    destruct (EditLin.ude_core_LWF st p v a0 s (EditLin.Build_LWF st Cfg WD WFo WL WB) Hude) as [Cfgs _ _ WLs WBs].
    destruct (EditTrk.ude_trk st p v WD WFo WT (EditTrk.W_book_trk_bounded st WB) (proj1 Cfg) Epv) as (a1 & s1 & H1 & WTs & Hbs & _).
    rewrite Hude in H1. injection H1 as <- <-.
    assert (Nus : is_node s u) by (now apply (EditUserEdge.gstep_is_node _ _ _ Gs)).
    assert (Nvs : is_node s v) by (now apply (EditUserEdge.gstep_is_node _ _ _ Gs)).
    assert (Hts : time_of s u < time_of s v) by (rewrite !(EditUserEdge.gstep_time _ _ _ Gs); exact Ht).
    assert (Hnp : forall q, ~ edge s q v).
    { intros q Hq. apply Es in Hq. destruct Hq as [Hq Hn]. apply Hn. split; [|reflexivity]. apply (wf_in st WFo q p v Hq Epv). }
    destruct (uae_tail_undo [a0] s u v a st' Cfgs WDs WFs WTs WLs Hbs Nus Nvs Hts Hnp H) as (tail & -> & Hundo).
    rewrite inv_action_group, inv_list_app.
    destruct (Hundo st' (pw_eq_refl st')) as (l' & s' & I1 & P1). rewrite I1. cbn [bind inv_list].
    destruct (C01_user_delete_edge_at st p v a0 s s' W Hude P1) as (b0 & st2 & I0 & O0). rewrite I0. cbn [bind].
    eexists _, _. split; [reflexivity|exact O0].
  - assert (Hnp : forall q, ~ edge st q v).
    { intros q Hq. assert (In q (predecessors st v)) as Hin by (apply EditGraph.in_predecessors; split; [apply (wd_edge_nodes st WD q v Hq)|exact Hq]).
      assert (in_degree st v >? 0 = true) by (apply EditUserEdge.in_degree_pos; eauto). congruence. }
    cbn [bind] in H.
    destruct (uae_tail_undo [] st u v a st' Cfg WD WFo WT WL (EditTrk.W_book_trk_bounded st WB) Hu Hv Ht Hnp H) as (tail & -> & Hundo).
    rewrite inv_action_group. cbn [app].
    destruct (Hundo st' (pw_eq_refl st')) as (l' & s' & I1 & P1). rewrite I1. cbn [bind].
    eexists _, _. split; [reflexivity|apply obs_eq_sym, pw_eq_obs, P1].
Qed.

(* ---- UserUpdateNodeAttrs ---- *)
Theorem C01_user_update_attrs st n new a st1 :
  user_update_attrs_core st n new = Ok a st1 ->
  exists b st2, inv_action st1 a = Ok b st2 /\ obs_eq st2 st.
Proof.
  unfold user_update_attrs_core. destruct (do_upd_attrs st n new) as [b0 s|e s] eqn:H0; [|discriminate]. cbn [bind].
  intros H. injection H as <- <-. destruct (upd_attrs_inverse _ _ _ _ _ H0) as (b' & st2 & H2 & O2 & _).
  rewrite inv_action_group. cbn [inv_list bind inv_action]. rewrite H2. cbn [bind].
  eexists _, _. split; [reflexivity|now apply obs_eq_sym].
Qed.
