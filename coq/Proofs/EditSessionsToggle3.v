(* The side condition "no annotator features without a label array" (noseg_cfg) of the mixed
   feature-switching session theorem is an invariant of every mixed run: it need only hold at the start.
   (seg keeps its None-ness and its shape along every run - EditSegNone / EditSegShape / EditSegNoneToggle -
   and no call changes the static part of the feature table: rp_all, iou_avail.) *)
From Coq Require Import ZArith List Bool Lia.
From FT Require Import Base.Dict Model.Edit Model.EditExec Model.Toggle Model.ToggleExec Proofs.DictLemmas Proofs.EditInv
  Proofs.EditBook Proofs.EditFresh Proofs.EditInverse Proofs.EditInverseNode Proofs.EditSessions Proofs.EditSessionsFull Proofs.EditSessionsAll
  Proofs.ToggleProofs Proofs.EditInit Proofs.EditSessionsToggle Proofs.EditSessionsToggle2.
From FT Require Proofs.EditSeg Proofs.EditSegNone Proofs.EditSegShape Proofs.EditSegNoneToggle.
Import ListNotations.
Open Scope Z_scope.

Lemma static_step2 st o :
  rp_all (ft (fst (step2 st o))) = rp_all (ft st) /\ iou_avail (ft (fst (step2 st o))) = iou_avail (ft st).
Proof.
  destruct o as [e|ks rc ctrk clin|ks]; cbn [step2].
  - rewrite (step_ft st e). split; reflexivity.
  - unfold enable_features. destruct (negb _); [split; reflexivity|]. destruct rc; cbn [fin fst].
    + rewrite trk_compute_ft, iou_compute_ft, rp_compute_ft. split; reflexivity.
    + split; reflexivity.
  - unfold disable_features. destruct (negb _); split; reflexivity.
Qed.

Lemma seg_none_back st o : seg (fst (step2 st o)) = None -> seg st = None.
Proof.
  intros E. pose proof (EditSegNoneToggle.step2_shape st o) as H. apply EditSegShape.shp_spec in H.
  destruct (seg st) as [sg|]; [|reflexivity]. destruct H as (sg' & E' & _). congruence.
Qed.

Lemma noseg_cfg_step2 st o : noseg_cfg st -> noseg_cfg (fst (step2 st o)).
Proof.
  intros N E. destruct (static_step2 st o) as [A B]. rewrite A, B. apply N. exact (seg_none_back st o E).
Qed.

Theorem run2_noseg_cfg : forall ops st, noseg_cfg st -> noseg_cfg (run2 st ops).
Proof.
  induction ops as [|o r IH]; intros st N; [exact N|]. rewrite run2_cons. apply IH. now apply noseg_cfg_step2.
Qed.

(* the mixed session theorem modulo (a), with the side condition at the start state only *)
Section SessionToggleModuloA_start.
  Variables (st0 : state) (ops : list op2).
  Hypothesis W0 : WF st0.
  Hypothesis S0 : side_ok st0.
  Hypothesis Hu : undo_stack st0 = [].
  Hypothesis Hr : redo_stack st0 = [].
  Hypothesis Hok : Forall switch_ok ops.
  Hypothesis Hpre : pre_along2 st0 ops.
  Hypothesis N0 : noseg_cfg st0.
  Let t0 : A.tline state := {| A.tl := [st0]; A.c := 0 |}.
  (* NOT PROVED: (a) *)
  Hypothesis Ha : switch_along transport_a st0 t0 ops.

  Theorem session_toggle_reachable_WF_modulo_a_start pre post : ops = pre ++ post -> WF (run2 st0 pre).
  Proof.
    apply (session_toggle_reachable_WF_modulo_a st0 ops W0 S0 Hu Hr Hok Hpre); [|exact Ha].
    intros p o q _ _. apply run2_noseg_cfg. exact N0.
  Qed.
End SessionToggleModuloA_start.

Print Assumptions run2_noseg_cfg.
Print Assumptions session_toggle_reachable_WF_modulo_a_start.
