(* The complete invariant WF (Proofs/EditInv.v) across the paint / erase strokes
   (Model/Edit.v: paint -> user_update_seg -> uus_groups / UpdateNodeSeg / nested UserDeleteNode,
   UserAddNode), and the reachability theorem over  node_fragment + OPaint.

   A stroke runs on states that are NOT well formed: the caller has already painted the new label
   over the array when UserUpdateSegmentation starts, so labels and nodes disagree and the stored
   features of the overwritten nodes are stale until their group has been processed.  The proof
   carries a mid-stroke invariant (SF below): W_seg and W_fresh restricted to the labels that are
   not pending, plus what is known of the pixels still to be handled: they carry the new label or
   background.  All writes of a stroke happen in one frame, over such pixels, with value 0 or the
   new label; so no mask of any other label ever changes.
   Main statements:
     paint_WF                   an accepted stroke on a WF state (with rp_disjoint) yields a WF state; no other
                                precondition: the frame, the F-07a check, the pixels are validated by the model itself;
     paint_refused_WF_partial   a refused stroke returns the state it was given up to the order inside one track-lookup
                                entry (EditUAN.untouched), hence a WF one - for every refusal that involves no rollback
                                of sub-actions (paint_no_rollback: forced, erasing, growing an existing label, or over
                                background only).  NOT covered: the forceable refusal of the nested UserAddNode after
                                overwritten nodes were deleted / shrunk (rollback re-creates them);
     uus_groups_total           from a mid-stroke state the loop over the overwritten labels never fails;
     step_paint_WF, run_paint_WF, run_paint_WF_check   the interpreter over node_fragment + OPaint;
     paint_ft                   no stroke touches the feature configuration.
   No axioms are used. *)
From Coq Require Import ZArith List Bool Lia Permutation Sorted.
From FT Require Import Base.Dict Model.Edit Model.EditExec Proofs.DictLemmas Proofs.EditInv Proofs.EditGraph
  Proofs.EditWalk Proofs.EditBasic Proofs.EditUserEdge Proofs.EditUserEdgeCor.
From FT Require Proofs.BookLemmas Proofs.EditBook Proofs.EditTrk Proofs.EditLin Proofs.EditFrame Proofs.EditInverse
  Proofs.EditNodeBasic Proofs.EditUDN Proofs.EditUAN.
From FT Require Import Proofs.EditSeg Proofs.EditFresh Proofs.EditWFEdge Proofs.EditWFNode.
Import ListNotations.
Open Scope Z_scope.

Notation GWF := EditUDN.GWF.

(* ================================================================== *)
(* 1. frames                                                            *)
(* ================================================================== *)
(* same nodes, same successor lists, same time / track id / lineage id: the three graph invariants stay *)
Lemma graph_frame_parts st st' :
  (forall m, is_node st' m <-> is_node st m) -> (forall a, successors st' a = successors st a) ->
  (forall m k, EditBook.id_key k -> attr st' m k = attr st m k) ->
  (W_forest st -> W_forest st') /\ (W_trk st -> W_trk st') /\ (W_lin st -> W_lin st').
Proof.
  intros Hn Hs Fr.
  assert (He : forall a c, edge st' a c <-> edge st a c) by (intros a c; rewrite !EditBook.edge_successors, Hs; tauto).
  assert (Ht : forall m, time_of st' m = time_of st m).
  { intros m. unfold time_of, zattr. rewrite Fr; [reflexivity|left; reflexivity]. }
  assert (Hk : forall m, trk st' m = trk st m).
  { intros m. unfold trk, zattr. rewrite Fr; [reflexivity|right; left; reflexivity]. }
  assert (Hl : forall m, lin st' m = lin st m).
  { intros m. unfold lin, zattr. rewrite Fr; [reflexivity|right; right; reflexivity]. }
  split; [|split].
  - intros [F1 F2 F3]. constructor.
    + intros u u' v E1 E2. apply (F1 u u' v); now apply He.
    + intros u. rewrite Hs. apply F2.
    + intros u v E. rewrite !Ht. apply F3. now apply He.
  - now apply EditTrk.W_trk_ext.
  - intros [L1 L2]. constructor.
    + intros u v E. rewrite !Hl. apply L1. now apply He.
    + intros a b [Na Ra] [Nb Rb]. rewrite !Hl. apply L2.
      * split; [now apply Hn|]. intros p E. apply (Ra p). now apply He.
      * split; [now apply Hn|]. intros p E. apply (Rb p). now apply He.
Qed.

(* UpdateNodeSeg keeps the six graph-and-id conjuncts *)
Lemma upd_seg_GWF st n px added b st' : GWF st -> rp_disjoint st -> do_upd_seg st n px added = Ok b st' -> GWF st'.
Proof.
  intros [C D F T L B] Hrp H.
  destruct (EditBook.do_upd_seg_inv _ _ _ _ _ _ H) as (st0 & st1 & Eg & Eb & Ef & [A Fr] & Hu).
  assert (Hn : forall m, is_node st' m <-> is_node st m).
  { intros m. unfold is_node, node_ids. rewrite (EditBook.eu_nodes _ _ Hu). fold (node_ids st1). rewrite (EditBook.au_ids _ _ A).
    unfold node_ids. now rewrite Eg. }
  assert (Hs : forall a, successors st' a = successors st a).
  { intros a. rewrite (EditBook.eu_succ _ _ Hu), (EditBook.attr_upd_successors _ _ a A). unfold successors, adj. now rewrite Eg. }
  assert (Hid : forall m k, EditBook.id_key k -> attr st' m k = attr st m k).
  { intros m k Hk. transitivity (attr st1 m k); [unfold attr, node_attrs; now rewrite (EditBook.eu_nodes _ _ Hu)|].
    rewrite Fr by (right; now apply Hrp). unfold attr, node_attrs. now rewrite Eg. }
  destruct (graph_frame_parts st st' Hn Hs Hid) as (PF & PT & PL).
  constructor.
  - apply (EditLin.cfg_ok_ft st st'); [|exact C]. rewrite (EditBook.eu_ft _ _ Hu), (EditBook.au_ft _ _ A). exact Ef.
  - exact (EditBook.upd_seg_W_dict _ _ _ _ _ _ H Hrp D).
  - now apply PF.
  - now apply PT.
  - now apply PL.
  - exact (EditBook.upd_seg_W_book _ _ _ _ _ _ H Hrp B).
Qed.

(* ================================================================== *)
(* 2. steps that leave the array alone, with the IoU of the edges they create *)
(* ================================================================== *)
(* array and features untouched; node list untouched; of the node attributes only the two ids may
   change; every edge is an old one with its attributes, or carries the IoU of its endpoint masks *)
Definition qstep (s s' : state) : Prop :=
  seg s' = seg s /\ ft s' = ft s /\ nodes_keep (fun k => k = KTrack \/ k = KLin) s s' /\
  forall u v, edge s' u v ->
    (edge s u v /\ edge_attrs s' u v = edge_attrs s u v) \/
    (forall sg, seg s = Some sg -> iou_act (ft s) = true -> lookup KIou (edge_attrs s' u v) = Some (iou_of s sg u v)).

Lemma qstep_refl s : qstep s s.
Proof. split; [reflexivity|]. split; [reflexivity|]. split; [apply nodes_keep_refl|]. intros u v H. left. auto. Qed.

Lemma qstep_trans a b c : qstep a b -> qstep b c -> qstep a c.
Proof.
  intros (A1 & A2 & A3 & A4) (B1 & B2 & B3 & B4).
  split; [congruence|]. split; [congruence|]. split; [eapply nodes_keep_trans; eauto|].
  intros u v H. destruct (B4 u v H) as [[Hb Eb]|Hnew].
  - destruct (A4 u v Hb) as [[Ha Ea]|Hnew]; [left; split; [exact Ha|congruence]|right].
    intros sg Hs Hact. rewrite Eb. now apply Hnew.
  - right. intros sg Hs Hact. rewrite (Hnew sg) by congruence. f_equal.
    apply iou_of_ext; try reflexivity; apply (nodes_keep_time _ _ _ _ KTime_not_trk A3).
Qed.

Lemma qstep_same_g s s' : g s' = g s -> seg s' = seg s -> ft s' = ft s -> qstep s s'.
Proof.
  intros Eg Es Ef. split; [exact Es|]. split; [exact Ef|]. split; [apply nodes_keep_eq; now rewrite Eg|].
  intros u v H. left. unfold edge, has_edge, edge_attrs, adj in *. rewrite Eg in *. auto.
Qed.

Lemma qstep_del_edge st u v : qstep st (rstate (do_del_edge st u v)).
Proof.
  destruct (do_del_edge st u v) as [b s|e s] eqn:E; cbn [rstate].
  - destruct (del_edge_effect st u v) as (E1 & E2 & E3). rewrite E in E1, E2, E3. cbn [rstate] in *.
    split; [exact E1|]. split; [exact E2|]. split; [now apply nodes_keep_eq|].
    unfold do_del_edge in E. destruct (negb (has_edge st u v)); [discriminate|]. injection E as _ Hs.
    destruct (edge_drop st s u v) as [P1 P2]; [now rewrite <- Hs|].
    intros x y H. left. unfold edge in H. rewrite P1 in H. apply andb_true_iff in H. destruct H as [Hne H].
    split; [exact H|]. apply P2. intros [-> ->]. rewrite !Z.eqb_refl in Hne. discriminate.
  - apply do_del_edge_err in E. subst s. apply qstep_refl.
Qed.

Lemma qstep_add_edge st u v a : qstep st (rstate (do_add_edge st u v a)).
Proof.
  destruct (do_add_edge st u v a) as [b s|e s] eqn:E; cbn [rstate].
  - destruct (add_edge_effect st u v a) as (E1 & E2 & E3). rewrite E in E1, E2, E3. cbn [rstate] in *.
    split; [exact E1|]. split; [exact E2|]. split; [now apply nodes_keep_eq|].
    unfold do_add_edge in E. destruct (negb (has_node st u)); [discriminate|]. destruct (negb (has_node st v)); [discriminate|].
    injection E as _ Hst'.
    set (s1 := upd_g st {| nodes := nodes (g st); succs := set u (set v (update (edge_attrs st u v) a) (adj st u)) (succs (g st)) |}) in *.
    destruct (edge_put st s1 u v (update (edge_attrs st u v) a) eq_refl) as [P1 P2].
    intros x y He.
    destruct (seg st) as [sg|] eqn:Hs; [destruct (iou_act (ft st)) eqn:Hact|].
    + assert (Hs1 : seg s1 = Some sg) by exact Hs. assert (Ha1 : iou_act (ft s1) = true) by exact Hact.
      destruct (iou_update_spec s1 sg [(u, v)] Hs1 Ha1) as (U1 & U2 & U3). rewrite Hst' in U1, U2, U3.
      unfold edge in He. rewrite U1, P1 in He.
      destruct (Z.eq_dec x u) as [Exu|Hxu]; [destruct (Z.eq_dec y v) as [Eyv|Hyv]|].
      * subst x y. right. intros sg' Hs' _. injection Hs' as <-.
        rewrite (U2 u v); [|now left|rewrite P1, !Z.eqb_refl; reflexivity]. first [reflexivity | f_equal; now apply iou_of_nodes].
      * left. assert (Eb : (y =? v) = false) by (now apply Z.eqb_neq). rewrite Eb, andb_false_r in He. cbn [orb] in He.
        split; [exact He|]. rewrite U3 by (intros [E|[]]; injection E as _ E; congruence). now rewrite P2, Eb, andb_false_r.
      * left. assert (Eb : (x =? u) = false) by (now apply Z.eqb_neq). rewrite Eb in He. cbn [andb orb] in He.
        split; [exact He|]. rewrite U3 by (intros [E|[]]; injection E as E _; congruence). now rewrite P2, Eb.
    + assert (Es : s = s1) by (rewrite <- Hst'; apply iou_update_inactive; right; exact Hact). clear Hst'. subst s.
      unfold edge in He. rewrite P1 in He.
      destruct ((x =? u) && (y =? v)) eqn:Exy; [right; intros sg' _ C; congruence|].
      left. cbn [orb] in He. split; [exact He|]. now rewrite P2, Exy.
    + assert (Es : s = s1) by (rewrite <- Hst'; apply iou_update_inactive; left; exact Hs). clear Hst'. subst s.
      unfold edge in He. rewrite P1 in He.
      destruct ((x =? u) && (y =? v)) eqn:Exy; [right; intros sg' C; discriminate C|].
      left. cbn [orb] in He. split; [exact He|]. now rewrite P2, Exy.
  - apply do_add_edge_err in E. subst s. apply qstep_refl.
Qed.

Lemma qstep_upd_track st start newT newL : qstep st (rstate (do_upd_track st start newT newL)).
Proof.
  destruct (upd_track_effect st start newT newL) as ((G1 & G2 & G3) & N).
  split; [exact G1|]. split; [exact G2|]. split; [exact N|].
  intros u v H. left. unfold edge in *. rewrite (has_edge_succs _ st u v G3) in H. split; [exact H|now apply edge_attrs_succs].
Qed.

Lemma qstep_track_neighbors s T t : qstep s (fst (track_neighbors s T t)).
Proof.
  pose proof (EditUDN.track_neighbors_state s T t) as F. cbv zeta in F. destruct F as (Eg & Es & Ef & _).
  now apply qstep_same_g.
Qed.

Ltac qs_step :=
  first [ apply qstep_refl | apply qstep_del_edge | apply qstep_add_edge | apply qstep_upd_track ].
Ltac qs_bind := apply bind_rel; [exact qstep_trans| |].

Lemma qstep_udn_preds n : forall ps s acc, qstep s (rstate (udn_preds n ps s acc)).
Proof.
  induction ps as [|p r IH]; intros s acc; cbn [udn_preds]; [qs_step|]. cbv zeta.
  qs_bind.
  - destruct (length (successors s p) =? 2)%nat; [|qs_step].
    destruct (remove1 n (successors s p)); [qs_step|]. destruct (zattr s p KTrack); [|qs_step].
    qs_bind; [qs_step|intros; qs_step].
  - intros acc1 s1 _. qs_bind; [qs_step|]. intros b s2 _. apply IH.
Qed.

Lemma qstep_udn_succs n : forall cs s acc, qstep s (rstate (udn_succs n cs s acc)).
Proof.
  induction cs as [|c r IH]; intros s acc; cbn [udn_succs]; [qs_step|].
  qs_bind; [qs_step|]. intros b s1 _. apply IH.
Qed.

Lemma qstep_udn_orphans : forall os s acc, qstep s (rstate (udn_orphans os s acc)).
Proof.
  induction os as [|o r IH]; intros s acc; cbn [udn_orphans]; [qs_step|].
  destruct (zattr s o KTrack); [|qs_step]. qs_bind; [qs_step|]. intros b s1 _. apply IH.
Qed.

Lemma qstep_udn_prefix st n : qstep st (rstate (EditUDN.udn_prefix st n)).
Proof.
  unfold EditUDN.udn_prefix. cbv zeta.
  qs_bind; [apply qstep_udn_preds|]. intros acts1 s1 _.
  qs_bind; [apply qstep_udn_succs|]. intros acts2 s2 _.
  qs_bind.
  - destruct (zattr s2 n KTrack) as [T|]; [|qs_step].
    pose proof (qstep_track_neighbors s2 T (time_of s2 n)) as E3.
    destruct (track_neighbors s2 T (time_of s2 n)) as [s3 [p c]]. cbn [fst] in E3.
    destruct p as [p|]; [destruct c as [c|]|]; try exact E3.
    eapply qstep_trans; [exact E3|]. qs_bind; [qs_step|intros; qs_step].
  - intros [acts3 orphans] s3 _. apply qstep_udn_orphans.
Qed.

Lemma qstep_ok {A} (r : res A) st a s : qstep st (rstate r) -> r = Ok a s -> qstep st s.
Proof. intros H ->. exact H. Qed.

(* ================================================================== *)
(* 3. the mid-stroke invariant                                          *)
(* ================================================================== *)
Section Stroke.
(* the frame of the stroke, the new label, the pixels the caller painted *)
Variables (t nv : Z) (R : list Z).

(* W_seg and W_fresh for the labels that are not pending; [cur] is the array of the state *)
Record SF (Pend : Z -> Prop) (s : state) (cur : list (list Z)) : Prop := {
  sf_seg : seg s = Some cur;
  sf_fok : frame_ok cur t = true;
  sf_sane : nodes_sane s cur;
  sf_mask : forall m, is_node s m -> ~ Pend m -> mask_of cur (time_of s m) m <> [];
  sf_lab : forall t' i, frame_ok cur t' = true -> label_at cur t' i <> 0 -> label_at cur t' i <> nv ->
             is_node s (label_at cur t' i) /\ time_of s (label_at cur t' i) = t';
  sf_nvlab : forall t' i, frame_ok cur t' = true -> label_at cur t' i = nv -> nv <> 0 ->
             t' = t /\ (is_node s nv \/ In (Z.of_nat i) R);
  sf_pend_t : forall m, Pend m -> is_node s m -> time_of s m = t;
  sf_rp : forall m k, is_node s m -> ~ Pend m -> In k (rp_act (ft s)) ->
             attr s m k = Some (VRp (mask_of cur (time_of s m) m));
  sf_iou : iou_act (ft s) = true -> forall u v, edge s u v -> ~ Pend u -> ~ Pend v ->
             lookup KIou (edge_attrs s u v) = Some (iou_of s cur u v)
}.

Lemma rp_key_not_trk s k : rp_disjoint s -> In k (rp_act (ft s)) -> ~ (k = KTrack \/ k = KLin).
Proof.
  intros Hrp Hk [->| ->]; [apply (Hrp KTrack)|apply (Hrp KLin)]; auto; [right; left|right; right]; reflexivity.
Qed.

Lemma sf_qstep Pend s s' cur : SF Pend s cur -> rp_disjoint s -> qstep s s' -> SF Pend s' cur.
Proof.
  intros [S1 S2 S3 S4 S5 S6 S7 S8 S9] Hrp (Es & Ef & N & Q).
  assert (HN : forall m, is_node s' m <-> is_node s m) by (intros m; apply (nodes_keep_is_node _ _ _ m N)).
  assert (HT : forall m, time_of s' m = time_of s m) by (intros m; apply (nodes_keep_time _ _ _ m KTime_not_trk N)).
  constructor.
  - congruence.
  - exact S2.
  - intros m Hm. apply HN in Hm. rewrite HT. now apply S3.
  - intros m Hm Hp. apply HN in Hm. rewrite HT. now apply S4.
  - intros t' i Hf H0 Hv. destruct (S5 t' i Hf H0 Hv) as [A B]. split; [now apply HN|now rewrite HT].
  - intros t' i Hf Hl Hv. destruct (S6 t' i Hf Hl Hv) as [A [B|B]]; (split; [exact A|]); [left; now apply HN|now right].
  - intros m Hp Hm. apply HN in Hm. rewrite HT. now apply S7.
  - intros m k Hm Hp Hk. rewrite Ef in Hk. apply HN in Hm. rewrite HT.
    rewrite (proj2 N m k) by (now apply (rp_key_not_trk s)). now apply S8.
  - intros Hact u v He Hu Hv. rewrite Ef in Hact.
    assert (Eio : iou_of s' cur u v = iou_of s cur u v) by (apply iou_of_ext; auto).
    rewrite Eio. destruct (Q u v He) as [[He0 Ea]|Hnew]; [rewrite Ea; now apply S9|now apply Hnew].
Qed.

(* the label-preserving character of the writes of a stroke *)
Lemma stroke_mask_other cur idx v m tm : frame_ok cur t = true -> 0 <= tm -> only_touches cur t idx nv ->
  (v = 0 \/ v = nv) -> m <> 0 -> m <> nv -> mask_of (paint_arr cur t idx v) tm m = mask_of cur tm m.
Proof. intros Hf Htm Ht Hv H0 Hn. apply (mask_of_paint_other cur t idx v nv tm m); auto. destruct Hv; congruence. Qed.

Lemma frame_ok_nonneg cur x : frame_ok cur x = true -> 0 <= x.
Proof. intros H. apply frame_ok_range in H. lia. Qed.

(* DeleteNode of a pending node that has lost all its pixels, with the stroke's pixels *)
Lemma sf_del_node (Pend Pend' : Z -> Prop) s cur n idx b s' :
  SF Pend s cur -> edges_sane s -> Pend nv -> n <> nv -> Pend n ->
  (forall m, Pend' m -> Pend m) -> (forall m, Pend m -> m = n \/ Pend' m) ->
  only_touches cur t idx nv -> mask_of cur t n = [] ->
  do_del_node s n (Some (t, idx)) = Ok b s' ->
  SF Pend' s' (paint_arr cur t idx 0).
Proof.
  intros [S1 S2 S3 S4 S5 S6 S7 S8 S9] Hes Pnv Hnnv Pn Pa Pb Htouch Hempty H.
  destruct (del_node_effect _ _ _ _ _ H) as (Hn & Hft & HN & HA & Heff). cbn [eff_pixels fst snd] in Heff.
  destruct Heff as (sg0 & Hs0 & _ & Hseg'). rewrite S1 in Hs0. injection Hs0 as <-.
  apply do_del_node_ok in H. destruct H as (d & st1 & _ & Hsp & Hg & _ & _).
  assert (Hg1 : g st1 = g s) by (apply set_pixels_ok in Hsp; destruct Hsp as (sg1 & _ & _ & ->); reflexivity).
  rewrite Hg1 in Hg. clear Hsp Hg1 st1.
  set (cur' := paint_arr cur t idx 0) in *.
  assert (Sh : same_shape cur' cur) by apply paint_same_shape.
  assert (Ht0 : 0 <= t) by (now apply (frame_ok_nonneg cur)).
  assert (Htn : time_of s n = t) by (now apply S7).
  assert (HT : forall m, m <> n -> time_of s' m = time_of s m) by (intros m Hm; apply time_of_attr; now apply HA).
  assert (HM : forall m, is_node s m -> m <> nv -> mask_of cur' (time_of s m) m = mask_of cur (time_of s m) m).
  { intros m Hm Hmv. destruct (S3 m Hm) as [Hm0 Hfm]. apply stroke_mask_other; auto. now apply (frame_ok_nonneg cur). }
  assert (Hnp : forall m, m <> n -> ~ Pend' m -> ~ Pend m /\ m <> nv).
  { intros m Hm Hp. assert (Hq : ~ Pend m) by (intros C; destruct (Pb m C); contradiction). split; [exact Hq|]. intros ->. contradiction. }
  assert (Hadj : forall x, adj s' x = if x =? n then [] else del n (adj s x)).
  { intros x. unfold adj, getd. rewrite Hg. cbn [succs]. rewrite (lookup_map_snd (del n)).
    destruct (Z.eqb_spec x n) as [->|Hx]; [now rewrite lookup_del_eq|]. rewrite lookup_del_neq by exact Hx.
    destruct (lookup x (succs (g s))); reflexivity. }
  assert (HE : forall x y, has_edge s' x y = negb (x =? n) && negb (y =? n) && has_edge s x y).
  { intros x y. unfold has_edge. rewrite Hadj. destruct (Z.eqb_spec x n); cbn [negb andb]; [reflexivity|]. apply haskey_del. }
  assert (HEA : forall x y, x <> n -> y <> n -> edge_attrs s' x y = edge_attrs s x y).
  { intros x y Hx Hy. unfold edge_attrs. rewrite Hadj. destruct (Z.eqb_spec x n); [contradiction|]. now apply getd_del_neq. }
  assert (Lab : forall t' i, 0 <= t' -> label_at cur' t' i <> 0 -> label_at cur' t' i = label_at cur t' i).
  { intros t' i Ht' Hl. unfold cur' in *. rewrite label_at_paint in * by assumption.
    destruct ((t' =? t) && memz (Z.of_nat i) idx && (i <? length (frame_of cur t))%nat); [now contradiction Hl|reflexivity]. }
  constructor.
  - exact Hseg'.
  - now rewrite (frame_ok_shape _ _ _ Sh).
  - intros m Hm. apply HN in Hm. destruct Hm as [Hmn Hm]. rewrite (HT m Hmn), (frame_ok_shape _ _ _ Sh). now apply S3.
  - intros m Hm Hp. apply HN in Hm. destruct Hm as [Hmn Hm]. destruct (Hnp m Hmn Hp) as [Hq Hmv].
    rewrite (HT m Hmn), (HM m Hm Hmv). now apply S4.
  - intros t' i Hf H0 Hv. rewrite (frame_ok_shape _ _ _ Sh) in Hf. pose proof (frame_ok_nonneg _ _ Hf) as Ht'.
    pose proof (Lab t' i Ht' H0) as EL. rewrite EL in H0, Hv |- *. destruct (S5 t' i Hf H0 Hv) as [A B].
    assert (Hne : label_at cur t' i <> n).
    { intros E. rewrite E in B. rewrite Htn in B. subst t'.
      assert (Hin : In (Z.of_nat i) (mask_of cur t n)).
      { apply mask_of_In_nat. split; [|exact E]. destruct (Nat.lt_ge_cases i (length (frame_of cur t))) as [Hi|Hi]; [exact Hi|].
        exfalso. apply H0. now apply label_at_overflow. }
      rewrite Hempty in Hin. destruct Hin. }
    split; [apply HN; auto|now rewrite HT].
  - intros t' i Hf Hl Hv. rewrite (frame_ok_shape _ _ _ Sh) in Hf. pose proof (frame_ok_nonneg _ _ Hf) as Ht'.
    assert (H0 : label_at cur' t' i <> 0) by congruence. rewrite (Lab t' i Ht' H0) in Hl.
    destruct (S6 t' i Hf Hl Hv) as [A [B|B]]; (split; [exact A|]); [left; apply HN; auto|now right].
  - intros m Hp Hm. apply HN in Hm. destruct Hm as [Hmn Hm]. rewrite (HT m Hmn). apply S7; auto.
  - intros m k Hm Hp Hk. rewrite Hft in Hk. apply HN in Hm. destruct Hm as [Hmn Hm]. destruct (Hnp m Hmn Hp) as [Hq Hmv].
    rewrite (HA m k Hmn), (HT m Hmn), (HM m Hm Hmv). now apply S8.
  - intros Hact x y He Hx Hy. rewrite Hft in Hact. unfold edge in He. rewrite HE in He.
    apply andb_true_iff in He. destruct He as [He He0]. apply andb_true_iff in He. destruct He as [Hxn Hyn].
    assert (Hx' : x <> n) by (intros ->; now rewrite Z.eqb_refl in Hxn). assert (Hy' : y <> n) by (intros ->; now rewrite Z.eqb_refl in Hyn).
    destruct (Hes x y He0) as [Nx Ny]. destruct (Hnp x Hx' Hx) as [Qx Vx]. destruct (Hnp y Hy' Hy) as [Qy Vy].
    rewrite (HEA x y Hx' Hy'), (S9 Hact x y He0 Qx Qy). f_equal. symmetry. apply iou_of_ext; auto.
Qed.

(* UpdateNodeSeg of a pending node, over pixels that carry the new label or background:
   shrink (added = false; the value written is 0) or the final grow of the new label itself *)
Lemma sf_upd_seg (Pend Pend' : Z -> Prop) s cur n idx (added : bool) b s' :
  SF Pend s cur -> W_dict s -> rp_disjoint s -> is_node s n -> Pend n ->
  (forall m, Pend' m -> Pend m) -> (forall m, Pend m -> m = n \/ Pend' m) ->
  (n = nv \/ Pend' nv) -> (added = true -> n = nv) ->
  only_touches cur t idx nv ->
  mask_of (paint_arr cur t idx (if added then n else 0)) t n <> [] ->
  do_upd_seg s n (t, idx) added = Ok b s' ->
  SF Pend' s' (paint_arr cur t idx (if added then n else 0)).
Proof.
  intros [S1 S2 S3 S4 S5 S6 S7 S8 S9] Hd Hrp Hn Pn Pa Pb Pv Hadd Htouch Hne Hdo.
  pose proof (rp_disjoint_time _ Hrp) as Hkt.
  destruct (upd_seg_effect _ _ _ _ _ _ _ _ Hdo S1) as (_ & Hseg & Hft & Hkeep).
  apply do_upd_seg_ok in Hdo. destruct Hdo as (st1 & Hsp & Hst').
  apply set_pixels_ok in Hsp. destruct Hsp as (sg0 & Hs0 & _ & ->). rewrite S1 in Hs0. injection Hs0 as <-. cbn [fst snd] in *.
  set (v := if added then n else 0) in *. set (cur' := paint_arr cur t idx v) in *. set (s1 := upd_seg s (Some cur')) in *.
  assert (Hv : v = 0 \/ v = nv) by (unfold v; destruct added; [right; now apply Hadd|now left]).
  assert (Hs1 : seg s1 = Some cur') by reflexivity.
  set (s2 := rp_update s1 n) in *.
  assert (Sh : same_shape cur' cur) by apply paint_same_shape.
  assert (Ht0 : 0 <= t) by (now apply (frame_ok_nonneg cur)).
  assert (Htn : time_of s n = t) by (now apply S7).
  assert (HT : forall m, time_of s' m = time_of s m) by (intros m; now apply (nodes_keep_time _ _ _ m Hkt Hkeep)).
  assert (HN : forall m, is_node s' m <-> is_node s m) by (intros m; apply (nodes_keep_is_node _ _ _ m Hkeep)).
  assert (HM : forall m, is_node s m -> m <> nv -> mask_of cur' (time_of s m) m = mask_of cur (time_of s m) m).
  { intros m Hm Hmv. destruct (S3 m Hm) as [Hm0 Hfm]. apply stroke_mask_other; auto. now apply (frame_ok_nonneg cur). }
  assert (Hnp : forall m, m <> n -> ~ Pend' m -> ~ Pend m /\ m <> nv).
  { intros m Hm Hp. assert (Hq : ~ Pend m) by (intros C; destruct (Pb m C); contradiction). split; [exact Hq|].
    intros ->. destruct Pv as [Pv|Pv]; [now apply Hm|contradiction]. }
  assert (Hg2 : nodes (g s') = nodes (g s2)) by (rewrite Hst'; apply iou_update_nodes).
  destruct (rp_update_graph_only s1 n) as (G1 & G2 & G3). fold s2 in G1, G2, G3.
  assert (Lab : forall t' i, 0 <= t' -> label_at cur' t' i =
            if (t' =? t) && memz (Z.of_nat i) idx && (i <? length (frame_of cur t))%nat then v else label_at cur t' i).
  { intros t' i Ht'. unfold cur'. now apply label_at_paint. }
  constructor.
  - exact Hseg.
  - now rewrite (frame_ok_shape _ _ _ Sh).
  - intros m Hm. apply HN in Hm. rewrite HT, (frame_ok_shape _ _ _ Sh). now apply S3.
  - intros m Hm Hp. apply HN in Hm. rewrite HT. destruct (Z.eq_dec m n) as [->|Hmn]; [now rewrite Htn|].
    destruct (Hnp m Hmn Hp) as [Hq Hmv]. rewrite (HM m Hm Hmv). now apply S4.
  - intros t' i Hf H0 Hvv. rewrite (frame_ok_shape _ _ _ Sh) in Hf. pose proof (frame_ok_nonneg _ _ Hf) as Ht'.
    rewrite (Lab t' i Ht') in *.
    destruct ((t' =? t) && memz (Z.of_nat i) idx && (i <? length (frame_of cur t))%nat); [destruct Hv; congruence|].
    destruct (S5 t' i Hf H0 Hvv) as [A B]. split; [now apply HN|now rewrite HT].
  - intros t' i Hf Hl Hnv0. rewrite (frame_ok_shape _ _ _ Sh) in Hf. pose proof (frame_ok_nonneg _ _ Hf) as Ht'.
    rewrite (Lab t' i Ht') in Hl.
    destruct ((t' =? t) && memz (Z.of_nat i) idx && (i <? length (frame_of cur t))%nat) eqn:Ec.
    + apply andb_true_iff in Ec. destruct Ec as [Ec _]. apply andb_true_iff in Ec. destruct Ec as [Ec _]. apply Z.eqb_eq in Ec.
      split; [exact Ec|]. left. apply HN. unfold v in Hl. destruct added; [now rewrite <- Hl|congruence].
    + destruct (S6 t' i Hf Hl Hnv0) as [A [B|B]]; (split; [exact A|]); [left; now apply HN|now right].
  - intros m Hp Hm. apply HN in Hm. rewrite HT. apply S7; auto.
  - intros m k Hm Hp Hk. rewrite Hft in Hk. apply HN in Hm.
    assert (Ea : attr s' m k = attr s2 m k) by (unfold attr, node_attrs; now rewrite Hg2).
    rewrite Ea. unfold s2. rewrite (rp_update_unfold _ _ _ Hs1), set_keys_attr. rewrite HT.
    destruct (Z.eqb_spec m n) as [->|Hmn]; cbn [andb].
    + assert (Hk' : memz k (rp_act (ft s1)) = true) by (apply memz_In; exact Hk). rewrite Hk'.
      assert (Hh : has_node s1 n = true) by (apply is_node_haskey; exact Hn). rewrite Hh. cbn [andb].
      change (time_of s1 n) with (time_of s n). rewrite Htn. destruct (mask_of cur' t n); [congruence|reflexivity].
    + change (attr s1 m k) with (attr s m k). destruct (Hnp m Hmn Hp) as [Hq Hmv]. rewrite (HM m Hm Hmv). now apply S8.
  - intros Hact u w He Hu Hw. rewrite Hft in Hact.
    assert (Hs2 : seg s2 = Some cur') by (now rewrite G1).
    assert (Ha2 : iou_act (ft s2) = true) by (rewrite G2; exact Hact).
    destruct (iou_update_spec s2 cur' (upd_seg_edges s2 n) Hs2 Ha2) as (U1 & U2 & U3). rewrite <- Hst' in U1, U2, U3.
    assert (He2 : has_edge s2 u w = true) by (rewrite <- U1; exact He).
    assert (He0 : edge s u w) by (unfold edge; rewrite <- He2; apply has_edge_succs; symmetry; exact G3).
    destruct (wd_edge_nodes _ Hd u w He0) as [Nu Nw].
    destruct (in_dec (fun x y : Z * Z => ltac:(decide equality; apply Z.eq_dec)) (u, w) (upd_seg_edges s2 n)) as [Hin|Hnin].
    + rewrite (U2 u w Hin He2). f_equal. apply iou_of_nodes. now symmetry.
    + assert (Hun : u <> n).
      { intros ->. apply Hnin. unfold upd_seg_edges. apply in_app_iff. right. apply in_map_iff. exists w. split; [reflexivity|].
        unfold successors. apply haskey_keys. exact He2. }
      assert (Hwn : w <> n).
      { intros ->. apply Hnin. unfold upd_seg_edges. apply in_app_iff. left. apply in_map_iff. exists u. split; [reflexivity|].
        unfold predecessors. apply filter_In. split; [|exact He2].
        destruct (rp_update_keep s1 n) as [Hid _]. fold s2 in Hid. unfold node_ids in Hid. rewrite Hid. exact Nu. }
      destruct (Hnp u Hun Hu) as [Qu Vu]. destruct (Hnp w Hwn Hw) as [Qw Vw].
      rewrite (U3 u w Hnin). rewrite (edge_attrs_succs s2 s u w G3). rewrite (S9 Hact u w He0 Qu Qw). f_equal.
      symmetry. apply iou_of_ext; auto.
Qed.

(* nothing pending: the two conjuncts *)
Lemma sf_done (Pend : Z -> Prop) s cur : SF Pend s cur -> edges_sane s -> (forall m, is_node s m -> ~ Pend m) ->
  (nv <> 0 -> is_node s nv /\ time_of s nv = t) -> W_seg s /\ W_fresh s.
Proof.
  intros [S1 S2 S3 S4 S5 S6 S7 S8 S9] Hes Hnone Hnv. split.
  - apply (W_seg_iff _ _ S1). split; [|split].
    + intros m Hm. split; [now apply S3|]. apply S4; auto.
    + intros t' i Hf Hl. destruct (Z.eq_dec (label_at cur t' i) nv) as [E|E].
      * assert (Hn0 : nv <> 0) by congruence. destruct (S6 t' i Hf E Hn0) as [-> _]. rewrite E. now apply Hnv.
      * now apply S5.
    + intros m Hm. now apply S3.
  - apply W_fresh_split. split.
    + unfold rp_fresh. rewrite S1. intros m k Hm Hk. apply S8; auto.
    + unfold iou_fresh. rewrite S1. intros Hact u v He. destruct (Hes u v He) as [Nu Nv]. apply S9; auto.
Qed.

Lemma sf_weaken (Pend Pend' : Z -> Prop) s cur : SF Pend s cur -> edges_sane s ->
  (forall m, is_node s m -> Pend m -> Pend' m) -> (forall m, Pend' m -> Pend m) -> SF Pend' s cur.
Proof.
  intros [S1 S2 S3 S4 S5 S6 S7 S8 S9] Hes Ha Hb. constructor.
  - exact S1.
  - exact S2.
  - exact S3.
  - intros m Hm Hp. apply S4; auto.
  - exact S5.
  - exact S6.
  - intros m Hp Hm. apply S7; auto.
  - intros m k Hm Hp Hk. apply S8; auto.
  - intros Hact u v He Hu Hv. destruct (Hes u v He) as [Nu Nv]. apply S9; auto.
Qed.

(* zeroing pixels keeps "background or the new label" *)
Lemma only_touches_paint0 cur idx X : 0 <= t -> only_touches cur t X nv -> only_touches (paint_arr cur t idx 0) t X nv.
Proof.
  intros Ht0 H i Hi Hin. destruct (paint_same_shape cur t idx 0) as [_ Sh]. rewrite Sh in Hi.
  rewrite label_at_paint by assumption.
  destruct ((t =? t) && memz (Z.of_nat i) idx && (i <? length (frame_of cur t))%nat); [now left|now apply H].
Qed.

Lemma only_touches_shape (cur cur' : list (list Z)) X : same_shape cur' cur ->
  (forall i, label_at cur' t i = label_at cur t i \/ label_at cur' t i = 0) ->
  only_touches cur t X nv -> only_touches cur' t X nv.
Proof.
  intros [_ Sh] Hl H i Hi Hin. rewrite Sh in Hi. destruct (Hl i) as [E|E]; [rewrite E; now apply H|now left].
Qed.

(* ================================================================== *)
(* 4. the loop over the overwritten labels                              *)
(* ================================================================== *)
Definition PendOf (gs : list (pixels * Z)) (m : Z) : Prop := m = nv \/ In m (map snd gs).

(* what is known of a group still to be processed *)
Definition grp_ok (s : state) (cur : list (list Z)) (g : pixels * Z) : Prop :=
  fst (fst g) = t /\ only_touches cur t (snd (fst g)) nv /\ snd g <> nv /\ (snd g <> 0 -> is_node s (snd g)).

Lemma udn_core_ft st n pxo a s' : user_delete_node_core st n pxo = Ok a s' -> ft s' = ft st.
Proof. intros H. destruct (EditFrame.aux_user_delete_node_core st n pxo) as (_ & _ & _ & _ & Ef). now rewrite H in Ef. Qed.

Lemma udn_nested_ok s n pxo a s1 : user_delete_node_core s n pxo = Ok a s1 -> user_delete_node s n pxo false = Ok a s1.
Proof. intros H. unfold user_delete_node. now rewrite H. Qed.

Lemma GWF_edges_sane s : GWF s -> edges_sane s.
Proof. intros W. apply W_dict_edges_sane, W. Qed.

Lemma do_upd_seg_total s cur n tm idx added : seg s = Some cur -> frame_ok cur tm = true -> is_node s n ->
  exists b s', do_upd_seg s n (tm, idx) added = Ok b s'.
Proof.
  intros Hs Hf Hn. unfold do_upd_seg. rewrite (set_pixels_some s cur (tm, idx) _ Hs Hf). cbn [bind].
  apply is_node_haskey in Hn. change (has_node (upd_seg s _) n) with (has_node s n). rewrite Hn. cbn [negb andb]. eauto.
Qed.

(* the loop never fails from a mid-stroke state, and leaves only the new label pending *)
Lemma uus_groups_total : forall gs s acc cur,
  GWF s -> rp_disjoint s -> SF (PendOf gs) s cur -> NoDup (map snd gs) -> (forall g, In g gs -> grp_ok s cur g) ->
  exists acts s' cur', uus_groups gs s acc = Ok acts s' /\
    GWF s' /\ rp_disjoint s' /\ SF (PendOf []) s' cur' /\ same_shape cur' cur /\
    (forall X, only_touches cur t X nv -> only_touches cur' t X nv) /\
    (forall m, is_node s' m -> is_node s m) /\ (is_node s nv -> is_node s' nv) /\
    ((forall g, In g gs -> snd g = 0) -> acts = acc /\ s' = s).
Proof.
  induction gs as [|[px old] r IH]; intros s acc cur W Hrp Hsf Hnd Hg.
  - cbn [uus_groups]. exists acc, s, cur. split; [reflexivity|]. split; [exact W|]. split; [exact Hrp|]. split; [exact Hsf|].
    split; [apply same_shape_refl|]. auto.
  - cbn [map snd] in Hnd. inversion Hnd as [|? ? Hni Hnd']; subst.
    destruct (Hg (px, old) (or_introl eq_refl)) as (G1 & G2 & G3 & G4). cbn [fst snd] in G1, G2, G3, G4.
    assert (Hgr : forall g, In g r -> grp_ok s cur g) by (intros g Hin; apply Hg; now right).
    pose proof (sf_fok _ _ _ Hsf) as Hfok. pose proof (frame_ok_nonneg _ _ Hfok) as Ht0.
    cbn [uus_groups]. destruct (Z.eqb_spec old 0) as [->|Hold].
    { (* background pixels: nothing to do *)
      destruct (IH s acc cur W Hrp) as (acts & s' & cur' & H & A1 & A2 & A3 & A4 & A5 & A6 & A7 & A8); [|exact Hnd'|exact Hgr|].
      - apply (sf_weaken (PendOf ((px, 0) :: r))); [exact Hsf|now apply GWF_edges_sane| |].
        + intros m Hm [E|[E|E]]; [now left| |right; exact E]. cbn [snd] in E. subst m. destruct (sf_sane _ _ _ Hsf 0 Hm) as [C _]. now contradiction C.
        + intros m [E|E]; [now left|right; now right].
      - exists acts, s', cur'. split; [exact H|]. repeat (split; [assumption|]). intros Hz. apply A8. intros g Hin. apply Hz. now right. }
    specialize (G4 Hold). rewrite (sf_seg _ _ _ Hsf). destruct px as [tp idx]. cbn [fst snd] in *. subst tp.
    assert (Pnv : PendOf ((t, idx, old) :: r) nv) by (now left).
    assert (Pold : PendOf ((t, idx, old) :: r) old) by (right; now left).
    assert (Pa : forall m, PendOf r m -> PendOf ((t, idx, old) :: r) m) by (intros m [E|E]; [now left|right; now right]).
    assert (Pb : forall m, PendOf ((t, idx, old) :: r) m -> m = old \/ PendOf r m).
    { intros m [E|[E|E]]; [right; now left|left; now symmetry|right; now right]. }
    assert (Hnz : ~ (forall g, In g ((t, idx, old) :: r) -> snd g = 0)) by (intros C; apply Hold; apply (C (t, idx, old)); now left).
    destruct (mask_of cur t old) as [|p0 rest] eqn:Erem.
    + (* all pixels lost: nested UserDeleteNode *)
      destruct (proj2 (proj2 (EditUDN.udn_core_spec s old (Some (t, idx)) (EditUDN.gw_dict _ W) (EditUDN.gw_forest _ W) (EditUDN.gw_trk _ W) (EditUDN.gw_book _ W))) G4)
        as (a & s1 & H1 & _).
      { cbn [EditNodeBasic.del_px EditNodeBasic.px_ok fst]. exists cur. split; [exact (sf_seg _ _ _ Hsf)|exact Hfok]. }
      erewrite udn_nested_ok; [|exact H1]. cbn [bind].
      pose proof (EditUDN.udn_core_GWF s old _ a s1 W H1) as W1.
      destruct (EditUDN.udn_core_ok_unfold s old _ a s1 H1) as (_ & Nold & acts4 & s4 & b & H4 & H5).
      pose proof (qstep_ok _ _ _ _ (qstep_udn_prefix s old) H4) as Q4.
      destruct (EditUDN.udn_prefix_spec s old (EditUDN.gw_dict _ W) (EditUDN.gw_forest _ W) (EditUDN.gw_trk _ W) (EditUDN.gw_book _ W) Nold)
        as (acts4' & s4' & H4' & Hd4 & _). rewrite H4 in H4'. injection H4' as _ <-.
      pose proof (sf_qstep _ _ _ _ Hsf Hrp Q4) as Hsf4.
      pose proof (sf_del_node _ (PendOf r) s4 cur old idx b s1 Hsf4 (W_dict_edges_sane _ Hd4) Pnv G3 Pold Pa Pb G2 Erem H5) as Hsf1.
      pose proof (udn_core_ft _ _ _ _ _ H1) as Hft1.
      assert (HN1 : forall m, is_node s1 m <-> m <> old /\ is_node s m).
      { intros m. destruct (del_node_effect _ _ _ _ _ H5) as (_ & _ & HN & _). rewrite HN.
        destruct Q4 as (_ & _ & N4 & _). now rewrite (nodes_keep_is_node _ _ _ m N4). }
      destruct (IH s1 (acc ++ [a]) (paint_arr cur t idx 0) W1 (rp_disjoint_ft _ _ Hft1 Hrp) Hsf1 Hnd') as (acts & s' & cur' & H & A1 & A2 & A3 & A4 & A5 & A6 & A7 & _).
      { intros g Hin. destruct (Hgr g Hin) as (B1 & B2 & B3 & B4). split; [exact B1|]. split; [now apply only_touches_paint0|]. split; [exact B3|].
        intros Hg0. apply HN1. split; [|now apply B4]. intros E. apply Hni. rewrite <- E. now apply in_map. }
      exists acts, s', cur'. split; [exact H|]. split; [exact A1|]. split; [exact A2|]. split; [exact A3|].
      split; [eapply same_shape_trans; [exact A4|apply paint_same_shape]|].
      split; [intros X HX; apply A5; now apply only_touches_paint0|].
      split; [intros m Hm; apply A6 in Hm; now apply HN1 in Hm|].
      split; [|intros C; now contradiction Hnz].
      intros Hnv. apply A7. apply HN1. split; [congruence|exact Hnv].
    + (* some pixels left: UpdateNodeSeg (shrink) *)
      destruct (do_upd_seg_total s cur old t idx false (sf_seg _ _ _ Hsf) Hfok G4) as (b & s1 & H1). rewrite H1. cbn [bind].
      pose proof (upd_seg_GWF _ _ _ _ _ _ W Hrp H1) as W1.
      assert (Hne : mask_of (paint_arr cur t idx 0) t old <> []).
      { rewrite (stroke_mask_other cur idx 0 old t Hfok Ht0 G2 (or_introl eq_refl) Hold G3), Erem. discriminate. }
      pose proof (sf_upd_seg _ (PendOf r) s cur old idx false b s1 Hsf (EditUDN.gw_dict _ W) Hrp G4 Pold Pa Pb
                    (or_intror (or_introl eq_refl)) ltac:(discriminate) G2 Hne H1) as Hsf1.
      destruct (upd_seg_effect _ _ _ _ _ _ _ _ H1 (sf_seg _ _ _ Hsf)) as (_ & _ & Hft1 & Hk1).
      destruct (IH s1 (acc ++ [ABasic b]) (paint_arr cur t idx 0) W1 (rp_disjoint_ft _ _ Hft1 Hrp) Hsf1 Hnd') as (acts & s' & cur' & H & A1 & A2 & A3 & A4 & A5 & A6 & A7 & _).
      { intros g Hin. destruct (Hgr g Hin) as (B1 & B2 & B3 & B4). split; [exact B1|]. split; [now apply only_touches_paint0|]. split; [exact B3|].
        intros Hg0. apply (nodes_keep_is_node _ _ _ _ Hk1). now apply B4. }
      exists acts, s', cur'. split; [exact H|]. split; [exact A1|]. split; [exact A2|]. split; [exact A3|].
      split; [eapply same_shape_trans; [exact A4|apply paint_same_shape]|].
      split; [intros X HX; apply A5; now apply only_touches_paint0|].
      split; [intros m Hm; apply A6 in Hm; now apply (nodes_keep_is_node _ _ _ _ Hk1) in Hm|].
      split; [|intros C; now contradiction Hnz].
      intros Hnv. apply A7. now apply (nodes_keep_is_node _ _ _ _ Hk1).
Qed.

Lemma uus_groups_sf gs s acc acts s' cur :
  GWF s -> rp_disjoint s -> SF (PendOf gs) s cur -> NoDup (map snd gs) -> (forall g, In g gs -> grp_ok s cur g) ->
  uus_groups gs s acc = Ok acts s' ->
  exists cur', GWF s' /\ rp_disjoint s' /\ SF (PendOf []) s' cur' /\ same_shape cur' cur /\
    (forall X, only_touches cur t X nv -> only_touches cur' t X nv) /\
    (forall m, is_node s' m -> is_node s m) /\ (is_node s nv -> is_node s' nv).
Proof.
  intros W Hrp Hsf Hnd Hg H.
  destruct (uus_groups_total gs s acc cur W Hrp Hsf Hnd Hg) as (acts0 & s0 & cur' & H0 & A1 & A2 & A3 & A4 & A5 & A6 & A7 & _).
  rewrite H in H0. injection H0 as <- <-. exists cur'. auto 10.
Qed.

(* ================================================================== *)
(* 5. the last step: grow the existing label, or create the node        *)
(* ================================================================== *)
Lemma GWF_WF s : GWF s -> W_seg s -> W_fresh s -> WF s.
Proof. intros [C D F T L B] S Rr. constructor; assumption. Qed.

Lemma hits_mask cur idx v : 0 <= t -> hits cur t idx -> mask_of (paint_arr cur t idx v) t v <> [].
Proof.
  intros Ht0 (i & Hi & Hin). apply mask_nonempty. exists i. destruct (paint_same_shape cur t idx v) as [_ Sh].
  split; [now rewrite Sh|]. rewrite label_at_paint by assumption. apply memz_In in Hin. apply Nat.ltb_lt in Hi.
  now rewrite Z.eqb_refl, Hin, Hi.
Qed.

Lemma stroke_grow_WF s cur b s' : GWF s -> rp_disjoint s -> SF (PendOf []) s cur -> is_node s nv -> nv <> 0 ->
  only_touches cur t R nv -> hits cur t R -> do_upd_seg s nv (t, R) true = Ok b s' -> WF s'.
Proof.
  intros W Hrp Hsf Nnv Hnv0 Htouch Hhit H.
  pose proof (frame_ok_nonneg _ _ (sf_fok _ _ _ Hsf)) as Ht0.
  assert (Pnv : PendOf [] nv) by (now left).
  pose proof (upd_seg_GWF _ _ _ _ _ _ W Hrp H) as W'.
  pose proof (sf_upd_seg (PendOf []) (fun _ => False) s cur nv R true b s' Hsf (EditUDN.gw_dict _ W) Hrp Nnv Pnv) as K.
  assert (Hsf' : SF (fun _ => False) s' (paint_arr cur t R nv)).
  { apply K.
    - intros m [].
    - intros m [E|[]]. now left.
    - now left.
    - reflexivity.
    - exact Htouch.
    - now apply hits_mask.
    - exact H. }
  destruct (upd_seg_effect _ _ _ _ _ _ _ _ H (sf_seg _ _ _ Hsf)) as (_ & _ & _ & Hk).
  destruct (sf_done _ _ _ Hsf' (GWF_edges_sane _ W')) as [S' R'].
  - intros m _ C. exact C.
  - intros _. split; [now apply (nodes_keep_is_node _ _ _ _ Hk)|].
    rewrite (nodes_keep_time _ _ _ nv (rp_disjoint_time _ Hrp) Hk). now apply (sf_pend_t _ _ _ Hsf).
  - now apply GWF_WF.
Qed.

Lemma pre_write_keep (K : Z -> Prop) st st' sg tm ix ex : nodes_keep K st st' -> ~ K KTime ->
  pre_write st sg tm ix ex -> pre_write st' sg tm ix ex.
Proof.
  intros N Hk (P1 & P2 & P3).
  assert (HN : forall m, is_node st' m <-> is_node st m) by (intros m; apply (nodes_keep_is_node _ _ _ m N)).
  assert (HT : forall m, time_of st' m = time_of st m) by (intros m; apply (nodes_keep_time _ _ _ m Hk N)).
  split; [|split].
  - intros m Hm. apply HN in Hm. rewrite HT. now apply P1.
  - intros m Hm He. apply HN in Hm. rewrite HT. now apply P2.
  - intros t' i Hf Hl Hno. destruct (P3 t' i Hf Hl Hno) as [A B]. split; [now apply HN|now rewrite HT].
Qed.

(* UserAddNode in the middle of a stroke: the state need not satisfy W_seg, only what AddNode needs
   of the pixels it does not write (pre_write); the pixels carry background or the new label already *)
Lemma uan_core_seg_fresh_gen st n a tm ix force act st' sg :
  GWF st -> rp_disjoint st -> EditUAN.attrs_ok a -> seg st = Some sg -> EditUAN.uan_time a = tm -> n <> 0 ->
  hits sg tm ix -> pre_write st sg tm ix (fun _ => False) -> only_touches sg tm ix n -> W_fresh st ->
  user_add_node_core st n a (Some (tm, ix)) force = Ok act st' -> W_seg st' /\ W_fresh st'.
Proof.
  intros [C Hd Hf Ht Hl Wb] Hrp Ao Hs Htm Hn0 Hhit PW Htouch Rr H.
  pose proof (proj1 (EditUAN.uan_core_ok_iff st n a _ force Hd Hf Ht Wb Hrp Ao) (ex_intro _ act (ex_intro _ st' H))) as Rf.
  destruct (EditUAN.uan_after_cuts st n a _ force Hd Hf Ht Wb Rf)
    as (acts & s2 & Hcut & Hc & Hd2 & Hf2 & G & Hn2 & _ & HP & HS & _ & _ & _ & Hkt & Hkk & _). cbv zeta in *.
  rewrite Htm in *.
  set (pred := EditUAN.uan_pred st a) in *. set (succ := EditUAN.uan_succ st a) in *.
  destruct (EditUAN.uan_attrs_facts st a Ao Hkt Hkk) as (A0 & _ & And & Alin & _ & _).
  destruct (EditUAN.uan_lin_attrs_facts s2 (EditUAN.uan_attrs st a) pred succ Hd2 And) as (L & _ & Lnd & Loth & _).
  { rewrite Alin. apply (EditUAN.ao_lin _ Ao). }
  { intros p Hp. apply (HP p Hp). }
  { intros c Hc'. apply (HS c Hc'). }
  cbv zeta in *. set (a2 := EditUAN.uan_lin_attrs s2 (EditUAN.uan_attrs st a) pred succ) in *.
  assert (B0 : lookup KTime a2 = Some (VZ tm)).
  { rewrite Loth; [rewrite <- Htm; exact A0|]. unfold KTime, KLin. lia. }
  assert (E1 : estep st (EditUAN.uan_sorted st a)) by apply estep_track_neighbors.
  pose proof (estep_ok _ _ _ _ (estep_uan_cut _ _ _) Hcut) as E2.
  rewrite Hc in H. unfold EditUAN.uan_splice in H.
  ok_step H r1 s3 H1. ok_step H b s4 H2. ok_step H r3 s5 H3. ok_step H r4 s6 H4. injection H as _ <-.
  pose proof (estep_ok _ _ _ _ (estep_uan_skip _ _ _ _) H1) as E3.
  pose proof (estep_trans _ _ _ (estep_trans _ _ _ E1 E2) E3) as E03.
  assert (PW3 : pre_write s3 sg tm ix (fun _ => False)).
  { destruct E03 as (_ & _ & N & _). exact (pre_write_keep _ _ _ _ _ _ _ N KTime_not_trk PW). }
  assert (R3 : W_fresh s3) by (apply (estep_W_fresh st s3 E03 Hd); exact Rr).
  assert (Hs3 : seg s3 = Some sg) by (now rewrite (estep_seg _ _ E03)).
  assert (Hrp3 : rp_disjoint s3) by (apply (rp_disjoint_ft st); [apply (estep_ft _ _ E03)|exact Hrp]).
  assert (Hn3 : ~ is_node s3 n) by (rewrite (estep_is_node _ _ n E3); exact Hn2).
  assert (Hd3 : W_dict s3) by (eapply uan_skip_W_dict; eauto).
  assert (S4 : W_seg s4).
  { apply (W_seg_add_node_gen s3 n a2 tm ix b s4 sg H2 Hs3 Hn3 Hn0 Lnd B0 (rp_disjoint_time _ Hrp3) Hhit PW3). }
  assert (R4 : W_fresh s4).
  { apply W_fresh_split in R3. destruct R3 as [Rr3 Ri3]. apply W_fresh_split.
    destruct (fresh_add_node s3 n a2 tm ix b s4 sg H2 Hs3 Hn3 Hn0 Lnd B0 (rp_disjoint_time _ Hrp3) Hhit) as [P1 P2].
    - exact (proj1 PW3).
    - exact Htouch.
    - split; [now apply P1|apply P2; [now apply W_dict_edges_sane|exact Ri3]]. }
  assert (Hrp4 : rp_disjoint s4) by (apply (rp_disjoint_ft s3); [eapply add_node_ft; eauto|exact Hrp3]).
  pose proof (estep_ok _ _ _ _ (estep_uan_link_pred _ _ _ _ _) H3) as E5.
  pose proof (estep_ok _ _ _ _ (estep_uan_link_succ _ _ _ _) H4) as E6.
  pose proof (estep_trans _ _ _ E5 E6) as E46.
  split; [apply (estep_W_seg s4 s6 E46 S4)|apply (estep_W_fresh_rpd s4 s6 E46 Hrp4 R4)].
Qed.

Lemma sf_fresh (Pend : Z -> Prop) s cur : SF Pend s cur -> edges_sane s -> (forall m, is_node s m -> ~ Pend m) -> W_fresh s.
Proof.
  intros [S1 S2 S3 S4 S5 S6 S7 S8 S9] Hes Hnone. apply W_fresh_split. split.
  - unfold rp_fresh. rewrite S1. intros m k Hm Hk. apply S8; auto.
  - unfold iou_fresh. rewrite S1. intros Hact u v He. destruct (Hes u v He) as [Nu Nv]. apply S9; auto.
Qed.

Definition stroke_attrs (T : Z) : attrs := [(KTime, VZ t); (KTrack, VZ T)].

Lemma stroke_attrs_ok T : EditUAN.attrs_ok (stroke_attrs T) /\ haskey KLin (stroke_attrs T) = false /\ EditUAN.uan_time (stroke_attrs T) = t.
Proof.
  split; [|split; reflexivity]. constructor.
  - cbn. repeat constructor; cbn; intuition discriminate.
  - intros v H. cbn in H. injection H as <-. eauto.
  - intros v H. cbn in H. injection H as <-. eauto.
  - intros v H. cbn in H. discriminate H.
Qed.

Lemma stroke_new_WF s cur T force x s' : GWF s -> rp_disjoint s -> SF (PendOf []) s cur -> ~ is_node s nv -> nv <> 0 ->
  only_touches cur t R nv -> hits cur t R ->
  user_add_node s nv (stroke_attrs T) (Some (t, R)) force false = Ok x s' -> WF s'.
Proof.
  intros W Hrp Hsf Nnv Hnv0 Htouch Hhit H. unfold user_add_node in H. apply top_wrap_false_ok in H.
  destruct (stroke_attrs_ok T) as (Ao & Hnl & Htm). pose proof W as [C D F Tk L B].
  destruct (EditUAN.uan_core_keeps_ids s nv _ _ force x s' (EditLin.Build_LWF s C D F L B) Tk Hrp Ao Hnl H) as [[C' D' F' L' B'] T'].
  assert (Hnone : forall m, is_node s m -> ~ PendOf [] m) by (intros m Hm [E|[]]; subst m; contradiction).
  pose proof (sf_fresh _ _ _ Hsf (GWF_edges_sane _ W) Hnone) as Rr.
  assert (PW : pre_write s cur t R (fun _ => False)).
  { split; [exact (sf_sane _ _ _ Hsf)|split].
    - intros m Hm _. pose proof (sf_mask _ _ _ Hsf m Hm (Hnone m Hm)) as Hne. apply mask_nonempty in Hne. destruct Hne as (i & Hi & Hl).
      exists i. split; [exact Hi|split; [exact Hl|]]. intros [Et Hin]. rewrite Et in Hi, Hl.
      destruct (Htouch i Hi Hin) as [E|E]; rewrite Hl in E; [destruct (sf_sane _ _ _ Hsf m Hm) as [C0 _]; now apply C0|apply Nnv; now rewrite <- E].
    - intros t' i Hf Hl Hno. destruct (Z.eq_dec (label_at cur t' i) nv) as [E|E]; [|now apply (sf_lab _ _ _ Hsf)].
      exfalso. destruct (sf_nvlab _ _ _ Hsf t' i Hf E Hnv0) as [Et [Hn|Hin]]; [contradiction|]. apply Hno. now split. }
  destruct (uan_core_seg_fresh_gen s nv _ t R force x s' cur W Hrp Ao (sf_seg _ _ _ Hsf) Htm Hnv0 Hhit PW Htouch Rr H) as [S' R'].
  constructor; assumption.
Qed.

(* ================================================================== *)
(* 6. UserUpdateSegmentation from a mid-stroke state                    *)
(* ================================================================== *)
Lemma hits_shape (cur cur' : list (list Z)) X : same_shape cur' cur -> hits cur t X -> hits cur' t X.
Proof. intros [_ Sh] (i & Hi & Hin). exists i. split; [now rewrite Sh|exact Hin]. Qed.

Lemma uus_core_WF s0 cur groups T force a pl s1 :
  GWF s0 -> rp_disjoint s0 -> SF (PendOf groups) s0 cur -> NoDup (map snd groups) ->
  (forall g, In g groups -> grp_ok s0 cur g) -> groups <> [] -> R = all_pixels groups ->
  only_touches cur t R nv -> hits cur t R ->
  user_update_seg_core s0 nv groups T force = Ok (a, pl) s1 -> WF s1.
Proof.
  intros W Hrp Hsf Hnd Hg Hne ER Htouch Hhit H. unfold user_update_seg_core in H. rewrite (sf_seg _ _ _ Hsf) in H.
  destruct (negb (nv =? 0) && _ && has_node s0 nv && _); [discriminate|].
  ok_step H acts s H1.
  destruct (uus_groups_sf groups s0 [] acts s cur W Hrp Hsf Hnd Hg H1) as (cur' & W' & Hrp' & Hsf' & Sh & Ht' & Hsub & Hnvs).
  destruct groups as [|[px0 old0] gr]; [now contradiction Hne|].
  assert (Ht0 : fst px0 = t) by (destruct (Hg (px0, old0) (or_introl eq_refl)) as (G1 & _); exact G1).
  destruct (Z.eqb_spec nv 0) as [Hnv0|Hnv0].
  - assert (Es : s1 = s) by congruence. subst s1.
    destruct (sf_done _ _ _ Hsf' (GWF_edges_sane _ W')) as [S' R'].
    + intros m Hm [E|[]]. subst m. rewrite Hnv0 in Hm. now destruct (sf_sane _ _ _ Hsf' 0 Hm).
    + intros C. contradiction.
    + now apply GWF_WF.
  - cbv zeta in H. rewrite Ht0 in H. fold (all_pixels ((px0, old0) :: gr)) in H. rewrite <- ER in H.
    pose proof (Ht' R Htouch) as Htouch'. pose proof (hits_shape _ _ _ Sh Hhit) as Hhit'.
    destruct (has_node s nv) eqn:Hh.
    + ok_step H b s2 H2. assert (Es : s1 = s2) by congruence. subst s1. apply is_node_haskey in Hh.
      exact (stroke_grow_WF s cur' b s2 W' Hrp' Hsf' Hh Hnv0 Htouch' Hhit' H2).
    + assert (Nnv : ~ is_node s nv) by (intros C; apply is_node_haskey in C; congruence).
      match type of H with context [user_add_node ?x1 ?x2 ?x3 ?x4 ?x5 ?x6] =>
        destruct (user_add_node x1 x2 x3 x4 x5 x6) as [x s2|e s2] eqn:H2 end.
      * assert (Es : s1 = s2) by congruence. subst s1. exact (stroke_new_WF s cur' T force x s2 W' Hrp' Hsf' Nnv Hnv0 Htouch' Hhit' H2).
      * destruct e; try discriminate H. destruct (rollback _ s2); discriminate H.
Qed.

(* C11 for UserUpdateSegmentation, except for the rolled-back refusal: when the stroke is forced, or erases,
   or grows an existing label, or covers background only, every error leaves the state it was given
   (up to the order inside one lookup entry) *)
Lemma uus_core_err s0 cur groups T force e s :
  GWF s0 -> rp_disjoint s0 -> SF (PendOf groups) s0 cur -> NoDup (map snd groups) ->
  (forall g, In g groups -> grp_ok s0 cur g) ->
  (force = true \/ nv = 0 \/ is_node s0 nv \/ (forall g, In g groups -> snd g = 0)) ->
  user_update_seg_core s0 nv groups T force = Err e s -> EditUAN.untouched s0 s.
Proof.
  intros W Hrp Hsf Hnd Hg Hcase H. unfold user_update_seg_core in H. rewrite (sf_seg _ _ _ Hsf) in H.
  destruct (negb (nv =? 0) && _ && has_node s0 nv && _); [injection H as _ <-; apply EditUAN.untouched_refl|].
  destruct (uus_groups_total groups s0 [] cur W Hrp Hsf Hnd Hg) as (acts & s1 & cur' & H1 & W' & Hrp' & Hsf' & Sh & _ & _ & Hnvs & Hz).
  rewrite H1 in H. cbn [bind] in H.
  destruct groups as [|[px0 old0] gr]; [discriminate H|].
  assert (Ht0 : fst px0 = t) by (destruct (Hg (px0, old0) (or_introl eq_refl)) as (G1 & _); exact G1).
  destruct (Z.eqb_spec nv 0) as [Hnv0|Hnv0]; [discriminate H|].
  cbv zeta in H. rewrite Ht0 in H.
  assert (Hfok' : frame_ok cur' t = true) by (rewrite (frame_ok_shape _ _ _ Sh); exact (sf_fok _ _ _ Hsf)).
  destruct (has_node s1 nv) eqn:Hh.
  - exfalso. apply is_node_haskey in Hh.
    match type of H with context [do_upd_seg ?x1 ?x2 ?x3 ?x4] => destruct (do_upd_seg x1 x2 x3 x4) as [b s2|e2 s2] eqn:H2 end; [discriminate H|].
    destruct (do_upd_seg_total s1 cur' nv t (flat_map (fun g : pixels * Z => snd (fst g)) ((px0, old0) :: gr)) true (sf_seg _ _ _ Hsf') Hfok' Hh) as (b & s3 & E).
    pose proof (eq_trans (eq_sym E) H2) as C. discriminate C.
  - match type of H with context [user_add_node ?x1 ?x2 ?x3 ?x4 ?x5 ?x6] =>
      destruct (user_add_node x1 x2 x3 x4 x5 x6) as [x s2|e2 s2] eqn:H2 end; [discriminate H|].
    destruct (stroke_attrs_ok T) as (Ao & _ & _).
    destruct (EditUAN.user_add_node_error_cases s1 nv (stroke_attrs T) _ force false e2 s2
                (EditUDN.gw_dict _ W') (EditUDN.gw_forest _ W') (EditUDN.gw_trk _ W') (EditUDN.gw_book _ W') Hrp' Ao H2) as (Rf & U & _).
    destruct Hcase as [Hforce|[C|[C|Hzero]]].
    + exfalso. subst force. unfold EditUAN.uan_refused in Rf.
      change (haskey KTime (stroke_attrs T)) with true in Rf. change (haskey KTrack (stroke_attrs T)) with true in Rf.
      rewrite Hh in Rf. cbn [negb] in Rf. rewrite andb_false_r in Rf.
      unfold EditUAN.uan_no_pos, px_check in Rf. rewrite (sf_seg _ _ _ Hsf') in Rf. cbn [fst] in Rf. rewrite Hfok' in Rf. discriminate Rf.
    + contradiction.
    + exfalso. apply Hnvs in C. apply is_node_haskey in C. congruence.
    + destruct (Hz Hzero) as [-> ->]. cbn [rev rollback] in H.
      destruct e2; injection H as _ <-; exact U.
Qed.

(* ================================================================== *)
(* 7. the state UserUpdateSegmentation starts from: the caller has painted *)
(* ================================================================== *)
Lemma insert_sorted_lt x l : StronglySorted Z.lt l -> StronglySorted Z.lt (insert_sorted x l).
Proof.
  induction l as [|y r IH]; intros Hs; cbn [insert_sorted]; [repeat constructor|].
  inversion Hs as [|? ? Hr Hall]; subst.
  destruct (Z.ltb_spec x y) as [Hxy|Hxy].
  - constructor; [exact Hs|]. constructor; [exact Hxy|]. rewrite Forall_forall in *. intros z Hz. specialize (Hall z Hz). lia.
  - destruct (Z.eqb_spec x y) as [->|Hne]; [exact Hs|]. constructor; [now apply IH|].
    rewrite Forall_forall in *. intros z Hz. apply insert_sorted_In in Hz. destruct Hz as [->|Hz]; [lia|now apply Hall].
Qed.

Lemma paint_groups_labels_nodup sg idx : NoDup (map snd (paint_groups sg t idx nv)).
Proof.
  unfold paint_groups. rewrite map_map. cbn [snd]. rewrite map_id. apply sorted_lt_NoDup.
  generalize (filter (fun p : Z * Z => negb (snd p =? nv)) (olds_of 0 (frame_of sg t) idx)). intros io.
  assert (G : forall acc, StronglySorted Z.lt acc -> StronglySorted Z.lt (fold_left (fun acc p => insert_sorted (snd p) acc) io acc)).
  { induction io as [|q r IH]; intros acc Ha; cbn [fold_left]; [exact Ha|]. apply IH. now apply insert_sorted_lt. }
  apply G. constructor.
Qed.

(* a write that overwrites no pixel of label m and does not write m leaves the mask of m alone *)
Lemma mask_paint_untouched sg idx v m tm : 0 <= t -> 0 <= tm ->
  (forall i, (i < length (frame_of sg t))%nat -> In (Z.of_nat i) idx -> label_at sg t i <> m) -> m <> v ->
  mask_of (paint_arr sg t idx v) tm m = mask_of sg tm m.
Proof.
  intros Ht0 Htm Hno Hmv. destruct (paint_same_shape sg t idx v) as [_ Sh]. apply mask_of_ext; [apply Sh|].
  intros i Hi. rewrite label_at_paint by assumption.
  destruct ((tm =? t) && memz (Z.of_nat i) idx && (i <? length (frame_of sg t))%nat) eqn:Ec; [|tauto].
  apply andb_true_iff in Ec. destruct Ec as [Ec E3]. apply andb_true_iff in Ec. destruct Ec as [E1 E2].
  apply Z.eqb_eq in E1. subst tm. apply memz_In in E2. apply Nat.ltb_lt in E3.
  split; intros E; [congruence|]. exfalso. now apply (Hno i E3 E2).
Qed.

Lemma paint_init st sg idx : WF st -> seg st = Some sg -> frame_ok sg t = true ->
  R = all_pixels (paint_groups sg t idx nv) -> (is_node st nv -> time_of st nv = t) ->
  let groups := paint_groups sg t idx nv in
  let painted := paint_arr sg t R nv in
  let s0 := upd_seg st (Some painted) in
  GWF s0 /\ SF (PendOf groups) s0 painted /\ (forall g, In g groups -> grp_ok s0 painted g) /\
  only_touches painted t R nv /\ (groups <> [] -> hits painted t R).
Proof.
  intros W Hs Hfok ER Hnvt groups painted s0.
  pose proof (frame_ok_nonneg _ _ Hfok) as Ht0.
  assert (Sh : same_shape painted sg) by apply paint_same_shape.
  pose proof (w_seg _ W) as WS. apply (W_seg_iff _ _ Hs) in WS. destruct WS as (I1 & I2 & I3).
  pose proof (w_fresh _ W) as WR. apply W_fresh_split in WR. destruct WR as [Rrp Riou].
  unfold rp_fresh in Rrp. rewrite Hs in Rrp. unfold iou_fresh in Riou. rewrite Hs in Riou.
  assert (RIn : forall i, In (Z.of_nat i) R <-> (i < length (frame_of sg t))%nat /\ In (Z.of_nat i) idx /\ label_at sg t i <> nv).
  { intros i. rewrite ER. apply changed_In. }
  assert (LabP : forall t' i, 0 <= t' -> label_at painted t' i =
             if (t' =? t) && memz (Z.of_nat i) R && (i <? length (frame_of sg t))%nat then nv else label_at sg t' i).
  { intros t' i Ht'. unfold painted. now apply label_at_paint. }
  assert (LabR : forall i, (i < length (frame_of sg t))%nat -> In (Z.of_nat i) R -> label_at painted t i = nv).
  { intros i Hi Hin. rewrite LabP by exact Ht0. apply memz_In in Hin. apply Nat.ltb_lt in Hi. now rewrite Z.eqb_refl, Hin, Hi. }
  (* every painted pixel carried the label of a group *)
  assert (Rlab : forall i, In (Z.of_nat i) R -> In (label_at sg t i) (map snd groups)).
  { intros i Hin. apply RIn in Hin. destruct Hin as (Hi & Hin & Hne).
    destruct (paint_groups_cover sg t idx nv (Z.of_nat i) (label_at sg t i)) as (g & Hg & Eg & _); [apply io_of_In; exists i; auto|].
    rewrite <- Eg. now apply in_map. }
  assert (Glab : forall g, In g groups -> exists i, (i < length (frame_of sg t))%nat /\ label_at sg t i = snd g /\ snd g <> nv /\
                    In (Z.of_nat i) (snd (fst g))).
  { intros g Hg. destruct (paint_groups_In _ _ _ _ _ Hg) as (_ & (p & Hp) & Hpx). pose proof Hp as Hp'. apply io_of_In in Hp.
    destruct Hp as (i & -> & Hi & _ & El & Hne). exists i. split; [exact Hi|]. split; [exact El|]. split; [exact Hne|]. now apply Hpx. }
  assert (Gpix : forall g p, In g groups -> In p (snd (fst g)) -> In p R).
  { intros g p Hg Hp. rewrite ER. unfold all_pixels. apply in_flat_map. exists g. auto. }
  assert (HM : forall m tm, 0 <= tm -> m <> nv -> ~ In m (map snd groups) -> mask_of painted tm m = mask_of sg tm m).
  { intros m tm Htm Hmv Hnl. apply mask_paint_untouched; auto. intros i Hi Hin E. apply Hnl. rewrite <- E. now apply Rlab. }
  assert (Hnp : forall m, ~ PendOf groups m -> m <> nv /\ ~ In m (map snd groups)).
  { intros m Hp. split; intros C; apply Hp; [now left|now right]. }
  split; [|split; [|split; [|split]]].
  - apply (EditUDN.GWF_same st s0); try reflexivity. now apply EditUDN.WF_GWF.
  - constructor.
    + reflexivity.
    + now rewrite (frame_ok_shape _ _ _ Sh).
    + intros m Hm. change (is_node st m) in Hm. change (time_of s0 m) with (time_of st m). rewrite (frame_ok_shape _ _ _ Sh).
      split; [now apply I3|now apply I1].
    + intros m Hm Hp. change (is_node st m) in Hm. change (time_of s0 m) with (time_of st m). destruct (Hnp m Hp) as [A B].
      destruct (I1 m Hm) as [Hf Hne]. now rewrite (HM m (time_of st m) (frame_ok_nonneg _ _ Hf) A B).
    + intros t' i Hf H0 Hv. rewrite (frame_ok_shape _ _ _ Sh) in Hf. pose proof (frame_ok_nonneg _ _ Hf) as Ht'.
      rewrite (LabP t' i Ht') in *.
      destruct ((t' =? t) && memz (Z.of_nat i) R && (i <? length (frame_of sg t))%nat); [now contradiction Hv|].
      exact (I2 t' i Hf H0).
    + intros t' i Hf Hl Hnv0. rewrite (frame_ok_shape _ _ _ Sh) in Hf. pose proof (frame_ok_nonneg _ _ Hf) as Ht'.
      rewrite (LabP t' i Ht') in Hl.
      destruct ((t' =? t) && memz (Z.of_nat i) R && (i <? length (frame_of sg t))%nat) eqn:Ec.
      * apply andb_true_iff in Ec. destruct Ec as [Ec _]. apply andb_true_iff in Ec. destruct Ec as [E1 E2].
        apply Z.eqb_eq in E1. apply memz_In in E2. auto.
      * assert (H0 : label_at sg t' i <> 0) by congruence. destruct (I2 t' i Hf H0) as [A B]. rewrite Hl in A, B.
        split; [|left; exact A]. rewrite <- B. now apply Hnvt.
    + intros m Hp Hm. change (is_node st m) in Hm. change (time_of s0 m) with (time_of st m). destruct Hp as [->|Hin]; [now apply Hnvt|].
      apply in_map_iff in Hin. destruct Hin as (g & <- & Hg). destruct (Glab g Hg) as (i & Hi & El & _).
      assert (H0 : label_at sg t i <> 0) by (rewrite El; now apply I3). destruct (I2 t i Hfok H0) as [_ B]. now rewrite El in B.
    + intros m k Hm Hp Hk. change (is_node st m) in Hm. change (time_of s0 m) with (time_of st m). change (attr s0 m k) with (attr st m k).
      destruct (Hnp m Hp) as [A B]. destruct (I1 m Hm) as [Hf _]. rewrite (HM m (time_of st m) (frame_ok_nonneg _ _ Hf) A B). now apply Rrp.
    + intros Hact u v He Hu Hv. change (edge st u v) in He. change (edge_attrs s0 u v) with (edge_attrs st u v).
      destruct (wd_edge_nodes _ (w_dict _ W) u v He) as [Nu Nv]. destruct (Hnp u Hu) as [Au Bu]. destruct (Hnp v Hv) as [Av Bv].
      rewrite (Riou Hact u v He). f_equal. symmetry. apply iou_of_ext; try reflexivity.
      * apply HM; auto. destruct (I1 u Nu) as [Hf _]. now apply (frame_ok_nonneg sg).
      * apply HM; auto. destruct (I1 v Nv) as [Hf _]. now apply (frame_ok_nonneg sg).
  - intros g Hg. destruct (paint_groups_In _ _ _ _ _ Hg) as (G1 & _ & _). destruct (Glab g Hg) as (i & Hi & El & Hne & _).
    split; [exact G1|]. split; [|split; [exact Hne|]].
    + intros j Hj Hin. destruct Sh as [_ Sh']. rewrite Sh' in Hj. right. apply LabR; [exact Hj|]. now apply (Gpix g).
    + intros H0. change (is_node st (snd g)). rewrite <- El in *. exact (proj1 (I2 t i Hfok H0)).
  - intros j Hj Hin. destruct Sh as [_ Sh']. rewrite Sh' in Hj. right. now apply LabR.
  - intros Hne. destruct groups as [|g r] eqn:Eg; [now contradiction Hne|].
    destruct (Glab g (or_introl eq_refl)) as (i & Hi & _ & _ & Hin). exists i. destruct Sh as [_ Sh']. rewrite Sh'.
    split; [exact Hi|]. apply (Gpix g); [now left|exact Hin].
Qed.

End Stroke.

(* ================================================================== *)
(* 8. an accepted stroke                                                *)
(* ================================================================== *)
Lemma paint_arr_nil sg t v : 0 <= t -> paint_arr sg t [] v = sg.
Proof.
  intros Ht. apply arr_ext; [apply paint_same_shape|]. intros t' i Ht'. rewrite label_at_paint by assumption.
  cbn [memz existsb]. now rewrite andb_false_r.
Qed.

(* the check UserUpdateSegmentation makes first (F-07a): an existing label is only painted in its own frame *)
Lemma uus_core_ok_time st nv px0 old0 gr T force x s' :
  user_update_seg_core st nv ((px0, old0) :: gr) T force = Ok x s' -> nv <> 0 -> is_node st nv -> time_of st nv = fst px0.
Proof.
  unfold user_update_seg_core. intros H Hnv Hn. destruct (seg st); [|discriminate].
  apply is_node_haskey in Hn. rewrite Hn in H. assert (E0 : (nv =? 0) = false) by (now apply Z.eqb_neq). rewrite E0 in H.
  cbn [negb andb] in H. destruct (Z.eqb_spec (time_of st nv) (fst px0)) as [E|E]; [exact E|discriminate H].
Qed.

(* Deliverable 1 *)
Theorem paint_WF st nv t idx T force a st' :
  WF st -> rp_disjoint st -> paint st nv t idx T force = Ok a st' -> WF st'.
Proof.
  intros W Hrp H. unfold paint in H. destruct (seg st) as [sg|] eqn:Hs.
  2:{ unfold user_update_seg, user_update_seg_core in H. rewrite Hs in H. discriminate H. }
  destruct (frame_ok sg t) eqn:Hfok; [|discriminate H]. cbn [negb] in H. cbv zeta in H.
  fold (all_pixels (paint_groups sg t idx nv)) in H. fold (paint_arr sg t (all_pixels (paint_groups sg t idx nv)) nv) in H.
  set (R := all_pixels (paint_groups sg t idx nv)) in *. set (s0 := upd_seg st (Some (paint_arr sg t R nv))) in *.
  destruct (user_update_seg s0 nv (paint_groups sg t idx nv) T force) as [a0 s2|e s2] eqn:Hu; [|discriminate H].
  injection H as <- <-. unfold user_update_seg in Hu.
  destruct (user_update_seg_core s0 nv (paint_groups sg t idx nv) T force) as [[a1 pl] s1|e s1] eqn:Hc; [|discriminate Hu].
  injection Hu as <- <-. apply WF_finish_top.
  pose proof (frame_ok_nonneg _ _ Hfok) as Ht0.
  destruct (paint_groups sg t idx nv) as [|[px0 old0] gr] eqn:Eg.
  - (* nothing to paint *)
    assert (ER : R = []) by reflexivity. unfold s0 in Hc. rewrite ER, (paint_arr_nil sg t nv Ht0) in Hc.
    unfold user_update_seg_core in Hc. cbn [seg upd_seg] in Hc. rewrite !andb_false_r in Hc. cbn [andb uus_groups bind] in Hc.
    assert (Es : s1 = upd_seg st (Some sg)) by congruence. subst s1.
    apply (WF_same st); try reflexivity; [now rewrite Hs|exact W].
  - assert (Ht : fst px0 = t).
    { assert (Hin : In (px0, old0) (paint_groups sg t idx nv)) by (rewrite Eg; now left). apply paint_groups_In in Hin. tauto. }
    assert (Hnvt : is_node st nv -> time_of st nv = t).
    { intros Hn. destruct (Z.eq_dec nv 0) as [->|Hnv0].
      - pose proof (w_seg _ W) as WS. apply (W_seg_iff _ _ Hs) in WS. destruct WS as (_ & _ & I3). now destruct (I3 0 Hn).
      - rewrite <- Ht. exact (uus_core_ok_time s0 nv px0 old0 gr T force _ _ Hc Hnv0 Hn). }
    assert (ER : R = all_pixels (paint_groups sg t idx nv)) by (now rewrite Eg).
    destruct (paint_init t nv R st sg idx W Hs Hfok ER Hnvt) as (W0 & Hsf & Hg & Htouch & Hhit). rewrite Eg in Hsf, Hg, Hhit.
    apply (uus_core_WF t nv R s0 (paint_arr sg t R nv) ((px0, old0) :: gr) T force a1 pl s1 W0).
    + exact Hrp.
    + exact Hsf.
    + rewrite <- Eg. apply paint_groups_labels_nodup.
    + exact Hg.
    + discriminate.
    + reflexivity.
    + exact Htouch.
    + apply Hhit. discriminate.
    + exact Hc.
Qed.

(* ================================================================== *)
(* 9. a refused stroke                                                  *)
(* ================================================================== *)
(* The strokes whose refusal involves no rollback of sub-actions: forced strokes (the nested UserAddNode
   cannot be refused), erasing strokes, strokes that grow an existing label, strokes over background only. *)
Definition paint_no_rollback (st : state) (nv t : Z) (idx : list Z) (force : bool) : Prop :=
  force = true \/ nv = 0 \/ is_node st nv \/
  (forall sg i, seg st = Some sg -> (i < length (frame_of sg t))%nat -> In (Z.of_nat i) idx ->
     label_at sg t i = 0 \/ label_at sg t i = nv).

Lemma untouched_restored st s0 s1 X : g s0 = g st -> ft s0 = ft st -> bk s0 = bk st -> undo_stack s0 = undo_stack st ->
  redo_stack s0 = redo_stack st -> rlog s0 = rlog st -> nctr s0 = nctr st ->
  EditUAN.untouched s0 s1 -> seg st = Some X -> EditUAN.untouched st (upd_seg s1 (Some X)).
Proof.
  intros E1 E2 E3 E4 E5 E6 E7 (U1 & U2 & U3 & U4 & U5 & U6 & U7 & U8 & U9 & U10 & U11 & U12) Hs.
  unfold EditUAN.untouched. cbn [g seg ft bk undo_stack redo_stack rlog nctr upd_seg]. rewrite <- E3.
  repeat split; try congruence. exact U12.
Qed.

(* Deliverable 2, partial: every refusal but the rolled-back one *)
Theorem paint_refused_WF_partial st nv t idx T force e st' :
  WF st -> rp_disjoint st -> paint_no_rollback st nv t idx force ->
  paint st nv t idx T force = Err e st' -> EditUAN.untouched st st' /\ WF st'.
Proof.
  intros W Hrp Hnr H.
  assert (Hgoal : EditUAN.untouched st st'); [|split; [exact Hgoal|exact (WF_untouched st st' Hgoal W)]].
  pose proof H as Hp. unfold paint in H. destruct (seg st) as [sg|] eqn:Hs.
  2:{ unfold user_update_seg, user_update_seg_core in H. rewrite Hs in H. injection H as _ <-. apply EditUAN.untouched_refl. }
  destruct (frame_ok sg t) eqn:Hfok; [|injection H as _ <-; apply EditUAN.untouched_refl]. cbn [negb] in H. cbv zeta in H.
  pose proof (paint_error_restores st nv t idx T force e st' sg Hp Hs) as Hseg'.
  fold (all_pixels (paint_groups sg t idx nv)) in H. fold (paint_arr sg t (all_pixels (paint_groups sg t idx nv)) nv) in H.
  set (R := all_pixels (paint_groups sg t idx nv)) in *. set (s0 := upd_seg st (Some (paint_arr sg t R nv))) in *.
  destruct (user_update_seg s0 nv (paint_groups sg t idx nv) T force) as [a0 s2|e2 s2] eqn:Hu; [discriminate H|].
  unfold user_update_seg in Hu.
  destruct (user_update_seg_core s0 nv (paint_groups sg t idx nv) T force) as [[a1 pl] s1|e1 s1] eqn:Hc; [discriminate Hu|].
  injection Hu as <- <-. injection H as _ H.
  pose proof (frame_ok_nonneg _ _ Hfok) as Ht0.
  assert (Hfin : EditUAN.untouched s0 s1 -> EditUAN.untouched st st').
  { intros U. pose proof U as (_ & U2 & _). change (seg s0) with (Some (paint_arr sg t R nv)) in U2. rewrite U2 in H. subst st'.
    cbn [seg upd_seg] in Hseg'. injection Hseg' as Hseg'. rewrite Hseg'.
    apply (untouched_restored st s0 s1 sg); auto. }
  apply Hfin. clear Hfin H Hp Hseg'.
  destruct (paint_groups sg t idx nv) as [|[px0 old0] gr] eqn:Eg.
  - exfalso. unfold user_update_seg_core in Hc. cbn [seg upd_seg s0] in Hc. rewrite !andb_false_r in Hc. cbn [andb uus_groups bind] in Hc. discriminate Hc.
  - assert (Ht : fst px0 = t).
    { assert (Hin : In (px0, old0) (paint_groups sg t idx nv)) by (rewrite Eg; now left). apply paint_groups_In in Hin. tauto. }
    pose proof (w_seg _ W) as WS. apply (W_seg_iff _ _ Hs) in WS. destruct WS as (_ & I2 & I3).
    assert (Hdec : (is_node st nv -> time_of st nv = t) \/ (nv <> 0 /\ has_node st nv = true /\ time_of st nv <> t)).
    { destruct (has_node st nv) eqn:Hh; [|left; intros C; apply is_node_haskey in C; congruence].
      destruct (Z.eq_dec (time_of st nv) t) as [E|E]; [now left|right]. split; [|auto].
      intros ->. apply is_node_haskey in Hh. now destruct (I3 0 Hh). }
    destruct Hdec as [Hnvt|(Hnv0 & Hh & Htne)].
    + assert (ER : R = all_pixels (paint_groups sg t idx nv)) by (now rewrite Eg).
      destruct (paint_init t nv R st sg idx W Hs Hfok ER Hnvt) as (W0 & Hsf & Hg & Htouch & Hhit). rewrite Eg in Hsf, Hg.
      apply (uus_core_err t nv R s0 (paint_arr sg t R nv) ((px0, old0) :: gr) T force e1 s1 W0 Hrp Hsf); [|exact Hg| |exact Hc].
      * rewrite <- Eg. apply paint_groups_labels_nodup.
      * destruct Hnr as [A|[A|[A|A]]]; [now left|right; now left|right; right; now left|right; right; right].
        intros g Hin. rewrite <- Eg in Hin. destruct (paint_groups_In _ _ _ _ _ Hin) as (_ & (p & Hp) & _).
        apply io_of_In in Hp. destruct Hp as (i & -> & Hi & Hidx & El & Hne). destruct (A sg i Hs Hi Hidx) as [E|E]; congruence.
    + unfold user_update_seg_core in Hc. cbn [seg upd_seg s0] in Hc. change (has_node s0 nv) with (has_node st nv) in Hc.
      change (time_of s0 nv) with (time_of st nv) in Hc. rewrite Hh, Ht in Hc.
      assert (E1 : (nv =? 0) = false) by (now apply Z.eqb_neq). assert (E2 : (time_of st nv =? t) = false) by (now apply Z.eqb_neq).
      rewrite E1, E2 in Hc. cbn [negb andb] in Hc. injection Hc as _ <-. apply EditUAN.untouched_refl.
Qed.

(* ================================================================== *)
(* 10. the interpreter over  node_fragment + OPaint                      *)
(* ================================================================== *)
Lemma uus_ft s nv groups T force : ft (rstate (user_update_seg s nv groups T force)) = ft s.
Proof.
  unfold user_update_seg. destruct (EditFrame.aux_user_update_seg_core' s s nv groups T force (EditFrame.aux_refl s)) as (_ & _ & _ & _ & Ef).
  destruct (user_update_seg_core s nv groups T force) as [[a p] s1|e s1]; cbn [rstate] in *; [|exact Ef].
  destruct (EditFrame.finish_top_spec s1 a p) as (_ & _ & _ & _ & _ & Ef' & _). congruence.
Qed.

(* no stroke touches the feature configuration (no invariant needed) *)
Lemma paint_ft st nv t idx T force : ft (rstate (paint st nv t idx T force)) = ft st.
Proof.
  unfold paint. destruct (seg st) as [sg|]; [|apply uus_ft].
  destruct (negb (frame_ok sg t)); [reflexivity|]. cbv zeta.
  match goal with |- context [user_update_seg ?s ?a ?b ?c ?d] => pose proof (uus_ft s a b c d) as E; destruct (user_update_seg s a b c d) as [x s1|e s1] end;
    cbn [rstate] in *; [exact E|].
  destruct (seg s1); exact E.
Qed.

Definition paint_fragment (o : op) : bool :=
  match o with OPaint _ _ _ _ _ => true | _ => node_fragment o end.

(* the side condition of a stroke: it is accepted, or its refusal involves no rollback *)
Definition paint_pre (st : state) (nv t : Z) (idx : list Z) (T : Z) (force : bool) : Prop :=
  (exists a s, paint st nv t idx T force = Ok a s) \/ paint_no_rollback st nv t idx force.

Definition op_pre_paint (st : state) (o : op) : Prop :=
  match o with
  | OPaint nv t idx T force => paint_pre st nv t idx T force
  | _ => op_pre st o
  end.

Theorem paint_call_WF st nv t idx T force : WF st -> rp_disjoint st -> paint_pre st nv t idx T force ->
  WF (rstate (paint st nv t idx T force)).
Proof.
  intros W Hrp Hpre. destruct (paint st nv t idx T force) as [a s|e s] eqn:E; cbn [rstate].
  - eapply paint_WF; eauto.
  - destruct Hpre as [(a & s' & C)|Hnr]; [congruence|]. exact (proj2 (paint_refused_WF_partial st nv t idx T force e s W Hrp Hnr E)).
Qed.

Theorem step_paint_ft st o : paint_fragment o = true -> ft (fst (step st o)) = ft st.
Proof.
  intros Hf. destruct o; try (apply step_node_ft; exact Hf); try discriminate Hf. cbn [step]. rewrite fst_fin. apply paint_ft.
Qed.

(* Deliverable 3 *)
Theorem step_paint_WF st o : paint_fragment o = true -> op_pre_paint st o -> WF st -> rp_disjoint st ->
  WF (fst (step st o)) /\ rp_disjoint (fst (step st o)).
Proof.
  intros Hf Hpre W Hrp. destruct o; try (apply step_node_WF; assumption); try discriminate Hf.
  split.
  - cbn [step]. rewrite fst_fin. now apply paint_call_WF.
  - apply (rp_disjoint_ft st); [|exact Hrp]. now apply step_paint_ft.
Qed.

Theorem run_paint_WF : forall ops st, forallb paint_fragment ops = true -> WF st -> rp_disjoint st ->
  (forall pre o post, ops = pre ++ o :: post -> op_pre_paint (run st pre) o) ->
  WF (run st ops) /\ rp_disjoint (run st ops).
Proof.
  induction ops as [|o r IH]; intros st Hf W Hrp Hpre; [split; assumption|].
  cbn [forallb] in Hf. apply andb_true_iff in Hf. destruct Hf as [Ho Hr].
  assert (P0 : op_pre_paint st o) by (apply (Hpre [] o r); reflexivity).
  destruct (step_paint_WF st o Ho P0 W Hrp) as [W1 Hrp1].
  change (run st (o :: r)) with (run (fst (step st o)) r).
  apply IH; [exact Hr|exact W1|exact Hrp1|].
  intros pre o' post E. specialize (Hpre (o :: pre) o' post). cbn [app] in Hpre.
  change (run st (o :: pre)) with (run (fst (step st o)) pre) in Hpre. apply Hpre. now rewrite E.
Qed.

(* ---- the side conditions, decidably ---- *)
Definition bg_onlyb (st : state) (nv t : Z) (idx : list Z) : bool :=
  match seg st with
  | None => true
  | Some sg => forallb (fun p => if in_frame sg t p then (label_at sg t (Z.to_nat p) =? 0) || (label_at sg t (Z.to_nat p) =? nv) else true) idx
  end.

Definition paint_preb (st : state) (nv t : Z) (idx : list Z) (T : Z) (force : bool) : bool :=
  match paint st nv t idx T force with
  | Ok _ _ => true
  | Err _ _ => force || (nv =? 0) || has_node st nv || bg_onlyb st nv t idx
  end.

Lemma paint_preb_spec st nv t idx T force : paint_preb st nv t idx T force = true -> paint_pre st nv t idx T force.
Proof.
  unfold paint_preb, paint_pre. destruct (paint st nv t idx T force) as [a s|e s]; [intros _; left; eauto|]. intros H. right.
  apply orb_true_iff in H. destruct H as [H|H]; [|right; right; right].
  - apply orb_true_iff in H. destruct H as [H|H]; [|right; right; left; now apply is_node_haskey].
    apply orb_true_iff in H. destruct H as [H|H]; [now left|right; left; now apply Z.eqb_eq].
  - intros sg i Hs Hi Hin. unfold bg_onlyb in H. rewrite Hs in H. rewrite forallb_forall in H. specialize (H _ Hin). cbv beta in H.
    assert (Hf : in_frame sg t (Z.of_nat i) = true).
    { unfold in_frame. apply andb_true_iff. split; [apply Z.leb_le; lia|apply Z.ltb_lt; lia]. }
    rewrite Hf, Nat2Z.id in H. apply orb_true_iff in H. destruct H as [H|H]; apply Z.eqb_eq in H; auto.
Qed.

Definition op_pre_paintb (st : state) (o : op) : bool :=
  match o with
  | OPaint nv t idx T force => paint_preb st nv t idx T force
  | _ => op_preb st o
  end.

Lemma op_pre_paintb_spec st o : op_pre_paintb st o = true -> op_pre_paint st o.
Proof.
  destruct o; cbn [op_pre_paintb op_pre_paint]; try (apply op_preb_spec). apply paint_preb_spec.
Qed.

Fixpoint pre_along_paintb (st : state) (ops : list op) : bool :=
  match ops with [] => true | o :: r => op_pre_paintb st o && pre_along_paintb (fst (step st o)) r end.

Lemma pre_along_paintb_spec : forall ops st, pre_along_paintb st ops = true ->
  forall pre o post, ops = pre ++ o :: post -> op_pre_paint (run st pre) o.
Proof.
  induction ops as [|o1 r IH]; intros st H pre o post E; [destruct pre; discriminate E|].
  cbn [pre_along_paintb] in H. apply andb_true_iff in H. destruct H as [H1 H2].
  destruct pre as [|o2 pre]; cbn [app] in E; injection E as <- E.
  - now apply op_pre_paintb_spec.
  - change (run st (o1 :: pre)) with (run (fst (step st o1)) pre). eapply IH; eauto.
Qed.

Corollary run_paint_WF_check ops st : forallb paint_fragment ops = true -> WF st -> rp_disjoint st ->
  pre_along_paintb st ops = true -> WF (run st ops).
Proof. intros Hf W Hrp H. apply run_paint_WF; auto. now apply pre_along_paintb_spec. Qed.
