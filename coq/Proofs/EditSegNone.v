(* Without a label array no basic action, and no inverse of a recorded action, creates one:
   seg = None is preserved by the seven primitives, inv_basic and inv_action, whatever the
   outcome (Ok or Err).  Building block for lifting the seg = None side condition of the mixed
   feature-switching sessions (EditSessionsToggle2) from the start state to every reached state. *)
From Coq Require Import ZArith List Bool Lia.
From FT Require Import Base.Dict Model.Edit Proofs.DictLemmas Proofs.EditInv Proofs.EditSeg.
Import ListNotations.
Open Scope Z_scope.

Definition sn (a b : state) : Prop := seg a = None -> seg b = None.
Lemma sn_refl a : sn a a. Proof. intro H; exact H. Qed.
Lemma sn_trans a b c : sn a b -> sn b c -> sn a c. Proof. unfold sn; auto. Qed.
Lemma sn_of_eq a b : seg_eq a b -> sn a b. Proof. unfold seg_eq, sn. congruence. Qed.

Lemma sn_set_pixels st p v : sn st (rstate (set_pixels st p v)).
Proof. unfold sn, set_pixels. intros H. rewrite H. cbn. exact H. Qed.

Lemma sn_fp R a b : seg_fp R a b -> sn a b.
Proof. unfold seg_fp, sn. intros H E. rewrite E in H. exact H. Qed.

Lemma sn_add_node st n a pxo : sn st (rstate (do_add_node st n a pxo)).
Proof.
  intros E. destruct pxo as [p|].
  - unfold do_add_node. destruct (negb (haskey KTime a)); [exact E|]. destruct (negb (haskey KTrack a)); [exact E|].
    cbn match. unfold set_pixels at 1. rewrite E. cbn. exact E.
  - eapply (sn_fp (fun _ _ => False)); [|exact E]. apply seg_fp_add_node. intros p Hp; discriminate.
Qed.

Lemma sn_del_edge st u v : sn st (rstate (do_del_edge st u v)). Proof. apply sn_of_eq, seg_eq_del_edge. Qed.
Lemma sn_add_edge st u v a : sn st (rstate (do_add_edge st u v a)). Proof. apply sn_of_eq, seg_eq_add_edge. Qed.
Lemma sn_upd_track st s t l : sn st (rstate (do_upd_track st s t l)). Proof. apply sn_of_eq, seg_eq_upd_track. Qed.
Lemma sn_upd_attrs st n new : sn st (rstate (do_upd_attrs st n new)). Proof. apply sn_of_eq, seg_eq_upd_attrs. Qed.

Lemma sn_upd_seg st n p added : sn st (rstate (do_upd_seg st n p added)).
Proof. intros E. unfold do_upd_seg, set_pixels. rewrite E. cbn. exact E. Qed.

Lemma sn_del_node st n pxo : sn st (rstate (do_del_node st n pxo)).
Proof.
  intros E. unfold do_del_node. destruct (lookup n (nodes (g st))) as [d|]; [|exact E].
  assert (Hg : get_pixels st n = None) by (unfold get_pixels; rewrite E; reflexivity).
  destruct pxo as [p|].
  - cbn match. unfold set_pixels at 1. rewrite E. cbn. exact E.
  - rewrite Hg. cbn. destruct (negb (trk_act (ft st))); cbn; exact E.
Qed.

Lemma sn_inv_basic st b : sn st (rstate (inv_basic st b)).
Proof.
  destruct b; cbn [inv_basic];
    [apply sn_del_node|apply sn_add_node|apply sn_del_edge|apply sn_add_edge|apply sn_upd_attrs|apply sn_upd_seg|apply sn_upd_track].
Qed.

Lemma sn_bind {A B} (r : res A) (f : A -> state -> res B) st :
  sn st (rstate r) -> (forall a s, sn s (rstate (f a s))) -> sn st (rstate (bind r f)).
Proof. intros H1 H2. apply (bind_rel sn); [exact sn_trans|exact H1|intros a s _; apply H2]. Qed.

Theorem sn_inv_action : forall a st, sn st (rstate (inv_action st a)).
Proof.
  fix IH 1. intros a st. destruct a as [b|l].
  - cbn [inv_action]. apply sn_bind; [apply sn_inv_basic|intros; apply sn_refl].
  - cbn [inv_action]. apply sn_bind; [|intros; apply sn_refl].
    revert st. induction l as [|x r IHl]; intros st; [apply sn_refl|].
    apply sn_bind; [apply IHl|]. intros accr s.
    apply sn_bind; [apply IH|intros; apply sn_refl].
Qed.

(* non-vacuity: the example state without an array *)
Print Assumptions sn_inv_action.

(* ---------- user level ---------- *)
Definition Rall : Z -> nat -> Prop := fun _ _ => True.
Lemma px_in_all p : px_in Rall p. Proof. intros i _. exact I. Qed.

Lemma sn_top_wrap top p (r : res action) st : sn st (rstate r) -> sn st (rstate (top_wrap top p r)).
Proof. intros H. destruct r as [a s|e s]; cbn in *; [|exact H]. destruct top; [|exact H]. intros E. rewrite seg_finish_top. auto. Qed.

Lemma sn_user_delete_edge st u v top : sn st (rstate (user_delete_edge st u v top)).
Proof. apply sn_of_eq, seg_eq_user_delete_edge. Qed.

Ltac sn_step :=
  first [ apply sn_refl | apply sn_del_edge | apply sn_add_edge | apply sn_upd_track | apply sn_upd_attrs
        | apply sn_user_delete_edge | apply sn_add_node | apply sn_del_node | apply sn_upd_seg ].

Lemma sn_user_add_edge_core st u v force : sn st (rstate (user_add_edge_core st u v force)).
Proof.
  unfold user_add_edge_core.
  destruct (negb (has_node st u)); [sn_step|]. destruct (negb (has_node st v)); [sn_step|].
  destruct (time_of st u >=? time_of st v); [sn_step|].
  destruct (_ >? 1); [sn_step|].
  apply sn_bind.
  - destruct (in_degree st v >? 0); [|sn_step]. destruct (negb force); [sn_step|].
    destruct (predecessors st v); [sn_step|]. apply sn_bind; [sn_step|intros; sn_step].
  - intros pre s. apply sn_bind.
    + destruct (out_degree s u =? 0).
      * destruct (zattr s u KTrack); [|sn_step]. apply sn_bind; [sn_step|intros; sn_step].
      * destruct (out_degree s u =? 1); [|sn_step]. destruct (successors s u); [sn_step|].
        apply sn_bind; [sn_step|]. intros b s1. destruct (zattr s1 v KTrack); [|sn_step].
        apply sn_bind; [sn_step|intros; sn_step].
    + intros acts s1. apply sn_bind; [sn_step|intros; sn_step].
Qed.
Lemma sn_user_add_edge st u v force top : sn st (rstate (user_add_edge st u v force top)).
Proof. apply sn_top_wrap, sn_user_add_edge_core. Qed.

Lemma sn_user_delete_node st n pxo top : sn st (rstate (user_delete_node st n pxo top)).
Proof. apply sn_top_wrap. apply (sn_fp Rall). apply seg_fp_udn_core. intros; apply px_in_all. Qed.

Lemma sn_user_add_node st n a pxo force top : sn st (rstate (user_add_node st n a pxo force top)).
Proof. apply sn_top_wrap. apply (sn_fp Rall). apply seg_fp_uan_core. intros; apply px_in_all. Qed.

Lemma sn_user_update_attrs st n new : sn st (rstate (user_update_attrs st n new)).
Proof. apply sn_top_wrap. unfold user_update_attrs_core. apply sn_bind; [sn_step|intros; sn_step]. Qed.

Lemma sn_user_swap st a b : sn st (rstate (user_swap st a b)).
Proof.
  apply sn_top_wrap. unfold user_swap_core.
  destruct (_ || _); [sn_step|].
  destruct (hd_error (predecessors st a)) as [p1|], (hd_error (predecessors st b)) as [p2|]; try sn_step.
  all: repeat match goal with |- sn _ (rstate (if ?c then _ else _)) => destruct c; [sn_step|] end.
  all: repeat first [ sn_step | apply sn_user_add_edge
                    | apply sn_bind; [|intros ? ?] ].
Qed.

Lemma sn_user_update_seg st nv groups T force : sn st (rstate (user_update_seg st nv groups T force)).
Proof.
  intros E. unfold user_update_seg, user_update_seg_core. rewrite E. cbn. exact E.
Qed.

Lemma sn_paint st nv t idx T force : sn st (rstate (paint st nv t idx T force)).
Proof. intros E. unfold paint. rewrite E. now apply sn_user_update_seg. Qed.

Lemma sn_undo st : sn st (rstate (undo st)).
Proof.
  unfold undo. destruct (_ <=? _)%nat; [sn_step|]. destruct (nth_error _ _) as [a|]; [|sn_step].
  apply sn_bind; [apply sn_inv_action|]. intros b s E. cbn. exact E.
Qed.
Lemma sn_redo st : sn st (rstate (redo st)).
Proof.
  unfold redo. destruct (rev (redo_stack st)) as [|b r]; [sn_step|].
  apply sn_bind; [|intros x s E; cbn; exact E].
  intros E. apply sn_inv_action. cbn. exact E.
Qed.

(* ---------- every call of the public interface, every session ---------- *)
From FT Require Import Model.EditExec.

Lemma fst_fin {A} (r : res A) : fst (fin r) = rstate r. Proof. destruct r; reflexivity. Qed.
Lemma fst_finb (r : res bool) : fst (finb r) = rstate r. Proof. destruct r as [[|] s|e s]; reflexivity. Qed.

Theorem step_seg_none st o : seg st = None -> seg (fst (step st o)) = None.
Proof.
  intros E. destruct o; cbn [step]; rewrite ?fst_fin, ?fst_finb.
  - now apply sn_user_add_edge.
  - now apply sn_user_delete_edge.
  - now apply sn_user_add_node.
  - now apply sn_user_delete_node.
  - now apply sn_user_swap.
  - now apply sn_user_update_attrs.
  - now apply sn_paint.
  - now apply sn_undo.
  - now apply sn_redo.
  - pose proof (seg_track_neighbors st T t) as H. destruct (track_neighbors st T t) as [s [p c]]. cbn in *. congruence.
  - exact E.
  - unfold get_new_node_ids. destruct (new_ids_loop _ _ _) as [ids c]. cbn. exact E.
  - exact E.
Qed.

Theorem run_seg_none : forall ops st, seg st = None -> seg (run st ops) = None.
Proof.
  unfold run. induction ops as [|o r IH]; intros st E; cbn [fold_left]; [exact E|].
  apply IH. now apply step_seg_none.
Qed.

Print Assumptions run_seg_none.
