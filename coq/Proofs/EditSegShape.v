(* The label array keeps its shape - number of frames and size of every frame - along every call of
   the public interface, whatever the outcome, and hence along every session; it is never dropped and
   never created.  (seg_fp with the trivial footprint: Some stays Some of the same shape, None stays None.) *)
From Coq Require Import ZArith List Bool Lia.
From FT Require Import Base.Dict Model.Edit Model.EditExec Proofs.DictLemmas Proofs.EditInv Proofs.EditSeg Proofs.EditSegNone.
Import ListNotations.
Open Scope Z_scope.

Definition shp (a b : state) : Prop := seg_fp Rall a b.
Lemma shp_refl a : shp a a. Proof. apply seg_fp_refl. Qed.
Lemma shp_trans a b c : shp a b -> shp b c -> shp a c. Proof. apply seg_fp_trans. Qed.
Lemma shp_of_eq a b : seg_eq a b -> shp a b. Proof. apply seg_fp_of_eq. Qed.
Lemma shp_intro a b sg sg' : seg a = Some sg -> seg b = Some sg' -> same_shape sg' sg -> shp a b.
Proof. intros Ea Eb S. unfold shp, seg_fp. rewrite Ea. exists sg'. split; [exact Eb|split; [exact S|]]. intros t i _ H. exfalso. apply H. exact I. Qed.
(* what the relation says *)
Lemma shp_spec a b : shp a b <->
  match seg a with Some sg => exists sg', seg b = Some sg' /\ same_shape sg' sg | None => seg b = None end.
Proof.
  unfold shp, seg_fp. destruct (seg a) as [sg|]; [|tauto]. split.
  - intros (sg' & E & S & _). eauto.
  - intros (sg' & E & S). exists sg'. split; [exact E|split; [exact S|]]. intros t i _ H. exfalso. apply H. exact I.
Qed.

Lemma shp_bind {A B} (r : res A) (f : A -> state -> res B) st :
  shp st (rstate r) -> (forall a s, shp s (rstate (f a s))) -> shp st (rstate (bind r f)).
Proof. intros H1 H2. apply (bind_rel shp); [exact shp_trans|exact H1|intros a s _; apply H2]. Qed.

Lemma shp_add_node st n a pxo : shp st (rstate (do_add_node st n a pxo)).
Proof. apply seg_fp_add_node. intros; apply px_in_all. Qed.
Lemma shp_del_node st n pxo : shp st (rstate (do_del_node st n pxo)).
Proof. apply seg_fp_del_node. intros; apply px_in_all. Qed.
Lemma shp_upd_seg st n p added : shp st (rstate (do_upd_seg st n p added)).
Proof. apply seg_fp_upd_seg, px_in_all. Qed.
Lemma shp_del_edge st u v : shp st (rstate (do_del_edge st u v)). Proof. apply shp_of_eq, seg_eq_del_edge. Qed.
Lemma shp_add_edge st u v a : shp st (rstate (do_add_edge st u v a)). Proof. apply shp_of_eq, seg_eq_add_edge. Qed.
Lemma shp_upd_track st s t l : shp st (rstate (do_upd_track st s t l)). Proof. apply shp_of_eq, seg_eq_upd_track. Qed.
Lemma shp_upd_attrs st n new : shp st (rstate (do_upd_attrs st n new)). Proof. apply shp_of_eq, seg_eq_upd_attrs. Qed.

Lemma shp_inv_basic st b : shp st (rstate (inv_basic st b)).
Proof.
  destruct b; cbn [inv_basic];
    [apply shp_del_node|apply shp_add_node|apply shp_del_edge|apply shp_add_edge|apply shp_upd_attrs|apply shp_upd_seg|apply shp_upd_track].
Qed.

Theorem shp_inv_action : forall a st, shp st (rstate (inv_action st a)).
Proof.
  fix IH 1. intros a st. destruct a as [b|l].
  - cbn [inv_action]. apply shp_bind; [apply shp_inv_basic|intros; apply shp_refl].
  - cbn [inv_action]. apply shp_bind; [|intros; apply shp_refl].
    revert st. induction l as [|x r IHl]; intros st; [apply shp_refl|].
    apply shp_bind; [apply IHl|]. intros accr s.
    apply shp_bind; [apply IH|intros; apply shp_refl].
Qed.

Lemma shp_top_wrap top p (r : res action) st : shp st (rstate r) -> shp st (rstate (top_wrap top p r)).
Proof.
  intros H. destruct r as [a s|e s]; cbn in *; [|exact H]. destruct top; [|exact H].
  eapply shp_trans; [exact H|]. apply shp_of_eq. unfold seg_eq. apply seg_finish_top.
Qed.

Lemma shp_user_delete_edge st u v top : shp st (rstate (user_delete_edge st u v top)).
Proof. apply shp_of_eq, seg_eq_user_delete_edge. Qed.

Ltac shp_step :=
  first [ apply shp_refl | apply shp_del_edge | apply shp_add_edge | apply shp_upd_track | apply shp_upd_attrs
        | apply shp_user_delete_edge | apply shp_add_node | apply shp_del_node | apply shp_upd_seg ].

Lemma shp_user_add_edge_core st u v force : shp st (rstate (user_add_edge_core st u v force)).
Proof.
  unfold user_add_edge_core.
  destruct (negb (has_node st u)); [shp_step|]. destruct (negb (has_node st v)); [shp_step|].
  destruct (time_of st u >=? time_of st v); [shp_step|].
  destruct (_ >? 1); [shp_step|].
  apply shp_bind.
  - destruct (in_degree st v >? 0); [|shp_step]. destruct (negb force); [shp_step|].
    destruct (predecessors st v); [shp_step|]. apply shp_bind; [shp_step|intros; shp_step].
  - intros pre s. apply shp_bind.
    + destruct (out_degree s u =? 0).
      * destruct (zattr s u KTrack); [|shp_step]. apply shp_bind; [shp_step|intros; shp_step].
      * destruct (out_degree s u =? 1); [|shp_step]. destruct (successors s u); [shp_step|].
        apply shp_bind; [shp_step|]. intros b s1. destruct (zattr s1 v KTrack); [|shp_step].
        apply shp_bind; [shp_step|intros; shp_step].
    + intros acts s1. apply shp_bind; [shp_step|intros; shp_step].
Qed.
Lemma shp_user_add_edge st u v force top : shp st (rstate (user_add_edge st u v force top)).
Proof. apply shp_top_wrap, shp_user_add_edge_core. Qed.

Lemma shp_user_delete_node st n pxo top : shp st (rstate (user_delete_node st n pxo top)).
Proof. apply shp_top_wrap. apply seg_fp_udn_core. intros; apply px_in_all. Qed.
Lemma shp_user_add_node st n a pxo force top : shp st (rstate (user_add_node st n a pxo force top)).
Proof. apply shp_top_wrap. apply seg_fp_uan_core. intros; apply px_in_all. Qed.
Lemma shp_user_update_attrs st n new : shp st (rstate (user_update_attrs st n new)).
Proof. apply shp_top_wrap. unfold user_update_attrs_core. apply shp_bind; [shp_step|intros; shp_step]. Qed.

Lemma shp_user_swap st a b : shp st (rstate (user_swap st a b)).
Proof.
  apply shp_top_wrap. unfold user_swap_core.
  destruct (_ || _); [shp_step|].
  destruct (hd_error (predecessors st a)) as [p1|], (hd_error (predecessors st b)) as [p2|]; try shp_step.
  all: repeat match goal with |- shp _ (rstate (if ?c then _ else _)) => destruct c; [shp_step|] end.
  all: repeat first [ shp_step | apply shp_user_add_edge
                    | apply shp_bind; [|intros ? ?] ].
Qed.

Lemma shp_user_update_seg st nv groups T force : shp st (rstate (user_update_seg st nv groups T force)).
Proof.
  assert (H : shp st (rstate (user_update_seg_core st nv groups T force))).
  { apply seg_fp_uus_core; intros; apply px_in_all. }
  unfold user_update_seg. destruct (user_update_seg_core st nv groups T force) as [[a pl] s|e s]; cbn in *; [|exact H].
  eapply shp_trans; [exact H|]. apply shp_of_eq. unfold seg_eq. apply seg_finish_top.
Qed.

Lemma shp_paint st nv t idx T force : shp st (rstate (paint st nv t idx T force)).
Proof.
  unfold paint. destruct (seg st) as [sg|] eqn:E; [|apply shp_user_update_seg].
  destruct (negb (frame_ok sg t)); [apply shp_refl|].
  set (groups := paint_groups sg t idx nv).
  set (painted := upd_seg st _).
  assert (Hp : shp st painted).
  { apply (shp_intro st painted sg _ E eq_refl). apply paint_same_shape. }
  pose proof (shp_user_update_seg painted nv groups T force) as Hu.
  destruct (user_update_seg painted nv groups T force) as [a s|e s]; cbn [rstate] in *.
  - eapply shp_trans; eassumption.
  - eapply shp_trans; [exact Hp|]. eapply shp_trans; [exact Hu|].
    destruct (seg s) as [sg'|] eqn:Es; [|apply shp_refl].
    apply (shp_intro s (upd_seg s (Some (restore_groups t groups sg'))) sg' (restore_groups t groups sg') Es eq_refl). apply restore_same_shape.
Qed.

Lemma shp_undo st : shp st (rstate (undo st)).
Proof.
  unfold undo. destruct (_ <=? _)%nat; [shp_step|]. destruct (nth_error _ _) as [a|]; [|shp_step].
  apply shp_bind; [apply shp_inv_action|]. intros b s. apply shp_of_eq. reflexivity.
Qed.
Lemma shp_redo st : shp st (rstate (redo st)).
Proof.
  unfold redo. destruct (rev (redo_stack st)) as [|b r]; [shp_step|].
  apply shp_bind; [|intros x s; apply shp_of_eq; reflexivity].
  eapply shp_trans; [|apply shp_inv_action]. apply shp_of_eq. reflexivity.
Qed.

Theorem step_shape st o : shp st (fst (step st o)).
Proof.
  destruct o; cbn [step]; rewrite ?fst_fin, ?fst_finb.
  - apply shp_user_add_edge.
  - apply shp_user_delete_edge.
  - apply shp_user_add_node.
  - apply shp_user_delete_node.
  - apply shp_user_swap.
  - apply shp_user_update_attrs.
  - apply shp_paint.
  - apply shp_undo.
  - apply shp_redo.
  - apply shp_of_eq. unfold seg_eq. pose proof (seg_track_neighbors st T t) as H. destruct (track_neighbors st T t) as [s [p c]]. exact H.
  - apply shp_refl.
  - unfold get_new_node_ids. destruct (new_ids_loop _ _ _) as [ids c]. apply shp_of_eq. reflexivity.
  - apply shp_refl.
Qed.

Theorem run_shape : forall ops st, shp st (run st ops).
Proof.
  unfold run. induction ops as [|o r IH]; intros st; cbn [fold_left]; [apply shp_refl|].
  eapply shp_trans; [apply step_shape|apply IH].
Qed.

(* in plain words *)
Corollary run_keeps_array_shape ops st sg : seg st = Some sg ->
  exists sg', seg (run st ops) = Some sg' /\ same_shape sg' sg.
Proof. intros E. pose proof (run_shape ops st) as H. apply shp_spec in H. rewrite E in H. exact H. Qed.

Print Assumptions run_keeps_array_shape.
