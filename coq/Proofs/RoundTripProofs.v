(* Lemmas for property C14 (export followed by import is the identity) over Model/RoundTrip.v.
   No axioms.  The file formats' IO is an oracle, introduced as Section variables with an
   explicit hypothesis (Section Oracles at the end). *)
From Coq Require Import ZArith List Bool Lia.
From FT Require Import Base.Dict Proofs.DictLemmas Model.RoundTrip.
Import ListNotations.
Open Scope Z_scope.

(* ------------------------------------------------------------------ small list facts *)
Lemma zipapp_map {A} (f g : A -> list cell) (l : list A) :
  zipapp (map f l) (map g l) = map (fun x => f x ++ g x) l.
Proof. induction l as [|x l IH]; cbn; [reflexivity | now rewrite IH]. Qed.

Lemma wrap_map {A} (f : A -> cell) (l : list A) : wrap (map f l) = map (fun x => [f x]) l.
Proof. unfold wrap. now rewrite map_map. Qed.

Lemma to_value_somes (v : value) : to_value (map Some v) = v.
Proof. unfold to_value. induction v as [|x v IH]; cbn; [reflexivity | now f_equal]. Qed.

Lemma to_value_app (a b : list cell) : to_value (a ++ b) = to_value a ++ to_value b.
Proof. unfold to_value. apply flat_map_app. Qed.

Lemma cat_some_ids {A} (f : A -> Z) (l : list A) : cat_some (map (fun n => Some (f n)) l) = map f l.
Proof. induction l as [|x l IH]; cbn; [reflexivity | now f_equal]. Qed.

(* ------------------------------------------------------------------ rename_props *)
Section Rename.
Context {V : Type}.
Definition rename_step (src : dict V) (acc : dict V) (ts : Z * Z) : dict V :=
  match lookup (snd ts) src with
  | Some v => if haskey (fst ts) acc then acc else set (fst ts) v acc
  | None => acc
  end.

Lemma rename_props_fold flat (src : dict V) : rename_props flat src = fold_left (rename_step src) flat [].
Proof. reflexivity. Qed.

Lemma rename_step_other src acc ts k : k <> fst ts -> lookup k (rename_step src acc ts) = lookup k acc.
Proof.
  intros Hk. unfold rename_step. destruct (lookup (snd ts) src) as [v|]; [|reflexivity].
  destruct (haskey (fst ts) acc); [reflexivity|]. now apply lookup_set_neq.
Qed.

Lemma rename_fold_other src flat : forall acc k, ~ In k (map fst flat) ->
  lookup k (fold_left (rename_step src) flat acc) = lookup k acc.
Proof.
  induction flat as [|ts flat IH]; intros acc k Hk; cbn; [reflexivity|].
  cbn in Hk. rewrite IH by tauto. apply rename_step_other. intros E; apply Hk; now left.
Qed.

Lemma rename_fold_target src flat : forall acc t s, NoDup (map fst flat) -> In (t, s) flat ->
  lookup t acc = None -> lookup t (fold_left (rename_step src) flat acc) = lookup s src.
Proof.
  induction flat as [|ts flat IH]; intros acc t s Hnd Hin Hacc; [destruct Hin|].
  cbn in Hnd. inversion Hnd as [|x l Hnotin Hnd' E]; subst. cbn [fold_left].
  destruct Hin as [E | Hin].
  - subst ts. rewrite rename_fold_other by exact Hnotin. unfold rename_step. cbn [fst snd].
    destruct (lookup s src) as [v|] eqn:Hs; [|exact Hacc].
    unfold haskey. rewrite Hacc. apply lookup_set_eq.
  - assert (Hne : t <> fst ts).
    { intros E. apply Hnotin. rewrite <- E. change t with (fst (t, s)). now apply in_map. }
    apply IH; [exact Hnd' | exact Hin |]. now rewrite rename_step_other.
Qed.

(* a target of an injective-on-targets flat map receives exactly the source's value *)
Lemma rename_props_target flat (src : dict V) t s : NoDup (map fst flat) -> In (t, s) flat ->
  lookup t (rename_props flat src) = lookup s src.
Proof. intros Hnd Hin. rewrite rename_props_fold. now apply rename_fold_target. Qed.

(* nothing else is loaded *)
Lemma rename_props_other flat (src : dict V) k : ~ In k (map fst flat) -> lookup k (rename_props flat src) = None.
Proof. intros Hk. rewrite rename_props_fold. now rewrite rename_fold_other. Qed.

Definition swap (ts : Z * Z) : Z * Z := (snd ts, fst ts).

(* renaming by an injective map and back *)
Lemma rename_props_back flat (src : dict V) t s : NoDup (map fst flat) -> NoDup (map snd flat) -> In (t, s) flat ->
  lookup s (rename_props (map swap flat) (rename_props flat src)) = lookup s src.
Proof.
  intros Hf Hs Hin.
  rewrite (rename_props_target (map swap flat) (rename_props flat src) s t).
  - now apply rename_props_target.
  - rewrite map_map. cbn. exact Hs.
  - change (s, t) with (swap (t, s)). now apply in_map.
Qed.
End Rename.

(* ------------------------------------------------------------------ split_position_attr *)
Lemma lookup_getd {V} k (d : dict V) dflt v : lookup k d = Some v -> getd k d dflt = v.
Proof. unfold getd. now intros ->. Qed.

Definition split_step (pos : value) (acc : attrs) (ik : nat * Z) : attrs := set (snd ik) [nth (fst ik) pos 0] acc.

Lemma split_attrs_fold pk keys a :
  split_attrs pk keys a = fold_left (split_step (getd pk a [])) (enumerate keys) (del pk a).
Proof. reflexivity. Qed.

Lemma split_fold_other pos l : forall acc k, ~ In k (map snd l) ->
  lookup k (fold_left (split_step pos) l acc) = lookup k acc.
Proof.
  induction l as [|ik l IH]; intros acc k Hk; cbn; [reflexivity|].
  cbn in Hk. rewrite IH by tauto. unfold split_step. apply lookup_set_neq. intros E. apply Hk. now left.
Qed.

Lemma split_fold_key pos l : forall acc i k, NoDup (map snd l) -> In (i, k) l ->
  lookup k (fold_left (split_step pos) l acc) = Some [nth i pos 0].
Proof.
  induction l as [|ik l IH]; intros acc i k Hnd Hin; [destruct Hin|].
  cbn in Hnd. inversion Hnd as [|x r Hnotin Hnd' E]; subst. cbn [fold_left].
  destruct Hin as [E | Hin].
  - subst ik. rewrite split_fold_other by exact Hnotin. unfold split_step. cbn. apply lookup_set_eq.
  - now apply IH.
Qed.

Lemma map_snd_combine {A B} (l : list A) (m : list B) : length l = length m -> map snd (combine l m) = m.
Proof.
  revert m; induction l as [|x l IH]; intros [|y m] H; cbn in *; try discriminate; [reflexivity|].
  f_equal. apply IH. lia.
Qed.

Lemma map_snd_enumerate {A} (l : list A) : map snd (enumerate l) = l.
Proof. unfold enumerate. apply map_snd_combine. now rewrite seq_length. Qed.

(* attributes other than the position key and the axis keys are untouched *)
Lemma split_attrs_other pk keys a k : k <> pk -> ~ In k keys -> lookup k (split_attrs pk keys a) = lookup k a.
Proof.
  intros Hpk Hk. rewrite split_attrs_fold, split_fold_other.
  - now apply lookup_del_neq.
  - now rewrite map_snd_enumerate.
Qed.

Lemma in_enumerate_shift {A} (l : list A) : forall s i k, In (i, k) (combine (seq s (length l)) l) ->
  (s <= i)%nat /\ nth_error l (i - s) = Some k.
Proof.
  induction l as [|x l IH]; intros s i k Hin; cbn in Hin; [destruct Hin|].
  destruct Hin as [E | Hin].
  - inversion E; subst. split; [lia|]. now rewrite Nat.sub_diag.
  - apply IH in Hin. destruct Hin as [Hle Hn]. split; [lia|].
    replace (i - s)%nat with (S (i - S s)) by lia. exact Hn.
Qed.

Lemma flat_map_enumerate_nth (pos : value) : forall (keys : list Z) s (f : Z -> value),
  (forall i k, In (i, k) (combine (seq s (length keys)) keys) -> f k = [nth i pos 0]) ->
  flat_map f keys = map (fun i => nth i pos 0) (seq s (length keys)).
Proof.
  induction keys as [|k keys IH]; intros s f H; cbn; [reflexivity|].
  rewrite (H s k) by (cbn; now left). cbn. f_equal.
  apply IH. intros i k' Hin. apply H. cbn. now right.
Qed.

Lemma map_nth_seq (pos : value) : map (fun i => nth i pos 0) (seq 0 (length pos)) = pos.
Proof.
  induction pos as [|x pos IH]; cbn; [reflexivity|]. f_equal.
  rewrite <- seq_shift, map_map. exact IH.
Qed.

(* combine (split pos) = pos: reading the axis keys back in axis order gives the position,
   for a position of ANY length *)
Lemma split_combine_value pk keys a : NoDup keys -> length (getd pk a []) = length keys ->
  flat_map (fun k => getd k (split_attrs pk keys a) []) keys = getd pk a [].
Proof.
  intros Hnd Hlen. rewrite (flat_map_enumerate_nth (getd pk a []) keys 0).
  - rewrite <- Hlen. apply map_nth_seq.
  - intros i k Hin. apply lookup_getd. rewrite split_attrs_fold.
    apply split_fold_key; [now rewrite map_snd_enumerate | exact Hin].
Qed.

Lemma split_attrs_haskey pk keys a k : NoDup keys -> In k keys -> haskey k (split_attrs pk keys a) = true.
Proof.
  intros Hnd Hin. unfold haskey. rewrite split_attrs_fold.
  assert (Hex : exists i, In (i, k) (enumerate keys)).
  { rewrite <- (map_snd_enumerate keys) in Hin. apply in_map_iff in Hin.
    destruct Hin as [[i k'] [E Hin]]. cbn in E. subst k'. now exists i. }
  destruct Hex as [i Hi].
  rewrite (split_fold_key _ _ _ i k); [reflexivity | now rewrite map_snd_enumerate | exact Hi].
Qed.

(* ------------------------------------------------------------------ column_stack / combine_step *)
Lemma column_stack_maps {A} (fs : list (A -> list cell)) (f0 : A -> list cell) (l : list A) :
  fold_left zipapp (map (fun f => map f l) fs) (map f0 l) = map (fun x => f0 x ++ flat_map (fun f => f x) fs) l.
Proof.
  revert f0. induction fs as [|f fs IH]; intros f0; cbn.
  - apply map_ext. intros x. now rewrite app_nil_r.
  - rewrite zipapp_map, IH. apply map_ext. intros x. now rewrite app_assoc.
Qed.

Lemma lookup_fold_del {V} std (cs : list Z) : forall (p : dict V),
  lookup std (fold_left (fun p c => if c =? std then p else del c p) cs p) = lookup std p.
Proof.
  induction cs as [|c cs IH]; intros p; cbn; [reflexivity|]. rewrite IH.
  destruct (c =? std) eqn:E; [reflexivity|]. apply lookup_del_neq. apply Z.eqb_neq in E. congruence.
Qed.

Lemma lookup_fold_del_other {V} std (cs : list Z) k : ~ In k cs -> forall (p : dict V),
  lookup k (fold_left (fun p c => if c =? std then p else del c p) cs p) = lookup k p.
Proof.
  induction cs as [|c cs IH]; intros Hk p; cbn; [reflexivity|]. cbn in Hk. rewrite IH by tauto.
  destruct (c =? std); [reflexivity|]. apply lookup_del_neq. intros E. apply Hk. now left.
Qed.

Lemma geff_columns_lookup names ns k : In k names ->
  lookup k (geff_columns names ns) = Some (map (fun n => map Some (getd k (snd n) [])) ns).
Proof.
  unfold geff_columns. induction names as [|k' names IH]; intros Hin; [destruct Hin|]. cbn.
  destruct (k =? k') eqn:E.
  - apply Z.eqb_eq in E. now subst.
  - apply Z.eqb_neq in E. destruct Hin as [H|H]; [congruence | now apply IH].
Qed.

Lemma flat_map_map_some (ks : list Z) (f : Z -> value) : flat_map (fun k => map Some (f k)) ks = map Some (flat_map f ks).
Proof. induction ks as [|k ks IH]; cbn; [reflexivity|]. now rewrite IH, map_app. Qed.

(* GEFF position round trip, on whole property arrays: the per-axis properties the exporter wrote,
   stacked by _combine_multi_value_props in axis order, are the positions (any number of axes >= 1) *)
Lemma geff_position_roundtrip ns pk keys names std :
  keys <> [] -> NoDup keys -> incl keys names ->
  (forall n, In n ns -> length (getd pk (snd n) []) = length keys) ->
  let exported := map (fun n => (fst n, split_attrs pk keys (snd n))) ns in
  lookup std (combine_step (geff_columns names exported) (std, MMulti keys))
  = Some (map (fun n => map Some (getd pk (snd n) [])) ns).
Proof.
  intros Hne Hnd Hincl Hlen exported. unfold combine_step. cbn [snd fst].
  destruct keys as [|k0 keys]; [congruence|].
  assert (Hall : forallb (fun c => haskey c (geff_columns names exported)) (k0 :: keys) = true).
  { apply forallb_forall. intros c Hc. unfold haskey. rewrite geff_columns_lookup; [reflexivity | now apply Hincl]. }
  rewrite Hall. rewrite lookup_fold_del, lookup_set_eq. f_equal.
  assert (Hcols : map (fun c => getd c (geff_columns names exported) []) (k0 :: keys)
                  = map (fun c => map (fun n => map Some (getd c (split_attrs pk (k0 :: keys) (snd n)) [])) ns) (k0 :: keys)).
  { apply map_ext_in. intros c Hc. apply lookup_getd. rewrite geff_columns_lookup by now apply Hincl.
    unfold exported. now rewrite map_map. }
  rewrite Hcols. cbn [map column_stack].
  rewrite <- (map_map (fun c => fun n : Z * attrs => map Some (getd c (split_attrs pk (k0 :: keys) (snd n)) []))
                      (fun f => map f ns) keys).
  rewrite column_stack_maps. apply map_ext_in. intros n Hn.
  rewrite flat_map_concat_map, map_map, <- flat_map_concat_map.
  change (map Some (getd k0 (split_attrs pk (k0 :: keys) (snd n)) []) ++
          flat_map (fun c => map Some (getd c (split_attrs pk (k0 :: keys) (snd n)) [])) keys)
    with (flat_map (fun c => map Some (getd c (split_attrs pk (k0 :: keys) (snd n)) [])) (k0 :: keys)).
  rewrite flat_map_map_some. f_equal. apply split_combine_value; [exact Hnd | now apply Hlen].
Qed.

(* other properties are untouched by a combining step *)
Lemma combine_step_other props std keys k : k <> std -> ~ In k keys ->
  lookup k (combine_step props (std, MMulti keys)) = lookup k props.
Proof.
  intros Hstd Hk. unfold combine_step. cbn [snd fst]. destruct keys as [|k0 keys]; [reflexivity|].
  destruct (forallb _ _); [|reflexivity].
  rewrite lookup_fold_del_other by exact Hk. now apply lookup_set_neq.
Qed.

(* ------------------------------------------------------------------ CSV *)
Lemma dataframe_maps {A} (row : A -> dict cell) (ns : list A) header :
  dataframe (map row ns) header = map (fun c => (c, map (fun n => getd c (row n) None) ns)) header.
Proof. unfold dataframe. apply map_ext. intros c. now rewrite map_map. Qed.

Lemma csv_row_2d g tk pk trk i a p0 p1 : get_position pk a = [p0; p1] ->
  csv_row g tk pk trk false (i, a) =
  [(K_id, Some i); (K_parent, hd_error (preds g i)); (C_t, hd_error (getd tk a [])); (K_y, Some p0); (K_x, Some p1);
   (K_track, hd_error (getd trk a []))].
Proof. intros H. unfold csv_row. cbn [fst snd]. rewrite H. reflexivity. Qed.

Lemma csv_row_3d g tk pk trk i a p0 p1 p2 : get_position pk a = [p0; p1; p2] ->
  csv_row g tk pk trk true (i, a) =
  [(K_id, Some i); (K_parent, hd_error (preds g i)); (C_t, hd_error (getd tk a [])); (K_z, Some p0); (K_y, Some p1); (K_x, Some p2);
   (K_track, hd_error (getd trk a []))].
Proof. intros H. unfold csv_row. cbn [fst snd]. rewrite H. reflexivity. Qed.

(* what the importer computes on a table with the exporter's 2D / 3D header, column contents arbitrary *)
Lemma import_csv_shape_2d (ct cy cx cid cpar ctr : list cell) :
  import_csv (explicit_csv_map false)
    [(C_t, ct); (K_y, cy); (K_x, cx); (K_id, cid); (K_parent, cpar); (K_track, ctr)]
  = {| g_nodes := construct (cat_some cid) [(K_time, wrap ct); (K_track, wrap ctr); (K_pos, zipapp (wrap cy) (wrap cx))];
       g_edges := edge_tuples cpar cid |}.
Proof. reflexivity. Qed.

Lemma import_csv_shape_3d (ct cz cy cx cid cpar ctr : list cell) :
  import_csv (explicit_csv_map true)
    [(C_t, ct); (K_z, cz); (K_y, cy); (K_x, cx); (K_id, cid); (K_parent, cpar); (K_track, ctr)]
  = {| g_nodes := construct (cat_some cid)
                    [(K_time, wrap ct); (K_track, wrap ctr); (K_pos, zipapp (zipapp (wrap cz) (wrap cy)) (wrap cx))];
       g_edges := edge_tuples cpar cid |}.
Proof. reflexivity. Qed.

Lemma construct_three {A} (fi : A -> Z) (f1 f2 f3 : A -> list cell) (k1 k2 k3 : Z) (ns : list A) :
  construct (map fi ns) [(k1, map f1 ns); (k2, map f2 ns); (k3, map f3 ns)]
  = map (fun n => (fi n, [(k1, to_value (f1 n)); (k2, to_value (f2 n)); (k3, to_value (f3 n))])) ns.
Proof. induction ns as [|n ns IH]; cbn; [reflexivity|]. now rewrite <- IH. Qed.

(* the hypotheses on a node that the CSV exporter needs to write a complete row *)
Definition csv_node_ok (tk : Z) (pk : poskey) (trk : Z) (is3d : bool) (n : Z * attrs) : Prop :=
  (exists t, getd tk (snd n) [] = [t]) /\ (exists k, getd trk (snd n) [] = [k]) /\
  length (get_position pk (snd n)) = length (coords is3d).

Lemma csv_roundtrip g tk pk trk is3d :
  (forall n, In n (g_nodes g) -> csv_node_ok tk pk trk is3d n) ->
  import_csv (explicit_csv_map is3d) (export_csv g tk pk trk is3d)
  = {| g_nodes := map (csv_projection tk pk trk) (g_nodes g); g_edges := csv_edges g |}.
Proof.
  intros Hok. unfold export_csv. rewrite dataframe_maps.
  destruct is3d.
  - (* 3D *)
    cbn [csv_header coords app map].
    rewrite import_csv_shape_3d. unfold csv_edges. f_equal.
    + rewrite !wrap_map, !zipapp_map.
      rewrite <- (map_map (fun n => getd K_id (csv_row g tk pk trk true n) None) (fun c => c)) at 1.
      rewrite map_id.
      transitivity (construct (map fst (g_nodes g))
        [(K_time, map (fun n => [getd C_t (csv_row g tk pk trk true n) None]) (g_nodes g));
         (K_track, map (fun n => [getd K_track (csv_row g tk pk trk true n) None]) (g_nodes g));
         (K_pos, map (fun n => ([getd K_z (csv_row g tk pk trk true n) None] ++ [getd K_y (csv_row g tk pk trk true n) None])
                               ++ [getd K_x (csv_row g tk pk trk true n) None]) (g_nodes g))]).
      * f_equal. rewrite <- (cat_some_ids fst). f_equal. apply map_ext_in. intros [i a] Hn.
        destruct (Hok _ Hn) as (_ & _ & Hl). cbn in Hl.
        destruct (get_position pk a) as [|p0 [|p1 [|p2 [|]]]] eqn:Hp; cbn in Hl; try discriminate.
        now rewrite (csv_row_3d g tk pk trk i a p0 p1 p2 Hp).
      * rewrite construct_three. apply map_ext_in. intros [i a] Hn.
        destruct (Hok _ Hn) as ((t & Ht) & (k & Hk) & Hl). cbn in Hl, Ht, Hk.
        destruct (get_position pk a) as [|p0 [|p1 [|p2 [|]]]] eqn:Hp; cbn in Hl; try discriminate.
        rewrite (csv_row_3d g tk pk trk i a p0 p1 p2 Hp). unfold csv_projection. cbn [fst snd].
        rewrite Hp, Ht, Hk. reflexivity.
    + f_equal; apply map_ext_in; intros [i a] Hn;
        destruct (Hok _ Hn) as (_ & _ & Hl); cbn in Hl;
        destruct (get_position pk a) as [|p0 [|p1 [|p2 [|]]]] eqn:Hp; cbn in Hl; try discriminate;
        now rewrite (csv_row_3d g tk pk trk i a p0 p1 p2 Hp).
  - (* 2D *)
    cbn [csv_header coords app map].
    rewrite import_csv_shape_2d. unfold csv_edges. f_equal.
    + rewrite !wrap_map, !zipapp_map.
      transitivity (construct (map fst (g_nodes g))
        [(K_time, map (fun n => [getd C_t (csv_row g tk pk trk false n) None]) (g_nodes g));
         (K_track, map (fun n => [getd K_track (csv_row g tk pk trk false n) None]) (g_nodes g));
         (K_pos, map (fun n => [getd K_y (csv_row g tk pk trk false n) None] ++ [getd K_x (csv_row g tk pk trk false n) None])
                     (g_nodes g))]).
      * f_equal. rewrite <- (cat_some_ids fst). f_equal. apply map_ext_in. intros [i a] Hn.
        destruct (Hok _ Hn) as (_ & _ & Hl). cbn in Hl.
        destruct (get_position pk a) as [|p0 [|p1 [|]]] eqn:Hp; cbn in Hl; try discriminate.
        now rewrite (csv_row_2d g tk pk trk i a p0 p1 Hp).
      * rewrite construct_three. apply map_ext_in. intros [i a] Hn.
        destruct (Hok _ Hn) as ((t & Ht) & (k & Hk) & Hl). cbn in Hl, Ht, Hk.
        destruct (get_position pk a) as [|p0 [|p1 [|]]] eqn:Hp; cbn in Hl; try discriminate.
        rewrite (csv_row_2d g tk pk trk i a p0 p1 Hp). unfold csv_projection. cbn [fst snd].
        rewrite Hp, Ht, Hk. reflexivity.
    + f_equal; apply map_ext_in; intros [i a] Hn;
        destruct (Hok _ Hn) as (_ & _ & Hl); cbn in Hl;
        destruct (get_position pk a) as [|p0 [|p1 [|]]] eqn:Hp; cbn in Hl; try discriminate;
        now rewrite (csv_row_2d g tk pk trk i a p0 p1 Hp).
Qed.

(* ---- the edges a CSV carries are the graph's edges when every node has at most one parent ---- *)
Lemma in_edge_tuples parents ids u v :
  In (u, v) (edge_tuples parents ids) <-> In (Some u, Some v) (combine parents ids) /\ u <> -1.
Proof.
  unfold edge_tuples. rewrite in_flat_map. split.
  - intros [[p c] [Hin Hx]]. destruct p as [p|]; [|destruct Hx]. destruct c as [c|]; [|destruct Hx].
    destruct (p =? -1) eqn:E; [destruct Hx|]. destruct Hx as [Hx|[]]. inversion Hx; subst.
    apply Z.eqb_neq in E. now split.
  - intros [Hin Hne]. exists (Some u, Some v). split; [exact Hin|].
    apply Z.eqb_neq in Hne. rewrite Hne. now left.
Qed.

Lemma in_combine_maps {A B C} (f : A -> B) (h : A -> C) (l : list A) x y :
  In (x, y) (combine (map f l) (map h l)) <-> exists n, In n l /\ f n = x /\ h n = y.
Proof.
  induction l as [|n l IH]; cbn; [split; [tauto | intros [? [[] _]]]|].
  rewrite IH. split.
  - intros [E | [m [Hm Hx]]]; [inversion E; exists n; auto | exists m; auto].
  - intros [m [[E | Hm] [Hx Hy]]]; [subst; left; reflexivity | right; exists m; auto].
Qed.

Lemma in_preds g u v : In u (preds g v) <-> In (u, v) (g_edges g).
Proof.
  unfold preds. rewrite in_map_iff. split.
  - intros [[a b] [E Hin]]. cbn in E. subst a. apply filter_In in Hin. cbn in Hin.
    destruct Hin as [Hin Hb]. apply Z.eqb_eq in Hb. now subst.
  - intros Hin. exists (u, v). split; [reflexivity|]. apply filter_In. split; [exact Hin|]. cbn. apply Z.eqb_refl.
Qed.

Lemma csv_edges_spec g :
  (forall u v, In (u, v) (g_edges g) -> In v (map fst (g_nodes g))) ->          (* targets are nodes *)
  (forall u u' v, In (u, v) (g_edges g) -> In (u', v) (g_edges g) -> u = u') ->  (* at most one parent *)
  (forall u v, In (u, v) (g_edges g) -> u <> -1) ->                              (* -1 means "no parent" in a CSV *)
  forall u v, In (u, v) (csv_edges g) <-> In (u, v) (g_edges g).
Proof.
  intros Htgt Hone Hneg u v. unfold csv_edges. rewrite in_edge_tuples, in_combine_maps. split.
  - intros [[n [Hn [Hp Hi]]] _]. inversion Hi; subst v.
    destruct (preds g (fst n)) as [|p r] eqn:E; cbn in Hp; [discriminate|]. inversion Hp; subst p.
    apply in_preds. rewrite E. now left.
  - intros Hin. split; [|now apply Hneg with v].
    apply Htgt in Hin as Hv. apply in_map_iff in Hv. destruct Hv as [n [Hfst Hn]].
    exists n. split; [exact Hn|]. split; [|now rewrite Hfst].
    rewrite Hfst. destruct (preds g v) as [|p r] eqn:E.
    + apply in_preds in Hin. rewrite E in Hin. destruct Hin.
    + cbn. f_equal. apply (Hone p u v); [|exact Hin]. apply in_preds. rewrite E. now left.
Qed.

Lemma csv_edges_targets_nodup g : NoDup (map fst (g_nodes g)) -> NoDup (map snd (csv_edges g)).
Proof.
  unfold csv_edges. generalize (g_nodes g) as ns. induction ns as [|n ns IH]; intros Hnd; cbn; [constructor|].
  cbn in Hnd. inversion Hnd as [|x l Hnotin Hnd' E]; subst.
  unfold edge_tuples in *. cbn. rewrite map_app.
  assert (Htl : forall x, In x (map snd (flat_map
            (fun pc : cell * cell => match pc with
                       | (Some p, Some c) => if p =? -1 then [] else [(p, c)] | _ => [] end)
            (combine (map (fun n0 => hd_error (preds g (fst n0))) ns) (map (fun n0 => Some (fst n0)) ns)))) ->
            In x (map fst ns)).
  { intros x Hx. apply in_map_iff in Hx. destruct Hx as [[p c] [E Hin]]. cbn in E. subst c.
    apply in_flat_map in Hin. destruct Hin as [[[p'|] [c'|]] [Hin Hx]]; try destruct Hx.
    destruct (p' =? -1); [destruct Hx|]. destruct Hx as [Hx|[]]. inversion Hx; subst.
    apply in_combine_maps in Hin. destruct Hin as [m [Hm [_ Hi]]]. inversion Hi. now apply in_map. }
  destruct (hd_error (preds g (fst n))) as [p|]; [|now apply IH].
  destruct (p =? -1); [now apply IH|]. cbn. constructor; [|now apply IH].
  intros Hin. apply Hnotin. now apply Htl.
Qed.

(* the whole CSV statement: nodes in order with the exported attributes, the same edge set, no repeated edge *)
Lemma csv_roundtrip_full g tk pk trk is3d :
  NoDup (map fst (g_nodes g)) ->
  (forall n, In n (g_nodes g) -> csv_node_ok tk pk trk is3d n) ->
  (forall u v, In (u, v) (g_edges g) -> In v (map fst (g_nodes g))) ->
  (forall u u' v, In (u, v) (g_edges g) -> In (u', v) (g_edges g) -> u = u') ->
  (forall u v, In (u, v) (g_edges g) -> u <> -1) ->
  let g' := import_csv (explicit_csv_map is3d) (export_csv g tk pk trk is3d) in
  g_nodes g' = map (csv_projection tk pk trk) (g_nodes g) /\
  (forall u v, In (u, v) (g_edges g') <-> In (u, v) (g_edges g)) /\
  NoDup (map snd (g_edges g')).
Proof.
  intros Hnd Hok Htgt Hone Hneg g'. unfold g'. rewrite csv_roundtrip by exact Hok. cbn [g_nodes g_edges].
  split; [reflexivity|]. split; [now apply csv_edges_spec | now apply csv_edges_targets_nodup].
Qed.

(* ------------------------------------------------------------------ FeatureDict <-> JSON *)
Lemma atoms_map ks : atoms (map JAtom ks) = Some ks.
Proof. induction ks as [|k ks IH]; cbn; [reflexivity|]. unfold atoms in IH. now rewrite IH. Qed.

Lemma dec_enc_opt o : dec_opt (Some (enc_opt o)) = o.
Proof. now destruct o. Qed.

Lemma from_json_dump fd :
  from_json (dump_json fd) = fd_init (fd_features fd) (fd_time fd) (fd_pos fd) (fd_tracklet fd) (fd_lineage fd).
Proof.
  destruct fd as [feats tk pos trk lin].
  destruct pos as [[k|ks]|], trk, lin; cbn -[atoms fd_init]; rewrite ?atoms_map; reflexivity.
Qed.

Lemma fd_init_valid fd :
  fd_init (fd_features fd) (fd_time fd) (fd_pos fd) (fd_tracklet fd) (fd_lineage fd) = if fd_valid fd then Some fd else None.
Proof. destruct fd as [feats tk pos trk lin]. unfold fd_init, fd_valid. cbn. destruct pos as [[k|ks]|]; reflexivity. Qed.

Lemma featuredict_roundtrip fd : fd_valid fd = true -> from_json (dump_json fd) = Some fd.
Proof. intros Hv. now rewrite from_json_dump, fd_init_valid, Hv. Qed.

(* without the invariant the load raises: what the per-axis defect looked like *)
Lemma featuredict_invalid fd : fd_valid fd = false -> from_json (dump_json fd) = None.
Proof. intros Hv. now rewrite from_json_dump, fd_init_valid, Hv. Qed.

(* ------------------------------------------------------------------ track ids kept *)
Lemma setup_feature_keeps compute ns key :
  (forall n, In n ns -> haskey key (snd n) = true) -> setup_feature compute ns key = ns.
Proof.
  intros H. unfold setup_feature. destruct ns as [|n ns]; [reflexivity|].
  cbn [check_existing].
  match goal with |- (if ?b then _ else _) = _ => replace b with true by (symmetry; apply H; now left) end.
  reflexivity.
Qed.

Lemma setup_feature_recomputes compute n ns key :
  haskey key (snd n) = false ->
  setup_feature compute (n :: ns) key = map (fun m => (fst m, set key (compute (n :: ns) (fst m)) (snd m))) (n :: ns).
Proof.
  intros H. unfold setup_feature. cbn [check_existing].
  match goal with |- (if ?b then _ else _) = _ => replace b with false by (symmetry; exact H) end.
  reflexivity.
Qed.

Lemma validate_track_prop_valid props : validate_track_prop true props = props.
Proof. unfold validate_track_prop. now destruct (haskey K_track props). Qed.

(* every node of an imported CSV carries the track id that was written *)
Lemma csv_import_has_track tk pk trk ns n : In n (map (csv_projection tk pk trk) ns) -> haskey K_track (snd n) = true.
Proof. intros Hin. apply in_map_iff in Hin. destruct Hin as [m [E _]]. subst n. reflexivity. Qed.

Lemma csv_track_ids_kept compute g tk pk trk is3d :
  (forall n, In n (g_nodes g) -> csv_node_ok tk pk trk is3d n) ->
  let imported := g_nodes (import_csv (explicit_csv_map is3d) (export_csv g tk pk trk is3d)) in
  setup_feature compute imported K_track = imported /\
  map (fun n => (fst n, getd K_track (snd n) [])) imported = map (fun n => (fst n, getd trk (snd n) [])) (g_nodes g).
Proof.
  intros Hok imported. unfold imported. rewrite csv_roundtrip by exact Hok. cbn [g_nodes]. split.
  - apply setup_feature_keeps. intros n Hn. now apply csv_import_has_track in Hn.
  - rewrite map_map. reflexivity.
Qed.

(* ------------------------------------------------------------------ the IO oracles, explicit *)
Section Oracles.
  (* pandas: what read_csv returns for the file to_csv wrote (cells compared as numbers: 8 and 8.0 are one token) *)
  Variable csv_io : table -> table.
  Hypothesis csv_io_id : forall t, csv_io t = t.
  (* json.load (json.dump x) *)
  Variable json_io : json -> json.
  Hypothesis json_io_id : forall j, json_io j = j.

  Lemma csv_roundtrip_io g tk pk trk is3d :
    (forall n, In n (g_nodes g) -> csv_node_ok tk pk trk is3d n) ->
    import_csv (explicit_csv_map is3d) (csv_io (export_csv g tk pk trk is3d))
    = {| g_nodes := map (csv_projection tk pk trk) (g_nodes g); g_edges := csv_edges g |}.
  Proof. intros H. rewrite csv_io_id. now apply csv_roundtrip. Qed.

  Lemma csv_roundtrip_full_io g tk pk trk is3d :
    NoDup (map fst (g_nodes g)) ->
    (forall n, In n (g_nodes g) -> csv_node_ok tk pk trk is3d n) ->
    (forall u v, In (u, v) (g_edges g) -> In v (map fst (g_nodes g))) ->
    (forall u u' v, In (u, v) (g_edges g) -> In (u', v) (g_edges g) -> u = u') ->
    (forall u v, In (u, v) (g_edges g) -> u <> -1) ->
    let g' := import_csv (explicit_csv_map is3d) (csv_io (export_csv g tk pk trk is3d)) in
    g_nodes g' = map (csv_projection tk pk trk) (g_nodes g) /\
    (forall u v, In (u, v) (g_edges g') <-> In (u, v) (g_edges g)) /\
    NoDup (map snd (g_edges g')).
  Proof. rewrite csv_io_id. apply csv_roundtrip_full. Qed.

  Lemma featuredict_roundtrip_io fd : fd_valid fd = true -> from_json (json_io (dump_json fd)) = Some fd.
  Proof. intros H. rewrite json_io_id. now apply featuredict_roundtrip. Qed.
End Oracles.
