(* The rolled-back refused stroke (the case Proofs/EditWFPaint.v leaves open), and with it
   paint_refused_WF for EVERY refusal and the fragment theorem without stroke precondition.

   UserUpdateSegmentation deletes / shrinks the overwritten nodes on an array the caller has already
   painted; when the nested UserAddNode is then refused, the recorded sub-actions are inverted, last
   first.  Neither run happens on well-formed states.  The proof replays both on VIRTUAL states that
   differ from the real ones in the array only: there the pixels of the groups still to be processed
   carry their old label (and the background pixels of the stroke are background).  The virtual
   states are well formed, so the laws of Proofs/EditSessions.v (ConsN SI) apply to them; the real
   and the virtual run make the same decisions and record the same actions, because every value an
   action reads from the array is the mask of a label on which the two arrays agree. *)
From Coq Require Import ZArith List Bool Lia Permutation Sorted.
From FT Require Import Base.Dict Model.Edit Model.EditExec Proofs.DictLemmas Proofs.EditInv Proofs.EditGraph
  Proofs.EditWalk Proofs.EditBasic Proofs.EditUserEdge Proofs.EditUserEdgeCor.
From FT Require Proofs.BookLemmas Proofs.EditBook Proofs.EditTrk Proofs.EditLin Proofs.EditFrame Proofs.EditInverse
  Proofs.EditInverseNode Proofs.EditSessions Proofs.EditNodeBasic Proofs.EditUDN Proofs.EditUAN Proofs.EditSegUndo.
From FT Require Import Proofs.EditSeg Proofs.EditFresh Proofs.EditWFEdge Proofs.EditWFNode Proofs.EditWFPaint.
Import ListNotations.
Open Scope Z_scope.

(* ================================================================== *)
(* 1. the same state with another array                                 *)
(* ================================================================== *)
Definition sws (a : list (list Z)) (s : state) : state := upd_seg s (Some a).
Definition rmap {A} (f : state -> state) (r : res A) : res A :=
  match r with Ok x s => Ok x (f s) | Err e s => Err e (f s) end.

Lemma sws_sws a b s : sws a (sws b s) = sws a s.
Proof. reflexivity. Qed.
Lemma sws_id s a : seg s = Some a -> sws a s = s.
Proof. intros H. destruct s. cbn in *. unfold sws, upd_seg. cbn. now rewrite H. Qed.

Lemma bind_rmap {A B} (f : state -> state) (r : res A) (k : A -> state -> res B) :
  bind (rmap f r) k = match r with Ok x s => k x (f s) | Err e s => Err e (f s) end.
Proof. destruct r; reflexivity. Qed.

(* ---- the actions that never look at the array ---- *)
Lemma sna_sws a s n k v : set_node_attr (sws a s) n k v = sws a (set_node_attr s n k v).
Proof. unfold set_node_attr. cbn [g sws upd_seg]. destruct (lookup n (nodes (g s))); reflexivity. Qed.

Lemma do_del_edge_sws a s u v : do_del_edge (sws a s) u v = rmap (sws a) (do_del_edge s u v).
Proof.
  unfold do_del_edge. change (has_edge (sws a s) u v) with (has_edge s u v). destruct (negb (has_edge s u v)); reflexivity.
Qed.

Lemma track_neighbors_sws a s T tm : track_neighbors (sws a s) T tm = (sws a (fst (track_neighbors s T tm)), snd (track_neighbors s T tm)).
Proof.
  unfold track_neighbors. cbn [bk sws upd_seg]. destruct (lookup T (trk_book (bk s))) as [[|x l]|]; try reflexivity.
  cbn [fst snd]. rewrite (EditUDN.sort_by_time_ext s (upd_seg s (Some a))) by reflexivity.
  rewrite (EditUDN.scan_neighbors_ext s (upd_seg s (Some a))) by reflexivity. reflexivity.
Qed.

Lemma visit_sws a oldT newT newL st flag tn ln next n :
  visit oldT newT newL (sws a st, flag, tn, ln, next) n =
  let '(st', f, tn', ln', nx') := visit oldT newT newL (st, flag, tn, ln, next) n in (sws a st', f, tn', ln', nx').
Proof.
  unfold visit. destruct newL as [l|].
  - rewrite sna_sws. change (zattr (sws a ?x) n KTrack) with (zattr x n KTrack).
    set (s1 := set_node_attr st n KLin (VZ l)).
    change (zattr (sws a s1) n KTrack) with (zattr s1 n KTrack).
    destruct flag; [|reflexivity].
    destruct (match zattr s1 n KTrack with Some t0 => t0 =? oldT | None => false end); [rewrite sna_sws|]; reflexivity.
  - change (zattr (sws a st) n KTrack) with (zattr st n KTrack).
    destruct flag; [|reflexivity].
    destruct (match zattr st n KTrack with Some t0 => t0 =? oldT | None => false end); [rewrite sna_sws|]; reflexivity.
Qed.

Lemma fold_visit_sws a oldT newT newL : forall curr st flag tn ln nx,
  fold_left (visit oldT newT newL) curr (sws a st, flag, tn, ln, nx) =
  let '(st', f, tn', ln', nx') := fold_left (visit oldT newT newL) curr (st, flag, tn, ln, nx) in (sws a st', f, tn', ln', nx').
Proof.
  induction curr as [|x r IH]; intros st flag tn ln nx; cbn [fold_left]; [reflexivity|].
  rewrite visit_sws. destruct (visit oldT newT newL (st, flag, tn, ln, nx) x) as [[[[st1 f1] tn1] ln1] nx1]. apply IH.
Qed.

Lemma walk_sws a oldT newT newL : forall fuel st curr flag tn ln,
  walk fuel oldT newT newL (sws a st) curr flag tn ln =
  match walk fuel oldT newT newL st curr flag tn ln with Some (st', tn', ln') => Some (sws a st', tn', ln') | None => None end.
Proof.
  induction fuel as [|f IH]; intros st curr flag tn ln; destruct curr as [|c r]; cbn [walk]; try reflexivity.
  rewrite fold_visit_sws. destruct (fold_left (visit oldT newT newL) (c :: r) (st, flag, tn, ln, [])) as [[[[st1 f1] tn1] ln1] nx1]. apply IH.
Qed.

Lemma do_upd_track_sws a s start newT newL : do_upd_track (sws a s) start newT newL = rmap (sws a) (do_upd_track s start newT newL).
Proof.
  unfold do_upd_track. change (has_node (sws a s) start) with (has_node s start). destruct (negb (has_node s start)); [reflexivity|].
  change (zattr (sws a s) start KTrack) with (zattr s start KTrack). destruct (zattr s start KTrack) as [oldT|]; [|reflexivity].
  change (zattr (sws a s) start KLin) with (zattr s start KLin). change (ft (sws a s)) with (ft s).
  destruct (negb (trk_act (ft s))); [reflexivity|]. change (nodes (g (sws a s))) with (nodes (g s)).
  rewrite walk_sws. destruct (walk (S (length (nodes (g s)))) oldT newT (if lin_act (ft s) then newL else None) s [start] true [] []) as [[[st1 tn] ln]|]; [|reflexivity].
  change (bk (sws a st1)) with (bk st1). destruct (if lin_act (ft s) then newL else None); reflexivity.
Qed.

Lemma sea_sws a s u v k x : set_edge_attr (sws a s) u v k x = sws a (set_edge_attr s u v k x).
Proof. unfold set_edge_attr. change (has_edge (sws a s) u v) with (has_edge s u v). destruct (has_edge s u v); reflexivity. Qed.

Lemma fold_sna_sws a n : forall (kvs : list (Z * value)) s,
  fold_left (fun s kv => set_node_attr s n (fst kv) (snd kv)) kvs (sws a s) = sws a (fold_left (fun s kv => set_node_attr s n (fst kv) (snd kv)) kvs s).
Proof. induction kvs as [|kv r IH]; intros s; cbn [fold_left]; [reflexivity|]. rewrite sna_sws. apply IH. Qed.

Lemma fold_sna_keys_sws a n v : forall (ks : list Z) s,
  fold_left (fun s k => set_node_attr s n k v) ks (sws a s) = sws a (fold_left (fun s k => set_node_attr s n k v) ks s).
Proof. induction ks as [|k r IH]; intros s; cbn [fold_left]; [reflexivity|]. rewrite sna_sws. apply IH. Qed.

(* ================================================================== *)
(* 2. two arrays that differ where the real one shows the new label      *)
(* ================================================================== *)
Section Prel.
Variable nv : Z.

(* a : the real array; a' : the virtual one; P : the labels the new label may hide *)
Definition prel (P : Z -> Prop) (a a' : list (list Z)) : Prop :=
  same_shape a a' /\
  forall tm i, 0 <= tm -> label_at a tm i = label_at a' tm i \/ (label_at a tm i = nv /\ P (label_at a' tm i)).

Lemma label_at_norm sg tm i : label_at sg tm i = label_at sg (Z.of_nat (Z.to_nat tm)) i.
Proof. unfold label_at, frame_of. now rewrite Nat2Z.id. Qed.
Lemma mask_of_norm sg tm m : mask_of sg tm m = mask_of sg (Z.of_nat (Z.to_nat tm)) m.
Proof. unfold mask_of, frame_of. now rewrite Nat2Z.id. Qed.

Lemma prel_mask P a a' tm m : prel P a a' -> m <> nv -> ~ P m -> mask_of a tm m = mask_of a' tm m.
Proof.
  intros [[_ Sh] Hl] Hm Hp. rewrite (mask_of_norm a), (mask_of_norm a'). set (tm' := Z.of_nat (Z.to_nat tm)).
  apply mask_of_ext; [apply Sh|]. intros i _. destruct (Hl tm' i ltac:(unfold tm'; lia)) as [E|[E1 E2]]; [now rewrite E|].
  split; intros E; [congruence|]. rewrite E in E2. contradiction.
Qed.

Lemma prel_weaken (P P' : Z -> Prop) a a' : (forall m, P m -> P' m) -> prel P a a' -> prel P' a a'.
Proof. intros H [Sh Hl]. split; [exact Sh|]. intros tm i Ht. destruct (Hl tm i Ht) as [E|[E1 E2]]; auto. Qed.

Lemma prel_paint P a a' t idx v : 0 <= t -> prel P a a' -> prel P (paint_arr a t idx v) (paint_arr a' t idx v).
Proof.
  intros Ht [Sh Hl]. split.
  - eapply same_shape_trans; [apply paint_same_shape|]. eapply same_shape_trans; [exact Sh|]. apply same_shape_sym, paint_same_shape.
  - intros tm i Htm. rewrite !label_at_paint by assumption. destruct Sh as [_ Sh]. rewrite (Sh t).
    destruct ((tm =? t) && memz (Z.of_nat i) idx && (i <? length (frame_of a' t))%nat); [now left|now apply Hl].
Qed.

(* zeroing the pixels of a hidden label that are hidden: the label is no longer hidden *)
Lemma prel_unhide (P P' : Z -> Prop) a a' t idx old : 0 <= t -> prel P a a' ->
  (forall m, P m -> m = old \/ P' m) ->
  (forall tm i, 0 <= tm -> label_at a' tm i = old -> label_at a tm i = nv -> old <> nv ->
     tm = t /\ In (Z.of_nat i) idx /\ (i < length (frame_of a t))%nat) ->
  prel P' (paint_arr a t idx 0) (paint_arr a' t idx 0).
Proof.
  intros Ht [Sh Hl] HP Hh. split.
  - eapply same_shape_trans; [apply paint_same_shape|]. eapply same_shape_trans; [exact Sh|]. apply same_shape_sym, paint_same_shape.
  - intros tm i Htm. rewrite !label_at_paint by assumption. destruct Sh as [_ Sh]. rewrite <- (Sh t).
    destruct ((tm =? t) && memz (Z.of_nat i) idx && (i <? length (frame_of a t))%nat) eqn:Ec; [now left|].
    destruct (Hl tm i Htm) as [E|[E1 E2]]; [now left|]. destruct (HP _ E2) as [Eo|Hp']; [|right; auto].
    destruct (Z.eq_dec old nv) as [En|En]; [left; congruence|].
    destruct (Hh tm i Htm Eo E1 En) as (-> & Hin & Hi). apply memz_In in Hin. apply Nat.ltb_lt in Hi.
    rewrite Z.eqb_refl, Hin, Hi in Ec. discriminate.
Qed.

Definition visible (P : Z -> Prop) (m : Z) : Prop := m <> nv /\ ~ P m.

Lemma prel_iou P a a' s u v : prel P a a' -> visible P u -> visible P v -> iou_of s a u v = iou_of s a' u v.
Proof. intros H [U1 U2] [V1 V2]. unfold iou_of. now rewrite !(prel_mask P a a' _ _ H) by assumption. Qed.

Lemma prel_frame_ok P a a' x : prel P a a' -> frame_ok a' x = frame_ok a x.
Proof. intros [Sh _]. symmetry. now apply frame_ok_shape. Qed.

(* ---- the actions that read the array ---- *)
Lemma iou_update_edges_sws a a' es : forall s, seg s = Some a ->
  (forall e, In e es -> has_edge s (fst e) (snd e) = true -> iou_of s a' (fst e) (snd e) = iou_of s a (fst e) (snd e)) ->
  iou_update_edges (sws a' s) es = sws a' (iou_update_edges s es).
Proof.
  intros s Hs Hio. unfold iou_update_edges. change (seg (sws a' s)) with (Some a'). change (ft (sws a' s)) with (ft s). rewrite Hs.
  destruct (iou_act (ft s)); [|reflexivity].
  assert (G : forall es s1, nodes (g s1) = nodes (g s) -> (forall x y, has_edge s1 x y = has_edge s x y) -> (forall e, In e es -> In e es) ->
     (forall e, In e es -> has_edge s (fst e) (snd e) = true -> iou_of s a' (fst e) (snd e) = iou_of s a (fst e) (snd e)) ->
     fold_left (fun s0 e => set_edge_attr s0 (fst e) (snd e) KIou (iou_of s0 a' (fst e) (snd e))) es (sws a' s1) =
     sws a' (fold_left (fun s0 e => set_edge_attr s0 (fst e) (snd e) KIou (iou_of s0 a (fst e) (snd e))) es s1)).
  { clear es Hio. induction es as [|e r IH]; intros s1 Hn He _ Hio; cbn [fold_left]; [reflexivity|].
    rewrite sea_sws.
    assert (E1 : iou_of (sws a' s1) a' (fst e) (snd e) = iou_of s a' (fst e) (snd e)) by (apply iou_of_nodes; exact Hn).
    assert (E2 : iou_of s1 a (fst e) (snd e) = iou_of s a (fst e) (snd e)) by (apply iou_of_nodes; exact Hn).
    destruct (has_edge s1 (fst e) (snd e)) eqn:Ee.
    - rewrite E1, E2, (Hio e (or_introl eq_refl)) by (now rewrite <- He). apply IH.
      + now rewrite sea_nodes.
      + intros x y. destruct (sea_spec s1 (fst e) (snd e) KIou (iou_of s a (fst e) (snd e)) Ee) as [S1 _]. now rewrite S1.
      + auto.
      + intros e' Hin. apply Hio. now right.
    - rewrite !(sea_noedge s1 _ _ _ _ Ee). apply IH; auto. intros e' Hin. apply Hio. now right. }
  apply G; auto.
Qed.

Lemma do_add_edge_sws a a' s u v x : seg s = Some a ->
  (is_node s u -> is_node s v -> iou_of s a' u v = iou_of s a u v) ->
  do_add_edge (sws a' s) u v x = rmap (sws a') (do_add_edge s u v x).
Proof.
  intros Hs Hio. unfold do_add_edge. change (has_node (sws a' s) u) with (has_node s u). change (has_node (sws a' s) v) with (has_node s v).
  destruct (has_node s u) eqn:Nu; [|reflexivity]. destruct (has_node s v) eqn:Nv; [|reflexivity]. cbn [negb].
  apply is_node_haskey in Nu. apply is_node_haskey in Nv. specialize (Hio Nu Nv).
  change (edge_attrs (sws a' s) u v) with (edge_attrs s u v). change (adj (sws a' s) u) with (adj s u).
  change (nodes (g (sws a' s))) with (nodes (g s)). change (succs (g (sws a' s))) with (succs (g s)).
  set (G := {| nodes := nodes (g s); succs := set u (set v (update (edge_attrs s u v) x) (adj s u)) (succs (g s)) |}).
  change (upd_g (sws a' s) G) with (sws a' (upd_g s G)). cbn [rmap]. f_equal.
  apply (iou_update_edges_sws a a'); [exact Hs|]. intros e [<-|[]] _. cbn [fst snd]. exact Hio.
Qed.

Lemma rp_update_sws a a' s n : seg s = Some a -> mask_of a' (time_of s n) n = mask_of a (time_of s n) n ->
  rp_update (sws a' s) n = sws a' (rp_update s n).
Proof.
  intros Hs Hm. unfold rp_update. change (seg (sws a' s)) with (Some a'). rewrite Hs.
  change (time_of (sws a' s) n) with (time_of s n). change (ft (sws a' s)) with (ft s). rewrite Hm. apply fold_sna_keys_sws.
Qed.

(* DeleteNode with pixels: writes only *)
Lemma do_del_node_sws a a' s n t idx b s1 : seg s = Some a -> same_shape a a' ->
  do_del_node s n (Some (t, idx)) = Ok b s1 ->
  do_del_node (sws a' s) n (Some (t, idx)) = Ok b (sws (paint_arr a' t idx 0) s1) /\ seg s1 = Some (paint_arr a t idx 0).
Proof.
  intros Hs Sh H. unfold do_del_node in *. change (nodes (g (sws a' s))) with (nodes (g s)).
  destruct (lookup n (nodes (g s))) as [d|]; [|discriminate]. cbv zeta in *.
  unfold set_pixels in *. change (seg (sws a' s)) with (Some a'). rewrite Hs in H. cbn [fst snd] in *.
  rewrite <- (frame_ok_shape a a' t Sh). destruct (frame_ok a t); [|discriminate]. cbn [bind] in *.
  fold (paint_arr a t idx 0) in H. fold (paint_arr a' t idx 0).
  cbn [ft upd_g upd_seg sws] in H |- *. destruct (negb (trk_act (ft s))); injection H as <- <-; split; reflexivity.
Qed.

(* UpdateNodeSeg *)
Lemma do_upd_seg_sws a a' s n t idx (added : bool) b s1 : seg s = Some a -> same_shape a a' -> ~ In KTime (rp_act (ft s)) ->
  let v := if added then n else 0 in
  mask_of (paint_arr a' t idx v) (time_of s n) n = mask_of (paint_arr a t idx v) (time_of s n) n ->
  (forall u w, edge s u w -> u = n \/ w = n -> iou_of s (paint_arr a' t idx v) u w = iou_of s (paint_arr a t idx v) u w) ->
  do_upd_seg s n (t, idx) added = Ok b s1 ->
  do_upd_seg (sws a' s) n (t, idx) added = Ok b (sws (paint_arr a' t idx v) s1) /\ seg s1 = Some (paint_arr a t idx v).
Proof.
  intros Hs Sh Hkt v Hm Hio H. unfold do_upd_seg in *. unfold set_pixels in *. change (seg (sws a' s)) with (Some a'). rewrite Hs in H. cbn [fst snd] in *.
  rewrite <- (frame_ok_shape a a' t Sh). destruct (frame_ok a t); [|discriminate]. cbn [bind] in *.
  fold v in H |- *. fold (paint_arr a t idx v) in H. fold (paint_arr a' t idx v).
  set (a1 := paint_arr a t idx v) in *. set (a1' := paint_arr a' t idx v) in *.
  change (upd_seg (sws a' s) (Some a1')) with (sws a1' (upd_seg s (Some a1))).
  set (s0 := upd_seg s (Some a1)) in *.
  change (has_node (sws a1' s0) n) with (has_node s0 n). change (ft (sws a1' s0)) with (ft s0).
  destruct (negb (has_node s0 n) && match rp_act (ft s0) with [] => false | _ :: _ => true end); [discriminate|].
  destruct (negb (has_node s0 n) && iou_act (ft s0)); [discriminate|].
  injection H as <- <-.
  assert (Hs0 : seg s0 = Some a1) by reflexivity.
  rewrite (rp_update_sws a1 a1' s0 n Hs0 Hm).
  set (s2 := rp_update s0 n).
  change (predecessors (sws a1' s2) n) with (predecessors s2 n). change (successors (sws a1' s2) n) with (successors s2 n).
  destruct (rp_update_graph_only s0 n) as (G1 & G2 & G3). fold s2 in G1, G2, G3.
  split; [f_equal|now rewrite iou_update_seg, G1].
  apply (iou_update_edges_sws a1 a1'); [now rewrite G1|].
  intros e Hin He.
  pose proof (rp_update_keep s0 n) as Hk. fold s2 in Hk.
  assert (HT : forall m, time_of s2 m = time_of s m) by (intros m; exact (nodes_keep_time _ _ _ m Hkt Hk)).
  assert (E1 : iou_of s2 a1' (fst e) (snd e) = iou_of s a1' (fst e) (snd e)) by (apply iou_of_ext; auto).
  assert (E2 : iou_of s2 a1 (fst e) (snd e) = iou_of s a1 (fst e) (snd e)) by (apply iou_of_ext; auto).
  rewrite E1, E2. apply Hio.
  - unfold edge. rewrite <- He. symmetry. apply has_edge_succs. exact G3.
  - unfold upd_seg_edges in Hin. apply in_app_iff in Hin. destruct Hin as [Hin|Hin]; apply in_map_iff in Hin; destruct Hin as (x & <- & _); cbn; auto.
Qed.

(* AddNode with pixels *)
Lemma do_add_node_sws a a' s n attrs t idx b s1 : seg s = Some a -> same_shape a a' ->
  (forall tm, mask_of (paint_arr a' t idx n) tm n = mask_of (paint_arr a t idx n) tm n) ->
  do_add_node s n attrs (Some (t, idx)) = Ok b s1 ->
  do_add_node (sws a' s) n attrs (Some (t, idx)) = Ok b (sws (paint_arr a' t idx n) s1) /\ seg s1 = Some (paint_arr a t idx n).
Proof.
  intros Hs Sh Hm H. unfold do_add_node in *.
  destruct (negb (haskey KTime attrs)); [discriminate|]. destruct (negb (haskey KTrack attrs)); [discriminate|].
  unfold set_pixels in *. change (seg (sws a' s)) with (Some a'). rewrite Hs in H. cbn [fst snd] in *.
  rewrite <- (frame_ok_shape a a' t Sh). destruct (frame_ok a t); [|discriminate]. cbn [bind] in *.
  fold (paint_arr a t idx n) in H. fold (paint_arr a' t idx n).
  set (a1 := paint_arr a t idx n) in *. set (a1' := paint_arr a' t idx n) in *.
  change (upd_seg (sws a' s) (Some a1')) with (sws a1' (upd_seg s (Some a1))).
  set (s0 := upd_seg s (Some a1)) in *. cbv zeta in *.
  change (nodes (g (sws a1' s0))) with (nodes (g s0)). change (succs (g (sws a1' s0))) with (succs (g s0)).
  set (sA := if haskey n (nodes (g s0)) then s0 else upd_g s0 {| nodes := nodes (g s0) ++ [(n, [])]; succs := set n (getd n (succs (g s0)) []) (succs (g s0)) |}) in *.
  assert (EA : (if haskey n (nodes (g s0)) then sws a1' s0
                else upd_g (sws a1' s0) {| nodes := nodes (g s0) ++ [(n, [])]; succs := set n (getd n (succs (g s0)) []) (succs (g s0)) |}) = sws a1' sA).
  { unfold sA. destruct (haskey n (nodes (g s0))); reflexivity. }
  rewrite EA, fold_sna_sws.
  set (sB := fold_left (fun s kv => set_node_attr s n (fst kv) (snd kv)) attrs sA) in *.
  assert (HsB : seg sB = Some a1).
  { destruct (set_attrs_graph_only sA n attrs) as (E & _). unfold set_attrs in E. fold sB in E. rewrite E. unfold sA. destruct (haskey n (nodes (g s0))); reflexivity. }
  rewrite (rp_update_sws a1 a1' sB n HsB (Hm _)).
  set (sC := rp_update sB n) in *.
  assert (HsC : seg sC = Some a1) by (destruct (rp_update_graph_only sB n) as (E & _); fold sC in E; now rewrite E).
  change (ft (sws a1' sC)) with (ft sC). destruct (negb (trk_act (ft sC))).
  - injection H as <- <-. split; [reflexivity|exact HsC].
  - change (zattr (sws a1' sC) n KTrack) with (zattr sC n KTrack). destruct (zattr sC n KTrack) as [T|]; [|discriminate].
    change (bk (sws a1' sC)) with (bk sC). change (zattr (sws a1' sC) n KLin) with (zattr sC n KLin).
    destruct (if lin_act (ft sC) then match zattr sC n KLin with Some l => _ | None => _ end else _) as [lb ml].
    injection H as <- <-. split; [reflexivity|exact HsC].
Qed.

End Prel.

(* ================================================================== *)
(* 3. UserDeleteNode with the stroke's pixels, on the other array        *)
(* ================================================================== *)
Lemma udn_preds_sws a n : forall ps s acc, udn_preds n ps (sws a s) acc = rmap (sws a) (udn_preds n ps s acc).
Proof.
  induction ps as [|p r IH]; intros s acc; cbn [udn_preds]; [reflexivity|]. cbv zeta.
  change (successors (sws a s) p) with (successors s p). change (zattr (sws a s) p KTrack) with (zattr s p KTrack).
  assert (Hin : (if (length (successors s p) =? 2)%nat
                 then match remove1 n (successors s p), zattr s p KTrack with
                      | sib :: _, Some t => do b, s0 <- do_upd_track (sws a s) sib t None; Ok (acc ++ [ABasic b]) s0
                      | _, _ => Err EKey (sws a s) end
                 else Ok acc (sws a s)) =
                rmap (sws a) (if (length (successors s p) =? 2)%nat
                 then match remove1 n (successors s p), zattr s p KTrack with
                      | sib :: _, Some t => do b, s0 <- do_upd_track s sib t None; Ok (acc ++ [ABasic b]) s0
                      | _, _ => Err EKey s end
                 else Ok acc s)).
  { destruct (length (successors s p) =? 2)%nat; [|reflexivity]. destruct (remove1 n (successors s p)) as [|sib r']; [reflexivity|].
    destruct (zattr s p KTrack) as [t0|]; [|reflexivity]. rewrite do_upd_track_sws. destruct (do_upd_track s sib t0 None); reflexivity. }
  rewrite Hin, bind_rmap.
  match goal with |- match ?X with _ => _ end = _ => destruct X as [acc1 s1|e s1] end; cbn [bind rmap]; [|reflexivity].
  rewrite do_del_edge_sws, bind_rmap. destruct (do_del_edge s1 p n) as [b s2|e s2]; cbn [bind rmap]; [apply IH|reflexivity].
Qed.

Lemma udn_succs_sws a n : forall cs s acc, udn_succs n cs (sws a s) acc = rmap (sws a) (udn_succs n cs s acc).
Proof.
  induction cs as [|c r IH]; intros s acc; cbn [udn_succs]; [reflexivity|].
  rewrite do_del_edge_sws, bind_rmap. destruct (do_del_edge s n c) as [b s2|e s2]; cbn [bind rmap]; [apply IH|reflexivity].
Qed.

Lemma udn_orphans_sws a : forall os s acc, udn_orphans os (sws a s) acc = rmap (sws a) (udn_orphans os s acc).
Proof.
  induction os as [|o r IH]; intros s acc; cbn [udn_orphans]; [reflexivity|].
  change (zattr (sws a s) o KTrack) with (zattr s o KTrack). destruct (zattr s o KTrack) as [t0|]; [|reflexivity].
  change (next_lin (sws a s)) with (next_lin s).
  rewrite do_upd_track_sws, bind_rmap. destruct (do_upd_track s o t0 (Some (next_lin s))) as [b s2|e s2]; cbn [bind rmap]; [apply IH|reflexivity].
Qed.

Lemma scan_neighbors_times st tm : forall l pred0 p c, scan_neighbors st tm l pred0 = (p, c) ->
  (forall q, pred0 = Some q -> time_of st q < tm) ->
  (forall q, p = Some q -> time_of st q < tm) /\ (forall q, c = Some q -> time_of st q > tm).
Proof.
  induction l as [|x r IH]; intros pred0 p c H H0; cbn [scan_neighbors] in H.
  - injection H as <- <-. split; [exact H0|discriminate].
  - destruct (Z.ltb_spec (time_of st x) tm) as [Hx|Hx].
    + apply (IH (Some x) p c H). intros q [= <-]. exact Hx.
    + destruct (Z.gtb_spec (time_of st x) tm) as [Hg|Hg].
      * injection H as <- <-. split; [exact H0|]. intros q [= <-]. lia.
      * now apply (IH pred0 p c H).
Qed.

Lemma track_neighbors_times s T tm s3 p c : track_neighbors s T tm = (s3, (p, c)) ->
  (forall q, p = Some q -> time_of s q < tm) /\ (forall q, c = Some q -> time_of s q > tm).
Proof.
  unfold track_neighbors. destruct (lookup T (trk_book (bk s))) as [[|x l]|]; intros H; try (injection H as _ <- <-; split; discriminate).
  injection H as _ H. apply (scan_neighbors_times s tm _ None p c H). discriminate.
Qed.

(* the two arrays have the same shape and agree on the masks of the nodes that live before or after node n *)
Definition off_frame (s : state) (n : Z) (a a' : list (list Z)) : Prop :=
  same_shape a a' /\
  forall m tm, is_node s m -> (time_of s m < time_of s n \/ time_of s n < time_of s m) -> mask_of a' tm m = mask_of a tm m.

Lemma udn_prefix_sws a a' s n : seg s = Some a -> off_frame s n a a' ->
  EditUDN.udn_prefix (sws a' s) n = rmap (sws a') (EditUDN.udn_prefix s n).
Proof.
  intros Hs [Sh Hvis]. unfold EditUDN.udn_prefix. cbv zeta. change (predecessors (sws a' s) n) with (predecessors s n).
  rewrite udn_preds_sws, bind_rmap.
  pose proof (estep_udn_preds n (predecessors s n) s []) as E1.
  destruct (udn_preds n (predecessors s n) s []) as [acts1 s1|e1 s1]; cbn [bind rmap rstate] in *; [|reflexivity].
  change (successors (sws a' s1) n) with (successors s1 n). rewrite udn_succs_sws, bind_rmap.
  pose proof (estep_udn_succs n (successors s1 n) s1 acts1) as E2.
  destruct (udn_succs n (successors s1 n) s1 acts1) as [acts2 s2|e2 s2]; cbn [bind rmap rstate] in *; [|reflexivity].
  pose proof (estep_trans _ _ _ E1 E2) as E12.
  change (zattr (sws a' s2) n KTrack) with (zattr s2 n KTrack). destruct (zattr s2 n KTrack) as [T|]; [|reflexivity].
  change (time_of (sws a' s2) n) with (time_of s2 n). rewrite track_neighbors_sws.
  pose proof (track_neighbors_times s2 T (time_of s2 n)) as Htm. pose proof (estep_track_neighbors s2 T (time_of s2 n)) as E3.
  destruct (track_neighbors s2 T (time_of s2 n)) as [s3 [p c]]. cbn [fst snd] in *.
  specialize (Htm s3 p c eq_refl). destruct Htm as [Hpt Hct].
  pose proof (estep_trans _ _ _ E12 E3) as E13.
  destruct p as [p|]; [destruct c as [c|]|]; cbn [bind].
  - assert (Hs3 : seg s3 = Some a) by (now rewrite (estep_seg _ _ E13)).
    rewrite (do_add_edge_sws a a' s3 p c [] Hs3), bind_rmap.
    + destruct (do_add_edge s3 p c []) as [b s3'|e s3']; cbn [bind rmap]; [|reflexivity].
      rewrite udn_orphans_sws. reflexivity.
    + intros Np Nc. destruct E13 as (_ & _ & N13 & _). destruct E12 as (_ & _ & N12 & _).
      pose proof (fun m => nodes_keep_time _ _ _ m KTime_not_trk N12) as HT.
      pose proof (fun m => nodes_keep_time _ _ _ m KTime_not_trk N13) as HT3.
      apply (nodes_keep_is_node _ _ _ p N13) in Np. apply (nodes_keep_is_node _ _ _ c N13) in Nc.
      unfold iou_of. rewrite !Hvis; auto.
      * right. rewrite <- !HT. specialize (Hct c eq_refl). lia.
      * left. rewrite <- !HT. now apply Hpt.
  - rewrite udn_orphans_sws. reflexivity.
  - rewrite udn_orphans_sws. reflexivity.
Qed.

Lemma udn_core_sws a a' s n t idx act s1 : seg s = Some a -> off_frame s n a a' ->
  user_delete_node_core s n (Some (t, idx)) = Ok act s1 ->
  user_delete_node_core (sws a' s) n (Some (t, idx)) = Ok act (sws (paint_arr a' t idx 0) s1) /\ seg s1 = Some (paint_arr a t idx 0).
Proof.
  intros Hs Hoff H. rewrite EditUDN.udn_core_unfold in *.
  unfold px_check in *. change (seg (sws a' s)) with (Some a'). rewrite Hs in H. cbn [fst] in *.
  rewrite <- (frame_ok_shape a a' t (proj1 Hoff)). destruct (frame_ok a t); [|discriminate].
  change (has_node (sws a' s) n) with (has_node s n). destruct (negb (has_node s n)); [discriminate|].
  rewrite (udn_prefix_sws a a' s n Hs Hoff), bind_rmap.
  pose proof (estep_udn_prefix s n) as E4.
  destruct (EditUDN.udn_prefix s n) as [acts4 s4|e4 s4]; cbn [bind rstate] in *; [|discriminate].
  destruct (do_del_node s4 n (Some (t, idx))) as [b s5|e5 s5] eqn:H5; cbn [bind] in H; [|discriminate]. injection H as <- <-.
  assert (Hs4 : seg s4 = Some a) by (now rewrite (estep_seg _ _ E4)).
  destruct (do_del_node_sws a a' s4 n t idx b s5 Hs4 (proj1 Hoff) H5) as [H5' Hs5]. rewrite H5'. cbn [bind]. auto.
Qed.

(* ================================================================== *)
(* 4. the sub-actions of a stroke on well-formed (virtual) states       *)
(* ================================================================== *)
(* UserDeleteNode with exactly the pixels of the node *)
Lemma udn_core_WF_exact st n t idx a st' sg : WF st -> seg st = Some sg -> time_of st n = t ->
  (forall j, (j < length (frame_of sg t))%nat -> (In (Z.of_nat j) idx <-> label_at sg t j = n)) ->
  user_delete_node_core st n (Some (t, idx)) = Ok a st' -> WF st'.
Proof.
  intros W Hs Htn Hex H. pose proof (EditUDN.udn_core_GWF st n _ a st' (EditUDN.WF_GWF st W) H) as [C' D' F' T' L' B'].
  destruct W as [C D F T L B S R].
  destruct (EditUDN.udn_core_ok_unfold st n _ a st' H) as (_ & Nn & acts & s4 & b & H4 & H5).
  pose proof (estep_ok _ _ _ _ (estep_udn_prefix st n) H4) as E4.
  destruct (EditUDN.udn_prefix_spec st n D F T B Nn) as (acts' & s4' & H4' & Hd4 & _ & G4 & _).
  rewrite H4 in H4'. injection H4' as _ <-.
  pose proof (estep_W_seg st s4 E4 S) as S4. pose proof (estep_W_fresh st s4 E4 D R) as R4.
  assert (Hs4 : seg s4 = Some sg) by (now rewrite (estep_seg _ _ E4)).
  assert (Htn4 : time_of s4 n = t) by (now rewrite (gstep_time _ _ n G4)).
  pose proof S4 as S4'. apply (W_seg_iff _ _ Hs4) in S4'. destruct S4' as (I1 & I2 & I3).
  assert (Nn4 : is_node s4 n) by (now apply (gstep_is_node _ _ _ G4)).
  assert (S' : W_seg st').
  { apply (W_seg_del_node_gen s4 n t idx b st' sg H5 Hs4).
    - apply W_seg_pre_write; [exact Hs4|exact S4|]. intros i Hi Hin. right. symmetry. now apply Hex.
    - intros t' i Hf Hl. assert (Hl0 : label_at sg t' i <> 0) by (rewrite Hl; now apply I3).
      destruct (I2 t' i Hf Hl0) as [_ Ht']. rewrite Hl, Htn4 in Ht'. subst t'. split; [reflexivity|]. apply Hex; [|exact Hl].
      destruct (Nat.lt_ge_cases i (length (frame_of sg t))) as [Hi|Hi]; [exact Hi|]. exfalso. apply Hl0. now apply label_at_overflow. }
  assert (R' : W_fresh st').
  { apply W_fresh_split in R4. destruct R4 as [Hr Hi]. apply W_fresh_split.
    destruct (fresh_del_node s4 n (Some (t, idx)) b st' H5) as [P1 P2].
    - intros sg1 p Hs1 Ep. rewrite Hs4 in Hs1. injection Hs1 as <-. cbn in Ep. injection Ep as <-. cbn [fst snd].
      split; [now apply W_seg_nodes_sane|]. intros i Hi' Hin. right. now apply Hex.
    - split; [now apply P1|apply P2; [now apply W_dict_edges_sane|exact Hi]]. }
  constructor; assumption.
Qed.

(* UpdateNodeSeg taking pixels away from a node that keeps some *)
Lemma upd_seg_shrink_WF st n t idx b st' sg : WF st -> rp_disjoint st -> seg st = Some sg -> is_node st n ->
  (forall j, (j < length (frame_of sg t))%nat -> In (Z.of_nat j) idx -> label_at sg t j = n) ->
  keeps_pixel sg t idx (time_of st n) n ->
  do_upd_seg st n (t, idx) false = Ok b st' -> WF st'.
Proof.
  intros W Hrp Hs Nn Hl Hk H. pose proof (upd_seg_GWF _ _ _ _ _ _ (EditUDN.WF_GWF st W) Hrp H) as [C' D' F' T' L' B'].
  pose proof (rp_disjoint_time _ Hrp) as Hkt.
  assert (S' : W_seg st') by (exact (W_seg_upd_seg_shrink st n t idx b st' sg H Hs (w_seg _ W) Hkt Nn Hl Hk)).
  assert (R' : W_fresh st').
  { pose proof (w_fresh _ W) as R. apply W_fresh_split in R. destruct R as [Hr Hi]. apply W_fresh_split.
    destruct (fresh_upd_seg st n t idx false b st' sg H Hs Nn Hkt (W_seg_nodes_sane _ _ Hs (w_seg _ W))) as [P1 P2].
    - intros i Hi' Hin. left. now apply Hl.
    - apply mask_nonempty. destruct Hk as (i & Hi' & El & Hno). exists i.
      destruct (paint_same_shape sg t idx 0) as [_ Sh]. split; [now rewrite Sh|].
      destruct (upd_seg_effect _ _ _ _ _ _ _ _ H Hs) as (Hf & _). assert (Ht0 : 0 <= t) by (apply frame_ok_range in Hf; lia).
      assert (Htm0 : 0 <= time_of st n).
      { pose proof (w_seg _ W) as WS. apply (W_seg_iff _ _ Hs) in WS. destruct WS as (I1 & _). destruct (I1 n Nn) as [Hfn _]. apply frame_ok_range in Hfn. lia. }
      rewrite label_at_paint by assumption.
      destruct ((time_of st n =? t) && memz (Z.of_nat i) idx && (i <? length (frame_of sg t))%nat) eqn:Ec; [|exact El].
      exfalso. apply Hno. apply andb_true_iff in Ec. destruct Ec as [Ec _]. apply andb_true_iff in Ec. destruct Ec as [E1 E2].
      split; [now apply Z.eqb_eq|now apply memz_In].
    - split; [now apply P1|apply P2; [apply W_dict_edges_sane, W|exact Hi]]. }
  constructor; assumption.
Qed.

(* ---- what UpdateNodeSeg leaves alone ---- *)
Lemma iou_update_other_keys k u v : k <> KIou -> forall es s,
  lookup k (edge_attrs (iou_update_edges s es) u v) = lookup k (edge_attrs s u v) /\
  (forall x y, has_edge (iou_update_edges s es) x y = has_edge s x y).
Proof.
  intros Hk es s. unfold iou_update_edges. destruct (seg s) as [sg|]; [|auto]. destruct (iou_act (ft s)); [|auto].
  revert s. induction es as [|e r IH]; intros s; cbn [fold_left]; [auto|].
  set (s1 := set_edge_attr s (fst e) (snd e) KIou (iou_of s sg (fst e) (snd e))).
  destruct (IH s1) as [A B]. destruct (has_edge s (fst e) (snd e)) eqn:He.
  - destruct (sea_spec s (fst e) (snd e) KIou (iou_of s sg (fst e) (snd e)) He) as [S1 S2]. fold s1 in S1, S2. split.
    + rewrite A, S2. destruct ((u =? fst e) && (v =? snd e)) eqn:E; [|reflexivity].
      apply andb_true_iff in E. destruct E as [E1 E2]. apply Z.eqb_eq in E1. apply Z.eqb_eq in E2. subst. now apply lookup_set_neq.
    + intros x y. now rewrite B, S1.
  - assert (E1 : s1 = s) by (unfold s1; now apply sea_noedge). rewrite E1 in *. auto.
Qed.

Lemma has_edge_of_successors s s' u v : successors s' u = successors s u -> has_edge s' u v = has_edge s u v.
Proof.
  intros E. unfold has_edge. destruct (haskey v (adj s' u)) eqn:A, (haskey v (adj s u)) eqn:B; try reflexivity; exfalso.
  - apply haskey_keys in A. fold (successors s' u) in A. rewrite E in A. apply haskey_keys in A. unfold successors in A. congruence.
  - apply haskey_keys in B. fold (successors s u) in B. rewrite <- E in B. apply haskey_keys in B. unfold successors in B. congruence.
Qed.

Lemma upd_seg_frame s n t idx added b s2 cur : do_upd_seg s n (t, idx) added = Ok b s2 -> seg s = Some cur ->
  (forall m, is_node s2 m <-> is_node s m) /\ (forall u v, has_edge s2 u v = has_edge s u v) /\
  (forall m k, ~ In k (rp_act (ft s)) -> attr s2 m k = attr s m k) /\
  (forall u v k, k <> KIou -> lookup k (edge_attrs s2 u v) = lookup k (edge_attrs s u v)) /\ ft s2 = ft s.
Proof.
  intros H Hs. destruct (upd_seg_effect _ _ _ _ _ _ _ _ H Hs) as (_ & _ & Hft & Hk).
  split; [intros m; apply (nodes_keep_is_node _ _ _ m Hk)|].
  apply do_upd_seg_ok in H. destruct H as (st1 & Hsp & ->). apply set_pixels_ok in Hsp. destruct Hsp as (sg0 & _ & _ & ->).
  set (s1 := upd_seg s _). set (s2 := rp_update s1 n). destruct (rp_update_graph_only s1 n) as (_ & _ & G3). fold s2 in G3.
  split; [|split; [exact (proj2 Hk)|split; [|exact Hft]]].
  - intros u v. rewrite (proj2 (iou_update_other_keys KTime u v ltac:(unfold KTime, KIou; lia) _ s2)). now apply has_edge_succs.
  - intros u v k Hkk. rewrite (proj1 (iou_update_other_keys k u v Hkk _ s2)). f_equal. now apply edge_attrs_succs.
Qed.

Lemma paint_back sg t idx n : 0 <= t ->
  (forall j, (j < length (frame_of sg t))%nat -> In (Z.of_nat j) idx -> label_at sg t j = n) ->
  paint_arr (paint_arr sg t idx 0) t idx n = sg.
Proof.
  intros Ht Hl. apply arr_ext.
  - eapply same_shape_trans; apply paint_same_shape.
  - intros t' i Ht'. rewrite !label_at_paint by assumption. destruct (paint_same_shape sg t idx 0) as [_ Sh]. rewrite Sh.
    destruct ((t' =? t) && memz (Z.of_nat i) idx && (i <? length (frame_of sg t))%nat) eqn:Ec; [|reflexivity].
    apply andb_true_iff in Ec. destruct Ec as [Ec E3]. apply andb_true_iff in Ec. destruct Ec as [E1 E2].
    apply Z.eqb_eq in E1. subst t'. apply memz_In in E2. apply Nat.ltb_lt in E3. symmetry. now apply Hl.
Qed.

Notation SI := EditSessions.SI.
Notation reg_ok := EditSessions.reg_ok.
Notation obs_eq := EditInverse.obs_eq.
Notation ConsN := EditInverse.ConsN.

Lemma attr_non_node s m k : ~ is_node s m -> attr s m k = None.
Proof. intros H. destruct (attr s m k) eqn:E; [|reflexivity]. exfalso. apply H. eapply EditBook.attr_is_node; eauto. Qed.

Lemma edge_attrs_non_edge s u v : has_edge s u v = false -> edge_attrs s u v = [].
Proof. unfold has_edge, edge_attrs, haskey, getd. destruct (lookup v (adj s u)); [discriminate|reflexivity]. Qed.

Lemma classic_node s m : is_node s m \/ ~ is_node s m.
Proof. unfold is_node. destruct (in_dec Z.eq_dec m (node_ids s)); auto. Qed.

Lemma iou_inactive_edge_attrs s n t idx added b s2 cur : do_upd_seg s n (t, idx) added = Ok b s2 -> seg s = Some cur ->
  iou_act (ft s) = false -> forall u v, edge_attrs s2 u v = edge_attrs s u v.
Proof.
  intros H Hs Hact u v. apply do_upd_seg_ok in H. destruct H as (st1 & Hsp & ->). apply set_pixels_ok in Hsp. destruct Hsp as (sg0 & _ & _ & ->).
  set (s1 := upd_seg s _). destruct (rp_update_graph_only s1 n) as (_ & G2 & G3).
  rewrite iou_update_inactive by (right; now rewrite G2). now apply edge_attrs_succs.
Qed.

(* the robust undo law of a shrinking UpdateNodeSeg, one undo *)
Lemma upd_seg_shrink_ConsS1 st n t idx b st' sg : WF st -> rp_disjoint st -> reg_ok st -> seg st = Some sg ->
  is_node st n -> time_of st n = t ->
  (forall j, (j < length (frame_of sg t))%nat -> In (Z.of_nat j) idx -> label_at sg t j = n) ->
  keeps_pixel sg t idx (time_of st n) n ->
  do_upd_seg st n (t, idx) false = Ok b st' -> ConsN SI 1 (ABasic b) st st'.
Proof.
  intros W Hrp Hreg Hs Nn Htn Hl Hk H. cbn [EditInverse.ConsN]. intros s Ss Os.
  pose proof (upd_seg_shrink_WF st n t idx b st' sg W Hrp Hs Nn Hl Hk H) as W'.
  pose proof (EditInverse.obs_eq_sym _ _ Os) as Os'.
  pose proof (EditSessions.WF_obs st' s W' Ss Os') as Ws.
  pose proof (EditSegUndo.upd_seg_rec _ _ _ _ _ _ H) as Eb. rewrite Eb, EditInverse.inv_action_basic. cbn [inv_basic negb].
  destruct (upd_seg_effect _ _ _ _ _ _ _ _ H Hs) as (Hfok & Hseg' & Hft' & Hk'). cbn [negb] in Hseg'.
  assert (Ht0 : 0 <= t) by (apply frame_ok_range in Hfok; lia).
  set (sg' := paint_arr sg t idx 0) in *.
  assert (Hss : seg s = Some sg') by (rewrite (EditInverse.oe_seg _ _ Os'); exact Hseg').
  assert (Hfok' : frame_ok sg' t = true) by (unfold sg'; now rewrite (frame_ok_shape _ _ _ (paint_same_shape sg t idx 0))).
  assert (Cfg' : cfg_ok st') by apply W'.
  assert (Nns : is_node s n) by (apply (EditInverse.oe_nodes _ _ Os'); now apply (nodes_keep_is_node _ _ _ n Hk')).
  assert (Htns : time_of s n = t).
  { rewrite (EditInverseNode.obs_time st' s Os' Cfg'). now rewrite (nodes_keep_time _ _ _ n (rp_disjoint_time _ Hrp) Hk'). }
  destruct (do_upd_seg_total s sg' n t idx true Hss Hfok' Nns) as (b' & s2 & H2). rewrite H2. cbn [bind].
  assert (Hrps : rp_disjoint s) by apply Ss.
  (* the result is well formed *)
  assert (Hbg : forall i, (i < length (frame_of sg' t))%nat -> In (Z.of_nat i) idx -> label_at sg' t i = 0).
  { intros i Hi Hin. unfold sg' in *. destruct (paint_same_shape sg t idx 0) as [_ Sh]. rewrite Sh in Hi.
    rewrite label_at_paint by assumption. apply memz_In in Hin. apply Nat.ltb_lt in Hi. now rewrite Z.eqb_refl, Hin, Hi. }
  assert (W2 : WF s2).
  { pose proof (upd_seg_GWF _ _ _ _ _ _ (EditUDN.WF_GWF s Ws) Hrps H2) as [C2 D2 F2 T2 L2 B2].
    assert (H2' : do_upd_seg s n (time_of s n, idx) true = Ok b' s2) by (now rewrite Htns).
    assert (S2 : W_seg s2).
    { apply (W_seg_upd_seg_grow s n idx b' s2 sg' H2' Hss (w_seg _ Ws) (rp_disjoint_time _ Hrps) Nns). rewrite Htns. intros i Hi Hin. left. now apply Hbg. }
    assert (R2 : W_fresh s2).
    { pose proof (w_fresh _ Ws) as R. apply W_fresh_split in R. destruct R as [Hr Hi]. apply W_fresh_split.
      destruct (fresh_upd_seg s n t idx true b' s2 sg' H2 Hss Nns (rp_disjoint_time _ Hrps) (W_seg_nodes_sane _ _ Hss (w_seg _ Ws))) as [P1 P2].
      - intros i Hi' Hin. right. split; [reflexivity|now apply Hbg].
      - pose proof (w_seg _ Ws) as WS. apply (W_seg_iff _ _ Hss) in WS. destruct WS as (I1 & _). destruct (I1 n Nns) as [_ Hne].
        rewrite Htns in *. apply mask_nonempty in Hne. destruct Hne as (i & Hi' & El). apply mask_nonempty. exists i.
        destruct (paint_same_shape sg' t idx n) as [_ Sh]. split; [now rewrite Sh|]. rewrite label_at_paint by assumption.
        destruct ((t =? t) && memz (Z.of_nat i) idx && (i <? length (frame_of sg' t))%nat); [reflexivity|exact El].
      - split; [now apply P1|apply P2; [apply W_dict_edges_sane, Ws|exact Hi]]. }
    constructor; assumption. }
  destruct (upd_seg_frame s n t idx true b' s2 sg' H2 Hss) as (N2 & E2 & A2 & X2 & Ft2).
  destruct (upd_seg_frame st n t idx false b st' sg H Hs) as (N1 & E1 & A1 & X1 & Ft1).
  assert (Hseg2 : seg s2 = Some sg).
  { destruct (upd_seg_effect _ _ _ _ _ _ _ _ H2 Hss) as (_ & E & _). rewrite E. f_equal. unfold sg'. now apply paint_back. }
  exists (ABasic b'), s2. split; [reflexivity|]. split.
  { apply (EditSessions.SI_ft s s2 Ft2); [apply W2|apply W2|exact Ss]. }
  split; [|exact Logic.I].
  assert (Hfts : ft s = ft st) by (rewrite <- (EditInverse.oe_ft _ _ Os); exact Hft').
  assert (Htm : forall m, time_of s2 m = time_of st m).
  { intros m. destruct (upd_seg_effect _ _ _ _ _ _ _ _ H2 Hss) as (_ & _ & _ & Hk2).
    rewrite (nodes_keep_time _ _ _ m (rp_disjoint_time _ Hrps) Hk2), (EditInverseNode.obs_time st' s Os' Cfg').
    exact (nodes_keep_time _ _ _ m (rp_disjoint_time _ Hrp) Hk'). }
  assert (Hnod : forall m, is_node st m <-> is_node s2 m).
  { intros m. rewrite N2, (EditInverse.oe_nodes _ _ Os'), N1. tauto. }
  constructor.
  - exact Hnod.
  - intros u v. rewrite <- E1, (EditInverse.oe_edges _ _ Os), <- E2. reflexivity.
  - intros m k Hkr. rewrite Ft2, Hfts in Hkr. unfold EditInverse.attr_obs.
    destruct (in_dec Z.eq_dec k (rp_act (ft st))) as [Hin|Hnin].
    + destruct (classic_node st m) as [Nm|Nm].
      * pose proof (w_fresh _ W) as R1. unfold W_fresh in R1. rewrite Hs in R1. rewrite (proj1 R1 m k Nm Hin).
        pose proof (w_fresh _ W2) as R2. unfold W_fresh in R2. rewrite Hseg2 in R2. rewrite (proj1 R2 m k); [|now apply Hnod|now rewrite Ft2, Hfts].
        now rewrite Htm.
      * rewrite (attr_non_node st m k Nm), (attr_non_node s2 m k); [reflexivity|]. intros C. apply Nm. now apply Hnod.
    + rewrite <- A1 by exact Hnin. rewrite (A2 m k) by (now rewrite Hfts).
      assert (Hk1 : In k (reg_node (ft s))) by (now rewrite Hfts).
      pose proof (EditInverse.oe_nattr _ _ Os m k Hk1) as Q. unfold EditInverse.attr_obs in Q. congruence.
  - intros u v k Hkr. rewrite Ft2, Hfts in Hkr. unfold EditInverse.eattr_obs.
    destruct (Z.eq_dec k KIou) as [->|Hne].
    + destruct (has_edge st u v) eqn:He.
      * destruct (iou_act (ft st)) eqn:Hact.
        -- pose proof (w_fresh _ W) as R1. unfold W_fresh in R1. rewrite Hs in R1. rewrite (proj2 R1 Hact u v He).
           pose proof (w_fresh _ W2) as R2. unfold W_fresh in R2. rewrite Hseg2 in R2. rewrite (proj2 R2); [| now rewrite Ft2, Hfts|].
           ++ unfold iou_of. now rewrite !Htm.
           ++ unfold edge. rewrite E2, <- (EditInverse.oe_edges _ _ Os), E1. exact He.
        -- (* IoU inactive: UpdateNodeSeg does not touch edge attributes *)
           assert (I1 : st' = st' ) by reflexivity. clear I1.
           pose proof (iou_inactive_edge_attrs st n t idx false b st' sg H Hs Hact u v) as Q1.
           pose proof (iou_inactive_edge_attrs s n t idx true b' s2 sg' H2 Hss ltac:(now rewrite Hfts) u v) as Q2.
           rewrite Q2, <- Q1. assert (Hk1 : In KIou (reg_edge (ft s))) by (now rewrite Hfts).
           pose proof (EditInverse.oe_eattr _ _ Os u v KIou Hk1) as Q. unfold EditInverse.eattr_obs in Q. congruence.
      * rewrite (edge_attrs_non_edge st u v He), (edge_attrs_non_edge s2 u v); [reflexivity|].
        rewrite E2, <- (EditInverse.oe_edges _ _ Os), E1. exact He.
    + rewrite (X2 u v k Hne), <- (X1 u v k Hne). assert (Hk1 : In k (reg_edge (ft s))) by (now rewrite Hfts).
      pose proof (EditInverse.oe_eattr _ _ Os u v k Hk1) as Q. unfold EditInverse.eattr_obs in Q. congruence.
  - now rewrite Hseg2, Hs.
  - now rewrite Ft2, Hfts.
Qed.

(* ================================================================== *)
(* 5. inverting the recorded sub-actions on the other array             *)
(* ================================================================== *)
Notation basic_neutral := EditSegUndo.basic_neutral.
Notation act_all := EditSegUndo.act_all.
Notation acts_all := EditSegUndo.acts_all.

Lemma rstate_rmap {A} f (r : res A) : rstate (rmap f r) = f (rstate r).
Proof. destruct r; reflexivity. Qed.

Section InvSwap.
Variables (a a' : list (list Z)).

(* the arrays agree on the masks of all nodes *)
Definition node_masks (sv : state) : Prop := forall m tm, is_node sv m -> mask_of a tm m = mask_of a' tm m.

Lemma node_masks_estep sv sv' : estep sv sv' -> node_masks sv -> node_masks sv'.
Proof. intros E H m tm Hm. apply H. now apply (estep_is_node _ _ m E). Qed.

Lemma inv_basic_neutral_sws b sv : basic_neutral b -> seg sv = Some a' -> node_masks sv ->
  inv_basic (sws a sv) b = rmap (sws a) (inv_basic sv b) /\ estep sv (rstate (inv_basic sv b)).
Proof.
  intros Hb Hs Hm. destruct b as [n x px|n saved px|u v x|u v saved|n prev new|n px added|start oldT newT oldL newL]; cbn [EditSegUndo.basic_neutral] in Hb; try contradiction; cbn [inv_basic].
  - split; [apply do_del_edge_sws|apply estep_del_edge].
  - split; [|apply estep_add_edge]. apply (do_add_edge_sws a' a sv u v saved Hs). intros Nu Nv. unfold iou_of. now rewrite !(Hm _ _ Nu), !(Hm _ _ Nv).
  - split; [apply do_upd_track_sws|apply estep_upd_track].
Qed.

Lemma inv_action_neutral_sws : forall x sv, act_all basic_neutral x -> seg sv = Some a' -> node_masks sv ->
  inv_action (sws a sv) x = rmap (sws a) (inv_action sv x) /\ estep sv (rstate (inv_action sv x)).
Proof.
  fix IH 1. intros x sv. destruct x as [b|l].
  - cbn [EditSegUndo.act_all]. intros Hb Hs Hm. rewrite !EditInverse.inv_action_basic.
    destruct (inv_basic_neutral_sws b sv Hb Hs Hm) as [E1 E2]. rewrite E1, bind_rmap.
    destruct (inv_basic sv b) as [b' s1|e s1]; cbn [bind rmap rstate] in *; auto.
  - rewrite EditSegUndo.act_all_group, !EditInverse.inv_action_group. intros Hl Hs Hm.
    assert (G : EditInverse.inv_list l (sws a sv) = rmap (sws a) (EditInverse.inv_list l sv) /\ estep sv (rstate (EditInverse.inv_list l sv))).
    { revert Hl. induction l as [|x r IHl]; intros Hl; cbn [EditInverse.inv_list].
      - split; [reflexivity|apply estep_refl].
      - destruct Hl as [Hx Hr]. destruct (IHl Hr) as [E1 E2]. rewrite E1, bind_rmap.
        destruct (EditInverse.inv_list r sv) as [accr s1|e s1]; cbn [bind rmap rstate] in *; [|auto].
        destruct (IH x s1 Hx) as [F1 F2]; [now rewrite (estep_seg _ _ E2)|now apply (node_masks_estep sv)|].
        rewrite F1, bind_rmap. destruct (inv_action s1 x) as [x' s2|e s2]; cbn [bind rmap rstate] in *; (split; [reflexivity|eapply estep_trans; eauto]). }
    destruct G as [G1 G2]. rewrite G1, bind_rmap. destruct (EditInverse.inv_list l sv) as [l' s1|e s1]; cbn [bind rmap rstate] in *; auto.
Qed.

Lemma inv_list_neutral_sws l sv : acts_all basic_neutral l -> seg sv = Some a' -> node_masks sv ->
  EditInverse.inv_list l (sws a sv) = rmap (sws a) (EditInverse.inv_list l sv) /\ estep sv (rstate (EditInverse.inv_list l sv)).
Proof.
  intros Hl Hs Hm. destruct (inv_action_neutral_sws (AGroup l) sv) as [E1 E2]; [now rewrite EditSegUndo.act_all_group|exact Hs|exact Hm|].
  rewrite !EditInverse.inv_action_group in *. destruct (EditInverse.inv_list l sv) as [l' s1|e s1] eqn:El.
  - cbn [bind rmap rstate] in *. destruct (EditInverse.inv_list l (sws a sv)) as [l2 s2|e2 s2]; cbn [bind] in E1; [|discriminate E1].
    inversion E1; subst. auto.
  - cbn [bind rmap rstate] in *. destruct (EditInverse.inv_list l (sws a sv)) as [l2 s2|e2 s2]; cbn [bind] in E1; [discriminate E1|].
    injection E1 as <- <-. auto.
Qed.

End InvSwap.

Lemma add_node_nodes s n x px b s1 : do_add_node s n x px = Ok b s1 -> forall m, is_node s1 m -> m = n \/ is_node s m.
Proof.
  intros H m Hm. apply do_add_node_ok in H. destruct H as (st1 & Hsp & Hg & _ & _).
  assert (Hg1 : g st1 = g s).
  { destruct px as [p|]; [|now injection Hsp as <-]. apply set_pixels_ok in Hsp. destruct Hsp as (sg & _ & _ & ->). reflexivity. }
  unfold is_node, node_ids in Hm. rewrite Hg in Hm. unfold add_node_core in Hm.
  set (s2 := if haskey n (nodes (g st1)) then st1 else upd_g st1 _) in Hm.
  destruct (rp_update_keep (set_attrs s2 n x) n) as [K1 _]. destruct (set_attrs_keep s2 n x) as [K2 _].
  unfold node_ids in K1, K2. rewrite K1, K2 in Hm. unfold s2 in Hm.
  destruct (haskey n (nodes (g st1))); [right; unfold is_node, node_ids; now rewrite <- Hg1|].
  cbn [g nodes upd_g] in Hm. rewrite keys_app in Hm. apply in_app_iff in Hm. destruct Hm as [Hm|[Hm|[]]]; [right|left; now symmetry].
  unfold is_node, node_ids. now rewrite <- Hg1.
Qed.

Section MemberSwap.
Variable nv : Z.
Let P0 : Z -> Prop := fun m => m = 0.

Definition nodes_vis (sv : state) : Prop := forall m, is_node sv m -> m <> 0 /\ m <> nv.

Lemma vis_node_masks a a' sv : prel nv P0 a a' -> nodes_vis sv -> node_masks a a' sv.
Proof. intros Hp Hv m tm Hm. destruct (Hv m Hm) as [H0 Hn]. apply (prel_mask nv P0 a a' tm m Hp Hn). unfold P0. exact H0. Qed.

(* undoing a recorded UserDeleteNode: the virtual run succeeds, so does the real one, in step *)
Lemma undo_udn_member a a' sv l n saved t idx bb sv1 :
  seg sv = Some a' -> prel nv P0 a a' -> nodes_vis sv -> n <> 0 -> n <> nv -> acts_all basic_neutral l ->
  inv_action sv (AGroup (l ++ [ABasic (BDelNode n saved (Some (t, idx)))])) = Ok bb sv1 ->
  exists a1 a1', inv_action (sws a sv) (AGroup (l ++ [ABasic (BDelNode n saved (Some (t, idx)))])) = Ok bb (sws a1 sv1) /\
    seg sv1 = Some a1' /\ prel nv P0 a1 a1'.
Proof.
  intros Hs Hp Hv Hn0 Hnv Hl H. rewrite EditInverse.inv_action_group, EditInverse.inv_list_app in *.
  cbn [EditInverse.inv_list bind] in *. rewrite !EditInverse.inv_action_basic in *. cbn [inv_basic] in *.
  destruct (do_add_node sv n saved (Some (t, idx))) as [b1 sA|e sA] eqn:HA; cbn [bind] in H; [|discriminate H].
  assert (Ht0 : 0 <= t).
  { apply do_add_node_ok in HA. destruct HA as (st1 & Hsp & _). apply set_pixels_ok in Hsp. destruct Hsp as (sg & _ & Hf & _). cbn [fst] in Hf.
    apply frame_ok_range in Hf. lia. }
  pose proof (prel_paint nv P0 a a' t idx n Ht0 Hp) as Hp1.
  destruct (do_add_node_sws a' a sv n saved t idx b1 sA Hs (same_shape_sym _ _ (proj1 Hp))) as [HA' HsA]; [|exact HA|].
  { intros tm. apply (prel_mask nv P0 _ _ tm n Hp1 Hnv). unfold P0. exact Hn0. }
  rewrite HA'. cbn [bind app].
  assert (HvA : nodes_vis sA) by (intros m Hm; destruct (add_node_nodes _ _ _ _ _ _ HA m Hm) as [->|Hm']; [auto|now apply Hv]).
  destruct (inv_list_neutral_sws (paint_arr a t idx n) (paint_arr a' t idx n) l sA Hl HsA (vis_node_masks _ _ _ Hp1 HvA)) as [E1 E2].
  rewrite E1, bind_rmap. destruct (EditInverse.inv_list l sA) as [r1 s1|e s1]; cbn [bind rstate] in *; [|discriminate H].
  injection H as <- <-. exists (paint_arr a t idx n), (paint_arr a' t idx n). split; [reflexivity|]. split; [now rewrite (estep_seg _ _ E2)|exact Hp1].
Qed.

(* undoing a recorded shrink *)
Lemma undo_shrink_member a a' sv n t idx bb sv1 :
  seg sv = Some a' -> prel nv P0 a a' -> nodes_vis sv -> edges_sane sv -> ~ In KTime (rp_act (ft sv)) -> n <> 0 -> n <> nv ->
  inv_action sv (ABasic (BUpdSeg n (t, idx) false)) = Ok bb sv1 ->
  exists a1 a1', inv_action (sws a sv) (ABasic (BUpdSeg n (t, idx) false)) = Ok bb (sws a1 sv1) /\
    seg sv1 = Some a1' /\ prel nv P0 a1 a1'.
Proof.
  intros Hs Hp Hv Hes Hkt Hn0 Hnv H. rewrite !EditInverse.inv_action_basic in *. cbn [inv_basic negb] in *.
  destruct (do_upd_seg sv n (t, idx) true) as [b1 sA|e sA] eqn:HA; cbn [bind] in H; [|discriminate H]. injection H as <- <-.
  assert (Ht0 : 0 <= t).
  { apply do_upd_seg_ok in HA. destruct HA as (st1 & Hsp & _). apply set_pixels_ok in Hsp. destruct Hsp as (sg & _ & Hf & _). cbn [fst] in Hf.
    apply frame_ok_range in Hf. lia. }
  pose proof (prel_paint nv P0 a a' t idx n Ht0 Hp) as Hp1.
  assert (Hmk : forall m tm, m <> 0 -> m <> nv -> mask_of (paint_arr a t idx n) tm m = mask_of (paint_arr a' t idx n) tm m).
  { intros m tm H0 H1. apply (prel_mask nv P0 _ _ tm m Hp1 H1). unfold P0. exact H0. }
  destruct (do_upd_seg_sws a' a sv n t idx true b1 sA Hs (same_shape_sym _ _ (proj1 Hp)) Hkt) as [HA' HsA]; [| |exact HA|].
  - cbv zeta. now apply Hmk.
  - cbv zeta. intros u w He _. destruct (Hes u w He) as [Nu Nw]. destruct (Hv u Nu) as [U0 U1]. destruct (Hv w Nw) as [W0 W1].
    unfold iou_of. now rewrite !(Hmk u _ U0 U1), !(Hmk w _ W0 W1).
  - cbv zeta in HA', HsA. rewrite HA'. cbn [bind]. exists (paint_arr a t idx n), (paint_arr a' t idx n). auto.
Qed.

End MemberSwap.

(* ================================================================== *)
(* 6. the chain of recorded sub-actions and its rollback                *)
(* ================================================================== *)
Lemma rollback_app l1 l2 s : rollback (l1 ++ l2) s = (do _u, s' <- rollback l1 s; rollback l2 s').
Proof.
  revert s. induction l1 as [|x r IH]; intros s; cbn [app rollback bind]; [reflexivity|].
  destruct (inv_action s x) as [b s1|e s1]; cbn [bind]; [apply IH|reflexivity].
Qed.

Section Roll.
Variable nv : Z.
Let P0 : Z -> Prop := fun m => m = 0.

(* the two kinds of sub-actions UserUpdateSegmentation records for an overwritten label *)
Definition member_ok (x : action) : Prop :=
  (exists l n saved t idx, x = AGroup (l ++ [ABasic (BDelNode n saved (Some (t, idx)))]) /\ acts_all basic_neutral l /\ n <> 0 /\ n <> nv) \/
  (exists n t idx, x = ABasic (BUpdSeg n (t, idx) false) /\ n <> 0 /\ n <> nv).

(* recorded transitions between (virtual) states, each undoable once from any SI state that looks like its target *)
Inductive VChain : list action -> state -> state -> Prop :=
  | vc_nil x : VChain [] x x
  | vc_cons a l x m y : ConsN SI 1 a x m -> member_ok a -> nodes_vis nv m -> VChain l m y -> VChain (a :: l) x y.

Lemma rollback_vchain acts x y : VChain acts x y -> forall sv a a', SI sv -> obs_eq sv y -> seg sv = Some a' -> prel nv P0 a a' ->
  exists sv0 a0 a0', rollback (rev acts) (sws a sv) = Ok tt (sws a0 sv0) /\ SI sv0 /\ obs_eq sv0 x /\ seg sv0 = Some a0' /\ prel nv P0 a0 a0'.
Proof.
  induction 1 as [x|x0 l x m y Hc Hm Hv Hch IH]; intros sv a a' Ss Os Hs Hp.
  - exists sv, a, a'. cbn [rev rollback]. auto.
  - cbn [rev]. rewrite rollback_app.
    destruct (IH sv a a' Ss Os Hs Hp) as (svm & am & am' & Hr & Ssm & Osm & Hsm & Hpm). rewrite Hr. cbn [bind rollback].
    cbn [EditInverse.ConsN] in Hc. destruct (Hc svm Ssm Osm) as (b & sv0 & Hinv & Ss0 & Os0 & _).
    assert (Hvm : nodes_vis nv svm) by (intros k Hk; apply Hv; now apply (EditInverse.oe_nodes _ _ Osm)).
    assert (R : exists a1 a1', inv_action (sws am svm) x0 = Ok b (sws a1 sv0) /\ seg sv0 = Some a1' /\ prel nv P0 a1 a1').
    { destruct Hm as [(l0 & n & saved & t & idx & -> & Hl & Hn0 & Hnv)|(n & t & idx & -> & Hn0 & Hnv)].
      - exact (undo_udn_member nv am am' svm l0 n saved t idx b sv0 Hsm Hpm Hvm Hn0 Hnv Hl Hinv).
      - apply (undo_shrink_member nv am am' svm n t idx b sv0 Hsm Hpm Hvm); auto.
        + apply W_dict_edges_sane, Ssm.
        + apply rp_disjoint_time, Ssm. }
    destruct R as (a1 & a1' & Hreal & Hs0 & Hp0). rewrite Hreal. cbn [bind].
    exists sv0, a1, a1'. auto.
Qed.

End Roll.

(* ================================================================== *)
(* 7. the loop over the overwritten labels, real and virtual in step     *)
(* ================================================================== *)
Section Fwd.
Variables (t nv : Z).

(* labels the new label may hide in the real array: background, and the labels still to be processed *)
Definition Hid (gs : list (pixels * Z)) (m : Z) : Prop := m = 0 \/ In m (map snd gs).

(* a group still to be processed, C the real array, V the virtual one *)
Definition GF (C V : list (list Z)) (g : pixels * Z) : Prop :=
  fst (fst g) = t /\ snd g <> nv /\
  (exists j, (j < length (frame_of V t))%nat /\ In (Z.of_nat j) (snd (fst g))) /\
  (forall j, (j < length (frame_of V t))%nat -> In (Z.of_nat j) (snd (fst g)) -> label_at V t j = snd g) /\
  (forall tm j, 0 <= tm -> label_at V tm j = snd g -> label_at C tm j = nv -> tm = t /\ In (Z.of_nat j) (snd (fst g)) /\ (j < length (frame_of C t))%nat) /\
  (forall j, (j < length (frame_of V t))%nat -> In (Z.of_nat j) (snd (fst g)) -> label_at C t j = nv).

Lemma GF_next C V idx old g' : 0 <= t -> nv <> 0 -> same_shape C V -> GF C V (t, idx, old) -> GF C V g' -> snd g' <> old ->
  GF (paint_arr C t idx 0) (paint_arr V t idx 0) g'.
Proof.
  intros Ht0 Hnv0 [_ Sh] (_ & _ & _ & G3 & _ & _) (F1 & F2 & (j0 & Hj0 & Hin0) & F3 & F4 & F5) Hne. cbn [fst snd] in G3.
  destruct (paint_same_shape C t idx 0) as [_ ShC]. destruct (paint_same_shape V t idx 0) as [_ ShV].
  assert (Hout : forall j, (j < length (frame_of V t))%nat -> In (Z.of_nat j) (snd (fst g')) -> ~ In (Z.of_nat j) idx).
  { intros j Hj Hin Hin'. apply Hne. rewrite <- (F3 j Hj Hin). now apply G3. }
  split; [exact F1|]. split; [exact F2|]. split; [exists j0; split; [now rewrite ShV|exact Hin0]|]. split; [|split].
  - intros j Hj Hin. rewrite ShV in Hj. rewrite label_at_paint by assumption.
    destruct (memz (Z.of_nat j) idx) eqn:Em; [apply memz_In in Em; now destruct (Hout j Hj Hin)|]. rewrite andb_false_r. cbn [andb]. now apply F3.
  - intros tm j Htm HV HC. rewrite !label_at_paint in * by assumption. rewrite (Sh t) in HC.
    destruct ((tm =? t) && memz (Z.of_nat j) idx && (j <? length (frame_of V t))%nat); [now contradiction Hnv0|].
    destruct (F4 tm j Htm HV HC) as (A & B & D). rewrite ShC. auto.
  - intros j Hj Hin. rewrite ShV in Hj. rewrite label_at_paint by assumption.
    destruct (memz (Z.of_nat j) idx) eqn:Em; [apply memz_In in Em; now destruct (Hout j Hj Hin)|]. rewrite andb_false_r. cbn [andb]. now apply F5.
Qed.

(* a label still to be processed is a node of the virtual state, in the stroke's frame *)
Lemma GF_label_node y V g : WF y -> seg y = Some V -> frame_ok V t = true -> (exists C, GF C V g) -> snd g <> 0 ->
  is_node y (snd g) /\ time_of y (snd g) = t.
Proof.
  intros W Hs Hf (C & _ & _ & (j & Hj & Hin) & F3 & _) H0. pose proof (w_seg _ W) as WS. apply (W_seg_iff _ _ Hs) in WS. destruct WS as (_ & I2 & _).
  pose proof (F3 j Hj Hin) as El. assert (Hl : label_at V t j <> 0) by congruence. destruct (I2 t j Hf Hl) as [A B]. now rewrite El in A, B.
Qed.

Lemma Hid_vis y V gs m : WF y -> seg y = Some V -> frame_ok V t = true -> ~ is_node y nv ->
  (forall g, In g gs -> exists C, GF C V g) -> is_node y m -> time_of y m <> t -> visible nv (Hid gs) m.
Proof.
  intros W Hs Hf Hnv Hg Hm Ht. split; [intros ->; contradiction|]. intros [E|Hin].
  - subst m. pose proof (w_seg _ W) as WS. apply (W_seg_iff _ _ Hs) in WS. destruct WS as (_ & _ & I3). now destruct (I3 0 Hm).
  - apply in_map_iff in Hin. destruct Hin as (g & <- & Hin). destruct (Z.eq_dec (snd g) 0) as [E|E].
    + rewrite E in Hm. pose proof (w_seg _ W) as WS. apply (W_seg_iff _ _ Hs) in WS. destruct WS as (_ & _ & I3). now destruct (I3 0 Hm).
    + destruct (GF_label_node y V g W Hs Hf (Hg g Hin) E) as [_ B]. contradiction.
Qed.

Lemma fwd_virtual : forall gs y C V acc,
  WF y -> rp_disjoint y -> reg_ok y -> seg y = Some V -> frame_ok V t = true -> nv <> 0 -> ~ is_node y nv ->
  prel nv (Hid gs) C V -> NoDup (map snd gs) -> (forall g, In g gs -> GF C V g) ->
  exists acts' y' C' V', uus_groups gs (sws C y) acc = Ok (acc ++ acts') (sws C' y') /\
    WF y' /\ seg y' = Some V' /\ prel nv (Hid []) C' V' /\ VChain nv acts' y y' /\
    (forall m, is_node y' m -> is_node y m) /\ ft y' = ft y /\ frame_ok V' t = true.
Proof.
  induction gs as [|[px old] r IH]; intros y C V acc W Hrp Hreg Hs Hfok Hnv0 Hnvn Hp Hnd Hg.
  - exists [], y, C, V. cbn [uus_groups]. rewrite app_nil_r. split; [reflexivity|]. split; [exact W|]. split; [exact Hs|]. split; [exact Hp|].
    split; [constructor|]. split; [auto|]. split; [reflexivity|exact Hfok].
  - cbn [map snd] in Hnd. inversion Hnd as [|? ? Hni Hnd']; subst.
    pose proof (Hg (px, old) (or_introl eq_refl)) as G0. pose proof G0 as (G1 & G2 & G6 & G3 & G4 & G5). cbn [fst snd] in G1, G2, G6, G3, G4, G5.
    assert (Hgr : forall g, In g r -> GF C V g) by (intros g Hin; apply Hg; now right).
    pose proof (frame_ok_nonneg _ _ Hfok) as Ht0.
    cbn [uus_groups]. destruct (Z.eqb_spec old 0) as [->|Hold].
    { apply (IH y C V acc W Hrp Hreg Hs Hfok Hnv0 Hnvn); [|exact Hnd'|exact Hgr].
      apply (prel_weaken nv (Hid ((px, 0) :: r))); [|exact Hp]. intros m [E|[E|E]]; [now left|left; now symmetry|now right]. }
    destruct px as [tp idx]. cbn [fst snd] in *. subst tp. change (seg (sws C y)) with (Some C).
    destruct Hp as [Sh Hpl]. pose proof (conj Sh Hpl : prel nv (Hid ((t, idx, old) :: r)) C V) as Hp.
    assert (ShVC : same_shape V C) by (now apply same_shape_sym).
    destruct (GF_label_node y V (t, idx, old) W Hs Hfok (ex_intro _ C G0) Hold) as [Nold Told]. cbn [snd] in Nold, Told.
    pose proof (w_seg _ W) as WS. apply (W_seg_iff _ _ Hs) in WS. destruct WS as (I1 & I2 & I3).
    (* the arrays after the group has been processed *)
    assert (Hp1 : prel nv (Hid r) (paint_arr C t idx 0) (paint_arr V t idx 0)).
    { apply (prel_unhide nv (Hid ((t, idx, old) :: r)) (Hid r) C V t idx old Ht0 Hp).
      - intros m [E|[E|E]]; [right; now left|left; now symmetry|right; now right].
      - intros tm i Htm HV HC _. now apply G4. }
    assert (Hvis1 : forall m, is_node y m -> m = old \/ time_of y m <> t -> visible nv (Hid r) m).
    { intros m Hm [->|Htm].
      - split; [exact G2|]. intros [E|E]; [contradiction|contradiction].
      - apply (Hid_vis y V r m W Hs Hfok Hnvn); auto. intros g Hin. exists C. now apply Hgr. }
    assert (Hg1 : forall g, In g r -> GF (paint_arr C t idx 0) (paint_arr V t idx 0) g).
    { intros g Hin. apply (GF_next C V idx old g Ht0 Hnv0 Sh G0 (Hgr g Hin)). intros E. apply Hni. rewrite <- E. now apply in_map. }
    assert (Hfok1 : frame_ok (paint_arr V t idx 0) t = true) by (now rewrite (frame_ok_shape _ _ _ (paint_same_shape V t idx 0))).
    (* common continuation *)
    assert (Hcont : forall x y1, WF y1 -> seg y1 = Some (paint_arr V t idx 0) -> ft y1 = ft y -> (forall m, is_node y1 m -> is_node y m) ->
              ConsN SI 1 x y y1 -> member_ok nv x ->
              exists acts' y' C' V', uus_groups r (sws (paint_arr C t idx 0) y1) (acc ++ [x]) = Ok (acc ++ acts') (sws C' y') /\
                WF y' /\ seg y' = Some V' /\ prel nv (Hid []) C' V' /\ VChain nv acts' y y' /\
                (forall m, is_node y' m -> is_node y m) /\ ft y' = ft y /\ frame_ok V' t = true).
    { intros x y1 W1 Hs1 Hft1 Hn1 Hc Hmem.
      assert (Hrp1 : rp_disjoint y1) by (now apply (rp_disjoint_ft y)).
      assert (Hreg1 : reg_ok y1) by (unfold EditSessions.reg_ok; now rewrite Hft1).
      assert (Hnvn1 : ~ is_node y1 nv) by (intros Cn; apply Hnvn; now apply Hn1).
      destruct (IH y1 (paint_arr C t idx 0) (paint_arr V t idx 0) (acc ++ [x]) W1 Hrp1 Hreg1 Hs1 Hfok1 Hnv0 Hnvn1 Hp1 Hnd' Hg1)
        as (acts' & y' & C' & V' & Hrun & W' & Hs' & Hp' & Hch & Hn' & Hft' & Hfo').
      exists (x :: acts'), y', C', V'. split; [now rewrite Hrun, <- app_assoc|]. repeat (split; [assumption|]).
      split; [|split; [auto|split; [congruence|exact Hfo']]]. apply vc_cons with (m := y1); auto.
      intros k Hk. apply Hn1 in Hk. split; [now apply I3|intros ->; contradiction]. }
    destruct (mask_of C t old) as [|p0 rest] eqn:Erem.
    + (* nothing left of the label: UserDeleteNode *)
      assert (Hex : forall j, (j < length (frame_of V t))%nat -> (In (Z.of_nat j) idx <-> label_at V t j = old)).
      { intros j Hj. split; [now apply G3|]. intros E. destruct (Hpl t j Ht0) as [Ec|[Ec _]].
        - exfalso. assert (Hin : In (Z.of_nat j) (mask_of C t old)) by (apply mask_of_In_nat; destruct Sh as [_ Sh']; rewrite Sh'; split; [exact Hj|congruence]).
          rewrite Erem in Hin. destruct Hin.
        - now destruct (G4 t j Ht0 E Ec) as (_ & A & _). }
      destruct (proj2 (proj2 (EditUDN.udn_core_spec y old (Some (t, idx)) (w_dict _ W) (w_forest _ W) (w_trk _ W) (w_book _ W))) Nold)
        as (a & y1 & H1 & _).
      { cbn [EditNodeBasic.del_px EditNodeBasic.px_ok fst]. exists V. split; [exact Hs|exact Hfok]. }
      assert (Hoff : off_frame y old V C).
      { split; [exact ShVC|]. intros m tm Hm Htm. apply (prel_mask nv (Hid ((t, idx, old) :: r)) C V tm m Hp).
        - intros ->. contradiction.
        - apply (Hid_vis y V ((t, idx, old) :: r) m W Hs Hfok Hnvn); auto; [intros g Hin; exists C; now apply Hg|rewrite Told in Htm; lia]. }
      destruct (udn_core_sws V C y old t idx a y1 Hs Hoff H1) as [H1r Hs1].
      erewrite udn_nested_ok; [|exact H1r]. cbn [bind].
      destruct (EditUDN.udn_core_ok_inv y old _ a y1 (w_dict _ W) (w_forest _ W) (w_trk _ W) (w_book _ W) H1) as (_ & _ & _ & _ & Nn1 & _).
      apply (Hcont a y1).
      * exact (udn_core_WF_exact y old t idx a y1 V W Hs Told Hex H1).
      * exact Hs1.
      * exact (udn_core_ft _ _ _ _ _ H1).
      * intros m Hm. now apply Nn1 in Hm.
      * apply (EditSessions.udn_ConsS 1 y old (Some (t, idx)) a y1 W Hrp); [|intros sg' Hs'; rewrite Hs in Hs'; injection Hs' as <-; cbn [fst snd]; auto|exact H1].
        intros Hnone. congruence.
      * left. destruct (EditSegUndo.udn_core_rec y old (t, idx) a y1 H1) as (l & saved & -> & Hl). exists l, old, saved, t, idx. auto.
    + (* some pixels left: UpdateNodeSeg *)
      destruct (do_upd_seg_total y V old t idx false Hs Hfok Nold) as (b & y1 & H1).
      assert (Hkeep : keeps_pixel V t idx (time_of y old) old).
      { assert (Hne : mask_of C t old <> []) by (rewrite Erem; discriminate). apply mask_nonempty in Hne. destruct Hne as (i & Hi & El).
        rewrite Told. exists i. destruct Sh as [_ Sh']. split; [now rewrite <- Sh'|]. split.
        - destruct (Hpl t i Ht0) as [E|[E _]]; congruence.
        - intros [_ Hin]. rewrite Sh' in Hi. rewrite (G5 i Hi Hin) in El. congruence. }
      assert (Hmask : mask_of (paint_arr C t idx 0) (time_of y old) old = mask_of (paint_arr V t idx 0) (time_of y old) old).
      { destruct (Hvis1 old Nold (or_introl eq_refl)) as [A B]. now apply (prel_mask nv (Hid r)). }
      assert (Hiou : forall u w, edge y u w -> u = old \/ w = old ->
                iou_of y (paint_arr C t idx 0) u w = iou_of y (paint_arr V t idx 0) u w).
      { intros u w He Hor. destruct (wd_edge_nodes _ (w_dict _ W) u w He) as [Nu Nw]. pose proof (wf_time _ (w_forest _ W) u w He) as Hlt.
        apply (prel_iou nv (Hid r)); [exact Hp1| |]; destruct Hor as [->| ->].
        - apply Hvis1; auto.
        - apply Hvis1; auto. right. rewrite Told in Hlt. lia.
        - apply Hvis1; auto. right. rewrite Told in Hlt. lia.
        - apply Hvis1; auto. }
      destruct (do_upd_seg_sws V C y old t idx false b y1 Hs ShVC (rp_disjoint_time _ Hrp)) as [H1r Hs1]; [exact Hmask|exact Hiou|exact H1|].
      cbv zeta in H1r, Hs1. rewrite H1r. cbn [bind].
      destruct (upd_seg_effect _ _ _ _ _ _ _ _ H1 Hs) as (_ & _ & Hft1 & Hk1).
      apply (Hcont (ABasic b) y1).
      * exact (upd_seg_shrink_WF y old t idx b y1 V W Hrp Hs Nold G3 Hkeep H1).
      * exact Hs1.
      * exact Hft1.
      * intros m Hm. now apply (nodes_keep_is_node _ _ _ m Hk1).
      * exact (upd_seg_shrink_ConsS1 y old t idx b y1 V W Hrp Hreg Hs Nold Told G3 Hkeep H1).
      * right. rewrite (EditSegUndo.upd_seg_rec _ _ _ _ _ _ H1). exists old, t, idx. auto.
Qed.

End Fwd.

(* ================================================================== *)
(* 8. the painted state and its virtual twin                            *)
(* ================================================================== *)
Lemma painted_virtual st sg t idx nv : WF st -> seg st = Some sg -> frame_ok sg t = true ->
  let groups := paint_groups sg t idx nv in
  let R := all_pixels groups in
  let painted := paint_arr sg t R nv in
  prel nv (Hid groups) painted sg /\ (forall g, In g groups -> GF t nv painted sg g).
Proof.
  intros W Hs Hfok groups R painted. pose proof (frame_ok_nonneg _ _ Hfok) as Ht0.
  assert (Sh : same_shape painted sg) by apply paint_same_shape.
  assert (RIn : forall i, In (Z.of_nat i) R <-> (i < length (frame_of sg t))%nat /\ In (Z.of_nat i) idx /\ label_at sg t i <> nv) by (intros i; apply changed_In).
  assert (LabP : forall t' i, 0 <= t' -> label_at painted t' i =
             if (t' =? t) && memz (Z.of_nat i) R && (i <? length (frame_of sg t))%nat then nv else label_at sg t' i).
  { intros t' i Ht'. unfold painted. now apply label_at_paint. }
  assert (Gpx : forall g j, In g groups -> (In (Z.of_nat j) (snd (fst g)) <->
              (j < length (frame_of sg t))%nat /\ In (Z.of_nat j) idx /\ label_at sg t j = snd g /\ snd g <> nv)).
  { intros g j Hg. destruct (paint_groups_In _ _ _ _ _ Hg) as (_ & _ & Hpx). rewrite Hpx, io_of_In. split.
    - intros (i & E & Hi & Hin & El & Hne). apply Nat2Z.inj in E. subst i. auto.
    - intros (Hi & Hin & El & Hne). exists j. auto. }
  split.
  - split; [exact Sh|]. intros tm i Htm. rewrite (LabP tm i Htm).
    destruct ((tm =? t) && memz (Z.of_nat i) R && (i <? length (frame_of sg t))%nat) eqn:Ec; [right|now left].
    apply andb_true_iff in Ec. destruct Ec as [Ec _]. apply andb_true_iff in Ec. destruct Ec as [E1 E2]. apply Z.eqb_eq in E1. subst tm.
    apply memz_In in E2. split; [reflexivity|]. right. apply RIn in E2. destruct E2 as (Hi & Hin & Hne).
    destruct (paint_groups_cover sg t idx nv (Z.of_nat i) (label_at sg t i)) as (g & Hg & Eg & _); [apply io_of_In; exists i; auto|].
    rewrite <- Eg. now apply in_map.
  - intros g Hg. destruct (paint_groups_In _ _ _ _ _ Hg) as (G1 & (p & Hp) & _). apply io_of_In in Hp. destruct Hp as (i0 & -> & Hi0 & Hin0 & El0 & Hne0).
    split; [exact G1|]. split; [exact Hne0|]. split; [exists i0; split; [exact Hi0|apply (Gpx g i0 Hg); auto]|]. split; [|split].
    + intros j Hj Hin. apply (Gpx g j Hg) in Hin. tauto.
    + intros tm j Htm HV HC. rewrite (LabP tm j Htm) in HC.
      destruct ((tm =? t) && memz (Z.of_nat j) R && (j <? length (frame_of sg t))%nat) eqn:Ec; [|congruence].
      apply andb_true_iff in Ec. destruct Ec as [Ec E3]. apply andb_true_iff in Ec. destruct Ec as [E1 E2]. apply Z.eqb_eq in E1. subst tm.
      apply memz_In in E2. apply RIn in E2. destruct E2 as (Hi & Hin & Hne). split; [reflexivity|]. split; [apply (Gpx g j Hg); auto|].
      destruct Sh as [_ Sh']. now rewrite Sh'.
    + intros j Hj Hin. rewrite (LabP t j Ht0). assert (HR : In (Z.of_nat j) R) by (unfold R, all_pixels; apply in_flat_map; exists g; auto).
      apply memz_In in HR. apply Nat.ltb_lt in Hj. now rewrite Z.eqb_refl, HR, Hj.
Qed.

(* ================================================================== *)
(* 9. every refused stroke                                              *)
(* ================================================================== *)
Lemma untouched_obs st st' : EditUAN.untouched st st' -> obs_eq st st'.
Proof. intros (Eg & Es & Ef & _). apply EditInverse.core_eq_obs. split; [exact Eg|split; [exact Es|exact Ef]]. Qed.

Lemma GWF_sws a y : EditUDN.GWF y -> EditUDN.GWF (sws a y).
Proof. apply EditUDN.GWF_same; reflexivity. Qed.

(* the forceable refusal of the nested UserAddNode, after the loop: the rollback brings the original back *)
Lemma rolled_back_core st sg nv t idx T e1 s1 :
  WF st -> rp_disjoint st -> reg_ok st -> seg st = Some sg -> frame_ok sg t = true -> nv <> 0 -> ~ is_node st nv ->
  let groups := paint_groups sg t idx nv in
  let R := all_pixels groups in
  groups <> [] ->
  user_update_seg_core (sws (paint_arr sg t R nv) st) nv groups T false = Err e1 s1 ->
  exists sv0 a0, s1 = sws a0 sv0 /\ SI sv0 /\ obs_eq sv0 st.
Proof.
  intros W Hrp Hreg Hs Hfok Hnv0 Hnvn groups R Hne H. pose proof (frame_ok_nonneg _ _ Hfok) as Ht0.
  destruct (painted_virtual st sg t idx nv W Hs Hfok) as [Hp Hg]. fold groups R in Hp, Hg.
  set (painted := paint_arr sg t R nv) in *.
  destruct (fwd_virtual t nv groups st painted sg [] W Hrp Hreg Hs Hfok Hnv0 Hnvn Hp (paint_groups_labels_nodup t nv sg idx) Hg)
    as (acts & y' & C' & V' & Hrun & W' & Hs' & Hp' & Hch & Hn' & Hft' & Hfo'). cbn [app] in Hrun.
  unfold user_update_seg_core in H. change (seg (sws painted st)) with (Some painted) in H.
  change (has_node (sws painted st) nv) with (has_node st nv) in H.
  assert (Hh : has_node st nv = false) by (destruct (has_node st nv) eqn:E; [apply is_node_haskey in E; contradiction|reflexivity]).
  rewrite Hh, andb_false_r in H. cbn [andb] in H. rewrite Hrun in H. cbn [bind] in H.
  destruct groups as [|[px0 old0] gr] eqn:Eg; [now contradiction Hne|].
  assert (E0 : (nv =? 0) = false) by (now apply Z.eqb_neq). rewrite E0 in H. cbv zeta in H.
  change (has_node (sws C' y') nv) with (has_node y' nv) in H.
  assert (Hh' : has_node y' nv = false).
  { destruct (has_node y' nv) eqn:E; [|reflexivity]. apply is_node_haskey in E. apply Hn' in E. contradiction. }
  rewrite Hh' in H.
  match type of H with context [user_add_node ?x1 ?x2 ?x3 ?x4 ?x5 ?x6] =>
    destruct (user_add_node x1 x2 x3 x4 x5 x6) as [x s2|e2 s2] eqn:H2 end; [discriminate H|].
  (* the refusal of UserAddNode: forceable, state untouched *)
  assert (Ht : fst px0 = t) by (destruct (Hg (px0, old0) (or_introl eq_refl)) as (G1 & _); exact G1).
  rewrite Ht in H2. destruct (stroke_attrs_ok t T) as (Ao & _ & _). fold (stroke_attrs t T) in H2.
  pose proof (GWF_sws C' y' (EditUDN.WF_GWF y' W')) as [C1 D1 F1 T1 L1 B1].
  assert (Hrp' : rp_disjoint y') by (now apply (rp_disjoint_ft st)).
  destruct (EditUAN.user_add_node_error_cases (sws C' y') nv (stroke_attrs t T) _ false false e2 s2 D1 F1 T1 B1 Hrp' Ao H2) as (Rf & U & _).
  assert (Ee : e2 = EInvalid true).
  { unfold EditUAN.uan_refused in Rf. change (haskey KTime (stroke_attrs t T)) with true in Rf. change (haskey KTrack (stroke_attrs t T)) with true in Rf.
    change (has_node (sws C' y') nv) with (has_node y' nv) in Rf. rewrite Hh' in Rf. cbn [negb] in Rf.
    destruct (EditUAN.uan_has_conflict _ _ _ && true); [now injection Rf as <-|].
    unfold EditUAN.uan_no_pos, px_check in Rf. change (seg (sws C' y')) with (Some C') in Rf. cbn [fst] in Rf.
    rewrite (frame_ok_shape _ _ _ (proj1 Hp')), Hfo' in Rf. discriminate Rf. }
  subst e2.
  (* the virtual twin of the state the rollback starts from *)
  set (y2 := sws V' s2).
  assert (U2 : EditUAN.untouched y' y2).
  { destruct U as (U1 & U2 & U3 & U4 & U5 & U6 & U7 & U8 & U9 & U10 & U11 & U12). unfold EditUAN.untouched, y2.
    cbn [g seg ft bk undo_stack redo_stack rlog nctr upd_seg sws] in *. repeat split; try assumption. now symmetry. }
  pose proof (WF_untouched y' y2 U2 W') as W2.
  assert (Hft2 : ft y2 = ft st) by (destruct U2 as (_ & _ & E & _); congruence).
  assert (S2 : SI y2).
  { apply EditSessions.WF_SI; [exact W2|unfold EditSessions.reg_ok; now rewrite Hft2|now apply (rp_disjoint_ft st)]. }
  assert (O2 : obs_eq y2 y') by (apply EditInverse.obs_eq_sym; now apply untouched_obs).
  assert (Es2 : s2 = sws C' y2).
  { unfold y2. rewrite sws_sws. symmetry. apply sws_id. destruct U as (_ & E & _). exact E. }
  assert (Hp0 : prel nv (fun m => m = 0) C' V').
  { apply (prel_weaken nv (Hid [])); [|exact Hp']. intros m [E|[]]. exact E. }
  destruct (rollback_vchain nv acts st y' Hch y2 C' V' S2 O2 eq_refl Hp0) as (sv0 & a0 & a0' & Hrb & S0 & O0 & _).
  rewrite Es2, Hrb in H. injection H as _ <-. exists sv0, a0. auto.
Qed.

(* Deliverable: every refused stroke leaves a well-formed state, observably the one it was given *)
Theorem paint_refused_WF st nv t idx T force e st' :
  WF st -> rp_disjoint st -> reg_ok st -> paint st nv t idx T force = Err e st' -> WF st' /\ obs_eq st st'.
Proof.
  intros W Hrp Hreg H.
  assert (Hpart : paint_no_rollback st nv t idx force -> WF st' /\ obs_eq st st').
  { intros Hnr. destruct (paint_refused_WF_partial st nv t idx T force e st' W Hrp Hnr H) as [U W']. split; [exact W'|now apply untouched_obs]. }
  destruct force; [apply Hpart; now left|].
  destruct (Z.eq_dec nv 0) as [Hnv0|Hnv0]; [apply Hpart; right; now left|].
  destruct (has_node st nv) eqn:Hh; [apply Hpart; right; right; left; now apply is_node_haskey|].
  assert (Hnvn : ~ is_node st nv) by (intros C; apply is_node_haskey in C; congruence).
  clear Hpart. pose proof H as Hp. unfold paint in H. destruct (seg st) as [sg|] eqn:Hs.
  2:{ unfold user_update_seg, user_update_seg_core in H. rewrite Hs in H. injection H as _ <-. split; [exact W|apply EditInverse.obs_eq_refl]. }
  destruct (frame_ok sg t) eqn:Hfok; [|injection H as _ <-; split; [exact W|apply EditInverse.obs_eq_refl]]. cbn [negb] in H. cbv zeta in H.
  pose proof (paint_error_restores st nv t idx T false e st' sg Hp Hs) as Hseg'.
  fold (all_pixels (paint_groups sg t idx nv)) in H. fold (paint_arr sg t (all_pixels (paint_groups sg t idx nv)) nv) in H.
  set (R := all_pixels (paint_groups sg t idx nv)) in *.
  change (upd_seg st (Some (paint_arr sg t R nv))) with (sws (paint_arr sg t R nv) st) in H.
  set (s0 := sws (paint_arr sg t R nv) st) in *.
  destruct (user_update_seg s0 nv (paint_groups sg t idx nv) T false) as [a0 s2|e2 s2] eqn:Hu; [discriminate H|].
  unfold user_update_seg in Hu.
  destruct (user_update_seg_core s0 nv (paint_groups sg t idx nv) T false) as [[a1 pl] s1|e1 s1] eqn:Hc; [discriminate Hu|].
  injection Hu as <- <-. injection H as _ H.
  assert (Hne : paint_groups sg t idx nv <> []).
  { intros E. rewrite E in Hc. unfold user_update_seg_core in Hc. cbn [seg upd_seg s0 sws] in Hc. rewrite !andb_false_r in Hc. cbn [andb uus_groups bind] in Hc. discriminate Hc. }
  destruct (rolled_back_core st sg nv t idx T e1 s1 W Hrp Hreg Hs Hfok Hnv0 Hnvn Hne Hc) as (sv0 & a0 & -> & S0 & O0).
  change (seg (sws a0 sv0)) with (Some a0) in H. subst st'. cbn [seg upd_seg sws] in Hseg'.
  assert (Est : upd_seg (sws a0 sv0) (Some (restore_groups t (paint_groups sg t idx nv) a0)) = sv0).
  { injection Hseg' as Hseg'. rewrite Hseg'. change (upd_seg (sws a0 sv0) (Some sg)) with (sws sg sv0). apply sws_id.
    rewrite <- Hs. exact (EditInverse.oe_seg _ _ (EditInverse.obs_eq_sym _ _ O0)). }
  rewrite Est. pose proof (EditInverse.obs_eq_sym _ _ O0) as O0'. split; [exact (EditSessions.WF_obs st sv0 W S0 O0')|exact O0'].
Qed.

(* ================================================================== *)
(* 10. the interpreter over node_fragment + OPaint, no stroke precondition *)
(* ================================================================== *)
Lemma reg_ok_ft s s' : ft s' = ft s -> reg_ok s -> reg_ok s'.
Proof. intros E H. unfold EditSessions.reg_ok. now rewrite E. Qed.

Theorem paint_call_WF_all st nv t idx T force : WF st -> rp_disjoint st -> reg_ok st ->
  WF (rstate (paint st nv t idx T force)).
Proof.
  intros W Hrp Hreg. destruct (paint st nv t idx T force) as [a s|e s] eqn:E; cbn [rstate].
  - eapply paint_WF; eauto.
  - exact (proj1 (paint_refused_WF st nv t idx T force e s W Hrp Hreg E)).
Qed.

(* the side conditions are those of UserAddNode alone (EditWFNode.op_pre is True for a stroke) *)
Theorem step_paint_WF_all st o : paint_fragment o = true -> op_pre st o -> WF st -> rp_disjoint st -> reg_ok st ->
  WF (fst (step st o)) /\ rp_disjoint (fst (step st o)) /\ reg_ok (fst (step st o)).
Proof.
  intros Hf Hpre W Hrp Hreg.
  assert (Hft : ft (fst (step st o)) = ft st) by (now apply step_paint_ft).
  split; [|split; [now apply (rp_disjoint_ft st)|now apply (reg_ok_ft st)]].
  destruct o; try (apply step_node_WF; assumption); try discriminate Hf.
  cbn [step]. rewrite fst_fin. now apply paint_call_WF_all.
Qed.

Theorem run_paint_WF_all : forall ops st, forallb paint_fragment ops = true -> WF st -> rp_disjoint st -> reg_ok st ->
  (forall pre o post, ops = pre ++ o :: post -> op_pre (run st pre) o) ->
  WF (run st ops) /\ rp_disjoint (run st ops) /\ reg_ok (run st ops).
Proof.
  induction ops as [|o r IH]; intros st Hf W Hrp Hreg Hpre; [auto|].
  cbn [forallb] in Hf. apply andb_true_iff in Hf. destruct Hf as [Ho Hr].
  assert (P0 : op_pre st o) by (apply (Hpre [] o r); reflexivity).
  destruct (step_paint_WF_all st o Ho P0 W Hrp Hreg) as (W1 & Hrp1 & Hreg1).
  change (run st (o :: r)) with (run (fst (step st o)) r).
  apply IH; [exact Hr|exact W1|exact Hrp1|exact Hreg1|].
  intros pre o' post E. specialize (Hpre (o :: pre) o' post). cbn [app] in Hpre.
  change (run st (o :: pre)) with (run (fst (step st o)) pre) in Hpre. apply Hpre. now rewrite E.
Qed.

Corollary run_paint_WF_all_check ops st : forallb paint_fragment ops = true -> WF st -> rp_disjoint st -> reg_ok st ->
  pre_alongb st ops = true -> WF (run st ops).
Proof. intros Hf W Hrp Hreg H. apply run_paint_WF_all; auto. now apply pre_alongb_spec. Qed.

(* a run of strokes and edge / delete calls only needs nothing at all *)
Corollary run_strokes_WF ops st : forallb paint_fragment ops = true -> WF st -> rp_disjoint st -> reg_ok st ->
  (forall o, In o ops -> match o with OAddNode _ _ _ _ => False | _ => True end) -> WF (run st ops).
Proof.
  intros Hf W Hrp Hreg Hno. apply run_paint_WF_all; auto. intros pre o post E.
  assert (Hin : In o ops) by (rewrite E; apply in_app_iff; right; now left). specialize (Hno o Hin). destruct o; cbn [op_pre]; auto; contradiction.
Qed.

(* ---- what else a refused stroke leaves alone ---- *)
(* history, refresh log, id counter, feature table: literally equal *)
Corollary paint_refused_aux st nv t idx T force e st' : paint st nv t idx T force = Err e st' -> EditFrame.aux_eq st st'.
Proof.
  intros H. assert (Hf : fin (paint st nv t idx T force) = (st', (ecode e, []))) by (now rewrite H).
  destruct (EditFrame.paint_step st nv t idx T force st' (ecode e) [] Hf) as [_ Hn]. apply Hn. apply (EditFrame.ecode_not_small e).
Qed.

(* the lookups: the same members under the same ids (the order inside an entry, and of the entries, may differ) *)
Corollary paint_refused_lookups st nv t idx T force e st' :
  WF st -> rp_disjoint st -> reg_ok st -> paint st nv t idx T force = Err e st' ->
  (forall T0 n, (exists l, lookup T0 (trk_book (bk st')) = Some l /\ In n l) <-> (exists l, lookup T0 (trk_book (bk st)) = Some l /\ In n l)) /\
  (forall L0 n, (exists l, lookup L0 (lin_book (bk st')) = Some l /\ In n l) <-> (exists l, lookup L0 (lin_book (bk st)) = Some l /\ In n l)).
Proof.
  intros W Hrp Hreg H. destruct (paint_refused_WF st nv t idx T force e st' W Hrp Hreg H) as [W' O].
  pose proof (w_cfg _ W) as Cfg.
  assert (Hn : forall n, is_node st' n <-> is_node st n) by (intros n; apply (EditInverse.oe_nodes _ _ O)).
  assert (Gen : forall (b b' : dict (list Z)) (idof idof' : Z -> option Z) mx mx',
            book_ok st b idof mx -> book_ok st' b' idof' mx' -> (forall n, idof' n = idof n) ->
            forall T0 n, (exists l, lookup T0 b' = Some l /\ In n l) -> (exists l, lookup T0 b = Some l /\ In n l)).
  { intros b b' idof idof' mx mx' (_ & B2 & B3) (_ & B2' & _) Hid T0 n (l' & El' & Hin).
    destruct (B2' T0 l' El') as (_ & _ & M'). apply M' in Hin. destruct Hin as [Nn En]. rewrite Hid in En. apply Hn in Nn.
    destruct (B3 n T0 Nn En) as [Hk _]. unfold haskey in Hk. destruct (lookup T0 b) as [l|] eqn:El; [|discriminate].
    exists l. split; [reflexivity|]. apply (B2 T0 l El). auto. }
  assert (Gen' : forall (b b' : dict (list Z)) (idof idof' : Z -> option Z) mx mx',
            book_ok st b idof mx -> book_ok st' b' idof' mx' -> (forall n, idof' n = idof n) ->
            forall T0 n, (exists l, lookup T0 b = Some l /\ In n l) -> (exists l, lookup T0 b' = Some l /\ In n l)).
  { intros b b' idof idof' mx mx' (_ & B2 & _) (_ & B2' & B3') Hid T0 n (l & El & Hin).
    destruct (B2 T0 l El) as (_ & _ & M). apply M in Hin. destruct Hin as [Nn En]. rewrite <- Hid in En. apply Hn in Nn.
    destruct (B3' n T0 Nn En) as [Hk _]. unfold haskey in Hk. destruct (lookup T0 b') as [l'|] eqn:El'; [|discriminate].
    exists l'. split; [reflexivity|]. apply (B2' T0 l' El'). auto. }
  destruct (w_book _ W) as [Bt Bl]. destruct (w_book _ W') as [Bt' Bl'].
  split; intros X n; split.
  - apply (Gen _ _ _ _ _ _ Bt Bt'). intros m. apply (EditInverseNode.obs_trk st st' O Cfg).
  - apply (Gen' _ _ _ _ _ _ Bt Bt'). intros m. apply (EditInverseNode.obs_trk st st' O Cfg).
  - apply (Gen _ _ _ _ _ _ Bl Bl'). intros m. apply (EditInverseNode.obs_lin st st' O Cfg).
  - apply (Gen' _ _ _ _ _ _ Bl Bl'). intros m. apply (EditInverseNode.obs_lin st st' O Cfg).
Qed.
