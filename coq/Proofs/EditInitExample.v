(* Non-vacuity of Proofs/EditInit.v: a raw solution of five nodes with a division and a segmentation
   (3 frames of 2x2 pixels  1 1 / 0 0   2 2 / 3 0   5 4 / 4 0 ; 1 divides into 2 and 3, 2 -> 4, 3 -> 5;
   the nodes carry their time only), constructed - position, area, track ids, lineage ids, then the
   IoU the caller enables - and a session over the whole interface from it.  Every hypothesis is
   discharged by computation. *)
From Coq Require Import ZArith List Bool Lia.
From FT Require Import Base.Dict Model.Edit Model.EditExec Model.Toggle Proofs.EditInv Proofs.EditInit.
From FT Require Proofs.EditSessions Proofs.EditSessionsFull Proofs.EditSessionsAll Proofs.EditInverse.
Import ListNotations.
Open Scope Z_scope.

Definition nd0 : dict attrs := [(1, [(KTime, VZ 0)]); (2, [(KTime, VZ 1)]); (3, [(KTime, VZ 1)]); (4, [(KTime, VZ 2)]); (5, [(KTime, VZ 2)])].
Definition es0 : list (Z * Z * attrs) := [(1, 2, []); (1, 3, []); (2, 4, []); (3, 5, [])].
Definition sg0 : list (list Z) := [[1; 1; 0; 0]; [2; 2; 3; 0]; [5; 4; 4; 0]].
Definition exi_raw : state := raw_state nd0 es0 (Some sg0) [] 6.
(* the oracle: the unbranched segments, the weakly connected components *)
Definition exi_ctrk : list (list Z) := [[1]; [2; 4]; [3; 5]].
Definition exi_clin : list (list Z) := [[1; 2; 3; 4; 5]].

Lemma exi_raw_ok : raw_ok exi_raw [] exi_ctrk exi_clin.
Proof. apply raw_state_ok. vm_compute. reflexivity. Qed.

Notation exi_st0 := (construct exi_raw exi_ctrk exi_clin [KIou]).

Lemma exi_extra : forall k, In k [KIou] -> In k (available exi_raw).
Proof. intros k [<-|[]]. vm_compute. auto 10. Qed.

Example exi_constructed :
  WF exi_st0 /\ EditSessions.reg_ok exi_st0 /\ EditBook.rp_disjoint exi_st0 /\ EditSessionsFull.rp_decl exi_st0 /\
  undo_stack exi_st0 = [] /\ redo_stack exi_st0 = [].
Proof. exact (construct_WF exi_raw [] exi_ctrk exi_clin [KIou] exi_raw_ok exi_extra). Qed.

(* what the construction computed *)
Example exi_content :
  nodes (g exi_st0) =
    [(1, [(KTime, VZ 0); (KPos, VRp [0; 1]); (KArea, VRp [0; 1]); (KTrack, VZ 1); (KLin, VZ 1)]);
     (2, [(KTime, VZ 1); (KPos, VRp [0; 1]); (KArea, VRp [0; 1]); (KTrack, VZ 2); (KLin, VZ 1)]);
     (3, [(KTime, VZ 1); (KPos, VRp [2]); (KArea, VRp [2]); (KTrack, VZ 3); (KLin, VZ 1)]);
     (4, [(KTime, VZ 2); (KPos, VRp [1; 2]); (KArea, VRp [1; 2]); (KTrack, VZ 2); (KLin, VZ 1)]);
     (5, [(KTime, VZ 2); (KPos, VRp [0]); (KArea, VRp [0]); (KTrack, VZ 3); (KLin, VZ 1)])] /\
  succs (g exi_st0) = [(1, [(2, [(KIou, VIou 2 2)]); (3, [(KIou, VIou 0 1)])]); (2, [(4, [(KIou, VIou 1 3)])]); (3, [(5, [(KIou, VIou 0 1)])]); (4, []); (5, [])] /\
  trk_book (bk exi_st0) = [(1, [1]); (2, [2; 4]); (3, [3; 5])] /\ lin_book (bk exi_st0) = [(1, [1; 2; 3; 4; 5])] /\
  (max_trk (bk exi_st0), max_lin (bk exi_st0)) = (3, 1) /\
  reg_node (ft exi_st0) = [KTime; KPos; KArea; KTrack; KLin] /\ reg_edge (ft exi_st0) = [KIou] /\ rp_act (ft exi_st0) = [KPos; KArea] /\
  (iou_act (ft exi_st0), trk_act (ft exi_st0), lin_act (ft exi_st0)) = (true, true, true).
Proof. vm_compute. repeat split. Qed.

(* every step of the construction is an accepted enable_features call *)
Example exi_steps : forall pre k post, [KPos; KArea; KTrack; KLin; KIou] = pre ++ k :: post ->
  let s := fold_left (enable1 exi_ctrk exi_clin) pre exi_raw in
  enable_features s [k] true exi_ctrk exi_clin = Ok tt (enable1 exi_ctrk exi_clin s k).
Proof. exact (construct_accepted exi_raw [] exi_ctrk exi_clin [KIou] exi_raw_ok exi_extra). Qed.

(* a session from the constructed state: a stroke creating node 6, a cut, two undos, a redo, a stroke that is
   refused and rolled back, a deletion, undo, redo, a custom attribute *)
Definition exi_ops : list op :=
  [OPaint 6 2 [3] 9 false; ODelEdge 1 3; OUndo; OUndo; ORedo; OPaint 7 2 [1; 2] 1 false; ODelNode 5; OUndo; ORedo;
   OUpdAttrs 1 [(100, VTok 5)]].

Lemma exi_pre : EditSessionsAll.pre_along_all exi_st0 exi_ops.
Proof. apply EditSessionsAll.pre_alongb2_all. vm_compute. reflexivity. Qed.

Example exi_session_WF : forall pre post, exi_ops = pre ++ post -> WF (run exi_st0 pre).
Proof. exact (construct_session_WF exi_raw [] exi_ctrk exi_clin [KIou] exi_ops exi_raw_ok exi_extra exi_pre). Qed.

Example exi_session_timeline (dS : state) :
  let t := EditSessionsFull.tl_run_full exi_st0 {| EditSessions.A.tl := [exi_st0]; EditSessions.A.c := 0 |} exi_ops in
  (EditSessions.A.c _ t < length (EditSessions.A.tl _ t))%nat /\
  EditInverse.obs_eq (run exi_st0 exi_ops) (nth (EditSessions.A.c _ t) (EditSessions.A.tl _ t) dS) /\
  Forall WF (EditSessions.A.tl _ t) /\ (exists ext, EditSessions.A.tl _ t = exi_st0 :: ext).
Proof. exact (construct_session_timeline exi_raw [] exi_ctrk exi_clin [KIou] exi_ops exi_raw_ok exi_extra exi_pre dS). Qed.

Example exi_session_codes : EditSessions.codes exi_st0 exi_ops = [0; 0; 1; 1; 1; 11; 0; 1; 1; 0].
Proof. vm_compute. reflexivity. Qed.

(* ---- the hypotheses on the oracle are needed ---- *)
(* an oracle that splits the segment 2 -> 4 into two tracklets: the constructed state violates W_trk *)
Example exi_bad_oracle :
  let bad := construct exi_raw [[1]; [2]; [4]; [3; 5]] exi_clin [] in
  raw_checkb exi_raw [] [[1]; [2]; [4]; [3; 5]] exi_clin = false /\ ~ W_trk bad.
Proof.
  cbv zeta. split; [vm_compute; reflexivity|]. intros [T1 _].
  assert (E : edge (construct exi_raw [[1]; [2]; [4]; [3; 5]] exi_clin []) 2 4) by (vm_compute; reflexivity).
  assert (N : ~ divides (construct exi_raw [[1]; [2]; [4]; [3; 5]] exi_clin []) 2) by (vm_compute; lia).
  specialize (T1 2 4 E N). vm_compute in T1. discriminate T1.
Qed.

(* ---- without a segmentation: the nodes carry time and position, only the ids are computed ---- *)
Definition exi_raw_ns : state :=
  raw_state [(1, [(KTime, VZ 0); (KPos, VTok 11)]); (2, [(KTime, VZ 1); (KPos, VTok 12)]); (3, [(KTime, VZ 1); (KPos, VTok 13)]); (7, [(KTime, VZ 0); (KPos, VTok 17)])]
            [(1, 2, []); (1, 3, [])] None [KPos] 8.

Lemma exi_raw_ns_ok : raw_ok exi_raw_ns [KPos] [[1]; [2]; [3]; [7]] [[1; 2; 3]; [7]].
Proof. apply raw_state_ok. vm_compute. reflexivity. Qed.

Example exi_constructed_ns :
  let s := construct exi_raw_ns [[1]; [2]; [3]; [7]] [[1; 2; 3]; [7]] [] in
  WF s /\ EditSessions.reg_ok s /\ EditBook.rp_disjoint s /\ EditSessionsFull.rp_decl s /\ undo_stack s = [] /\ redo_stack s = [].
Proof. apply (construct_WF exi_raw_ns [KPos]); [exact exi_raw_ns_ok|intros k []]. Qed.

Example exi_content_ns :
  let s := construct exi_raw_ns [[1]; [2]; [3]; [7]] [[1; 2; 3]; [7]] [] in
  map (fun n => (zattr s n KTrack, zattr s n KLin)) [1; 2; 3; 7] = [(Some 1, Some 1); (Some 2, Some 1); (Some 3, Some 1); (Some 4, Some 2)] /\
  reg_node (ft s) = [KTime; KPos; KTrack; KLin] /\ rp_act (ft s) = [] /\ seg s = None.
Proof. vm_compute. repeat split. Qed.
