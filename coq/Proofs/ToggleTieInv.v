(* Source tie for feature switching, second part: the two hypotheses of Proofs/ToggleTie.v are invariants
   of the model's public interface, and what the C10 invariant [cfg_keys] (Proofs/ToggleProofs.v) adds.

     rp_canon / reg_typed hold after every enable / disable and are kept by every edit, undo, redo, query;
     hence, from a state that has them, the generated Tracks.enable_features / disable_features equal the
     model's along every run of [step2] ([gen_enable_along_run], [gen_disable_along_run]);
     under cfg_keys the key LIST of AnnotatorRegistry.all_features is [available], and the side conditions of
     the _filter_feature_keys theorems hold. *)
From Coq Require Import ZArith List Bool Lia.
From FT Require Import Base.Dict Model.Edit Model.EditExec Model.Toggle Model.ToggleExec Model.PyRt Model.PyRt4
  Gen.Toggle_gen Proofs.DictLemmas Proofs.ToggleProofs Proofs.ToggleExample Proofs.ToggleTie.
Import ListNotations.
Open Scope Z_scope.

(* ---------- rp_canon ---------- *)
Lemma canon_set_flags f ks on : canon (set_flags f ks on).
Proof.
  unfold canon, set_flags. cbn [rp_act rp_all]. symmetry. apply filter_ext_in. intros k Hk.
  rewrite memz_filter, (In_memz_true _ _ Hk). apply andb_true_r.
Qed.
Lemma rp_canon_ft s s' : ft s' = ft s -> rp_canon s -> rp_canon s'.
Proof. unfold rp_canon. now intros ->. Qed.
(* whatever the state before: after a switch that returns, rp_act is in canonical form *)
Theorem enable_gives_rp_canon st ks rc ctrk clin st' :
  enable_features st ks rc ctrk clin = Ok tt st' -> rp_canon st'.
Proof. intros E. unfold rp_canon. rewrite (enable_ft _ _ _ _ _ _ E). apply (canon_set_flags (ft st) ks true). Qed.
Theorem disable_gives_rp_canon st ks st' :
  disable_features st ks = Ok tt st' -> rp_canon st'.
Proof. intros E. unfold rp_canon. rewrite (disable_ft _ _ _ E). apply (canon_set_flags (ft st) ks false). Qed.

(* ---------- reg_typed ---------- *)
Lemma reg_typed_ft s s' : ft s' = ft s -> reg_typed s -> reg_typed s'.
Proof. unfold reg_typed, available. now intros ->. Qed.
Lemma available_ft s s' : rp_all (ft s') = rp_all (ft s) -> iou_avail (ft s') = iou_avail (ft s) -> available s' = available s.
Proof. unfold available. now intros -> ->. Qed.

Theorem enable_keeps_reg_typed st ks rc ctrk clin st' :
  reg_typed st -> enable_features st ks rc ctrk clin = Ok tt st' -> reg_typed st'.
Proof.
  intros T E k Hk. pose proof (enable_ft _ _ _ _ _ _ E) as F.
  rewrite (available_ft st st') in Hk by (rewrite F; reflexivity).
  specialize (T k Hk). rewrite F.
  destruct (is_edge_key k) eqn:Ek.
  - rewrite register_node_In. cbn [reg_node set_flags]. intros [A|(_ & B)]; [auto|congruence].
  - rewrite register_edge_In. cbn [reg_edge set_flags]. intros [A|(_ & B)]; [auto|congruence].
Qed.
Theorem disable_keeps_reg_typed st ks st' :
  reg_typed st -> disable_features st ks = Ok tt st' -> reg_typed st'.
Proof.
  intros T E k Hk. pose proof (disable_ft _ _ _ E) as F.
  rewrite (available_ft st st') in Hk by (rewrite F; reflexivity).
  specialize (T k Hk). rewrite F.
  destruct (is_edge_key k) eqn:Ek.
  - rewrite unregister_node_In. cbn [reg_node set_flags]. tauto.
  - rewrite unregister_edge_In. cbn [reg_edge set_flags]. tauto.
Qed.

(* ---------- both, along every run of the public interface ---------- *)
Definition repr_ok (st : state) : Prop := rp_canon st /\ reg_typed st.

Theorem repr_step2 st o : repr_ok st -> repr_ok (fst (step2 st o)).
Proof.
  intros [C T]. destruct o as [o|ks rc ctrk clin|ks]; cbn [step2].
  - pose proof (step_ft st o) as E. split; [eapply rp_canon_ft|eapply reg_typed_ft]; eauto.
  - destruct (enable_features st ks rc ctrk clin) as [[] s|e s] eqn:E; cbn [fin fst].
    + split; [eapply enable_gives_rp_canon|eapply enable_keeps_reg_typed]; eauto.
    + unfold enable_features in E. destruct (negb _); [injection E as _ <-; split; auto|destruct rc; discriminate].
  - destruct (disable_features st ks) as [[] s|e s] eqn:E; cbn [fin fst].
    + split; [eapply disable_gives_rp_canon|eapply disable_keeps_reg_typed]; eauto.
    + unfold disable_features in E. destruct (negb _); [injection E as _ <-; split; auto|discriminate].
Qed.
Theorem repr_run2 ops : forall st,
  repr_ok st -> repr_ok (fold_left (fun s o => fst (step2 s o)) ops st).
Proof. induction ops as [|o r IH]; intros st R; cbn [fold_left]; [exact R|]. apply IH, repr_step2, R. Qed.

(* the generated switches are the model's in every state reachable from a canonical one *)
Theorem gen_enable_along_run : forall st0 ops ks rc ctrk clin,
  repr_ok st0 ->
  let st := fold_left (fun s o => fst (step2 s o)) ops st0 in
  gen_Tracks_enable_features st ks rc ctrk clin = enable_features st ks rc ctrk clin.
Proof. intros st0 ops ks rc ctrk clin R st. destruct (repr_run2 ops st0 R) as [C T]. now apply gen_Tracks_enable_features_eq. Qed.
Theorem gen_disable_along_run : forall st0 ops ks,
  repr_ok st0 ->
  let st := fold_left (fun s o => fst (step2 s o)) ops st0 in
  gen_Tracks_disable_features st ks = disable_features st ks.
Proof. intros st0 ops ks R st. destruct (repr_run2 ops st0 R) as [C T]. now apply gen_Tracks_disable_features_eq. Qed.

(* C10, clause 1, for the translated code: an unknown key anywhere in the list -- KeyError, nothing changed *)
Theorem gen_unknown_key_refused : forall st ks rc ctrk clin k,
  rp_canon st -> reg_typed st -> In k ks -> ~ In k (available st) ->
  gen_Tracks_enable_features st ks rc ctrk clin = Err EKey st /\ gen_Tracks_disable_features st ks = Err EKey st.
Proof.
  intros st ks rc ctrk clin k C T Hk Hn.
  rewrite gen_Tracks_enable_features_eq, gen_Tracks_disable_features_eq by assumption.
  now apply unknown_key_refused with (k := k).
Qed.
(* C10, clause 2, for the translated code: every manageable key and the time key are refused *)
Theorem gen_protected_refused : forall st n new k,
  In k (keys new) -> In k (available st) \/ k = KTime ->
  gen_UpdateNodeAttrs_init_check st n new = Err EValue st.
Proof.
  intros st n new k Hk Hp. rewrite gen_UpdateNodeAttrs_init_check_eq.
  apply protected_available in Hp.
  assert (E : existsb (fun kv => memz (fst kv) (protected_keys st)) new = true).
  { unfold keys in Hk. apply in_map_iff in Hk. destruct Hk as (kv & <- & Hin).
    apply existsb_exists. exists kv. split; [exact Hin|now apply memz_In]. }
  now rewrite E.
Qed.

(* ---------- what cfg_keys adds ---------- *)
Lemma keys_update_disjoint {V} (d e : dict V) :
  NoDup (keys e) -> (forall k, In k (keys e) -> ~ In k (keys d)) -> keys (update d e) = keys d ++ keys e.
Proof.
  unfold update. revert d. induction e as [|[k v] e IH]; intros d N D; cbn [fold_left fst snd].
  - now rewrite app_nil_r.
  - rewrite keys_cons in N. inversion N as [|? ? Nk Ne]; subst.
    rewrite IH.
    + rewrite keys_set_notin by (apply D; rewrite keys_cons; now left). rewrite keys_cons, <- app_assoc. reflexivity.
    + exact Ne.
    + intros k' Hk'. rewrite in_keys_set. intros [->|A]; [contradiction|].
      apply (D k'); [rewrite keys_cons; now right|exact A].
Qed.

(* TIE (list form): AnnotatorRegistry.all_features lists exactly [available], in this order *)
Theorem gen_AnnotatorRegistry_all_features_keys : forall st,
  cfg_keys st -> keys (gen_AnnotatorRegistry_all_features st) = available st.
Proof.
  intros st C. unfold gen_AnnotatorRegistry_all_features, registry, ann_table, available. cbn [fold_left].
  assert (K1 : keys (tbl_of (ft st) ARp) = rp_all (ft st)) by apply keys_tbl_rp.
  assert (K2 : keys (tbl_of (ft st) AEdge) = if iou_avail (ft st) then [KIou] else []) by (cbn; destruct (iou_avail (ft st)); reflexivity).
  assert (K3 : keys (tbl_of (ft st) ATrk) = [KTrack; KLin]) by reflexivity.
  assert (S : forall k, In k (rp_all (ft st)) -> k <> KIou /\ k <> KTrack /\ k <> KLin).
  { intros k Hk. destruct (cfg_rp_not_special st k C Hk) as (A & B & D & _). auto. }
  assert (E1 : keys (update (@nil (Z * (ftype * bool))) (tbl_of (ft st) ARp)) = rp_all (ft st)).
  { rewrite keys_update_disjoint; rewrite ?K1; [reflexivity|apply (ck_nodup st C)|intros k _ []]. }
  assert (E2 : keys (update (update (@nil (Z * (ftype * bool))) (tbl_of (ft st) ARp)) (tbl_of (ft st) AEdge)) =
               rp_all (ft st) ++ (if iou_avail (ft st) then [KIou] else [])).
  { rewrite keys_update_disjoint; rewrite ?K2, ?E1; [reflexivity| |].
    - destruct (iou_avail (ft st)); repeat constructor; intros [].
    - intros k Hk A. destruct (iou_avail (ft st)); [|destruct Hk]. destruct Hk as [<-|[]]. destruct (S _ A) as (X & _). congruence. }
  rewrite keys_update_disjoint; rewrite ?K3, ?E2; [now rewrite <- app_assoc| |].
  - repeat constructor; cbn; [intros [X|[]]; discriminate|intros []].
  - intros k Hk A. apply in_app_iff in A. destruct A as [A|A].
    + destruct (S _ A) as (_ & X & Y). destruct Hk as [<-|[<-|[]]]; congruence.
    + destruct (iou_avail (ft st)); [|destruct A]. destruct A as [<-|[]]. destruct Hk as [X|[X|[]]]; discriminate.
Qed.

Corollary filter_feature_keys_rp_cfg : forall st ks, cfg_keys st ->
  forall k, In k (gen_GraphAnnotator_filter_feature_keys st ARp (Some ks)) <->
            In k (filter (fun k => memz k ks) (rp_act (ft st))).
Proof. intros st ks C. apply filter_feature_keys_rp. apply (ck_act st C). Qed.
Corollary filter_feature_keys_iou_cfg : forall st ks, cfg_keys st ->
  memz KIou (gen_GraphAnnotator_filter_feature_keys st AEdge (Some ks)) = memz KIou ks && iou_act (ft st).
Proof. intros st ks C. apply filter_feature_keys_iou. apply (ck_iou st C). Qed.

(* non-vacuity: the concrete C10 state (Proofs/ToggleExample.v) has both, and the translated code runs on it *)
Lemma c10_repr_ok : repr_ok c10_st.
Proof.
  split; [reflexivity|]. intros k Hk. cbn in Hk.
  repeat (destruct Hk as [<-|Hk]; [cbn; intros H; repeat (destruct H as [H|H]; [discriminate|]); exact H|]). destruct Hk.
Qed.
Example c10_gen_enable :
  gen_Tracks_enable_features c10_st [KPerim; KIou] true [[1; 2]] [[1; 2]] = enable_features c10_st [KPerim; KIou] true [[1; 2]] [[1; 2]] /\
  gen_Tracks_disable_features c10_st [KArea; KTrack] = disable_features c10_st [KArea; KTrack] /\
  gen_Tracks_enable_features c10_st [KArea; 999] true [] [] = Err EKey c10_st.
Proof.
  destruct c10_repr_ok as [C T]. split; [now apply gen_Tracks_enable_features_eq|]. split; [now apply gen_Tracks_disable_features_eq|].
  rewrite gen_Tracks_enable_features_eq by assumption. reflexivity.
Qed.

Print Assumptions enable_gives_rp_canon.
Print Assumptions c10_repr_ok.
Print Assumptions c10_gen_enable.
Print Assumptions disable_gives_rp_canon.
Print Assumptions enable_keeps_reg_typed.
Print Assumptions disable_keeps_reg_typed.
Print Assumptions repr_step2.
Print Assumptions repr_run2.
Print Assumptions gen_enable_along_run.
Print Assumptions gen_disable_along_run.
Print Assumptions gen_unknown_key_refused.
Print Assumptions gen_protected_refused.
Print Assumptions gen_AnnotatorRegistry_all_features_keys.
Print Assumptions filter_feature_keys_rp_cfg.
Print Assumptions filter_feature_keys_iou_cfg.
