(* A concrete state (3 frames of 2x2 pixels, 4 nodes, a division and a continuation) that satisfies
   W_seg, W_fresh and the side conditions used by the C07 / C08 / C09 theorems: non-vacuity. *)
From Coq Require Import ZArith List Bool Lia.
From FT Require Import Base.Dict Model.Edit Model.EditExec Proofs.DictLemmas Proofs.EditInv Proofs.EditSeg Proofs.EditFresh.
Import ListNotations.
Open Scope Z_scope.

Definition fx : feats :=
  {| reg_node := [KTime; KPos; KTrack; KLin; KArea]; reg_edge := [KIou]; pos_keys := [KPos];
     rp_all := [KPos; KArea; KEll; KCirc; KPerim]; rp_act := [KPos; KArea];
     iou_avail := true; iou_act := true; trk_act := true; lin_act := true |}.
Definition nd (t T : Z) (m : list Z) : attrs :=
  [(KTime, VZ t); (KPos, VRp m); (KTrack, VZ T); (KLin, VZ 1); (KArea, VRp m)].
(*  frame 0: 1 1 / 0 0     frame 1: 2 2 / 3 0     frame 2: 0 4 / 4 0  *)
Definition sg0 : list (list Z) := [[1;1;0;0]; [2;2;3;0]; [0;4;4;0]].
Definition ex0 : state :=
  mk_state [(1, nd 0 1 [0;1]); (2, nd 1 2 [0;1]); (3, nd 1 3 [2]); (4, nd 2 2 [1;2])]
           [(1, 2, [(KIou, VIou 2 2)]); (1, 3, [(KIou, VIou 0 1)]); (2, 4, [(KIou, VIou 1 3)])]
           (Some sg0) fx
           [(1, [1]); (2, [2;4]); (3, [3])] [(1, [1;2;3;4])] 3 1 5.

Lemma has_edge_all_edges st u v : has_edge st u v = true -> In (u, v) (all_edges st).
Proof.
  unfold has_edge, adj, getd, all_edges. destruct (lookup u (succs (g st))) as [d|] eqn:E; [|discriminate].
  intros H. apply haskey_keys in H. apply lookup_In in E. apply in_flat_map. exists (u, d). split; [exact E|].
  cbn [fst snd]. apply in_map_iff. exists v. auto.
Qed.

Lemma ex0_nodes n : is_node ex0 n <-> n = 1 \/ n = 2 \/ n = 3 \/ n = 4.
Proof. unfold is_node. cbn. intuition. Qed.

Lemma ex0_edges u v : edge ex0 u v -> (u, v) = (1, 2) \/ (u, v) = (1, 3) \/ (u, v) = (2, 4).
Proof. intros H. apply has_edge_all_edges in H. cbn in H. intuition. Qed.

Lemma ex0_W_seg : W_seg ex0.
Proof.
  apply (W_seg_iff ex0 sg0 eq_refl). split; [|split].
  - intros n Hn. apply ex0_nodes in Hn. destruct Hn as [->|[->|[->| ->]]]; vm_compute; (split; [reflexivity|discriminate]).
  - intros t i Hf Hl. apply frame_ok_range in Hf. cbn [length sg0] in Hf.
    assert (Ht : t = 0 \/ t = 1 \/ t = 2) by lia.
    destruct Ht as [->|[->| ->]]; (do 4 (destruct i as [|i]; [vm_compute in Hl |- *; try (exfalso; apply Hl; reflexivity); (split; [tauto|reflexivity])|]));
      exfalso; apply Hl; apply label_at_overflow; change (4 <= S (S (S (S i))))%nat; lia.
  - intros n Hn. apply ex0_nodes in Hn. lia.
Qed.

Lemma ex0_rp_fresh : rp_fresh ex0.
Proof.
  unfold rp_fresh. cbn [seg ex0 mk_state]. intros n k Hn Hk. apply ex0_nodes in Hn. cbn in Hk.
  destruct Hn as [->|[->|[->| ->]]]; destruct Hk as [<-|[<-|[]]]; reflexivity.
Qed.

Lemma ex0_iou_fresh : iou_fresh ex0.
Proof.
  unfold iou_fresh. cbn [seg ex0 mk_state]. intros _ u v He. apply ex0_edges in He.
  destruct He as [E|[E|E]]; injection E as -> ->; reflexivity.
Qed.

Lemma ex0_W_fresh : W_fresh ex0.
Proof. apply W_fresh_split. split; [apply ex0_rp_fresh|apply ex0_iou_fresh]. Qed.

Lemma ex0_edges_sane : edges_sane ex0.
Proof.
  intros u v He. apply ex0_edges in He. destruct He as [E|[E|E]]; injection E as -> ->; split; apply ex0_nodes; tauto.
Qed.

Lemma ex0_nodes_sane : nodes_sane ex0 sg0.
Proof. apply W_seg_nodes_sane; [reflexivity|apply ex0_W_seg]. Qed.

Lemma ex0_cfg : ~ In KTime (rp_act (ft ex0)) /\ ~ In KTrack (rp_act (ft ex0)) /\ ~ In KLin (rp_act (ft ex0)) /\
                incl (rp_act (ft ex0)) (rp_all (ft ex0)).
Proof.
  cbn. unfold KTime, KTrack, KLin, KPos, KArea. repeat split; try (intros [H|[H|[]]]; discriminate).
  intros k [<-|[<-|[]]]; cbn; auto.
Qed.
