(* The definitions translated from the current export sources
     import_export/csv/_export.py, import_export/geff/_export.py, features/_feature_dict.py,
     import_export/internal_format.py
   (Gen/ExportPipeline_gen.v, written by harness/translate_export.py on every run) ARE the
   hand-written model functions of Model/SubsetExport.v and Model/RoundTrip.v the C15 / C14
   theorems are about (and of Model/ExportImage.v for the relabelled label image of the CSV
   export, which had no hand model).  If the source changes its behaviour, the equalities
   below stop being provable.

   A generated function returns [res (value * list event)]: the tie theorems state the exact
   list of write events, so they also show that the export raises nothing under the stated
   hypotheses, and - because the [tracks] argument is an immutable value that the translator
   only lets the code READ - that nothing but these files is produced (C16). *)
From Coq Require Import ZArith List Bool Lia.
From FT Require Import Base.Dict Model.PyRt2 Model.RoundTrip Model.PyRt7.
From FT Require Model.SubsetExport Gen.SubsetUtils_gen Proofs.SubsetTie Proofs.SubsetExportProofs.
From FT Require Import Proofs.RoundTripProofs Gen.ExportPipeline_gen Model.ExportImage.
Import ListNotations.
Open Scope Z_scope.

(* ================================================================== generic lemmas *)
Lemma py_for_pure {A S S' R} (l : list A) (f : A -> S -> S) (body : A -> S -> ctl S R) (k : S -> ctl S' R) :
  (forall x s, body x s = Cont (f x s)) ->
  forall s, py_for l s body k = k (fold_left (fun s x => f x s) l s).
Proof.
  intros Hb. induction l as [|x l IH]; intros s; [reflexivity|].
  cbn [py_for fold_left]. rewrite Hb. apply IH.
Qed.

Lemma py_for_append {A B S' R} (l : list A) (g : A -> B) (body : A -> list B -> ctl (list B) R)
      (k : list B -> ctl S' R) :
  (forall x s, In x l -> body x s = Cont (s ++ [g x])) ->
  forall s, py_for l s body k = k (s ++ map g l).
Proof.
  induction l as [|x l IH]; intros Hb s.
  - cbn. now rewrite app_nil_r.
  - cbn [py_for map]. rewrite Hb by (left; reflexivity).
    rewrite IH by (intros y s' Hy; apply Hb; right; exact Hy).
    now rewrite <- app_assoc.
Qed.

Lemma fold_left_ext {A B} (f g : A -> B -> A) : (forall a b, f a b = g a b) ->
  forall l a, fold_left f l a = fold_left g l a.
Proof. intros H l. induction l as [|b l IH]; intros a; cbn; [reflexivity|]. now rewrite H, IH. Qed.

Lemma mapM_ok {A B} (f : A -> res B) (g : A -> B) : forall l,
  (forall x, In x l -> f x = Ok (g x)) -> mapM f l = Ok (map g l).
Proof.
  induction l as [|x l IH]; intros H; [reflexivity|].
  cbn [mapM map]. rewrite H by (left; reflexivity).
  rewrite IH by (intros y Hy; apply H; right; exact Hy). reflexivity.
Qed.

Lemma memz_In x l : memz x l = true <-> In x l.
Proof.
  unfold memz. rewrite existsb_exists. split.
  - intros [y [Hy E]]. apply Z.eqb_eq in E. now subst.
  - intros H. exists x. split; [exact H|apply Z.eqb_refl].
Qed.

Lemma lookup_In {V} (k : Z) (v : V) : forall d, lookup k d = Some v -> In (k, v) d.
Proof.
  induction d as [|[k' v'] d IH]; cbn; [discriminate|].
  destruct (Z.eqb_spec k k'); intros H.
  - injection H as <-. subst. now left.
  - right. now apply IH.
Qed.

Lemma lookup_NoDup {V} (k : Z) (v : V) : forall d, NoDup (map fst d) -> In (k, v) d -> lookup k d = Some v.
Proof.
  induction d as [|[k' v'] d IH]; cbn; intros Hnd Hin; [contradiction|].
  inversion Hnd as [|? ? Hk' Hnd']; subst.
  destruct Hin as [E|Hin].
  - injection E as -> ->. now rewrite Z.eqb_refl.
  - destruct (Z.eqb_spec k k') as [->|_]; [|now apply IH].
    exfalso. apply Hk'. change k' with (fst (k', v)). now apply in_map.
Qed.

Lemma lookup_Some_key {V} (k : Z) (v : V) d : lookup k d = Some v -> In k (map fst d).
Proof. intros H. apply lookup_In in H. change k with (fst (k, v)). now apply in_map. Qed.

Lemma getd_singleton_lookup (k : Z) (a : attrs) (t : Z) : getd k a [] = [t] -> lookup k a = Some [t].
Proof. unfold getd. destruct (lookup k a); [now intros ->|discriminate]. Qed.

(* ================================================================== (1) export_to_csv: node selection and row loop *)
(* the hypotheses under which the CSV exporter writes a complete row for every node (Python raises
   otherwise): position and tracklet keys are set, node ids are distinct (a networkx graph), and
   every node satisfies RoundTripProofs.csv_node_ok (scalar time, scalar track id, one coordinate
   per axis column) *)
Definition is3d (tr : tracks) : bool := t_ndim tr =? 4.
Definition tracks_csv_ok (tr : tracks) (pk : poskey) (trk : Z) : Prop :=
  fd_pos (t_features tr) = Some pk /\ fd_tracklet (t_features tr) = Some trk /\
  NoDup (nx_nodes (t_graph tr)) /\
  forall n, In n (g_nodes (t_graph tr)) -> csv_node_ok (fd_time (t_features tr)) pk trk (is3d tr) n.

(* graph.nodes[n] *)
Definition attrs_of (g : graph) (n : Z) : attrs := getd n (g_nodes g) [].
(* the row the model writes for node id n *)
Definition csv_row_of (tr : tracks) (pk : poskey) (trk : Z) (n : Z) : dict cell :=
  csv_row (t_graph tr) (fd_time (t_features tr)) pk trk (is3d tr) (n, attrs_of (t_graph tr) n).

Lemma parent_cell (l : list Z) :
  (if py_len l =? 0 then Ok None else rbind (list_get l 0) (fun t => Ok (Some t))) = Ok (hd_error l).
Proof. destruct l as [|x l]; [reflexivity|]. unfold py_len. cbn [length]. rewrite Nat2Z.inj_succ.
  destruct (Z.eqb_spec (Z.succ (Z.of_nat (length l))) 0); [lia|reflexivity]. Qed.

Section CsvRows.
  Variables np_is_float np_is_int : Z -> bool.
  Variable tr : tracks.
  Variables (pk : poskey) (trk : Z).
  Hypothesis Hok : tracks_csv_ok tr pk trk.
  Notation g := (t_graph tr).
  Notation tk := (fd_time (t_features tr)).

  Lemma node_facts n : In n (nx_nodes g) ->
    let a := attrs_of g n in
    lookup n (g_nodes g) = Some a /\ In (n, a) (g_nodes g).
  Proof.
    intros Hin. unfold nx_nodes in Hin. apply in_map_iff in Hin. destruct Hin as [[n' a'] [E Hin]]. cbn in E. subst n'.
    destruct Hok as (_ & _ & Hnd & _).
    assert (L : lookup n (g_nodes g) = Some a') by (apply lookup_NoDup; assumption).
    unfold attrs_of, getd. rewrite L. cbn. split; [reflexivity|exact Hin].
  Qed.

  Lemma get_time_ok n : In n (nx_nodes g) ->
    exists t, getd tk (attrs_of g n) [] = [t] /\ tracks_get_time tr n = Ok t.
  Proof.
    intros Hin. destruct (node_facts n Hin) as [L I].
    destruct Hok as (_ & _ & _ & Hn). destruct (Hn _ I) as ([t Ht] & _ & _). cbn [snd] in Ht.
    exists t. split; [exact Ht|]. unfold tracks_get_time, nx_node_attrs. rewrite L. cbn [rbind].
    unfold dict_get. now rewrite (getd_singleton_lookup _ _ _ Ht).
  Qed.

  Lemma get_track_ok n : In n (nx_nodes g) ->
    exists k, getd trk (attrs_of g n) [] = [k] /\ tracks_get_track_id tr n = Ok k.
  Proof.
    intros Hin. destruct (node_facts n Hin) as [L I].
    destruct Hok as (_ & Htr & _ & Hn). destruct (Hn _ I) as (_ & [k Hk] & _). cbn [snd] in Hk.
    exists k. split; [exact Hk|]. unfold tracks_get_track_id, nx_node_attrs. rewrite Htr. rewrite L. cbn [rbind].
    unfold dict_get. now rewrite (getd_singleton_lookup _ _ _ Hk).
  Qed.

  Lemma get_position_ok n : In n (nx_nodes g) ->
    tracks_get_position tr n = Ok (get_position pk (attrs_of g n)) /\
    length (get_position pk (attrs_of g n)) = length (coords (is3d tr)).
  Proof.
    intros Hin. destruct (node_facts n Hin) as [L I].
    destruct Hok as (Hp & _ & _ & Hn). destruct (Hn _ I) as (_ & _ & Hl). cbn [snd] in Hl.
    split; [|exact Hl]. unfold tracks_get_position, nx_node_attrs. rewrite Hp. fold g. now rewrite L.
  Qed.

  Lemma predecessors_ok n : In n (nx_nodes g) -> nx_predecessors g n = Ok (preds g n).
  Proof. intros Hin. unfold nx_predecessors. now rewrite (proj2 (memz_In _ _) Hin). Qed.

  Lemma convert_id (v : Z) :
    (if np_is_float v then py_float v else if np_is_int v then py_int_of_np v else v) = v.
  Proof. unfold py_float, py_int_of_np. destruct (np_is_float v), (np_is_int v); reflexivity. Qed.
End CsvRows.

Section CsvTie.
  Variables np_is_float np_is_int : Z -> bool.
  Notation gen_csv := (gen_export_to_csv np_is_float np_is_int).

  (* one iteration of `for node_id in node_to_keep` appends the model's row *)
  Ltac csv_iteration tr pk trk Hok Hincl E :=
    let n := fresh "n" in let rows := fresh "rows" in let Hin := fresh "Hin" in
    intros n rows Hin; apply Hincl in Hin;
    rewrite (predecessors_ok tr n Hin); cbn [bind];
    rewrite parent_cell; cbn [bind];
    let t := fresh "t" in let Ht1 := fresh "Ht1" in let Ht2 := fresh "Ht2" in
    destruct (get_time_ok tr pk trk Hok n Hin) as [t [Ht1 Ht2]]; rewrite Ht2;
    let k := fresh "k" in let Hk1 := fresh "Hk1" in let Hk2 := fresh "Hk2" in
    destruct (get_track_ok tr pk trk Hok n Hin) as [k [Hk1 Hk2]]; rewrite Hk2;
    let Hp1 := fresh "Hp1" in let Hp2 := fresh "Hp2" in
    destruct (get_position_ok tr pk trk Hok n Hin) as [Hp1 Hp2]; rewrite Hp1;
    cbn; rewrite convert_id;
    rewrite E in Hp2; unfold py_zip_strict; cbn [coords length] in Hp2; cbn [length]; rewrite <- Hp2, Nat.eqb_refl; cbn [bind];
    rewrite (py_for_pure _ (fun (nv : Z * Z) (r : dict (option Z)) => set (fst nv) (Some (snd nv)) r))
      by (intros [? ?] ?; cbn [fst snd]; now rewrite convert_id);
    unfold csv_row_of, csv_row; cbn [fst snd]; rewrite Ht1, Hk1, E; reflexivity.

  (* node selection (all nodes / the translated filter_graph_with_ancestors) + row loop + DataFrame + to_csv,
     for the list [keep] the selection step returns *)
  Lemma gen_export_to_csv_rows tr pk trk out node_ids sp keep :
    tracks_csv_ok tr pk trk ->
    match node_ids with
    | None => keep = nx_nodes (t_graph tr)
    | Some sel => SubsetUtils_gen.gen_filter_graph_with_ancestors (nx_structure (t_graph tr)) sel = Ok keep
    end ->
    incl keep (nx_nodes (t_graph tr)) ->
    gen_csv tr out node_ids false sp
    = Ok (tt, [EvCsv out (dataframe (map (csv_row_of tr pk trk) keep) (csv_header (is3d tr)))]).
  Proof.
    intros Hok Hsel Hincl. unfold gen_export_to_csv.
    assert (E3 : (t_ndim tr =? 4) = is3d tr) by reflexivity.
    destruct node_ids as [sel|]; [rewrite Hsel; cbn [bind]|subst keep];
      destruct (is3d tr) eqn:E; rewrite E3; cbv zeta;
      match goal with |- context [py_for ?l _ ?body ?k] =>
        rewrite (py_for_append l (csv_row_of tr pk trk) body k);
        [reflexivity | csv_iteration tr pk trk Hok Hincl E]
      end.
  Qed.
End CsvTie.

(* ---- the statements Props/C14 and Props/C15 use ---- *)
Lemma attrs_of_nodes g : NoDup (nx_nodes g) ->
  map (fun n => (n, attrs_of g n)) (nx_nodes g) = g_nodes g.
Proof.
  unfold nx_nodes, attrs_of. intros Hnd. rewrite map_map.
  rewrite <- (map_id (g_nodes g)) at 2. apply map_ext_in. intros [n a] Hin. cbn [fst].
  unfold getd. now rewrite (lookup_NoDup n a _ Hnd Hin).
Qed.

(* C14 (all nodes): the table handed to DataFrame.to_csv is RoundTrip.export_csv *)
Theorem gen_export_to_csv_all_eq : forall np_is_float np_is_int tr pk trk out sp,
  tracks_csv_ok tr pk trk ->
  gen_export_to_csv np_is_float np_is_int tr out None false sp
  = Ok (tt, [EvCsv out (export_csv (t_graph tr) (fd_time (t_features tr)) pk trk (is3d tr))]).
Proof.
  intros f i tr pk trk out sp Hok.
  rewrite (gen_export_to_csv_rows f i tr pk trk out None sp (nx_nodes (t_graph tr)) Hok eq_refl (fun x H => H)).
  unfold export_csv, csv_row_of.
  rewrite <- (map_map (fun n => (n, attrs_of (t_graph tr) n)) (csv_row (t_graph tr) (fd_time (t_features tr)) pk trk (is3d tr))).
  rewrite attrs_of_nodes by apply Hok. reflexivity.
Qed.

(* C15 (subset): the rows are those of the kept nodes, in the order of the translated
   filter_graph_with_ancestors = SubsetExport.filter_graph_with_ancestors (Proofs/SubsetTie.v) *)
Definition keep_of (tr : tracks) (sel : list Z) : list Z :=
  SubsetExport.filter_graph_with_ancestors (nx_structure (t_graph tr)) sel.

Lemma keep_of_facts tr sel :
  SubsetExportProofs.well_formed (nx_structure (t_graph tr)) -> incl sel (nx_nodes (t_graph tr)) ->
  SubsetUtils_gen.gen_filter_graph_with_ancestors (nx_structure (t_graph tr)) sel = Ok (keep_of tr sel) /\
  incl (keep_of tr sel) (nx_nodes (t_graph tr)) /\ NoDup (keep_of tr sel).
Proof.
  intros Hwf Hsel. split; [now apply SubsetTie.gen_filter_graph_with_ancestors_eq|].
  destruct (SubsetExportProofs.keep_spec (nx_structure (t_graph tr)) sel Hwf Hsel) as (_ & Hnd & Hincl).
  split; [exact Hincl|exact Hnd].
Qed.

Theorem gen_export_to_csv_subset_eq : forall np_is_float np_is_int tr pk trk out sel sp,
  tracks_csv_ok tr pk trk ->
  SubsetExportProofs.well_formed (nx_structure (t_graph tr)) -> incl sel (nx_nodes (t_graph tr)) ->
  gen_export_to_csv np_is_float np_is_int tr out (Some sel) false sp
  = Ok (tt, [EvCsv out (dataframe (map (csv_row_of tr pk trk) (keep_of tr sel)) (csv_header (is3d tr)))]).
Proof.
  intros f i tr pk trk out sel sp Hok Hwf Hsel.
  destruct (keep_of_facts tr sel Hwf Hsel) as (Hgen & Hincl & _).
  exact (gen_export_to_csv_rows f i tr pk trk out (Some sel) sp _ Hok Hgen Hincl).
Qed.

(* the id / parent_id columns of the table written *)
Definition id_parent_rows (t : table) : list (cell * cell) := combine (getd K_id t []) (getd K_parent t []).

Lemma csv_row_id_parent g tk pk trk b n a : length (get_position pk a) = length (coords b) ->
  getd K_id (csv_row g tk pk trk b (n, a)) None = Some n /\
  getd K_parent (csv_row g tk pk trk b (n, a)) None = hd_error (preds g n) /\
  getd K_track (csv_row g tk pk trk b (n, a)) None = hd_error (getd trk a []).
Proof.
  unfold csv_row. cbn [fst snd]. generalize (get_position pk a). intros pos Hl.
  destruct b; cbn [coords length] in Hl.
  - destruct pos as [|p1 [|p2 [|p3 [|]]]]; try discriminate. repeat split.
  - destruct pos as [|p1 [|p2 [|]]]; try discriminate. repeat split.
Qed.

Lemma dataframe_col b c (rows : list (dict cell)) : In c (csv_header b) ->
  getd c (dataframe rows (csv_header b)) [] = map (fun r => getd c r None) rows.
Proof.
  intros Hin. destruct b; cbn in Hin;
    repeat (destruct Hin as [<-|Hin]; [reflexivity|]); contradiction.
Qed.

Theorem gen_export_to_csv_subset_rows : forall np_is_float np_is_int tr pk trk out sel sp,
  tracks_csv_ok tr pk trk ->
  SubsetExportProofs.well_formed (nx_structure (t_graph tr)) -> incl sel (nx_nodes (t_graph tr)) ->
  exists t, gen_export_to_csv np_is_float np_is_int tr out (Some sel) false sp = Ok (tt, [EvCsv out t]) /\
    id_parent_rows t = map (fun r => (Some (fst r), snd r)) (SubsetExport.csv_rows (nx_structure (t_graph tr)) sel).
Proof.
  intros f i tr pk trk out sel sp Hok Hwf Hsel. eexists. split.
  - exact (gen_export_to_csv_subset_eq f i tr pk trk out sel sp Hok Hwf Hsel).
  - destruct (keep_of_facts tr sel Hwf Hsel) as (_ & Hincl & _).
    unfold id_parent_rows. rewrite !dataframe_col by (destruct (is3d tr); cbn; tauto).
    unfold SubsetExport.csv_rows. fold (keep_of tr sel). rewrite !map_map.
    revert Hincl. generalize (keep_of tr sel). induction l as [|n l IH]; intros Hincl; [reflexivity|].
    cbn [map combine]. rewrite IH by (intros x Hx; apply Hincl; now right). f_equal.
    assert (Hn : In n (nx_nodes (t_graph tr))) by (apply Hincl; now left).
    destruct (get_position_ok tr pk trk Hok n Hn) as [_ Hl].
    unfold csv_row_of.
    destruct (csv_row_id_parent (t_graph tr) (fd_time (t_features tr)) pk trk (is3d tr) n (attrs_of (t_graph tr) n) Hl) as (E1 & E2 & _).
    cbn [fst snd]. f_equal; [exact E1|exact E2].
Qed.

(* ================================================================== (2) export_to_csv: the relabelled label image *)

Definition track_of (tr : tracks) (trk : Z) (n : Z) : Z := hd 0 (getd trk (attrs_of (t_graph tr) n) []).
(* the exported rows as (node id, track id) *)
Definition id_track_rows (tr : tracks) (trk : Z) (keep : list Z) : list (Z * Z) :=
  map (fun n => (n, track_of tr trk n)) keep.

Lemma series_max_somes tids :
  series_max (map Some tids) = match tids with [] => None | _ :: _ => Some (max_track tids) end.
Proof.
  destruct tids as [|t r]; [reflexivity|]. unfold series_max, max_track. cbn [map fold_left].
  generalize t. induction r as [|x r IH]; intros a; [reflexivity|]. cbn [map fold_left]. apply IH.
Qed.

Lemma np_array_col_dtype_somes tids d :
  np_array_col_dtype (map Some tids) d = Ok (map (fun v => v mod 2 ^ d) tids, d).
Proof.
  unfold np_array_col_dtype.
  rewrite (mapM_ok _ (fun x => match x with Some v => v mod 2 ^ d | None => 0 end)).
  - cbn [rbind]. now rewrite map_map.
  - intros x Hx. apply in_map_iff in Hx. destruct Hx as [v [<- _]]. reflexivity.
Qed.

Lemma map_lookup_nomatch (keep : list Z) (tf : Z -> Z) l acc : ~ In l keep ->
  fold_left (fun acc (p : cell * Z) => match fst p with Some i => if i =? l then snd p else acc | None => acc end)
            (combine (map Some keep) (map tf keep)) acc = acc.
Proof.
  revert acc. induction keep as [|n keep IH]; intros acc H; [reflexivity|]. cbn.
  destruct (Z.eqb_spec n l) as [->|_]; [exfalso; apply H; now left|]. apply IH. intros Hin. apply H. now right.
Qed.

Lemma map_lookup_find_acc (keep : list Z) (tf : Z -> Z) d l : NoDup keep -> forall acc,
  fold_left (fun acc (p : cell * Z) => match fst p with Some i => if i =? l then snd p else acc | None => acc end)
            (combine (map Some keep) (map (fun n => tf n mod 2 ^ d) keep)) acc
  = match find (fun r : Z * Z => fst r =? l) (map (fun n => (n, tf n)) keep) with
    | Some r => snd r mod 2 ^ d
    | None => acc
    end.
Proof.
  induction keep as [|n keep IH]; intros Hnd acc; [reflexivity|].
  inversion Hnd as [|? ? Hn Hnd']; subst. cbn [map combine fold_left find fst snd].
  destruct (Z.eqb_spec n l) as [->|_].
  - now rewrite (map_lookup_nomatch keep (fun n => tf n mod 2 ^ d) l _ Hn).
  - now apply IH.
Qed.

Lemma map_lookup_find (keep : list Z) (tf : Z -> Z) d l : NoDup keep ->
  map_lookup (combine (map Some keep) (map (fun n => tf n mod 2 ^ d) keep)) l
  = relabel_pixel (map (fun n => (n, tf n)) keep) d l.
Proof. intros Hnd. unfold map_lookup, relabel_pixel. now apply map_lookup_find_acc. Qed.

Lemma dtype_chain m :
  (if m <=? np_iinfo_max np_uint8 then np_uint8 else if m <=? np_iinfo_max np_uint16 then np_uint16
   else if m <=? np_iinfo_max np_uint32 then np_uint32 else np_uint64) = bits_for m.
Proof. reflexivity. Qed.

Lemma df_len_csv b (rows : list (dict cell)) : df_len (pd_DataFrame rows (csv_header b)) = py_len rows.
Proof. destruct b; cbn; unfold py_len; now rewrite map_length. Qed.

Lemma df_col_csv b (rows : list (dict cell)) c : In c [K_id; K_track] ->
  df_getitem (pd_DataFrame rows (csv_header b)) c = Ok (map (fun r => getd c r None) rows).
Proof. intros [<-|[<-|[]]]; destruct b; reflexivity. Qed.

Lemma max_val_eq {A} (xs : list A) (tids : list Z) : length xs = length tids ->
  (if py_len xs >? 0 then rbind (Ok (map Some tids)) (fun t => rbind (py_int_cell (series_max t)) (fun m => Ok m)) else Ok 0)
  = Ok (max_track tids).
Proof.
  intros Hl. unfold py_len. rewrite Hl. destruct tids as [|t r]; [reflexivity|].
  cbn [length]. rewrite Nat2Z.inj_succ.
  destruct (Z.gtb_spec (Z.succ (Z.of_nat (length r))) 0); [|lia].
  cbn [rbind]. now rewrite series_max_somes.
Qed.

Lemma id_track_rows_snd tr trk keep : map snd (id_track_rows tr trk keep) = map (track_of tr trk) keep.
Proof. unfold id_track_rows. rewrite map_map. reflexivity. Qed.

Lemma csv_image_eq tr trk keep (seg : ndarray) : NoDup keep ->
  let d := bits_for (max_track (map (track_of tr trk) keep)) in
  sk_map_array seg (np_array_col (map Some keep)) (map (fun v => v mod 2 ^ d) (map (track_of tr trk) keep), d)
  = {| a_shape := a_shape seg;
       a_dtype := fst (csv_seg_image (id_track_rows tr trk keep) (a_data seg));
       a_data := snd (csv_seg_image (id_track_rows tr trk keep) (a_data seg)) |}.
Proof.
  intros Hnd d. unfold sk_map_array, np_array_col, csv_seg_image, csv_seg_dtype. cbn [fst snd].
  rewrite id_track_rows_snd. fold d. f_equal. apply map_ext. intros l. rewrite map_map.
  apply (map_lookup_find keep (track_of tr trk) d l Hnd).
Qed.

Lemma csv_cols tr pk trk keep : tracks_csv_ok tr pk trk -> incl keep (nx_nodes (t_graph tr)) ->
  @map (dict (option Z)) (option Z) (fun r => @getd (option Z) K_id r None) (map (csv_row_of tr pk trk) keep) = map Some keep /\
  @map (dict (option Z)) (option Z) (fun r => @getd (option Z) K_track r None) (map (csv_row_of tr pk trk) keep) = map Some (map (track_of tr trk) keep).
Proof.
  intros Hok Hincl. rewrite !map_map. split; apply map_ext_in; intros n Hn; apply Hincl in Hn;
    destruct (get_position_ok tr pk trk Hok n Hn) as [_ Hl]; unfold csv_row_of;
    destruct (csv_row_id_parent (t_graph tr) (fd_time (t_features tr)) pk trk (is3d tr) n (attrs_of (t_graph tr) n) Hl) as (E1 & _ & E3).
  - exact E1.
  - etransitivity; [exact E3|]. destruct (get_track_ok tr pk trk Hok n Hn) as [k [Hk _]]. unfold track_of. now rewrite Hk.
Qed.

Section CsvSegTie.
  Variables np_is_float np_is_int : Z -> bool.
  Notation gen_csv := (gen_export_to_csv np_is_float np_is_int).

  Ltac csv_iteration tr pk trk Hok Hincl E :=
    let n := fresh "n" in let rows := fresh "rows" in let Hin := fresh "Hin" in
    intros n rows Hin; apply Hincl in Hin;
    rewrite (predecessors_ok tr n Hin); cbn [bind];
    rewrite parent_cell; cbn [bind];
    let t := fresh "t" in let Ht1 := fresh "Ht1" in let Ht2 := fresh "Ht2" in
    destruct (get_time_ok tr pk trk Hok n Hin) as [t [Ht1 Ht2]]; rewrite Ht2;
    let k := fresh "k" in let Hk1 := fresh "Hk1" in let Hk2 := fresh "Hk2" in
    destruct (get_track_ok tr pk trk Hok n Hin) as [k [Hk1 Hk2]]; rewrite Hk2;
    let Hp1 := fresh "Hp1" in let Hp2 := fresh "Hp2" in
    destruct (get_position_ok tr pk trk Hok n Hin) as [Hp1 Hp2]; rewrite Hp1;
    cbn; rewrite convert_id;
    rewrite E in Hp2; unfold py_zip_strict; cbn [coords length] in Hp2; cbn [length]; rewrite <- Hp2, Nat.eqb_refl; cbn [bind];
    rewrite (py_for_pure _ (fun (nv : Z * Z) (r : dict (option Z)) => set (fst nv) (Some (snd nv)) r))
      by (intros [? ?] ?; cbn [fst snd]; now rewrite convert_id);
    unfold csv_row_of, csv_row; cbn [fst snd]; rewrite Ht1, Hk1, E; reflexivity.

  (* after the row loop: DataFrame, to_csv, bit depth from the largest TRACK id, map_array, imwrite *)
  Ltac csv_seg_tail tr pk trk keep seg b Hok Hincl Hnd Hseg :=
    let rows := fresh "rows" in let Hrows := fresh "Hrows" in
    remember (map (csv_row_of tr pk trk) keep) as rows eqn:Hrows;
    match goal with |- context [pd_DataFrame _ ?h] => change h with (csv_header b) end;
    cbn [app]; rewrite Hseg;
    repeat match goal with |- context [dict_get ?k (set ?a ?b ?c)] =>
      first [ change (dict_get k (set a b c)) with (Ok (CStr K_id))
            | change (dict_get k (set a b c)) with (Ok (CStr K_track)) ] end;
    cbn [bind rbind col_as_str as_some];
    rewrite df_len_csv, !df_col_csv by (cbn; tauto);
    let Cid := fresh "Cid" in let Ctr := fresh "Ctr" in
    destruct (csv_cols tr pk trk keep Hok Hincl) as [Cid Ctr]; rewrite Hrows, Cid, Ctr;
    rewrite (max_val_eq _ (map (track_of tr trk) keep)) by (now rewrite !map_length);
    cbn [bind]; rewrite dtype_chain, np_array_col_dtype_somes; cbn [bind run];
    now rewrite (csv_image_eq tr trk keep seg Hnd).

  Lemma gen_export_to_csv_seg tr pk trk out node_ids p seg keep :
    tracks_csv_ok tr pk trk -> t_seg tr = Some seg ->
    match node_ids with
    | None => keep = nx_nodes (t_graph tr)
    | Some sel => SubsetUtils_gen.gen_filter_graph_with_ancestors (nx_structure (t_graph tr)) sel = Ok keep
    end ->
    incl keep (nx_nodes (t_graph tr)) -> NoDup keep ->
    gen_csv tr out node_ids true (Some p)
    = Ok (tt, [EvCsv out (dataframe (map (csv_row_of tr pk trk) keep) (csv_header (is3d tr)));
               EvTif p {| a_shape := a_shape seg;
                          a_dtype := fst (csv_seg_image (id_track_rows tr trk keep) (a_data seg));
                          a_data := snd (csv_seg_image (id_track_rows tr trk keep) (a_data seg)) |}]).
  Proof.
    intros Hok Hseg Hsel Hincl Hnd. unfold gen_export_to_csv.
    assert (E3 : (t_ndim tr =? 4) = is3d tr) by reflexivity.
    destruct node_ids as [sel|]; [rewrite Hsel; cbn [bind]|subst keep];
      destruct (is3d tr) eqn:E; rewrite E3; cbv zeta;
      match goal with |- context [py_for ?l _ ?body ?k] =>
        rewrite (py_for_append l (csv_row_of tr pk trk) body k);
        [ | csv_iteration tr pk trk Hok Hincl E]
      end.
    - csv_seg_tail tr pk trk keep seg true Hok Hincl Hnd Hseg.
    - csv_seg_tail tr pk trk keep seg false Hok Hincl Hnd Hseg.
    - csv_seg_tail tr pk trk (nx_nodes (t_graph tr)) seg true Hok Hincl Hnd Hseg.
    - csv_seg_tail tr pk trk (nx_nodes (t_graph tr)) seg false Hok Hincl Hnd Hseg.
  Qed.
End CsvSegTie.

(* C15: the label image of a SUBSET export holds, at every pixel of a kept node, that node's track id, and 0
   elsewhere (with Proofs/ExportImageProofs.csv_seg_image_spec); its dtype comes from the largest exported TRACK id *)
Theorem gen_export_to_csv_subset_seg_eq : forall np_is_float np_is_int tr pk trk out sel p seg,
  tracks_csv_ok tr pk trk -> t_seg tr = Some seg ->
  SubsetExportProofs.well_formed (nx_structure (t_graph tr)) -> incl sel (nx_nodes (t_graph tr)) ->
  let rows := id_track_rows tr trk (keep_of tr sel) in
  gen_export_to_csv np_is_float np_is_int tr out (Some sel) true (Some p)
  = Ok (tt, [EvCsv out (dataframe (map (csv_row_of tr pk trk) (keep_of tr sel)) (csv_header (is3d tr)));
             EvTif p {| a_shape := a_shape seg; a_dtype := fst (csv_seg_image rows (a_data seg));
                        a_data := snd (csv_seg_image rows (a_data seg)) |}]).
Proof.
  intros f i tr pk trk out sel p seg Hok Hseg Hwf Hsel.
  destruct (keep_of_facts tr sel Hwf Hsel) as (Hgen & Hincl & Hnd).
  exact (gen_export_to_csv_seg f i tr pk trk out (Some sel) p seg _ Hok Hseg Hgen Hincl Hnd).
Qed.

(* the empty selection raises nothing: a header-only table and an all-zero uint8 image (F-15a, F-15b) *)
Theorem gen_export_to_csv_empty_selection : forall np_is_float np_is_int tr pk trk out p seg,
  tracks_csv_ok tr pk trk -> t_seg tr = Some seg ->
  gen_export_to_csv np_is_float np_is_int tr out (Some []) true (Some p)
  = Ok (tt, [EvCsv out (dataframe [] (csv_header (is3d tr)));
             EvTif p {| a_shape := a_shape seg; a_dtype := 8; a_data := map (fun _ => 0) (a_data seg) |}]).
Proof.
  intros f i tr pk trk out p seg Hok Hseg.
  rewrite (gen_export_to_csv_seg f i tr pk trk out (Some []) p seg [] Hok Hseg eq_refl (fun x H => match H with end) (NoDup_nil _)).
  reflexivity.
Qed.

Theorem gen_export_to_csv_all_seg_eq : forall np_is_float np_is_int tr pk trk out p seg,
  tracks_csv_ok tr pk trk -> t_seg tr = Some seg ->
  let rows := id_track_rows tr trk (nx_nodes (t_graph tr)) in
  gen_export_to_csv np_is_float np_is_int tr out None true (Some p)
  = Ok (tt, [EvCsv out (export_csv (t_graph tr) (fd_time (t_features tr)) pk trk (is3d tr));
             EvTif p {| a_shape := a_shape seg; a_dtype := fst (csv_seg_image rows (a_data seg));
                        a_data := snd (csv_seg_image rows (a_data seg)) |}]).
Proof.
  intros f i tr pk trk out p seg Hok Hseg rows.
  rewrite (gen_export_to_csv_seg f i tr pk trk out None p seg _ Hok Hseg eq_refl (fun x H => H) (proj1 (proj2 (proj2 Hok)))).
  unfold export_csv, csv_row_of.
  rewrite <- (map_map (fun n => (n, attrs_of (t_graph tr) n)) (csv_row (t_graph tr) (fd_time (t_features tr)) pk trk (is3d tr))).
  rewrite attrs_of_nodes by apply Hok. reflexivity.
Qed.

(* ================================================================== (4) split_position_attr *)
(* the single position attribute is present on every node and has at least one coordinate per new key
   (attrs.pop raises KeyError, pos[i] IndexError otherwise) *)
Definition split_ok (tr : tracks) (pk : poskey) : Prop :=
  match pk with
  | PSingle k => forall n, In n (g_nodes (t_graph tr)) ->
      exists pos, lookup k (snd n) = Some pos /\ (length (coords (is3d tr)) <= length pos)%nat
  | PMulti _ => True
  end.

Lemma split_body_ok (b : bool) (k : Z) (a : attrs) (pos : value) :
  lookup k a = Some pos -> (length (coords b) <= length pos)%nat ->
  body_res (bind (dict_pop k a) (fun '(v_pos, v_attrs) =>
     py_for (py_range (py_len (coords b))) v_attrs
       (fun v_i v_attrs => bind (list_get v_pos v_i) (fun t1 => bind (list_get (coords b) v_i) (fun t2 =>
          Cont (set t2 [t1] v_attrs))))
       (fun v_attrs => Cont v_attrs)))
  = Ok (split_attrs k (coords b) a).
Proof.
  intros Hl Hlen. unfold dict_pop, split_attrs, getd. rewrite Hl. cbn [bind].
  destruct b; cbn [coords length] in Hlen.
  - destruct pos as [|p1 [|p2 [|p3 pos]]]; cbn [length] in Hlen; try lia. reflexivity.
  - destruct pos as [|p1 [|p2 pos]]; cbn [length] in Hlen; try lia. reflexivity.
Qed.

Theorem gen_split_position_attr_eq : forall tr pk,
  fd_pos (t_features tr) = Some pk -> split_ok tr pk ->
  gen_split_position_attr tr
  = Ok (fst (split_position_attr (t_graph tr) pk (is3d tr)), Some (snd (split_position_attr (t_graph tr) pk (is3d tr)))).
Proof.
  intros tr pk Hp Hok. unfold gen_split_position_attr. cbv zeta. rewrite Hp.
  destruct pk as [k|ks]; [|reflexivity].
  assert (E3 : (t_ndim tr =? 4) = is3d tr) by reflexivity. rewrite E3.
  assert (L : forall b, is3d tr = b ->
            nx_for_node_attrs (nx_copy (t_graph tr)) (fun v_attrs => body_res (bind (dict_pop k v_attrs) (fun '(v_pos, v_attrs) =>
               py_for (py_range (py_len (coords b))) v_attrs
                 (fun v_i v_attrs => bind (list_get v_pos v_i) (fun t1 => bind (list_get (coords b) v_i) (fun t2 =>
                    Cont (set t2 [t1] v_attrs))))
                 (fun v_attrs => Cont v_attrs))))
            = Ok (fst (split_position_attr (t_graph tr) (PSingle k) b))).
  { intros b Eb. unfold nx_for_node_attrs, nx_copy.
    rewrite (mapM_ok _ (fun n => (fst n, split_attrs k (coords b) (snd n)))); [reflexivity|].
    intros n Hn. destruct (Hok n Hn) as [pos [Hl Hlen]]. rewrite Eb in Hlen.
    now rewrite (split_body_ok b k (snd n) pos Hl Hlen). }
  destruct (is3d tr) eqn:E.
  - change (py_insert0 K_z [K_y; K_x]) with (coords true). rewrite (L true eq_refl). reflexivity.
  - change [K_y; K_x] with (coords false). rewrite (L false eq_refl). reflexivity.
Qed.

Theorem gen_split_position_attr_none : forall tr,
  fd_pos (t_features tr) = None -> gen_split_position_attr tr = Ok (t_graph tr, None).
Proof. intros tr Hp. unfold gen_split_position_attr. cbv zeta. now rewrite Hp. Qed.

(* ================================================================== (3) export_to_geff: subgraph selection and the chunk loop *)
(* slices = tuple(slice(start, min(start + chunk, dim)) for start, chunk, dim in zip(starts, chunk_size, shape)) *)
Definition slices_of (starts chunks shape : list Z) : list (Z * Z) :=
  map (fun '(v_start, v_chunk, v_dim) => (v_start, Z.min (v_start + v_chunk) v_dim)) (combine (combine starts chunks) shape).

Lemma in_box_inside : forall starts chunks shape idx,
  length starts = length chunks -> length chunks = length shape ->
  in_box (slices_of starts chunks shape) idx = SubsetExport.inside starts chunks shape idx.
Proof.
  unfold slices_of. induction starts as [|s sr IH]; intros [|c cr] [|d dr] idx H1 H2; try discriminate.
  - destruct idx; reflexivity.
  - destruct idx as [|i ir]; [reflexivity|]. cbn [combine map in_box SubsetExport.inside].
    rewrite IH by (cbn in H1, H2; lia). reflexivity.
Qed.

Lemma mask_where_eq keep (d : list Z) :
  map (fun bx : bool * Z => if fst bx then snd bx else 0) (combine (map (fun x => memz x keep) d) d)
  = map (SubsetExport.mask_label keep) d.
Proof. induction d as [|x d IH]; [reflexivity|]. cbn [map combine fst snd]. now rewrite IH. Qed.

Lemma list_eqb_refl l : list_eqb l l = true.
Proof. induction l as [|x l IH]; [reflexivity|]. cbn. now rewrite Z.eqb_refl, IH. Qed.

Lemma covered_snoc bl st chunks shape idx :
  SubsetExport.covered (bl ++ [st]) chunks shape idx
  = SubsetExport.covered bl chunks shape idx || SubsetExport.inside st chunks shape idx.
Proof. unfold SubsetExport.covered. rewrite existsb_app. cbn [existsb]. now rewrite orb_false_r. Qed.

(* one block of the loop on the flat arrays *)
Lemma scatter_mask_step (sl : list (Z * Z)) (st chunks shape keep : list Z) bl :
  (forall idx, in_box sl idx = SubsetExport.inside st chunks shape idx) ->
  forall seg k,
  scatter sl shape k (SubsetExport.mask_from bl chunks shape keep k seg)
          (map (SubsetExport.mask_label keep) (gather sl shape k seg))
  = SubsetExport.mask_from (bl ++ [st]) chunks shape keep k seg.
Proof.
  intros Hbox. induction seg as [|l r IH]; intros k; [reflexivity|].
  cbn [SubsetExport.mask_from scatter gather]. rewrite covered_snoc, <- Hbox.
  destruct (in_box sl (SubsetExport.unravel shape k)).
  - cbn [map]. rewrite IH. now rewrite orb_true_r.
  - rewrite IH. now rewrite orb_false_r.
Qed.

Lemma mask_from_nil chunks shape keep : forall seg k,
  SubsetExport.mask_from [] chunks shape keep k seg = repeat 0 (length seg).
Proof. induction seg as [|l r IH]; intros k; [reflexivity|]. cbn. now rewrite IH. Qed.

Lemma product_length : forall (ls : list (list Z)) st, In st (SubsetExport.product ls) -> length st = length ls.
Proof.
  induction ls as [|l ls IH]; intros st H; cbn in H.
  - destruct H as [<-|[]]. reflexivity.
  - apply in_flat_map in H. destruct H as [x [_ H]]. apply in_map_iff in H. destruct H as [st' [<- H]].
    cbn. now rewrite (IH st' H).
Qed.

Lemma chunk_ranges_length : forall shape chunks, length chunks = length shape ->
  length (SubsetExport.chunk_ranges shape chunks) = length shape.
Proof. induction shape as [|d sr IH]; intros [|c cr] H; try discriminate; [reflexivity|]. cbn. now rewrite IH by (cbn in H; lia). Qed.

Lemma chunk_ranges_mapM : forall shape chunks, length chunks = length shape -> Forall (fun c => 0 < c) chunks ->
  mapM (fun '(v_dim, v_chunk) => py_range_step 0 v_dim v_chunk) (combine shape chunks)
  = Ok (SubsetExport.chunk_ranges shape chunks).
Proof.
  induction shape as [|d sr IH]; intros [|c cr] Hl Hp; try discriminate; [reflexivity|].
  inversion Hp as [|? ? Hc Hp']; subst. cbn [combine mapM SubsetExport.chunk_ranges].
  unfold py_range_step at 1. destruct (Z.leb_spec c 0); [lia|].
  rewrite IH by (cbn in Hl; lia || assumption). unfold SubsetExport.chunk_starts. now rewrite Z.sub_0_r.
Qed.

Lemma concat_repeat_single {A} (x : A) n : concat (repeat [x] n) = repeat x n.
Proof. induction n as [|n IH]; [reflexivity|]. cbn. now rewrite IH. Qed.

(* chunk_size = (64, 64, 64); chunk_size = tuple(list(chunk_size) + [1] * (len(shape) - len(chunk_size)));
   chunk_size = chunk_size[: len(shape)] *)
Lemma chunk_size_eq (shape : list Z) :
  py_slice_to ([64; 64; 64] ++ py_list_repeat [1] (py_len shape - py_len [64; 64; 64])) (py_len shape)
  = SubsetExport.chunk_sizes (length shape).
Proof.
  unfold py_slice_to, py_list_repeat, py_len, SubsetExport.chunk_sizes. rewrite concat_repeat_single, Nat2Z.id.
  f_equal. f_equal. f_equal. cbn [length]. lia.
Qed.

Lemma slices_of_length starts chunks shape : length starts = length chunks -> length chunks = length shape ->
  length (slices_of starts chunks shape) = length shape.
Proof. intros H1 H2. unfold slices_of. rewrite map_length, !combine_length. lia. Qed.

Section ChunkLoop.
  Variables (seg : ndarray) (keep chunks : list Z) (z0 : zarr).
  Hypothesis Hz : a_shape (z_arr z0) = a_shape seg.
  Hypothesis Hc : length chunks = length (a_shape seg).
  Notation shape := (a_shape seg).

  (* the body of `for starts in itertools.product over chunk_ranges` as generated *)
  Definition chunk_body (v_starts : list Z) (v_z : zarr) : ctl zarr (unit * list event) :=
    bind (py_zip3_strict v_starts chunks shape) (fun t11 =>
    bind (np_getitem_slices seg (map (fun '(v_start, v_chunk, v_dim) => (v_start, Z.min (v_start + v_chunk) v_dim)) t11)) (fun v_block =>
    bind (np_where_scalar (np_isin v_block (np_asarray keep)) v_block 0) (fun v_filtered =>
    bind (zarr_setitem v_z (map (fun '(v_start, v_chunk, v_dim) => (v_start, Z.min (v_start + v_chunk) v_dim)) t11) v_filtered) (fun v_z0 =>
    Cont v_z0)))).

  Lemma chunk_body_step st D : length st = length shape ->
    chunk_body st (zarr_with_data z0 D)
    = Cont (zarr_with_data z0 (scatter (slices_of st chunks shape) shape 0 D
              (map (SubsetExport.mask_label keep) (gather (slices_of st chunks shape) shape 0 (a_data seg))))).
  Proof.
    intros Hst. unfold chunk_body, py_zip3_strict.
    rewrite Hst, Hc, !Nat.eqb_refl. cbn [andb bind]. fold (slices_of st chunks shape).
    assert (Hl : length (slices_of st chunks shape) = length shape) by (apply slices_of_length; lia).
    unfold np_getitem_slices. rewrite Hl, Nat.eqb_refl. cbn [bind].
    unfold np_where_scalar, np_isin, np_asarray. cbn [b_shape a_shape b_data a_data a_dtype]. rewrite list_eqb_refl. cbn [bind].
    unfold zarr_setitem. cbn [a_shape z_arr zarr_with_data a_data]. rewrite Hz, Hl, Nat.eqb_refl, list_eqb_refl. cbn [andb bind].
    rewrite mask_where_eq. reflexivity.
  Qed.

  Lemma chunk_loop {S'} (k : zarr -> ctl S' (unit * list event)) : forall todo done,
    (forall st, In st todo -> length st = length shape) ->
    py_for todo (zarr_with_data z0 (SubsetExport.mask_from done chunks shape keep 0 (a_data seg))) chunk_body k
    = k (zarr_with_data z0 (SubsetExport.mask_from (done ++ todo) chunks shape keep 0 (a_data seg))).
  Proof.
    induction todo as [|st todo IH]; intros done Hlen.
    - now rewrite app_nil_r.
    - cbn [py_for]. rewrite chunk_body_step by (apply Hlen; now left).
      rewrite (scatter_mask_step (slices_of st chunks shape) st chunks shape keep done)
        by (intros idx; apply in_box_inside; [rewrite (Hlen st (or_introl eq_refl))|]; lia).
      rewrite IH by (intros st' H; apply Hlen; now right). now rewrite <- app_assoc.
  Qed.
End ChunkLoop.

(* what export_to_geff hands to geff.write / zarr besides the graph *)
Definition geff_axis_types (tr : tracks) : list Z :=
  if t_ndim tr =? 3 then [S_time_axis; S_space; S_space] else [S_time_axis; S_space; S_space; S_space].
Definition geff_scale (tr : tracks) : list Z :=
  match t_scale tr with Some s => s | None => py_list_repeat [F_one] (t_ndim tr) end.
Definition geff_mode (overwrite : bool) : Z := if overwrite then S_w else S_w_minus.
(* the zarr array "segmentation" holding [data] *)
Definition geff_seg_zarr (path fmt : Z) (seg : ndarray) (data : list Z) : zarr :=
  {| z_path := path; z_format := fmt; z_chunks := SubsetExport.chunk_sizes (length (a_shape seg));
     z_arr := {| a_shape := a_shape seg; a_dtype := a_dtype seg; a_data := data |} |}.

Lemma chunk_sizes_facts n : length (SubsetExport.chunk_sizes n) = n /\ Forall (fun c => 0 < c) (SubsetExport.chunk_sizes n).
Proof. exact (SubsetExportProofs.chunk_sizes_ok n). Qed.

Section GeffTie.
  Variables remove_tilde path_resolve : Z -> Z.
  Variable path_join : Z -> Z -> Z.
  Notation gen_geff := (gen_export_to_geff remove_tilde path_resolve path_join).
  Notation dir_of d := (path_resolve (remove_tilde d)).

  (* subset export of tracks with a segmentation *)
  Theorem gen_export_to_geff_subset_seg_eq : forall tr dir ow sel fmt pk seg,
    fd_pos (t_features tr) = Some pk -> split_ok tr pk -> t_seg tr = Some seg ->
    length (a_data seg) = Z.to_nat (shape_size (a_shape seg)) ->
    incl sel (nx_nodes (t_graph tr)) ->
    let keep := keep_of tr sel in
    let sp := split_position_attr (t_graph tr) pk (is3d tr) in
    gen_geff tr dir ow (Some sel) fmt
    = Ok (tt, [EvZarrGroup (dir_of dir) fmt (geff_mode ow);
               EvGeff (path_join (dir_of dir) S_tracks) (nx_subgraph_copy (fst sp) keep) (GeffMeta true)
                      (fd_time (t_features tr) :: snd sp) (geff_axis_types tr) (geff_scale tr) ow fmt;
               EvZarr (geff_seg_zarr (path_join (dir_of dir) S_segmentation) fmt seg
                         (SubsetExport.export_seg (a_shape seg) keep (a_data seg)))]).
  Proof.
    intros tr dir ow sel fmt pk seg Hp Hsp Hseg Hlen Hsel keep sp.
    unfold gen_export_to_geff. cbv zeta.
    rewrite (SubsetTie.gen_filter_graph_with_ancestors_eq (nx_structure (t_graph tr)) sel Hsel). cbn [bind].
    rewrite (gen_split_position_attr_eq tr pk Hp Hsp). cbn [bind]. rewrite Hseg. rewrite chunk_size_eq.
    destruct (chunk_sizes_facts (length (a_shape seg))) as [Hcl Hcp].
    unfold py_zip_strict. rewrite Hcl, Nat.eqb_refl. cbn [bind].
    rewrite chunk_ranges_mapM by assumption. cbn [bind]. unfold itertools_product.
    fold (keep_of tr sel). fold keep.
    match goal with |- context [py_for ?l ?z ?body ?k] =>
      change body with (chunk_body seg (np_asarray keep) (SubsetExport.chunk_sizes (length (a_shape seg))));
      set (z0 := z); set (kk := k)
    end.
    change z0 with (zarr_with_data z0 (repeat 0 (Z.to_nat (shape_size (a_shape seg))))).
    rewrite <- Hlen, <- (mask_from_nil (SubsetExport.chunk_sizes (length (a_shape seg))) (a_shape seg) (np_asarray keep) (a_data seg) 0).
    rewrite (chunk_loop seg (np_asarray keep) _ z0 eq_refl Hcl kk).
    2:{ intros st Hst. rewrite (product_length _ _ Hst). now apply chunk_ranges_length. }
    reflexivity.
  Qed.

  (* subset export of tracks without a segmentation *)
  Theorem gen_export_to_geff_subset_noseg_eq : forall tr dir ow sel fmt pk,
    fd_pos (t_features tr) = Some pk -> split_ok tr pk -> t_seg tr = None ->
    incl sel (nx_nodes (t_graph tr)) ->
    let sp := split_position_attr (t_graph tr) pk (is3d tr) in
    gen_geff tr dir ow (Some sel) fmt
    = Ok (tt, [EvZarrGroup (dir_of dir) fmt (geff_mode ow);
               EvGeff (path_join (dir_of dir) S_tracks) (nx_subgraph_copy (fst sp) (keep_of tr sel)) (GeffMeta false)
                      (fd_time (t_features tr) :: snd sp) (geff_axis_types tr) (geff_scale tr) ow fmt]).
  Proof.
    intros tr dir ow sel fmt pk Hp Hsp Hseg Hsel sp.
    unfold gen_export_to_geff. cbv zeta.
    rewrite (SubsetTie.gen_filter_graph_with_ancestors_eq (nx_structure (t_graph tr)) sel Hsel). cbn [bind].
    rewrite (gen_split_position_attr_eq tr pk Hp Hsp). cbn [bind]. rewrite Hseg. reflexivity.
  Qed.

  (* full export (node_ids=None): the whole array is copied into the zarr array, the whole (split) graph written *)
  Theorem gen_export_to_geff_all_seg_eq : forall tr dir ow fmt pk seg,
    fd_pos (t_features tr) = Some pk -> split_ok tr pk -> t_seg tr = Some seg ->
    let sp := split_position_attr (t_graph tr) pk (is3d tr) in
    gen_geff tr dir ow None fmt
    = Ok (tt, [EvZarrGroup (dir_of dir) fmt (geff_mode ow);
               EvGeff (path_join (dir_of dir) S_tracks) (fst sp) (GeffMeta true)
                      (fd_time (t_features tr) :: snd sp) (geff_axis_types tr) (geff_scale tr) ow fmt;
               EvZarr (geff_seg_zarr (path_join (dir_of dir) S_segmentation) fmt seg (a_data seg))]).
  Proof.
    intros tr dir ow fmt pk seg Hp Hsp Hseg sp.
    unfold gen_export_to_geff. cbv zeta.
    rewrite (gen_split_position_attr_eq tr pk Hp Hsp). cbn [bind]. rewrite Hseg. rewrite chunk_size_eq.
    unfold zarr_setall, setup_zarr_array. cbn [z_arr a_shape]. rewrite list_eqb_refl. reflexivity.
  Qed.

  Theorem gen_export_to_geff_all_noseg_eq : forall tr dir ow fmt pk,
    fd_pos (t_features tr) = Some pk -> split_ok tr pk -> t_seg tr = None ->
    let sp := split_position_attr (t_graph tr) pk (is3d tr) in
    gen_geff tr dir ow None fmt
    = Ok (tt, [EvZarrGroup (dir_of dir) fmt (geff_mode ow);
               EvGeff (path_join (dir_of dir) S_tracks) (fst sp) (GeffMeta false)
                      (fd_time (t_features tr) :: snd sp) (geff_axis_types tr) (geff_scale tr) ow fmt]).
  Proof.
    intros tr dir ow fmt pk Hp Hsp Hseg sp.
    unfold gen_export_to_geff. cbv zeta.
    rewrite (gen_split_position_attr_eq tr pk Hp Hsp). cbn [bind]. rewrite Hseg. reflexivity.
  Qed.
End GeffTie.

(* the graph and the array written by the subset export are those of SubsetExport.export_geff (C15_geff_graph, C15_seg) *)
Lemma split_structure g pk b : nx_structure (fst (split_position_attr g pk b)) = nx_structure g.
Proof. destruct pk as [k|ks]; [|reflexivity]. unfold nx_structure, nx_nodes. cbn. now rewrite map_map. Qed.

Lemma subgraph_structure g keep :
  nx_structure (nx_subgraph_copy g keep)
  = (SubsetExport.geff_nodes (nx_structure g) keep, SubsetExport.geff_edges (nx_structure g) keep).
Proof.
  unfold nx_structure, nx_subgraph_copy, nx_nodes, SubsetExport.geff_nodes, SubsetExport.geff_edges. cbn. f_equal.
  induction (g_nodes g) as [|[n a] l IH]; [reflexivity|]. cbn [map filter fst].
  change (SubsetExport.memz n keep) with (memz n keep). destruct (memz n keep); cbn [map fst]; now rewrite IH.
Qed.

Theorem geff_subset_is_model : forall tr sel pk seg,
  let sp := split_position_attr (t_graph tr) pk (is3d tr) in
  let g' := nx_subgraph_copy (fst sp) (keep_of tr sel) in
  (nx_nodes g', g_edges g', SubsetExport.export_seg (a_shape seg) (keep_of tr sel) (a_data seg))
  = SubsetExport.export_geff (nx_structure (t_graph tr)) sel (a_shape seg) (a_data seg).
Proof.
  intros tr sel pk seg sp g'. unfold SubsetExport.export_geff. fold (keep_of tr sel).
  assert (H : nx_structure g' = (SubsetExport.geff_nodes (nx_structure (t_graph tr)) (keep_of tr sel),
                                 SubsetExport.geff_edges (nx_structure (t_graph tr)) (keep_of tr sel))).
  { subst g'. rewrite subgraph_structure. subst sp. now rewrite split_structure. }
  change (nx_nodes g', g_edges g') with (nx_structure g'). now rewrite H.
Qed.

(* ================================================================== (5) FeatureDict <-> JSON, internal format *)
(* FeatureDict.__init__ = RoundTrip.fd_init (None = KeyError) *)
Lemma init_loop (features : dict json) (fd : feature_dict) : forall ks,
  run (py_for ks tt (fun v_key (_ : unit) => if negb (haskey v_key features) then Exn KeyError else Cont tt)
         (fun _ => Ret fd))
  = if forallb (fun k => haskey k features) ks then Ok fd else Raise KeyError.
Proof.
  induction ks as [|k ks IH]; [reflexivity|]. cbn [py_for forallb].
  destruct (haskey k features); cbn [negb andb]; [exact IH|reflexivity].
Qed.

Theorem gen_FeatureDict_init_eq : forall features time_key pos trk lin,
  gen_FeatureDict_init features time_key pos trk lin
  = match fd_init features time_key pos trk lin with Some fd => Ok fd | None => Raise KeyError end.
Proof.
  intros features tk pos trk lin. unfold gen_FeatureDict_init, fd_init, fd_new. cbv zeta. cbn [fd_features].
  destruct (haskey tk features); cbn [negb andb]; [|reflexivity].
  destruct pos as [[k|ks]|]; [| |reflexivity].
  - destruct (haskey k features); reflexivity.
  - rewrite (init_loop features). destruct (forallb (fun k => haskey k features) ks); reflexivity.
Qed.

(* dump_json = RoundTrip.dump_json; it raises nothing *)
Theorem gen_dump_json_eq : forall fd, gen_dump_json fd = Ok (dump_json fd).
Proof.
  intros fd. unfold gen_dump_json, dump_json, dict_map_values, py_dict_copy, json_of_str, json_of_poskey, json_of_opt_str.
  cbn [run fst snd].
  assert (E : map (fun kv : Z * json => (fst kv, snd kv)) (fd_features fd) = fd_features fd).
  { rewrite <- (map_id (fd_features fd)) at 2. apply map_ext. now intros [k v]. }
  now rewrite E.
Qed.

(* from_json: whatever the translated code returns, the model returns; the converse holds whenever the optional
   keys have a representable shape (str or null) - the model reads a tracklet / lineage key of any other JSON shape
   as None, where Python would keep the malformed value (not representable in RoundTrip.feature_dict) *)
Definition opt_key_ok (j : json) (k : Z) : Prop :=
  match j with
  | JObj top => match lookup J_FeatureDict top with
                | Some (JObj data) => match lookup k data with None | Some JNull | Some (JAtom _) => True | _ => False end
                | _ => True
                end
  | _ => True
  end.

Theorem gen_from_json_sound : forall j fd, gen_from_json j = Ok fd -> from_json j = Some fd.
Proof.
  intros j fd. unfold gen_from_json, from_json, json_getitem, json_get, dict_get.
  destruct j as [| |l|top]; try discriminate. cbn [run bind].
  destruct (lookup J_FeatureDict top) as [[| |l|data]|]; try discriminate. cbn [bind].
  destruct (lookup J_features data) as [[| |l|feats]|]; try discriminate. cbn [bind json_as_obj].
  destruct (lookup J_time_key data) as [[|tk|l|o]|]; try discriminate. cbn [bind json_as_str].
  destruct (lookup J_position_key data) as [jp|]; [|discriminate]. cbn [bind].
  unfold getd.
  assert (D : forall (o : option json) r, json_as_opt_str (match o with Some v => v | None => JNull end) = Ok r -> dec_opt o = r).
  { intros [[| | |]|] r H; cbn in H; try discriminate; now injection H as <-. }
  destruct (json_as_poskey jp) as [pos|e] eqn:Ep; [|destruct jp; discriminate]. cbn [bind].
  destruct (json_as_opt_str (match lookup J_tracklet_key data with Some v => v | None => JNull end)) as [trk|e] eqn:Et; [|discriminate].
  destruct (json_as_opt_str (match lookup J_lineage_key data with Some v => v | None => JNull end)) as [lin|e] eqn:El; [|discriminate].
  cbn [bind]. rewrite gen_FeatureDict_init_eq. rewrite (D _ _ Et), (D _ _ El).
  destruct jp as [|k|l|o]; cbn in Ep; try discriminate.
  - injection Ep as <-. destruct (fd_init feats tk None trk lin); [now intros [= ->]|discriminate].
  - injection Ep as <-. destruct (fd_init feats tk (Some (PSingle k)) trk lin); [now intros [= ->]|discriminate].
  - destruct (atoms l) as [ks|]; [|discriminate]. injection Ep as <-.
    destruct (fd_init feats tk (Some (PMulti ks)) trk lin); [now intros [= ->]|discriminate].
Qed.

Theorem gen_from_json_complete : forall j fd,
  opt_key_ok j J_tracklet_key -> opt_key_ok j J_lineage_key ->
  from_json j = Some fd -> gen_from_json j = Ok fd.
Proof.
  intros j fd. unfold gen_from_json, from_json, json_getitem, json_get, dict_get, opt_key_ok.
  destruct j as [| |l|top]; try discriminate. cbn [run bind].
  destruct (lookup J_FeatureDict top) as [[| |l|data]|]; try discriminate. cbn [bind].
  destruct (lookup J_features data) as [[| |l|feats]|]; try discriminate. cbn [bind json_as_obj].
  destruct (lookup J_time_key data) as [[|tk|l|o]|]; try discriminate. cbn [bind json_as_str].
  destruct (lookup J_position_key data) as [jp|]; [|discriminate]. cbn [bind]. unfold getd.
  intros Ht Hl.
  assert (D : forall (o : option json), match o with None | Some JNull | Some (JAtom _) => True | _ => False end ->
              json_as_opt_str (match o with Some v => v | None => JNull end) = Ok (dec_opt o)).
  { intros [[| | |]|] H; cbn in *; tauto. }
  rewrite (D _ Ht), (D _ Hl).
  destruct jp as [|k|l|o]; cbn [json_as_poskey bind]; try discriminate.
  - rewrite gen_FeatureDict_init_eq. now intros ->.
  - rewrite gen_FeatureDict_init_eq. now intros ->.
  - destruct (atoms l) as [ks|]; [|discriminate]. cbn [bind]. rewrite gen_FeatureDict_init_eq. now intros ->.
Qed.

(* C14 (c): the translated from_json applied to the translated dump_json is the identity on valid FeatureDicts *)
Theorem gen_featuredict_roundtrip : forall fd, fd_valid fd = true ->
  exists j, gen_dump_json fd = Ok j /\ gen_from_json j = Ok fd.
Proof.
  intros fd Hv. exists (dump_json fd). split; [apply gen_dump_json_eq|].
  apply gen_from_json_complete.
  - unfold opt_key_ok, dump_json. cbn. destruct (fd_tracklet fd); exact I.
  - unfold opt_key_ok, dump_json. cbn. destruct (fd_lineage fd); exact I.
  - exact (featuredict_roundtrip fd Hv).
Qed.

(* internal format: what _save_seg / _save_attrs write *)
Theorem gen_save_seg_eq : forall path_join tr dir,
  gen_save_seg path_join tr dir
  = Ok (tt, match t_seg tr with Some seg => [EvNpy (path_join dir S_seg_npy) seg] | None => [] end).
Proof. intros pj tr dir. unfold gen_save_seg. cbv zeta. destruct (t_seg tr); reflexivity. Qed.

Theorem gen_save_attrs_eq : forall path_join tr dir,
  gen_save_attrs path_join tr dir
  = Ok (tt, [EvJson (path_join dir S_attrs_json)
               (JObj [(J_scale, json_of_opt_list (t_scale tr)); (J_ndim, json_of_int (t_ndim tr));
                      (J_features_attr, dump_json (t_features tr))])]).
Proof. intros pj tr dir. unfold gen_save_attrs. cbv zeta. rewrite gen_dump_json_eq. reflexivity. Qed.

(* the hypothesis of the split / GEFF ties follows from the per-node hypothesis of the C14 theorems *)
Lemma split_ok_of_csv_ok : forall tr pk trk,
  (forall n, In n (g_nodes (t_graph tr)) -> csv_node_ok (fd_time (t_features tr)) pk trk (is3d tr) n) -> split_ok tr pk.
Proof.
  intros tr [k|ks] trk H; [|exact I]. intros n Hn. destruct (H n Hn) as (_ & _ & Hl). cbn [get_position] in Hl.
  unfold getd in Hl. destruct (lookup k (snd n)) as [pos|].
  - exists pos. split; [reflexivity|]. rewrite Hl. apply le_n.
  - destruct (is3d tr); discriminate.
Qed.

Print Assumptions gen_export_to_csv_all_eq.
Print Assumptions gen_export_to_csv_subset_eq.
Print Assumptions gen_export_to_csv_subset_rows.
Print Assumptions gen_export_to_csv_subset_seg_eq.
Print Assumptions gen_export_to_csv_all_seg_eq.
Print Assumptions gen_export_to_csv_empty_selection.
Print Assumptions gen_split_position_attr_eq.
Print Assumptions gen_split_position_attr_none.
Print Assumptions gen_export_to_geff_subset_seg_eq.
Print Assumptions gen_export_to_geff_subset_noseg_eq.
Print Assumptions gen_export_to_geff_all_seg_eq.
Print Assumptions gen_export_to_geff_all_noseg_eq.
Print Assumptions geff_subset_is_model.
Print Assumptions gen_FeatureDict_init_eq.
Print Assumptions gen_dump_json_eq.
Print Assumptions gen_from_json_sound.
Print Assumptions gen_from_json_complete.
Print Assumptions gen_featuredict_roundtrip.
Print Assumptions gen_save_seg_eq.
Print Assumptions gen_save_attrs_eq.
Print Assumptions split_ok_of_csv_ok.
