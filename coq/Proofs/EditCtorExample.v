(* Non-vacuity of Proofs/EditCtor.v. Every hypothesis is discharged by computation.

   A  without a segmentation: five nodes, 1 -> 2, 2 divides into 3 and 4, 5 isolated. Every node carries valid,
      non-contiguous track ids (7, 7, 3, 12, 9); the first node carries no lineage id, node 4 carries a stale
      one (99). The track ids are taken over (lookup grouped by the supplied ids, maximum 12), the lineage
      ids are computed (the stale 99 is overwritten, the scanned lookup is replaced).
   B  with a segmentation (the solution of Proofs/EditInitExample.v): position and track ids supplied, area
      and lineage ids computed, then the IoU; and a session over the whole interface from that state.
   C  supplied track ids that split an unbranched segment: supplied_checkb refuses, and the constructed state
      indeed violates W_trk - the hypothesis supplied_ok is needed. *)
From Coq Require Import ZArith List Bool Lia.
From FT Require Import Base.Dict Model.Edit Model.EditExec Model.Toggle Model.EditCtor Proofs.EditInv Proofs.EditInit Proofs.EditCtor.
From FT Require Proofs.EditSessions Proofs.EditSessionsFull Proofs.EditSessionsAll Proofs.EditInverse.
Import ListNotations.
Open Scope Z_scope.

(* ================================================================== *)
(* A. supplied track ids, computed lineage ids, no segmentation         *)
(* ================================================================== *)
Definition nda : dict attrs :=
  [(1, [(KTime, VZ 0); (KPos, VTok 101); (KTrack, VZ 7)]); (2, [(KTime, VZ 1); (KPos, VTok 102); (KTrack, VZ 7)]);
   (3, [(KTime, VZ 2); (KPos, VTok 103); (KTrack, VZ 3)]); (4, [(KTime, VZ 2); (KPos, VTok 104); (KTrack, VZ 12); (KLin, VZ 99)]);
   (5, [(KTime, VZ 0); (KPos, VTok 105); (KTrack, VZ 9)])].
Definition esa : list (Z * Z * attrs) := [(1, 2, []); (2, 3, []); (2, 4, [])].
Definition exa_raw : state := raw_state nda esa None [KPos] 6.
Definition exa_ctrk : list (list Z) := [[1; 2]; [3]; [4]; [5]].
Definition exa_clin : list (list Z) := [[1; 2; 3; 4]; [5]].

Lemma exa_raw_ok : raw_ok exa_raw [KPos] exa_ctrk exa_clin.
Proof. apply raw_state_ok. vm_compute. reflexivity. Qed.

Lemma exa_supplied_ok : supplied_ok exa_raw.
Proof. apply (supplied_checkb_sound exa_raw [KPos] exa_ctrk exa_clin exa_raw_ok). vm_compute. reflexivity. Qed.

(* the track ids are detected, the lineage ids are not *)
Example exa_detected : first_has exa_raw KTrack = true /\ first_has exa_raw KLin = false.
Proof. vm_compute. split; reflexivity. Qed.

(* the scan on its own: the lookups before the loop of _setup_core_computed_features *)
Example exa_scan :
  scan_ids exa_raw KTrack = (12, [(7, [1; 2]); (3, [3]); (12, [4]); (9, [5])]) /\ scan_ids exa_raw KLin = (99, [(99, [4])]).
Proof. vm_compute. split; reflexivity. Qed.

Notation exa_st0 := (construct_any exa_raw exa_ctrk exa_clin []).

Example exa_constructed :
  WF exa_st0 /\ EditSessions.reg_ok exa_st0 /\ EditBook.rp_disjoint exa_st0 /\ EditSessionsFull.rp_decl exa_st0 /\
  undo_stack exa_st0 = [] /\ redo_stack exa_st0 = [].
Proof. apply (construct_any_WF exa_raw [KPos] exa_ctrk exa_clin [] exa_raw_ok exa_supplied_ok). intros k []. Qed.

(* what the construction returns: the track lookup groups by the supplied ids, the lineage ids are the computed ones *)
Example exa_content :
  nodes (g exa_st0) =
    [(1, [(KTime, VZ 0); (KPos, VTok 101); (KTrack, VZ 7); (KLin, VZ 1)]);
     (2, [(KTime, VZ 1); (KPos, VTok 102); (KTrack, VZ 7); (KLin, VZ 1)]);
     (3, [(KTime, VZ 2); (KPos, VTok 103); (KTrack, VZ 3); (KLin, VZ 1)]);
     (4, [(KTime, VZ 2); (KPos, VTok 104); (KTrack, VZ 12); (KLin, VZ 1)]);
     (5, [(KTime, VZ 0); (KPos, VTok 105); (KTrack, VZ 9); (KLin, VZ 2)])] /\
  trk_book (bk exa_st0) = [(7, [1; 2]); (3, [3]); (12, [4]); (9, [5])] /\ max_trk (bk exa_st0) = 12 /\
  lin_book (bk exa_st0) = [(1, [1; 2; 3; 4]); (2, [5])] /\ max_lin (bk exa_st0) = 2 /\
  reg_node (ft exa_st0) = [KTime; KPos; KTrack; KLin] /\ (trk_act (ft exa_st0), lin_act (ft exa_st0)) = (true, true).
Proof. vm_compute. repeat split. Qed.

(* the same, from the general statement *)
Example exa_books : trk_book (bk exa_st0) = snd (scan_ids exa_raw KTrack) /\ max_trk (bk exa_st0) = fst (scan_ids exa_raw KTrack).
Proof.
  destruct (construct_any_supplied_books exa_raw [KPos] exa_ctrk exa_clin exa_raw_ok exa_supplied_ok) as (_ & H & _).
  exact (proj2 (H (proj1 exa_detected))).
Qed.

(* a session from that state: the next new track id is above the supplied maximum *)
Definition exa_ops : list op := [ODelEdge 1 2; OUndo; ORedo; ODelEdge 2 3; OUndo; OUpdAttrs 1 [(100, VTok 5)]].

Lemma exa_pre : EditSessionsAll.pre_along_all exa_st0 exa_ops.
Proof. apply EditSessionsAll.pre_alongb2_all. vm_compute. reflexivity. Qed.

Example exa_session_WF : forall pre post, exa_ops = pre ++ post -> WF (run exa_st0 pre).
Proof.
  apply (construct_any_session_WF exa_raw [KPos] exa_ctrk exa_clin [] exa_ops exa_raw_ok exa_supplied_ok); [intros k []|exact exa_pre].
Qed.

Example exa_session_ids :
  map (fun n => zattr (run exa_st0 [ODelEdge 1 2]) n KTrack) [1; 2; 3; 4; 5] = [Some 7; Some 13; Some 3; Some 12; Some 9].
Proof. vm_compute. reflexivity. Qed.

(* ================================================================== *)
(* B. with a segmentation: position and track ids supplied              *)
(* ================================================================== *)
Definition ndb : dict attrs :=
  [(1, [(KTime, VZ 0); (KPos, VRp [0; 1]); (KTrack, VZ 7)]); (2, [(KTime, VZ 1); (KPos, VRp [0; 1]); (KTrack, VZ 3)]);
   (3, [(KTime, VZ 1); (KPos, VRp [2]); (KTrack, VZ 12)]); (4, [(KTime, VZ 2); (KPos, VRp [1; 2]); (KTrack, VZ 3)]);
   (5, [(KTime, VZ 2); (KPos, VRp [0]); (KTrack, VZ 12)])].
Definition esb : list (Z * Z * attrs) := [(1, 2, []); (1, 3, []); (2, 4, []); (3, 5, [])].
Definition sgb : list (list Z) := [[1; 1; 0; 0]; [2; 2; 3; 0]; [5; 4; 4; 0]].
Definition exb_raw : state := raw_state ndb esb (Some sgb) [] 6.
Definition exb_ctrk : list (list Z) := [[1]; [2; 4]; [3; 5]].
Definition exb_clin : list (list Z) := [[1; 2; 3; 4; 5]].

Lemma exb_raw_ok : raw_ok exb_raw [] exb_ctrk exb_clin.
Proof. apply raw_state_ok. vm_compute. reflexivity. Qed.

Lemma exb_supplied_ok : supplied_ok exb_raw.
Proof. apply (supplied_checkb_sound exb_raw [] exb_ctrk exb_clin exb_raw_ok). vm_compute. reflexivity. Qed.

Example exb_detected :
  map (first_has exb_raw) [KPos; KArea; KTrack; KLin] = [true; false; true; false].
Proof. vm_compute. reflexivity. Qed.

Notation exb_st0 := (construct_any exb_raw exb_ctrk exb_clin [KIou]).

Lemma exb_extra : forall k, In k [KIou] -> In k (available exb_raw).
Proof. intros k [<-|[]]. vm_compute. auto 10. Qed.

Example exb_constructed :
  WF exb_st0 /\ EditSessions.reg_ok exb_st0 /\ EditBook.rp_disjoint exb_st0 /\ EditSessionsFull.rp_decl exb_st0 /\
  undo_stack exb_st0 = [] /\ redo_stack exb_st0 = [].
Proof. exact (construct_any_WF exb_raw [] exb_ctrk exb_clin [KIou] exb_raw_ok exb_supplied_ok exb_extra). Qed.

Example exb_content :
  nodes (g exb_st0) =
    [(1, [(KTime, VZ 0); (KPos, VRp [0; 1]); (KTrack, VZ 7); (KArea, VRp [0; 1]); (KLin, VZ 1)]);
     (2, [(KTime, VZ 1); (KPos, VRp [0; 1]); (KTrack, VZ 3); (KArea, VRp [0; 1]); (KLin, VZ 1)]);
     (3, [(KTime, VZ 1); (KPos, VRp [2]); (KTrack, VZ 12); (KArea, VRp [2]); (KLin, VZ 1)]);
     (4, [(KTime, VZ 2); (KPos, VRp [1; 2]); (KTrack, VZ 3); (KArea, VRp [1; 2]); (KLin, VZ 1)]);
     (5, [(KTime, VZ 2); (KPos, VRp [0]); (KTrack, VZ 12); (KArea, VRp [0]); (KLin, VZ 1)])] /\
  succs (g exb_st0) = [(1, [(2, [(KIou, VIou 2 2)]); (3, [(KIou, VIou 0 1)])]); (2, [(4, [(KIou, VIou 1 3)])]); (3, [(5, [(KIou, VIou 0 1)])]); (4, []); (5, [])] /\
  trk_book (bk exb_st0) = [(7, [1]); (3, [2; 4]); (12, [3; 5])] /\ lin_book (bk exb_st0) = [(1, [1; 2; 3; 4; 5])] /\
  (max_trk (bk exb_st0), max_lin (bk exb_st0)) = (12, 1) /\
  reg_node (ft exb_st0) = [KTime; KPos; KArea; KTrack; KLin] /\ reg_edge (ft exb_st0) = [KIou] /\ rp_act (ft exb_st0) = [KPos; KArea] /\
  (iou_act (ft exb_st0), trk_act (ft exb_st0), lin_act (ft exb_st0)) = (true, true, true).
Proof. vm_compute. repeat split. Qed.

(* the session of Proofs/EditInitExample.v from this state *)
Definition exb_ops : list op :=
  [OPaint 6 2 [3] 9 false; ODelEdge 1 3; OUndo; OUndo; ORedo; OPaint 7 2 [1; 2] 1 false; ODelNode 5; OUndo; ORedo;
   OUpdAttrs 1 [(100, VTok 5)]].

Lemma exb_pre : EditSessionsAll.pre_along_all exb_st0 exb_ops.
Proof. apply EditSessionsAll.pre_alongb2_all. vm_compute. reflexivity. Qed.

Example exb_session_WF : forall pre post, exb_ops = pre ++ post -> WF (run exb_st0 pre).
Proof. exact (construct_any_session_WF exb_raw [] exb_ctrk exb_clin [KIou] exb_ops exb_raw_ok exb_supplied_ok exb_extra exb_pre). Qed.

Example exb_session_timeline (dS : state) :
  let t := EditSessionsFull.tl_run_full exb_st0 {| EditSessions.A.tl := [exb_st0]; EditSessions.A.c := 0 |} exb_ops in
  (EditSessions.A.c _ t < length (EditSessions.A.tl _ t))%nat /\
  EditInverse.obs_eq (run exb_st0 exb_ops) (nth (EditSessions.A.c _ t) (EditSessions.A.tl _ t) dS) /\
  Forall WF (EditSessions.A.tl _ t) /\ (exists ext, EditSessions.A.tl _ t = exb_st0 :: ext).
Proof. exact (construct_any_session_timeline exb_raw [] exb_ctrk exb_clin [KIou] exb_ops exb_raw_ok exb_supplied_ok exb_extra exb_pre dS). Qed.

(* ================================================================== *)
(* C. the hypothesis on the supplied ids is needed                      *)
(* ================================================================== *)
(* as A, but the unbranched segment 1 -> 2 carries two track ids *)
Definition exc_raw : state :=
  raw_state [(1, [(KTime, VZ 0); (KPos, VTok 101); (KTrack, VZ 7)]); (2, [(KTime, VZ 1); (KPos, VTok 102); (KTrack, VZ 8)]);
             (3, [(KTime, VZ 2); (KPos, VTok 103); (KTrack, VZ 3)]); (4, [(KTime, VZ 2); (KPos, VTok 104); (KTrack, VZ 12)]);
             (5, [(KTime, VZ 0); (KPos, VTok 105); (KTrack, VZ 9)])] esa None [KPos] 6.

Example exc_bad_ids :
  raw_checkb exc_raw [KPos] exa_ctrk exa_clin = true /\ supplied_checkb exc_raw exa_ctrk exa_clin = false /\
  ~ W_trk (construct_any exc_raw exa_ctrk exa_clin []).
Proof.
  split; [vm_compute; reflexivity|]. split; [vm_compute; reflexivity|]. intros [T1 _].
  assert (E : edge (construct_any exc_raw exa_ctrk exa_clin []) 1 2) by (vm_compute; reflexivity).
  assert (N : ~ divides (construct_any exc_raw exa_ctrk exa_clin []) 1) by (vm_compute; lia).
  specialize (T1 1 2 E N). vm_compute in T1. discriminate T1.
Qed.

Print Assumptions exa_constructed.
Print Assumptions exa_session_WF.
Print Assumptions exb_constructed.
Print Assumptions exb_session_WF.
Print Assumptions exb_session_timeline.
Print Assumptions exc_bad_ids.
