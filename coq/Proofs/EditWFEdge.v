(* The complete invariant WF (Proofs/EditInv.v) is preserved by the edge-level user actions
   UserDeleteEdge, UserAddEdge, UserSwapPredecessors (cores and top-level calls), by refusals,
   by the queries that may touch the state, and hence by every run of the executable step
   function over that fragment of the API (no bound on the length of the run).

   The conjuncts cfg_ok / W_dict / W_forest / W_lin / W_book come from the bundle LWF of
   Proofs/EditLin.v, W_trk from Proofs/EditTrk.v and Proofs/EditSwap.v; what is new here is
   W_seg and W_fresh (section 1: a transitive "edge step" relation that every sub-action of
   the composites satisfies, also when it raises) and the assembly (sections 2-5). *)
From Coq Require Import ZArith List Bool Lia Permutation.
From FT Require Import Base.Dict Model.Edit Model.EditExec Proofs.DictLemmas Proofs.EditInv Proofs.EditGraph
  Proofs.EditWalk Proofs.EditBasic Proofs.EditUserEdge Proofs.EditUserEdgeCor.
From FT Require Proofs.BookLemmas Proofs.EditBook Proofs.EditTrk Proofs.EditLin Proofs.EditSwap Proofs.EditFrame Proofs.EditInverse
  Proofs.EditReadOnly Proofs.EditSegExample.
From FT Require Import Proofs.EditSeg Proofs.EditFresh.
Import ListNotations.
Open Scope Z_scope.

(* ================================================================== *)
(* 1. what the edge-level composites leave alone                        *)
(* ================================================================== *)
(* array and features untouched; node list untouched; of the node attributes only the two ids
   may change; edges keep / receive the IoU of their endpoint masks *)
Definition estep (s s' : state) : Prop :=
  seg s' = seg s /\ ft s' = ft s /\ nodes_keep (fun k => k = KTrack \/ k = KLin) s s' /\
  (iou_fresh s -> iou_fresh s').

Lemma estep_refl s : estep s s.
Proof. split; [reflexivity|]. split; [reflexivity|]. split; [apply nodes_keep_refl|auto]. Qed.

Lemma estep_trans a b c : estep a b -> estep b c -> estep a c.
Proof.
  intros (A1 & A2 & A3 & A4) (B1 & B2 & B3 & B4).
  split; [congruence|]. split; [congruence|]. split; [eapply nodes_keep_trans; eauto|auto].
Qed.

(* states with the same graph, array and features *)
Lemma iou_fresh_core s s' : g s' = g s -> seg s' = seg s -> ft s' = ft s -> iou_fresh s -> iou_fresh s'.
Proof.
  intros Eg Es Ef. unfold iou_fresh, edge, has_edge, edge_attrs, adj, iou_of, time_of, zattr, attr, node_attrs.
  rewrite Eg, Es, Ef. auto.
Qed.

Lemma estep_core s s' : g s' = g s -> seg s' = seg s -> ft s' = ft s -> estep s s'.
Proof.
  intros Eg Es Ef. split; [exact Es|]. split; [exact Ef|].
  split; [apply nodes_keep_eq; now rewrite Eg|now apply iou_fresh_core].
Qed.

(* a transformer of node attributes other than the time keeps the stored IoUs right *)
Lemma iou_fresh_keep (K : Z -> Prop) st st' : graph_only st st' -> nodes_keep K st st' -> ~ K KTime ->
  iou_fresh st -> iou_fresh st'.
Proof.
  intros (G1 & G2 & G3) Hk Hkt Hio.
  assert (HT : forall m, time_of st' m = time_of st m) by (intros m; now apply (nodes_keep_time _ _ _ m Hkt Hk)).
  unfold iou_fresh in *. rewrite G1, G2. destruct (seg st) as [sg|]; [|exact I]. intros Hact u v He.
  unfold edge in He. rewrite (has_edge_succs st' st u v G3) in He. rewrite (edge_attrs_succs st' st u v G3).
  rewrite (Hio Hact u v He). f_equal. symmetry. apply iou_of_ext; auto.
Qed.

Lemma do_del_edge_err st u v e s : do_del_edge st u v = Err e s -> s = st.
Proof. unfold do_del_edge. destruct (negb (has_edge st u v)); [intros H; now injection H as _ <-|discriminate]. Qed.

Lemma do_add_edge_err st u v a e s : do_add_edge st u v a = Err e s -> s = st.
Proof.
  unfold do_add_edge. destruct (negb (has_node st u)); [intros H; now injection H as _ <-|].
  destruct (negb (has_node st v)); [intros H; now injection H as _ <-|discriminate].
Qed.

Lemma estep_del_edge st u v : estep st (rstate (do_del_edge st u v)).
Proof.
  destruct (do_del_edge st u v) as [b s|e s] eqn:E; cbn [rstate].
  - destruct (del_edge_effect st u v) as (E1 & E2 & E3). rewrite E in E1, E2, E3. cbn [rstate] in *.
    split; [exact E1|]. split; [exact E2|]. split; [now apply nodes_keep_eq|].
    exact (proj2 (fresh_del_edge _ _ _ _ _ E)).
  - apply do_del_edge_err in E. subst s. apply estep_refl.
Qed.

Lemma estep_add_edge st u v a : estep st (rstate (do_add_edge st u v a)).
Proof.
  destruct (do_add_edge st u v a) as [b s|e s] eqn:E; cbn [rstate].
  - destruct (add_edge_effect st u v a) as (E1 & E2 & E3). rewrite E in E1, E2, E3. cbn [rstate] in *.
    split; [exact E1|]. split; [exact E2|]. split; [now apply nodes_keep_eq|].
    exact (proj2 (fresh_add_edge _ _ _ _ _ _ E)).
  - apply do_add_edge_err in E. subst s. apply estep_refl.
Qed.

Lemma estep_upd_track st start newT newL : estep st (rstate (do_upd_track st start newT newL)).
Proof.
  destruct (upd_track_effect st start newT newL) as (G & N).
  split; [apply G|]. split; [apply G|]. split; [exact N|].
  apply (iou_fresh_keep _ _ _ G N KTime_not_trk).
Qed.

Lemma estep_finish_top s a p : estep s (finish_top s a p).
Proof. destruct (EditFrame.finish_top_spec s a p) as (_ & _ & _ & Eg & Es & Ef & _). now apply estep_core. Qed.

Lemma estep_top_wrap top p (r : res action) st : estep st (rstate r) -> estep st (rstate (top_wrap top p r)).
Proof.
  destruct r as [a s|e s]; cbn [top_wrap rstate]; [|auto]. destruct top; [|auto].
  intros H. eapply estep_trans; [exact H|apply estep_finish_top].
Qed.

Ltac es_step :=
  first [ apply estep_refl | apply estep_del_edge | apply estep_add_edge | apply estep_upd_track ].
Ltac es_bind := apply bind_rel; [exact estep_trans| |].

Lemma estep_ude_core st u v : estep st (rstate (user_delete_edge_core st u v)).
Proof.
  unfold user_delete_edge_core. destruct (negb (has_edge st u v)); [es_step|].
  es_bind; [es_step|]. intros b1 s _.
  es_bind; [|intros; es_step].
  destruct (out_degree s u =? 0).
  - es_bind; [es_step|intros; es_step].
  - destruct (out_degree s u =? 1); [|es_step].
    destruct (successors s u) as [|sib r]; [es_step|]. destruct (zattr s u KTrack) as [t|]; [|es_step].
    es_bind; [es_step|]. intros b2 s2 _.
    destruct (zattr s2 v KTrack); [|es_step]. es_bind; [es_step|intros; es_step].
Qed.

Lemma estep_ude st u v top : estep st (rstate (user_delete_edge st u v top)).
Proof. apply estep_top_wrap, estep_ude_core. Qed.

Lemma estep_uae_core st u v force : estep st (rstate (user_add_edge_core st u v force)).
Proof.
  unfold user_add_edge_core.
  destruct (negb (has_node st u)); [es_step|]. destruct (negb (has_node st v)); [es_step|].
  destruct (time_of st u >=? time_of st v); [es_step|].
  destruct (out_degree st u - (if has_edge st u v then 1 else 0) >? 1); [es_step|].
  es_bind.
  - destruct (in_degree st v >? 0); [|es_step]. destruct (negb force); [es_step|].
    destruct (predecessors st v) as [|p r]; [es_step|].
    es_bind; [apply estep_ude|intros; es_step].
  - intros pre s _. es_bind.
    + destruct (out_degree s u =? 0).
      * destruct (zattr s u KTrack); [|es_step]. es_bind; [es_step|intros; es_step].
      * destruct (out_degree s u =? 1); [|es_step].
        destruct (successors s u) as [|c r]; [es_step|].
        es_bind; [es_step|]. intros b s2 _.
        destruct (zattr s2 v KTrack); [|es_step]. es_bind; [es_step|intros; es_step].
    + intros acts s2 _. es_bind; [es_step|intros; es_step].
Qed.

Lemma estep_uae st u v force top : estep st (rstate (user_add_edge st u v force top)).
Proof. apply estep_top_wrap, estep_uae_core. Qed.

Lemma estep_swap_core st n1 n2 : estep st (rstate (user_swap_core st n1 n2)).
Proof.
  unfold user_swap_core. destruct (negb (has_node st n1) || negb (has_node st n2)); [es_step|].
  assert (Body : forall p1 p2 : option Z, estep st (rstate (
    do a1, s <- (match p1 with Some p => do a, s <- user_delete_edge st p n1 false; Ok [a] s | None => Ok [] st end);
    do a2, s <- (match p2 with Some p => do a, s <- user_delete_edge s p n2 false; Ok (a1 ++ [a]) s | None => Ok a1 s end);
    do a3, s <- (match p1 with Some p => do a, s <- user_add_edge s p n2 false false; Ok (a2 ++ [a]) s | None => Ok a2 s end);
    do a4, s <- (match p2 with Some p => do a, s <- user_add_edge s p n1 false false; Ok (a3 ++ [a]) s | None => Ok a3 s end);
    Ok (AGroup a4) s))).
  { intros p1 p2.
    es_bind; [destruct p1; [es_bind; [apply estep_ude|intros; es_step]|es_step]|]. intros a1 s1 _.
    es_bind; [destruct p2; [es_bind; [apply estep_ude|intros; es_step]|es_step]|]. intros a2 s2 _.
    es_bind; [destruct p1; [es_bind; [apply estep_uae|intros; es_step]|es_step]|]. intros a3 s3 _.
    es_bind; [destruct p2; [es_bind; [apply estep_uae|intros; es_step]|es_step]|]. intros a4 s4 _.
    es_step. }
  destruct (hd_error (predecessors st n1)) as [p1|]; destruct (hd_error (predecessors st n2)) as [p2|]; cbv zeta.
  - destruct (p1 =? p2); [es_step|]. destruct (time_of st p1 >=? time_of st n2); [es_step|].
    destruct (time_of st p2 >=? time_of st n1); [es_step|]. apply (Body (Some p1) (Some p2)).
  - destruct (time_of st p1 >=? time_of st n2); [es_step|]. apply (Body (Some p1) None).
  - destruct (time_of st p2 >=? time_of st n1); [es_step|]. apply (Body None (Some p2)).
  - es_step.
Qed.

Lemma estep_swap st n1 n2 : estep st (rstate (user_swap st n1 n2)).
Proof. apply estep_top_wrap, estep_swap_core. Qed.

Lemma estep_ok {A} (r : res A) st a s : estep st (rstate r) -> r = Ok a s -> estep st s.
Proof. intros H ->. exact H. Qed.

(* ---- the two conjuncts that only need an edge step ---- *)
Lemma estep_W_seg s s' : estep s s' -> W_seg s -> W_seg s'.
Proof. intros (Es & _ & N & _). apply (W_seg_keep _ s s' Es N KTime_not_trk). Qed.

(* the managed node features are never the track / lineage id of an existing node: W_dict stores an
   integer there, W_fresh a regionprops value *)
Lemma rp_key_not_id st sg n k : W_dict st -> rp_fresh st -> seg st = Some sg -> is_node st n ->
  In k (rp_act (ft st)) -> k <> KTrack /\ k <> KLin.
Proof.
  intros Hd Hrp Hs Hn Hk. unfold rp_fresh in Hrp. rewrite Hs in Hrp. specialize (Hrp n k Hn Hk).
  split; intros ->.
  - destruct (wd_track _ Hd n Hn) as [T HT]. congruence.
  - destruct (wd_lin _ Hd n Hn) as [L HL]. congruence.
Qed.

Lemma estep_W_fresh s s' : estep s s' -> W_dict s -> W_fresh s -> W_fresh s'.
Proof.
  intros (Es & Ef & N & Hio) Hd HW. apply W_fresh_split in HW. destruct HW as [Hrp Hi].
  apply W_fresh_split. split; [|now apply Hio].
  unfold rp_fresh. rewrite Es, Ef. destruct (seg s) as [sg|] eqn:Hs; [|exact I].
  intros n k Hn Hk. apply (nodes_keep_is_node _ _ _ n N) in Hn.
  destruct (rp_key_not_id s sg n k Hd Hrp Hs Hn Hk) as [K1 K2].
  rewrite (proj2 N n k) by (intros [?|?]; contradiction).
  rewrite (nodes_keep_time _ _ _ n KTime_not_trk N).
  unfold rp_fresh in Hrp. rewrite Hs in Hrp. now apply Hrp.
Qed.

(* ================================================================== *)
(* 2. the cores keep WF                                                 *)
(* ================================================================== *)
Lemma WF_LWF st : WF st -> EditLin.LWF st.
Proof. intros [C D F T L B S R]. constructor; assumption. Qed.

Lemma WF_intro st : EditLin.LWF st -> W_trk st -> W_seg st -> W_fresh st -> WF st.
Proof. intros [C D F L B] T S R. constructor; assumption. Qed.

Lemma WF_trk_bounded st : WF st -> EditTrk.trk_bounded st.
Proof. intros W. apply EditTrk.W_book_trk_bounded, (w_book _ W). Qed.

Theorem ude_core_WF st u v a st' : WF st -> user_delete_edge_core st u v = Ok a st' -> WF st'.
Proof.
  intros W H. pose proof (WF_LWF st W) as LW. pose proof (WF_trk_bounded st W) as TB.
  destruct W as [C D F T L B S R].
  pose proof (estep_ok _ _ _ _ (estep_ude_core st u v) H) as E.
  apply WF_intro.
  - apply (EditLin.ude_core_LWF st u v a st' LW H).
  - assert (He : edge st u v).
    { unfold user_delete_edge_core in H. unfold edge. destruct (has_edge st u v); [reflexivity|discriminate]. }
    destruct (EditTrk.ude_trk st u v D F T TB (proj1 C) He) as (a' & s' & H' & Wt & _).
    rewrite H in H'. injection H' as _ <-. exact Wt.
  - apply (estep_W_seg st st' E S).
  - apply (estep_W_fresh st st' E D R).
Qed.

Theorem uae_core_WF st u v force a st' : WF st -> user_add_edge_core st u v force = Ok a st' -> WF st'.
Proof.
  intros W H. pose proof (WF_LWF st W) as LW. pose proof (WF_trk_bounded st W) as TB.
  destruct W as [C D F T L B S R].
  pose proof (estep_ok _ _ _ _ (estep_uae_core st u v force) H) as E.
  apply WF_intro.
  - apply (EditLin.uae_core_LWF st u v force a st' LW H).
  - destruct (EditTrk.uae_trk st u v force a st' D F T TB (proj1 C) H) as (_ & _ & Wt & _). exact Wt.
  - apply (estep_W_seg st st' E S).
  - apply (estep_W_fresh st st' E D R).
Qed.

Theorem swap_core_WF st n1 n2 a st' : WF st -> user_swap_core st n1 n2 = Ok a st' -> WF st'.
Proof.
  intros W H. pose proof (WF_LWF st W) as LW. pose proof (WF_trk_bounded st W) as TB.
  destruct W as [C D F T L B S R].
  pose proof (estep_ok _ _ _ _ (estep_swap_core st n1 n2) H) as E.
  apply WF_intro.
  - destruct (EditLin.swap_core_body st n1 n2 a st' H) as (p1 & p2 & Hb).
    exact (proj1 (EditLin.swap_body_dstep st n1 n2 p1 p2 a st' LW Hb)).
  - destruct (EditSwap.swap_core_trk st n1 n2 a st' D F T TB (proj1 C) H) as (_ & _ & Wt & _). exact Wt.
  - apply (estep_W_seg st st' E S).
  - apply (estep_W_fresh st st' E D R).
Qed.

(* ================================================================== *)
(* 3. WF looks at graph, array, features and lookups only; top level    *)
(* ================================================================== *)
Lemma WF_same_core s s' : g s' = g s -> seg s' = seg s -> ft s' = ft s -> W_book s' -> WF s -> WF s'.
Proof.
  intros Eg Es Ef B' [C D F T L B S R].
  assert (CE : EditInverse.core_eq s s') by (split; [exact Eg|split; [exact Es|exact Ef]]).
  constructor.
  - apply (EditInverse.core_cfg_ok s s' CE C).
  - apply (EditInverse.core_W_dict s s' CE D).
  - apply (EditInverse.core_W_forest s s' CE F).
  - apply (EditTrk.W_trk_same_g s s' Eg T).
  - apply (EditInverse.core_W_lin s s' CE L).
  - exact B'.
  - apply (EditInverse.core_W_seg s s' CE S).
  - apply (EditInverse.core_W_fresh s s' CE R).
Qed.

Lemma WF_same s s' : g s' = g s -> seg s' = seg s -> ft s' = ft s -> bk s' = bk s -> WF s -> WF s'.
Proof.
  intros Eg Es Ef Eb W. apply (WF_same_core s s' Eg Es Ef); [|exact W].
  apply (EditBook.W_book_same_g s s' Eg Eb (w_book _ W)).
Qed.

Lemma WF_finish_top s a p : WF s -> WF (finish_top s a p).
Proof.
  destruct (EditFrame.finish_top_spec s a p) as (_ & _ & _ & Eg & Es & Ef & Eb & _). now apply WF_same.
Qed.

Lemma top_wrap_WF top p r a st' : top_wrap top p r = Ok a st' -> exists s, r = Ok a s /\ (WF s -> WF st').
Proof.
  unfold top_wrap. destruct r as [a0 s|e s]; [|discriminate]. intros H. injection H as <- <-.
  exists s. split; [reflexivity|]. destruct top; [apply WF_finish_top|auto].
Qed.

Lemma top_wrap_err top p (r : res action) e st' : top_wrap top p r = Err e st' -> r = Err e st'.
Proof. unfold top_wrap. destruct r; [discriminate|auto]. Qed.

Theorem user_delete_edge_WF st u v top a st' : WF st -> user_delete_edge st u v top = Ok a st' -> WF st'.
Proof.
  intros W H. unfold user_delete_edge in H. apply top_wrap_WF in H. destruct H as (s & H & K).
  apply K. eapply ude_core_WF; eauto.
Qed.

Theorem user_add_edge_WF st u v force top a st' : WF st -> user_add_edge st u v force top = Ok a st' -> WF st'.
Proof.
  intros W H. unfold user_add_edge in H. apply top_wrap_WF in H. destruct H as (s & H & K).
  apply K. eapply uae_core_WF; eauto.
Qed.

Theorem user_swap_WF st n1 n2 a st' : WF st -> user_swap st n1 n2 = Ok a st' -> WF st'.
Proof.
  intros W H. unfold user_swap in H. apply top_wrap_WF in H. destruct H as (s & H & K).
  apply K. eapply swap_core_WF; eauto.
Qed.

(* ================================================================== *)
(* 4. refusals                                                          *)
(* ================================================================== *)
(* on a well-formed state every refusal of these actions returns the state it was given *)
Theorem ude_core_refused_WF st u v e st' : WF st -> user_delete_edge_core st u v = Err e st' -> st' = st /\ WF st'.
Proof.
  intros W H. destruct (ude_core_refusal_unchanged st u v e st' (w_dict _ W) (w_forest _ W) H) as (-> & _).
  auto.
Qed.

Theorem uae_core_refused_WF st u v force e st' : WF st -> user_add_edge_core st u v force = Err e st' -> st' = st /\ WF st'.
Proof.
  intros W H. assert (st' = st) as ->; [|auto].
  apply (add_edge_refused_unchanged st u v force false e st' (w_dict _ W) (w_forest _ W)).
  unfold user_add_edge, top_wrap. now rewrite H.
Qed.

Theorem swap_core_refused_WF st n1 n2 e st' : WF st -> user_swap_core st n1 n2 = Err e st' -> st' = st /\ WF st'.
Proof.
  intros W H. destruct (EditSwap.swap_core_refusal_unchanged st n1 n2 e st' (w_dict _ W) (w_forest _ W) H) as (-> & _).
  auto.
Qed.

Theorem refused_WF st : WF st ->
  (forall u v top e st', user_delete_edge st u v top = Err e st' -> st' = st /\ WF st') /\
  (forall u v force top e st', user_add_edge st u v force top = Err e st' -> st' = st /\ WF st') /\
  (forall n1 n2 e st', user_swap st n1 n2 = Err e st' -> st' = st /\ WF st').
Proof.
  intros W. split; [|split].
  - intros u v top e st' H. apply top_wrap_err in H. now apply (ude_core_refused_WF st u v e).
  - intros u v force top e st' H. apply top_wrap_err in H. now apply (uae_core_refused_WF st u v force e).
  - intros n1 n2 e st' H. apply top_wrap_err in H. now apply (swap_core_refused_WF st n1 n2 e).
Qed.

(* accepted or refused: the state a call leaves behind is well formed *)
Corollary edge_call_WF st : WF st ->
  (forall u v top, WF (rstate (user_delete_edge st u v top))) /\
  (forall u v force top, WF (rstate (user_add_edge st u v force top))) /\
  (forall n1 n2, WF (rstate (user_swap st n1 n2))).
Proof.
  intros W. destruct (refused_WF st W) as (R1 & R2 & R3). split; [|split].
  - intros u v top. destruct (user_delete_edge st u v top) as [a s|e s] eqn:E; cbn [rstate].
    + eapply user_delete_edge_WF; eauto.
    + apply (R1 _ _ _ _ _ E).
  - intros u v force top. destruct (user_add_edge st u v force top) as [a s|e s] eqn:E; cbn [rstate].
    + eapply user_add_edge_WF; eauto.
    + apply (R2 _ _ _ _ _ _ E).
  - intros n1 n2. destruct (user_swap st n1 n2) as [a s|e s] eqn:E; cbn [rstate].
    + eapply user_swap_WF; eauto.
    + apply (R3 _ _ _ _ E).
Qed.

(* ================================================================== *)
(* 5. the interpreter: every state reachable over the edge fragment     *)
(* ================================================================== *)
Definition edge_fragment (o : op) : bool :=
  match o with
  | OAddEdge _ _ _ | ODelEdge _ _ | OSwap _ _ | ONeighbors _ _ | OHasTrackAt _ _ | ONewIds _ | ONextIds => true
  | _ => false
  end.

Lemma fst_fin {A} (r : res A) : fst (fin r) = rstate r.
Proof. destruct r; reflexivity. Qed.

(* get_track_neighbors sorts one lookup list in place: W_book does not depend on the order inside
   an entry (EditBook.track_neighbors_spec, via BookLemmas.bok_permute) *)
Lemma track_neighbors_WF st T t : WF st -> WF (fst (track_neighbors st T t)).
Proof.
  intros W. destruct (track_neighbors st T t) as [s [p c]] eqn:E. cbn [fst].
  destruct (EditBook.track_neighbors_spec st T t s p c (w_book _ W) E) as (Ro & B' & _).
  destruct Ro as (Eg & Es & Ef & _). now apply (WF_same_core st s).
Qed.

Lemma get_new_node_ids_WF st n : WF st -> WF (fst (get_new_node_ids st n)).
Proof.
  intros W. destruct (EditFrame.get_new_node_ids_frame st n) as (Eg & Es & Ef & Eb & _). now apply (WF_same st).
Qed.

Theorem step_edge_WF st o : edge_fragment o = true -> WF st -> WF (fst (step st o)).
Proof.
  intros Hf W. destruct (edge_call_WF st W) as (C1 & C2 & C3).
  destruct o; try discriminate Hf; cbn [step].
  - rewrite fst_fin. apply C2.
  - rewrite fst_fin. apply C1.
  - rewrite fst_fin. apply C3.
  - pose proof (track_neighbors_WF st T t W) as H. destruct (track_neighbors st T t) as [s [p c]]. exact H.
  - exact W.
  - pose proof (get_new_node_ids_WF st n W) as H. destruct (get_new_node_ids st n) as [s ids]. exact H.
  - exact W.
Qed.

Theorem run_edge_WF : forall ops st, forallb edge_fragment ops = true -> WF st -> WF (run st ops).
Proof.
  unfold run. induction ops as [|o r IH]; intros st Hf W; cbn [fold_left]; [exact W|].
  cbn [forallb] in Hf. apply andb_true_iff in Hf. destruct Hf as [Ho Hr].
  apply IH; [exact Hr|]. now apply step_edge_WF.
Qed.

(* ================================================================== *)
(* 6. non-vacuity: a concrete well-formed state with a segmentation,    *)
(*    a division and four nodes, and a run over the fragment            *)
(* ================================================================== *)
(* EditSegExample.ex0: 3 frames of 2x2 pixels; node 1 (t=0) divides into 2 and 3 (t=1), 2 continues
   to 4 (t=2); regionprops keys KPos, KArea and the IoU active.  W_seg and W_fresh are proved there. *)
Definition exs : state := EditSegExample.ex0.

Lemma exs_nodes n : is_node exs n <-> n = 1 \/ n = 2 \/ n = 3 \/ n = 4.
Proof. apply EditSegExample.ex0_nodes. Qed.

Lemma exs_edges u v : edge exs u v -> (u, v) = (1, 2) \/ (u, v) = (1, 3) \/ (u, v) = (2, 4).
Proof. apply EditSegExample.ex0_edges. Qed.

Lemma exs_cases n : n = 1 \/ n = 2 \/ n = 3 \/ n = 4 \/ (lookup n (nodes (g exs)) = None /\ lookup n (succs (g exs)) = None).
Proof.
  destruct (Z.eq_dec n 1); [tauto|]. destruct (Z.eq_dec n 2); [tauto|]. destruct (Z.eq_dec n 3); [tauto|].
  destruct (Z.eq_dec n 4); [tauto|]. right. right. right. right.
  split; apply lookup_None_keys; cbn; intuition.
Qed.

Lemma exs_W_dict : W_dict exs.
Proof.
  constructor.
  - cbn. repeat constructor; cbn; intuition discriminate.
  - cbn. repeat constructor; cbn; intuition discriminate.
  - intros n. rewrite haskey_keys, exs_nodes. cbn. intuition.
  - intros u. destruct (exs_cases u) as [->|[->|[->|[->|[_ H]]]]]; try (cbn; repeat constructor; cbn; intuition discriminate).
    unfold successors, adj, getd. rewrite H. constructor.
  - intros u v H. apply exs_edges in H. rewrite !exs_nodes. destruct H as [E|[E|E]]; injection E as -> ->; tauto.
  - intros n H. apply exs_nodes in H. destruct H as [->|[->|[->| ->]]]; eexists; reflexivity.
  - intros n H. apply exs_nodes in H. destruct H as [->|[->|[->| ->]]]; eexists; reflexivity.
  - intros n H. apply exs_nodes in H. destruct H as [->|[->|[->| ->]]]; eexists; reflexivity.
  - intros n. destruct (exs_cases n) as [->|[->|[->|[->|[H _]]]]]; try (cbn; repeat constructor; cbn; intuition discriminate).
    unfold node_attrs, getd. rewrite H. constructor.
Qed.

Lemma exs_W_forest : W_forest exs.
Proof.
  constructor.
  - intros u u' v H1 H2. apply exs_edges in H1. apply exs_edges in H2.
    destruct H1 as [E|[E|E]]; injection E as -> ->; destruct H2 as [E|[E|E]]; inversion E; subst; reflexivity.
  - intros u. destruct (exs_cases u) as [->|[->|[->|[->|[_ H]]]]]; try (cbn; lia).
    unfold successors, adj, getd. rewrite H. cbn. lia.
  - intros u v H. apply exs_edges in H. destruct H as [E|[E|E]]; injection E as -> ->; reflexivity.
Qed.

Lemma exs_W_trk : W_trk exs.
Proof.
  assert (D1 : divides exs 1) by (vm_compute; lia).
  assert (H4 : ~ head exs 4).
  { intros [_ P]. assert (edge exs 2 4) as E by reflexivity. specialize (P 2 E). vm_compute in P. lia. }
  constructor.
  - intros u v He Hnd. apply exs_edges in He. destruct He as [E|[E|E]]; injection E as -> ->; try contradiction. reflexivity.
  - intros a b Ha Hb E. pose proof (proj1 Ha) as Na. pose proof (proj1 Hb) as Nb. apply exs_nodes in Na. apply exs_nodes in Nb.
    destruct Na as [->|[->|[->| ->]]]; destruct Nb as [->|[->|[->| ->]]]; try reflexivity; try contradiction; vm_compute in E; discriminate.
Qed.

Lemma exs_W_lin : W_lin exs.
Proof.
  constructor.
  - intros u v H. apply exs_edges in H. destruct H as [E|[E|E]]; injection E as -> ->; reflexivity.
  - assert (R : forall a, root exs a -> a = 1).
    { intros a [Na Ha]. apply exs_nodes in Na. destruct Na as [->|[->|[->| ->]]]; [reflexivity| | |]; exfalso.
      - apply (Ha 1). reflexivity.
      - apply (Ha 1). reflexivity.
      - apply (Ha 2). reflexivity. }
    intros a b Ra Rb _. now rewrite (R a Ra), (R b Rb).
Qed.

Lemma exs_W_book : W_book exs.
Proof.
  assert (Hn : forall n, is_node exs n <-> n = 1 \/ n = 2 \/ n = 3 \/ n = 4) by apply exs_nodes.
  split; (split; [cbn; repeat constructor; cbn; intuition discriminate|split]).
  - intros T l H. cbn in H.
    destruct (Z.eqb_spec T 1) as [->|H1]; [|destruct (Z.eqb_spec T 2) as [->|H2]; [|destruct (Z.eqb_spec T 3) as [->|H3]; [|discriminate]]];
      injection H as <-; (split; [discriminate|split; [repeat constructor; cbn; intuition discriminate|]]);
      intros n; rewrite Hn; cbn [In]; split.
    + intros [<-|[]]; vm_compute; auto.
    + intros [[->|[->|[->| ->]]] H]; vm_compute in H; try discriminate; auto.
    + intros [<-|[<-|[]]]; vm_compute; auto.
    + intros [[->|[->|[->| ->]]] H]; vm_compute in H; try discriminate; auto.
    + intros [<-|[]]; vm_compute; auto.
    + intros [[->|[->|[->| ->]]] H]; vm_compute in H; try discriminate; auto.
  - intros n T Hi H. apply Hn in Hi. destruct Hi as [->|[->|[->| ->]]]; vm_compute in H; injection H as <-; split; (reflexivity || discriminate).
  - intros T l H. cbn in H. destruct (Z.eqb_spec T 1) as [->|H1]; [|discriminate].
    injection H as <-. split; [discriminate|split; [repeat constructor; cbn; intuition discriminate|]].
    intros n; rewrite Hn; cbn [In]; split.
    + intros [<-|[<-|[<-|[<-|[]]]]]; vm_compute; auto 6.
    + intros [[->|[->|[->| ->]]] H]; vm_compute in H; try discriminate; auto 6.
  - intros n T Hi H. apply Hn in Hi. destruct Hi as [->|[->|[->| ->]]]; vm_compute in H; injection H as <-; split; (reflexivity || discriminate).
Qed.

Theorem exs_WF : WF exs.
Proof.
  constructor.
  - unfold cfg_ok. cbn. intuition.
  - apply exs_W_dict.
  - apply exs_W_forest.
  - apply exs_W_trk.
  - apply exs_W_lin.
  - apply exs_W_book.
  - apply EditSegExample.ex0_W_seg.
  - apply EditSegExample.ex0_W_fresh.
Qed.

(* cut the continuation 2 -> 4, attach 4 below 3, query the neighbours in track 3, draw fresh ids,
   then force 4 back below 2 (which removes 3 -> 4 again) *)
Definition exs_ops : list op :=
  [ODelEdge 2 4; OAddEdge 3 4 false; ONeighbors 3 0; ONewIds 2; OAddEdge 2 4 true; OSwap 3 4].

Example exs_run_WF : WF (run exs exs_ops).
Proof. apply run_edge_WF; [reflexivity|apply exs_WF]. Qed.

(* the run does change the graph: edges and ids after the first two, and after all, operations *)
Example exs_run_effect :
  let s2 := run exs [ODelEdge 2 4; OAddEdge 3 4 false] in
  let s6 := run exs exs_ops in
  all_edges exs = [(1, 2); (1, 3); (2, 4)] /\
  all_edges s2 = [(1, 2); (1, 3); (3, 4)] /\
  (zattr s2 4 KTrack, zattr s2 4 KLin) = (Some 3, Some 1) /\
  lookup KIou (edge_attrs s2 3 4) = Some (VIou 1 2) /\
  trk_book (bk s2) = [(1, [1]); (2, [2]); (3, [3; 4])] /\
  all_edges s6 = [(1, 2); (1, 3); (2, 4)] /\
  length (undo_stack s6) = 3%nat.
Proof. vm_compute. repeat split. Qed.

(* ================================================================== *)
(* 7. UserUpdateNodeAttrs                                               *)
(* ================================================================== *)
(* The action refuses the keys in [protected_keys]: rp_all, KIou when available, KTrack, KLin, KTime.
   W_fresh speaks about rp_act, the refusal about rp_all.  In the implementation the active keys of the
   regionprops annotator are among all its keys, but neither the record [feats] nor cfg_ok says so, and
   WF does not mention rp_all at all (WF_rp_all below).  So the statement carries the guard: a key the
   call sets that is actively managed is a key the annotator declares - and then the call is refused. *)
Definition rp_guard (f : feats) (new : attrs) : Prop :=
  forall k, In k (keys new) -> In k (rp_act f) -> In k (rp_all f).

Lemma rp_guard_incl f new : incl (rp_act f) (rp_all f) -> rp_guard f new.
Proof. intros H k _ Hk. now apply H. Qed.

Lemma rp_guard_unmanaged f new : (forall k, In k (keys new) -> ~ In k (rp_act f)) -> rp_guard f new.
Proof. intros H k Hk Ha. now destruct (H k Hk). Qed.

(* rewriting node attributes other than time / track id / lineage id keeps the three graph invariants *)
Lemma idframe_parts st st' :
  EditBook.attr_upd st st' -> (forall m k, EditBook.id_key k -> attr st' m k = attr st m k) ->
  (W_forest st -> W_forest st') /\ (W_trk st -> W_trk st') /\ (W_lin st -> W_lin st').
Proof.
  intros A Fr.
  assert (Hn : forall m, is_node st' m <-> is_node st m) by (intros m; apply (EditBook.attr_upd_is_node _ _ _ A)).
  assert (Hs : forall a, successors st' a = successors st a) by (intros a; apply (EditBook.attr_upd_successors _ _ _ A)).
  assert (He : forall a c, edge st' a c <-> edge st a c) by (intros a c; rewrite !edge_successors, Hs; tauto).
  assert (Ht : forall m, time_of st' m = time_of st m).
  { intros m. unfold time_of, zattr. rewrite Fr; [reflexivity|left; reflexivity]. }
  assert (Hk : forall m, trk st' m = trk st m).
  { intros m. unfold trk, zattr. rewrite Fr; [reflexivity|right; left; reflexivity]. }
  assert (Hl : forall m, lin st' m = lin st m).
  { intros m. unfold lin, zattr. rewrite Fr; [reflexivity|right; right; reflexivity]. }
  split; [|split].
  - intros [F1 F2 F3]. constructor.
    + intros u u' v E1 E2. apply (F1 u u' v); now apply He.
    + intros u. rewrite Hs. apply F2.
    + intros u v E. rewrite !Ht. apply F3. now apply He.
  - now apply EditTrk.W_trk_ext.
  - intros [L1 L2]. constructor.
    + intros u v E. rewrite !Hl. apply L1. now apply He.
    + intros a b [Na Ra] [Nb Rb]. rewrite !Hl. apply L2.
      * split; [now apply Hn|]. intros p E. apply (Ra p). now apply He.
      * split; [now apply Hn|]. intros p E. apply (Rb p). now apply He.
Qed.

Theorem upd_attrs_WF st n new b st' : WF st -> rp_guard (ft st) new -> do_upd_attrs st n new = Ok b st' -> WF st'.
Proof.
  intros [C D F T L B S R] G H.
  destruct (EditBook.upd_attrs_frame _ _ _ _ _ H) as [A Fr].
  destruct (idframe_parts st st' A Fr) as (PF & PT & PL).
  constructor.
  - apply (EditLin.cfg_ok_ft st st' (EditBook.au_ft _ _ A) C).
  - apply (EditBook.upd_attrs_W_dict _ _ _ _ _ H D).
  - now apply PF.
  - now apply PT.
  - now apply PL.
  - apply (EditBook.upd_attrs_W_book _ _ _ _ _ H B).
  - apply (W_seg_upd_attrs _ _ _ _ _ H S).
  - destruct (upd_attrs_effect st n new) as (E1 & E2). rewrite H in E1, E2. cbn [rstate] in E1, E2.
    apply W_fresh_split in R. apply W_fresh_split.
    assert (P : (rp_fresh st -> rp_fresh st') /\ (iou_fresh st -> iou_fresh st')).
    { eapply fresh_keep; [exact E1|exact E2| |].
      - intros [_ Hp]. rewrite KTime_protected in Hp. discriminate.
      - intros k Hk [Hin Hp]. apply memz_false in Hp. apply Hp. unfold protected_keys. apply in_app_iff. left.
        now apply G. }
    split; [apply (proj1 P), R|apply (proj2 P), R].
Qed.

Theorem user_update_attrs_WF st n new : WF st -> rp_guard (ft st) new -> WF (rstate (user_update_attrs st n new)).
Proof.
  intros W G. destruct (user_update_attrs st n new) as [a s|e s] eqn:E; cbn [rstate].
  - unfold user_update_attrs in E. apply top_wrap_WF in E. destruct E as (s0 & E & K). apply K.
    unfold user_update_attrs_core in E. apply bind_ok in E. destruct E as (b & s1 & E1 & E2).
    injection E2 as _ <-. eapply upd_attrs_WF; eauto.
  - destruct (update_attrs_refused_unchanged st n new e s E) as (-> & _). exact W.
Qed.

(* ---- the fragment with UserUpdateNodeAttrs ---- *)
Definition edge_attr_fragment (o : op) : bool :=
  match o with OUpdAttrs _ _ => true | _ => edge_fragment o end.
Definition op_guard (f : feats) (o : op) : Prop :=
  match o with OUpdAttrs _ a => rp_guard f a | _ => True end.

Theorem step_edge_attr_WF st o : edge_attr_fragment o = true -> op_guard (ft st) o -> WF st -> WF (fst (step st o)).
Proof.
  intros Hf G W. destruct o; try (now apply step_edge_WF); try discriminate Hf.
  cbn [step]. rewrite fst_fin. now apply user_update_attrs_WF.
Qed.

(* no operation of the fragment touches the feature configuration *)
Lemma step_edge_attr_ft st o : edge_attr_fragment o = true -> ft (fst (step st o)) = ft st.
Proof.
  intros Hf. destruct o; try discriminate Hf; cbn [step]; rewrite ?fst_fin.
  - apply (estep_uae st u v force true).
  - apply (estep_ude st u v true).
  - apply (estep_swap st a b).
  - unfold user_update_attrs. destruct (EditFrame.aux_user_update_attrs_core st n a) as (_ & _ & _ & _ & Ef).
    destruct (user_update_attrs_core st n a) as [x s|e s]; cbn [top_wrap rstate] in *; [|exact Ef].
    destruct (EditFrame.finish_top_spec s x None) as (_ & _ & _ & _ & _ & Ef' & _). congruence.
  - destruct (EditFrame.track_neighbors_frame st T t) as (_ & _ & (_ & _ & _ & _ & Ef)).
    destruct (track_neighbors st T t) as [s [p c]]. exact Ef.
  - reflexivity.
  - destruct (EditFrame.get_new_node_ids_frame st n) as (_ & _ & Ef & _).
    destruct (get_new_node_ids st n) as [s ids]. exact Ef.
  - reflexivity.
Qed.

Theorem run_edge_attr_WF : forall ops st, forallb edge_attr_fragment ops = true -> Forall (op_guard (ft st)) ops ->
  WF st -> WF (run st ops).
Proof.
  unfold run. induction ops as [|o r IH]; intros st Hf G W; cbn [fold_left]; [exact W|].
  cbn [forallb] in Hf. apply andb_true_iff in Hf. destruct Hf as [Ho Hr]. inversion G as [|? ? Go Gr]; subst.
  apply IH; [exact Hr| |now apply step_edge_attr_WF].
  now rewrite (step_edge_attr_ft st o Ho).
Qed.

(* with the configuration invariant of the implementation (active keys among the declared ones) every
   UserUpdateNodeAttrs call is covered *)
Corollary run_edge_attr_WF_cfg ops st : forallb edge_attr_fragment ops = true ->
  incl (rp_act (ft st)) (rp_all (ft st)) -> WF st -> WF (run st ops).
Proof.
  intros Hf Hi W. apply run_edge_attr_WF; [exact Hf| |exact W].
  apply Forall_forall. intros o _. destruct o; cbn [op_guard]; try exact I. now apply rp_guard_incl.
Qed.

(* ---- the guard is needed: WF says nothing about rp_all ---- *)
Definition with_rp_all (f : feats) (l : list Z) : feats :=
  {| reg_node := reg_node f; reg_edge := reg_edge f; pos_keys := pos_keys f; rp_all := l; rp_act := rp_act f;
     iou_avail := iou_avail f; iou_act := iou_act f; trk_act := trk_act f; lin_act := lin_act f |}.

Lemma WF_rp_all st l : WF st -> WF (upd_ft st (with_rp_all (ft st) l)).
Proof.
  intros [C [D1 D2 D3 D4 D5 D6 D7 D8 D9] [F1 F2 F3] [T1 T2] [L1 L2] B S R].
  constructor; [exact C|constructor; assumption|constructor; assumption|constructor; assumption|constructor; assumption
               |exact B|exact S|exact R].
Qed.

(* the state of section 6 with an annotator that manages KPos, KArea but declares no key *)
Definition exbad : state := upd_ft exs (with_rp_all (ft exs) []).

Lemma exbad_WF : WF exbad.
Proof. apply WF_rp_all, exs_WF. Qed.

(* setting the managed feature KArea by hand is accepted there, and the result is not well formed *)
Example upd_attrs_breaks_W_fresh :
  let r := step exbad (OUpdAttrs 1 [(KArea, VTok 7)]) in
  WF exbad /\ ~ rp_guard (ft exbad) [(KArea, VTok 7)] /\ snd r = (0, []) /\ attr (fst r) 1 KArea = Some (VTok 7) /\ ~ W_fresh (fst r).
Proof.
  cbv zeta. split; [exact exbad_WF|]. split; [|split; [|split]].
  - intros G. apply (G KArea); cbn; auto.
  - vm_compute. reflexivity.
  - vm_compute. reflexivity.
  - intros HW. apply W_fresh_split in HW. destruct HW as [Hrp _]. unfold rp_fresh in Hrp.
    assert (Hs : seg (fst (step exbad (OUpdAttrs 1 [(KArea, VTok 7)]))) = Some EditSegExample.sg0) by (vm_compute; reflexivity).
    rewrite Hs in Hrp. specialize (Hrp 1 KArea).
    assert (H1 : is_node (fst (step exbad (OUpdAttrs 1 [(KArea, VTok 7)]))) 1) by (vm_compute; auto).
    assert (H2 : In KArea (rp_act (ft (fst (step exbad (OUpdAttrs 1 [(KArea, VTok 7)])))))) by (vm_compute; auto).
    specialize (Hrp H1 H2). vm_compute in Hrp. discriminate Hrp.
Qed.

(* ... while with the declared keys of EditSegExample.fx the same call is refused and nothing changes *)
Example upd_attrs_refused_when_declared :
  step exs (OUpdAttrs 1 [(KArea, VTok 7)]) = (exs, (12, [])).
Proof. vm_compute. reflexivity. Qed.
