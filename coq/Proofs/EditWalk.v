(* The relabel walk of TrackAnnotator._handle_update_track_ids (Model/Edit.v: visit, walk,
   do_upd_track): what it leaves alone, that it terminates on forests, and which nodes it
   relabels. *)
From Coq Require Import ZArith List Bool Lia Sorted.
From FT Require Import Base.Dict Model.Edit Proofs.DictLemmas Proofs.EditInv Proofs.EditGraph.
Import ListNotations.
Open Scope Z_scope.

(* "same graph structure": everything except the KTrack / KLin attributes and the lookups *)
Definition same_struct (s s' : state) : Prop :=
  node_ids s' = node_ids s /\ succs (g s') = succs (g s) /\
  (forall m j, j <> KTrack -> j <> KLin -> attr s' m j = attr s m j) /\
  (forall m, NoDup (keys (node_attrs s m)) -> NoDup (keys (node_attrs s' m))) /\
  seg s' = seg s /\ ft s' = ft s /\ undo_stack s' = undo_stack s /\ redo_stack s' = redo_stack s /\
  rlog s' = rlog s /\ nctr s' = nctr s.

Lemma same_struct_refl s : same_struct s s.
Proof. unfold same_struct. repeat split; auto. Qed.

Lemma same_struct_trans a b c : same_struct a b -> same_struct b c -> same_struct a c.
Proof.
  unfold same_struct. intros (A1&A2&A3&A4&A5&A6&A7&A8&A9&A10) (B1&B2&B3&B4&B5&B6&B7&B8&B9&B10).
  repeat split; try congruence.
  - intros m j H1 H2. rewrite B3, A3; auto.
  - intros m H. auto.
Qed.

Lemma same_struct_sna s n k v : k = KTrack \/ k = KLin -> same_struct s (set_node_attr s n k v).
Proof.
  intros Hk. destruct (sna_rest s n k v) as (R1&R2&R3&R4&R5&R6&R7).
  unfold same_struct. repeat split; auto.
  - apply sna_node_ids.
  - apply sna_succs.
  - intros m j H1 H2. apply sna_attr_other. right. destruct Hk; congruence.
  - intros m. apply sna_node_attr_keys.
Qed.

Lemma same_struct_upd_bk s b : same_struct s (upd_bk s b).
Proof. unfold same_struct. repeat split; auto. Qed.

Lemma same_struct_successors s s' u : same_struct s s' -> successors s' u = successors s u.
Proof. intros (_&H&_). unfold successors, adj. now rewrite H. Qed.
Lemma same_struct_has_edge s s' u v : same_struct s s' -> has_edge s' u v = has_edge s u v.
Proof. intros (_&H&_). unfold has_edge, adj. now rewrite H. Qed.
Lemma same_struct_edge s s' u v : same_struct s s' -> (edge s' u v <-> edge s u v).
Proof. intros H. unfold edge. now rewrite (same_struct_has_edge _ _ _ _ H). Qed.
Lemma same_struct_is_node s s' n : same_struct s s' -> (is_node s' n <-> is_node s n).
Proof. intros (H&_). unfold is_node. now rewrite H. Qed.
Lemma same_struct_has_node s s' n : same_struct s s' -> has_node s' n = has_node s n.
Proof.
  intros H. destruct (has_node s n) eqn:E.
  - apply has_node_is_node. apply (same_struct_is_node _ _ _ H). now apply has_node_is_node.
  - apply has_node_false. rewrite (same_struct_is_node _ _ _ H). now apply has_node_false.
Qed.
Lemma same_struct_time s s' n : same_struct s s' -> time_of s' n = time_of s n.
Proof. intros (_&_&H&_). unfold time_of, zattr. rewrite H; [reflexivity|discriminate|discriminate]. Qed.
Lemma same_struct_predecessors s s' v : same_struct s s' -> predecessors s' v = predecessors s v.
Proof.
  intros H. unfold predecessors. destruct H as (H1&H2&_). unfold node_ids in H1. rewrite H1.
  apply filter_ext. intros u. unfold has_edge, adj. now rewrite H2.
Qed.

(* ------------------------------------------------------------------ one visit, one level *)
Definition acc_state (a : state * bool * list Z * list Z * list Z) : state := let '(s, _, _, _, _) := a in s.
Definition acc_next (a : state * bool * list Z * list Z * list Z) : list Z := let '(_, _, _, _, x) := a in x.

Lemma visit_struct oldT newT newL st flag tn ln next n :
  same_struct st (acc_state (visit oldT newT newL (st, flag, tn, ln, next) n)) /\
  acc_next (visit oldT newT newL (st, flag, tn, ln, next) n) = next ++ successors st n.
Proof.
  unfold visit.
  destruct newL as [l|].
  - set (s1 := set_node_attr st n KLin (VZ l)).
    assert (same_struct st s1) as H1 by (apply same_struct_sna; now right).
    destruct flag.
    + destruct (match zattr s1 n KTrack with Some t => t =? oldT | None => false end); cbn [acc_state acc_next].
      * split; [|now rewrite (same_struct_successors _ _ _ (same_struct_trans _ _ _ H1 (same_struct_sna s1 n KTrack (VZ newT) (or_introl eq_refl))))].
        eapply same_struct_trans; [exact H1|]. apply same_struct_sna. now left.
      * split; [exact H1|now rewrite (same_struct_successors _ _ _ H1)].
    + cbn [acc_state acc_next]. split; [exact H1|now rewrite (same_struct_successors _ _ _ H1)].
  - destruct flag.
    + destruct (match zattr st n KTrack with Some t => t =? oldT | None => false end); cbn [acc_state acc_next].
      * split; [apply same_struct_sna; now left|].
        now rewrite (same_struct_successors _ _ _ (same_struct_sna st n KTrack (VZ newT) (or_introl eq_refl))).
      * split; [apply same_struct_refl|reflexivity].
    + cbn [acc_state acc_next]. split; [apply same_struct_refl|reflexivity].
Qed.

Lemma level_struct oldT newT newL : forall curr st flag tn ln next,
  let a := fold_left (visit oldT newT newL) curr (st, flag, tn, ln, next) in
  same_struct st (acc_state a) /\ acc_next a = next ++ flat_map (successors st) curr.
Proof.
  induction curr as [|n r IH]; intros st flag tn ln next; cbn [fold_left flat_map].
  - cbn. split; [apply same_struct_refl|now rewrite app_nil_r].
  - destruct (visit oldT newT newL (st, flag, tn, ln, next) n) as [[[[s1 f1] tn1] ln1] nx1] eqn:E.
    pose proof (visit_struct oldT newT newL st flag tn ln next n) as [H1 H2]. rewrite E in H1, H2. cbn in H1, H2.
    specialize (IH s1 f1 tn1 ln1 nx1). cbn zeta in IH. destruct IH as [I1 I2]. split.
    + eapply same_struct_trans; eauto.
    + rewrite I2, H2, <- app_assoc. f_equal. f_equal.
      apply flat_map_ext. intros u. apply (same_struct_successors _ _ _ H1).
Qed.

(* ------------------------------------------------------------------ the whole walk *)
Fixpoint levels (S : Z -> list Z) (k : nat) (fr : list Z) : list Z :=
  match k with O => fr | Datatypes.S j => levels S j (flat_map S fr) end.

Lemma levels_ext (S1 S2 : Z -> list Z) : (forall u, S1 u = S2 u) -> forall k fr, levels S1 k fr = levels S2 k fr.
Proof.
  intros H. induction k as [|k IH]; intros fr; cbn [levels]; [reflexivity|].
  rewrite IH. f_equal. apply flat_map_ext. exact H.
Qed.

Lemma walk_struct oldT newT newL : forall fuel st curr flag tn ln st' tn' ln',
  walk fuel oldT newT newL st curr flag tn ln = Some (st', tn', ln') -> same_struct st st'.
Proof.
  induction fuel as [|f IH]; intros st curr flag tn ln st' tn' ln' H.
  - destruct curr; cbn in H; [injection H as <- _ _; apply same_struct_refl|discriminate].
  - destruct curr as [|c cs]; [cbn in H; injection H as <- _ _; apply same_struct_refl|].
    cbn [walk] in H.
    destruct (fold_left (visit oldT newT newL) (c :: cs) (st, flag, tn, ln, [])) as [[[[s1 f1] tn1] ln1] nx1] eqn:E.
    pose proof (level_struct oldT newT newL (c :: cs) st flag tn ln []) as L. cbn zeta in L. rewrite E in L.
    destruct L as [L1 _]. cbn in L1. eapply same_struct_trans; [exact L1|]. eapply IH; eauto.
Qed.

(* the walk runs out of fuel only if the frontier is still non-empty after [fuel] levels *)
Lemma walk_none oldT newT newL : forall fuel st curr flag tn ln,
  walk fuel oldT newT newL st curr flag tn ln = None -> levels (successors st) fuel curr <> [].
Proof.
  induction fuel as [|f IH]; intros st curr flag tn ln H.
  - destruct curr; cbn in H; [discriminate|]. cbn. discriminate.
  - destruct curr as [|c cs]; [cbn in H; discriminate|].
    cbn [walk] in H.
    destruct (fold_left (visit oldT newT newL) (c :: cs) (st, flag, tn, ln, [])) as [[[[s1 f1] tn1] ln1] nx1] eqn:E.
    pose proof (level_struct oldT newT newL (c :: cs) st flag tn ln []) as L. cbn zeta in L. rewrite E in L.
    destruct L as [L1 L2]. cbn in L1, L2. subst nx1. cbn [levels].
    apply IH in H.
    replace (levels (successors st) f (flat_map (successors st) (c :: cs)))
      with (levels (successors s1) f (flat_map (successors st) (c :: cs))); [exact H|].
    apply levels_ext. intros u. apply (same_struct_successors _ _ _ L1).
Qed.

(* paths: a node [k] levels below the frontier is the end of a chain of [k] edges *)
Fixpoint is_path (st : state) (l : list Z) : Prop :=
  match l with
  | [] => True
  | x :: r => match r with [] => True | y :: _ => edge st x y end /\ is_path st r
  end.

Lemma levels_path st : forall k fr x, In x (levels (successors st) k fr) ->
  exists l, length l = Datatypes.S k /\ is_path st l /\ (exists h, hd_error l = Some h /\ In h fr) /\ last l 0 = x.
Proof.
  induction k as [|k IH]; intros fr x H; cbn [levels] in H.
  - exists [x]. cbn. repeat split; auto. exists x. auto.
  - apply IH in H. destruct H as (l & Hlen & Hp & (h & Hh & Hin) & Hlast).
    apply in_flat_map in Hin. destruct Hin as (u & Hu & Huh).
    exists (u :: l). destruct l as [|h' r]; [discriminate|]. cbn in Hh. injection Hh as ->.
    split; [|split; [|split]].
    + cbn. cbn in Hlen. lia.
    + cbn [is_path]. split; [apply (proj2 (edge_successors st u h)); exact Huh|exact Hp].
    + exists u. split; [reflexivity|exact Hu].
    + exact Hlast.
Qed.

Lemma path_times st : W_forest st -> forall l, is_path st l -> StronglySorted Z.lt (map (time_of st) l).
Proof.
  intros Hf. induction l as [|x r IH]; intros Hp; cbn [map]; [constructor|].
  destruct Hp as [Hx Hr]. specialize (IH Hr). constructor; [exact IH|].
  destruct r as [|y r']; [constructor|]. cbn [map]. inversion IH as [|? ? Hss Hall]; subst.
  pose proof (wf_time st Hf x y Hx) as Hlt. constructor; [exact Hlt|].
  rewrite Forall_forall in *. intros z Hz. specialize (Hall z Hz). lia.
Qed.

Lemma sorted_lt_nodup : forall l, StronglySorted Z.lt l -> NoDup l.
Proof.
  induction l as [|x r IH]; intros H; [constructor|]. inversion H as [|? ? Hs Hall]; subst.
  constructor; [|auto]. intros Hin. rewrite Forall_forall in Hall. specialize (Hall x Hin). lia.
Qed.

Lemma path_nodes st : W_dict st -> forall l, (2 <= length l)%nat -> is_path st l -> forall x, In x l -> is_node st x.
Proof.
  intros Hd. induction l as [|a r IH]; intros Hlen Hp x Hx; [destruct Hx|].
  destruct Hp as [Ha Hr]. destruct r as [|b r']; [cbn in Hlen; lia|].
  destruct (wd_edge_nodes st Hd a b Ha) as [Na Nb].
  destruct Hx as [->|Hx]; [exact Na|].
  destruct r' as [|c r''].
  - destruct Hx as [->|[]]. exact Nb.
  - apply IH; [cbn; lia|exact Hr|exact Hx].
Qed.

(* on a forest the frontier is empty after |nodes| levels: the walk never runs out of fuel *)
Lemma levels_empty st start : W_dict st -> W_forest st ->
  levels (successors st) (Datatypes.S (length (nodes (g st)))) [start] = [].
Proof.
  intros Hd Hf. destruct (levels _ _ _) as [|x r] eqn:E; [reflexivity|exfalso].
  assert (In x (levels (successors st) (Datatypes.S (length (nodes (g st)))) [start])) as Hin by (rewrite E; now left).
  apply levels_path in Hin. destruct Hin as (l & Hlen & Hp & _ & _).
  assert (NoDup l) as Hnd.
  { apply (NoDup_map_inv (time_of st)). apply sorted_lt_nodup. now apply path_times. }
  assert (incl l (node_ids st)) as Hincl.
  { intros y Hy. apply (path_nodes st Hd l); [lia|exact Hp|exact Hy]. }
  pose proof (NoDup_incl_length Hnd Hincl) as Hle.
  unfold node_ids, keys in Hle. rewrite map_length in Hle. lia.
Qed.

(* ------------------------------------------------------------------ do_upd_track *)
Theorem do_upd_track_struct st start newT newL r :
  r = do_upd_track st start newT newL -> same_struct st (rstate r).
Proof.
  intros ->. unfold do_upd_track.
  destruct (has_node st start); cbn [negb]; [|apply same_struct_refl].
  destruct (zattr st start KTrack) as [oldT|]; [|apply same_struct_refl].
  destruct (trk_act (ft st)); cbn [negb]; [|apply same_struct_refl].
  destruct (walk _ _ _ _ _ _ _ _ _) as [[[st1 tn] ln]|] eqn:W; [|apply same_struct_refl].
  apply walk_struct in W.
  destruct (if lin_act (ft st) then newL else None) as [l|]; cbn [rstate];
    (eapply same_struct_trans; [exact W|apply same_struct_upd_bk]).
Qed.

(* under W_dict and W_forest an UpdateTrackIDs on an existing node always succeeds *)
Theorem do_upd_track_ok st start newT newL :
  W_dict st -> W_forest st -> is_node st start ->
  exists b st', do_upd_track st start newT newL = Ok b st'.
Proof.
  intros Hd Hf Hn. unfold do_upd_track.
  apply has_node_is_node in Hn. rewrite Hn. cbn [negb].
  apply has_node_is_node in Hn. destruct (wd_track st Hd start Hn) as [k Hk].
  apply zattr_attr in Hk. rewrite Hk.
  destruct (trk_act (ft st)); cbn [negb]; [|eauto].
  destruct (walk _ _ _ _ _ _ _ _ _) as [[[st1 tn] ln]|] eqn:W.
  - destruct (if lin_act (ft st) then newL else None); eauto.
  - exfalso. apply walk_none in W. apply W. now apply levels_empty.
Qed.

(* ------------------------------------------------------------------ the ids stay integers *)
Definition vz_pres (s s' : state) : Prop :=
  forall m k, k = KTrack \/ k = KLin -> (exists z, attr s m k = Some (VZ z)) -> exists z, attr s' m k = Some (VZ z).

Lemma vz_pres_refl s : vz_pres s s.
Proof. intros m k _ H. exact H. Qed.
Lemma vz_pres_trans a b c : vz_pres a b -> vz_pres b c -> vz_pres a c.
Proof. intros H1 H2 m k Hk H. apply (H2 m k Hk). now apply (H1 m k Hk). Qed.

Lemma vz_pres_sna s n k z : vz_pres s (set_node_attr s n k (VZ z)).
Proof.
  intros m j Hj [y Hy]. destruct (Z.eq_dec m n) as [->|Hm]; [destruct (Z.eq_dec j k) as [->|Hk]|].
  - exists z. apply sna_attr_same. unfold attr, node_attrs, getd in Hy.
    apply has_node_is_node. unfold has_node, haskey. destruct (lookup n (nodes (g s))); [reflexivity|discriminate].
  - exists y. rewrite sna_attr_other; [exact Hy|now right].
  - exists y. rewrite sna_attr_other; [exact Hy|now left].
Qed.

Lemma visit_vz oldT newT newL st flag tn ln next n :
  vz_pres st (acc_state (visit oldT newT newL (st, flag, tn, ln, next) n)).
Proof.
  unfold visit. destruct newL as [l|].
  - set (s1 := set_node_attr st n KLin (VZ l)).
    assert (vz_pres st s1) as H1 by apply vz_pres_sna.
    destruct flag; [destruct (match zattr s1 n KTrack with Some t => t =? oldT | None => false end)|]; cbn [acc_state]; auto.
    eapply vz_pres_trans; [exact H1|apply vz_pres_sna].
  - destruct flag; [destruct (match zattr st n KTrack with Some t => t =? oldT | None => false end)|]; cbn [acc_state];
      auto using vz_pres_refl, vz_pres_sna.
Qed.

Lemma level_vz oldT newT newL : forall curr st flag tn ln next,
  vz_pres st (acc_state (fold_left (visit oldT newT newL) curr (st, flag, tn, ln, next))).
Proof.
  induction curr as [|n r IH]; intros st flag tn ln next; cbn [fold_left]; [apply vz_pres_refl|].
  destruct (visit oldT newT newL (st, flag, tn, ln, next) n) as [[[[s1 f1] tn1] ln1] nx1] eqn:E.
  pose proof (visit_vz oldT newT newL st flag tn ln next n) as H. rewrite E in H. cbn in H.
  eapply vz_pres_trans; [exact H|apply IH].
Qed.

Lemma walk_vz oldT newT newL : forall fuel st curr flag tn ln st' tn' ln',
  walk fuel oldT newT newL st curr flag tn ln = Some (st', tn', ln') -> vz_pres st st'.
Proof.
  induction fuel as [|f IH]; intros st curr flag tn ln st' tn' ln' H.
  - destruct curr; cbn in H; [injection H as <- _ _; apply vz_pres_refl|discriminate].
  - destruct curr as [|c cs]; [cbn in H; injection H as <- _ _; apply vz_pres_refl|].
    cbn [walk] in H.
    destruct (fold_left (visit oldT newT newL) (c :: cs) (st, flag, tn, ln, [])) as [[[[s1 f1] tn1] ln1] nx1] eqn:E.
    pose proof (level_vz oldT newT newL (c :: cs) st flag tn ln []) as L. rewrite E in L. cbn in L.
    eapply vz_pres_trans; [exact L|]. eapply IH; eauto.
Qed.

Lemma vz_pres_upd_bk s b : vz_pres s (upd_bk s b).
Proof. intros m k _ H. exact H. Qed.

Theorem do_upd_track_vz st start newT newL : vz_pres st (rstate (do_upd_track st start newT newL)).
Proof.
  unfold do_upd_track.
  destruct (has_node st start); cbn [negb]; [|apply vz_pres_refl].
  destruct (zattr st start KTrack) as [oldT|]; [|apply vz_pres_refl].
  destruct (trk_act (ft st)); cbn [negb]; [|apply vz_pres_refl].
  destruct (walk _ _ _ _ _ _ _ _ _) as [[[st1 tn] ln]|] eqn:W; [|apply vz_pres_refl].
  apply walk_vz in W.
  destruct (if lin_act (ft st) then newL else None) as [l|]; cbn [rstate];
    (eapply vz_pres_trans; [exact W|apply vz_pres_upd_bk]).
Qed.

(* same structure + integer ids kept: W_dict and W_forest carry over *)
Lemma same_struct_W_dict s s' : same_struct s s' -> vz_pres s s' -> W_dict s -> W_dict s'.
Proof.
  intros H Hv Hd. pose proof H as (H1&H2&H3&H4&_).
  assert (forall n, is_node s' n <-> is_node s n) as Hn by (intros n; apply (same_struct_is_node _ _ _ H)).
  constructor.
  - rewrite H1. apply (wd_nodup _ Hd).
  - rewrite H2. apply (wd_succ_nodup _ Hd).
  - intros n. rewrite Hn, H2. apply (wd_succ_keys _ Hd).
  - intros u. rewrite (same_struct_successors _ _ _ H). apply (wd_adj_nodup _ Hd).
  - intros u v E. rewrite !Hn. apply (wd_edge_nodes _ Hd). now apply (same_struct_edge _ _ _ _ H).
  - intros n Hin. rewrite H3 by discriminate. apply (wd_time _ Hd). now apply Hn.
  - intros n Hin. apply (Hv n KTrack (or_introl eq_refl)). apply (wd_track _ Hd). now apply Hn.
  - intros n Hin. apply (Hv n KLin (or_intror eq_refl)). apply (wd_lin _ Hd). now apply Hn.
  - intros n. apply H4. apply (wd_attr_nodup _ Hd).
Qed.

Lemma same_struct_W_forest s s' : same_struct s s' -> W_forest s -> W_forest s'.
Proof.
  intros H Hf. constructor.
  - intros u u' v E1 E2. apply (wf_in _ Hf u u' v); now apply (same_struct_edge _ _ _ _ H).
  - intros u. rewrite (same_struct_successors _ _ _ H). apply (wf_out _ Hf).
  - intros u v E. rewrite !(same_struct_time _ _ _ H). apply (wf_time _ Hf). now apply (same_struct_edge _ _ _ _ H).
Qed.

(* ================================================================== which nodes the walk relabels *)
From Coq Require Import Relations.

Definition reach (st : state) : Z -> Z -> Prop := clos_refl_trans Z (edge st).
Definition from (st : state) (fr : list Z) (n : Z) : Prop := exists x, In x fr /\ reach st x n.

Lemma reach_same_struct s s' a b : same_struct s s' -> (reach s' a b <-> reach s a b).
Proof.
  intros H. split; induction 1.
  - apply rt_step. now apply (same_struct_edge _ _ _ _ H).
  - apply rt_refl.
  - eapply rt_trans; eauto.
  - apply rt_step. now apply (same_struct_edge _ _ _ _ H).
  - apply rt_refl.
  - eapply rt_trans; eauto.
Qed.

Lemma from_same_struct s s' fr n : same_struct s s' -> (from s' fr n <-> from s fr n).
Proof. intros H. unfold from. split; intros (x & Hx & Hr); exists x; (split; [exact Hx|now apply (reach_same_struct _ _ _ _ H)]). Qed.

Lemma from_step st fr n : from st fr n <-> In n fr \/ from st (flat_map (successors st) fr) n.
Proof.
  split.
  - intros [x [I A]]. apply clos_rt_rt1n in A. inversion A as [|y z Hxy Hyz]; subst; [left; auto|].
    right. exists y. split; [apply in_flat_map; exists x; split; [exact I|now apply edge_successors]|now apply clos_rt1n_rt].
  - intros [I|[y [I A]]]; [exists n; split; [exact I|apply rt_refl]|].
    apply in_flat_map in I. destruct I as [x [Ix Iy]]. exists x. split; [exact Ix|].
    eapply rt_trans; [apply rt_step; apply edge_successors; exact Iy|exact A].
Qed.

Lemma reach_is_node st a b : W_dict st -> is_node st a -> reach st a b -> is_node st b.
Proof. intros Hd Ha H. induction H as [x y Hxy| |x y z _ IH1 _ IH2]; auto. apply (wd_edge_nodes _ Hd x y Hxy). Qed.

(* ---- the lineage attribute ---- *)
Lemma visit_klin oldT newT newL st flag tn ln next x m :
  attr (acc_state (visit oldT newT newL (st, flag, tn, ln, next) x)) m KLin =
    match newL with
    | Some l => if (m =? x) && has_node st x then Some (VZ l) else attr st m KLin
    | None => attr st m KLin
    end.
Proof.
  assert (K : forall s a v, attr (set_node_attr s a KTrack v) m KLin = attr s m KLin)
    by (intros s a v; apply sna_attr_other; right; discriminate).
  unfold visit. destruct newL as [l|].
  - set (s1 := set_node_attr st x KLin (VZ l)).
    assert (E1 : attr s1 m KLin = if (m =? x) && has_node st x then Some (VZ l) else attr st m KLin).
    { unfold s1. destruct (Z.eqb_spec m x) as [->|Hm]; cbn [andb].
      - destruct (has_node st x) eqn:Hx.
        + apply sna_attr_same. now apply has_node_is_node.
        + unfold set_node_attr. unfold has_node, haskey in Hx. destruct (lookup x (nodes (g st))); [discriminate|reflexivity].
      - apply sna_attr_other. now left. }
    destruct flag; [destruct (match zattr s1 x KTrack with Some t => t =? oldT | None => false end)|]; cbn [acc_state]; rewrite ?K; exact E1.
  - destruct flag; [destruct (match zattr st x KTrack with Some t => t =? oldT | None => false end)|]; cbn [acc_state]; rewrite ?K; reflexivity.
Qed.

Lemma level_klin oldT newT l : forall curr st flag tn ln next m,
  (forall x, In x curr -> is_node st x) ->
  attr (acc_state (fold_left (visit oldT newT (Some l)) curr (st, flag, tn, ln, next))) m KLin =
    if memz m curr then Some (VZ l) else attr st m KLin.
Proof.
  induction curr as [|x r IH]; intros st flag tn ln next m Hn; cbn [fold_left]; [reflexivity|].
  destruct (visit oldT newT (Some l) (st, flag, tn, ln, next) x) as [[[[s1 f1] tn1] ln1] nx1] eqn:E.
  pose proof (visit_klin oldT newT (Some l) st flag tn ln next x m) as V. rewrite E in V. cbn [acc_state] in V.
  pose proof (visit_struct oldT newT (Some l) st flag tn ln next x) as [S1 _]. rewrite E in S1. cbn [acc_state] in S1.
  rewrite IH by (intros y Hy; apply (same_struct_is_node _ _ _ S1); apply Hn; now right).
  rewrite V. assert (has_node st x = true) as -> by (apply has_node_is_node; apply Hn; now left).
  rewrite andb_true_r. unfold memz. cbn [existsb]. destruct (m =? x); cbn [orb]; [|reflexivity].
  destruct (existsb (Z.eqb m) r); reflexivity.
Qed.

Lemma level_klin_none oldT newT : forall curr st flag tn ln next m,
  attr (acc_state (fold_left (visit oldT newT None) curr (st, flag, tn, ln, next))) m KLin = attr st m KLin.
Proof.
  induction curr as [|x r IH]; intros st flag tn ln next m; cbn [fold_left]; [reflexivity|].
  destruct (visit oldT newT None (st, flag, tn, ln, next) x) as [[[[s1 f1] tn1] ln1] nx1] eqn:E.
  pose proof (visit_klin oldT newT None st flag tn ln next x m) as V. rewrite E in V. cbn [acc_state] in V.
  now rewrite IH, V.
Qed.

Lemma walk_klin_none oldT newT : forall fuel st curr flag tn ln st' tn' ln' m,
  walk fuel oldT newT None st curr flag tn ln = Some (st', tn', ln') -> attr st' m KLin = attr st m KLin.
Proof.
  induction fuel as [|f IH]; intros st curr flag tn ln st' tn' ln' m H.
  - destruct curr; cbn in H; [injection H as <- _ _; reflexivity|discriminate].
  - destruct curr as [|c cs]; [cbn in H; injection H as <- _ _; reflexivity|].
    cbn [walk] in H.
    destruct (fold_left (visit oldT newT None) (c :: cs) (st, flag, tn, ln, [])) as [[[[s1 f1] tn1] ln1] nx1] eqn:E.
    pose proof (level_klin_none oldT newT (c :: cs) st flag tn ln [] m) as L. rewrite E in L. cbn [acc_state] in L.
    rewrite (IH _ _ _ _ _ _ _ _ m H). exact L.
Qed.

(* the walk only ever writes l: a node that already carries l keeps it *)
Lemma walk_klin_keeps oldT newT l : forall fuel st curr flag tn ln st' tn' ln' m,
  W_dict st -> (forall x, In x curr -> is_node st x) ->
  walk fuel oldT newT (Some l) st curr flag tn ln = Some (st', tn', ln') ->
  attr st m KLin = Some (VZ l) -> attr st' m KLin = Some (VZ l).
Proof.
  induction fuel as [|f IH]; intros st curr flag tn ln st' tn' ln' m Hd Hn H Hm.
  - destruct curr; cbn in H; [injection H as <- _ _; exact Hm|discriminate].
  - destruct curr as [|c cs]; [cbn in H; injection H as <- _ _; exact Hm|].
    cbn [walk] in H.
    destruct (fold_left (visit oldT newT (Some l)) (c :: cs) (st, flag, tn, ln, [])) as [[[[s1 f1] tn1] ln1] nx1] eqn:E.
    pose proof (level_klin oldT newT l (c :: cs) st flag tn ln [] m Hn) as L. rewrite E in L. cbn [acc_state] in L.
    pose proof (level_struct oldT newT (Some l) (c :: cs) st flag tn ln []) as LS. cbn zeta in LS. rewrite E in LS.
    destruct LS as [S1 S2]. cbn [acc_state acc_next] in S1, S2. cbn [app] in S2. subst nx1.
    pose proof (level_vz oldT newT (Some l) (c :: cs) st flag tn ln []) as LV. rewrite E in LV. cbn [acc_state] in LV.
    assert (Hd1 : W_dict s1) by (now apply (same_struct_W_dict st s1)).
    assert (Hn1 : forall x, In x (flat_map (successors st) (c :: cs)) -> is_node s1 x).
    { intros x Hx. apply in_flat_map in Hx. destruct Hx as (u & Hu & Hux). apply (same_struct_is_node _ _ _ S1).
      apply (wd_edge_nodes _ Hd u x). now apply edge_successors. }
    apply (IH s1 _ f1 tn1 ln1 st' tn' ln' m Hd1 Hn1 H).
    rewrite L. destruct (memz m (c :: cs)); [reflexivity|exact Hm].
Qed.

(* with a new lineage id l: exactly the nodes reachable from the frontier get l *)
Lemma walk_klin oldT newT l : forall fuel st curr flag tn ln st' tn' ln' m,
  W_dict st -> (forall x, In x curr -> is_node st x) ->
  walk fuel oldT newT (Some l) st curr flag tn ln = Some (st', tn', ln') ->
  (from st curr m -> attr st' m KLin = Some (VZ l)) /\ (~ from st curr m -> attr st' m KLin = attr st m KLin).
Proof.
  induction fuel as [|f IH]; intros st curr flag tn ln st' tn' ln' m Hd Hn H.
  - destruct curr; cbn in H; [injection H as <- _ _|discriminate]. split; [intros (x & [] & _)|reflexivity].
  - destruct curr as [|c cs]; [cbn in H; injection H as <- _ _; split; [intros (x & [] & _)|reflexivity]|].
    cbn [walk] in H.
    destruct (fold_left (visit oldT newT (Some l)) (c :: cs) (st, flag, tn, ln, [])) as [[[[s1 f1] tn1] ln1] nx1] eqn:E.
    pose proof (level_klin oldT newT l (c :: cs) st flag tn ln [] m Hn) as L. rewrite E in L. cbn [acc_state] in L.
    pose proof (level_struct oldT newT (Some l) (c :: cs) st flag tn ln []) as LS. cbn zeta in LS. rewrite E in LS.
    destruct LS as [S1 S2]. cbn [acc_state acc_next] in S1, S2. cbn [app] in S2. subst nx1.
    pose proof (level_vz oldT newT (Some l) (c :: cs) st flag tn ln []) as LV. rewrite E in LV. cbn [acc_state] in LV.
    assert (Hd1 : W_dict s1) by (now apply (same_struct_W_dict st s1)).
    assert (Hn1 : forall x, In x (flat_map (successors st) (c :: cs)) -> is_node s1 x).
    { intros x Hx. apply in_flat_map in Hx. destruct Hx as (u & Hu & Hux). apply (same_struct_is_node _ _ _ S1).
      apply (wd_edge_nodes _ Hd u x). now apply edge_successors. }
    destruct (IH s1 _ f1 tn1 ln1 st' tn' ln' m Hd1 Hn1 H) as [I1 I2].
    assert (Fr : from s1 (flat_map (successors st) (c :: cs)) m <-> from st (flat_map (successors st) (c :: cs)) m)
      by (apply from_same_struct; exact S1).
    split.
    + intros F. apply from_step in F. destruct F as [Hin|F].
      * apply (walk_klin_keeps oldT newT l f s1 _ f1 tn1 ln1 st' tn' ln' m Hd1 Hn1 H).
        rewrite L. apply memz_In in Hin. now rewrite Hin.
      * apply I1. now apply Fr.
    + intros NF. assert (~ from s1 (flat_map (successors st) (c :: cs)) m) as NF1.
      { intros F. apply NF. apply from_step. right. now apply Fr. }
      rewrite (I2 NF1), L. destruct (memz m (c :: cs)) eqn:Em; [|reflexivity].
      exfalso. apply NF. apply from_step. left. now apply memz_In.
Qed.
